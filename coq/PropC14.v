(* PropC14.v — C14: tokenisation is faithful to the text.

   Proved here (facts of the lexer model, which is compared token for token
   with lexer.Lexer on every run): ASCII bytes decode to themselves; decoding
   always consumes at least one byte of a non-empty input; every state
   function is defined on every rune except the end-of-input state (whose Go
   original panics, and which is never entered with input left); a run of
   operator characters is continued, never split; the text of an emitted token
   is the input slice between from and to (string literals: after the \n
   decoding, finding K4).  The stream invariants over whole inputs are NOT
   proved; the check evaluates every clause on the real token streams. *)
Require Import Calc.Base Calc.Lexer Calc.LexerProofs Calc.LexerSpans.
Open Scope Z_scope.

Theorem C14_decode_ascii : forall b r, 0 <= b < 128 -> decode_rune (b :: r) = (b, 1).
Proof. intros b r H. unfold decode_rune. destruct (Z.ltb_spec b 128); [reflexivity|lia]. Qed.
Print Assumptions C14_decode_ascii.

Theorem C14_decode_progress : forall b r, 1 <= snd (decode_rune (b :: r)) <= 4.
Proof.
  intros b r. unfold decode_rune.
  repeat match goal with
         | |- context [if ?c then _ else _] => destruct c
         | |- context [match ?l with [] => _ | _ :: _ => _ end] => destruct l
         end; cbn; lia.
Qed.
Print Assumptions C14_decode_progress.

Theorem C14_state_fn_total_but_eof : forall st c, st <> SEof -> exists r, state_fn st c = Some r.
Proof.
  intros st c H. destruct st; try congruence; cbn;
    repeat match goal with |- context [if ?c then _ else _] => destruct c end; eexists; reflexivity.
Qed.
Print Assumptions C14_state_fn_total_but_eof.

(* inside an operator run, another operator character continues the run: no emit *)
Theorem C14_sticky_run_continues : forall c,
  str_contains stickyChars c = true -> c <> EOFr ->
  state_fn SSticky c = Some (plain SSticky).
Proof.
  intros c H Hc. cbn [state_fn]. rewrite H. destruct (Z.eqb_spec c EOFr); [contradiction|reflexivity].
Qed.
Print Assumptions C14_sticky_run_continues.

(* when Next emits, the token's text is the input between from and to
   (after \n decoding for string literals) and its span is (from, to) *)
Theorem C14_emitted_text_is_slice : forall k l st l',
  next_loop (S k) l st = NTrue l' -> finished l = false ->
  (l_to l <? l_len l) && (l_rdr l >=? l_len l) = false ->     (* the reader is in step with the cursor *)
  (forall r, state_fn st (fst (fst
       (if l_to l >=? l_len l then (EOFr, 0, l_rdr l)
        else let (r0, sz) := decode_rune (skipn (Z.to_nat (l_rdr l)) (l_input l)) in
             ((if r0 =? EOFr then RuneError else r0), sz, l_rdr l + sz)))) = Some r ->
             s_err r = None -> s_emit r = true ->
     t_from (l_token l') = l_from l /\ t_to (l_token l') = l_to l /\
     t_value (l_token l') = sb (match s_typ r with
                                | KStringLit => unescape_nl (slice (l_input l) (l_from l) (l_to l))
                                | _ => slice (l_input l) (l_from l) (l_to l)
                                end)).
Proof.
  intros k l st l' H Hf Hrd r Hr He Hm. cbn [next_loop] in H. rewrite Hf, Hrd in H.
  destruct (if l_to l >=? l_len l then (EOFr, 0, l_rdr l)
            else let (r0, sz) := decode_rune (skipn (Z.to_nat (l_rdr l)) (l_input l)) in
                 ((if r0 =? EOFr then RuneError else r0), sz, l_rdr l + sz)) as [[c0 s] rdr'] eqn:E.
  cbn [fst] in Hr. rewrite Hr, He, Hm in H. inversion H; subst; clear H. cbn. repeat split; reflexivity.
Qed.
Print Assumptions C14_emitted_text_is_slice.

(* ---- the whole stream, every input ----
   Every token of a scan lies inside the input (0 <= from <= to <= length), the
   tokens follow each other in source order and never overlap (each starts at
   or after the end of the one before); the only exceptions are the two
   synthetic tokens at the end, end-of-line and end-of-file, which carry the
   empty span (0, 0).  Nothing is claimed about an entry that carries a lexer
   error: the scan stops there. *)
Theorem C14_tokens_in_source_order : forall input, spans_ok (slen input) 0 (tokens_of input).
Proof. exact tokens_in_source_order. Qed.
Print Assumptions C14_tokens_in_source_order.

(* one call of Next from any well-formed lexer *)
Theorem C14_next_token_span : forall fuel l st l',
  cursor_ok l -> next_loop fuel l st = NTrue l' -> l_err l' = None ->
  cursor_ok l' /\ l_len l' = l_len l /\
  ((synthetic (l_token l') /\ l_from l <= l_from l') \/
   (l_from l <= t_from (l_token l') /\ t_from (l_token l') <= t_to (l_token l') /\
    t_to (l_token l') = l_from l' /\ l_from l' <= l_len l)).
Proof. exact next_loop_span. Qed.
Print Assumptions C14_next_token_span.
