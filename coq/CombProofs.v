(* CombProofs.v — C13: backtracking is invisible.  The Go-faithful interpreter
   of the combinators over the transactional lexer (run_go: Next, Snapshot,
   Commit, Rollback in the order the Go closures issue them, a replay cache,
   Go's nil/non-nil slices) computes what ordered choice computes on the plain
   token list (run_spec), for every combinator expression and every fuel.

   The lexer under the transactional lexer is abstracted as a token source: a
   predicate [Src l k] ("lexer state l is about to produce token k of toks")
   with the two hypotheses below.  They are Section hypotheses, not axioms; that
   the concrete lexer model behaves like this is what C14's and C13's
   correspondence runs compare (chk_tlex_spec). *)
Require Import Calc.Base Calc.Lexer Calc.Comb.
Require Import Lia.
Open Scope Z_scope.

Lemma firstn_snoc_nth {A} (l : list A) (w : nat) e : nth_error l w = Some e -> firstn (S w) l = firstn w l ++ [e].
Proof.
  revert w. induction l as [|x l IH]; intros w H; [destruct w; discriminate|].
  destruct w as [|w]; cbn in *; [inversion H; reflexivity|]. rewrite (IH w H). reflexivity.
Qed.

Lemma nth_firstn {A} (l : list A) (w k : nat) : (k < w)%nat -> nth_error (firstn w l) k = nth_error l k.
Proof.
  revert w k. induction l as [|x l IH]; intros w k H; [destruct w, k; reflexivity|].
  destruct w as [|w]; [lia|]. destruct k as [|k]; cbn; [reflexivity|]. apply IH. lia.
Qed.

Section TokenSource.
  Variable toks : list lexres.
  Variable Src : lexer -> nat -> Prop.
  Hypothesis Src_more : forall l k e, Src l k -> nth_error toks k = Some e ->
    exists l', lexer_next l = NTrue l' /\
               {| r_token := l_token l'; r_err := l_err l'; r_from := l_from l'; r_to := l_to l' |} = e /\ Src l' (S k).
  Hypothesis Src_done : forall l, Src l (List.length toks) -> exists l', lexer_next l = NFalse l' /\ Src l' (List.length toks).

  (* the cache is a prefix of the token list, the lexer stands right behind it,
     the read pointer and every saved pointer lie inside the cache *)
  Definition Rk (t : tlexer) : Prop :=
    exists w : nat,
      tl_writep t = Z.of_nat w /\ tl_stack t = firstn w toks /\ (w <= List.length toks)%nat /\ Src (tl_lexer t) w /\
      -1 <= tl_readp t < Z.of_nat w /\ Forall (fun p => -1 <= p < Z.of_nat w) (tl_pointers t).

  Definition Rt (t : tlexer) (pos : Z) : Prop := Rk t /\ tl_readp t = pos.

  (* what Next does *)
  Lemma next_spec t pos :
    Rt t pos ->
    (pos + 1 < Z.of_nat (List.length toks) ->
       exists t', tl_next t = TNTrue t' /\ Rt t' (pos + 1) /\ tl_pointers t' = tl_pointers t /\
                  tl_cur t' = nth_error toks (Z.to_nat (pos + 1))) /\
    (Z.of_nat (List.length toks) <= pos + 1 ->
       exists t', tl_next t = TNFalse t' /\ Rt t' pos /\ tl_pointers t' = tl_pointers t /\
                  tl_cur t' = (if pos <? 0 then None else nth_error toks (Z.to_nat pos))).
  Proof.
    intros [(w & Ew & Es & Hw & Hs & Hr & Hp) Epos]. subst pos. split; intros H.
    - unfold tl_next. destruct (Z.ltb_spec (tl_readp t) (tl_writep t - 1)) as [Hl|Hl].
      + eexists. split; [reflexivity|]. split; [split; [|reflexivity]|split; [reflexivity|]].
        * exists w. cbn [tl_readp tl_pointers tl_stack tl_writep tl_lexer]. repeat split; try assumption; try lia.
        * unfold tl_cur. cbn [tl_readp tl_stack]. destruct (Z.ltb_spec (tl_readp t + 1) 0); [lia|].
          rewrite Es. apply nth_firstn. lia.
      + assert (Ew' : tl_readp t = Z.of_nat w - 1) by lia.
        assert (Hn : exists e, nth_error toks w = Some e).
        { destruct (nth_error toks w) eqn:E; [eauto|]. apply nth_error_None in E. lia. }
        destruct Hn as [e He]. destruct (Src_more _ _ _ Hs He) as (l' & En & Ee & Hs').
        rewrite En. eexists. split; [reflexivity|]. split; [split; [|reflexivity]|split; [reflexivity|]].
        * exists (S w). cbn [tl_readp tl_pointers tl_stack tl_writep tl_lexer]. rewrite Ee. repeat split; try lia.
          -- rewrite Es. symmetry. apply firstn_snoc_nth, He.
          -- exact Hs'.
          -- eapply Forall_impl; [|exact Hp]. intros p Hpp. cbn in Hpp. lia.
        * unfold tl_cur. cbn [tl_readp tl_stack]. destruct (Z.ltb_spec (tl_readp t + 1) 0); [lia|].
          rewrite Ee, Es, Ew'. replace (Z.to_nat (Z.of_nat w - 1 + 1)) with w by lia.
          rewrite nth_error_app2 by (rewrite firstn_length; lia). rewrite firstn_length.
          replace (w - Nat.min w (List.length toks))%nat with 0%nat by lia. cbn. symmetry. exact He.
    - assert (Ew' : w = List.length toks /\ tl_readp t = Z.of_nat w - 1) by lia. destruct Ew' as [Ewl Er].
      unfold tl_next. destruct (Z.ltb_spec (tl_readp t) (tl_writep t - 1)) as [Hl|Hl]; [lia|].
      rewrite Ewl in Hs. destruct (Src_done _ Hs) as (l' & En & Hs'). rewrite En.
      eexists. split; [reflexivity|]. split; [split; [|reflexivity]|split; [reflexivity|]].
      + exists w. cbn [tl_readp tl_pointers tl_stack tl_writep tl_lexer]. rewrite Ewl. repeat split; try assumption; try lia.
        * rewrite Es, Ewl. reflexivity.
        * rewrite <- Ewl. exact Hp.
      + unfold tl_cur. cbn [tl_readp tl_stack]. destruct (Z.ltb_spec (tl_readp t) 0); [reflexivity|].
        rewrite Es. apply nth_firstn. lia.
  Qed.

  (* how a result of the Go-faithful interpreter corresponds to a result of the specification *)
  Definition sim (t0 : tlexer) (g : gores) (s : sres) : Prop :=
    match g, s with
    | GRes t' (Some n, None), SOk n' pos' => n = n' /\ Rt t' pos' /\ tl_pointers t' = tl_pointers t0
    | GRes t' (_, Some e), SFail e' => e = e' /\ Rk t' /\ tl_pointers t' = tl_pointers t0
    | GPanic _, SPanic => True
    | GFuel, SFuel => True
    | _, _ => False
    end.

  Lemma accept_sim v t pos : Rt t pos -> sim t (go_accept v t) (spec_accept v toks pos).
  Proof.
    intros R. destruct (next_spec t pos R) as [Hmore Hdone].
    unfold go_accept, spec_accept.
    destruct (Z.ltb_spec (pos + 1) (Z.of_nat (List.length toks))) as [Hl|Hl].
    - destruct (Hmore Hl) as (t' & En & Rt' & Ep & Ec). rewrite En, Ec.
      destruct (nth_error toks (Z.to_nat (pos + 1))) as [e|] eqn:E.
      + destruct (r_err e) as [m|].
        * cbn. repeat split; [apply Rt'|exact Ep].
        * destruct (String.eqb (t_value (r_token e)) v); cbn; repeat split; try apply Rt'; try exact Ep.
      + exact I.
    - destruct (Hdone Hl) as (t' & En & Rt' & Ep & Ec). rewrite En, Ec.
      destruct (if pos <? 0 then None else nth_error toks (Z.to_nat pos)) as [e|]; [|exact I].
      cbn. repeat split; [apply Rt'|exact Ep].
  Qed.

  (* ---- snapshots ---- *)
  Lemma snap_facts t pos : Rt t pos -> Rt (tl_snapshot t) pos /\ tl_pointers (tl_snapshot t) = tl_pointers t ++ [pos].
  Proof.
    intros [(w & Ew & Es & Hw & Hs & Hr & Hp) E]. subst pos. split; [|reflexivity]. split; [|reflexivity].
    exists w. cbn [tl_snapshot tl_writep tl_stack tl_lexer tl_readp tl_pointers]. repeat split; try assumption; try lia.
    apply Forall_app. split; [exact Hp|]. constructor; [lia|constructor].
  Qed.

  Lemma commit_facts t1 ps p :
    Rk t1 -> tl_pointers t1 = ps ++ [p] ->
    exists t2, tl_commit t1 = Some t2 /\ Rk t2 /\ tl_readp t2 = tl_readp t1 /\ tl_pointers t2 = ps.
  Proof.
    intros (w & Ew & Es & Hw & Hs & Hr & Hp) E. rewrite E in Hp. apply Forall_app in Hp. destruct Hp as [Hp1 Hp2].
    unfold tl_commit. rewrite E.
    destruct (ps ++ [p]) eqn:E2; [destruct ps; discriminate|]. rewrite <- E2. eexists. split; [reflexivity|].
    cbn [tl_readp tl_pointers]. rewrite removelast_last. repeat split.
    exists w. cbn [tl_writep tl_stack tl_lexer tl_readp tl_pointers]. repeat split; try assumption; try lia.
  Qed.

  Lemma rollback_facts t1 ps p :
    Rk t1 -> tl_pointers t1 = ps ++ [p] ->
    exists t2, tl_rollback t1 = Some t2 /\ Rt t2 p /\ tl_pointers t2 = ps.
  Proof.
    intros (w & Ew & Es & Hw & Hs & Hr & Hp) E. rewrite E in Hp. apply Forall_app in Hp. destruct Hp as [Hp1 Hp2]. inversion Hp2; subst.
    unfold tl_rollback. rewrite E.
    destruct (ps ++ [p]) eqn:E2; [destruct ps; discriminate|]. rewrite <- E2. eexists. split; [reflexivity|].
    cbn [tl_readp tl_pointers]. rewrite removelast_last, last_last. split; [|reflexivity]. split; [|reflexivity].
    exists w. cbn [tl_writep tl_stack tl_lexer tl_readp tl_pointers]. repeat split; try assumption; try lia.
  Qed.

  Tactic Notation "simcases" hyp(H) constr(g) constr(s) "as" ident(t1) ident(n1) ident(e1) ident(n2) ident(p2) ident(e2) :=
    destruct g as [t1 [[n1|] [e1|]]|?w|]; destruct s as [n2 p2|e2| |]; cbn [sim] in H; try contradiction.

  (* ---- the theorem ---- *)
  Theorem go_is_spec : forall k p t pos, Rt t pos -> sim t (run_go k p t) (run_spec k p toks pos).
  Proof.
    induction k as [|k IH]; intros p t pos R; [exact I|].
    destruct p; cbn [run_go run_spec].
    - (* accept *) apply accept_sim, R.
    - (* ok *) cbn. repeat split; apply R.
    - (* and *)
      pose proof (IH p1 t pos R) as Ha.
      simcases Ha (run_go k p1 t) (run_spec k p1 toks pos) as t1 na ea na' pa ea'; cbn [gbind snd fst].
      + destruct Ha as (-> & R1 & P1). repeat split; assumption.
      + destruct Ha as (-> & R1 & P1).
        pose proof (IH p2 t1 pa R1) as Hb.
        simcases Hb (run_go k p2 t1) (run_spec k p2 toks pa) as t2 nb eb nb' pb eb'; cbn [gbind snd fst append_nodes].
        * destruct Hb as (-> & R2 & P2). repeat split; [exact R2|congruence].
        * destruct Hb as (-> & R2 & P2). repeat split; [apply R2|apply R2|congruence].
        * destruct Hb as (-> & R2 & P2). repeat split; [exact R2|congruence].
        * exact I.
        * exact I.
      + destruct Ha as (-> & R1 & P1). repeat split; assumption.
      + exact I.
      + exact I.
    - (* one of *)
      destruct ps as [|q0 ps0]; [exact I|].
      pose (G := fix go (l : list pexp) (t0 : tlexer) (lastErr : option perr) {struct l} : gores :=
                   match l with
                   | [] => GRes t0 (None, lastErr)
                   | q :: l' =>
                       gbind (run_go k q (tl_snapshot t0)) (fun t1 r =>
                         match snd r with
                         | None => pop_or_panic (tl_commit t1) (fun t2 => GRes t2 (fst r, None))
                         | Some e => pop_or_panic (tl_rollback t1) (fun t2 => go l' t2 (Some e))
                         end)
                   end).
      pose (S := fix go (l : list pexp) (last : sres) {struct l} : sres :=
                   match l with
                   | [] => last
                   | q :: l' =>
                       match run_spec k q toks pos with
                       | SOk n p1 => SOk n p1
                       | SFail e => go l' (SFail e)
                       | x => x
                       end
                   end).
      change (sim t (G (q0 :: ps0) t None) (S (q0 :: ps0) SPanic)).
      assert (Hgo : forall l t' lastErr last, Rt t' pos -> tl_pointers t' = tl_pointers t ->
                      (l = [] -> exists e, lastErr = Some e /\ last = SFail e) ->
                      sim t (G l t' lastErr) (S l last)).
      { induction l as [|q l IHl]; intros t' lastErr last R' P' Hl.
        - destruct (Hl eq_refl) as (e & -> & ->). cbn. repeat split; [apply R'|exact P'].
        - destruct (snap_facts t' pos R') as [Rs Ps].
          pose proof (IH q (tl_snapshot t') pos Rs) as Hq. cbn [G S]. fold G. fold S.
          simcases Hq (run_go k q (tl_snapshot t')) (run_spec k q toks pos) as t1 nq eq nq' pq eq'; cbn [gbind snd fst]; try exact I.
          + destruct Hq as (-> & R1 & P1). rewrite Ps in P1.
            destruct (rollback_facts t1 _ _ R1 P1) as (t2 & E2 & R2 & P2). rewrite E2. cbn [pop_or_panic].
            apply IHl; [exact R2|congruence|]. intros _. eauto.
          + destruct Hq as (-> & R1 & P1). rewrite Ps in P1.
            destruct (commit_facts t1 _ _ (proj1 R1) P1) as (t2 & E2 & R2 & Er & P2). rewrite E2. cbn [pop_or_panic sim].
            repeat split; [exact R2|rewrite Er; apply R1|congruence].
          + destruct Hq as (-> & R1 & P1). rewrite Ps in P1.
            destruct (rollback_facts t1 _ _ R1 P1) as (t2 & E2 & R2 & P2). rewrite E2. cbn [pop_or_panic].
            apply IHl; [exact R2|congruence|]. intros _. eauto. }
      apply Hgo; [exact R|reflexivity|discriminate].
    - (* choose *)
      pose (G := fix go (l : list (pexp * pexp)) (t0 : tlexer) {struct l} : gores :=
                   match l with
                   | [] => GPanic "no predicates succeeded in choice"
                   | (g, s) :: l' =>
                       gbind (run_go k g (tl_snapshot t0)) (fun t1 rg =>
                         match snd rg with
                         | None =>
                             pop_or_panic (tl_commit t1) (fun t2 =>
                               gbind (run_go k s t2) (fun t3 rs =>
                                 match fst rs with
                                 | Some _ => GRes t3 (append_nodes (fst rg) (fst rs), snd rs)
                                 | None => GRes t3 (None, snd rs)
                                 end))
                         | Some _ => pop_or_panic (tl_rollback t1) (fun t2 => go l' t2)
                         end)
                   end).
      pose (S := fix go (l : list (pexp * pexp)) : sres :=
                   match l with
                   | [] => SPanic
                   | (g, s) :: l' =>
                       match run_spec k g toks pos with
                       | SOk ng p1 =>
                           match run_spec k s toks p1 with
                           | SOk ns p2 => SOk (ng ++ ns) p2
                           | x => x
                           end
                       | SFail _ => go l'
                       | x => x
                       end
                   end).
      change (sim t (G cs t) (S cs)).
      assert (Hgo : forall l t', Rt t' pos -> tl_pointers t' = tl_pointers t -> sim t (G l t') (S l)).
      { induction l as [|[g s] l IHl]; intros t' R' P'; [exact I|].
        destruct (snap_facts t' pos R') as [Rs Ps].
        pose proof (IH g (tl_snapshot t') pos Rs) as Hg. cbn [G S]. fold G. fold S.
        simcases Hg (run_go k g (tl_snapshot t')) (run_spec k g toks pos) as t1 ng eg ng' pg eg'; cbn [gbind snd fst]; try exact I.
        - destruct Hg as (-> & R1 & P1). rewrite Ps in P1.
          destruct (rollback_facts t1 _ _ R1 P1) as (t2 & E2 & R2 & P2). rewrite E2. cbn [pop_or_panic].
          apply IHl; [exact R2|congruence].
        - destruct Hg as (-> & R1 & P1). rewrite Ps in P1.
          destruct (commit_facts t1 _ _ (proj1 R1) P1) as (t2 & E2 & R2 & Er & P2). rewrite E2. cbn [pop_or_panic].
          assert (R2' : Rt t2 pg) by (split; [exact R2|rewrite Er; apply R1]).
          pose proof (IH s t2 pg R2') as Hs.
          simcases Hs (run_go k s t2) (run_spec k s toks pg) as t3 ns es ns' ps es'; cbn [gbind snd fst append_nodes sim]; try exact I.
          + destruct Hs as (-> & R3 & P3). repeat split; [exact R3|congruence].
          + destruct Hs as (-> & R3 & P3). repeat split; [apply R3|apply R3|congruence].
          + destruct Hs as (-> & R3 & P3). repeat split; [exact R3|congruence].
        - destruct Hg as (-> & R1 & P1). rewrite Ps in P1.
          destruct (rollback_facts t1 _ _ R1 P1) as (t2 & E2 & R2 & P2). rewrite E2. cbn [pop_or_panic].
          apply IHl; [exact R2|congruence]. }
      apply Hgo; [exact R|reflexivity].
    - (* any *)
      pose (G := fix loop (n : nat) (t0 : tlexer) (acc : list node) {struct n} : gores :=
                   match n with
                   | O => GFuel
                   | S n' =>
                       gbind (run_go k p1 (tl_snapshot t0)) (fun t1 rg =>
                         match snd rg with
                         | None =>
                             pop_or_panic (tl_commit t1) (fun t2 =>
                               gbind (run_go k p2 t2) (fun t3 rs =>
                                 let acc' := acc ++ (match fst rg with Some l => l | None => [] end)
                                                 ++ (match fst rs with Some l => l | None => [] end) in
                                 match snd rs with
                                 | Some e => GRes t3 (Some acc', Some e)
                                 | None => loop n' t3 acc'
                                 end))
                         | Some _ => pop_or_panic (tl_rollback t1) (fun t2 => GRes t2 (Some acc, None))
                         end)
                   end).
      pose (S := fix loop (n : nat) (pos0 : Z) (acc : list node) {struct n} : sres :=
                   match n with
                   | O => SFuel
                   | S n' =>
                       match run_spec k p1 toks pos0 with
                       | SOk ng q1 =>
                           match run_spec k p2 toks q1 with
                           | SOk ns q2 => loop n' q2 (acc ++ ng ++ ns)
                           | x => x
                           end
                       | SFail _ => SOk acc pos0
                       | x => x
                       end
                   end).
      change (sim t (G k t []) (S k pos [])).
      assert (Hgo : forall n t' pos' acc, Rt t' pos' -> tl_pointers t' = tl_pointers t -> sim t (G n t' acc) (S n pos' acc)).
      { induction n as [|n IHn]; intros t' pos' acc R' P'; [exact I|].
        destruct (snap_facts t' pos' R') as [Rs Ps].
        pose proof (IH p1 (tl_snapshot t') pos' Rs) as Hg. cbn [G S]. fold G. fold S.
        simcases Hg (run_go k p1 (tl_snapshot t')) (run_spec k p1 toks pos') as t1 ng eg ng' pg eg'; cbn [gbind snd fst]; try exact I.
        - destruct Hg as (-> & R1 & P1). rewrite Ps in P1.
          destruct (rollback_facts t1 _ _ R1 P1) as (t2 & E2 & R2 & P2). rewrite E2. cbn [pop_or_panic sim].
          repeat split; [apply R2|apply R2|congruence].
        - destruct Hg as (-> & R1 & P1). rewrite Ps in P1.
          destruct (commit_facts t1 _ _ (proj1 R1) P1) as (t2 & E2 & R2 & Er & P2). rewrite E2. cbn [pop_or_panic].
          assert (R2' : Rt t2 pg) by (split; [exact R2|rewrite Er; apply R1]).
          pose proof (IH p2 t2 pg R2') as Hs.
          simcases Hs (run_go k p2 t2) (run_spec k p2 toks pg) as t3 ns es ns' ps es'; cbn [gbind snd fst sim]; try exact I.
          + destruct Hs as (-> & R3 & P3). repeat split; [exact R3|congruence].
          + destruct Hs as (-> & R3 & P3). apply IHn; [exact R3|congruence].
          + destruct Hs as (-> & R3 & P3). repeat split; [exact R3|congruence].
        - destruct Hg as (-> & R1 & P1). rewrite Ps in P1.
          destruct (rollback_facts t1 _ _ R1 P1) as (t2 & E2 & R2 & P2). rewrite E2. cbn [pop_or_panic sim].
          repeat split; [apply R2|apply R2|congruence]. }
      apply Hgo; [exact R|reflexivity].
    - (* separated by *)
      pose (G := fix loop (n : nat) (t0 : tlexer) (acc : option (list node)) {struct n} : gores :=
                   match n with
                   | O => GFuel
                   | S n' =>
                       gbind (run_go k p2 (tl_snapshot t0)) (fun tb rb =>
                         match snd rb with
                         | Some _ => pop_or_panic (tl_rollback tb) (fun t' => GRes t' (acc, None))
                         | None =>
                             gbind (run_go k p1 tb) (fun ta ra' =>
                               match snd ra' with
                               | Some _ => pop_or_panic (tl_rollback ta) (fun t' => GRes t' (acc, None))
                               | None => pop_or_panic (tl_commit ta) (fun t' => loop n' t' (append_nodes acc (fst ra')))
                               end)
                         end)
                   end).
      pose (S := fix loop (n : nat) (pos0 : Z) (acc : list node) {struct n} : sres :=
                   match n with
                   | O => SFuel
                   | S n' =>
                       match run_spec k p2 toks pos0 with
                       | SOk _ pb =>
                           match run_spec k p1 toks pb with
                           | SOk na' pa => loop n' pa (acc ++ na')
                           | SFail _ => SOk acc pos0
                           | x => x
                           end
                       | SFail _ => SOk acc pos0
                       | x => x
                       end
                   end).
      assert (Hgo : forall n t' pos' acc, Rt t' pos' -> tl_pointers t' = tl_pointers t ->
                      sim t (G n t' (Some acc)) (S n pos' acc)).
      { induction n as [|n IHn]; intros t' pos' acc R' P'; [exact I|].
        destruct (snap_facts t' pos' R') as [Rs Ps].
        pose proof (IH p2 (tl_snapshot t') pos' Rs) as Hb. cbn [G S]. fold G. fold S.
        simcases Hb (run_go k p2 (tl_snapshot t')) (run_spec k p2 toks pos') as tb nb eb nb' pb eb'; cbn [gbind snd fst]; try exact I.
        - destruct Hb as (-> & R1 & P1). rewrite Ps in P1.
          destruct (rollback_facts tb _ _ R1 P1) as (t2 & E2 & R2 & P2). rewrite E2. cbn [pop_or_panic sim].
          repeat split; [apply R2|apply R2|congruence].
        - destruct Hb as (-> & R1 & P1). rewrite Ps in P1.
          pose proof (IH p1 tb pb R1) as Ha.
          simcases Ha (run_go k p1 tb) (run_spec k p1 toks pb) as ta na ea na' pa ea'; cbn [gbind snd fst]; try exact I.
          + destruct Ha as (-> & Ra & Pa). rewrite P1 in Pa.
            destruct (rollback_facts ta _ _ Ra Pa) as (t2 & E2 & R2 & P2). rewrite E2. cbn [pop_or_panic sim].
            repeat split; [apply R2|apply R2|congruence].
          + destruct Ha as (-> & Ra & Pa). rewrite P1 in Pa.
            destruct (commit_facts ta _ _ (proj1 Ra) Pa) as (t2 & E2 & R2 & Er & P2). rewrite E2. cbn [pop_or_panic append_nodes].
            apply IHn; [split; [exact R2|rewrite Er; apply Ra]|congruence].
          + destruct Ha as (-> & Ra & Pa). rewrite P1 in Pa.
            destruct (rollback_facts ta _ _ Ra Pa) as (t2 & E2 & R2 & P2). rewrite E2. cbn [pop_or_panic sim].
            repeat split; [apply R2|apply R2|congruence].
        - destruct Hb as (-> & R1 & P1). rewrite Ps in P1.
          destruct (rollback_facts tb _ _ R1 P1) as (t2 & E2 & R2 & P2). rewrite E2. cbn [pop_or_panic sim].
          repeat split; [apply R2|apply R2|congruence]. }
      destruct (snap_facts t pos R) as [Rs Ps].
      pose proof (IH p1 (tl_snapshot t) pos Rs) as Ha. fold G. fold S.
      simcases Ha (run_go k p1 (tl_snapshot t)) (run_spec k p1 toks pos) as t1 na ea na' pa ea'; cbn [gbind snd fst]; try exact I.
      + destruct Ha as (-> & R1 & P1). rewrite Ps in P1.
        destruct (rollback_facts t1 _ _ R1 P1) as (t2 & E2 & R2 & P2). rewrite E2. cbn [pop_or_panic sim].
        repeat split; [apply R2|apply R2|congruence].
      + destruct Ha as (-> & R1 & P1). rewrite Ps in P1.
        destruct (commit_facts t1 _ _ (proj1 R1) P1) as (t2 & E2 & R2 & Er & P2). rewrite E2. cbn [pop_or_panic].
        apply Hgo; [split; [exact R2|rewrite Er; apply R1]|congruence].
      + destruct Ha as (-> & R1 & P1). rewrite Ps in P1.
        destruct (rollback_facts t1 _ _ R1 P1) as (t2 & E2 & R2 & P2). rewrite E2. cbn [pop_or_panic sim].
        repeat split; [apply R2|apply R2|congruence].
    - (* surrounded by *)
      pose proof (IH p1 t pos R) as Ha.
      simcases Ha (run_go k p1 t) (run_spec k p1 toks pos) as t1 na ea na' pa ea'; cbn [gbind snd fst].
      + destruct Ha as (-> & R1 & P1). repeat split; assumption.
      + destruct Ha as (-> & R1 & P1).
        pose proof (IH p2 t1 pa R1) as Hb.
        simcases Hb (run_go k p2 t1) (run_spec k p2 toks pa) as t2 nb eb nb' pb eb'; cbn [gbind snd fst].
        * destruct Hb as (-> & R2 & P2). repeat split; [exact R2|congruence].
        * destruct Hb as (-> & R2 & P2).
          pose proof (IH p3 t2 pb R2) as Hc.
          simcases Hc (run_go k p3 t2) (run_spec k p3 toks pb) as t3 nc ec nc' pc ec'; cbn [gbind snd fst].
          -- destruct Hc as (-> & R3 & P3). repeat split; [exact R3|congruence].
          -- destruct Hc as (-> & R3 & P3). repeat split; [apply R3|apply R3|congruence].
          -- destruct Hc as (-> & R3 & P3). repeat split; [exact R3|congruence].
          -- exact I.
          -- exact I.
        * destruct Hb as (-> & R2 & P2). repeat split; [exact R2|congruence].
        * exact I.
        * exact I.
      + destruct Ha as (-> & R1 & P1). repeat split; assumption.
      + exact I.
      + exact I.
    - (* assert *)
      destruct (snap_facts t pos R) as [Rs Ps].
      pose proof (IH p (tl_snapshot t) pos Rs) as Hq.
      simcases Hq (run_go k p (tl_snapshot t)) (run_spec k p toks pos) as t1 nq eq nq' pq eq'; cbn [gbind snd fst]; try exact I.
      + destruct Hq as (-> & R1 & P1). rewrite Ps in P1.
        destruct (rollback_facts t1 _ _ R1 P1) as (t2 & E2 & R2 & P2). rewrite E2. cbn [pop_or_panic sim].
        repeat split; [apply R2|exact P2].
      + destruct Hq as (-> & R1 & P1). rewrite Ps in P1.
        destruct (rollback_facts t1 _ _ (proj1 R1) P1) as (t2 & E2 & R2 & P2). rewrite E2. cbn [pop_or_panic sim].
        repeat split; [apply R2|apply R2|exact P2].
      + destruct Hq as (-> & R1 & P1). rewrite Ps in P1.
        destruct (rollback_facts t1 _ _ R1 P1) as (t2 & E2 & R2 & P2). rewrite E2. cbn [pop_or_panic sim].
        repeat split; [apply R2|exact P2].
    - (* not *)
      destruct (snap_facts t pos R) as [Rs Ps].
      pose proof (IH p (tl_snapshot t) pos Rs) as Hq.
      simcases Hq (run_go k p (tl_snapshot t)) (run_spec k p toks pos) as t1 nq eq nq' pq eq'; cbn [gbind snd fst]; try exact I.
      + destruct Hq as (-> & R1 & P1). rewrite Ps in P1.
        destruct (rollback_facts t1 _ _ R1 P1) as (t2 & E2 & R2 & P2). rewrite E2. cbn [pop_or_panic sim].
        repeat split; [apply R2|apply R2|exact P2].
      + destruct Hq as (-> & R1 & P1). rewrite Ps in P1.
        destruct (rollback_facts t1 _ _ (proj1 R1) P1) as (t2 & E2 & R2 & P2). rewrite E2. cbn [pop_or_panic sim].
        repeat split; [apply R2|exact P2].
      + destruct Hq as (-> & R1 & P1). rewrite Ps in P1.
        destruct (rollback_facts t1 _ _ R1 P1) as (t2 & E2 & R2 & P2). rewrite E2. cbn [pop_or_panic sim].
        repeat split; [apply R2|apply R2|exact P2].
    - (* drop *)
      pose proof (IH p t pos R) as Hq.
      simcases Hq (run_go k p t) (run_spec k p toks pos) as t1 nq eq nq' pq eq'; cbn [gbind snd fst]; try exact I.
      + destruct Hq as (-> & R1 & P1). repeat split; assumption.
      + destruct Hq as (-> & R1 & P1). repeat split; [apply R1|apply R1|exact P1].
      + destruct Hq as (-> & R1 & P1). repeat split; assumption.
    - (* fmap *)
      pose proof (IH p t pos R) as Hq.
      simcases Hq (run_go k p t) (run_spec k p toks pos) as t1 nq eq nq' pq eq'; cbn [gbind snd fst]; try exact I.
      + destruct Hq as (-> & R1 & P1). repeat split; assumption.
      + destruct Hq as (-> & R1 & P1). destruct f; cbn [apply_fmap sim]; repeat split; try apply R1; exact P1.
      + destruct Hq as (-> & R1 & P1). repeat split; assumption.
  Qed.
End TokenSource.

(* from the start of the input: nothing cached, nothing read, no snapshot *)
Theorem backtracking_is_invisible :
  forall (toks : list lexres) (Src : lexer -> nat -> Prop),
    (forall l k e, Src l k -> nth_error toks k = Some e ->
       exists l', lexer_next l = NTrue l' /\
                  {| r_token := l_token l'; r_err := l_err l'; r_from := l_from l'; r_to := l_to l' |} = e /\ Src l' (S k)) ->
    (forall l, Src l (List.length toks) -> exists l', lexer_next l = NFalse l' /\ Src l' (List.length toks)) ->
    forall l0, Src l0 0%nat ->
    forall k p,
      let t0 := {| tl_stack := []; tl_pointers := []; tl_writep := 0; tl_readp := -1; tl_lexer := l0 |} in
      sim toks Src t0 (run_go k p t0) (run_spec k p toks (-1)).
Proof.
  intros toks Src H1 H2 l0 H0 k p t0. apply (go_is_spec toks Src H1 H2).
  split; [|reflexivity]. exists 0%nat. cbn. repeat split; try lia; try assumption. constructor.
Qed.
