(* PropC15.v — C15: encodings are lossless and size limits are enforced, never wrapped.
   Statements only; every theorem is closed by [exact] of a lemma proved in
   BytecodeProofs.v, followed by Print Assumptions. *)
Require Import Calc.Base Calc.Bytecode Calc.BytecodeProofs.
Open Scope Z_scope.

(* Every operand EncodeSrc accepts decodes to the kind and address it was
   built from; the other two operand channels and the opcode stay zero. *)
Theorem C15_src_roundtrip : forall sel kind addr,
  0 <= sel <= 2 -> 0 <= kind < 8 -> -32768 <= addr < 32768 ->
  exists w, EncodeSrc sel kind addr = Some w /\ 0 <= w < two64 /\
    decode w =
      {| f_op := 0;
         f_k0 := if sel =? 0 then kind else 0;
         f_k1 := if sel =? 1 then kind else 0;
         f_k2 := if sel =? 2 then kind else 0;
         f_a0 := if sel =? 0 then addr else 0;
         f_a1 := if sel =? 1 then addr else 0;
         f_a2 := if sel =? 2 then addr else 0 |}.
Proof. exact src_roundtrip. Qed.
Print Assumptions C15_src_roundtrip.

(* An address outside the 16-bit two's complement range is refused (the Go
   code panics with RangeError, recovered by ByteCode as a compile error). *)
Theorem C15_encode_refuses : forall sel kind addr,
  addr < -32768 \/ 32768 <= addr -> EncodeSrc sel kind addr = None.
Proof. exact encode_refuses. Qed.
Print Assumptions C15_encode_refuses.

Theorem C15_encode_accepts_iff : forall sel kind addr,
  0 <= sel <= 2 ->
  (exists w, EncodeSrc sel kind addr = Some w) <-> -32768 <= addr < 32768.
Proof. exact encode_accepts_iff. Qed.
Print Assumptions C15_encode_accepts_iff.

Theorem C15_opcode_roundtrip : forall op,
  0 <= op < 128 ->
  0 <= New op < two64 /\
  decode (New op) = {| f_op := op; f_k0 := 0; f_k1 := 0; f_k2 := 0; f_a0 := 0; f_a1 := 0; f_a2 := 0 |}.
Proof. exact opcode_roundtrip. Qed.
Print Assumptions C15_opcode_roundtrip.

(* A whole instruction — opcode (temp flag included) OR three operands —
   decodes to exactly the seven fields it was built from. *)
Theorem C15_instr_roundtrip : forall op k0 a0 k1 a1 k2 a2 w0 w1 w2,
  0 <= op < 128 ->
  0 <= k0 < 8 -> 0 <= k1 < 8 -> 0 <= k2 < 8 ->
  EncodeSrc 0 k0 a0 = Some w0 -> EncodeSrc 1 k1 a1 = Some w1 -> EncodeSrc 2 k2 a2 = Some w2 ->
  let w := Z.lor (Z.lor (Z.lor (New op) w0) w1) w2 in
  0 <= w < two64 /\
  decode w = {| f_op := op; f_k0 := k0; f_k1 := k1; f_k2 := k2; f_a0 := a0; f_a1 := a1; f_a2 := a2 |}.
Proof. exact instr_roundtrip. Qed.
Print Assumptions C15_instr_roundtrip.

(* Jump patching: OR-ing an offset into a still-zero operand sets that
   operand and changes nothing else. *)
Theorem C15_patch_src0 : forall b off w,
  Src0 b = 0 -> field b Src0AddrHi Src0AddrLo = 0 ->
  EncodeSrc 0 AddrImm off = Some w ->
  let b' := Z.lor b w in
  OpCode b' = OpCode b /\ Src1 b' = Src1 b /\ Src1Addr b' = Src1Addr b /\
  Src2 b' = Src2 b /\ Src2Addr b' = Src2Addr b /\ Src0 b' = AddrImm /\ Src0Addr b' = off.
Proof. exact patch_src0_imm. Qed.
Print Assumptions C15_patch_src0.

Theorem C15_patch_src1 : forall b off w,
  Src1 b = 0 -> field b Src1AddrHi Src1AddrLo = 0 ->
  EncodeSrc 1 AddrImm off = Some w ->
  let b' := Z.lor b w in
  OpCode b' = OpCode b /\ Src0 b' = Src0 b /\ Src0Addr b' = Src0Addr b /\
  Src2 b' = Src2 b /\ Src2Addr b' = Src2Addr b /\ Src1 b' = AddrImm /\ Src1Addr b' = off.
Proof. exact patch_src1_imm. Qed.
Print Assumptions C15_patch_src1.

(* A function value keeps its entry point, parameter count and local count. *)
Theorem C15_function_pack_roundtrip : forall node pc lc,
  0 <= node < 2 ^ 32 -> 0 <= pc < 2 ^ 16 -> 0 <= lc < 2 ^ 16 ->
  let m := pack_function node pc lc in
  0 <= m < two64 /\ fn_node m = node /\ fn_params m = pc /\ fn_locals m = lc.
Proof. exact function_pack_roundtrip. Qed.
Print Assumptions C15_function_pack_roundtrip.

(* Non-vacuity: the hypotheses are met by concrete instructions. *)
Example C15_example :
  exists w0 w1 w2, EncodeSrc 0 AddrDS 32767 = Some w0 /\ EncodeSrc 1 AddrImm (-32768) = Some w1 /\
    EncodeSrc 2 AddrStck 0 = Some w2 /\
    decode (Z.lor (Z.lor (Z.lor (New (TempFlag + ADD)) w0) w1) w2) =
      {| f_op := 68; f_k0 := 7; f_k1 := 1; f_k2 := 5; f_a0 := 32767; f_a1 := -32768; f_a2 := 0 |}.
Proof. do 3 eexists. repeat split; vm_compute; reflexivity. Qed.
