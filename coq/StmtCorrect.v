(* StmtCorrect.v — the compiler is correct on the statement fragment over
   globals: expression statements, assignments, blocks, if, if/else and while
   with pure conditions, nested without bound, in value position and in
   discarded position.  The emitted code, run by the VM model from any state,
   ends at its end with the globals and the value the fuelled semantics
   [ssem] gives (or stops with its error), with the stack as the compiler's
   returned operand says. *)
Require Import Calc.Sem.
Require Import Calc.Base Calc.Bytecode Calc.BytecodeProofs Calc.Value Calc.FloatText Calc.Ast Calc.Compile Calc.VM
        Calc.MemProofs Calc.ExprSem Calc.ExprVM Calc.ExprCorrect Calc.ExprTop Calc.ExprAssign Calc.ExprLen
        Calc.ExprSession Calc.LExprSem Calc.StmtSem Calc.StmtVM Calc.CallVM.
Require Calc.LExprCorrect.
Require Import Lia.
Open Scope Z_scope.

(* the flags statements are compiled with at top level: everything off except Discard *)
Definition tfl (d : bool) : flags := withDiscard d (pass fl0).

Lemma tfl_pass d : pass (tfl d) = tfl false. Proof. reflexivity. Qed.
Lemma tfl_discard d d' : withDiscard d' (pass (tfl d)) = tfl d'. Proof. reflexivity. Qed.
Lemma tfl_last d : withReturning (Returning (tfl d)) (withDiscard (Discard (tfl d)) (pass (tfl d))) = tfl d.
Proof. destruct d; reflexivity. Qed.

Section WithB.
Variable Bf : ftab.
Local Notation ssem := (StmtSem.ssem Bf).
Local Notation sblock_of := (StmtSem.sblock_of Bf).
Local Notation swhile_of := (StmtSem.swhile_of Bf).

Definition meaning := world -> option (world * res value).

(* the world a machine holds *)
Definition wof (v : vm) : world := {| w_glob := v_globals v; w_out := v_out v; w_in := v_in v; w_next := v_next v |}.

Definition set_world (v : vm) (W : world) : vm :=
  {| v_cs := v_cs v; v_ncs := v_ncs v; v_ds := v_ds v; v_dbg := v_dbg v; v_globals := w_glob W;
     v_mems := v_mems v; v_ctxs := v_ctxs v; v_frames := v_frames v; v_next := w_next W;
     v_out := w_out W; v_in := w_in W; v_dead_read := v_dead_read v; v_grew_captured := v_grew_captured v |}.

Definition SG (v : vm) (W : world) (mid : Z) (m : mem) : vm := St (set_world v W) mid m.

Lemma set_globals_same v : set_globals v (v_globals v) = v.
Proof. destruct v; reflexivity. Qed.

Lemma set_world_same v : set_world v (wof v) = v.
Proof. destruct v; reflexivity. Qed.

Lemma wof_set_world v W : wof (set_world v W) = W.
Proof. destruct W; reflexivity. Qed.

Lemma set_world_glob v G : set_world v (wglob (wof v) G) = set_globals v G.
Proof. reflexivity. Qed.

Lemma wof_St v mid m : wof (St v mid m) = wof v.
Proof. reflexivity. Qed.

Lemma SG_same v mid m : SG v (wof v) mid m = St v mid m.
Proof. unfold SG. rewrite set_world_same. reflexivity. Qed.

Definition skind (K : Z) : Prop :=
  K = AddrStck \/ K = AddrTmp \/ K = AddrDS \/ K = AddrGbl \/ K = AddrInv.

Lemma skind_range K : skind K -> 0 <= K < 8.
Proof. unfold skind, AddrStck, AddrTmp, AddrDS, AddrGbl, AddrInv. lia. Qed.

Lemma okind_skind K : okind K -> skind K.
Proof. unfold okind, skind. tauto. Qed.

Definition stack_effect (K : Z) : Z := if K =? AddrStck then 1 else 0.

(* ---- where the built-in functions are: their values Bf, their code, their captured frames ---- *)
Definition bop_code (b : bop) : Z := match b with BWrite => WRITE | BToa => TOA | BAton => ATON end.

Definition is_bfun (v : vm) (b : bop) (f : value) : Prop :=
  exists morph fid fr i1 i2,
    f = VFun morph fid /\ fn_params morph = 1 /\ fn_locals morph = 1 /\
    assoc_get (v_frames v) fid = Some fr /\
    znth (v_cs v) (fn_node morph) = Some i1 /\ znth (v_cs v) (fn_node morph + 1) = Some i2 /\
    decode i1 = {| f_op := bop_code b; f_k0 := AddrLcl; f_k1 := 0; f_k2 := 0; f_a0 := 0; f_a1 := 0; f_a2 := 0 |} /\
    decode i2 = {| f_op := RET; f_k0 := AddrStck; f_k1 := 0; f_k2 := 0; f_a0 := 0; f_a1 := 0; f_a2 := 0 |}.

(* read: no parameter, no local; READ, then RET *)
Definition is_rfun (v : vm) (f : value) : Prop :=
  exists morph fid fr i1 i2,
    f = VFun morph fid /\ fn_params morph = 0 /\ fn_locals morph = 0 /\
    assoc_get (v_frames v) fid = Some fr /\
    znth (v_cs v) (fn_node morph) = Some i1 /\ znth (v_cs v) (fn_node morph + 1) = Some i2 /\
    decode i1 = {| f_op := READ; f_k0 := 0; f_k1 := 0; f_k2 := 0; f_a0 := 0; f_a1 := 0; f_a2 := 0 |} /\
    decode i2 = {| f_op := RET; f_k0 := AddrStck; f_k1 := 0; f_k2 := 0; f_a0 := 0; f_a1 := 0; f_a2 := 0 |}.

(* a user function of a parameters whose body is a pure expression: its entry point holds the code the
   compiler emits for the body (from some compile state s0, with flags that do not let the value stay in
   the temp register), followed by RET of the body's operand; the data the code refers to is loaded *)
Definition is_ufun (a : Z) (v : vm) (body : node) (f : value) : Prop :=
  exists morph fid fr s0 s1 wb flb,
    f = VFun morph fid /\ fn_params morph = a /\ fn_locals morph = a /\
    assoc_get (v_frames v) fid = Some fr /\
    wfcs s0 /\ ncs s0 = fn_node morph /\ comp body 0 flb s0 = COk (wb, s1) /\
    OpDepth flb = 0 /\ Discard flb = false /\ AcceptTemp flb = false /\
    (forall code, rcs s1 = rev code ++ rcs s0 -> code_at v (ncs s0) (code ++ [Z.lor (New RET) wb])) /\
    data_at v s1.

Definition bcode (v : vm) : Prop :=
  (forall nm b mo fid, bop_of_name nm = Some b -> ft_val Bf nm = VFun mo fid -> is_bfun v b (ft_val Bf nm)) /\
  (forall mo fid, ft_val Bf "read" = VFun mo fid -> is_rfun v (ft_val Bf "read")) /\
  (forall nm body mo fid, bop_of_name nm = None -> ft_body Bf nm = Some body -> ft_val Bf nm = VFun mo fid ->
     is_ufun (ft_arity Bf nm) v body (ft_val Bf nm)).

(* running the code of a statement *)
Definition RunsS (M : meaning) (d : bool) (s s2 sd : cstate) (P : list Z) (K A : Z) : Prop :=
  forall rr v mid m r G' res,
    bcode v -> code_at v (ncs s) P -> data_at v sd -> cur_mid v r = Good mid ->
    0 <= m_sp m <= zlen (m_stack m) -> r_ip r = ncs s ->
    M (wof v) = Some (G', res) ->
    match res with
    | Ok x => exists k m' r', steps rr k (St v mid m) r = SNext (SG v G' mid m') r' /\
               msame (m_sp m) m m' /\ r_ctx r' = r_ctx r /\ r_ip r' = ncs s2 /\
               (if d then m_sp m' = m_sp m + stack_effect K
                else opnd (set_world v G') (m_sp m) K A x m' r')
    | Fail err => exists k me ip vals, steps rr k (St v mid m) r = SErr (SG v G' mid me) (r_ctx r) ip err vals
    end.

Definition SpecS (t : node) (d : bool) (sel : Z) (s s' : cstate) (w : Z) : Prop :=
  exists code K A,
    lay s s' code /\ wfcs s' /\ EncodeSrc sel K A = Some w /\ skind K /\
    (d = false -> K <> AddrTmp /\ K <> AddrInv) /\
    forall n, RunsS (fun G => ssem n G t) d s s' s' code K A.

Lemma RunsS_data M d s s2 sd sd' P K A dd :
  RunsS M d s s2 sd P K A -> rds sd' = dd ++ rds sd -> RunsS M d s s2 sd' P K A.
Proof.
  intros H E rr v mid m r G' res Hbc Hc Hd. apply H; [exact Hbc|exact Hc|]. apply (data_at_ext v sd sd' dd Hd E).
Qed.

Lemma opnd_sp v b K A x m' r' : opnd v b K A x m' r' -> m_sp m' = b + stack_effect K.
Proof.
  unfold stack_effect.
  intros [[-> [H _]]|[[-> [H _]]|[[-> [H _]]|[-> [H _]]]]]; cbn; lia.
Qed.

(* a pure expression is a statement *)
Lemma RunsK_S D keep d s s2 sd P K A (M : meaning) :
  RunsK D keep s s2 sd P K A ->
  (forall G G' res, M G = Some (G', res) -> G' = G /\ res = D (w_glob G)) ->
  RunsS M d s s2 sd P K A.
Proof.
  intros H HM rr v mid m r G' res Hbc Hc Hdat Hm Hsp Hip HMv.
  destruct (HM _ _ _ HMv) as [-> ->].
  specialize (H rr v mid m r Hc Hdat Hm Hsp Hip). change (w_glob (wof v)) with (v_globals v).
  destruct (D (v_globals v)) as [x|err].
  - destruct H as [m' [r' [Hs [Hms [Hctx [Hip' [_ Ho]]]]]]].
    exists (List.length P), m', r'. rewrite SG_same, set_world_same. conj; try assumption.
    destruct d; [exact (opnd_sp _ _ _ _ _ _ _ Ho)|exact Ho].
  - destruct H as [me [ip [vals Hs]]]. exists (List.length P), me, ip, vals. rewrite SG_same. exact Hs.
Qed.

Lemma pure_ssem n G t G' res : pure t = true -> ssem n G t = Some (G', res) -> G' = G /\ res = den (w_glob G) t.
Proof.
  intros Hp H. destruct n as [|n]; [discriminate H|].
  assert (E : ssem (S n) G t = if Nat.leb (height t) (S n) then Some (G, den (w_glob G) t) else None).
  { destruct t; try reflexivity; discriminate Hp. }
  rewrite E in H. destruct (Nat.leb (height t) (S n)); [|discriminate H]. injection H as <- <-. auto.
Qed.

Lemma pure_specS t d sel s s' w :
  pure t = true -> 0 <= sel <= 2 -> wfcs s -> comp t sel (tfl d) s = COk (w, s') -> SpecS t d sel s s' w.
Proof.
  intros Hp Hsel Hwf H.
  apply (comp_pure_spec t Hp sel (tfl d) s w s' Hsel Hwf) in H. apply SpecD_lay in H.
  destruct H as [code [K [A (L & W & E & Ok & _ & NT & X)]]].
  exists code, K, A. conj; try assumption.
  - apply okind_skind. exact Ok.
  - intros ->. split; [apply NT; reflexivity|]. unfold okind, AddrStck, AddrTmp, AddrDS, AddrGbl, AddrInv in *. lia.
  - intros n. apply (RunsK_S (fun G => den G t) _ d s s' s' code K A _ X).
    intros G G' res HM. apply (pure_ssem n G t G' res Hp HM).
Qed.

(* ================= g = e ================= *)
Lemma ssem_assign n W g e W' res :
  pure e = true ->
  ssem n W (NAssign (NName g) e) = Some (W', res) ->
  exists G0, sem_simple (w_glob W) (NAssign (NName g) e) = (G0, res) /\ W' = wglob W G0.
Proof.
  intros Hp. destruct n as [|n]; [discriminate|]. cbn [StmtSem.ssem]. rewrite Hp. destruct (Nat.leb (height e) n); [|discriminate].
  intros H. injection H as <- <-. eexists. split; [apply surjective_pairing|reflexivity].
Qed.

Lemma wglob_wof v : wglob (wof v) (v_globals v) = wof v.
Proof. reflexivity. Qed.

Lemma assign_specS g e d sel s s' w :
  pure e = true -> 0 <= sel <= 2 -> wfcs s ->
  comp (NAssign (NName g) e) sel (tfl d) s = COk (w, s') ->
  SpecS (NAssign (NName g) e) d sel s s' w.
Proof.
  intros Hp Hsel Hwf H.
  rewrite comp_assign_unfold in H. destruct (is_inc g e) eqn:Hinc.
  - (* INC *)
    apply cbind_ok in H. destruct H as [w0 [s2 [Href H]]].
    cbn [comp_ref] in Href. apply cbind_ok in Href. destruct Href as [ix [s2' [Hds Href]]].
    apply add_ds_ok in Hds. destruct Hds as [-> ->]. apply enc_ok in Href. destruct Href as [-> Ew0].
    cbv zeta in H. apply cbind_ok in H. destruct H as [u0 [s3 [Hem Hres]]].
    apply emit_ok in Hem. subst s3. apply enc_ok in Hres. destruct Hres as [-> Ew].
    set (instr := Z.lor (New INC) w0) in *.
    assert (Hdi : decode instr = {| f_op := INC; f_k0 := AddrGbl; f_k1 := 0; f_k2 := 0; f_a0 := nds s; f_a1 := 0; f_a2 := 0 |})
      by (apply (decode_op0 INC AddrGbl (nds s) w0 inc_range gbl_range Ew0)).
    assert (HS0 : Src0 instr = AddrGbl /\ Src0Addr instr = nds s).
    { unfold decode in Hdi. injection Hdi as _ H1 _ _ H2 _ _. auto. }
    destruct HS0 as [HS0 HS0a]. rewrite HS0, HS0a in Ew.
    set (s2 := with_data s (VStr g)) in *.
    assert (W2 : wfcs s2).
    { destruct Hwf as [A1 B1]. unfold wfcs, s2, with_data, zlen in *; cbn [rcs ncs rds nds List.length]. split; lia. }
    exists [instr], AddrGbl, (nds s). conj.
    + change [instr] with ([] ++ [instr]). apply lay_emit. unfold lay, s2, with_data; cbn [rcs ncs rds rev app].
      conj; [reflexivity|unfold zlen; cbn; lia|exists [VStr g]; reflexivity].
    + apply wfcs_emitted. exact W2.
    + exact Ew.
    + right. right. right. left. reflexivity.
    + intros _. split; discriminate.
    + intros n rr v mid m r G' res Hbc Hc Hdat Hm Hsp Hip HM.
      apply (ssem_assign _ _ _ _ _ _ Hp) in HM. destruct HM as [G0 [HM ->]]. change (w_glob (wof v)) with (v_globals v) in HM.
      cbn [sem_simple] in HM. rewrite (den_inc g e (v_globals v) Hinc) in HM.
      apply code_at_cons in Hc. destruct Hc as [Hi_inc _].
      assert (Hname : znth (v_ds v) (nds s) = Some (VStr g)).
      { apply Hdat. cbn [emitted rds s2 with_data]. rewrite (proj2 Hwf). apply znth_rev_cons. }
      assert (Hat : at_ip v r mid instr) by (split; [rewrite Hip; exact Hi_inc|exact Hm]).
      pose proof (step_inc_gbl v mid m r rr instr (nds s) 0 0 0 0 g Hat Hdi Hname) as Hstep.
      destruct (Arith ADD (gval (v_globals v) g) (VInt 1)) as [y|err] eqn:EA.
      * rewrite (arith_ok_not_nil _ _ _ _ EA) in HM. injection HM as <- <-.
        exists 1%nat, m, (with_ip r (r_ip r + 1)). rewrite steps_one, Hstep. conj.
        -- reflexivity.
        -- apply msame_refl. exact Hsp.
        -- reflexivity.
        -- cbn [with_ip r_ip emitted ncs s2 with_data]. lia.
        -- destruct d; [unfold stack_effect; cbn; lia|].
           right. right. right. conj; [reflexivity|reflexivity|]. exists g. split; [exact Hname|].
           cbn [set_world v_globals wglob w_glob]. symmetry. apply gval_set_same.
      * injection HM as <- <-. exists 1%nat, m, (r_ip r), [gval (v_globals v) g].
        rewrite steps_one, Hstep, wglob_wof, SG_same. reflexivity.
  - (* MOV *)
    apply cbind_ok in H. destruct H as [we [s1 [He H]]].
    apply cbind_ok in H. destruct H as [w1 [s2 [Href H]]].
    cbn [comp_ref] in Href. apply cbind_ok in Href. destruct Href as [ix [s2' [Hds Href]]].
    apply add_ds_ok in Hds. destruct Hds as [-> ->]. apply enc_ok in Href. destruct Href as [-> Ew1].
    cbv zeta in H. apply cbind_ok in H. destruct H as [u0 [s3 [Hem Hres]]].
    apply emit_ok in Hem. subst s3. apply enc_ok in Hres. destruct Hres as [-> Ew].
    set (flA := withAcceptTemp true (pass (tfl d))) in *.
    apply (comp_pure_spec e Hp 0 flA s we s1 ltac:(lia) Hwf) in He. apply SpecD_lay in He.
    destruct He as [code [K [A (L1 & W1 & Ee & Ok1 & _ & _ & X)]]].
    set (instr := Z.lor (Z.lor we w1) (New MOV)) in *.
    assert (Hdi : decode instr = {| f_op := MOV; f_k0 := K; f_k1 := AddrGbl; f_k2 := 0; f_a0 := A; f_a1 := nds s1; f_a2 := 0 |}).
    { unfold instr. replace (Z.lor (Z.lor we w1) (New MOV)) with (Z.lor (Z.lor (New MOV) w1) we).
      - apply (decode_op01 MOV K A AddrGbl (nds s1) we w1 mov_range (okind_range K Ok1) gbl_range Ee Ew1).
      - rewrite (Z.lor_comm (Z.lor we w1)), (Z.lor_comm we w1), Z.lor_assoc. reflexivity. }
    assert (HS1 : Src1 instr = AddrGbl /\ Src1Addr instr = nds s1).
    { unfold decode in Hdi. injection Hdi as _ _ H1 _ _ H2 _. auto. }
    destruct HS1 as [HS1 HS1a]. rewrite HS1, HS1a in Ew.
    set (s2 := with_data s1 (VStr g)) in *.
    assert (W2 : wfcs s2).
    { destruct W1 as [A1 B1]. unfold wfcs, s2, with_data, zlen in *; cbn [rcs ncs rds nds List.length]. split; lia. }
    exists (code ++ [instr]), AddrGbl, (nds s1). conj.
    + apply lay_emit. destruct L1 as (R1 & N1 & [d1 D1]). unfold lay, s2, with_data; cbn [rcs ncs rds]. conj; try assumption.
      exists (VStr g :: d1). rewrite D1. reflexivity.
    + apply wfcs_emitted. exact W2.
    + exact Ew.
    + right. right. right. left. reflexivity.
    + intros _. split; discriminate.
    + intros n rr v mid m r G' res Hbc Hc Hdat Hm Hsp Hip HM.
      apply (ssem_assign _ _ _ _ _ _ Hp) in HM. destruct HM as [G0 [HM ->]]. change (w_glob (wof v)) with (v_globals v) in HM.
      cbn [sem_simple] in HM.
      pose proof (code_at_nth v (ncs s) code instr [] Hc) as Hi_mov.
      apply code_at_app in Hc. destruct Hc as [Hc _].
      assert (Hd1 : data_at v s1).
      { intros i y Hy. apply Hdat. cbn [emitted rds s2 with_data rev]. apply znth_app_l. exact Hy. }
      assert (Hname : znth (v_ds v) (nds s1) = Some (VStr g)).
      { apply Hdat. cbn [emitted rds s2 with_data]. rewrite (proj2 W1). apply znth_rev_cons. }
      pose proof (X rr v mid m r Hc Hd1 Hm Hsp Hip) as E.
      destruct (den (v_globals v) e) as [x|err].
      * destruct E as [m1 [r1 [Hs [Hm1 [Hc1 [Hi1 [_ Ho]]]]]]].
        assert (Hat : at_ip v r1 mid instr).
        { split; [rewrite Hi1; destruct L1 as (_ & N & _); rewrite N; exact Hi_mov|].
          rewrite (cur_mid_ctx v r r1 Hc1). exact Hm. }
        assert (Hsrc : exists m2, (if K =? AddrTmp then Good (St v mid m1, r_tmp r1)
                                   else fetch (St v mid m1) mid K A) = Good (St v mid m2, x) /\
                                  msame (m_sp m) m m2 /\ m_sp m2 = m_sp m).
        { destruct (Z.eqb_spec K AddrTmp) as [EK|NK].
          - exists m1. destruct Ho as [[E1 _]|[[_ [H1 H2]]|[[E1 _]|[E1 _]]]];
              try (rewrite EK in E1; discriminate E1). conj; [rewrite H2; reflexivity|exact Hm1|exact H1].
          - destruct (fetch_opnd v mid (m_sp m) m K A x m1 r1 Ho NK Hm1) as [m2 [Hf [Hm2 Hs2]]].
            exists m2. conj; assumption. }
        destruct Hsrc as [m2 [Hsrc [Hm2 Hsp2]]].
        pose proof (step_mov_gbl v mid m1 r1 rr instr K A (nds s1) 0 0 _ x g Hat Hdi Hsrc Hname) as Hstep.
        change (v_globals (St v mid m2)) with (v_globals v) in Hstep.
        destruct (is_nil x) eqn:Hnil.
        -- injection HM as <- <-. exists (List.length code + 1)%nat, m2, (r_ip r1), [x].
           rewrite steps_app, Hs, steps_one, Hstep, wglob_wof, SG_same. rewrite Hc1. reflexivity.
        -- injection HM as <- <-.
           exists (List.length code + 1)%nat, m2, (with_ip r1 (r_ip r1 + 1)).
           rewrite steps_app, Hs, steps_one, Hstep. conj.
           ++ reflexivity.
           ++ exact Hm2.
           ++ cbn [with_ip r_ctx]. exact Hc1.
           ++ cbn [with_ip r_ip emitted ncs s2 with_data]. lia.
           ++ destruct d; [unfold stack_effect; cbn; lia|].
              right. right. right. conj; [reflexivity|exact Hsp2|]. exists g. split; [exact Hname|].
              cbn [set_world v_globals wglob w_glob]. symmetry. apply gval_set_same.
      * injection HM as <- <-. destruct E as [me [ip [vals Hs]]].
        exists (List.length code), me, ip, vals. rewrite wglob_wof, SG_same. exact Hs.
Qed.

(* ================= write(e) ================= *)
Lemma ssem_write n W e W' res :
  ssem n W (NWrite e) = Some (W', res) ->
  match den (w_glob W) e with
  | Ok x => W' = wwrite W (to_string fmt_float x) /\ res = Ok VNil
  | Fail err => W' = W /\ res = Fail err
  end.
Proof.
  destruct n as [|n]; [discriminate|]. cbn [StmtSem.ssem]. destruct (Nat.leb (height e) n); [|discriminate].
  destruct (den (w_glob W) e); intros H; injection H as <- <-; auto.
Qed.

Lemma write_range : 0 <= WRITE < 128. Proof. unfold WRITE. lia. Qed.

Lemma write_out_world v s : write_out v s = set_world v (wwrite (wof v) s).
Proof. reflexivity. Qed.

Lemma write_specS e d sel s s' w :
  pure e = true -> 0 <= sel <= 2 -> wfcs s ->
  comp (NWrite e) sel (tfl d) s = COk (w, s') ->
  SpecS (NWrite e) d sel s s' w.
Proof.
  intros Hp Hsel Hwf H. cbn [comp] in H. rewrite tfl_pass in H.
  apply cbind_ok in H. destruct H as [we [s1 [He H]]].
  apply cbind_ok in H. destruct H as [u0 [s2 [Hem Hres]]].
  apply emit_ok in Hem. subst s2. apply enc_ok in Hres. destruct Hres as [-> Ew].
  apply (comp_pure_spec e Hp 0 (tfl false) s we s1 ltac:(lia) Hwf) in He. apply SpecD_lay in He.
  destruct He as [code [K [A (L1 & W1 & Ee & Ok1 & _ & NT & X)]]].
  assert (NK : K <> AddrTmp) by (apply NT; reflexivity).
  set (instr := Z.lor (New WRITE) we) in *.
  assert (Hdi : decode instr = {| f_op := WRITE; f_k0 := K; f_k1 := 0; f_k2 := 0; f_a0 := A; f_a1 := 0; f_a2 := 0 |})
    by (apply (decode_op0 WRITE K A we write_range (okind_range K Ok1) Ee)).
  exists (code ++ [instr]), AddrStck, 0. conj.
  - apply lay_emit. exact L1.
  - apply wfcs_emitted. exact W1.
  - exact Ew.
  - left. reflexivity.
  - intros _. split; discriminate.
  - intros n rr v mid m r W' res Hbc Hc Hdat Hm Hsp Hip HM.
    apply ssem_write in HM. change (w_glob (wof v)) with (v_globals v) in HM.
    pose proof (code_at_nth v (ncs s) code instr [] Hc) as Hi_w.
    apply code_at_app in Hc. destruct Hc as [Hc _].
    assert (Hd1 : data_at v s1) by exact Hdat.
    pose proof (X rr v mid m r Hc Hd1 Hm Hsp Hip) as E.
    destruct (den (v_globals v) e) as [x|err].
    + destruct HM as [-> ->]. destruct E as [m1 [r1 [Hs [Hm1 [Hc1 [Hi1 [_ Ho]]]]]]].
      assert (Hat : at_ip v r1 mid instr).
      { split; [rewrite Hi1; destruct L1 as (_ & N & _); rewrite N; exact Hi_w|].
        rewrite (cur_mid_ctx v r r1 Hc1). exact Hm. }
      destruct (fetch_opnd v mid (m_sp m) m K A x m1 r1 Ho NK Hm1) as [m2 [Hf [Hm2 Hs2]]].
      pose proof (step_write v mid m1 r1 rr instr K 0 0 A 0 0 Hat Hdi) as Hstep.
      rewrite Hf in Hstep. cbn [obind] in Hstep. rewrite write_out_St in Hstep.
      assert (Hsp2 : 0 <= m_sp m2 <= zlen (m_stack m2)) by (destruct Hm2 as (_&_&_&_&_&B); lia).
      destruct (vPush_St (write_out v (to_string fmt_float x)) mid m2 VNil Hsp2) as [m3 [Hpush [Hm3 [Hsp3 Htop]]]].
      rewrite Hpush in Hstep. cbn [obind lift next] in Hstep.
      exists (List.length code + 1)%nat, m3, (with_ip r1 (r_ip r1 + 1)).
      rewrite steps_app, Hs, steps_one, Hstep. conj.
      * reflexivity.
      * apply (msame_trans (m_sp m) (m_sp m2) m m2 m3); [lia|exact Hm2|exact Hm3].
      * cbn [with_ip r_ctx]. exact Hc1.
      * cbn [with_ip r_ip emitted ncs]. destruct L1 as (_ & N & _). lia.
      * destruct d; [unfold stack_effect; cbn; lia|].
        left. conj; [reflexivity|lia|]. rewrite <- Hs2. exact Htop.
    + destruct HM as [-> ->]. destruct E as [me [ip [vals Hs]]].
      exists (List.length code), me, ip, vals. rewrite SG_same. exact Hs.
Qed.

(* ================= blocks ================= *)
Definition block_comp (sel : Z) (fl : flags) :=
  fix go (l : list node) (last : Z) : CM Z :=
    match l with
    | [] => cret last
    | [t] => comp t sel (withReturning (Returning fl) (withDiscard (Discard fl) (pass fl)))
    | t :: l' =>
        i <- comp t sel (withDiscard true (pass fl)) ;;
        k <- src_of i sel ;;
        (if k =? AddrStck then emit (New POP) else cret tt) ;;;
        go l' (New POP)
    end.

Lemma comp_block_unfold l sel fl : comp (NBlock l) sel fl = block_comp sel fl l 0.
Proof. reflexivity. Qed.

Lemma znth_some {A} (l : list A) i : 0 <= i < zlen l -> exists x, znth l i = Some x.
Proof.
  intros H. unfold znth, zlen in *. destruct (Z.ltb_spec i 0); [lia|].
  destruct (nth_error l (Z.to_nat i)) eqn:E; [eauto|]. apply nth_error_None in E. lia.
Qed.

Lemma pop_range : 0 <= POP < 128. Proof. unfold POP. lia. Qed.

(* POP after a statement that left a value *)
Lemma exec_pop rr v mid instr b m0 m1 r1 :
  at_ip v r1 mid instr -> decode instr = {| f_op := POP; f_k0 := 0; f_k1 := 0; f_k2 := 0; f_a0 := 0; f_a1 := 0; f_a2 := 0 |} ->
  msame b m0 m1 -> m_sp m1 = b + 1 -> 0 <= b ->
  steps rr 1 (St v mid m1) r1 = SNext (St v mid (mdrop m1)) (with_ip r1 (r_ip r1 + 1)) /\
  msame b m0 (mdrop m1) /\ m_sp (mdrop m1) = b.
Proof.
  intros Hat Hd Hm Hsp Hb.
  destruct (znth_some (m_stack m1) (m_sp m1 - 1)) as [x Hx]; [destruct Hm as (_&_&_&_&_&B); lia|].
  rewrite steps_one, (step_pop v mid m1 r1 rr instr _ _ _ _ _ _ x Hat Hd Hx).
  conj; [reflexivity|apply mdrop_msame; [exact Hm|lia]|unfold mdrop, with_stack; cbn [m_sp]; lia].
Qed.

Lemma src_of_ok i sel s k s' : src_of i sel s = COk (k, s') -> s' = s /\ Src i sel = Some k.
Proof. unfold src_of. destruct (Src i sel); [|discriminate]. intros H. inversion H. auto. Qed.

Lemma enc_src_sel sel K A w k : 0 <= K < 8 -> EncodeSrc sel K A = Some w -> Src w sel = Some k -> k = K.
Proof.
  intros HK E S. unfold Src in S.
  destruct (Z.eqb_spec sel 0) as [->|N0].
  - injection S as <-. exact (proj1 (enc_src0 K A w HK E)).
  - destruct (Z.eqb_spec sel 1) as [->|N1]; [|discriminate S].
    injection S as <-. exact (proj1 (enc_src1 K A w HK E)).
Qed.

Definition compiles_stmt (x : node) : Prop :=
  forall d sel s w s', sel = 0 -> wfcs s -> comp x sel (tfl d) s = COk (w, s') -> SpecS x d sel s s' w.

Lemma ssem_block_one n G x G' res :
  ssem n G (NBlock [x]) = Some (G', res) -> exists n', n = S n' /\ ssem n' G x = Some (G', res).
Proof. destruct n as [|n]; [discriminate|]. intros H. exists n. split; [reflexivity|exact H]. Qed.

Lemma ssem_block_cons n G x y r G' res :
  ssem n G (NBlock (x :: y :: r)) = Some (G', res) ->
  exists n', n = S n' /\
    match ssem n' G x with
    | None => False
    | Some (G1, Fail e) => G' = G1 /\ res = Fail e
    | Some (G1, Ok _) => ssem n G1 (NBlock (y :: r)) = Some (G', res)
    end.
Proof.
  destruct n as [|n]; [discriminate|]. rewrite ssem_block, sblock_cons2. intros H. exists n. split; [reflexivity|].
  destruct (ssem n G x) as [[G1 [v|e]]|]; [|injection H as <- <-; auto|discriminate H].
  rewrite ssem_block. exact H.
Qed.

Lemma block_specS d sel : sel = 0 -> forall l, l <> [] -> Forall compiles_stmt l ->
  forall last s w s', wfcs s -> block_comp sel (tfl d) l last s = COk (w, s') ->
  SpecS (NBlock l) d sel s s' w.
Proof.
  intros Hsel. subst sel. induction l as [|x l IH]; intros Hne HF last s w s' Hwf H; [contradiction|].
  inversion HF as [|x' l' Hx Hl]; subst.
  destruct l as [|x2 rest].
  - (* the last statement: its value is the block's *)
    cbn [block_comp] in H. rewrite tfl_last in H.
    destruct (Hx d 0 s w s' eq_refl Hwf H) as [code [K [A (L & W & E & Sk & NT & X)]]].
    exists code, K, A. conj; try assumption.
    intros n rr v mid m r G' res Hbc Hc Hdat Hm Hsp Hip HM.
    apply ssem_block_one in HM. destruct HM as [n' [-> HM]].
    exact (X n' rr v mid m r G' res Hbc Hc Hdat Hm Hsp Hip HM).
  - cbn [block_comp] in H. rewrite tfl_discard in H.
    apply cbind_ok in H. destruct H as [i [s1 [Hcx H]]].
    destruct (Hx true 0 s i s1 eq_refl Hwf Hcx) as [Cx [Kx [Ax (Lx & Wx & Ex & Skx & _ & Xx)]]].
    apply cbind_ok in H. destruct H as [k [s1' [Hsrc H]]]. apply src_of_ok in Hsrc. destruct Hsrc as [-> Hk].
    apply (enc_src_sel 0 Kx Ax i k (skind_range Kx Skx) Ex) in Hk. subst k.
    apply cbind_ok in H. destruct H as [u [s2 [Hpop H]]].
    destruct (Z.eqb_spec Kx AddrStck) as [EK|NK].
    + (* the statement left a value: POP *)
      apply emit_ok in Hpop. subst s2.
      destruct (IH ltac:(discriminate) Hl (New POP) (emitted s1 (New POP)) w s' (wfcs_emitted _ _ Wx) H)
        as [Cr [K [A (Lr & Wr & Er & Skr & NTr & Xr)]]].
      exists ((Cx ++ [New POP]) ++ Cr), K, A. conj; try assumption.
      * apply (lay_trans s (emitted s1 (New POP)) s'); [apply lay_emit; exact Lx|exact Lr].
      * intros n rr v mid m r G' res Hbc Hc Hdat Hm Hsp Hip HM.
        apply ssem_block_cons in HM. destruct HM as [n' [-> HM]].
        pose proof (code_at_app v (ncs s) (Cx ++ [New POP]) Cr Hc) as [Hc1 HcR].
        pose proof (code_at_nth v (ncs s) Cx (New POP) [] Hc1) as Hi_pop.
        apply code_at_app in Hc1. destruct Hc1 as [HcX _].
        destruct Lr as (Rr & Nr & [dr Dr]). cbn [emitted rds] in Dr.
        assert (Hd1 : data_at v s1) by (apply (data_at_ext v s1 s' dr Hdat Dr)).
        destruct (ssem n' (wof v) x) as [[G1 [xv|e]]|] eqn:Ex1; [| |contradiction].
        -- pose proof (Xx n' rr v mid m r G1 (Ok xv) Hbc HcX Hd1 Hm Hsp Hip Ex1) as E1. cbn beta iota in E1.
           destruct E1 as [k1 [m1 [r1 [Hs1 [Hm1 [Hc1 [Hi1 Hsp1]]]]]]].
           rewrite EK in Hsp1. unfold stack_effect in Hsp1. cbn in Hsp1.
           set (v1 := set_world v G1).
           assert (HW1 : G1 = wof v1) by (symmetry; apply wof_set_world). rewrite HW1 in HM.
           assert (Hat : at_ip v1 r1 mid (New POP)).
           { split; [change (v_cs v1) with (v_cs v); rewrite Hi1; destruct Lx as (_ & N & _); rewrite N; exact Hi_pop|].
             change (cur_mid v1 r1) with (cur_mid v r1). rewrite (cur_mid_ctx v r r1 Hc1). exact Hm. }
           destruct (exec_pop rr v1 mid (New POP) (m_sp m) m m1 r1 Hat (decode_op POP pop_range) Hm1 Hsp1 (proj1 Hsp))
             as [Hs2 [Hm2 Hsp2]].
           set (r2 := with_ip r1 (r_ip r1 + 1)).
           assert (HcR' : code_at v1 (ncs (emitted s1 (New POP))) Cr).
           { change (code_at v (ncs (emitted s1 (New POP))) Cr). cbn [emitted ncs]. destruct Lx as (_ & N & _). rewrite N.
             unfold zlen in *. rewrite app_length in HcR. cbn [List.length] in HcR.
             replace (ncs s + Z.of_nat (List.length Cx) + 1) with (ncs s + Z.of_nat (List.length Cx + 1)) by lia. exact HcR. }
           assert (Hm2' : cur_mid v1 r2 = Good mid).
           { change (cur_mid v1 r2) with (cur_mid v r2). rewrite (cur_mid_ctx v r r2); [exact Hm|unfold r2; cbn [with_ip r_ctx]; exact Hc1]. }
           assert (Hip2 : r_ip r2 = ncs (emitted s1 (New POP))) by (unfold r2; cbn [with_ip r_ip emitted ncs]; lia).
           assert (Hsp2' : 0 <= m_sp (mdrop m1) <= zlen (m_stack (mdrop m1))).
           { destruct Hm2 as (_&_&_&_&_&B). lia. }
           pose proof (Xr (S n') rr v1 mid (mdrop m1) r2 G' res Hbc HcR' Hdat Hm2' Hsp2' Hip2 HM) as E2.
           destruct res as [yv|err].
           ++ destruct E2 as [k2 [m' [r' [Hs' [Hm' [Hc' [Hi' Hpost]]]]]]].
              exists (k1 + (1 + k2))%nat, m', r'. rewrite steps_app, Hs1. unfold SG. fold v1.
              rewrite steps_app, Hs2. fold r2. rewrite Hs'. rewrite Hsp2 in *. conj.
              ** reflexivity.
              ** apply (msame_trans (m_sp m) (m_sp m) m (mdrop m1) m'); [lia|exact Hm2|exact Hm'].
              ** rewrite Hc'. unfold r2. cbn [with_ip r_ctx]. exact Hc1.
              ** exact Hi'.
              ** exact Hpost.
           ++ destruct E2 as [k2 [me [ip [vals Hs']]]].
              exists (k1 + (1 + k2))%nat, me, ip, vals. rewrite steps_app, Hs1. unfold SG. fold v1.
              rewrite steps_app, Hs2. fold r2. rewrite Hs'.
              replace (r_ctx r2) with (r_ctx r) by (unfold r2; cbn [with_ip r_ctx]; congruence). reflexivity.
        -- destruct HM as [-> ->].
           pose proof (Xx n' rr v mid m r G1 (Fail e) Hbc HcX Hd1 Hm Hsp Hip Ex1) as E1. cbn beta iota in E1.
           destruct E1 as [k1 [me [ip [vals Hs1]]]]. exists k1, me, ip, vals. exact Hs1.
    + (* nothing on the stack *)
      apply cret_ok in Hpop. destruct Hpop as [_ ->].
      destruct (IH ltac:(discriminate) Hl (New POP) s1 w s' Wx H)
        as [Cr [K [A (Lr & Wr & Er & Skr & NTr & Xr)]]].
      exists (Cx ++ Cr), K, A. conj; try assumption.
      * apply (lay_trans s s1 s'); assumption.
      * intros n rr v mid m r G' res Hbc Hc Hdat Hm Hsp Hip HM.
        apply ssem_block_cons in HM. destruct HM as [n' [-> HM]].
        apply code_at_app in Hc. destruct Hc as [HcX HcR].
        destruct Lr as (Rr & Nr & [dr Dr]).
        assert (Hd1 : data_at v s1) by (apply (data_at_ext v s1 s' dr Hdat Dr)).
        destruct (ssem n' (wof v) x) as [[G1 [xv|e]]|] eqn:Ex1; [| |contradiction].
        -- pose proof (Xx n' rr v mid m r G1 (Ok xv) Hbc HcX Hd1 Hm Hsp Hip Ex1) as E1. cbn beta iota in E1.
           destruct E1 as [k1 [m1 [r1 [Hs1 [Hm1 [Hc1 [Hi1 Hsp1]]]]]]].
           unfold stack_effect in Hsp1. rewrite (proj2 (Z.eqb_neq Kx AddrStck) NK) in Hsp1.
           set (v1 := set_world v G1).
           assert (HW1 : G1 = wof v1) by (symmetry; apply wof_set_world). rewrite HW1 in HM.
           assert (HcR' : code_at v1 (ncs s1) Cr).
           { change (code_at v (ncs s1) Cr). destruct Lx as (_ & N & _). rewrite N. exact HcR. }
           assert (Hm1' : cur_mid v1 r1 = Good mid).
           { change (cur_mid v1 r1) with (cur_mid v r1). rewrite (cur_mid_ctx v r r1 Hc1). exact Hm. }
           assert (Hsp1' : 0 <= m_sp m1 <= zlen (m_stack m1)) by (destruct Hm1 as (_&_&_&_&_&B); lia).
           pose proof (Xr (S n') rr v1 mid m1 r1 G' res Hbc HcR' Hdat Hm1' Hsp1' Hi1 HM) as E2.
           replace (m_sp m + 0) with (m_sp m) in Hsp1 by lia.
           destruct res as [yv|err].
           ++ destruct E2 as [k2 [m' [r' [Hs' [Hm' [Hc' [Hi' Hpost]]]]]]].
              exists (k1 + k2)%nat, m', r'. rewrite steps_app, Hs1. unfold SG. fold v1. rewrite Hs'. rewrite Hsp1 in *. conj.
              ** reflexivity.
              ** apply (msame_trans (m_sp m) (m_sp m) m m1 m'); [lia|exact Hm1|exact Hm'].
              ** congruence.
              ** exact Hi'.
              ** exact Hpost.
           ++ destruct E2 as [k2 [me [ip [vals Hs']]]].
              exists (k1 + k2)%nat, me, ip, vals. rewrite steps_app, Hs1. unfold SG. fold v1. rewrite Hs'.
              replace (r_ctx r1) with (r_ctx r) by congruence. reflexivity.
        -- destruct HM as [-> ->].
           pose proof (Xx n' rr v mid m r G1 (Fail e) Hbc HcX Hd1 Hm Hsp Hip Ex1) as E1. cbn beta iota in E1.
           destruct E1 as [k1 [me [ip [vals Hs1]]]]. exists k1, me, ip, vals. exact Hs1.
Qed.

(* ================= conditions and their jumps ================= *)
Definition cond_expr (c : node) : node :=
  match c with
  | NUn op t => if String.eqb op "!" then t else c
  | _ => c
  end.

Lemma comp_condition_unfold c falsey sel fl :
  comp_condition (comp (cond_expr c)) (cond_negated c) falsey sel fl =
  (let jt := if Bool.eqb falsey (cond_negated c) then JMPT else JMPF in
   condCode <- comp (cond_expr c) sel (pass fl) ;;
   addr <- here ;;
   emit (Z.lor (New jt) condCode) ;;; cret addr).
Proof. reflexivity. Qed.

Lemma cond_expr_pure c : pure c = true -> pure (cond_expr c) = true.
Proof.
  intros H. destruct c; try exact H. cbn [cond_expr]. destruct (String.eqb op "!"); [|exact H].
  cbn [pure] in H. apply andb_prop in H. exact (proj2 H).
Qed.

(* the boolean a condition is worth, in terms of the expression the jump tests *)
Lemma cond_res_negated G c :
  cond_res (den G c) =
  match cond_res (den G (cond_expr c)) with
  | Ok b => Ok (if cond_negated c then negb b else b)
  | Fail e => Fail e
  end.
Proof.
  destruct c; try (cbn [cond_expr cond_negated]; destruct (cond_res _); reflexivity).
  cbn [cond_expr cond_negated]. destruct (String.eqb op "!") eqn:E.
  - apply String.eqb_eq in E. subst op. cbn [den]. destruct (den G c) as [a|e]; [|reflexivity].
    unfold unop_sem. cbn. destruct a; reflexivity.
  - destruct (cond_res (den G (NUn op c))); reflexivity.
Qed.

Lemma here_ok s a s' : here s = COk (a, s') -> a = ncs s /\ s' = s.
Proof. unfold here. intros H. inversion H. auto. Qed.

Lemma jmpf_range : 0 <= JMPF < 128. Proof. unfold JMPF. lia. Qed.
Lemma jmpt_range : 0 <= JMPT < 128. Proof. unfold JMPT. lia. Qed.
Lemma jmp_range : 0 <= JMP < 128. Proof. unfold JMP. lia. Qed.
Lemma imm_range : 0 <= AddrImm < 8. Proof. unfold AddrImm. lia. Qed.

(* the code of a condition followed by its (patched) conditional jump *)
Definition CondRuns (c : node) (falsey : bool) (s s1 : cstate) (code : list Z) (jinstr : Z) (target : Z) : Prop :=
  forall rr v mid m r,
    code_at v (ncs s) (code ++ [jinstr]) -> data_at v s1 -> cur_mid v r = Good mid ->
    0 <= m_sp m <= zlen (m_stack m) -> r_ip r = ncs s ->
    match cond_res (den (v_globals v) c) with
    | Ok b => exists k m' r', steps rr k (St v mid m) r = SNext (St v mid m') r' /\
                msame (m_sp m) m m' /\ m_sp m' = m_sp m /\ r_ctx r' = r_ctx r /\
                r_ip r' = (if Bool.eqb b falsey then ncs s + zlen code + 1 else target)
    | Fail e => exists k me ip vals, steps rr k (St v mid m) r = SErr (St v mid me) (r_ctx r) ip e vals
    end.

Lemma cond_jump c falsey d s addr s1 :
  pure c = true -> wfcs s ->
  comp_condition (comp (cond_expr c)) (cond_negated c) falsey 0 (pass (tfl d)) s = COk (addr, s1) ->
  exists code jinstr,
    lay s s1 (code ++ [jinstr]) /\ wfcs s1 /\ addr = ncs s + zlen code /\
    forall off wp, EncodeSrc 1 AddrImm off = Some wp ->
      CondRuns c falsey s s1 code (Z.lor jinstr wp) (addr + off).
Proof.
  intros Hp Hwf H. rewrite comp_condition_unfold in H. cbv zeta in H.
  set (jt := if Bool.eqb falsey (cond_negated c) then JMPT else JMPF) in *.
  apply cbind_ok in H. destruct H as [wc [sa [Hc H]]].
  apply (comp_pure_spec (cond_expr c) (cond_expr_pure c Hp) 0 (pass (pass (tfl d))) s wc sa ltac:(lia) Hwf) in Hc.
  apply SpecD_lay in Hc. destruct Hc as [code [K [A (L & W & E & Ok & _ & NT & X)]]].
  specialize (NT eq_refl eq_refl eq_refl). cbn [ForbidTemp pass tfl withDiscard fl0] in X.
  apply cbind_ok in H. destruct H as [a [sa' [Hh H]]]. apply here_ok in Hh. destruct Hh as [-> ->].
  apply cbind_ok in H. destruct H as [u [sb [Hem H]]]. apply emit_ok in Hem. subst sb.
  apply cret_ok in H. destruct H as [-> ->].
  exists code, (Z.lor (New jt) wc). conj.
  - apply lay_emit. exact L.
  - apply wfcs_emitted. exact W.
  - exact (proj1 (proj2 L)).
  - intros off wp Ewp rr v mid m r Hcode Hdat Hm Hsp Hip.
    assert (Hjt : is_cjmp jt = true) by (unfold jt; destruct (Bool.eqb falsey (cond_negated c)); reflexivity).
    assert (Hjr : 0 <= jt < 128) by (unfold jt; destruct (Bool.eqb falsey (cond_negated c)); [exact jmpt_range|exact jmpf_range]).
    assert (Hdj : decode (Z.lor (Z.lor (New jt) wc) wp) =
                  {| f_op := jt; f_k0 := K; f_k1 := AddrImm; f_k2 := 0; f_a0 := A; f_a1 := off; f_a2 := 0 |}).
    { replace (Z.lor (Z.lor (New jt) wc) wp) with (Z.lor (Z.lor (New jt) wp) wc).
      - apply (decode_op01 jt K A AddrImm off wc wp Hjr (okind_range K Ok) imm_range E Ewp).
      - rewrite <- !Z.lor_assoc. f_equal. apply Z.lor_comm. }
    pose proof (code_at_nth v (ncs s) code _ [] Hcode) as Hi.
    apply code_at_app in Hcode. destruct Hcode as [Hcode _].
    assert (Hda : data_at v sa) by (intros i y Hy; apply Hdat; exact Hy).
    pose proof (X rr v mid m r Hcode Hda Hm Hsp Hip) as Ex.
    rewrite cond_res_negated.
    destruct (den (v_globals v) (cond_expr c)) as [cv|err].
    + destruct Ex as [m1 [r1 [Hs1 [Hm1 [Hc1 [Hi1 [_ Ho]]]]]]].
      destruct (fetch_opnd v mid (m_sp m) m K A cv m1 r1 Ho NT Hm1) as [m2 [Hf [Hm2 Hsp2]]].
      assert (Hat : at_ip v r1 mid (Z.lor (Z.lor (New jt) wc) wp)).
      { split; [rewrite Hi1; destruct L as (_ & N & _); rewrite N; exact Hi|].
        rewrite (cur_mid_ctx v r r1 Hc1). exact Hm. }
      pose proof (step_cjmp v mid m1 r1 rr _ jt K A AddrImm 0 off 0 _ cv Hat Hjt Hdj Hf) as Hstep.
      destruct cv as [| | | | |b|]; cbn [cond_res]; cbn beta iota in Hstep;
        try (exists (List.length code + 1)%nat, m2, (r_ip r1); eexists;
             rewrite steps_app, Hs1, steps_one, Hstep, Hc1; reflexivity).
      exists (List.length code + 1)%nat, m2.
      destruct (((jt =? JMPF) && negb b) || ((jt =? JMPT) && b)) eqn:Etake.
      * exists (with_ip (with_ip r1 (r_ip r1 + off - 1)) (r_ip r1 + off - 1 + 1)).
        rewrite steps_app, Hs1, steps_one, Hstep. conj; try assumption; try reflexivity;
          cbn [with_ip r_ip r_ctx]; try exact Hc1. rewrite Hi1. destruct L as (_ & N & _). rewrite N.
        unfold jt in Etake. destruct falsey, (cond_negated c), b; cbn in Etake; try discriminate Etake; cbn; lia.
      * exists (with_ip r1 (r_ip r1 + 1)).
        rewrite steps_app, Hs1, steps_one, Hstep. conj; try assumption; try reflexivity;
          cbn [with_ip r_ip r_ctx]; try exact Hc1. rewrite Hi1. destruct L as (_ & N & _). rewrite N.
        unfold jt in Etake. destruct falsey, (cond_negated c), b; cbn in Etake; try discriminate Etake; cbn; lia.
    + cbn [cond_res]. destruct Ex as [me [ip [vals Hs1]]]. exists (List.length code), me, ip, vals. exact Hs1.
Qed.

(* ================= if ================= *)
Lemma comp_if_unfold c tc srcsel fl :
  comp (NIf c tc) srcsel fl =
  (let discard := Discard fl in
   let returning := Returning fl in
   jmpfAddr <- comp_condition (comp (cond_expr c)) (cond_negated c) true 0 (pass fl) ;;
   tcInstr <- comp tc 0 (withDiscard discard (pass fl)) ;;
   dest0 <- enc srcsel (Src0 tcInstr) (Src0Addr tcInstr) ;;
   dest1 <- (if negb (Src0 tcInstr =? AddrStck) && negb (Src0 tcInstr =? AddrInv) && negb discard && negb returning
             then emit (Z.lor (New PUSH) tcInstr) ;;; enc srcsel AddrStck 0
             else cret dest0) ;;
   dest2 <- (if (Src0 tcInstr =? AddrStck) && discard && negb returning
             then emit (New POP) ;;; enc srcsel AddrInv 0
             else cret dest1) ;;
   nra0 <- here ;;
   r3 <- (if returning then
            emit (Z.lor (New RET) tcInstr) ;;;
            d <- enc srcsel AddrInv 0 ;;
            ix <- add_ds VNil ;;
            a <- here ;;
            w <- enc 0 AddrDS ix ;;
            emit (Z.lor (New RET) w) ;;; cret (d, a)
          else cret (dest2, nra0)) ;;
   let '(dest3, nra1) := r3 in
   nra2 <- (if negb returning && negb discard then
              w <- enc 0 AddrImm 2 ;;
              emit (Z.lor (New JMP) w) ;;;
              a <- here ;;
              ix <- add_ds VNil ;;
              w' <- enc 0 AddrDS ix ;;
              emit (Z.lor (New PUSH) w') ;;; cret a
            else cret nra1) ;;
   wp <- enc 1 AddrImm (nra2 - jmpfAddr) ;;
   patch jmpfAddr wp ;;;
   cret dest3).
Proof. reflexivity. Qed.

Lemma ssem_if n G c b G' res :
  ssem n G (NIf c b) = Some (G', res) ->
  exists n', n = S n' /\
    match cond_res (den (w_glob G) c) with
    | Fail e => G' = G /\ res = Fail e
    | Ok true => ssem n' G b = Some (G', res)
    | Ok false => G' = G /\ res = Ok VNil
    end.
Proof.
  destruct n as [|n]; [discriminate|]. cbn [StmtSem.ssem]. destruct (Nat.leb (height c) n); [|discriminate].
  intros H. exists n. split; [reflexivity|].
  destruct (cond_res (den (w_glob G) c)) as [[|]|e]; [exact H|injection H as <- <-; auto|injection H as <- <-; auto].
Qed.

Lemma lay_wfcs s s' code : lay s s' code -> wfcs s -> nds s' = zlen (rds s') -> wfcs s'.
Proof.
  intros (R & N & _) [Hn _] Hd. split; [|exact Hd]. rewrite N, R, Hn. unfold zlen. rewrite app_length, rev_length. lia.
Qed.

Lemma exec_jmp rr v mid instr off k1 k2 a1 a2 m1 r1 :
  at_ip v r1 mid instr ->
  decode instr = {| f_op := JMP; f_k0 := AddrImm; f_k1 := k1; f_k2 := k2; f_a0 := off; f_a1 := a1; f_a2 := a2 |} ->
  steps rr 1 (St v mid m1) r1 = SNext (St v mid m1) (with_ip (with_ip r1 (r_ip r1 + off - 1)) (r_ip r1 + off - 1 + 1)).
Proof.
  intros Hat Hd. rewrite steps_one, (step_jmp v mid m1 r1 rr instr _ _ _ _ _ _ Hat Hd). reflexivity.
Qed.

Lemma set_world_twice v G1 G2 : set_world (set_world v G1) G2 = set_world v G2.
Proof. reflexivity. Qed.

(* if in discarded position *)
Lemma if_discard_specS c tc sel s s' w :
  0 <= sel <= 1 -> pure c = true -> compiles_stmt tc -> wfcs s ->
  comp (NIf c tc) sel (tfl true) s = COk (w, s') ->
  SpecS (NIf c tc) true sel s s' w.
Proof.
  intros Hsel Hpc Htc Hwf H. rewrite comp_if_unfold in H. cbv zeta in H.
  change (Discard (tfl true)) with true in H. change (Returning (tfl true)) with false in H.
  rewrite tfl_discard in H.
  apply cbind_ok in H. destruct H as [addr [s1 [Hcj H]]].
  destruct (cond_jump c true true s addr s1 Hpc Hwf Hcj) as [Cc [jinstr (Lc & Wc & Eaddr & Xc)]].
  apply cbind_ok in H. destruct H as [wt [s2 [Hct H]]].
  destruct (Htc true 0 s1 wt s2 ltac:(lia) Wc Hct) as [Ct [Kt [At (Lt & Wt & Et & Skt & _ & Xt)]]].
  destruct (enc_src0 Kt At wt (skind_range Kt Skt) Et) as [S0 S0a]. rewrite S0, S0a in H.
  apply cbind_ok in H. destruct H as [wd0 [s2' [Hd0 H]]]. apply enc_ok in Hd0. destruct Hd0 as [-> Ewd0].
  cbn [negb andb] in H. rewrite !andb_false_r in H.
  apply cbind_ok in H. destruct H as [dest1 [s2' [Hd1 H]]]. apply cret_ok in Hd1. destruct Hd1 as [-> ->].
  rewrite !andb_true_r in H.
  apply cbind_ok in H. destruct H as [dest2 [s3 [Hd2 H]]].
  apply cbind_ok in H. destruct H as [nra0 [s3' [Hh H]]]. apply here_ok in Hh. destruct Hh as [-> ->].
  apply cbind_ok in H. destruct H as [r3 [s3' [Hr3 H]]]. apply cret_ok in Hr3. destruct Hr3 as [-> ->].
  apply cbind_ok in H. destruct H as [nra2 [s3' [Hn2 H]]]. apply cret_ok in Hn2. destruct Hn2 as [-> ->].
  apply cbind_ok in H. destruct H as [wp [s3' [Hwp H]]]. apply enc_ok in Hwp. destruct Hwp as [-> Ewp].
  apply cbind_ok in H. destruct H as [u [s4 [Hpatch H]]]. apply cret_ok in H. destruct H as [-> ->].
  (* the tail: POP when the body left a value *)
  assert (Tail : exists post K A,
            lay s2 s3 post /\ EncodeSrc sel K A = Some dest2 /\ skind K /\ stack_effect K = 0 /\
            nds s3 = nds s2 /\ rds s3 = rds s2 /\
            ((Kt = AddrStck /\ post = [New POP]) \/ (Kt <> AddrStck /\ post = []))).
  { destruct (Z.eqb_spec Kt AddrStck) as [EK|NK].
    - apply cbind_ok in Hd2. destruct Hd2 as [u0 [sa [Hem Hd2]]]. apply emit_ok in Hem. subst sa.
      apply enc_ok in Hd2. destruct Hd2 as [-> Ed2].
      exists [New POP], AddrInv, 0. conj; try reflexivity.
      + change [New POP] with ([] ++ [New POP]). apply lay_emit. apply lay_refl.
      + exact Ed2.
      + right. right. right. right. reflexivity.
      + left. auto.
    - apply cret_ok in Hd2. destruct Hd2 as [-> ->].
      exists [], Kt, At. conj; try reflexivity.
      + apply lay_refl.
      + exact Ewd0.
      + exact Skt.
      + unfold stack_effect. rewrite (proj2 (Z.eqb_neq Kt AddrStck) NK). reflexivity.
      + right. auto. }
  destruct Tail as [post [K [A (Lp & Ek & Sk & Eff & Nd3 & Rd3 & Hpost)]]].
  assert (L3 : lay s s3 (Cc ++ jinstr :: (Ct ++ post))).
  { replace (Cc ++ jinstr :: (Ct ++ post)) with (((Cc ++ [jinstr]) ++ Ct) ++ post) by (rewrite <- !app_assoc; reflexivity).
    apply (lay_trans s s2 s3); [apply (lay_trans s s1 s2); assumption|exact Lp]. }
  rewrite Eaddr in Hpatch.
  destruct (patch_lay s s3 Cc jinstr (Ct ++ post) wp u s4 L3 Hwf Hpatch) as [L4 [Rd4 [Nd4 Nc4]]].
  exists (Cc ++ Z.lor jinstr wp :: (Ct ++ post)), K, A. conj.
  - exact L4.
  - apply (lay_wfcs s s4 _ L4 Hwf). rewrite Nd4, Rd4, Nd3, Rd3. exact (proj2 Wt).
  - exact Ek.
  - exact Sk.
  - discriminate.
  - intros n rr v mid m r G' res Hbc Hc Hdat Hm Hsp Hip HM.
    apply ssem_if in HM. destruct HM as [n' [-> HM]]. change (w_glob (wof v)) with (v_globals v) in HM.
    assert (Hend : ncs s3 = ncs s + zlen Cc + 1 + zlen Ct + zlen post).
    { destruct L3 as (_ & N & _). rewrite N. unfold zlen. rewrite !app_length. cbn [List.length]. rewrite app_length. lia. }
    assert (Hcj' : code_at v (ncs s) (Cc ++ [Z.lor jinstr wp])).
    { intros i x Hi. apply Hc. destruct (Nat.lt_ge_cases i (List.length Cc)) as [Hlt|Hge].
      - rewrite nth_error_app1 in Hi |- * by lia. exact Hi.
      - rewrite nth_error_app2 in Hi |- * by lia. destruct (i - List.length Cc)%nat as [|j]; [exact Hi|].
        cbn in Hi. destruct j; discriminate Hi. }
    assert (Hd1 : data_at v s1).
    { destruct Lt as (_ & _ & [dt Dt]). apply (data_at_ext v s1 s4 dt Hdat). rewrite Rd4, Rd3. exact Dt. }
    pose proof (Xc (ncs s3 - addr) wp Ewp rr v mid m r Hcj' Hd1 Hm Hsp Hip) as Ec.
    replace (addr + (ncs s3 - addr)) with (ncs s3) in Ec by lia.
    destruct (cond_res (den (v_globals v) c)) as [[|]|e].
    + (* the body runs *)
      destruct Ec as [k1 [m1 [r1 [Hs1 [Hm1 [Hsp1 [Hc1 Hi1]]]]]]]. cbn [Bool.eqb] in Hi1.
      assert (HcT : code_at v (ncs s1) Ct).
      { destruct Lc as (_ & N & _). rewrite N. unfold zlen. rewrite app_length. cbn [List.length].
        intros i x Hi. replace (ncs s + Z.of_nat (List.length Cc + 1) + Z.of_nat i)
          with (ncs s + Z.of_nat (List.length Cc + 1 + i)) by lia.
        apply Hc. rewrite nth_error_app2 by lia. replace (List.length Cc + 1 + i - List.length Cc)%nat with (S i) by lia.
        cbn [nth_error]. rewrite nth_error_app1; [exact Hi|]. apply nth_error_Some. congruence. }
      assert (Hdt2 : data_at v s2) by (intros i y Hy; apply Hdat; rewrite Rd4, Rd3; exact Hy).
      assert (Hm1' : cur_mid v r1 = Good mid) by (rewrite (cur_mid_ctx v r r1 Hc1); exact Hm).
      assert (Hsp1' : 0 <= m_sp m1 <= zlen (m_stack m1)) by (destruct Hm1 as (_&_&_&_&_&B); lia).
      assert (Hi1' : r_ip r1 = ncs s1).
      { rewrite Hi1. destruct Lc as (_ & N & _). rewrite N. unfold zlen. rewrite app_length. cbn [List.length]. lia. }
      pose proof (Xt n' rr v mid m1 r1 G' res Hbc HcT Hdt2 Hm1' Hsp1' Hi1' HM) as Et2.
      destruct res as [x|err].
      * destruct Et2 as [k2 [m2 [r2 [Hs2 [Hm2 [Hc2 [Hi2 Hsp2]]]]]]]. cbn beta iota in Hsp2.
        destruct Hpost as [[EK ->]|[NK ->]].
        -- (* POP *)
           rewrite EK in Hsp2. unfold stack_effect in Hsp2. cbn in Hsp2.
           set (v2 := set_world v G').
           assert (Hat : at_ip v2 r2 mid (New POP)).
           { split.
             - change (v_cs v2) with (v_cs v). rewrite Hi2.
               replace (ncs s2) with (ncs s + Z.of_nat (List.length Cc + 1 + List.length Ct)).
               + apply Hc. rewrite nth_error_app2 by lia.
                 replace (List.length Cc + 1 + List.length Ct - List.length Cc)%nat with (S (List.length Ct)) by lia.
                 cbn [nth_error]. rewrite nth_error_app2 by lia. rewrite Nat.sub_diag. reflexivity.
               + destruct Lt as (_ & N2 & _). destruct Lc as (_ & N1 & _). rewrite N2, N1. unfold zlen.
                 rewrite app_length. cbn [List.length]. lia.
             - change (cur_mid v2 r2) with (cur_mid v r2). rewrite (cur_mid_ctx v r1 r2 Hc2). exact Hm1'. }
           assert (Hm02 : msame (m_sp m) m m2).
           { apply (msame_trans (m_sp m) (m_sp m1) m m1 m2); [lia|exact Hm1|exact Hm2]. }
           destruct (exec_pop rr v2 mid (New POP) (m_sp m) m m2 r2 Hat (decode_op POP pop_range) Hm02 ltac:(lia) (proj1 Hsp))
             as [Hs3 [Hm3 Hsp3]].
           exists (k1 + (k2 + 1))%nat, (mdrop m2), (with_ip r2 (r_ip r2 + 1)).
           rewrite steps_app, Hs1, steps_app, Hs2. unfold SG. fold v2. rewrite Hs3. conj.
           ++ reflexivity.
           ++ exact Hm3.
           ++ cbn [with_ip r_ctx]. congruence.
           ++ cbn [with_ip r_ip]. rewrite Hi2, Nc4, Hend.
              destruct Lt as (_ & N2 & _). destruct Lc as (_ & N1 & _). rewrite N2, N1. unfold zlen.
              rewrite app_length. cbn [List.length]. lia.
           ++ rewrite Eff. lia.
        -- exists (k1 + k2)%nat, m2, r2. rewrite steps_app, Hs1, Hs2.
           unfold stack_effect in Hsp2. rewrite (proj2 (Z.eqb_neq Kt AddrStck) NK) in Hsp2. conj.
           ++ reflexivity.
           ++ apply (msame_trans (m_sp m) (m_sp m1) m m1 m2); [lia|exact Hm1|exact Hm2].
           ++ congruence.
           ++ rewrite Hi2, Nc4, Hend.
              destruct Lt as (_ & N2 & _). destruct Lc as (_ & N1 & _). rewrite N2, N1. unfold zlen.
              rewrite app_length. cbn [List.length]. lia.
           ++ rewrite Eff. lia.
      * destruct Et2 as [k2 [me [ip [vals Hs2]]]].
        exists (k1 + k2)%nat, me, ip, vals. rewrite steps_app, Hs1, Hs2. rewrite Hc1. reflexivity.
    + (* the jump skips the body *)
      destruct HM as [-> ->].
      destruct Ec as [k1 [m1 [r1 [Hs1 [Hm1 [Hsp1 [Hc1 Hi1]]]]]]]. cbn [Bool.eqb] in Hi1.
      exists k1, m1, r1. rewrite SG_same. conj; try assumption.
      * rewrite Hi1, Nc4. reflexivity.
      * rewrite Eff. lia.
    + destruct HM as [-> ->]. destruct Ec as [k1 [me [ip [vals Hs1]]]].
      exists k1, me, ip, vals. rewrite SG_same. exact Hs1.
Qed.

Lemma push_range : 0 <= PUSH < 128. Proof. unfold PUSH. lia. Qed.

Lemma push_decode K A w : 0 <= K < 8 -> EncodeSrc 0 K A = Some w ->
  decode (Z.lor (New PUSH) w) = {| f_op := PUSH; f_k0 := K; f_k1 := 0; f_k2 := 0; f_a0 := A; f_a1 := 0; f_a2 := 0 |}.
Proof. intros HK E. apply (decode_op0 PUSH K A w push_range HK E). Qed.

(* if in value position: the value of the body, or nil *)
Lemma if_value_specS c tc sel s s' w :
  0 <= sel <= 1 -> pure c = true -> compiles_stmt tc -> wfcs s ->
  comp (NIf c tc) sel (tfl false) s = COk (w, s') ->
  SpecS (NIf c tc) false sel s s' w.
Proof.
  intros Hsel Hpc Htc Hwf H. rewrite comp_if_unfold in H. cbv zeta in H.
  change (Discard (tfl false)) with false in H. change (Returning (tfl false)) with false in H.
  rewrite tfl_discard in H.
  apply cbind_ok in H. destruct H as [addr [s1 [Hcj H]]].
  destruct (cond_jump c true false s addr s1 Hpc Hwf Hcj) as [Cc [jinstr (Lc & Wc & Eaddr & Xc)]].
  apply cbind_ok in H. destruct H as [wt [s2 [Hct H]]].
  destruct (Htc false 0 s1 wt s2 ltac:(lia) Wc Hct) as [Ct [Kt [At (Lt & Wt & Et & Skt & NTt & Xt)]]].
  destruct (NTt eq_refl) as [NTmp NInv].
  destruct (enc_src0 Kt At wt (skind_range Kt Skt) Et) as [S0 S0a]. rewrite S0, S0a in H.
  apply cbind_ok in H. destruct H as [wd0 [s2' [Hd0 H]]]. apply enc_ok in Hd0. destruct Hd0 as [-> Ewd0].
  rewrite (proj2 (Z.eqb_neq Kt AddrInv) NInv) in H. cbn [negb andb] in H. rewrite !andb_true_r in H.
  apply cbind_ok in H. destruct H as [dest1 [s3 [Hd1 H]]].
  rewrite !andb_false_r in H.
  apply cbind_ok in H. destruct H as [dest2 [s3' [Hd2 H]]]. apply cret_ok in Hd2. destruct Hd2 as [-> ->].
  apply cbind_ok in H. destruct H as [nra0 [s3' [Hh H]]]. apply here_ok in Hh. destruct Hh as [-> ->].
  apply cbind_ok in H. destruct H as [r3 [s3' [Hr3 H]]]. apply cret_ok in Hr3. destruct Hr3 as [-> ->].
  apply cbind_ok in H. destruct H as [nra2 [s6 [Hn2 H]]].
  apply cbind_ok in Hn2. destruct Hn2 as [w2 [s3' [Hw2 Hn2]]]. apply enc_ok in Hw2. destruct Hw2 as [-> Ew2].
  apply cbind_ok in Hn2. destruct Hn2 as [u2 [s4 [Hem Hn2]]]. apply emit_ok in Hem. subst s4.
  apply cbind_ok in Hn2. destruct Hn2 as [a [s4' [Hh Hn2]]]. apply here_ok in Hh. destruct Hh as [-> ->].
  apply cbind_ok in Hn2. destruct Hn2 as [ix [s5 [Hds Hn2]]]. apply add_ds_ok in Hds. destruct Hds as [-> ->].
  apply cbind_ok in Hn2. destruct Hn2 as [wn [s5' [Hwn Hn2]]]. apply enc_ok in Hwn. destruct Hwn as [-> Ewn].
  apply cbind_ok in Hn2. destruct Hn2 as [u3 [s6' [Hem Hn2]]]. apply emit_ok in Hem. subst s6'.
  apply cret_ok in Hn2. destruct Hn2 as [-> ->].
  apply cbind_ok in H. destruct H as [wp [s6' [Hwp H]]]. apply enc_ok in Hwp. destruct Hwp as [-> Ewp].
  apply cbind_ok in H. destruct H as [u [s7 [Hpatch H]]]. apply cret_ok in H. destruct H as [-> ->].
  set (jmp := Z.lor (New JMP) w2) in *. set (pnil := Z.lor (New PUSH) wn) in *.
  cbn [emitted ncs nds] in *.
  (* PUSH when the body's value is not on the stack yet *)
  assert (Mid : exists pushT A,
            lay s2 s3 pushT /\ EncodeSrc sel AddrStck A = Some dest1 /\ nds s3 = nds s2 /\ rds s3 = rds s2 /\
            ((Kt = AddrStck /\ pushT = []) \/ (Kt <> AddrStck /\ pushT = [Z.lor (New PUSH) wt]))).
  { destruct (Z.eqb_spec Kt AddrStck) as [EK|NK]; cbn [negb] in Hd1.
    - apply cret_ok in Hd1. destruct Hd1 as [-> ->]. rewrite EK in Ewd0.
      exists [], At. conj; try reflexivity; [apply lay_refl|exact Ewd0|left; auto].
    - apply cbind_ok in Hd1. destruct Hd1 as [u0 [sa [Hem Hd1]]]. apply emit_ok in Hem. subst sa.
      apply enc_ok in Hd1. destruct Hd1 as [-> Ed1].
      exists [Z.lor (New PUSH) wt], 0. conj; try reflexivity.
      + change [Z.lor (New PUSH) wt] with ([] ++ [Z.lor (New PUSH) wt]). apply lay_emit. apply lay_refl.
      + exact Ed1.
      + right. auto. }
  destruct Mid as [pushT [A (Lp & Ek & Nd3 & Rd3 & Hpush)]].
  set (s6 := emitted (with_data (emitted s3 jmp) VNil) pnil) in *.
  assert (L6 : lay s s6 (Cc ++ jinstr :: (Ct ++ pushT ++ [jmp; pnil]))).
  { replace (Cc ++ jinstr :: (Ct ++ pushT ++ [jmp; pnil]))
      with (((((Cc ++ [jinstr]) ++ Ct) ++ pushT) ++ [jmp]) ++ [pnil]) by (rewrite <- !app_assoc; reflexivity).
    unfold s6. apply lay_emit.
    assert (L3j : lay s (emitted s3 jmp) ((((Cc ++ [jinstr]) ++ Ct) ++ pushT) ++ [jmp])).
    { apply lay_emit. apply (lay_trans s s2 s3); [apply (lay_trans s s1 s2); assumption|exact Lp]. }
    destruct L3j as (R & N & [dd D]). unfold lay, with_data; cbn [rcs ncs rds]. conj; try assumption.
    exists (VNil :: dd). cbn [emitted rds] in D |- *. rewrite D. reflexivity. }
  rewrite Eaddr in Hpatch.
  destruct (patch_lay s s6 Cc jinstr (Ct ++ pushT ++ [jmp; pnil]) wp u s7 L6 Hwf Hpatch) as [L7 [Rd7 [Nd7 Nc7]]].
  exists (Cc ++ Z.lor jinstr wp :: (Ct ++ pushT ++ [jmp; pnil])), AddrStck, A. conj.
  - exact L7.
  - apply (lay_wfcs s s7 _ L7 Hwf). rewrite Nd7, Rd7. unfold s6. cbn [emitted with_data nds rds].
    rewrite Nd3, Rd3. destruct Wt as [_ B]. unfold zlen in *. cbn [List.length]. lia.
  - exact Ek.
  - left. reflexivity.
  - intros _. split; discriminate.
  - intros n rr v mid m r G' res Hbc Hc Hdat Hm Hsp Hip HM.
    apply ssem_if in HM. destruct HM as [n' [-> HM]]. change (w_glob (wof v)) with (v_globals v) in HM.
    assert (N1 : ncs s1 = ncs s + zlen Cc + 1).
    { destruct Lc as (_ & N & _). rewrite N. unfold zlen. rewrite app_length. cbn [List.length]. lia. }
    assert (N2 : ncs s2 = ncs s1 + zlen Ct) by (destruct Lt as (_ & N & _); exact N).
    assert (N3 : ncs s3 = ncs s2 + zlen pushT) by (destruct Lp as (_ & N & _); exact N).
    assert (Hcj' : code_at v (ncs s) (Cc ++ [Z.lor jinstr wp])).
    { intros i x Hi. apply Hc. destruct (Nat.lt_ge_cases i (List.length Cc)) as [Hlt|Hge].
      - rewrite nth_error_app1 in Hi |- * by lia. exact Hi.
      - rewrite nth_error_app2 in Hi |- * by lia. destruct (i - List.length Cc)%nat as [|j]; [exact Hi|].
        cbn in Hi. destruct j; discriminate Hi. }
    (* where the pieces of the code are *)
    assert (Hat_code : forall j x, nth_error (Ct ++ pushT ++ [jmp; pnil]) j = Some x ->
              znth (v_cs v) (ncs s1 + Z.of_nat j) = Some x).
    { intros j x Hj. rewrite N1. replace (ncs s + zlen Cc + 1 + Z.of_nat j) with (ncs s + Z.of_nat (List.length Cc + 1 + j))
        by (unfold zlen; lia).
      apply Hc. rewrite nth_error_app2 by lia. replace (List.length Cc + 1 + j - List.length Cc)%nat with (S j) by lia.
      exact Hj. }
    assert (Hd7 : forall sx dd, rds s7 = dd ++ rds sx -> data_at v sx).
    { intros sx dd E. apply (data_at_ext v sx s7 dd Hdat E). }
    assert (Hrds7 : rds s7 = VNil :: rds s2).
    { rewrite Rd7. unfold s6. cbn [emitted with_data rds]. rewrite Rd3. reflexivity. }
    assert (Hda1 : data_at v s1).
    { destruct Lt as (_ & _ & [dt Dt]). apply (Hd7 s1 (VNil :: dt)). rewrite Hrds7, Dt. reflexivity. }
    assert (Hdt2 : data_at v s2) by (apply (Hd7 s2 [VNil]); rewrite Hrds7; reflexivity).
    assert (Hnil : znth (v_ds v) (nds s3) = Some VNil).
    { apply Hdat. rewrite Hrds7, Nd3, (proj2 Wt). apply znth_rev_cons. }
    pose proof (Xc (ncs s3 + 1 - addr) wp Ewp rr v mid m r Hcj' Hda1 Hm Hsp Hip) as Ec.
    replace (addr + (ncs s3 + 1 - addr)) with (ncs s3 + 1) in Ec by lia.
    assert (Hend : ncs s7 = ncs s3 + 2) by (rewrite Nc7; unfold s6; cbn [emitted with_data ncs]; lia).
    assert (Hdj : decode jmp = {| f_op := JMP; f_k0 := AddrImm; f_k1 := 0; f_k2 := 0; f_a0 := 2; f_a1 := 0; f_a2 := 0 |})
      by (apply (decode_op0 JMP AddrImm 2 w2 jmp_range imm_range Ew2)).
    assert (Hdn : decode pnil = {| f_op := PUSH; f_k0 := AddrDS; f_k1 := 0; f_k2 := 0; f_a0 := nds s3; f_a1 := 0; f_a2 := 0 |})
      by (apply (push_decode AddrDS (nds s3) wn ds_range Ewn)).
    assert (Hi_jmp : znth (v_cs v) (ncs s3) = Some jmp).
    { rewrite N3, N2. replace (ncs s1 + zlen Ct + zlen pushT) with (ncs s1 + Z.of_nat (List.length Ct + List.length pushT))
        by (unfold zlen; lia).
      apply Hat_code. rewrite nth_error_app2 by lia. rewrite nth_error_app2 by lia.
      replace (List.length Ct + List.length pushT - List.length Ct - List.length pushT)%nat with 0%nat by lia. reflexivity. }
    assert (Hi_pnil : znth (v_cs v) (ncs s3 + 1) = Some pnil).
    { rewrite N3, N2. replace (ncs s1 + zlen Ct + zlen pushT + 1) with (ncs s1 + Z.of_nat (List.length Ct + List.length pushT + 1))
        by (unfold zlen; lia).
      apply Hat_code. rewrite nth_error_app2 by lia. rewrite nth_error_app2 by lia.
      replace (List.length Ct + List.length pushT + 1 - List.length Ct - List.length pushT)%nat with 1%nat by lia. reflexivity. }
    destruct (cond_res (den (v_globals v) c)) as [[|]|e].
    + (* the body runs, its value is pushed if need be, the jump skips the nil *)
      destruct Ec as [k1 [m1 [r1 [Hs1 [Hm1 [Hsp1 [Hc1 Hi1]]]]]]]. cbn [Bool.eqb] in Hi1.
      assert (HcT : code_at v (ncs s1) Ct).
      { intros i x Hi. apply Hat_code. rewrite nth_error_app1; [exact Hi|]. apply nth_error_Some. congruence. }
      assert (Hm1' : cur_mid v r1 = Good mid) by (rewrite (cur_mid_ctx v r r1 Hc1); exact Hm).
      assert (Hsp1' : 0 <= m_sp m1 <= zlen (m_stack m1)) by (destruct Hm1 as (_&_&_&_&_&B); lia).
      assert (Hi1' : r_ip r1 = ncs s1) by (rewrite Hi1, N1; reflexivity).
      pose proof (Xt n' rr v mid m1 r1 G' res Hbc HcT Hdt2 Hm1' Hsp1' Hi1' HM) as Et2.
      destruct res as [x|err].
      * destruct Et2 as [k2 [m2 [r2 [Hs2 [Hm2 [Hc2 [Hi2 Ho2]]]]]]]. cbn beta iota in Ho2.
        set (v2 := set_world v G') in *.
        assert (Hm02 : msame (m_sp m) m m2).
        { apply (msame_trans (m_sp m) (m_sp m1) m m1 m2); [lia|exact Hm1|exact Hm2]. }
        rewrite Hsp1 in Ho2.
        (* after the optional PUSH: the value is on the stack, ip at the JMP *)
        assert (Pushed : exists k3 m3 r3, steps rr k3 (St v2 mid m2) r2 = SNext (St v2 mid m3) r3 /\
                  msame (m_sp m) m m3 /\ m_sp m3 = m_sp m + 1 /\ znth (m_stack m3) (m_sp m) = Some x /\
                  r_ctx r3 = r_ctx r /\ r_ip r3 = ncs s3).
        { destruct Hpush as [[EK ->]|[NK ->]].
          - exists 0%nat, m2, r2. cbn [steps].
            destruct Ho2 as [[_ [H1 H2]]|[[E1 _]|[[E1 _]|[E1 _]]]]; try (rewrite EK in E1; discriminate E1).
            conj; try assumption; try reflexivity; [congruence|]. rewrite Hi2, N3. unfold zlen. cbn. lia.
          - assert (Hat : at_ip v2 r2 mid (Z.lor (New PUSH) wt)).
            { split.
              - change (v_cs v2) with (v_cs v). rewrite Hi2, N2. replace (ncs s1 + zlen Ct) with (ncs s1 + Z.of_nat (List.length Ct))
                  by (unfold zlen; lia).
                apply Hat_code. rewrite nth_error_app2 by lia. rewrite Nat.sub_diag. reflexivity.
              - change (cur_mid v2 r2) with (cur_mid v r2). rewrite (cur_mid_ctx v r1 r2 Hc2). exact Hm1'. }
            destruct (exec_push rr v2 mid _ Kt At _ _ _ _ (m_sp m) m m2 r2 x Hat
                        (push_decode Kt At wt (skind_range Kt Skt) Et) (proj1 Hsp) Ho2 NTmp Hm02)
              as [m3 [Hs3 [Hm3 [Hsp3 Hx3]]]].
            exists 1%nat, m3, (with_ip r2 (r_ip r2 + 1)). conj; try assumption.
            + cbn [with_ip r_ctx]. congruence.
            + cbn [with_ip r_ip]. rewrite Hi2, N3. unfold zlen. cbn [List.length]. lia. }
        destruct Pushed as [k3 [m3 [r3 [Hs3 [Hm3 [Hsp3 [Hx3 [Hc3 Hi3]]]]]]]].
        assert (Hatj : at_ip v2 r3 mid jmp).
        { split; [change (v_cs v2) with (v_cs v); rewrite Hi3; exact Hi_jmp|].
          change (cur_mid v2 r3) with (cur_mid v r3). rewrite (cur_mid_ctx v r r3 Hc3). exact Hm. }
        pose proof (exec_jmp rr v2 mid jmp 2 0 0 0 0 m3 r3 Hatj Hdj) as Hs4.
        exists (k1 + (k2 + (k3 + 1)))%nat, m3, (with_ip (with_ip r3 (r_ip r3 + 2 - 1)) (r_ip r3 + 2 - 1 + 1)).
        rewrite steps_app, Hs1, steps_app, Hs2. unfold SG. fold v2. rewrite steps_app, Hs3, Hs4. conj.
        -- reflexivity.
        -- exact Hm3.
        -- cbn [with_ip r_ctx]. exact Hc3.
        -- cbn [with_ip r_ip]. rewrite Hi3, Hend. lia.
        -- left. conj; [reflexivity|exact Hsp3|exact Hx3].
      * destruct Et2 as [k2 [me [ip [vals Hs2]]]].
        exists (k1 + k2)%nat, me, ip, vals. rewrite steps_app, Hs1, Hs2. rewrite Hc1. reflexivity.
    + (* the jump lands on PUSH nil *)
      destruct HM as [-> ->].
      destruct Ec as [k1 [m1 [r1 [Hs1 [Hm1 [Hsp1 [Hc1 Hi1]]]]]]]. cbn [Bool.eqb] in Hi1.
      assert (Hat : at_ip v r1 mid pnil).
      { split; [rewrite Hi1; exact Hi_pnil|rewrite (cur_mid_ctx v r r1 Hc1); exact Hm]. }
      assert (Ho : opnd v (m_sp m) AddrDS (nds s3) VNil m1 r1).
      { right. right. left. conj; [reflexivity|exact Hsp1|exact Hnil]. }
      destruct (exec_push rr v mid pnil AddrDS (nds s3) _ _ _ _ (m_sp m) m m1 r1 VNil Hat Hdn (proj1 Hsp) Ho ltac:(discriminate) Hm1)
        as [m3 [Hs3 [Hm3 [Hsp3 Hx3]]]].
      exists (k1 + 1)%nat, m3, (with_ip r1 (r_ip r1 + 1)). rewrite steps_app, Hs1, Hs3, SG_same, set_world_same. conj.
      * reflexivity.
      * exact Hm3.
      * cbn [with_ip r_ctx]. exact Hc1.
      * cbn [with_ip r_ip]. rewrite Hi1, Hend. lia.
      * left. conj; [reflexivity|exact Hsp3|exact Hx3].
    + destruct HM as [-> ->]. destruct Ec as [k1 [me [ip [vals Hs1]]]].
      exists k1, me, ip, vals. rewrite SG_same. exact Hs1.
Qed.

(* ================= a statement whose value is pushed when it is not on the stack yet ================= *)
Definition push_code (Kt : Z) (wt : Z) : list Z := if Kt =? AddrStck then [] else [Z.lor (New PUSH) wt].

Lemma value_on_stack M s1 s2 s3 sd Ct Kt At wt :
  RunsS M false s1 s2 sd Ct Kt At -> Kt <> AddrTmp -> Kt <> AddrInv -> skind Kt ->
  EncodeSrc 0 Kt At = Some wt ->
  ncs s2 = ncs s1 + zlen Ct -> ncs s3 = ncs s2 + zlen (push_code Kt wt) ->
  RunsS M false s1 s3 sd (Ct ++ push_code Kt wt) AddrStck 0.
Proof.
  intros Xt NTmp NInv Skt Et N2 N3 rr v mid m r G' res Hbc Hc Hdat Hm Hsp Hip HM.
  pose proof Hc as Hc0. apply code_at_app in Hc. destruct Hc as [HcT HcP].
  pose proof (Xt rr v mid m r G' res Hbc HcT Hdat Hm Hsp Hip HM) as E.
  destruct res as [x|err]; [|exact E].
  destruct E as [k2 [m2 [r2 [Hs2 [Hm2 [Hc2 [Hi2 Ho2]]]]]]].
  set (v2 := set_world v G') in *.
  unfold push_code in *. destruct (Z.eqb_spec Kt AddrStck) as [EK|NK].
  - exists k2, m2, r2. rewrite app_nil_r in *. conj; try assumption.
    + rewrite Hi2, N3. unfold zlen. cbn. lia.
    + rewrite EK in Ho2. destruct Ho2 as [[_ [H1 H2]]|[[E1 _]|[[E1 _]|[E1 _]]]]; try discriminate E1.
      left. conj; [reflexivity|exact H1|exact H2].
  - assert (Hat : at_ip v2 r2 mid (Z.lor (New PUSH) wt)).
    { split.
      - change (v_cs v2) with (v_cs v). rewrite Hi2, N2. exact (code_at_nth v (ncs s1) Ct _ [] Hc0).
      - change (cur_mid v2 r2) with (cur_mid v r2). rewrite (cur_mid_ctx v r r2 Hc2). exact Hm. }
    destruct (exec_push rr v2 mid _ Kt At _ _ _ _ (m_sp m) m m2 r2 x Hat
                (push_decode Kt At wt (skind_range Kt Skt) Et) (proj1 Hsp) Ho2 NTmp Hm2)
      as [m3 [Hs3 [Hm3 [Hsp3 Hx3]]]].
    exists (k2 + 1)%nat, m3, (with_ip r2 (r_ip r2 + 1)). rewrite steps_app, Hs2. unfold SG. fold v2. rewrite Hs3. conj.
    + reflexivity.
    + exact Hm3.
    + cbn [with_ip r_ctx]. exact Hc2.
    + cbn [with_ip r_ip]. rewrite Hi2, N3. unfold zlen. cbn [List.length]. lia.
    + left. conj; [reflexivity|exact Hsp3|exact Hx3].
Qed.

(* the compile-time side of the optional PUSH *)
Lemma push_emit_ok Kt wt s u s' :
  Kt <> AddrInv ->
  (if negb (Kt =? AddrStck) && negb (Kt =? AddrInv) && negb false
   then emit (Z.lor (New PUSH) wt) else cret tt) s = COk (u, s') ->
  lay s s' (push_code Kt wt) /\ rds s' = rds s /\ nds s' = nds s /\ (wfcs s -> wfcs s').
Proof.
  intros NInv H. unfold push_code. rewrite (proj2 (Z.eqb_neq Kt AddrInv) NInv) in H. cbn [negb andb] in H.
  rewrite !andb_true_r in H. destruct (Kt =? AddrStck); cbn [negb] in H.
  - apply cret_ok in H. destruct H as [_ ->]. conj; [apply lay_refl|reflexivity|reflexivity|auto].
  - apply emit_ok in H. subst s'. conj; try reflexivity.
    + change [Z.lor (New PUSH) wt] with ([] ++ [Z.lor (New PUSH) wt]). apply lay_emit. apply lay_refl.
    + apply wfcs_emitted.
Qed.

(* ================= if / else ================= *)
Lemma comp_ifelse_unfold c tc fc srcsel fl :
  comp (NIfElse c tc fc) srcsel fl =
  (let returning := Returning fl in
   jmpFAddr <- comp_condition (comp (cond_expr c)) (cond_negated c) true 0 (pass fl) ;;
   tCase <- comp tc 0 (pass fl) ;;
   (if negb (Src0 tCase =? AddrStck) && negb (Src0 tCase =? AddrInv) && negb returning
    then emit (Z.lor (New PUSH) tCase) else cret tt) ;;;
   jmpTAddr <- (if returning then emit (Z.lor (New RET) tCase) ;;; cret 0
                else a <- here ;; emit (New JMP) ;;; cret a) ;;
   fCaseAddr <- here ;;
   fCase <- comp fc 0 (pass fl) ;;
   (if negb (Src0 fCase =? AddrStck) && negb (Src0 fCase =? AddrInv) && negb returning
    then emit (Z.lor (New PUSH) fCase) else cret tt) ;;;
   (if returning then emit (Z.lor (New RET) fCase) else cret tt) ;;;
   wf <- enc 1 AddrImm (fCaseAddr - jmpFAddr) ;;
   patch jmpFAddr wf ;;;
   if returning then enc srcsel AddrInv 0
   else
     endAddr <- here ;;
     wj <- enc 0 AddrImm (endAddr - jmpTAddr) ;;
     patch jmpTAddr wj ;;;
     if (tCase =? AddrInv) && (fCase =? AddrInv) then enc srcsel AddrInv 0
     else enc srcsel AddrStck 0).
Proof. reflexivity. Qed.

Lemma ssem_ifelse n G c a b G' res :
  ssem n G (NIfElse c a b) = Some (G', res) ->
  exists n', n = S n' /\
    match cond_res (den (w_glob G) c) with
    | Fail e => G' = G /\ res = Fail e
    | Ok true => ssem n' G a = Some (G', res)
    | Ok false => ssem n' G b = Some (G', res)
    end.
Proof.
  destruct n as [|n]; [discriminate|]. cbn [StmtSem.ssem]. destruct (Nat.leb (height c) n); [|discriminate].
  intros H. exists n. split; [reflexivity|].
  destruct (cond_res (den (w_glob G) c)) as [[|]|e]; [exact H|exact H|injection H as <- <-; auto].
Qed.

Lemma word_not_inv K A w : 0 <= K < 8 -> K <> AddrInv -> EncodeSrc 0 K A = Some w -> (w =? AddrInv) = false.
Proof.
  intros HK NK E. apply Z.eqb_neq. intros ->. destruct (enc_src0 K A _ HK E) as [S _].
  unfold AddrInv in *. change (Src0 0) with 0 in S. congruence.
Qed.

Lemma ifelse_specS c tc fc d sel s s' w :
  0 <= sel <= 1 -> pure c = true -> compiles_stmt tc -> compiles_stmt fc -> wfcs s ->
  comp (NIfElse c tc fc) sel (tfl d) s = COk (w, s') ->
  SpecS (NIfElse c tc fc) d sel s s' w.
Proof.
  intros Hsel Hpc Htc Hfc Hwf H. rewrite comp_ifelse_unfold in H. cbv zeta in H.
  change (Returning (tfl d)) with false in H. rewrite tfl_pass in H.
  apply cbind_ok in H. destruct H as [addr [s1 [Hcj H]]].
  destruct (cond_jump c true d s addr s1 Hpc Hwf Hcj) as [Cc [jinstr (Lc & Wc & Eaddr & Xc)]].
  (* then-branch *)
  apply cbind_ok in H. destruct H as [wt [s2 [Hct H]]].
  destruct (Htc false 0 s1 wt s2 ltac:(lia) Wc Hct) as [Ct [Kt [At (Lt & Wt & Et & Skt & NTt & Xt)]]].
  destruct (NTt eq_refl) as [NTmpT NInvT].
  destruct (enc_src0 Kt At wt (skind_range Kt Skt) Et) as [S0t _]. rewrite S0t in H.
  apply cbind_ok in H. destruct H as [u1 [s3 [Hpt H]]].
  destruct (push_emit_ok Kt wt s2 u1 s3 NInvT Hpt) as [Lpt [Rd3 [Nd3 W3]]]. specialize (W3 Wt).
  apply cbind_ok in H. destruct H as [jaddr [s4 [Hj H]]].
  apply cbind_ok in Hj. destruct Hj as [a [s3' [Hh Hj]]]. apply here_ok in Hh. destruct Hh as [-> ->].
  apply cbind_ok in Hj. destruct Hj as [u2 [s4' [Hem Hj]]]. apply emit_ok in Hem. subst s4'.
  apply cret_ok in Hj. destruct Hj as [-> ->].
  apply cbind_ok in H. destruct H as [faddr [s4' [Hh H]]]. apply here_ok in Hh. destruct Hh as [-> ->].
  (* else-branch *)
  apply cbind_ok in H. destruct H as [wf0 [s5 [Hcf H]]].
  destruct (Hfc false 0 (emitted s3 (New JMP)) wf0 s5 ltac:(lia) (wfcs_emitted _ _ W3) Hcf)
    as [Cf [Kf [Af (Lf & Wf & Ef & Skf & NTf & Xf)]]].
  destruct (NTf eq_refl) as [NTmpF NInvF].
  destruct (enc_src0 Kf Af wf0 (skind_range Kf Skf) Ef) as [S0f _]. rewrite S0f in H.
  apply cbind_ok in H. destruct H as [u3 [s6 [Hpf H]]].
  destruct (push_emit_ok Kf wf0 s5 u3 s6 NInvF Hpf) as [Lpf [Rd6 [Nd6 W6]]]. specialize (W6 Wf).
  apply cbind_ok in H. destruct H as [u4 [s6' [Hr H]]]. apply cret_ok in Hr. destruct Hr as [_ ->].
  apply cbind_ok in H. destruct H as [wfp [s6' [Hwf1 H]]]. apply enc_ok in Hwf1. destruct Hwf1 as [-> Ewfp].
  apply cbind_ok in H. destruct H as [u5 [s7 [Hpatch1 H]]].
  apply cbind_ok in H. destruct H as [endA [s7' [Hh H]]]. apply here_ok in Hh. destruct Hh as [-> ->].
  apply cbind_ok in H. destruct H as [wj [s7' [Hwj H]]]. apply enc_ok in Hwj. destruct Hwj as [-> Ewj].
  apply cbind_ok in H. destruct H as [u6 [s8 [Hpatch2 H]]].
  rewrite (word_not_inv Kt At wt (skind_range Kt Skt) NInvT Et) in H. cbn [andb] in H.
  apply enc_ok in H. destruct H as [-> Ew].
  cbn [emitted ncs] in *.
  set (PT := Ct ++ push_code Kt wt) in *. set (PF := Cf ++ push_code Kf wf0) in *.
  (* layout before the patches *)
  assert (L3 : lay s s3 ((Cc ++ [jinstr]) ++ PT)).
  { unfold PT. rewrite app_assoc. apply (lay_trans s s2 s3); [apply (lay_trans s s1 s2); assumption|exact Lpt]. }
  assert (L6 : lay s s6 (Cc ++ jinstr :: (PT ++ New JMP :: PF))).
  { replace (Cc ++ jinstr :: (PT ++ New JMP :: PF)) with ((((Cc ++ [jinstr]) ++ PT) ++ [New JMP]) ++ PF)
      by (rewrite <- !app_assoc; reflexivity).
    apply (lay_trans s (emitted s3 (New JMP)) s6); [apply lay_emit; exact L3|].
    unfold PF. apply (lay_trans _ s5 s6); assumption. }
  rewrite Eaddr in Hpatch1.
  destruct (patch_lay s s6 Cc jinstr (PT ++ New JMP :: PF) wfp u5 s7 L6 Hwf Hpatch1) as [L7 [Rd7 [Nd7 Nc7]]].
  assert (N3 : ncs s3 = ncs s + zlen (Cc ++ Z.lor jinstr wfp :: PT)).
  { destruct L3 as (_ & N & _). rewrite N. unfold zlen. rewrite !app_length. cbn [List.length]. lia. }
  assert (L7' : lay s s7 ((Cc ++ Z.lor jinstr wfp :: PT) ++ New JMP :: PF)).
  { rewrite <- app_assoc. cbn [app]. exact L7. }
  rewrite N3 in Hpatch2.
  destruct (patch_lay s s7 (Cc ++ Z.lor jinstr wfp :: PT) (New JMP) PF wj u6 s8 L7' Hwf Hpatch2) as [L8 [Rd8 [Nd8 Nc8]]].
  set (jF := Z.lor jinstr wfp) in *. set (jT := Z.lor (New JMP) wj) in *.
  exists ((Cc ++ jF :: PT) ++ jT :: PF), AddrStck, 0. conj.
  - exact L8.
  - apply (lay_wfcs s s8 _ L8 Hwf). rewrite Nd8, Rd8, Nd7, Rd7, Nd6, Rd6. exact (proj2 Wf).
  - exact Ew.
  - left. reflexivity.
  - intros _. split; discriminate.
  - intros n rr v mid m r G' res Hbc Hc Hdat Hm Hsp Hip HM.
    apply ssem_ifelse in HM. destruct HM as [n' [-> HM]]. change (w_glob (wof v)) with (v_globals v) in HM.
    assert (N1 : ncs s1 = ncs s + zlen Cc + 1).
    { destruct Lc as (_ & N & _). rewrite N. unfold zlen. rewrite app_length. cbn [List.length]. lia. }
    assert (N3' : ncs s3 = ncs s1 + zlen PT).
    { rewrite N3, N1. unfold zlen. rewrite app_length. cbn [List.length]. lia. }
    assert (N6 : ncs s6 = ncs s3 + 1 + zlen PF).
    { destruct Lf as (_ & Nf & _). destruct Lpf as (_ & Npf & _). cbn [emitted ncs] in Nf. rewrite Npf, Nf.
      unfold PF, zlen. rewrite app_length. lia. }
    assert (Hend : ncs s8 = ncs s6) by (rewrite Nc8, Nc7; reflexivity).
    (* where the pieces of the final code are *)
    assert (Hcode_c : code_at v (ncs s) (Cc ++ [jF])).
    { intros i x Hi. apply Hc. rewrite <- app_assoc. cbn [app].
      destruct (Nat.lt_ge_cases i (List.length Cc)) as [Hlt|Hge].
      - rewrite nth_error_app1 in Hi |- * by lia. exact Hi.
      - rewrite nth_error_app2 in Hi |- * by lia. destruct (i - List.length Cc)%nat as [|j]; [exact Hi|].
        cbn in Hi. destruct j; discriminate Hi. }
    assert (Hcode_t : code_at v (ncs s1) PT).
    { intros i x Hi. rewrite N1. replace (ncs s + zlen Cc + 1 + Z.of_nat i) with (ncs s + Z.of_nat (List.length Cc + 1 + i))
        by (unfold zlen; lia).
      apply Hc. rewrite <- app_assoc. cbn [app]. rewrite nth_error_app2 by lia.
      replace (List.length Cc + 1 + i - List.length Cc)%nat with (S i) by lia. cbn [nth_error].
      rewrite nth_error_app1; [exact Hi|]. apply nth_error_Some. congruence. }
    assert (Hi_jT : znth (v_cs v) (ncs s3) = Some jT).
    { rewrite N3. exact (code_at_nth v (ncs s) (Cc ++ jF :: PT) jT PF Hc). }
    assert (Hcode_f : code_at v (ncs s3 + 1) PF).
    { apply code_at_app in Hc. destruct Hc as [_ Hc]. apply code_at_cons in Hc. destruct Hc as [_ Hc].
      rewrite N3. exact Hc. }
    assert (Hrds8 : rds s8 = rds s5) by (rewrite Rd8, Rd7, Rd6; reflexivity).
    assert (Hd5 : data_at v s5) by (intros i y Hy; apply Hdat; rewrite Hrds8; exact Hy).
    assert (Hd2 : data_at v s2).
    { destruct Lf as (_ & _ & [df Df]). cbn [emitted rds] in Df. apply (data_at_ext v s2 s5 df Hd5). rewrite Df, Rd3. reflexivity. }
    assert (Hd1 : data_at v s1).
    { destruct Lt as (_ & _ & [dt Dt]). apply (data_at_ext v s1 s2 dt Hd2 Dt). }
    pose proof (Xc (ncs s3 + 1 - addr) wfp Ewfp rr v mid m r Hcode_c Hd1 Hm Hsp Hip) as Ec.
    replace (addr + (ncs s3 + 1 - addr)) with (ncs s3 + 1) in Ec by lia.
    assert (HdjT : decode jT = {| f_op := JMP; f_k0 := AddrImm; f_k1 := 0; f_k2 := 0; f_a0 := ncs s6 - ncs s3; f_a1 := 0; f_a2 := 0 |}).
    { unfold jT. replace (ncs s6 - ncs s3) with (ncs s7 - ncs s3) by (rewrite Nc7; reflexivity).
      apply (decode_op0 JMP AddrImm _ wj jmp_range imm_range Ewj). }
    assert (XT : RunsS (fun G => ssem n' G tc) false s1 s3 s2 PT AddrStck 0).
    { apply (value_on_stack _ s1 s2 s3 s2 Ct Kt At wt (Xt n') NTmpT NInvT Skt Et).
      - destruct Lt as (_ & N & _). exact N.
      - destruct Lpt as (_ & N & _). exact N. }
    assert (XF : RunsS (fun G => ssem n' G fc) false (emitted s3 (New JMP)) s6 s5 PF AddrStck 0).
    { apply (value_on_stack _ (emitted s3 (New JMP)) s5 s6 s5 Cf Kf Af wf0 (Xf n') NTmpF NInvF Skf Ef).
      - destruct Lf as (_ & N & _). exact N.
      - destruct Lpf as (_ & N & _). exact N. }
    assert (Post : forall (x : value) m3 r3, msame (m_sp m) m m3 ->
              opnd (set_world v G') (m_sp m) AddrStck 0 x m3 r3 ->
              if d then m_sp m3 = m_sp m + stack_effect AddrStck
              else opnd (set_world v G') (m_sp m) AddrStck 0 x m3 r3).
    { intros x m3 r3 _ Ho. destruct d; [exact (opnd_sp _ _ _ _ _ _ _ Ho)|exact Ho]. }
    destruct (cond_res (den (v_globals v) c)) as [[|]|e].
    + (* then *)
      destruct Ec as [k1 [m1 [r1 [Hs1 [Hm1 [Hsp1 [Hc1 Hi1]]]]]]]. cbn [Bool.eqb] in Hi1.
      assert (Hm1' : cur_mid v r1 = Good mid) by (rewrite (cur_mid_ctx v r r1 Hc1); exact Hm).
      assert (Hsp1' : 0 <= m_sp m1 <= zlen (m_stack m1)) by (destruct Hm1 as (_&_&_&_&_&B); lia).
      assert (Hi1' : r_ip r1 = ncs s1) by (rewrite Hi1, N1; reflexivity).
      pose proof (XT rr v mid m1 r1 G' res Hbc Hcode_t Hd2 Hm1' Hsp1' Hi1' HM) as E2.
      destruct res as [x|err].
      * destruct E2 as [k2 [m2 [r2 [Hs2 [Hm2 [Hc2 [Hi2 Ho2]]]]]]]. cbn beta iota in Ho2. rewrite Hsp1 in Ho2.
        set (v2 := set_world v G') in *.
        assert (Hatj : at_ip v2 r2 mid jT).
        { split; [change (v_cs v2) with (v_cs v); rewrite Hi2; exact Hi_jT|].
          change (cur_mid v2 r2) with (cur_mid v r2). rewrite (cur_mid_ctx v r1 r2 Hc2). exact Hm1'. }
        pose proof (exec_jmp rr v2 mid jT _ 0 0 0 0 m2 r2 Hatj HdjT) as Hs3.
        exists (k1 + (k2 + 1))%nat, m2, (with_ip (with_ip r2 (r_ip r2 + (ncs s6 - ncs s3) - 1)) (r_ip r2 + (ncs s6 - ncs s3) - 1 + 1)).
        rewrite steps_app, Hs1, steps_app, Hs2. unfold SG. fold v2. rewrite Hs3.
        assert (Hm02 : msame (m_sp m) m m2).
        { apply (msame_trans (m_sp m) (m_sp m1) m m1 m2); [lia|exact Hm1|exact Hm2]. }
        conj.
        -- reflexivity.
        -- exact Hm02.
        -- cbn [with_ip r_ctx]. congruence.
        -- cbn [with_ip r_ip]. rewrite Hi2, Hend. lia.
        -- apply (Post x m2 _ Hm02). destruct Ho2 as [[_ [H1 H2]]|[[E1 _]|[[E1 _]|[E1 _]]]]; try discriminate E1.
           left. conj; [reflexivity|exact H1|exact H2].
      * destruct E2 as [k2 [me [ip [vals Hs2]]]].
        exists (k1 + k2)%nat, me, ip, vals. rewrite steps_app, Hs1, Hs2. rewrite Hc1. reflexivity.
    + (* else *)
      destruct Ec as [k1 [m1 [r1 [Hs1 [Hm1 [Hsp1 [Hc1 Hi1]]]]]]]. cbn [Bool.eqb] in Hi1.
      assert (Hm1' : cur_mid v r1 = Good mid) by (rewrite (cur_mid_ctx v r r1 Hc1); exact Hm).
      assert (Hsp1' : 0 <= m_sp m1 <= zlen (m_stack m1)) by (destruct Hm1 as (_&_&_&_&_&B); lia).
      pose proof (XF rr v mid m1 r1 G' res Hbc Hcode_f Hd5 Hm1' Hsp1' Hi1 HM) as E2.
      destruct res as [x|err].
      * destruct E2 as [k2 [m2 [r2 [Hs2 [Hm2 [Hc2 [Hi2 Ho2]]]]]]]. cbn beta iota in Ho2. rewrite Hsp1 in Ho2.
        exists (k1 + k2)%nat, m2, r2. rewrite steps_app, Hs1, Hs2.
        assert (Hm02 : msame (m_sp m) m m2).
        { apply (msame_trans (m_sp m) (m_sp m1) m m1 m2); [lia|exact Hm1|exact Hm2]. }
        conj.
        -- reflexivity.
        -- exact Hm02.
        -- congruence.
        -- rewrite Hi2, Hend. reflexivity.
        -- apply (Post x m2 r2 Hm02 Ho2).
      * destruct E2 as [k2 [me [ip [vals Hs2]]]].
        exists (k1 + k2)%nat, me, ip, vals. rewrite steps_app, Hs1, Hs2. rewrite Hc1. reflexivity.
    + destruct HM as [-> ->]. destruct Ec as [k1 [me [ip [vals Hs1]]]].
      exists k1, me, ip, vals. rewrite SG_same. exact Hs1.
Qed.

(* ================= while in discarded position ================= *)
Lemma comp_while_discard_unfold c body srcsel fl :
  Discard fl = true ->
  comp (NWhile c body) srcsel fl =
  (jmpfAddr <- comp_condition (comp (cond_expr c)) (cond_negated c) true 0 (pass fl) ;;
   bodyAddr <- here ;;
   b <- comp body 0 (withDiscard true (pass fl)) ;;
   (if Src0 b =? AddrStck then emit (New POP) else cret tt) ;;;
   jumpBackAddr <- comp_condition (comp (cond_expr c)) (cond_negated c) false 0 (pass fl) ;;
   wb <- enc 1 AddrImm (bodyAddr - jumpBackAddr) ;;
   patch jumpBackAddr wb ;;;
   endAddr <- here ;;
   we <- enc 1 AddrImm (endAddr - jmpfAddr) ;;
   patch jmpfAddr we ;;;
   enc srcsel AddrInv 0).
Proof. intros H. cbn [comp]. rewrite H. reflexivity. Qed.

Definition bodyloop (n : nat) (c b : node) (k : nat) (G : world) : option (world * res value) :=
  match ssem n G b with
  | None => None
  | Some (G1, Fail e) => Some (G1, Fail e)
  | Some (G1, Ok v) => swhile_of n c b k G1 v
  end.

Lemma swhile_S n c b k G last :
  swhile_of n c b (S k) G last =
  match cond_res (den (w_glob G) c) with
  | Fail e => Some (G, Fail e)
  | Ok false => Some (G, Ok last)
  | Ok true => bodyloop n c b k G
  end.
Proof. reflexivity. Qed.

Definition pop_code (Kb : Z) : list Z := if Kb =? AddrStck then [New POP] else [].

(* one trip through body, POP and the backward jump, as often as the loop runs *)
Lemma loop_runs n c b sB s2 s3 s4 sd Cb Kb Ab Cc2 j2 endAddr :
  RunsS (fun G => ssem n G b) true sB s2 sd Cb Kb Ab ->
  ncs s2 = ncs sB + zlen Cb -> ncs s3 = ncs s2 + zlen (pop_code Kb) ->
  CondRuns c false s3 s4 Cc2 j2 (ncs sB) ->
  endAddr = ncs s3 + zlen Cc2 + 1 ->
  forall k rr v mid m r G' res,
    bcode v -> code_at v (ncs sB) (Cb ++ pop_code Kb ++ Cc2 ++ [j2]) -> data_at v sd -> data_at v s4 ->
    cur_mid v r = Good mid -> 0 <= m_sp m <= zlen (m_stack m) -> r_ip r = ncs sB ->
    bodyloop n c b k (wof v) = Some (G', res) ->
    match res with
    | Ok x => exists j m' r', steps rr j (St v mid m) r = SNext (SG v G' mid m') r' /\
                msame (m_sp m) m m' /\ m_sp m' = m_sp m /\ r_ctx r' = r_ctx r /\ r_ip r' = endAddr
    | Fail err => exists j me ip vals, steps rr j (St v mid m) r = SErr (SG v G' mid me) (r_ctx r) ip err vals
    end.
Proof.
  intros XB N2 N3 XC2 Hend.
  induction k as [|k IH]; intros rr v mid m r G' res Hbc Hc Hdat Hdat4 Hm Hsp Hip HB.
  - (* no iteration left: only a failing body gives a result *)
    unfold bodyloop in HB. destruct (ssem n (wof v) b) as [[G1 [bv|e]]|] eqn:Eb; try discriminate HB.
    injection HB as <- <-.
    apply code_at_app in Hc. destruct Hc as [HcB _].
    exact (XB rr v mid m r G1 (Fail e) Hbc HcB Hdat Hm Hsp Hip Eb).
  - unfold bodyloop in HB. destruct (ssem n (wof v) b) as [[G1 [bv|e]]|] eqn:Eb; try discriminate HB.
    + pose proof Hc as Hc0. apply code_at_app in Hc. destruct Hc as [HcB Hc']. apply code_at_app in Hc'. destruct Hc' as [HcP HcC].
      pose proof (XB rr v mid m r G1 (Ok bv) Hbc HcB Hdat Hm Hsp Hip Eb) as E1. cbn beta iota in E1.
      destruct E1 as [k1 [m1 [r1 [Hs1 [Hm1 [Hc1 [Hi1 Hsp1]]]]]]].
      set (v1 := set_world v G1) in *.
      assert (HW1 : G1 = wof v1) by (symmetry; apply wof_set_world).
      (* after the optional POP *)
      assert (Popped : exists k2 m2 r2, steps rr k2 (St v1 mid m1) r1 = SNext (St v1 mid m2) r2 /\
                msame (m_sp m) m m2 /\ m_sp m2 = m_sp m /\ r_ctx r2 = r_ctx r /\ r_ip r2 = ncs s3).
      { unfold pop_code, stack_effect in *. destruct (Z.eqb_spec Kb AddrStck) as [EK|NK].
        - assert (Hat : at_ip v1 r1 mid (New POP)).
          { split.
            - change (v_cs v1) with (v_cs v). rewrite Hi1, N2. apply code_at_cons in HcP. exact (proj1 HcP).
            - change (cur_mid v1 r1) with (cur_mid v r1). rewrite (cur_mid_ctx v r r1 Hc1). exact Hm. }
          destruct (exec_pop rr v1 mid (New POP) (m_sp m) m m1 r1 Hat (decode_op POP pop_range) Hm1 Hsp1 (proj1 Hsp))
            as [Hs2 [Hm2 Hsp2]].
          exists 1%nat, (mdrop m1), (with_ip r1 (r_ip r1 + 1)). conj; try assumption.
          cbn [with_ip r_ip]. rewrite Hi1, N3. unfold zlen. cbn [List.length]. lia.
        - exists 0%nat, m1, r1. cbn [steps]. conj; try assumption; try reflexivity; [lia|].
          rewrite Hi1, N3. unfold zlen. cbn [List.length]. lia. }
      destruct Popped as [k2 [m2 [r2 [Hs2 [Hm2 [Hsp2 [Hc2 Hi2]]]]]]].
      assert (HcC' : code_at v1 (ncs s3) (Cc2 ++ [j2])).
      { change (code_at v (ncs s3) (Cc2 ++ [j2])). rewrite N3, N2. rewrite <- Z.add_assoc.
        replace (zlen Cb + zlen (pop_code Kb)) with (zlen (Cb ++ pop_code Kb)) by (unfold zlen; rewrite app_length; lia).
        rewrite app_assoc in Hc0. apply code_at_app in Hc0. exact (proj2 Hc0). }
      assert (Hm2' : cur_mid v1 r2 = Good mid).
      { change (cur_mid v1 r2) with (cur_mid v r2). rewrite (cur_mid_ctx v r r2 Hc2). exact Hm. }
      assert (Hsp2' : 0 <= m_sp m2 <= zlen (m_stack m2)) by (destruct Hm2 as (_&_&_&_&_&B); lia).
      pose proof (XC2 rr v1 mid m2 r2 HcC' Hdat4 Hm2' Hsp2' Hi2) as Ec. change (v_globals v1) with (w_glob G1) in Ec.
      rewrite swhile_S in HB.
      destruct (cond_res (den (w_glob G1) c)) as [[|]|e].
      * (* again *)
        destruct Ec as [k3 [m3 [r3 [Hs3 [Hm3 [Hsp3 [Hc3 Hi3]]]]]]]. cbn [Bool.eqb] in Hi3.
        assert (Hm3' : cur_mid v1 r3 = Good mid).
        { rewrite (cur_mid_ctx v1 r2 r3 Hc3). exact Hm2'. }
        assert (Hsp3' : 0 <= m_sp m3 <= zlen (m_stack m3)) by (destruct Hm3 as (_&_&_&_&_&B); lia).
        rewrite HW1 in HB. pose proof (IH rr v1 mid m3 r3 G' res Hbc Hc0 Hdat Hdat4 Hm3' Hsp3' Hi3 HB) as E4.
        assert (Hm03 : msame (m_sp m) m m3).
        { apply (msame_trans (m_sp m) (m_sp m2) m m2 m3); [lia|exact Hm2|exact Hm3]. }
        destruct res as [x|err].
        -- destruct E4 as [k4 [m4 [r4 [Hs4 [Hm4 [Hsp4 [Hc4 Hi4]]]]]]].
           exists (k1 + (k2 + (k3 + k4)))%nat, m4, r4.
           rewrite steps_app, Hs1. unfold SG. fold v1. rewrite steps_app, Hs2, steps_app, Hs3, Hs4. conj.
           ++ reflexivity.
           ++ apply (msame_trans (m_sp m) (m_sp m3) m m3 m4); [lia|exact Hm03|exact Hm4].
           ++ lia.
           ++ congruence.
           ++ exact Hi4.
        -- destruct E4 as [k4 [me [ip [vals Hs4]]]].
           exists (k1 + (k2 + (k3 + k4)))%nat, me, ip, vals.
           rewrite steps_app, Hs1. unfold SG. fold v1. rewrite steps_app, Hs2, steps_app, Hs3, Hs4.
           replace (r_ctx r3) with (r_ctx r) by congruence. reflexivity.
      * (* the loop is over *)
        injection HB as <- <-.
        destruct Ec as [k3 [m3 [r3 [Hs3 [Hm3 [Hsp3 [Hc3 Hi3]]]]]]]. cbn [Bool.eqb] in Hi3.
        exists (k1 + (k2 + k3))%nat, m3, r3.
        rewrite steps_app, Hs1. unfold SG. fold v1. rewrite steps_app, Hs2, Hs3. conj.
        -- reflexivity.
        -- apply (msame_trans (m_sp m) (m_sp m2) m m2 m3); [lia|exact Hm2|exact Hm3].
        -- lia.
        -- congruence.
        -- rewrite Hi3, Hend. reflexivity.
      * injection HB as <- <-. destruct Ec as [k3 [me [ip [vals Hs3]]]].
        exists (k1 + (k2 + k3))%nat, me, ip, vals.
        rewrite steps_app, Hs1. unfold SG. fold v1. rewrite steps_app, Hs2, Hs3.
        replace (r_ctx r2) with (r_ctx r) by congruence. reflexivity.
    + injection HB as <- <-.
      apply code_at_app in Hc. destruct Hc as [HcB _].
      exact (XB rr v mid m r G1 (Fail e) Hbc HcB Hdat Hm Hsp Hip Eb).
Qed.

Lemma ssem_while_some n G c b G' res :
  ssem n G (NWhile c b) = Some (G', res) ->
  exists n', n = S n' /\ swhile_of n' c b n' G VNil = Some (G', res).
Proof.
  destruct n as [|n]; [discriminate|]. rewrite ssem_while. destruct (Nat.leb (height c) n); [|discriminate].
  intros H. exists n. auto.
Qed.

Lemma pop_emit_ok Kb s u s' :
  (if Kb =? AddrStck then emit (New POP) else cret tt) s = COk (u, s') ->
  lay s s' (pop_code Kb) /\ rds s' = rds s /\ nds s' = nds s /\ (wfcs s -> wfcs s').
Proof.
  unfold pop_code. destruct (Kb =? AddrStck); intros H.
  - apply emit_ok in H. subst s'. conj; try reflexivity.
    + change [New POP] with ([] ++ [New POP]). apply lay_emit. apply lay_refl.
    + apply wfcs_emitted.
  - apply cret_ok in H. destruct H as [_ ->]. conj; [apply lay_refl|reflexivity|reflexivity|auto].
Qed.

Lemma while_discard_specS c body sel s s' w :
  0 <= sel <= 1 -> pure c = true -> compiles_stmt body -> wfcs s ->
  comp (NWhile c body) sel (tfl true) s = COk (w, s') ->
  SpecS (NWhile c body) true sel s s' w.
Proof.
  intros Hsel Hpc Hb Hwf H. rewrite (comp_while_discard_unfold c body sel (tfl true) eq_refl) in H.
  rewrite tfl_discard in H.
  apply cbind_ok in H. destruct H as [addr1 [s1 [Hcj1 H]]].
  destruct (cond_jump c true true s addr1 s1 Hpc Hwf Hcj1) as [Cc1 [j1 (Lc1 & Wc1 & Eaddr1 & Xc1)]].
  apply cbind_ok in H. destruct H as [bodyAddr [s1' [Hh H]]]. apply here_ok in Hh. destruct Hh as [-> ->].
  apply cbind_ok in H. destruct H as [wb0 [s2 [Hcb H]]].
  destruct (Hb true 0 s1 wb0 s2 ltac:(lia) Wc1 Hcb) as [Cb [Kb [Ab (Lb & Wb & Eb & Skb & _ & Xb)]]].
  destruct (enc_src0 Kb Ab wb0 (skind_range Kb Skb) Eb) as [S0b _]. rewrite S0b in H.
  apply cbind_ok in H. destruct H as [u1 [s3 [Hpop H]]].
  destruct (pop_emit_ok Kb s2 u1 s3 Hpop) as [Lp [Rd3 [Nd3 W3]]]. specialize (W3 Wb).
  apply cbind_ok in H. destruct H as [addr2 [s4 [Hcj2 H]]].
  destruct (cond_jump c false true s3 addr2 s4 Hpc W3 Hcj2) as [Cc2 [j2 (Lc2 & Wc2 & Eaddr2 & Xc2)]].
  apply cbind_ok in H. destruct H as [wbk [s4' [Hwbk H]]]. apply enc_ok in Hwbk. destruct Hwbk as [-> Ewbk].
  apply cbind_ok in H. destruct H as [u2 [s5 [Hpatch1 H]]].
  apply cbind_ok in H. destruct H as [endA [s5' [Hh H]]]. apply here_ok in Hh. destruct Hh as [-> ->].
  apply cbind_ok in H. destruct H as [we [s5' [Hwe H]]]. apply enc_ok in Hwe. destruct Hwe as [-> Ewe].
  apply cbind_ok in H. destruct H as [u3 [s6 [Hpatch2 H]]].
  apply enc_ok in H. destruct H as [-> Ew].
  set (MID := Cb ++ pop_code Kb ++ Cc2) in *.
  assert (N1 : ncs s1 = ncs s + zlen Cc1 + 1).
  { destruct Lc1 as (_ & N & _). rewrite N. unfold zlen. rewrite app_length. cbn [List.length]. lia. }
  assert (N2 : ncs s2 = ncs s1 + zlen Cb) by (destruct Lb as (_ & N & _); exact N).
  assert (N3 : ncs s3 = ncs s2 + zlen (pop_code Kb)) by (destruct Lp as (_ & N & _); exact N).
  assert (N4 : ncs s4 = ncs s3 + zlen Cc2 + 1).
  { destruct Lc2 as (_ & N & _). rewrite N. unfold zlen. rewrite app_length. cbn [List.length]. lia. }
  (* layout, then the two patches *)
  assert (L4 : lay s s4 ((Cc1 ++ j1 :: MID) ++ j2 :: [])).
  { replace ((Cc1 ++ j1 :: MID) ++ [j2]) with ((((Cc1 ++ [j1]) ++ Cb) ++ pop_code Kb) ++ (Cc2 ++ [j2]))
      by (unfold MID; rewrite <- ?app_assoc; cbn [app]; rewrite <- ?app_assoc; reflexivity).
    apply (lay_trans s s3 s4); [|exact Lc2].
    apply (lay_trans s s2 s3); [|exact Lp]. apply (lay_trans s s1 s2); assumption. }
  assert (Epos2 : addr2 = ncs s + zlen (Cc1 ++ j1 :: MID)).
  { rewrite Eaddr2, N3, N2, N1. unfold MID, zlen. rewrite !app_length. cbn [List.length]. rewrite !app_length. lia. }
  rewrite Epos2 in Hpatch1.
  destruct (patch_lay s s4 (Cc1 ++ j1 :: MID) j2 [] wbk u2 s5 L4 Hwf Hpatch1) as [L5 [Rd5 [Nd5 Nc5]]].
  assert (L5' : lay s s5 (Cc1 ++ j1 :: (MID ++ [Z.lor j2 wbk]))).
  { rewrite <- app_assoc in L5. exact L5. }
  rewrite Eaddr1 in Hpatch2.
  destruct (patch_lay s s5 Cc1 j1 (MID ++ [Z.lor j2 wbk]) we u3 s6 L5' Hwf Hpatch2) as [L6 [Rd6 [Nd6 Nc6]]].
  set (j1' := Z.lor j1 we) in *. set (j2' := Z.lor j2 wbk) in *.
  exists (Cc1 ++ j1' :: (MID ++ [j2'])), AddrInv, 0. conj.
  - exact L6.
  - apply (lay_wfcs s s6 _ L6 Hwf). rewrite Nd6, Rd6, Nd5, Rd5. exact (proj2 Wc2).
  - exact Ew.
  - right. right. right. right. reflexivity.
  - discriminate.
  - intros n rr v mid m r G' res Hbc Hc Hdat Hm Hsp Hip HM.
    apply ssem_while_some in HM. destruct HM as [n' [-> HM]].
    assert (Hend : ncs s6 = ncs s4) by (rewrite Nc6, Nc5; reflexivity).
    assert (Hcode1 : code_at v (ncs s) (Cc1 ++ [j1'])).
    { intros i x Hi. apply Hc. destruct (Nat.lt_ge_cases i (List.length Cc1)) as [Hlt|Hge].
      - rewrite nth_error_app1 in Hi |- * by lia. exact Hi.
      - rewrite nth_error_app2 in Hi |- * by lia. destruct (i - List.length Cc1)%nat as [|j]; [exact Hi|].
        cbn in Hi. destruct j; discriminate Hi. }
    assert (HcodeB : code_at v (ncs s1) (Cb ++ pop_code Kb ++ Cc2 ++ [j2'])).
    { intros i x Hi. rewrite N1. replace (ncs s + zlen Cc1 + 1 + Z.of_nat i) with (ncs s + Z.of_nat (List.length Cc1 + 1 + i))
        by (unfold zlen; lia).
      apply Hc. rewrite nth_error_app2 by lia. replace (List.length Cc1 + 1 + i - List.length Cc1)%nat with (S i) by lia.
      cbn [nth_error]. unfold MID. rewrite <- !app_assoc. exact Hi. }
    assert (Hrds6 : rds s6 = rds s4) by (rewrite Rd6, Rd5; reflexivity).
    assert (Hd4 : data_at v s4) by (intros i y Hy; apply Hdat; rewrite Hrds6; exact Hy).
    assert (Hd2 : data_at v s2).
    { destruct Lc2 as (_ & _ & [d2 D2]). apply (data_at_ext v s2 s4 d2 Hd4). rewrite D2, Rd3. reflexivity. }
    assert (Hd1 : data_at v s1).
    { destruct Lb as (_ & _ & [db Db]). apply (data_at_ext v s1 s2 db Hd2 Db). }
    rewrite Nc5 in Ewe.
    pose proof (Xc1 (ncs s4 - addr1) we Ewe rr v mid m r Hcode1 Hd1 Hm Hsp Hip) as Ec.
    replace (addr1 + (ncs s4 - addr1)) with (ncs s4) in Ec by lia.
    assert (XC2 : CondRuns c false s3 s4 Cc2 j2' (ncs s1)).
    { pose proof (Xc2 (ncs s1 - addr2) wbk Ewbk) as X. replace (addr2 + (ncs s1 - addr2)) with (ncs s1) in X by lia. exact X. }
    pose proof (loop_runs n' c body s1 s2 s3 s4 s2 Cb Kb Ab Cc2 j2' (ncs s4) (Xb n') N2 N3 XC2 N4) as LR.
    destruct n' as [|k]; [discriminate HM|]. rewrite swhile_S in HM. change (w_glob (wof v)) with (v_globals v) in HM.
    destruct (cond_res (den (v_globals v) c)) as [[|]|e].
    + destruct Ec as [k1 [m1 [r1 [Hs1 [Hm1 [Hsp1 [Hc1 Hi1]]]]]]]. cbn [Bool.eqb] in Hi1.
      assert (Hm1' : cur_mid v r1 = Good mid) by (rewrite (cur_mid_ctx v r r1 Hc1); exact Hm).
      assert (Hsp1' : 0 <= m_sp m1 <= zlen (m_stack m1)) by (destruct Hm1 as (_&_&_&_&_&B); lia).
      assert (Hi1' : r_ip r1 = ncs s1) by (rewrite Hi1, N1; reflexivity).
      pose proof (LR k rr v mid m1 r1 G' res Hbc HcodeB Hd2 Hd4 Hm1' Hsp1' Hi1' HM) as E2.
      destruct res as [x|err].
      * destruct E2 as [k2 [m2 [r2 [Hs2 [Hm2 [Hsp2 [Hc2 Hi2]]]]]]].
        exists (k1 + k2)%nat, m2, r2. rewrite steps_app, Hs1, Hs2. conj.
        -- reflexivity.
        -- apply (msame_trans (m_sp m) (m_sp m1) m m1 m2); [lia|exact Hm1|exact Hm2].
        -- congruence.
        -- rewrite Hi2, Hend. reflexivity.
        -- unfold stack_effect. cbn. lia.
      * destruct E2 as [k2 [me [ip [vals Hs2]]]].
        exists (k1 + k2)%nat, me, ip, vals. rewrite steps_app, Hs1, Hs2. rewrite Hc1. reflexivity.
    + injection HM as <- <-.
      destruct Ec as [k1 [m1 [r1 [Hs1 [Hm1 [Hsp1 [Hc1 Hi1]]]]]]]. cbn [Bool.eqb] in Hi1.
      exists k1, m1, r1. rewrite SG_same. conj; try assumption.
      * rewrite Hi1, Hend. reflexivity.
      * unfold stack_effect. cbn. lia.
    + injection HM as <- <-. destruct Ec as [k1 [me [ip [vals Hs1]]]].
      exists k1, me, ip, vals. rewrite SG_same. exact Hs1.
Qed.

(* ================= while in value position ================= *)
Lemma comp_while_value_unfold c body srcsel fl :
  Discard fl = false ->
  comp (NWhile c body) srcsel fl =
  (let returning := Returning fl in
   ix <- add_ds VNil ;;
   w <- enc 0 AddrDS ix ;;
   emit (Z.lor (New PUSH) w) ;;;
   initJmpFAddr <- comp_condition (comp (cond_expr c)) (cond_negated c) true 0 (pass fl) ;;
   popAddr <- here ;;
   emit (New POP) ;;;
   bodyAddr <- here ;;
   b <- comp body 0 (withDiscard false (pass fl)) ;;
   if Src0 b =? AddrInv then
     endAddr <- here ;;
     dest <- (if returning then
                ws <- enc 0 AddrStck 0 ;;
                emit (Z.lor (New RET) ws) ;;; enc srcsel AddrInv 0
              else enc srcsel AddrStck 0) ;;
     we <- enc 1 AddrImm (endAddr - initJmpFAddr) ;;
     patch initJmpFAddr we ;;;
     cret dest
   else
     let jumpBack := if Src0 b =? AddrStck then popAddr else bodyAddr in
     jumpBackAddr <- comp_condition (comp (cond_expr c)) (cond_negated c) false 0 (pass fl) ;;
     wb <- enc 1 AddrImm (jumpBack - jumpBackAddr) ;;
     patch jumpBackAddr wb ;;;
     dest1 <- (if negb (Src0 b =? AddrStck) && negb returning
               then emit (Z.lor (New PUSH) b) ;;; enc srcsel AddrStck 0
               else cret b) ;;
     dest2 <- (if returning then emit (Z.lor (New RET) b) ;;; enc srcsel AddrInv 0
               else cret dest1) ;;
     endAddr <- here ;;
     (if returning then ws <- enc 0 AddrStck 0 ;; emit (Z.lor (New RET) ws) else cret tt) ;;;
     we <- enc 1 AddrImm (endAddr - initJmpFAddr) ;;
     patch initJmpFAddr we ;;;
     cret dest2).
Proof. intros H. cbn [comp]. rewrite H. reflexivity. Qed.

(* from an operand to the stack: the optional PUSH *)
Lemma run_push_code rr v mid b m0 m2 r2 Kt At wt x n0 :
  opnd v b Kt At x m2 r2 -> msame b m0 m2 -> 0 <= b ->
  Kt <> AddrTmp -> skind Kt -> EncodeSrc 0 Kt At = Some wt ->
  code_at v n0 (push_code Kt wt) -> r_ip r2 = n0 -> cur_mid v r2 = Good mid ->
  exists k3 m3 r3, steps rr k3 (St v mid m2) r2 = SNext (St v mid m3) r3 /\
    msame b m0 m3 /\ m_sp m3 = b + 1 /\ znth (m_stack m3) b = Some x /\
    r_ctx r3 = r_ctx r2 /\ r_ip r3 = n0 + zlen (push_code Kt wt).
Proof.
  intros Ho Hm Hb NTmp Sk Et Hc Hi Hmid. unfold push_code in *.
  destruct (Z.eqb_spec Kt AddrStck) as [EK|NK].
  - exists 0%nat, m2, r2. cbn [steps]. rewrite EK in Ho.
    destruct Ho as [[_ [H1 H2]]|[[E1 _]|[[E1 _]|[E1 _]]]]; try discriminate E1.
    conj; try assumption; try reflexivity. unfold zlen. cbn. lia.
  - assert (Hat : at_ip v r2 mid (Z.lor (New PUSH) wt)).
    { split; [rewrite Hi; apply code_at_cons in Hc; exact (proj1 Hc)|exact Hmid]. }
    destruct (exec_push rr v mid _ Kt At _ _ _ _ b m0 m2 r2 x Hat (push_decode Kt At wt (skind_range Kt Sk) Et) Hb Ho NTmp Hm)
      as [m3 [Hs3 [Hm3 [Hsp3 Hx3]]]].
    exists 1%nat, m3, (with_ip r2 (r_ip r2 + 1)). conj; try assumption; try reflexivity.
    cbn [with_ip r_ip]. unfold zlen. cbn [List.length]. lia.
Qed.

Lemma loopv_runs n c b sB s2 s4 sd Cb Kb Ab Cc2 j2 P hd E2 :
  RunsS (fun G => ssem n G b) false sB s2 sd Cb Kb Ab -> Kb <> AddrTmp ->
  ncs sB = P + 1 -> ncs s2 = ncs sB + zlen Cb ->
  hd = (if Kb =? AddrStck then P else P + 1) ->
  CondRuns c false s2 s4 Cc2 j2 hd ->
  E2 = ncs s2 + zlen Cc2 + 1 ->
  forall k rr v mid m0 b0 m r G' res,
    bcode v -> code_at v P (New POP :: Cb ++ Cc2 ++ [j2]) -> data_at v sd -> data_at v s4 ->
    cur_mid v r = Good mid -> 0 <= b0 -> msame b0 m0 m ->
    r_ip r = hd -> m_sp m = b0 + stack_effect Kb ->
    bodyloop n c b k (wof v) = Some (G', res) ->
    match res with
    | Ok x => exists j m' r', steps rr j (St v mid m) r = SNext (SG v G' mid m') r' /\
                msame b0 m0 m' /\ r_ctx r' = r_ctx r /\ r_ip r' = E2 /\
                opnd (set_world v G') b0 Kb Ab x m' r'
    | Fail err => exists j me ip vals, steps rr j (St v mid m) r = SErr (SG v G' mid me) (r_ctx r) ip err vals
    end.
Proof.
  intros XB NTmp NB N2 Hhd XC2 HE2.
  assert (Body : forall rr v mid m0 b0 m r,
            code_at v P (New POP :: Cb ++ Cc2 ++ [j2]) -> cur_mid v r = Good mid -> 0 <= b0 -> msame b0 m0 m ->
            r_ip r = hd -> m_sp m = b0 + stack_effect Kb ->
            exists ja ma ra, steps rr ja (St v mid m) r = SNext (St v mid ma) ra /\
              msame b0 m0 ma /\ m_sp ma = b0 /\ r_ctx ra = r_ctx r /\ r_ip ra = P + 1).
  { intros rr v mid m0 b0 m r Hc Hm Hb0 Hms Hip Hsp. unfold stack_effect in Hsp. rewrite Hhd in Hip.
    destruct (Z.eqb_spec Kb AddrStck) as [EK|NK].
    - assert (Hat : at_ip v r mid (New POP)).
      { split; [rewrite Hip; apply code_at_cons in Hc; exact (proj1 Hc)|exact Hm]. }
      destruct (exec_pop rr v mid (New POP) b0 m0 m r Hat (decode_op POP pop_range) Hms Hsp Hb0) as [Hs [Hm2 Hsp2]].
      exists 1%nat, (mdrop m), (with_ip r (r_ip r + 1)). conj; try assumption; try reflexivity.
      cbn [with_ip r_ip]. lia.
    - exists 0%nat, m, r. cbn [steps]. conj; try assumption; try reflexivity. lia. }
  induction k as [|k IH]; intros rr v mid m0 b0 m r G' res Hbc Hc Hdat Hdat4 Hm Hb0 Hms Hip Hsp HB.
  - unfold bodyloop in HB. destruct (ssem n (wof v) b) as [[G1 [bv|e]]|] eqn:Eb; try discriminate HB.
    injection HB as <- <-.
    destruct (Body rr v mid m0 b0 m r Hc Hm Hb0 Hms Hip Hsp) as [ja [ma [ra [Hsa [Hma [Hspa [Hca Hia]]]]]]].
    assert (HcB : code_at v (ncs sB) Cb).
    { rewrite NB. apply code_at_cons in Hc. destruct Hc as [_ Hc]. apply code_at_app in Hc. exact (proj1 Hc). }
    assert (Hma' : cur_mid v ra = Good mid) by (rewrite (cur_mid_ctx v r ra Hca); exact Hm).
    assert (Hspa' : 0 <= m_sp ma <= zlen (m_stack ma)) by (destruct Hma as (_&_&_&_&_&B); lia).
    pose proof (XB rr v mid ma ra G1 (Fail e) Hbc HcB Hdat Hma' Hspa' ltac:(rewrite Hia, NB; reflexivity) Eb) as E1.
    cbn beta iota in E1. destruct E1 as [k1 [me [ip [vals Hs1]]]].
    exists (ja + k1)%nat, me, ip, vals. rewrite steps_app, Hsa, Hs1. rewrite Hca. reflexivity.
  - unfold bodyloop in HB. destruct (ssem n (wof v) b) as [[G1 [bv|e]]|] eqn:Eb; try discriminate HB.
    + destruct (Body rr v mid m0 b0 m r Hc Hm Hb0 Hms Hip Hsp) as [ja [ma [ra [Hsa [Hma [Hspa [Hca Hia]]]]]]].
      pose proof Hc as Hc0. apply code_at_cons in Hc. destruct Hc as [_ Hc]. apply code_at_app in Hc. destruct Hc as [HcB' HcC].
      assert (HcB : code_at v (ncs sB) Cb) by (rewrite NB; exact HcB').
      assert (Hma' : cur_mid v ra = Good mid) by (rewrite (cur_mid_ctx v r ra Hca); exact Hm).
      assert (Hspa' : 0 <= m_sp ma <= zlen (m_stack ma)) by (destruct Hma as (_&_&_&_&_&B); lia).
      pose proof (XB rr v mid ma ra G1 (Ok bv) Hbc HcB Hdat Hma' Hspa' ltac:(rewrite Hia, NB; reflexivity) Eb) as E1.
      cbn beta iota in E1. destruct E1 as [k1 [m1 [r1 [Hs1 [Hm1 [Hc1 [Hi1 Ho1]]]]]]]. rewrite Hspa in Ho1, Hm1.
      set (v1 := set_world v G1) in *.
      assert (HW1 : G1 = wof v1) by (symmetry; apply wof_set_world).
      assert (HcC' : code_at v1 (ncs s2) (Cc2 ++ [j2])).
      { change (code_at v (ncs s2) (Cc2 ++ [j2])). rewrite N2, NB. exact HcC. }
      assert (Hm1' : cur_mid v1 r1 = Good mid).
      { change (cur_mid v1 r1) with (cur_mid v r1). rewrite (cur_mid_ctx v ra r1 Hc1). exact Hma'. }
      assert (Hsp1' : 0 <= m_sp m1 <= zlen (m_stack m1)) by (destruct Hm1 as (_&_&_&_&_&B); lia).
      pose proof (XC2 rr v1 mid m1 r1 HcC' Hdat4 Hm1' Hsp1' Hi1) as Ec. change (v_globals v1) with (w_glob G1) in Ec.
      rewrite swhile_S in HB.
      assert (Hm01 : msame b0 m0 m1) by (apply (msame_trans b0 b0 m0 ma m1); [lia|exact Hma|exact Hm1]).
      destruct (cond_res (den (w_glob G1) c)) as [[|]|e].
      * destruct Ec as [k3 [m3 [r3 [Hs3 [Hm3 [Hsp3 [Hc3 Hi3]]]]]]]. cbn [Bool.eqb] in Hi3.
        pose proof (opnd_transfer v1 b0 Kb Ab bv m1 r1 m3 r3 Ho1 NTmp Hm3 Hsp3 Hb0) as Ho3.
        assert (Hm03 : msame b0 m0 m3).
        { apply (msame_trans b0 (m_sp m1) m0 m1 m3); [destruct Hm1 as (_&_&_&_&_&B); lia|exact Hm01|exact Hm3]. }
        assert (Hm3' : cur_mid v1 r3 = Good mid) by (rewrite (cur_mid_ctx v1 r1 r3 Hc3); exact Hm1').
        rewrite HW1 in HB. pose proof (IH rr v1 mid m0 b0 m3 r3 G' res Hbc Hc0 Hdat Hdat4 Hm3' Hb0 Hm03 Hi3 (opnd_sp _ _ _ _ _ _ _ Ho3) HB) as E4.
        destruct res as [x|err].
        -- destruct E4 as [k4 [m4 [r4 [Hs4 [Hm4 [Hc4 [Hi4 Ho4]]]]]]].
           exists (ja + (k1 + (k3 + k4)))%nat, m4, r4.
           rewrite steps_app, Hsa, steps_app, Hs1. unfold SG. fold v1. rewrite steps_app, Hs3, Hs4. conj; try assumption.
           ++ reflexivity.
           ++ congruence.
        -- destruct E4 as [k4 [me [ip [vals Hs4]]]].
           exists (ja + (k1 + (k3 + k4)))%nat, me, ip, vals.
           rewrite steps_app, Hsa, steps_app, Hs1. unfold SG. fold v1. rewrite steps_app, Hs3, Hs4.
           replace (r_ctx r3) with (r_ctx r) by congruence. reflexivity.
      * injection HB as <- <-.
        destruct Ec as [k3 [m3 [r3 [Hs3 [Hm3 [Hsp3 [Hc3 Hi3]]]]]]]. cbn [Bool.eqb] in Hi3.
        pose proof (opnd_transfer v1 b0 Kb Ab bv m1 r1 m3 r3 Ho1 NTmp Hm3 Hsp3 Hb0) as Ho3.
        exists (ja + (k1 + k3))%nat, m3, r3.
        rewrite steps_app, Hsa, steps_app, Hs1. unfold SG. fold v1. rewrite Hs3. conj.
        -- reflexivity.
        -- apply (msame_trans b0 (m_sp m1) m0 m1 m3); [destruct Hm1 as (_&_&_&_&_&B); lia|exact Hm01|exact Hm3].
        -- congruence.
        -- rewrite Hi3, HE2. reflexivity.
        -- exact Ho3.
      * injection HB as <- <-. destruct Ec as [k3 [me [ip [vals Hs3]]]].
        exists (ja + (k1 + k3))%nat, me, ip, vals.
        rewrite steps_app, Hsa, steps_app, Hs1. unfold SG. fold v1. rewrite Hs3.
        replace (r_ctx r1) with (r_ctx r) by congruence. reflexivity.
    + injection HB as <- <-.
      destruct (Body rr v mid m0 b0 m r Hc Hm Hb0 Hms Hip Hsp) as [ja [ma [ra [Hsa [Hma [Hspa [Hca Hia]]]]]]].
      assert (HcB : code_at v (ncs sB) Cb).
      { rewrite NB. apply code_at_cons in Hc. destruct Hc as [_ Hc]. apply code_at_app in Hc. exact (proj1 Hc). }
      assert (Hma' : cur_mid v ra = Good mid) by (rewrite (cur_mid_ctx v r ra Hca); exact Hm).
      assert (Hspa' : 0 <= m_sp ma <= zlen (m_stack ma)) by (destruct Hma as (_&_&_&_&_&B); lia).
      pose proof (XB rr v mid ma ra G1 (Fail e) Hbc HcB Hdat Hma' Hspa' ltac:(rewrite Hia, NB; reflexivity) Eb) as E1.
      cbn beta iota in E1. destruct E1 as [k1 [me [ip [vals Hs1]]]].
      exists (ja + k1)%nat, me, ip, vals. rewrite steps_app, Hsa, Hs1. rewrite Hca. reflexivity.
Qed.

Lemma while_value_specS c body s s' w :
  pure c = true -> compiles_stmt body -> wfcs s ->
  comp (NWhile c body) 0 (tfl false) s = COk (w, s') ->
  SpecS (NWhile c body) false 0 s s' w.
Proof.
  intros Hpc Hb Hwf H. rewrite (comp_while_value_unfold c body 0 (tfl false) eq_refl) in H. cbv zeta in H.
  change (Returning (tfl false)) with false in H. rewrite tfl_discard in H.
  apply cbind_ok in H. destruct H as [ix [s0 [Hds H]]]. apply add_ds_ok in Hds. destruct Hds as [-> ->].
  apply cbind_ok in H. destruct H as [wn [s0' [Hwn H]]]. apply enc_ok in Hwn. destruct Hwn as [-> Ewn].
  apply cbind_ok in H. destruct H as [u0 [sa [Hem H]]]. apply emit_ok in Hem. subst sa.
  set (pnil := Z.lor (New PUSH) wn) in *. set (sa := emitted (with_data s VNil) pnil) in *.
  assert (Wa : wfcs sa).
  { unfold sa. apply wfcs_emitted. destruct Hwf as [A1 B1]. unfold wfcs, with_data, zlen in *; cbn [rcs ncs rds nds List.length]. split; lia. }
  assert (La : lay s sa [pnil]).
  { unfold sa. change [pnil] with ([] ++ [pnil]). apply lay_emit. unfold lay, with_data; cbn [rcs ncs rds rev app].
    conj; [reflexivity|unfold zlen; cbn; lia|exists [VNil]; reflexivity]. }
  apply cbind_ok in H. destruct H as [addr1 [s1 [Hcj1 H]]].
  destruct (cond_jump c true false sa addr1 s1 Hpc Wa Hcj1) as [Cc1 [j1 (Lc1 & Wc1 & Eaddr1 & Xc1)]].
  apply cbind_ok in H. destruct H as [popAddr [s1' [Hh H]]]. apply here_ok in Hh. destruct Hh as [-> ->].
  apply cbind_ok in H. destruct H as [u1 [sp0 [Hem H]]]. apply emit_ok in Hem. subst sp0.
  apply cbind_ok in H. destruct H as [bodyAddr [s1' [Hh H]]]. apply here_ok in Hh. destruct Hh as [-> ->].
  set (sB := emitted s1 (New POP)) in *.
  apply cbind_ok in H. destruct H as [wb0 [s2 [Hcb H]]].
  destruct (Hb false 0 sB wb0 s2 ltac:(lia) (wfcs_emitted _ _ Wc1) Hcb) as [Cb [Kb [Ab (Lb & Wb & Eb & Skb & NTb & Xb)]]].
  destruct (NTb eq_refl) as [NTmp NInv].
  destruct (enc_src0 Kb Ab wb0 (skind_range Kb Skb) Eb) as [S0b _]. rewrite S0b in H.
  rewrite (proj2 (Z.eqb_neq Kb AddrInv) NInv) in H.
  apply cbind_ok in H. destruct H as [addr2 [s4 [Hcj2 H]]].
  destruct (cond_jump c false false s2 addr2 s4 Hpc Wb Hcj2) as [Cc2 [j2 (Lc2 & Wc2 & Eaddr2 & Xc2)]].
  apply cbind_ok in H. destruct H as [wbk [s4' [Hwbk H]]]. apply enc_ok in Hwbk. destruct Hwbk as [-> Ewbk].
  apply cbind_ok in H. destruct H as [u2 [s5 [Hpatch1 H]]].
  apply cbind_ok in H. destruct H as [dest1 [s6 [Hd1 H]]].
  apply cbind_ok in H. destruct H as [dest2 [s6' [Hd2 H]]]. apply cret_ok in Hd2. destruct Hd2 as [-> ->].
  apply cbind_ok in H. destruct H as [endA [s6' [Hh H]]]. apply here_ok in Hh. destruct Hh as [-> ->].
  apply cbind_ok in H. destruct H as [u3 [s6' [Hr H]]]. apply cret_ok in Hr. destruct Hr as [_ ->].
  apply cbind_ok in H. destruct H as [we [s6' [Hwe H]]]. apply enc_ok in Hwe. destruct Hwe as [-> Ewe].
  apply cbind_ok in H. destruct H as [u4 [s7 [Hpatch2 H]]]. apply cret_ok in H. destruct H as [-> ->].
  cbn [negb andb] in Hd1. rewrite andb_true_r in Hd1.
  (* addresses *)
  assert (Na : ncs sa = ncs s + 1) by (unfold sa; cbn [emitted with_data ncs]; lia).
  assert (N1 : ncs s1 = ncs sa + zlen Cc1 + 1).
  { destruct Lc1 as (_ & N & _). rewrite N. unfold zlen. rewrite app_length. cbn [List.length]. lia. }
  assert (NB : ncs sB = ncs s1 + 1) by (unfold sB; cbn [emitted ncs]; lia).
  assert (N2 : ncs s2 = ncs sB + zlen Cb) by (destruct Lb as (_ & N & _); exact N).
  assert (N4 : ncs s4 = ncs s2 + zlen Cc2 + 1).
  { destruct Lc2 as (_ & N & _). rewrite N. unfold zlen. rewrite app_length. cbn [List.length]. lia. }
  (* the final optional PUSH *)
  assert (Fin : lay s5 s6 (push_code Kb wb0) /\ rds s6 = rds s5 /\ nds s6 = nds s5 /\
                exists A, EncodeSrc 0 AddrStck A = Some dest1).
  { unfold push_code. destruct (Z.eqb_spec Kb AddrStck) as [EK|NK]; cbn [negb] in Hd1.
    - apply cret_ok in Hd1. destruct Hd1 as [-> ->]. rewrite EK in Eb.
      conj; [apply lay_refl|reflexivity|reflexivity|exists Ab; exact Eb].
    - apply cbind_ok in Hd1. destruct Hd1 as [u5 [sx [Hem Hd1]]]. apply emit_ok in Hem. subst sx.
      apply enc_ok in Hd1. destruct Hd1 as [-> Ed1].
      conj; try reflexivity.
      + change [Z.lor (New PUSH) wb0] with ([] ++ [Z.lor (New PUSH) wb0]). apply lay_emit. apply lay_refl.
      + exists 0. exact Ed1. }
  destruct Fin as [Lfin [Rd6 [Nd6 [A Edest]]]].
  set (LOOP := New POP :: Cb ++ Cc2) in *.
  (* layout before the patches: [pnil] Cc1 j1 | POP Cb Cc2 j2 *)
  assert (L4 : lay s s4 (([pnil] ++ Cc1 ++ j1 :: LOOP) ++ j2 :: [])).
  { replace (([pnil] ++ Cc1 ++ j1 :: LOOP) ++ [j2])
      with (((([pnil] ++ (Cc1 ++ [j1])) ++ [New POP]) ++ Cb) ++ (Cc2 ++ [j2]))
      by (unfold LOOP; rewrite <- ?app_assoc; cbn [app]; rewrite <- ?app_assoc; reflexivity).
    apply (lay_trans s s2 s4); [|exact Lc2].
    apply (lay_trans s sB s2); [|exact Lb].
    unfold sB. apply lay_emit. apply (lay_trans s sa s1); assumption. }
  assert (Epos2 : addr2 = ncs s + zlen ([pnil] ++ Cc1 ++ j1 :: LOOP)).
  { rewrite Eaddr2, N2, NB, N1, Na. unfold LOOP, zlen. rewrite !app_length. cbn [List.length]. rewrite !app_length. lia. }
  rewrite Epos2 in Hpatch1.
  destruct (patch_lay s s4 ([pnil] ++ Cc1 ++ j1 :: LOOP) j2 [] wbk u2 s5 L4 Hwf Hpatch1) as [L5 [Rd5 [Nd5 Nc5]]].
  set (j2' := Z.lor j2 wbk) in *.
  assert (L6 : lay s s6 (([pnil] ++ Cc1) ++ j1 :: (LOOP ++ j2' :: push_code Kb wb0))).
  { replace (([pnil] ++ Cc1) ++ j1 :: (LOOP ++ j2' :: push_code Kb wb0))
      with ((([pnil] ++ Cc1 ++ j1 :: LOOP) ++ [j2']) ++ push_code Kb wb0)
      by (rewrite <- ?app_assoc; cbn [app]; rewrite <- ?app_assoc; reflexivity).
    apply (lay_trans s s5 s6); assumption. }
  assert (Epos1 : addr1 = ncs s + zlen ([pnil] ++ Cc1)).
  { rewrite Eaddr1, Na. unfold zlen. rewrite app_length. cbn [List.length]. lia. }
  rewrite Epos1 in Hpatch2.
  destruct (patch_lay s s6 ([pnil] ++ Cc1) j1 (LOOP ++ j2' :: push_code Kb wb0) we u4 s7 L6 Hwf Hpatch2) as [L7 [Rd7 [Nd7 Nc7]]].
  set (j1' := Z.lor j1 we) in *.
  exists (([pnil] ++ Cc1) ++ j1' :: (LOOP ++ j2' :: push_code Kb wb0)), AddrStck, A. conj.
  - exact L7.
  - apply (lay_wfcs s s7 _ L7 Hwf). rewrite Nd7, Rd7, Nd6, Rd6, Nd5, Rd5. exact (proj2 Wc2).
  - exact Edest.
  - left. reflexivity.
  - intros _. split; discriminate.
  - intros n rr v mid m r G' res Hbc Hc Hdat Hm Hsp Hip HM.
    apply ssem_while_some in HM. destruct HM as [n' [-> HM]].
    assert (N6 : ncs s6 = ncs s4 + zlen (push_code Kb wb0)).
    { destruct Lfin as (_ & N & _). rewrite N, Nc5. reflexivity. }
    assert (Hend : ncs s7 = ncs s6) by (rewrite Nc7; reflexivity).
    assert (Hrds7 : rds s7 = rds s4) by (rewrite Rd7, Rd6, Rd5; reflexivity).
    assert (Hd4 : data_at v s4) by (intros i y Hy; apply Hdat; rewrite Hrds7; exact Hy).
    assert (Hd2 : data_at v s2) by (destruct Lc2 as (_ & _ & [d2 D2]); apply (data_at_ext v s2 s4 d2 Hd4 D2)).
    assert (Hda1 : data_at v s1).
    { destruct Lb as (_ & _ & [db Db]). cbn [sB emitted rds] in Db. apply (data_at_ext v s1 s2 db Hd2 Db). }
    assert (Hnil : znth (v_ds v) (nds s) = Some VNil).
    { destruct Lc1 as (_ & _ & [d1 D1]). apply Hda1. rewrite D1. unfold sa. cbn [emitted with_data rds].
      rewrite rev_app_distr. apply znth_app_l. rewrite (proj2 Hwf). apply znth_rev_cons. }
    (* the pieces of the final code *)
    assert (Hfull : forall j x, nth_error (pnil :: Cc1 ++ j1' :: (LOOP ++ j2' :: push_code Kb wb0)) j = Some x ->
              znth (v_cs v) (ncs s + Z.of_nat j) = Some x).
    { intros j x Hj. apply Hc. rewrite <- app_assoc. exact Hj. }
    assert (Hi_pnil : znth (v_cs v) (ncs s) = Some pnil).
    { pose proof (Hfull 0%nat pnil eq_refl) as H0. rewrite Z.add_0_r in H0. exact H0. }
    assert (Hcode1 : code_at v (ncs sa) (Cc1 ++ [j1'])).
    { intros i x Hi. rewrite Na. replace (ncs s + 1 + Z.of_nat i) with (ncs s + Z.of_nat (S i)) by lia.
      apply Hfull. cbn [nth_error]. destruct (Nat.lt_ge_cases i (List.length Cc1)) as [Hlt|Hge].
      - rewrite nth_error_app1 in Hi |- * by lia. exact Hi.
      - rewrite nth_error_app2 in Hi |- * by lia. destruct (i - List.length Cc1)%nat as [|j]; [exact Hi|].
        cbn in Hi. destruct j; discriminate Hi. }
    assert (HcodeL : code_at v (ncs s1) (New POP :: Cb ++ Cc2 ++ [j2'])).
    { intros i x Hi. rewrite N1, Na.
      replace (ncs s + 1 + zlen Cc1 + 1 + Z.of_nat i) with (ncs s + Z.of_nat (S (List.length Cc1 + 1 + i))) by (unfold zlen; lia).
      apply Hfull. cbn [nth_error]. rewrite nth_error_app2 by lia.
      replace (List.length Cc1 + 1 + i - List.length Cc1)%nat with (S i) by lia. cbn [nth_error].
      unfold LOOP. replace ((New POP :: Cb ++ Cc2) ++ j2' :: push_code Kb wb0)
        with ((New POP :: Cb ++ Cc2 ++ [j2']) ++ push_code Kb wb0) by (cbn [app]; rewrite <- !app_assoc; reflexivity).
      rewrite nth_error_app1; [exact Hi|]. apply nth_error_Some. congruence. }
    assert (HcodeP : code_at v (ncs s4) (push_code Kb wb0)).
    { intros i x Hi. rewrite N4, N2, NB, N1, Na.
      replace (ncs s + 1 + zlen Cc1 + 1 + 1 + zlen Cb + zlen Cc2 + 1 + Z.of_nat i)
        with (ncs s + Z.of_nat (S (List.length Cc1 + 1 + (1 + List.length Cb + List.length Cc2 + 1 + i)))) by (unfold zlen; lia).
      apply Hfull. cbn [nth_error]. rewrite nth_error_app2 by lia.
      replace (List.length Cc1 + 1 + (1 + List.length Cb + List.length Cc2 + 1 + i) - List.length Cc1)%nat
        with (S (1 + List.length Cb + List.length Cc2 + 1 + i)) by lia. cbn [nth_error].
      unfold LOOP. rewrite nth_error_app2 by (cbn [List.length]; rewrite app_length; lia).
      cbn [List.length]. rewrite app_length.
      replace (1 + List.length Cb + List.length Cc2 + 1 + i - S (List.length Cb + List.length Cc2))%nat with (S i) by lia.
      exact Hi. }
    (* PUSH nil *)
    assert (Hat0 : at_ip v r mid pnil) by (split; [rewrite Hip; exact Hi_pnil|exact Hm]).
    assert (Ho0 : opnd v (m_sp m) AddrDS (nds s) VNil m r).
    { right. right. left. conj; [reflexivity|reflexivity|exact Hnil]. }
    destruct (exec_push rr v mid pnil AddrDS (nds s) _ _ _ _ (m_sp m) m m r VNil Hat0 (push_decode AddrDS (nds s) wn ds_range Ewn)
                (proj1 Hsp) Ho0 ltac:(discriminate) (msame_refl m Hsp)) as [ma [Hsa [Hma [Hspa Hxa]]]].
    set (ra := with_ip r (r_ip r + 1)).
    assert (Hma' : cur_mid v ra = Good mid) by (rewrite (cur_mid_ctx v r ra); [exact Hm|reflexivity]).
    assert (Hspa' : 0 <= m_sp ma <= zlen (m_stack ma)) by (destruct Hma as (_&_&_&_&_&B); lia).
    assert (Hia : r_ip ra = ncs sa) by (unfold ra; cbn [with_ip r_ip]; lia).
    pose proof Ewe as Ewe'.
    pose proof (Xc1 (ncs s6 - addr1) we Ewe' rr v mid ma ra Hcode1 Hda1 Hma' Hspa' Hia) as Ec.
    replace (addr1 + (ncs s6 - addr1)) with (ncs s6) in Ec by lia.
    set (hd := if Kb =? AddrStck then ncs s1 else ncs s1 + 1).
    assert (XC2 : CondRuns c false s2 s4 Cc2 j2' hd).
    { pose proof (Xc2 (hd - addr2) wbk) as X. replace (addr2 + (hd - addr2)) with hd in X by lia. apply X.
      unfold hd. rewrite NB in Ewbk. destruct (Kb =? AddrStck); exact Ewbk. }
    pose proof (loopv_runs n' c body sB s2 s4 s2 Cb Kb Ab Cc2 j2' (ncs s1) hd (ncs s4) (Xb n') NTmp NB N2 eq_refl XC2 N4) as LR.
    destruct n' as [|k]; [discriminate HM|]. rewrite swhile_S in HM. change (w_glob (wof v)) with (v_globals v) in HM.
    destruct (cond_res (den (v_globals v) c)) as [[|]|e].
    + (* the loop runs at least once *)
      destruct Ec as [k1 [m1 [r1 [Hs1 [Hm1 [Hsp1 [Hc1 Hi1]]]]]]]. cbn [Bool.eqb] in Hi1.
      assert (Hm1' : cur_mid v r1 = Good mid) by (rewrite (cur_mid_ctx v ra r1 Hc1); exact Hma').
      assert (Hi1' : r_ip r1 = ncs s1) by (rewrite Hi1, N1; reflexivity).
      assert (Hm01 : msame (m_sp m) m m1).
      { apply (msame_trans (m_sp m) (m_sp ma) m ma m1); [lia|exact Hma|exact Hm1]. }
      (* entering the loop: at popAddr with nil on the stack; when the body does not use the stack, POP it first *)
      assert (Enter : exists ke me re, steps rr ke (St v mid m1) r1 = SNext (St v mid me) re /\
                msame (m_sp m) m me /\ m_sp me = m_sp m + stack_effect Kb /\ r_ctx re = r_ctx r1 /\ r_ip re = hd).
      { unfold hd, stack_effect. destruct (Z.eqb_spec Kb AddrStck) as [EK|NK].
        - exists 0%nat, m1, r1. cbn [steps]. conj; try assumption; try reflexivity. lia.
        - assert (Hat : at_ip v r1 mid (New POP)).
          { split; [rewrite Hi1'; apply code_at_cons in HcodeL; exact (proj1 HcodeL)|exact Hm1']. }
          destruct (exec_pop rr v mid (New POP) (m_sp m) m m1 r1 Hat (decode_op POP pop_range) Hm01 ltac:(lia) (proj1 Hsp))
            as [Hs2 [Hm2 Hsp2]].
          exists 1%nat, (mdrop m1), (with_ip r1 (r_ip r1 + 1)). conj; try assumption; try reflexivity; try lia.
          cbn [with_ip r_ip]. lia. }
      destruct Enter as [ke [me [re [Hse [Hme [Hspe [Hce Hie]]]]]]].
      assert (Hme' : cur_mid v re = Good mid) by (rewrite (cur_mid_ctx v r1 re Hce); exact Hm1').
      pose proof (LR k rr v mid m (m_sp m) me re G' res Hbc HcodeL Hd2 Hd4 Hme' (proj1 Hsp) Hme Hie Hspe HM) as E2.
      destruct res as [x|err].
      * destruct E2 as [k2 [m2 [r2 [Hs2 [Hm2 [Hc2 [Hi2 Ho2]]]]]]].
        set (v2 := set_world v G') in *.
        assert (Hm2' : cur_mid v2 r2 = Good mid).
        { change (cur_mid v2 r2) with (cur_mid v r2). rewrite (cur_mid_ctx v re r2 Hc2). exact Hme'. }
        destruct (run_push_code rr v2 mid (m_sp m) m m2 r2 Kb Ab wb0 x (ncs s4) Ho2 Hm2 (proj1 Hsp) NTmp Skb Eb HcodeP Hi2 Hm2')
          as [k3 [m3 [r3 [Hs3 [Hm3 [Hsp3 [Hx3 [Hc3 Hi3]]]]]]]].
        exists (1 + (k1 + (ke + (k2 + k3))))%nat, m3, r3.
        rewrite steps_app, Hsa. fold ra. rewrite steps_app, Hs1, steps_app, Hse, steps_app, Hs2. unfold SG. fold v2. rewrite Hs3.
        conj.
        -- reflexivity.
        -- exact Hm3.
        -- rewrite Hc3, Hc2, Hce, Hc1. reflexivity.
        -- rewrite Hi3, Hend, N6. reflexivity.
        -- left. conj; [reflexivity|exact Hsp3|exact Hx3].
      * destruct E2 as [k2 [mf [ip [vals Hs2]]]].
        exists (1 + (k1 + (ke + k2)))%nat, mf, ip, vals.
        rewrite steps_app, Hsa. fold ra. rewrite steps_app, Hs1, steps_app, Hse, Hs2.
        replace (r_ctx re) with (r_ctx r) by (rewrite Hce, Hc1; reflexivity). reflexivity.
    + (* never: the nil that was pushed is the value *)
      injection HM as <- <-.
      destruct Ec as [k1 [m1 [r1 [Hs1 [Hm1 [Hsp1 [Hc1 Hi1]]]]]]]. cbn [Bool.eqb] in Hi1.
      exists (1 + k1)%nat, m1, r1. rewrite steps_app, Hsa. fold ra. rewrite Hs1, SG_same, set_world_same. conj.
      * reflexivity.
      * apply (msame_trans (m_sp m) (m_sp ma) m ma m1); [lia|exact Hma|exact Hm1].
      * rewrite Hc1. reflexivity.
      * rewrite Hi1, Hend. reflexivity.
      * left. conj; [reflexivity|lia|].
        destruct Hm1 as (_ & _ & _ & _ & T & _). rewrite <- Hxa.
        apply (znth_firstn _ _ (Z.to_nat (m_sp ma))); [exact T|lia|lia].
    + injection HM as <- <-. destruct Ec as [k1 [mf [ip [vals Hs1]]]].
      exists (1 + k1)%nat, mf, ip, vals. rewrite steps_app, Hsa. fold ra. rewrite Hs1, SG_same. reflexivity.
Qed.

(* ================= calls of the built-in functions: nm(e) ================= *)
Lemma comp_call1_unfold nm e sel fl :
  comp (NCall (NName nm) [e]) sel fl =
  ((i <- comp e 0 (withOpDepth 0 (pass fl)) ;;
    (if negb (Src0 i =? AddrStck) && negb (Src0 i =? AddrInv) then emit (Z.lor i (New PUSH)) else cret tt) ;;; cret tt) ;;;
   (addr <- here ;;
    put_dbg addr nm 1 ;;;
    i <- comp_ref (NName nm) 0 ;;
    w <- enc 1 AddrImm 1 ;;
    emit (Z.lor (Z.lor i (New CALL)) w) ;;;
    enc sel AddrStck 0)).
Proof. reflexivity. Qed.

Lemma put_dbg_ok a nm n s u s' : put_dbg a nm n s = COk (u, s') ->
  rcs s' = rcs s /\ ncs s' = ncs s /\ rds s' = rds s /\ nds s' = nds s.
Proof. unfold put_dbg. intros H. inversion H. cbn. auto. Qed.

Lemma call_range : 0 <= CALL < 128. Proof. unfold CALL. lia. Qed.
Lemma toa_range : 0 <= TOA < 128. Proof. unfold TOA. lia. Qed.
Lemma aton_range : 0 <= ATON < 128. Proof. unfold ATON. lia. Qed.

Lemma ssem_call n W nm b e W' res :
  bop_of_name nm = Some b ->
  ssem n W (NCall (NName nm) [e]) = Some (W', res) ->
  exists mo fid, gval (w_glob W) nm = VFun mo fid /\ ft_val Bf nm = VFun mo fid /\
    match den (w_glob W) e with
    | Ok x => W' = wbump (fst (bop_sem b W x)) /\ res = snd (bop_sem b W x)
    | Fail err => W' = W /\ res = Fail err
    end.
Proof.
  intros Hb. destruct n as [|n]; [discriminate|]. cbn [StmtSem.ssem]. rewrite Hb.
  destruct (Nat.leb (height e) n && Nat.leb 2 n); cbn [andb]; [|discriminate].
  destruct (fun_eqb (gval (w_glob W) nm) (ft_val Bf nm)) eqn:Ef; [|discriminate].
  apply fun_eqb_eq in Ef. destruct Ef as [Eg [mo [fid Ebf]]].
  intros H. exists mo, fid. conj; [congruence|exact Ebf|].
  destruct (den (w_glob W) e); injection H as <- <-; auto.
Qed.

Lemma ssem_ucall n W nm e W' res :
  bop_of_name nm = None ->
  ssem n W (NCall (NName nm) [e]) = Some (W', res) ->
  exists n', n = S n' /\ ucall_sem Bf n' W nm [e] = Some (W', res).
Proof.
  intros Hb. destruct n as [|n]; [discriminate|]. cbn [StmtSem.ssem]. rewrite Hb. intros H. exists n. auto.
Qed.

Lemma fetch_lcl0 v mid b0 ip fr ser x m1 mc :
  in_frame 1 b0 ip fr ser x m1 mc -> fetch (St v mid mc) mid AddrLcl 0 = Good (St v mid mc, x).
Proof.
  intros (F & _ & _ & _ & _ & X0 & _). specialize (X0 eq_refl). unfold fetch.
  change (AddrLcl =? AddrStck) with false. change (AddrLcl =? AddrDS) with false.
  change (AddrLcl =? AddrCls) with false. change (AddrLcl =? AddrLcl) with true. cbv iota.
  rewrite St_get. cbn [obind]. unfold mLookUpLocal.
  destruct (fp_at_app2 mc (m_fp m1) b0 (b0 + 1) F) as [F2 _]. rewrite F2. cbn [obind].
  unfold stack_get. rewrite Z.add_0_r, X0. reflexivity.
Qed.

(* the body instruction of a built-in, run inside its frame *)
Lemma bop_step b rr v mid m1 mc r i1 b0 ip fr ser x :
  at_ip v r mid i1 ->
  decode i1 = {| f_op := bop_code b; f_k0 := AddrLcl; f_k1 := 0; f_k2 := 0; f_a0 := 0; f_a1 := 0; f_a2 := 0 |} ->
  in_frame 1 b0 ip fr ser x m1 mc -> 0 <= b0 -> m_sp mc = b0 + 2 -> m_sp mc <= zlen (m_stack mc) ->
  match snd (bop_sem b (wof v) x) with
  | Ok y => exists m4, step (St v mid mc) r rr = SNext (St (set_world v (fst (bop_sem b (wof v) x))) mid m4) r /\
              in_frame 1 b0 ip fr ser x m1 m4 /\ m_sp m4 = b0 + 3 /\ m_sp m4 <= zlen (m_stack m4) /\
              znth (m_stack m4) (b0 + 2) = Some y /\ not_fun y
  | Fail err => exists ipe vals, step (St v mid mc) r rr = SErr (St v mid mc) (r_ctx r) ipe err vals /\
                  fst (bop_sem b (wof v) x) = wof v
  end.
Proof.
  intros Hat Hd Hin Hb0 Hsp Hle.
  assert (Hspc : 0 <= m_sp mc <= zlen (m_stack mc)) by lia.
  assert (Push : forall v' y, exists m4, vPush (St v' mid mc) mid y = Good (St v' mid m4) /\
            in_frame 1 b0 ip fr ser x m1 m4 /\ m_sp m4 = b0 + 3 /\ m_sp m4 <= zlen (m_stack m4) /\
            znth (m_stack m4) (b0 + 2) = Some y).
  { intros v' y. destruct (vPush_St v' mid mc y Hspc) as [m4 [Hp [Hm4 [Hs4 Ht4]]]].
    exists m4. split; [exact Hp|]. split; [apply (in_frame_msame 1 b0 ip fr ser x m1 mc m4 (m_sp mc) Hin Hm4); lia|].
    split; [lia|]. split; [destruct Hm4 as (_&_&_&_&_&B); lia|]. rewrite <- Hsp. exact Ht4. }
  destruct b; cbn [bop_code bop_sem fst snd] in *.
  - rewrite (step_write v mid mc r rr i1 _ _ _ _ _ _ Hat Hd), (fetch_lcl0 v mid b0 ip fr ser x m1 mc Hin).
    cbn [obind]. rewrite write_out_St.
    destruct (Push (write_out v (to_string fmt_float x)) VNil) as [m4 [Hp R]]. rewrite Hp. cbn [obind lift next].
    exists m4. split; [reflexivity|]. destruct R as (R1 & R2 & R3 & R4). conj; try assumption. exact I.
  - rewrite (step_toa v mid mc r rr i1 _ _ _ _ _ _ Hat Hd), (fetch_lcl0 v mid b0 ip fr ser x m1 mc Hin).
    cbn [obind].
    destruct (Push v (VStr (to_string fmt_float x))) as [m4 [Hp R]]. rewrite Hp. cbn [obind lift next].
    exists m4. rewrite set_world_same. split; [reflexivity|]. destruct R as (R1 & R2 & R3 & R4). conj; try assumption. exact I.
  - rewrite (step_aton v mid mc r rr i1 _ _ _ _ _ _ Hat Hd), (fetch_lcl0 v mid b0 ip fr ser x m1 mc Hin).
    cbn [obind]. unfold aton_res. destruct x as [| | |s0| | |]; try (eexists; eexists; split; reflexivity).
    destruct (atoi s0) as [i|].
    + destruct (Push v (VInt i)) as [m4 [Hp R]]. rewrite Hp. cbn [obind lift next].
      exists m4. rewrite set_world_same. split; [reflexivity|]. destruct R as (R1 & R2 & R3 & R4). conj; try assumption. exact I.
    + destruct (parse_float s0) as [f| |]; try (eexists; eexists; split; reflexivity).
      destruct (Push v (VFloat f)) as [m4 [Hp R]]. rewrite Hp. cbn [obind lift next].
      exists m4. rewrite set_world_same. split; [reflexivity|]. destruct R as (R1 & R2 & R3 & R4). conj; try assumption. exact I.
Qed.

Lemma lor3_reorder a b c : Z.lor (Z.lor a b) c = Z.lor (Z.lor b c) a.
Proof. rewrite (Z.lor_comm a b), <- Z.lor_assoc, (Z.lor_comm a c), Z.lor_assoc. reflexivity. Qed.

Lemma bcall_specS nm b e fl d sel s s' w :
  bop_of_name nm = Some b -> pure e = true -> 0 <= sel <= 2 -> wfcs s ->
  withOpDepth 0 (pass fl) = tfl false ->
  comp (NCall (NName nm) [e]) sel fl s = COk (w, s') ->
  SpecS (NCall (NName nm) [e]) d sel s s' w.
Proof.
  intros Hb Hp Hsel Hwf Hfl H. rewrite comp_call1_unfold in H.
  rewrite Hfl in H.
  apply cbind_ok in H. destruct H as [u1 [sA [Hargs H]]].
  apply cbind_ok in Hargs. destruct Hargs as [we [s1 [He Hargs]]].
  apply cbind_ok in Hargs. destruct Hargs as [u2 [s2 [Hpush Hret]]]. apply cret_ok in Hret. destruct Hret as [_ ->].
  apply (comp_pure_spec e Hp 0 (tfl false) s we s1 ltac:(lia) Hwf) in He. apply SpecD_lay in He.
  destruct He as [code [K [A (L1 & W1 & Ee & Ok1 & _ & NT & X)]]].
  assert (NK : K <> AddrTmp) by (apply NT; reflexivity).
  assert (NI : K <> AddrInv) by (unfold okind, AddrStck, AddrTmp, AddrDS, AddrGbl, AddrInv in *; lia).
  destruct (enc_src0 K A we (okind_range K Ok1) Ee) as [S0 _]. rewrite S0 in Hpush.
  assert (Hp2 : lay s1 s2 (push_code K we) /\ rds s2 = rds s1 /\ nds s2 = nds s1 /\ wfcs s2).
  { unfold push_code. rewrite (proj2 (Z.eqb_neq K AddrInv) NI) in Hpush. cbn [negb] in Hpush. rewrite andb_true_r in Hpush.
    destruct (K =? AddrStck); cbn [negb] in Hpush.
    - apply cret_ok in Hpush. destruct Hpush as [_ ->]. conj; [apply lay_refl|reflexivity|reflexivity|exact W1].
    - apply emit_ok in Hpush. subst s2. rewrite Z.lor_comm. conj; try reflexivity.
      + change [Z.lor (New PUSH) we] with ([] ++ [Z.lor (New PUSH) we]). apply lay_emit. apply lay_refl.
      + apply wfcs_emitted. exact W1. }
  destruct Hp2 as [Lp [Rd2 [Nd2 W2]]].
  apply cbind_ok in H. destruct H as [addr [s3 [Hh H]]]. apply here_ok in Hh. destruct Hh as [-> ->].
  apply cbind_ok in H. destruct H as [u3 [s4 [Hdbg H]]]. apply put_dbg_ok in Hdbg. destruct Hdbg as (R4 & N4 & D4 & ND4).
  apply cbind_ok in H. destruct H as [wg [s5 [Href H]]].
  cbn [comp_ref] in Href. apply cbind_ok in Href. destruct Href as [ix [s5' [Hds Href]]].
  apply add_ds_ok in Hds. destruct Hds as [-> ->]. apply enc_ok in Href. destruct Href as [-> Ewg].
  apply cbind_ok in H. destruct H as [wi [s6 [Hi H]]]. apply enc_ok in Hi. destruct Hi as [-> Ewi].
  apply cbind_ok in H. destruct H as [u4 [s7 [Hem Hres]]].
  apply emit_ok in Hem. subst s7. apply enc_ok in Hres. destruct Hres as [-> Ew].
  set (instr := Z.lor (Z.lor wg (New CALL)) wi) in *.
  assert (Hdi : decode instr = {| f_op := CALL; f_k0 := AddrGbl; f_k1 := AddrImm; f_k2 := 0; f_a0 := nds s4; f_a1 := 1; f_a2 := 0 |}).
  { unfold instr. rewrite lor3_reorder.
    apply (decode_op01 CALL AddrGbl (nds s4) AddrImm 1 wg wi call_range gbl_range imm_range Ewg Ewi). }
  set (s5 := with_data s4 (VStr nm)) in *.
  assert (L4 : lay s s4 (code ++ push_code K we)).
  { destruct (lay_trans s s1 s2 _ _ L1 Lp) as (R & N & [dd D]). unfold lay. rewrite R4, N4, D4. conj; [exact R|exact N|exists dd; exact D]. }
  assert (W4 : wfcs s4).
  { destruct W2 as [A1 B1]. unfold wfcs. rewrite R4, N4, D4, ND4. split; assumption. }
  assert (W5 : wfcs s5).
  { destruct W4 as [A1 B1]. unfold wfcs, s5, with_data, zlen in *; cbn [rcs ncs rds nds List.length]. split; lia. }
  exists ((code ++ push_code K we) ++ [instr]), AddrStck, 0. conj.
  - apply lay_emit. destruct L4 as (R & N & [dd D]). unfold lay, s5, with_data; cbn [rcs ncs rds]. conj; try assumption.
    exists (VStr nm :: dd). rewrite D. reflexivity.
  - apply wfcs_emitted. exact W5.
  - exact Ew.
  - left. reflexivity.
  - intros _. split; discriminate.
  - intros n rr v mid m r W' res Hbc Hc Hdat Hm Hsp Hip HM.
    apply (ssem_call _ _ _ b _ _ _ Hb) in HM. destruct HM as (mo & fid & Hg & Hbf & HM).
    change (w_glob (wof v)) with (v_globals v) in *.
    pose proof (code_at_nth v (ncs s) (code ++ push_code K we) instr [] Hc) as Hi_call.
    apply code_at_app in Hc. destruct Hc as [Hc _].
    assert (Hd1 : data_at v s1).
    { destruct Lp as (_ & _ & [dp Dp]). intros i y Hy. apply Hdat. cbn [emitted rds s5 with_data rev].
      apply znth_app_l. rewrite D4, Rd2. exact Hy. }
    assert (Hname : znth (v_ds v) (nds s4) = Some (VStr nm)).
    { apply Hdat. cbn [emitted rds s5 with_data]. rewrite (proj2 W4). apply znth_rev_cons. }
    (* the argument, on the stack *)
    assert (XS : RunsS (fun W => Some (W, den (w_glob W) e)) false s s2 s1 (code ++ push_code K we) AddrStck 0).
    { apply (value_on_stack _ s s1 s2 s1 code K A we).
      - apply (RunsK_S (fun G => den G e) _ false s s1 s1 code K A _ X). intros G G' r0 E0. injection E0 as <- <-. auto.
      - exact NK.
      - exact NI.
      - apply okind_skind. exact Ok1.
      - exact Ee.
      - destruct L1 as (_ & N & _). exact N.
      - destruct Lp as (_ & N & _). exact N. }
    pose proof (XS rr v mid m r (wof v) (den (v_globals v) e) Hbc Hc Hd1 Hm Hsp Hip eq_refl) as E.
    destruct (den (v_globals v) e) as [x|err].
    + destruct HM as [-> ->].
      destruct E as [k1 [m1 [r1 [Hs1 [Hm1 [Hc1 [Hi1 Ho]]]]]]]. rewrite SG_same in Hs1. rewrite set_world_same in Ho.
      destruct Ho as [[_ [Hsp1 Hx1]]|[[E1 _]|[[E1 _]|[E1 _]]]]; try discriminate E1.
      assert (Hm1' : cur_mid v r1 = Good mid) by (rewrite (cur_mid_ctx v r r1 Hc1); exact Hm).
      assert (Hat : at_ip v r1 mid instr).
      { split; [|exact Hm1']. rewrite Hi1. destruct L4 as (_ & N & _). rewrite <- N4, N. exact Hi_call. }
      destruct (proj1 Hbc nm b mo fid Hb Hbf) as (morph & fid' & fr & i1 & i2 & Ef & Hpar & Hloc & Hfr & Hi1c & Hi2c & Hd1i & Hd2i).
      rewrite Hbf in Ef. injection Ef as <- <-.
      assert (Hle1 : m_sp m1 <= zlen (m_stack m1)) by (destruct Hm1 as (_&_&_&_&_&B); lia).
      destruct (call_enter rr v mid m1 r1 instr (nds s4) nm mo fid fr 1 (m_sp m) x 0 0 Hat Hdi Hname Hg Hpar Hloc Hfr
                  ltac:(lia) (proj1 Hsp) Hsp1 Hle1 (fun _ => Hx1)) as [mc [Hs2 [Hin [Hspc Hlec]]]].
      set (vb := vbump v) in *.
      set (r2 := with_ip (with_ip r1 (fn_node mo - 1)) (r_ip (with_ip r1 (fn_node mo - 1)) + 1)).
      assert (Hat2 : at_ip vb r2 mid i1).
      { split; [unfold r2; cbn [with_ip r_ip]; replace (fn_node mo - 1 + 1) with (fn_node mo) by lia; exact Hi1c|].
        change (cur_mid vb r2) with (cur_mid v r2). rewrite (cur_mid_ctx v r1 r2); [exact Hm1'|reflexivity]. }
      replace (m_sp m + 1 + 1) with (m_sp m + 2) in Hspc by lia.
      pose proof (bop_step b rr vb mid m1 mc r2 i1 (m_sp m) (r_ip r1) fr (v_next v) x Hat2 Hd1i Hin (proj1 Hsp) Hspc Hlec) as Hbody.
      assert (EW : bop_sem b (wof vb) x = (wbump (fst (bop_sem b (wof v) x)), snd (bop_sem b (wof v) x))).
      { destruct b; reflexivity. }
      rewrite EW in Hbody. cbn [fst snd] in Hbody.
      destruct (snd (bop_sem b (wof v) x)) as [y|err] eqn:Er.
      * destruct Hbody as [m4 [Hs3 [Hin4 [Hsp4 [Hle4 [Hy Hnf]]]]]].
        set (v3 := set_world vb (wbump (fst (bop_sem b (wof v) x)))) in *.
        set (r3 := with_ip r2 (r_ip r2 + 1)).
        assert (Hat3 : at_ip v3 r3 mid i2).
        { split; [unfold r3, r2; cbn [with_ip r_ip]; replace (fn_node mo - 1 + 1 + 1) with (fn_node mo + 1) by lia; exact Hi2c|].
          change (cur_mid v3 r3) with (cur_mid v r3). rewrite (cur_mid_ctx v r1 r3); [exact Hm1'|reflexivity]. }
        destruct (call_leave rr v3 mid m1 m4 r3 i2 1 (m_sp m) (r_ip r1) fr (v_next v) x y 0 0 0 0 0 Hat3 Hd2i Hin4
                    ltac:(lia) (proj1 Hsp) ltac:(lia) Hle4 ltac:(replace (m_sp m + 1 + 1) with (m_sp m + 2) by lia; exact Hy) Hnf) as [m5 [Hs4 (F5 & C5 & S5 & P5 & T5 & Hsp5 & Hle5 & Htop5)]].
        exists (k1 + 3)%nat, m5, (with_ip (with_ip r3 (r_ip r1)) (r_ip r1 + 1)).
        rewrite steps_app, Hs1. cbn [steps]. rewrite Hs2. cbv beta iota. fold r2. rewrite Hs3. cbv beta iota. fold r3.
        rewrite Hs4. cbv beta iota. conj.
        -- unfold SG, v3, vb. destruct b; reflexivity.
        -- destruct Hm1 as (F1 & C1 & S1 & P1 & T1 & B1). unfold msame.
           split; [congruence|]. split; [congruence|]. split; [congruence|]. split; [exact (incl_tran P5 P1)|].
           split; [rewrite T5; exact T1|lia].
        -- cbn [with_ip r_ctx]. exact Hc1.
        -- cbn [with_ip r_ip emitted ncs s5 with_data]. destruct L4 as (_ & N & _). rewrite Hi1. unfold zlen in *.
           rewrite app_length in N. lia.
        -- destruct d; [unfold stack_effect; cbn; lia|].
           left. conj; [reflexivity|lia|exact Htop5].
      * destruct Hbody as [ipe [vals [Hs3 EW2]]].
        exists (k1 + 2)%nat, mc, ipe, vals.
        rewrite steps_app, Hs1. cbn [steps]. rewrite Hs2. cbv beta iota. fold r2. rewrite Hs3.
        replace (r_ctx r2) with (r_ctx r) by (unfold r2; cbn [with_ip r_ctx]; congruence).
        rewrite EW2. reflexivity.
    + destruct HM as [-> ->]. exact E.
Qed.

(* ================= calls of user functions: nm(e), the body a pure expression of the parameter ================= *)
Lemma ret_range : 0 <= RET < 128. Proof. unfold RET. lia. Qed.

Lemma not_fun_is_fun y : is_fun y = false -> not_fun y.
Proof. destruct y; cbn; intros H; [exact I..|discriminate H]. Qed.


(* ================= read() ================= *)
Lemma comp_call0_unfold nm sel fl :
  comp (NCall (NName nm) []) sel fl =
  (cret tt ;;;
   (addr <- here ;;
    put_dbg addr nm 0 ;;;
    i <- comp_ref (NName nm) 0 ;;
    w <- enc 1 AddrImm 0 ;;
    emit (Z.lor (Z.lor i (New CALL)) w) ;;;
    enc sel AddrStck 0)).
Proof. reflexivity. Qed.

Lemma ssem_read n W W' res :
  ssem n W (NCall (NName "read") []) = Some (W', res) ->
  exists mo fid, gval (w_glob W) "read" = VFun mo fid /\ ft_val Bf "read" = VFun mo fid /\
    W' = wbump (fst (read_sem W)) /\ res = snd (read_sem W).
Proof.
  destruct n as [|n]; [discriminate|]. cbn [StmtSem.ssem]. change (String.eqb "read" "read") with true. cbn [andb].
  destruct (Nat.leb 1 n); cbn [andb]; [|discriminate].
  destruct (fun_eqb (gval (w_glob W) "read") (ft_val Bf "read")) eqn:Ef; [|discriminate].
  apply fun_eqb_eq in Ef. destruct Ef as [Eg [mo [fid Ebf]]].
  intros H. injection H as <- <-. exists mo, fid. conj; [congruence|exact Ebf|reflexivity|reflexivity].
Qed.

Lemma read_range : 0 <= READ < 128. Proof. unfold READ. lia. Qed.

Lemma read_step rr v mid m1 mc r i1 b0 ip fr ser x k0 k1 k2 a0 a1 a2 :
  at_ip v r mid i1 ->
  decode i1 = {| f_op := READ; f_k0 := k0; f_k1 := k1; f_k2 := k2; f_a0 := a0; f_a1 := a1; f_a2 := a2 |} ->
  in_frame 0 b0 ip fr ser x m1 mc -> 0 <= b0 -> m_sp mc = b0 + 1 -> m_sp mc <= zlen (m_stack mc) ->
  match snd (read_sem (wof v)) with
  | Ok y => exists m4, step (St v mid mc) r rr = SNext (St (set_world v (fst (read_sem (wof v)))) mid m4) r /\
              in_frame 0 b0 ip fr ser x m1 m4 /\ m_sp m4 = b0 + 2 /\ m_sp m4 <= zlen (m_stack m4) /\
              znth (m_stack m4) (b0 + 1) = Some y /\ not_fun y
  | Fail err => exists ipe vals, step (St v mid mc) r rr = SErr (St v mid mc) (r_ctx r) ipe err vals /\
                  fst (read_sem (wof v)) = wof v
  end.
Proof.
  intros Hat Hd Hin Hb0 Hsp Hle.
  rewrite (step_read v mid mc r rr i1 _ _ _ _ _ _ Hat Hd). unfold read_sem. cbn [wof w_in].
  destruct (v_in v) as [|l rest] eqn:Ein; cbn [fst snd].
  - eexists. eexists. split; reflexivity.
  - rewrite set_in_St.
    assert (Hspc : 0 <= m_sp mc <= zlen (m_stack mc)) by lia.
    destruct (vPush_St (set_in v rest) mid mc (VStr l) Hspc) as [m4 [Hp [Hm4 [Hs4 Ht4]]]].
    rewrite Hp. cbn [obind lift next]. exists m4. conj.
    + reflexivity.
    + apply (in_frame_msame 0 b0 ip fr ser x m1 mc m4 (m_sp mc) Hin Hm4); lia.
    + lia.
    + destruct Hm4 as (_&_&_&_&_&B). lia.
    + rewrite <- Hsp. exact Ht4.
    + exact I.
Qed.

Lemma rcall_specS fl d sel s s' w :
  0 <= sel <= 2 -> wfcs s ->
  comp (NCall (NName "read") []) sel fl s = COk (w, s') ->
  SpecS (NCall (NName "read") []) d sel s s' w.
Proof.
  intros Hsel Hwf H. rewrite comp_call0_unfold in H.
  apply cbind_ok in H. destruct H as [u1 [sA [Hargs H]]]. apply cret_ok in Hargs. destruct Hargs as [_ ->].
  apply cbind_ok in H. destruct H as [addr [s3 [Hh H]]]. apply here_ok in Hh. destruct Hh as [-> ->].
  apply cbind_ok in H. destruct H as [u3 [s4 [Hdbg H]]]. apply put_dbg_ok in Hdbg. destruct Hdbg as (R4 & N4 & D4 & ND4).
  apply cbind_ok in H. destruct H as [wg [s5 [Href H]]].
  cbn [comp_ref] in Href. apply cbind_ok in Href. destruct Href as [ix [s5' [Hds Href]]].
  apply add_ds_ok in Hds. destruct Hds as [-> ->]. apply enc_ok in Href. destruct Href as [-> Ewg].
  apply cbind_ok in H. destruct H as [wi [s6 [Hi H]]]. apply enc_ok in Hi. destruct Hi as [-> Ewi].
  apply cbind_ok in H. destruct H as [u4 [s7 [Hem Hres]]].
  apply emit_ok in Hem. subst s7. apply enc_ok in Hres. destruct Hres as [-> Ew].
  set (instr := Z.lor (Z.lor wg (New CALL)) wi) in *.
  assert (Hdi : decode instr = {| f_op := CALL; f_k0 := AddrGbl; f_k1 := AddrImm; f_k2 := 0; f_a0 := nds s4; f_a1 := 0; f_a2 := 0 |}).
  { unfold instr. rewrite lor3_reorder.
    apply (decode_op01 CALL AddrGbl (nds s4) AddrImm 0 wg wi call_range gbl_range imm_range Ewg Ewi). }
  set (s5 := with_data s4 (VStr "read")) in *.
  assert (W4 : wfcs s4).
  { destruct Hwf as [A1 B1]. unfold wfcs. rewrite R4, N4, D4, ND4. split; assumption. }
  assert (W5 : wfcs s5).
  { destruct W4 as [A1 B1]. unfold wfcs, s5, with_data, zlen in *; cbn [rcs ncs rds nds List.length]. split; lia. }
  exists [instr], AddrStck, 0. conj.
  - change [instr] with ([] ++ [instr]). apply lay_emit. unfold lay, s5, with_data; cbn [rcs ncs rds rev app].
    conj; [exact R4|rewrite N4; unfold zlen; cbn; lia|exists [VStr "read"]; rewrite D4; reflexivity].
  - apply wfcs_emitted. exact W5.
  - exact Ew.
  - left. reflexivity.
  - intros _. split; discriminate.
  - intros n rr v mid m r W' res Hbc Hc Hdat Hm Hsp Hip HM.
    apply ssem_read in HM. destruct HM as (mo & fid & Hg & Hbf & -> & ->).
    change (w_glob (wof v)) with (v_globals v) in *.
    apply code_at_cons in Hc. destruct Hc as [Hi_call _].
    assert (Hname : znth (v_ds v) (nds s4) = Some (VStr "read")).
    { apply Hdat. cbn [emitted rds s5 with_data]. rewrite (proj2 W4). apply znth_rev_cons. }
    assert (Hat : at_ip v r mid instr) by (split; [rewrite Hip; exact Hi_call|exact Hm]).
    destruct (proj1 (proj2 Hbc) mo fid Hbf) as (morph & fid' & fr & i1 & i2 & Ef & Hpar & Hloc & Hfr & Hi1c & Hi2c & Hd1i & Hd2i).
    rewrite Hbf in Ef. injection Ef as <- <-.
    destruct (call_enter rr v mid m r instr (nds s4) "read" mo fid fr 0 (m_sp m) VNil 0 0 Hat Hdi Hname Hg Hpar Hloc Hfr
                ltac:(lia) (proj1 Hsp) ltac:(lia) (proj2 Hsp) ltac:(intros E; discriminate E)) as [mc [Hs2 [Hin [Hspc Hlec]]]].
    set (vb := vbump v) in *.
    set (r2 := with_ip (with_ip r (fn_node mo - 1)) (r_ip (with_ip r (fn_node mo - 1)) + 1)).
    assert (Hat2 : at_ip vb r2 mid i1).
    { split; [unfold r2; cbn [with_ip r_ip]; replace (fn_node mo - 1 + 1) with (fn_node mo) by lia; exact Hi1c|].
      change (cur_mid vb r2) with (cur_mid v r2). rewrite (cur_mid_ctx v r r2); [exact Hm|reflexivity]. }
    replace (m_sp m + 0 + 1) with (m_sp m + 1) in Hspc by lia.
    pose proof (read_step rr vb mid m mc r2 i1 (m_sp m) (r_ip r) fr (v_next v) VNil _ _ _ _ _ _ Hat2 Hd1i Hin (proj1 Hsp) Hspc Hlec) as Hbody.
    assert (EW : read_sem (wof vb) = (wbump (fst (read_sem (wof v))), snd (read_sem (wof v)))).
    { unfold read_sem, wbump, wof, vb, vbump, bump.
      cbn [fst snd w_in w_glob w_out w_next v_in v_globals v_out v_next]. destruct (v_in v); reflexivity. }
    rewrite EW in Hbody. cbn [fst snd] in Hbody.
    destruct (snd (read_sem (wof v))) as [y|err] eqn:Er.
    + destruct Hbody as [m4 [Hs3 [Hin4 [Hsp4 [Hle4 [Hy Hnf]]]]]].
      set (v3 := set_world vb (wbump (fst (read_sem (wof v))))) in *.
      set (r3 := with_ip r2 (r_ip r2 + 1)).
      assert (Hat3 : at_ip v3 r3 mid i2).
      { split; [unfold r3, r2; cbn [with_ip r_ip]; replace (fn_node mo - 1 + 1 + 1) with (fn_node mo + 1) by lia; exact Hi2c|].
        change (cur_mid v3 r3) with (cur_mid v r3). rewrite (cur_mid_ctx v r r3); [exact Hm|reflexivity]. }
      destruct (call_leave rr v3 mid m m4 r3 i2 0 (m_sp m) (r_ip r) fr (v_next v) VNil y 0 0 0 0 0 Hat3 Hd2i Hin4
                  ltac:(lia) (proj1 Hsp) ltac:(lia) Hle4 ltac:(replace (m_sp m + 0 + 1) with (m_sp m + 1) by lia; exact Hy) Hnf)
        as [m5 [Hs4 (F5 & C5 & S5 & P5 & T5 & Hsp5 & Hle5 & Htop5)]].
      exists 3%nat, m5, (with_ip (with_ip r3 (r_ip r)) (r_ip r + 1)).
      cbn [steps]. rewrite Hs2. cbv beta iota. fold r2. rewrite Hs3. cbv beta iota. fold r3.
      rewrite Hs4. cbv beta iota. conj.
      * unfold SG, v3, vb. unfold read_sem. cbn [wof w_in]. destruct (v_in v); reflexivity.
      * unfold msame. split; [exact F5|]. split; [exact C5|]. split; [exact S5|]. split; [exact P5|].
        split; [exact T5|lia].
      * reflexivity.
      * cbn [with_ip r_ip emitted ncs s5 with_data]. rewrite N4. lia.
      * destruct d; [unfold stack_effect; cbn; lia|].
        left. conj; [reflexivity|lia|exact Htop5].
    + destruct Hbody as [ipe [vals [Hs3 EW2]]].
      exists 2%nat, mc, ipe, vals.
      cbn [steps]. rewrite Hs2. cbv beta iota. fold r2. rewrite Hs3.
      replace (r_ctx r2) with (r_ctx r) by reflexivity.
      rewrite EW2. reflexivity.
Qed.

(* ================= calls with any number of arguments: nm(e1, .., ek) of a user function ================= *)
Definition args_go (fl : flags) := fix go (l : list node) : CM unit :=
  match l with
  | [] => cret tt
  | a :: l' =>
      i <- comp a 0 fl ;;
      (if negb (Src0 i =? AddrStck) && negb (Src0 i =? AddrInv) then emit (Z.lor i (New PUSH)) else cret tt) ;;; go l'
  end.

Lemma comp_call_unfold nm args sel fl :
  comp (NCall (NName nm) args) sel fl =
  (args_go (withOpDepth 0 (pass fl)) args ;;;
   (addr <- here ;;
    put_dbg addr nm (Z.of_nat (List.length args)) ;;;
    i <- comp_ref (NName nm) 0 ;;
    w <- enc 1 AddrImm (Z.of_nat (List.length args)) ;;
    emit (Z.lor (Z.lor i (New CALL)) w) ;;;
    enc sel AddrStck 0)).
Proof. reflexivity. Qed.

(* one argument: its code, and a PUSH unless the value is already on the stack *)
Lemma arg_push_spec e s we s1 u2 s2 :
  pure e = true -> wfcs s -> comp e 0 (tfl false) s = COk (we, s1) ->
  (if negb (Src0 we =? AddrStck) && negb (Src0 we =? AddrInv) then emit (Z.lor we (New PUSH)) else cret tt) s1 = COk (u2, s2) ->
  exists code, lay s s2 code /\ wfcs s2 /\
     RunsS (fun W => Some (W, den (w_glob W) e)) false s s2 s2 code AddrStck 0.
Proof.
  intros Hp Hwf He Hpush.
  apply (comp_pure_spec e Hp 0 (tfl false) s we s1 ltac:(lia) Hwf) in He. apply SpecD_lay in He.
  destruct He as [code [K [A (L1 & W1 & Ee & Ok1 & _ & NT & X)]]].
  assert (NK : K <> AddrTmp) by (apply NT; reflexivity).
  assert (NI : K <> AddrInv) by (unfold okind, AddrStck, AddrTmp, AddrDS, AddrGbl, AddrInv in *; lia).
  destruct (enc_src0 K A we (okind_range K Ok1) Ee) as [S0 _]. rewrite S0 in Hpush.
  assert (Hp2 : lay s1 s2 (push_code K we) /\ rds s2 = rds s1 /\ nds s2 = nds s1 /\ wfcs s2).
  { unfold push_code. rewrite (proj2 (Z.eqb_neq K AddrInv) NI) in Hpush. cbn [negb] in Hpush. rewrite andb_true_r in Hpush.
    destruct (K =? AddrStck); cbn [negb] in Hpush.
    - apply cret_ok in Hpush. destruct Hpush as [_ ->]. conj; [apply lay_refl|reflexivity|reflexivity|exact W1].
    - apply emit_ok in Hpush. subst s2. rewrite Z.lor_comm. conj; try reflexivity.
      + change [Z.lor (New PUSH) we] with ([] ++ [Z.lor (New PUSH) we]). apply lay_emit. apply lay_refl.
      + apply wfcs_emitted. exact W1. }
  destruct Hp2 as [Lp [Rd2 [Nd2 W2]]].
  exists (code ++ push_code K we). conj; [apply (lay_trans s s1 s2); assumption|exact W2|].
  apply (RunsS_data _ false s s2 s1 s2 _ AddrStck 0 []); [|rewrite Rd2; reflexivity].
  apply (value_on_stack _ s s1 s2 s1 code K A we).
  - apply (RunsK_S (fun G => den G e) _ false s s1 s1 code K A _ X). intros G G' r0 E0. injection E0 as <- <-. auto.
  - exact NK.
  - exact NI.
  - apply okind_skind. exact Ok1.
  - exact Ee.
  - destruct L1 as (_ & N & _). exact N.
  - destruct Lp as (_ & N & _). exact N.
Qed.

(* the arguments, left to right, each left on the stack *)
Definition RunsArgs (l : list node) (s s2 sd : cstate) (P : list Z) : Prop :=
  forall rr v mid m r, bcode v -> code_at v (ncs s) P -> data_at v sd -> cur_mid v r = Good mid ->
    0 <= m_sp m <= zlen (m_stack m) -> r_ip r = ncs s ->
    match seq_res (den (v_globals v)) l with
    | Ok xs => exists k m' r', steps rr k (St v mid m) r = SNext (St v mid m') r' /\ msame (m_sp m) m m' /\
                 m_sp m' = m_sp m + zlen xs /\
                 (forall i x, znth xs i = Some x -> znth (m_stack m') (m_sp m + i) = Some x) /\
                 r_ctx r' = r_ctx r /\ r_ip r' = ncs s2
    | Fail err => exists k me ip vals, steps rr k (St v mid m) r = SErr (St v mid me) (r_ctx r) ip err vals
    end.

Lemma args_spec : forall l, forallb pure l = true ->
  forall s u s', wfcs s -> args_go (tfl false) l s = COk (u, s') ->
  exists code, lay s s' code /\ wfcs s' /\ RunsArgs l s s' s' code.
Proof.
  induction l as [|a l IH]; intros Hp s u s' Hwf H.
  - cbn [args_go] in H. apply cret_ok in H. destruct H as [_ ->]. exists []. conj; [apply lay_refl|exact Hwf|].
    intros rr v mid m r _ _ _ _ Hsp Hip. cbn [seq_res]. exists 0%nat, m, r. cbn [steps]. conj; try reflexivity.
    + apply msame_refl. exact Hsp.
    + unfold zlen. cbn [List.length]. lia.
    + intros i x Hi. unfold znth in Hi. destruct (i <? 0); [discriminate Hi|]. destruct (Z.to_nat i); discriminate Hi.
    + exact Hip.
  - cbn [forallb] in Hp. apply andb_prop in Hp. destruct Hp as [Hpa Hpl].
    cbn [args_go] in H. apply cbind_ok in H. destruct H as [we [s1 [He H]]].
    apply cbind_ok in H. destruct H as [u2 [s2 [Hpush Hrest]]].
    destruct (arg_push_spec a s we s1 u2 s2 Hpa Hwf He Hpush) as [code1 (L1 & W2 & X1)].
    destruct (IH Hpl s2 u s' W2 Hrest) as [code2 (L2 & W' & X2)].
    exists (code1 ++ code2). conj; [apply (lay_trans s s2 s'); assumption|exact W'|].
    intros rr v mid m r Hbc Hc Hdat Hm Hsp Hip.
    apply code_at_app in Hc. destruct Hc as [Hc1 Hc2].
    assert (Hd2 : data_at v s2) by (destruct L2 as (_ & _ & [d2 D2]); apply (data_at_ext v s2 s' d2 Hdat D2)).
    pose proof (X1 rr v mid m r (wof v) (den (v_globals v) a) Hbc Hc1 Hd2 Hm Hsp Hip eq_refl) as E1.
    cbn [seq_res]. destruct (den (v_globals v) a) as [x|err].
    + destruct E1 as [k1 [m1 [r1 [Hs1 [Hm1 [Hc1' [Hi1 Ho]]]]]]]. rewrite SG_same in Hs1. rewrite set_world_same in Ho.
      destruct Ho as [[_ [Hsp1 Hx1]]|[[E0 _]|[[E0 _]|[E0 _]]]]; try discriminate E0.
      assert (Hm1' : cur_mid v r1 = Good mid) by (rewrite (cur_mid_ctx v r r1 Hc1'); exact Hm).
      assert (Hsp1' : 0 <= m_sp m1 <= zlen (m_stack m1)) by (destruct Hm1 as (_&_&_&_&_&B); lia).
      assert (Hc2' : code_at v (ncs s2) code2) by (destruct L1 as (_ & N & _); rewrite N; exact Hc2).
      pose proof (X2 rr v mid m1 r1 Hbc Hc2' Hdat Hm1' Hsp1' Hi1) as E2.
      destruct (seq_res (den (v_globals v)) l) as [xs|err].
      * destruct E2 as [k2 [m2 [r2 [Hs2 [Hm2 [Hsp2 [Hx2 [Hc2'' Hi2]]]]]]]].
        exists (k1 + k2)%nat, m2, r2. rewrite steps_app, Hs1, Hs2. conj.
        -- reflexivity.
        -- apply (msame_trans (m_sp m) (m_sp m1) m m1 m2); [lia|exact Hm1|exact Hm2].
        -- unfold zlen in *. cbn [List.length]. lia.
        -- intros i y Hi. unfold znth in Hi. destruct (Z.ltb_spec i 0); [discriminate Hi|].
           destruct (Z.to_nat i) as [|j] eqn:Ej.
           ++ cbn [nth_error] in Hi. injection Hi as <-. assert (i = 0) by lia. subst i. rewrite Z.add_0_r.
              destruct Hm2 as (_ & _ & _ & _ & T & _). rewrite <- Hx1.
              apply (znth_firstn _ _ (Z.to_nat (m_sp m1))); [exact T|lia|lia].
           ++ cbn [nth_error] in Hi. replace (m_sp m + i) with (m_sp m1 + Z.of_nat j) by lia.
              apply Hx2. unfold znth. destruct (Z.ltb_spec (Z.of_nat j) 0); [lia|]. rewrite Nat2Z.id. exact Hi.
        -- congruence.
        -- exact Hi2.
      * destruct E2 as [k2 [me [ip [vals Hs2]]]]. exists (k1 + k2)%nat, me, ip, vals. rewrite steps_app, Hs1, Hs2.
        rewrite Hc1'. reflexivity.
    + destruct E1 as [k1 [me [ip [vals Hs1]]]]. rewrite SG_same in Hs1. exists k1, me, ip, vals. exact Hs1.
Qed.

(* what ssem says about a call that is not of the one-argument or read() shape *)
Lemma ssem_callN n W nm args W' res :
  (forall e, args = [e] -> bop_of_name nm = None) -> (args = [] -> String.eqb nm "read" = false) ->
  ssem n W (NCall (NName nm) args) = Some (W', res) ->
  exists n', n = S n' /\ bop_of_name nm = None /\ ucall_sem Bf n' W nm args = Some (W', res).
Proof.
  intros Hone Hread H. destruct n as [|n]; [discriminate H|]. exists n. split; [reflexivity|].
  destruct args as [|e1 [|e2 rest]]; cbn [StmtSem.ssem] in H.
  - rewrite (Hread eq_refl) in H. destruct (bop_of_name nm); [discriminate H|]. auto.
  - rewrite (Hone e1 eq_refl) in H. split; [exact (Hone e1 eq_refl)|exact H].
  - destruct (bop_of_name nm); [discriminate H|]. destruct (String.eqb nm "read"); [discriminate H|]. auto.
Qed.

Lemma callN_specS nm args fl d sel s s' w :
  forallb pure args = true -> (forall e, args = [e] -> bop_of_name nm = None) -> (args = [] -> String.eqb nm "read" = false) ->
  0 <= sel <= 2 -> wfcs s -> withOpDepth 0 (pass fl) = tfl false ->
  comp (NCall (NName nm) args) sel fl s = COk (w, s') ->
  SpecS (NCall (NName nm) args) d sel s s' w.
Proof.
  intros Hp Hlen Hread Hsel Hwf Hfl H. rewrite comp_call_unfold in H. rewrite Hfl in H.
  apply cbind_ok in H. destruct H as [u1 [s2 [Hargs H]]].
  destruct (args_spec args Hp s u1 s2 Hwf Hargs) as [codeA (LA & W2 & XA)].
  apply cbind_ok in H. destruct H as [addr [s3 [Hh H]]]. apply here_ok in Hh. destruct Hh as [-> ->].
  apply cbind_ok in H. destruct H as [u3 [s4 [Hdbg H]]]. apply put_dbg_ok in Hdbg. destruct Hdbg as (R4 & N4 & D4 & ND4).
  apply cbind_ok in H. destruct H as [wg [s5 [Href H]]].
  cbn [comp_ref] in Href. apply cbind_ok in Href. destruct Href as [ix [s5' [Hds Href]]].
  apply add_ds_ok in Hds. destruct Hds as [-> ->]. apply enc_ok in Href. destruct Href as [-> Ewg].
  apply cbind_ok in H. destruct H as [wi [s6 [Hi H]]]. apply enc_ok in Hi. destruct Hi as [-> Ewi].
  apply cbind_ok in H. destruct H as [u4 [s7 [Hem Hres]]].
  apply emit_ok in Hem. subst s7. apply enc_ok in Hres. destruct Hres as [-> Ew].
  set (ar := Z.of_nat (List.length args)) in *.
  set (instr := Z.lor (Z.lor wg (New CALL)) wi) in *.
  assert (Hdi : decode instr = {| f_op := CALL; f_k0 := AddrGbl; f_k1 := AddrImm; f_k2 := 0; f_a0 := nds s4; f_a1 := ar; f_a2 := 0 |}).
  { unfold instr. rewrite lor3_reorder.
    apply (decode_op01 CALL AddrGbl (nds s4) AddrImm ar wg wi call_range gbl_range imm_range Ewg Ewi). }
  set (s5 := with_data s4 (VStr nm)) in *.
  assert (L4 : lay s s4 codeA).
  { destruct LA as (R & N & [dd D]). unfold lay. rewrite R4, N4, D4. conj; [exact R|exact N|exists dd; exact D]. }
  assert (W4 : wfcs s4).
  { destruct W2 as [A1 B1]. unfold wfcs. rewrite R4, N4, D4, ND4. split; assumption. }
  assert (W5 : wfcs s5).
  { destruct W4 as [A1 B1]. unfold wfcs, s5, with_data, zlen in *; cbn [rcs ncs rds nds List.length]. split; lia. }
  exists (codeA ++ [instr]), AddrStck, 0. conj.
  - apply lay_emit. destruct L4 as (R & N & [dd D]). unfold lay, s5, with_data; cbn [rcs ncs rds]. conj; try assumption.
    exists (VStr nm :: dd). rewrite D. reflexivity.
  - apply wfcs_emitted. exact W5.
  - exact Ew.
  - left. reflexivity.
  - intros _. split; discriminate.
  - intros n rr v mid m r W' res Hbc Hc Hdat Hm Hsp Hip HM.
    apply (ssem_callN _ _ _ _ _ _ Hlen Hread) in HM. destruct HM as (n' & -> & Hb & HM).
    unfold ucall_sem in HM. change (w_glob (wof v)) with (v_globals v) in HM.
    destruct (ft_body Bf nm) as [body|] eqn:Hbody; [|discriminate HM].
    destruct (Nat.leb (heights args) n'); cbn [andb] in HM; [|discriminate HM].
    destruct (fun_eqb (gval (v_globals v) nm) (ft_val Bf nm)) eqn:Ef; [|discriminate HM].
    apply fun_eqb_eq in Ef. destruct Ef as [Hg [mo [fid Hbf]]]. rewrite Hbf in Hg.
    pose proof (code_at_nth v (ncs s) codeA instr [] Hc) as Hi_call.
    apply code_at_app in Hc. destruct Hc as [Hc _].
    assert (Hd2 : data_at v s2).
    { intros i y Hy. apply Hdat. cbn [emitted rds s5 with_data rev]. apply znth_app_l. rewrite D4. exact Hy. }
    assert (Hname : znth (v_ds v) (nds s4) = Some (VStr nm)).
    { apply Hdat. cbn [emitted rds s5 with_data]. rewrite (proj2 W4). apply znth_rev_cons. }
    pose proof (XA rr v mid m r Hbc Hc Hd2 Hm Hsp Hip) as E.
    destruct (seq_res (den (v_globals v)) args) as [xs|err] eqn:Exs.
    2:{ injection HM as <- <-. destruct E as [k1 [me [ip [vals Hs1]]]]. exists k1, me, ip, vals. rewrite SG_same. exact Hs1. }
    destruct E as [k1 [m1 [r1 [Hs1 [Hm1 [Hsp1 [Hx1 [Hc1 Hi1]]]]]]]].
    assert (Hlen' : zlen xs = zlen args) by (unfold zlen; rewrite (seq_res_length _ _ _ Exs); reflexivity).
    assert (Hm1' : cur_mid v r1 = Good mid) by (rewrite (cur_mid_ctx v r r1 Hc1); exact Hm).
    assert (Hat : at_ip v r1 mid instr).
    { split; [|exact Hm1']. rewrite Hi1. destruct L4 as (_ & N & _). rewrite <- N4, N. exact Hi_call. }
    destruct (proj2 (proj2 Hbc) nm body mo fid Hb Hbody Hbf)
      as (morph & fid' & fr & s0 & sb & wb & flb & Ef & Hpar & Hloc & Hfr & Hwf0 & Hn0 & Hcomp & Hod & Hdis & Hacc & Hcode & Hdatb).
    rewrite Hbf in Ef. injection Ef as <- <-.
    destruct (Z.eqb_spec (ft_arity Bf nm) (zlen args)) as [Har|Near].
    2:{ (* the wrong number of arguments: CALL refuses *)
      injection HM as <- <-.
      exists (k1 + 1)%nat, m1, (r_ip r1), [VFun mo fid].
      rewrite steps_app, Hs1, steps_one.
      rewrite (step_call v mid m1 r1 rr instr _ _ _ _ _ _ Hat Hdi), (fetch_gbl v mid m1 (nds s4) nm Hname). cbn [obind].
      rewrite Hg, Hpar. unfold ar. change (Z.of_nat (List.length args)) with (zlen args).
      rewrite (proj2 (Z.eqb_neq _ _) Near). cbn [negb lift]. rewrite SG_same, Hc1. reflexivity. }
    destruct (lpure (repeat VNil (List.length args)) body) eqn:Hlp0; [|discriminate HM]. cbn [andb] in HM.
    destruct (Nat.leb (height body) n'); [|discriminate HM].
    assert (Har' : ft_arity Bf nm = ar) by (rewrite Har; reflexivity).
    rewrite Har' in Hpar, Hloc.
    assert (Hle1 : m_sp m1 <= zlen (m_stack m1)) by (destruct Hm1 as (_&_&_&_&_&B); lia).
    assert (Hax : ar = zlen xs) by (unfold ar; fold (zlen args); lia).
    destruct (call_enterN rr v mid m1 r1 instr (nds s4) nm mo fid fr ar (m_sp m) xs 0 0 Hat Hdi Hname Hg Hpar Hloc Hfr
                Hax (proj1 Hsp) ltac:(lia) Hle1 Hx1) as [mc [Hs2 [Hin [Hspc Hlec]]]].
    set (vb := vbump v) in *.
    set (r2 := with_ip (with_ip r1 (fn_node mo - 1)) (r_ip (with_ip r1 (fn_node mo - 1)) + 1)).
    assert (Hlp : lpure xs body = true).
    { rewrite (lpure_len xs (repeat VNil (List.length args)) body); [exact Hlp0|]. unfold zlen in *. rewrite repeat_length. lia. }
    pose proof (LExprCorrect.comp_lpure_spec xs body Hlp 0 flb s0 wb sb ltac:(lia) Hwf0 Hcomp) as SB.
    destruct SB as (codeb & Kb & Ab & Rb & Nb & _ & Wb & Eb & Okb & _ & NTb & XB).
    assert (NKb : Kb <> AddrTmp) by (apply NTb; assumption).
    specialize (Hcode codeb Rb).
    pose proof (code_at_nth v (ncs s0) codeb (Z.lor (New RET) wb) [] Hcode) as Hi_ret.
    apply code_at_app in Hcode. destruct Hcode as [Hcodeb _].
    assert (Hm2 : cur_mid vb r2 = Good mid).
    { change (cur_mid vb r2) with (cur_mid v r2). rewrite (cur_mid_ctx v r1 r2); [exact Hm1'|reflexivity]. }
    assert (Hip2 : r_ip r2 = ncs s0) by (unfold r2; cbn [with_ip r_ip]; lia).
    assert (Hlfr : LExprCorrect.lfr xs mc).
    { right. destruct Hin as (F & _ & _ & _ & _ & X0 & _).
      destruct (fp_at_app2 mc (m_fp m1) (m_sp m) (m_sp m + ar) F) as [F2 _].
      exists (m_sp m). split; [exact F2|]. split; [lia|]. split; [lia|]. exact X0. }
    pose proof (XB rr vb mid mc r2 Hcodeb Hdatb Hm2 ltac:(unfold zlen in *; lia) Hlfr Hip2) as EB.
    change (v_globals vb) with (v_globals v) in EB.
    destruct (lden xs (v_globals v) body) as [y|err].
    + destruct (is_fun y) eqn:Hnf; [discriminate HM|]. injection HM as <- <-.
      destruct EB as (m4 & r4 & Hs3 & Hm4 & Hc4 & Hi4 & _ & Ho4).
      destruct (LExprCorrect.fetch_opnd vb mid (m_sp mc) mc Kb Ab y m4 r4 Ho4 NKb Hm4) as (m4' & Hf4 & Hm4' & Hsp4').
      assert (Hin4 : in_frameN ar (m_sp m) (r_ip r1) fr (v_next v) xs m1 m4').
      { apply (in_frameN_msame ar (m_sp m) (r_ip r1) fr (v_next v) xs m1 mc m4' (m_sp mc) Hin Hm4'); [lia|lia|exact Hax]. }
      set (iret := Z.lor (New RET) wb) in *.
      assert (Hdr : decode iret = {| f_op := RET; f_k0 := Kb; f_k1 := 0; f_k2 := 0; f_a0 := Ab; f_a1 := 0; f_a2 := 0 |})
        by (apply (decode_op0 RET Kb Ab wb ret_range (LExprCorrect.okind_range Kb Okb) Eb)).
      assert (Hat4 : at_ip vb r4 mid iret).
      { split; [rewrite Hi4, Nb; exact Hi_ret|]. change (cur_mid vb r4) with (cur_mid v r4).
        rewrite (cur_mid_ctx v r1 r4); [exact Hm1'|]. rewrite Hc4. reflexivity. }
      assert (Hle4 : m_sp m4' <= zlen (m_stack m4')) by (destruct Hm4' as (_&_&_&_&_&B); lia).
      destruct (call_leaveN rr vb mid m1 m4 m4' r4 iret ar (m_sp m) (r_ip r1) fr (v_next v) xs y Kb Ab 0 0 0 0
                  Hat4 Hdr Hf4 Hin4 ltac:(unfold zlen in *; lia) (proj1 Hsp) ltac:(lia) Hle4 (not_fun_is_fun y Hnf))
        as [m5 [Hs4 (F5 & C5 & S5 & P5 & T5 & Hsp5 & Hle5 & Htop5)]].
      exists (k1 + (1 + (List.length codeb + 1)))%nat, m5, (with_ip (with_ip r4 (r_ip r1)) (r_ip r1 + 1)).
      rewrite steps_app, Hs1, steps_app, steps_one, Hs2. cbv beta iota. fold r2.
      rewrite steps_app, Hs3, steps_one, Hs4. cbv beta iota. conj.
      * reflexivity.
      * destruct Hm1 as (F1 & C1 & S1 & P1 & T1 & B1). unfold msame.
        split; [congruence|]. split; [congruence|]. split; [congruence|]. split; [exact (incl_tran P5 P1)|].
        split; [rewrite T5; exact T1|lia].
      * cbn [with_ip r_ctx]. rewrite Hc4. unfold r2. cbn [with_ip r_ctx]. exact Hc1.
      * cbn [with_ip r_ip emitted ncs s5 with_data]. destruct L4 as (_ & N & _). rewrite Hi1. lia.
      * destruct d; [unfold stack_effect; cbn; lia|].
        left. conj; [reflexivity|lia|exact Htop5].
    + injection HM as <- <-. destruct EB as (me & ipe & vals & Hs3).
      exists (k1 + (1 + List.length codeb))%nat, me, ipe, vals.
      rewrite steps_app, Hs1, steps_app, steps_one, Hs2. cbv beta iota. fold r2. rewrite Hs3.
      replace (r_ctx r2) with (r_ctx r) by (unfold r2; cbn [with_ip r_ctx]; congruence). reflexivity.
Qed.

(* every call with pure arguments, whatever the callee *)
Lemma call_specS nm args fl d sel s s' w :
  forallb pure args = true -> 0 <= sel <= 2 -> wfcs s -> withOpDepth 0 (pass fl) = tfl false ->
  comp (NCall (NName nm) args) sel fl s = COk (w, s') ->
  SpecS (NCall (NName nm) args) d sel s s' w.
Proof.
  intros Hp Hsel Hwf Hfl H. destruct args as [|e [|e2 rest]].
  - destruct (String.eqb nm "read") eqn:Er.
    + apply String.eqb_eq in Er. subst nm. exact (rcall_specS fl d sel s s' w Hsel Hwf H).
    + apply (callN_specS nm [] fl d sel s s' w Hp); try assumption; [intros e0 E0; discriminate E0|intros _; exact Er].
  - destruct (bop_of_name nm) as [b|] eqn:Eb.
    + cbn [forallb] in Hp. rewrite andb_true_r in Hp. exact (bcall_specS nm b e fl d sel s s' w Eb Hp Hsel Hwf Hfl H).
    + apply (callN_specS nm [e] fl d sel s s' w Hp); try assumption; [intros e0 _; exact Eb|intros E0; discriminate E0].
  - apply (callN_specS nm (e :: e2 :: rest) fl d sel s s' w Hp); try assumption; [intros e0 E0; discriminate E0|intros E0; discriminate E0].
Qed.

(* ================= g = nm(e), g = read() ================= *)
Lemma ssem_assign_call n W g e W' res :
  pure e = false ->
  ssem n W (NAssign (NName g) e) = Some (W', res) ->
  exists n', n = S n' /\
    match ssem n' W e with
    | Some (W1, Ok y) => if is_nil y then W' = W1 /\ res = Fail ErrNil
                         else W' = wglob W1 (sassoc_set (w_glob W1) g y) /\ res = Ok y
    | Some (W1, Fail err) => W' = W1 /\ res = Fail err
    | None => False
    end.
Proof.
  intros Hp. destruct n as [|n]; [discriminate|]. cbn [StmtSem.ssem]. rewrite Hp. intros H. exists n. split; [reflexivity|].
  destruct (ssem n W e) as [[W1 [y|err]]|]; [|injection H as <- <-; auto|discriminate H].
  destruct (is_nil y); injection H as <- <-; auto.
Qed.

Lemma assign_call_specS g e d sel s s' w :
  pure e = false -> is_inc g e = false ->
  (forall s0 w0 s1, wfcs s0 -> comp e 0 (withAcceptTemp true (pass (tfl d))) s0 = COk (w0, s1) -> SpecS e false 0 s0 s1 w0) ->
  0 <= sel <= 2 -> wfcs s ->
  comp (NAssign (NName g) e) sel (tfl d) s = COk (w, s') ->
  SpecS (NAssign (NName g) e) d sel s s' w.
Proof.
  intros Hp Hinc Hrhs Hsel Hwf H.
  rewrite comp_assign_unfold, Hinc in H.
  apply cbind_ok in H. destruct H as [we [s1 [He H]]].
  apply cbind_ok in H. destruct H as [w1 [s2 [Href H]]].
  cbn [comp_ref] in Href. apply cbind_ok in Href. destruct Href as [ix [s2' [Hds Href]]].
  apply add_ds_ok in Hds. destruct Hds as [-> ->]. apply enc_ok in Href. destruct Href as [-> Ew1].
  cbv zeta in H. apply cbind_ok in H. destruct H as [u0 [s3 [Hem Hres]]].
  apply emit_ok in Hem. subst s3. apply enc_ok in Hres. destruct Hres as [-> Ew].
  destruct (Hrhs s we s1 Hwf He) as [code [K [A (L1 & W1 & Ee & Sk & NT & X)]]].
  destruct (NT eq_refl) as [NTmp NInv].
  set (instr := Z.lor (Z.lor we w1) (New MOV)) in *.
  assert (Hdi : decode instr = {| f_op := MOV; f_k0 := K; f_k1 := AddrGbl; f_k2 := 0; f_a0 := A; f_a1 := nds s1; f_a2 := 0 |}).
  { unfold instr. replace (Z.lor (Z.lor we w1) (New MOV)) with (Z.lor (Z.lor (New MOV) w1) we).
    - apply (decode_op01 MOV K A AddrGbl (nds s1) we w1 mov_range (skind_range K Sk) gbl_range Ee Ew1).
    - rewrite (Z.lor_comm (Z.lor we w1)), (Z.lor_comm we w1), Z.lor_assoc. reflexivity. }
  assert (HS1 : Src1 instr = AddrGbl /\ Src1Addr instr = nds s1).
  { unfold decode in Hdi. injection Hdi as _ _ H1 _ _ H2 _. auto. }
  destruct HS1 as [HS1 HS1a]. rewrite HS1, HS1a in Ew.
  set (s2 := with_data s1 (VStr g)) in *.
  assert (W2 : wfcs s2).
  { destruct W1 as [A1 B1]. unfold wfcs, s2, with_data, zlen in *; cbn [rcs ncs rds nds List.length]. split; lia. }
  exists (code ++ [instr]), AddrGbl, (nds s1). conj.
  - apply lay_emit. destruct L1 as (R1 & N1 & [d1 D1]). unfold lay, s2, with_data; cbn [rcs ncs rds]. conj; try assumption.
    exists (VStr g :: d1). rewrite D1. reflexivity.
  - apply wfcs_emitted. exact W2.
  - exact Ew.
  - right. right. right. left. reflexivity.
  - intros _. split; discriminate.
  - intros n rr v mid m r W' res Hbc Hc Hdat Hm Hsp Hip HM.
    apply (ssem_assign_call _ _ _ _ _ _ Hp) in HM. destruct HM as [n' [-> HM]].
    pose proof (code_at_nth v (ncs s) code instr [] Hc) as Hi_mov.
    apply code_at_app in Hc. destruct Hc as [Hc _].
    assert (Hd1 : data_at v s1).
    { intros i y Hy. apply Hdat. cbn [emitted rds s2 with_data rev]. apply znth_app_l. exact Hy. }
    assert (Hname : znth (v_ds v) (nds s1) = Some (VStr g)).
    { apply Hdat. cbn [emitted rds s2 with_data]. rewrite (proj2 W1). apply znth_rev_cons. }
    destruct (ssem n' (wof v) e) as [[Wa [y|err]]|] eqn:Ee1; [| |contradiction].
    + pose proof (X n' rr v mid m r Wa (Ok y) Hbc Hc Hd1 Hm Hsp Hip Ee1) as E. cbn beta iota in E.
      destruct E as [k1 [m1 [r1 [Hs [Hm1 [Hc1 [Hi1 Ho]]]]]]].
      set (v1 := set_world v Wa) in *.
      assert (Hat : at_ip v1 r1 mid instr).
      { split; [change (v_cs v1) with (v_cs v); rewrite Hi1; destruct L1 as (_ & N & _); rewrite N; exact Hi_mov|].
        change (cur_mid v1 r1) with (cur_mid v r1). rewrite (cur_mid_ctx v r r1 Hc1). exact Hm. }
      destruct (fetch_opnd v1 mid (m_sp m) m K A y m1 r1 Ho NTmp Hm1) as [m2 [Hf [Hm2 Hsp2]]].
      assert (Hsrc : (if K =? AddrTmp then Good (St v1 mid m1, r_tmp r1) else fetch (St v1 mid m1) mid K A) = Good (St v1 mid m2, y)).
      { rewrite (proj2 (Z.eqb_neq K AddrTmp) NTmp). exact Hf. }
      pose proof (step_mov_gbl v1 mid m1 r1 rr instr K A (nds s1) 0 0 _ y g Hat Hdi Hsrc Hname) as Hstep.
      change (v_globals (St v1 mid m2)) with (w_glob Wa) in Hstep.
      destruct (is_nil y) eqn:Hnil.
      * destruct HM as [-> ->]. exists (k1 + 1)%nat, m2, (r_ip r1), [y].
        rewrite steps_app, Hs. unfold SG. fold v1. rewrite steps_one, Hstep. rewrite Hc1. reflexivity.
      * destruct HM as [-> ->].
        exists (k1 + 1)%nat, m2, (with_ip r1 (r_ip r1 + 1)).
        rewrite steps_app, Hs. unfold SG. fold v1. rewrite steps_one, Hstep. conj.
        -- unfold v1. destruct Wa; reflexivity.
        -- exact Hm2.
        -- cbn [with_ip r_ctx]. exact Hc1.
        -- cbn [with_ip r_ip emitted ncs s2 with_data]. lia.
        -- destruct d; [unfold stack_effect; cbn; lia|].
           right. right. right. conj; [reflexivity|exact Hsp2|]. exists g. split; [exact Hname|].
           cbn [set_world v_globals wglob w_glob]. symmetry. apply gval_set_same.
    + destruct HM as [-> ->]. exact (X n' rr v mid m r Wa (Fail err) Hbc Hc Hd1 Hm Hsp Hip Ee1).
Qed.

(* ================= every statement ================= *)
Section WInd.
  Variable Q : node -> Prop.
  Hypothesis HPure : forall t, pure t = true -> Q t.
  Hypothesis HAssign : forall g e, pure e = true -> Q (NAssign (NName g) e).
  Hypothesis HAssignCall : forall g e, pure e = false -> is_bcall e = true -> Q e -> Q (NAssign (NName g) e).
  Hypothesis HBlock : forall l, l <> [] -> forallb wstmt l = true -> Forall Q l -> Q (NBlock l).
  Hypothesis HIf : forall c b, pure c = true -> wstmt b = true -> Q b -> Q (NIf c b).
  Hypothesis HIfElse : forall c a b, pure c = true -> wstmt a = true -> wstmt b = true -> Q a -> Q b -> Q (NIfElse c a b).
  Hypothesis HWhile : forall c b, pure c = true -> wstmt b = true -> Q b -> Q (NWhile c b).
  Hypothesis HWrite : forall e, pure e = true -> Q (NWrite e).
  Hypothesis HCall : forall nm args, forallb pure args = true -> Q (NCall (NName nm) args).

  Fixpoint wstmt_induction (t : node) : wstmt t = true -> Q t.
  Proof.
    destruct t; intros Hw; try (apply HPure; exact Hw); try discriminate Hw; cbn [wstmt] in Hw.
    - apply andb_prop in Hw. destruct Hw as [Hc Hb]. apply (HIf t1 t2 Hc Hb). apply wstmt_induction. exact Hb.
    - apply andb_prop in Hw. destruct Hw as [Hw Hb]. apply andb_prop in Hw. destruct Hw as [Hc Ha].
      apply (HIfElse t1 t2 t3 Hc Ha Hb); apply wstmt_induction; assumption.
    - apply andb_prop in Hw. destruct Hw as [Hc Hb]. apply (HWhile t1 t2 Hc Hb). apply wstmt_induction. exact Hb.
    - destruct t1; try discriminate Hw. unfold assign_ok in Hw. destruct (pure t2) eqn:Hp2.
      + apply HAssign. exact Hp2.
      + cbn [orb] in Hw. apply (HAssignCall _ _ Hp2 Hw). apply wstmt_induction.
        destruct t2; try discriminate Hw. exact Hw.
    - assert (Hall : forallb wstmt l = true) by (destruct l; [discriminate Hw|exact Hw]).
      apply HBlock; [destruct l; [discriminate Hw|discriminate]|exact Hall|].
      clear Hw. induction l as [|x r IHr]; [constructor|].
      cbn [forallb] in Hall. apply andb_prop in Hall. destruct Hall as [Hx Hr].
      constructor; [apply wstmt_induction; exact Hx|apply IHr; exact Hr].
    - cbn [is_bcall] in Hw. destruct t; try discriminate Hw. exact (HCall n args Hw).
    - apply HWrite. exact Hw.
  Defined.
End WInd.

Theorem comp_stmt : forall t, wstmt t = true -> compiles_stmt t.
Proof.
  apply (wstmt_induction compiles_stmt).
  - intros t Hp d sel s w s' -> Hwf H. apply (pure_specS t d 0 s s' w Hp ltac:(lia) Hwf H).
  - intros g e Hok d sel s w s' -> Hwf H. apply (assign_specS g e d 0 s s' w Hok ltac:(lia) Hwf H).
  - intros g e Hp Hbc _ d sel s w s' -> Hwf H.
    apply (assign_call_specS g e d 0 s s' w Hp); try assumption; try lia.
    + destruct e; try discriminate Hbc; reflexivity.
    + intros s0 w0 s1 Hwf0 H0. destruct e; try discriminate Hbc. destruct e; try discriminate Hbc.
      cbn [is_bcall] in Hbc. apply (call_specS n args _ false 0 s0 s1 w0 Hbc ltac:(lia) Hwf0 eq_refl H0).
  - intros l Hne _ HF d sel s w s' Hsel Hwf H. rewrite comp_block_unfold in H.
    apply (block_specS d sel Hsel l Hne HF 0 s w s' Hwf H).
  - intros c b Hc _ Hb d sel s w s' -> Hwf H. destruct d.
    + apply (if_discard_specS c b 0 s s' w ltac:(lia) Hc Hb Hwf H).
    + apply (if_value_specS c b 0 s s' w ltac:(lia) Hc Hb Hwf H).
  - intros c a b Hc _ _ Ha Hb d sel s w s' -> Hwf H.
    apply (ifelse_specS c a b d 0 s s' w ltac:(lia) Hc Ha Hb Hwf H).
  - intros c b Hc _ Hb d sel s w s' -> Hwf H. destruct d.
    + apply (while_discard_specS c b 0 s s' w ltac:(lia) Hc Hb Hwf H).
    + apply (while_value_specS c b s s' w Hc Hb Hwf H).
  - intros e Hp d sel s w s' -> Hwf H. apply (write_specS e d 0 s s' w Hp ltac:(lia) Hwf H).
  - intros nm args Hp d sel s w s' -> Hwf H. apply (call_specS nm args _ d 0 s s' w Hp ltac:(lia) Hwf eq_refl H).
Qed.
End WithB.
