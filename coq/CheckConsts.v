(* CheckConsts.v — the constants and tables the models use are the ones the
   source has now (GenConsts.v is regenerated from /repo on every run). *)
Require Import Calc.Base Calc.Bytecode Calc.Value Calc.FloatText Calc.Ast Calc.Compile Calc.VM Calc.Lexer Calc.Grammar Calc.GenConsts.
Open Scope Z_scope.

Example layout_constants :
  (OpcodeHi, OpcodeLo, Src2Hi, Src2Lo, Src1Hi, Src1Lo, Src0Hi, Src0Lo, Src2AddrHi, Src2AddrLo, Src1AddrHi, Src1AddrLo,
   Src0AddrHi, Src0AddrLo, SrcChanWidth, TempFlag)
  = (g_OpcodeHi, g_OpcodeLo, g_Src2Hi, g_Src2Lo, g_Src1Hi, g_Src1Lo, g_Src0Hi, g_Src0Lo, g_Src2AddrHi, g_Src2AddrLo,
     g_Src1AddrHi, g_Src1AddrLo, g_Src0AddrHi, g_Src0AddrLo, g_SrcChanWidth, g_TempFlag).
Proof. reflexivity. Qed.

Example address_kinds :
  (AddrInv, AddrImm, AddrGbl, AddrLcl, AddrCls, AddrStck, AddrTmp, AddrDS)
  = (g_AddrInv, g_AddrImm, g_AddrGbl, g_AddrLcl, g_AddrCls, g_AddrStck, g_AddrTmp, g_AddrDS).
Proof. reflexivity. Qed.

Example opcodes :
  [NOP; PUSH; POP; MOV; ADD; SUB; MUL; DIV; MOD; INC; NOT; AND; OR; LT; GT; LE; GE; EQ; NE; LSH; RSH; FLIP; IX1; IX2; LEN; ARR;
   JMP; JMPF; JMPT; FUNC; CALL; RET; CCONT; DCONT; RCONT; SCONT; YIELD; READ; WRITE; ATON; TOA; EXIT;
   PUSH + TempFlag; ADD + TempFlag; SUB + TempFlag]
  = [g_NOP; g_PUSH; g_POP; g_MOV; g_ADD; g_SUB; g_MUL; g_DIV; g_MOD; g_INC; g_NOT; g_AND; g_OR; g_LT; g_GT; g_LE; g_GE; g_EQ;
     g_NE; g_LSH; g_RSH; g_FLIP; g_IX1; g_IX2; g_LEN; g_ARR; g_JMP; g_JMPF; g_JMPT; g_FUNC; g_CALL; g_RET; g_CCONT; g_DCONT;
     g_RCONT; g_SCONT; g_YIELD; g_READ; g_WRITE; g_ATON; g_TOA; g_EXIT; g_PUSHTMP; g_ADDTMP; g_SUBTMP].
Proof. reflexivity. Qed.

Example compiler_and_memory_constants :
  (tempifyDepth, minStackSize) = (g_tempifyDepth, g_minStackSize) /\ (g_localFE, g_localFP) = (-1, -2).
Proof. split; reflexivity. Qed.

Example lexer_character_classes : (stickyChars, nonStickyChars) = (g_stickyChars, g_nonStickyChars).
Proof. reflexivity. Qed.

Example grammar_tables :
  keywords = g_keywords /\ [level_ops 0; level_ops 1; level_ops 2; level_ops 3; level_ops 4] = g_level_ops /\ unary_ops = g_unary_ops.
Proof. repeat split; reflexivity. Qed.

(* every operator the grammar accepts is one the token wrapper turns into an operator node *)
Example grammar_operators_are_wrapped :
  forallb (fun o => str_in o g_ops) (List.concat g_level_ops ++ g_unary_ops ++ [":"%string]) = true.
Proof. reflexivity. Qed.

(* the operator -> opcode switch of BinOp.byteCode *)
Example operator_opcodes :
  forallb (fun p => match binop_opcode (fst p) with Some c => c =? snd p | None => false end) g_binops = true /\
  forallb (fun o => match binop_opcode o with Some _ => str_in o (map fst g_binops) | None => true end)
          (List.concat g_level_ops) = true.
Proof. split; reflexivity. Qed.
