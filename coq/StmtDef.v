(* StmtDef.v — a definition  f = (p1, .., pk) -> body  with a pure-expression body, compiled and run at
   top level: the jump over the body, FUNC (a fresh entry of the frame table, no captured frame at top
   level), the assignment.  It binds f to a function value for which the premise of the call theorems
   (is_ufun) holds: the body's code lies at its entry point. *)
Require Import Calc.Sem.
Require Import Calc.Base Calc.Bytecode Calc.BytecodeProofs Calc.Value Calc.FloatText Calc.Ast Calc.Resolve Calc.Compile Calc.VM
        Calc.MemProofs Calc.Session Calc.CompileWf Calc.CompileLoops
        Calc.ExprSem Calc.ExprVM Calc.ExprCorrect Calc.ExprTop Calc.ExprAssign Calc.ExprLen Calc.ExprSession
        Calc.LExprSem Calc.StmtSem Calc.StmtVM Calc.CallVM Calc.StmtCorrect Calc.StmtTop.
Require Calc.LExprCorrect.
Require Import Lia.
Open Scope Z_scope.

Definition body_fl (fl : flags) : flags :=
  withReturning true (withInFunc true (withOpDepth 0 (withForbidTemp false (withInFor false (pass fl))))).

Lemma comp_function_unfold params body localcnt srcsel fl :
  comp (NFunction params body localcnt) srcsel fl =
  (jmpAddr <- here ;;
   emit (New JMP) ;;;
   bodyAddr <- here ;;
   b <- comp body 0 (body_fl fl) ;;
   (if negb (Src0 b =? AddrInv) then emit (Z.lor (New RET) b) else cret tt) ;;;
   (if localcnt >=? 65536 then (fun _ => CRange) else cret tt) ;;;
   ix <- add_ds (VFun (pack_function bodyAddr (Z.of_nat (List.length params)) localcnt) (-1)) ;;
   funcAddr <- here ;;
   w <- enc 0 AddrDS ix ;;
   emit (Z.lor (New FUNC) w) ;;;
   wj <- enc 0 AddrImm (funcAddr - jmpAddr) ;;
   patch jmpAddr wj ;;;
   enc srcsel AddrStck 0).
Proof. reflexivity. Qed.

(* the machine with one more entry in the frame table *)
Definition vdef (v : vm) : vm := fst (add_frame v FNone).

Lemma add_frame_St v mid m : add_frame (St v mid m) FNone = (St (vdef v) mid m, v_next v).
Proof. reflexivity. Qed.

Lemma step_func v mid m r rr instr k0 k1 k2 a0 a1 a2 morph old :
  at_ip v r mid instr ->
  decode instr = {| f_op := FUNC; f_k0 := k0; f_k1 := k1; f_k2 := k2; f_a0 := a0; f_a1 := a1; f_a2 := a2 |} ->
  fetch (St v mid m) mid k0 a0 = Good (St v mid m, VFun morph old) -> m_fp m = [] ->
  step (St v mid m) r rr =
  lift (v2 <~ vPush (St (vdef v) mid m) mid (VFun morph (v_next v)) ;; Good (next v2 r)).
Proof.
  intros [Hi Hc] Hd Hf Hfp. unfold decode in Hd. injection Hd as Eop E0 E1 E2 Ea0 Ea1 Ea2.
  unfold step. change (v_cs (St v mid m)) with (v_cs v). rewrite Hi. cbn [req obind].
  rewrite cur_mid_St, Hc. cbn [obind]. rewrite Eop, E0, Ea0.
  change (FUNC =? RET) with false.
  repeat match goal with |- context [FUNC =? ?c] => first [change (FUNC =? c) with false | change (FUNC =? c) with true] end.
  cbv iota. rewrite Hf. cbn [obind]. rewrite St_get. cbn [obind]. rewrite Hfp.
  change (zlen (@nil Z) <? 1) with true. cbv iota. rewrite St_St, add_frame_St. reflexivity.
Qed.

Definition flbody : flags := body_fl (withAcceptTemp true (pass (pass fl0))).

Lemma okind5_range K : LExprCorrect.okind K -> 0 <= K < 8 /\ K <> AddrInv.
Proof. unfold LExprCorrect.okind, AddrStck, AddrTmp, AddrDS, AddrGbl, AddrLcl, AddrInv. lia. Qed.

Lemma jmp_range : 0 <= JMP < 128. Proof. unfold JMP. lia. Qed.
Lemma func_range : 0 <= FUNC < 128. Proof. unfold FUNC. lia. Qed.
Lemma ret_range : 0 <= RET < 128. Proof. unfold RET. lia. Qed.

Lemma lay_with_data s s1 C x : lay s s1 C -> lay s (with_data s1 x) C.
Proof.
  intros (R & N & [d D]). unfold lay, with_data; cbn [rcs ncs rds]. conj; try assumption.
  exists (x :: d). rewrite D. reflexivity.
Qed.

Lemma wfcs_with_data s x : wfcs s -> wfcs (with_data s x).
Proof. intros [A B]. unfold wfcs, with_data, zlen in *; cbn [rcs ncs rds nds List.length]. split; lia. Qed.

Theorem bytecode_run_def f ps body lc s s' v c m fuel :
  lpure (repeat VNil (List.length ps)) body = true -> lc = Z.of_nat (List.length ps) ->
  wfcs s -> idle v s c m -> m_fp m = [] -> ncs s + 1 < 4294967296 ->
  ByteCode (NAssign (NName f) (NFunction ps body lc)) s = CompOk s' ->
  (4 < fuel)%nat ->
  wfcs s' /\
  exists v' c' m',
    let fv := VFun (pack_function (ncs s + 1) lc lc) (v_next v) in
    Run fuel (load_code v s') true = (v', RValue fv) /\
    idle v' s' c' m' /\ c_mid c' = c_mid c /\ c_children c' = c_children c /\
    m_sp m' = m_sp m /\ msame (m_sp m) m m' /\
    v_globals v' = sassoc_set (v_globals v) f fv /\
    v_frames v' = (v_next v, FNone) :: v_frames v /\ v_next v' = v_next v + 1 /\
    v_out v' = v_out v /\ v_in v' = v_in v /\
    v_cs v' = rev (rcs s') /\ v_ds v' = rev (rds s') /\
    (exists code, lay s s' code) /\
    is_ufun lc v' body fv.
Proof.
  intros Hp Hlc Hwf [Hctx Hip Hmem Hsp] Hfp Hbig HB Hfuel.
  unfold ByteCode in HB.
  destruct ((instr <- comp (NAssign (NName f) (NFunction ps body lc)) 0 (pass fl0);;
             (if negb (Src0 instr =? AddrStck) then emit (Z.lor instr (New PUSH)) else cret tt)) s)
    as [[u sfin]| |] eqn:HC; try discriminate HB. injection HB as <-.
  apply cbind_ok in HC. destruct HC as [wres [s3 [Hcomp Hfin]]].
  rewrite comp_assign_unfold in Hcomp. change (is_inc f (NFunction ps body lc)) with false in Hcomp. cbv iota in Hcomp.
  apply cbind_ok in Hcomp. destruct Hcomp as [we [s1 [He Hcomp]]].
  rewrite comp_function_unfold in He.
  apply cbind_ok in He. destruct He as [ja [sx [Hh He]]]. apply here_ok in Hh. destruct Hh as [-> ->].
  apply cbind_ok in He. destruct He as [u1 [sj [Hem He]]]. apply emit_ok in Hem. subst sj.
  apply cbind_ok in He. destruct He as [ba [sx [Hh He]]]. apply here_ok in Hh. destruct Hh as [-> ->].
  apply cbind_ok in He. destruct He as [wb [sb [Hb He]]].
  fold flbody in Hb.
  set (s0 := emitted s (New JMP)) in *.
  assert (W0 : wfcs s0) by (apply wfcs_emitted; exact Hwf).
  pose proof Hb as Hb0.
  apply (LExprCorrect.comp_lpure_spec (repeat VNil (List.length ps)) body Hp 0 flbody s0 wb sb ltac:(lia) W0) in Hb.
  apply (LExprCorrect.SpecD_lay (repeat VNil (List.length ps))) in Hb.
  destruct Hb as [bc [Kb [Ab (Lb & Wb & Eb & Okb & _ & Xb & _)]]].
  destruct (okind5_range Kb Okb) as [Rkb Ninv].
  destruct (enc_src0 Kb Ab wb Rkb Eb) as [S0b S0ab].
  rewrite S0b in He. rewrite (proj2 (Z.eqb_neq Kb AddrInv) Ninv) in He. cbn [negb] in He.
  apply cbind_ok in He. destruct He as [u2 [sr [Hem He]]]. apply emit_ok in Hem. subst sr.
  apply cbind_ok in He. destruct He as [u3 [sx [Hr He]]].
  destruct (lc >=? 65536) eqn:Elc; [discriminate Hr|]. apply cret_ok in Hr. destruct Hr as [_ ->].
  apply cbind_ok in He. destruct He as [ix [sd [Hds He]]]. apply add_ds_ok in Hds. destruct Hds as [-> ->].
  apply cbind_ok in He. destruct He as [fa [sx [Hh He]]]. apply here_ok in Hh. destruct Hh as [-> ->].
  apply cbind_ok in He. destruct He as [wf [sx [Hw He]]]. apply enc_ok in Hw. destruct Hw as [-> Ewf].
  apply cbind_ok in He. destruct He as [u4 [sf [Hem He]]]. apply emit_ok in Hem. subst sf.
  apply cbind_ok in He. destruct He as [wj [sx [Hw He]]]. apply enc_ok in Hw. destruct Hw as [-> Ewj].
  apply cbind_ok in He. destruct He as [u5 [sp [Hpatch He]]].
  apply enc_ok in He. destruct He as [-> Ewe].
  set (a := Z.of_nat (List.length ps)) in *.
  set (ret := Z.lor (New RET) wb) in *.
  set (morph := pack_function (ncs s0) a lc) in *.
  set (func := Z.lor (New FUNC) wf) in *.
  set (sd := with_data (emitted sb ret) (VFun morph (-1))) in *.
  assert (L4 : lay s (emitted sd func) ([] ++ New JMP :: (bc ++ [ret]) ++ [func])).
  { cbn [app]. change (New JMP :: (bc ++ [ret]) ++ [func]) with ([New JMP] ++ (bc ++ [ret]) ++ [func]).
    rewrite app_assoc. apply lay_emit. apply lay_with_data.
    apply (lay_trans s s0 _ [New JMP] (bc ++ [ret])).
    - apply (lay_emit s s [] (New JMP)). apply lay_refl.
    - apply lay_emit. exact Lb. }
  replace (ncs s) with (ncs s + zlen (@nil Z)) in Hpatch at 1 by (unfold zlen; cbn; lia).
  destruct (patch_lay s _ [] (New JMP) ((bc ++ [ret]) ++ [func]) wj u5 sp L4 Hwf Hpatch) as (Lp & Dp & NDp & Np).
  cbn [app] in Lp.
  set (jmp := Z.lor (New JMP) wj) in *.
  cbn [comp_ref] in Hcomp.
  apply cbind_ok in Hcomp. destruct Hcomp as [w [s2 [Href Hcomp]]].
  apply cbind_ok in Href. destruct Href as [ix [s2' [Hds Href]]].
  apply add_ds_ok in Hds. destruct Hds as [-> ->]. apply enc_ok in Href. destruct Href as [-> Ew].
  cbv zeta in Hcomp. apply cbind_ok in Hcomp. destruct Hcomp as [u0 [s3' [Hem Hres]]].
  apply emit_ok in Hem. subst s3'. apply enc_ok in Hres. destruct Hres as [-> Ewres].
  set (mov := Z.lor (Z.lor we w) (New MOV)) in *.
  assert (Hdm : decode mov = {| f_op := MOV; f_k0 := AddrStck; f_k1 := AddrGbl; f_k2 := 0; f_a0 := 0; f_a1 := nds sp; f_a2 := 0 |}).
  { unfold mov. replace (Z.lor (Z.lor we w) (New MOV)) with (Z.lor (Z.lor (New MOV) w) we).
    - apply (decode_op01 MOV AddrStck 0 AddrGbl (nds sp) we w mov_range stck_range gbl_range Ewe Ew).
    - rewrite (Z.lor_comm (Z.lor we w)), (Z.lor_comm we w), Z.lor_assoc. reflexivity. }
  assert (HS1 : Src1 mov = AddrGbl /\ Src1Addr mov = nds sp).
  { unfold decode in Hdm. injection Hdm as _ _ H1 _ _ H2 _. auto. }
  destruct HS1 as [HS1 HS1a]. rewrite HS1, HS1a in Ewres.
  destruct (enc_src0 AddrGbl (nds sp) wres gbl_range Ewres) as [S0 S0a]. rewrite S0 in Hfin.
  change (negb (AddrGbl =? AddrStck)) with true in Hfin. cbv iota in Hfin.
  apply emit_ok in Hfin. subst sfin.
  set (push := Z.lor wres (New PUSH)) in *.
  assert (Hdp : decode push = {| f_op := PUSH; f_k0 := AddrGbl; f_k1 := 0; f_k2 := 0; f_a0 := nds sp; f_a1 := 0; f_a2 := 0 |}).
  { unfold push. rewrite Z.lor_comm. apply (decode_op0 PUSH AddrGbl (nds sp) wres ltac:(unfold PUSH; lia) gbl_range Ewres). }
  assert (Wp : wfcs sp).
  { apply (lay_wfcs s sp _ Lp Hwf). rewrite NDp, Dp. destruct Wb as [_ Wd].
    unfold sd, with_data, emitted, zlen in *; cbn [nds rds List.length]. lia. }
  set (s2 := with_data sp (VStr f)) in *.
  set (sfin := emitted (emitted s2 mov) push) in *.
  assert (W2 : wfcs s2) by (apply wfcs_with_data; exact Wp).
  assert (Wfin : wfcs sfin) by (unfold sfin; apply wfcs_emitted; apply wfcs_emitted; exact W2).
  split; [exact Wfin|].
  set (whole := ((jmp :: (bc ++ [ret]) ++ [func]) ++ [mov]) ++ [push]).
  assert (Lfin : lay s sfin whole).
  { unfold sfin, whole. apply lay_emit. apply lay_emit. apply lay_with_data. exact Lp. }
  set (v1 := load_code v sfin).
  set (r0 := {| r_ctx := 0; r_ip := c_ip c; r_tmp := VNil |}).
  assert (Hrun : Run fuel v1 true = run_loop fuel v1 r0 true).
  { unfold Run. change (v_ctxs v1) with (v_ctxs v). rewrite Hctx. reflexivity. }
  assert (Hmid : cur_mid v1 r0 = Good (c_mid c)).
  { unfold cur_mid, get_ctx. change (v_ctxs v1) with (v_ctxs v). cbn [r0 r_ctx]. rewrite Hctx. reflexivity. }
  assert (Hself : St v1 (c_mid c) m = v1) by (apply St_self; exact Hmem).
  assert (Hncs : v_ncs v1 = zlen (v_cs v1)).
  { cbn [v1 load_code v_ncs v_cs]. unfold zlen. rewrite rev_length. exact (proj1 Wfin). }
  pose proof (code_at_loaded v s sfin _ Hwf (proj1 Lfin)) as Hc. fold v1 in Hc.
  assert (Nb : ncs sb = ncs s + 1 + zlen bc).
  { destruct Lb as (_ & N & _). rewrite N. unfold s0, emitted; cbn [ncs]. reflexivity. }
  assert (Nsd : ncs sd = ncs s + 1 + zlen bc + 1) by (unfold sd, with_data, emitted; cbn [ncs]; lia).
  (* the instructions in place *)
  assert (Hi_jmp : znth (v_cs v1) (ncs s) = Some jmp).
  { pose proof (code_at_nth v1 (ncs s) [] jmp (((bc ++ [ret]) ++ [func]) ++ [mov] ++ [push])) as H.
    unfold zlen in H. cbn [List.length] in H. rewrite Z.add_0_r in H. apply H.
    unfold whole in Hc. cbn [app]. cbn [app] in Hc. rewrite <- !app_assoc in Hc. rewrite <- !app_assoc. exact Hc. }
  assert (Hi_func : znth (v_cs v1) (ncs sd) = Some func).
  { pose proof (code_at_nth v1 (ncs s) (jmp :: bc ++ [ret]) func ([mov] ++ [push])) as H.
    unfold zlen in H. cbn [List.length] in H. rewrite app_length in H. cbn [List.length] in H.
    rewrite Nsd. unfold zlen. replace (ncs s + 1 + Z.of_nat (List.length bc) + 1) with (ncs s + Z.of_nat (S (List.length bc + 1))) by lia.
    apply H. unfold whole in Hc. cbn [app]. cbn [app] in Hc. rewrite <- !app_assoc in Hc. rewrite <- !app_assoc. exact Hc. }
  assert (Hi_mov : znth (v_cs v1) (ncs sd + 1) = Some mov).
  { pose proof (code_at_nth v1 (ncs s) (jmp :: (bc ++ [ret]) ++ [func]) mov [push]) as H.
    unfold zlen in H. cbn [List.length] in H. rewrite !app_length in H. cbn [List.length] in H.
    rewrite Nsd. unfold zlen. replace (ncs s + 1 + Z.of_nat (List.length bc) + 1 + 1) with (ncs s + Z.of_nat (S (List.length bc + 1 + 1))) by lia.
    apply H. unfold whole in Hc. rewrite <- app_assoc in Hc. exact Hc. }
  assert (Hi_push : znth (v_cs v1) (ncs sd + 2) = Some push).
  { pose proof (code_at_nth v1 (ncs s) ((jmp :: (bc ++ [ret]) ++ [func]) ++ [mov]) push []) as H.
    unfold zlen in H. rewrite ?app_length in H; cbn [List.length] in H; rewrite ?app_length in H; cbn [List.length] in H.
    rewrite Nsd. unfold zlen. replace (ncs s + 1 + Z.of_nat (List.length bc) + 1 + 2) with (ncs s + Z.of_nat (S (List.length bc + 1 + 1) + 1)) by lia.
    apply H. exact Hc. }
  assert (Hds1 : v_ds v1 = (rev (rds sb) ++ [VFun morph (-1)]) ++ [VStr f]).
  { cbn [v1 load_code v_ds sfin emitted rds s2 with_data]. rewrite Dp. cbn [emitted sd with_data rds]. reflexivity. }
  assert (Hfun_ds : znth (v_ds v1) (nds (emitted sb ret)) = Some (VFun morph (-1))).
  { rewrite Hds1. apply znth_app_l. cbn [emitted nds]. rewrite (proj2 Wb).
    exact (znth_rev_cons (rds sb) (VFun morph (-1))). }
  assert (Hname : znth (v_ds v1) (nds sp) = Some (VStr f)).
  { cbn [v1 load_code v_ds sfin emitted rds s2 with_data]. rewrite (proj2 Wp). apply znth_rev_cons. }
  set (mid := c_mid c) in *.
  (* 1: the jump over the body *)
  assert (Hdj : decode jmp = {| f_op := JMP; f_k0 := AddrImm; f_k1 := 0; f_k2 := 0; f_a0 := ncs sd - ncs s; f_a1 := 0; f_a2 := 0 |}).
  { unfold jmp. apply (decode_op0 JMP AddrImm _ wj jmp_range imm_range Ewj). }
  assert (Hat0 : at_ip v1 r0 mid jmp) by (split; [cbn [r0 r_ip]; rewrite Hip; exact Hi_jmp|exact Hmid]).
  set (r1 := {| r_ctx := 0; r_ip := ncs sd; r_tmp := VNil |}).
  assert (S1 : steps true 1 (St v1 mid m) r0 = SNext (St v1 mid m) r1).
  { rewrite steps_one, (step_jmp v1 mid m r0 true jmp _ _ _ _ _ _ Hat0 Hdj). unfold with_ip, r1; cbn [r_ctx r_ip r_tmp r0].
    f_equal. f_equal. rewrite Hip. lia. }
  (* 2: FUNC *)
  assert (Hdf : decode func = {| f_op := FUNC; f_k0 := AddrDS; f_k1 := 0; f_k2 := 0; f_a0 := nds (emitted sb ret); f_a1 := 0; f_a2 := 0 |}).
  { unfold func. apply (decode_op0 FUNC AddrDS _ wf func_range ds_range Ewf). }
  assert (Hmid1 : forall ip t, cur_mid v1 {| r_ctx := 0; r_ip := ip; r_tmp := t |} = Good mid).
  { intros ip t. unfold cur_mid, get_ctx. change (v_ctxs v1) with (v_ctxs v). cbn [r_ctx]. rewrite Hctx. reflexivity. }
  assert (Hat1 : at_ip v1 r1 mid func) by (split; [exact Hi_func|apply Hmid1]).
  set (fv := VFun morph (v_next v)).
  destruct (vPush_St (vdef v1) mid m fv Hsp) as [m2 (Hpush & Hm2 & Hsp2 & Hx2)].
  set (r2 := {| r_ctx := 0; r_ip := ncs sd + 1; r_tmp := VNil |}).
  assert (S2 : steps true 1 (St v1 mid m) r1 = SNext (St (vdef v1) mid m2) r2).
  { rewrite steps_one, (step_func v1 mid m r1 true func _ _ _ _ _ _ morph (-1) Hat1 Hdf (fetch_ds v1 mid m _ _ Hfun_ds) Hfp).
    change (v_next v1) with (v_next v). fold fv. rewrite Hpush. reflexivity. }
  (* 3: MOV of the function value to the global *)
  set (v2 := vdef v1).
  assert (Hmid2 : forall w ip t, v_ctxs w = v_ctxs v -> cur_mid w {| r_ctx := 0; r_ip := ip; r_tmp := t |} = Good mid).
  { intros w0 ip t E. unfold cur_mid, get_ctx. rewrite E. cbn [r_ctx]. rewrite Hctx. reflexivity. }
  assert (Hat2 : at_ip v2 r2 mid mov) by (split; [exact Hi_mov|apply Hmid2; reflexivity]).
  assert (Hsrc : (if AddrStck =? AddrTmp then Good (St v2 mid m2, r_tmp r2) else fetch (St v2 mid m2) mid AddrStck 0)
                 = Good (St v2 mid (mdrop m2), fv)).
  { change (AddrStck =? AddrTmp) with false. cbv iota. apply fetch_stck. rewrite Hsp2.
    replace (m_sp m + 1 - 1) with (m_sp m) by lia. exact Hx2. }
  set (G' := sassoc_set (v_globals v) f fv).
  set (v3 := set_globals v2 G').
  set (r3 := {| r_ctx := 0; r_ip := ncs sd + 2; r_tmp := VNil |}).
  assert (S3 : steps true 1 (St v2 mid m2) r2 = SNext (St v3 mid (mdrop m2)) r3).
  { rewrite steps_one, (step_mov_gbl v2 mid m2 r2 true mov AddrStck 0 (nds sp) 0 0 _ fv f Hat2 Hdm Hsrc Hname).
    change (is_nil fv) with false. cbv iota. unfold with_ip, r3; cbn [r_ctx r_ip r_tmp r2].
    f_equal. f_equal. lia. }
  (* 4: the statement's value *)
  assert (Hat3 : at_ip v3 r3 mid push) by (split; [exact Hi_push|apply Hmid2; reflexivity]).
  assert (Hm2' : msame (m_sp m) m (mdrop m2)) by (apply mdrop_msame; [exact Hm2|lia]).
  assert (Ho3 : opnd v3 (m_sp m) AddrGbl (nds sp) fv (mdrop m2) r3).
  { right. right. right. conj; [reflexivity|unfold mdrop, with_stack; cbn [m_sp]; lia|].
    exists f. split; [exact Hname|]. change (v_globals v3) with G'. unfold G'. symmetry. apply gval_set_same. }
  destruct (exec_push true v3 mid push AddrGbl (nds sp) _ _ _ _ (m_sp m) m (mdrop m2) r3 fv Hat3 Hdp (proj1 Hsp) Ho3
                      ltac:(discriminate) Hm2') as [m3 [S4 [Hm3 [Hsp3 Hx3]]]].
  set (r4 := with_ip r3 (r_ip r3 + 1)) in *.
  assert (S : steps true 4 v1 r0 = SNext (St v3 mid m3) r4).
  { rewrite <- Hself. change 4%nat with (1 + (1 + (1 + 1)))%nat.
    rewrite steps_app, S1. cbv beta iota. rewrite steps_app, S2. cbv beta iota. rewrite steps_app. fold v2. rewrite S3. cbv beta iota. exact S4. }
  assert (Nfin : ncs sfin = ncs sd + 3).
  { unfold sfin, s2, with_data, emitted; cbn [ncs]. rewrite Np. cbn [emitted ncs]. lia. }
  assert (Emorph : pack_function (ncs s + 1) lc lc = morph) by (unfold morph; rewrite <- Hlc; reflexivity).
  cbv zeta. rewrite Emorph. fold fv.
  rewrite Hrun, (run_finish v1 r0 _ _ _ fuel c m3 fv Hncs S Hfuel).
  2:{ cbn [r4 with_ip r_ip r3]. cbn [v1 load_code v_ncs]. rewrite Nfin. lia. }
  2:{ reflexivity. }
  2:{ change (v_ctxs (St v3 mid m3)) with (v_ctxs v). exact Hctx. }
  2:{ unfold St, set_mem; cbn [v_mems]. apply assoc_get_set_same. }
  2:{ rewrite Hsp3. replace (m_sp m + 1 - 1) with (m_sp m) by lia. exact Hx3. }
  set (c' := {| c_ip := r_ip r4; c_mid := c_mid c; c_parent := c_parent c; c_children := c_children c; c_tmp := c_tmp c |}).
  set (v' := set_mem (set_ctx (St v3 mid m3) 0 c') (c_mid c) (mdrop m3) false).
  exists v', c', (mdrop m3).
  assert (Hcs' : v_cs v' = v_cs v1) by reflexivity.
  assert (Hds' : v_ds v' = v_ds v1) by reflexivity.
  conj.
  - reflexivity.
  - constructor.
    + cbn [v' set_mem v_ctxs set_ctx St]. apply assoc_get_set_same.
    + cbn [c' c_ip r4 with_ip r_ip r3]. rewrite Nfin. lia.
    + cbn [v' set_mem v_mems]. apply assoc_get_set_same.
    + destruct Hm3 as (_ & _ & _ & _ & _ & B3). unfold mdrop, with_stack; cbn [m_sp m_stack]. lia.
  - reflexivity.
  - reflexivity.
  - unfold mdrop, with_stack; cbn [m_sp]. lia.
  - apply mdrop_msame; [exact Hm3|lia].
  - reflexivity.
  - reflexivity.
  - reflexivity.
  - reflexivity.
  - reflexivity.
  - reflexivity.
  - reflexivity.
  - exists whole. exact Lfin.
  - (* the function value meets the premise of the call theorems *)
    assert (Ra : 0 <= a < 65536).
    { split; [unfold a; lia|]. rewrite <- Hlc. rewrite Z.geb_leb in Elc. apply Z.leb_gt in Elc. exact Elc. }
    assert (R0 : 0 <= ncs s0 < 2 ^ 32).
    { change (2 ^ 32) with 4294967296. unfold s0, emitted; cbn [ncs]. destruct Hwf as [Hn _]. rewrite Hn in *. unfold zlen in *. lia. }
    destruct (function_pack_roundtrip (ncs s0) a lc R0 ltac:(change (2 ^ 16) with 65536; lia)
                ltac:(change (2 ^ 16) with 65536; lia)) as (_ & Fn & Fp & Fl). fold morph in Fn, Fp, Fl.
    exists morph, (v_next v), FNone, s0, sb, wb, flbody. conj.
    + reflexivity.
    + rewrite Fp. symmetry. exact Hlc.
    + exact Fl.
    + change (v_frames v') with ((v_next v, FNone) :: v_frames v). unfold assoc_get. rewrite Z.eqb_refl. reflexivity.
    + exact W0.
    + symmetry. exact Fn.
    + exact Hb0.
    + reflexivity.
    + reflexivity.
    + reflexivity.
    + intros code Hcode. destruct Lb as (Rb & _ & _). rewrite Rb in Hcode. apply app_inv_tail in Hcode.
      assert (E : code = bc) by (rewrite <- (rev_involutive code), <- Hcode, rev_involutive; reflexivity). subst code.
      intros i x Hi. rewrite Hcs'.
      unfold whole in Hc. cbn [app] in Hc. apply code_at_cons in Hc. destruct Hc as [_ Hc].
      rewrite <- !app_assoc in Hc. rewrite app_assoc in Hc. apply code_at_app in Hc. destruct Hc as [Hc _].
      exact (Hc i x Hi).
    + intros i y Hi. rewrite Hds', Hds1. apply znth_app_l. apply znth_app_l. exact Hi.
Qed.

(* ================= definitions extend the function table ================= *)
Definition ft_add (B : ftab) (f : string) (fv : value) (body : node) (a : Z) : ftab :=
  {| ft_val := fun nm => if String.eqb nm f then fv else ft_val B nm;
     ft_body := fun nm => if String.eqb nm f then Some body else ft_body B nm;
     ft_arity := fun nm => if String.eqb nm f then a else ft_arity B nm |}.

Definition frames_le (F1 F2 : list (Z * framed)) : Prop :=
  forall fid fr, assoc_get F1 fid = Some fr -> exists fr', assoc_get F2 fid = Some fr'.

Lemma frames_le_cons F id fr : frames_le F ((id, fr) :: F).
Proof.
  intros fid fr0 H. unfold assoc_get. cbn [find fst]. destruct (Z.eqb id fid) eqn:E.
  - exists fr. reflexivity.
  - exists fr0. exact H.
Qed.

(* the premise of the call theorems survives more code, more data and more frames *)
Lemma bcode_grow B v1 v2 :
  (exists ex, v_cs v2 = v_cs v1 ++ ex) -> (exists ex, v_ds v2 = v_ds v1 ++ ex) ->
  frames_le (v_frames v1) (v_frames v2) -> bcode B v1 -> bcode B v2.
Proof.
  intros [ec Hc] [ed Hd] Hf [H1 [H2 H3]]. split; [|split].
  - intros nm b mo fid Hb Hbf. destruct (H1 nm b mo fid Hb Hbf) as (morph & fid' & fr & i1 & i2 & R1 & R2 & R3 & R4 & R5 & R6 & R7).
    destruct (Hf _ _ R4) as [fr' R4'].
    exists morph, fid', fr', i1, i2. rewrite Hc.
    split; [exact R1|]. split; [exact R2|]. split; [exact R3|]. split; [exact R4'|].
    split; [apply znth_app_l; exact R5|]. split; [apply znth_app_l; exact R6|exact R7].
  - intros mo fid Hbf. destruct (H2 mo fid Hbf) as (morph & fid' & fr & i1 & i2 & R1 & R2 & R3 & R4 & R5 & R6 & R7).
    destruct (Hf _ _ R4) as [fr' R4'].
    exists morph, fid', fr', i1, i2. rewrite Hc.
    split; [exact R1|]. split; [exact R2|]. split; [exact R3|]. split; [exact R4'|].
    split; [apply znth_app_l; exact R5|]. split; [apply znth_app_l; exact R6|exact R7].
  - intros nm body mo fid Hb Hbody Hbf.
    destruct (H3 nm body mo fid Hb Hbody Hbf) as (morph & fid' & fr & s0 & s1 & wb & flb & R1 & R2 & R3 & R4 & R5 & R6 & R7 & R8 & R9 & R10 & R11 & R12).
    destruct (Hf _ _ R4) as [fr' R4'].
    exists morph, fid', fr', s0, s1, wb, flb.
    split; [exact R1|]. split; [exact R2|]. split; [exact R3|]. split; [exact R4'|]. split; [exact R5|]. split; [exact R6|].
    split; [exact R7|]. split; [exact R8|]. split; [exact R9|]. split; [exact R10|]. split.
    + intros code0 Hcode i x Hi. rewrite Hc. apply znth_app_l. exact (R11 code0 Hcode i x Hi).
    + intros i x Hi. rewrite Hd. apply znth_app_l. exact (R12 i x Hi).
Qed.

Lemma bcode_add B v f fv body a mo fid :
  bcode B v -> fv = VFun mo fid -> bop_of_name f = None -> f <> "read"%string ->
  is_ufun a v body fv -> bcode (ft_add B f fv body a) v.
Proof.
  intros [H1 [H2 H3]] Efv Hb Hr Hu. split; [|split].
  - intros nm b mo' fid' Hnb Hbf. cbn [ft_add ft_val] in *.
    destruct (String.eqb_spec nm f) as [->|N]; [rewrite Hb in Hnb; discriminate Hnb|].
    exact (H1 nm b mo' fid' Hnb Hbf).
  - intros mo' fid' Hbf. cbn [ft_add ft_val] in *.
    destruct (String.eqb_spec "read" f) as [E|N]; [exfalso; apply Hr; symmetry; exact E|].
    exact (H2 mo' fid' Hbf).
  - intros nm body' mo' fid' Hnb Hbody Hbf. cbn [ft_add ft_val ft_body ft_arity] in *.
    destruct (String.eqb_spec nm f) as [->|N].
    + injection Hbody as <-. exact Hu.
    + exact (H3 nm body' mo' fid' Hnb Hbody Hbf).
Qed.

Lemma is_ufun_same a v1 v2 body fv :
  v_cs v2 = v_cs v1 -> v_ds v2 = v_ds v1 -> v_frames v2 = v_frames v1 -> is_ufun a v1 body fv -> is_ufun a v2 body fv.
Proof.
  intros Hc Hd Hf (morph & fid' & fr & s0 & s1 & wb & flb & R1 & R2 & R3 & R4 & R5 & R6 & R7 & R8 & R9 & R10 & R11 & R12).
  exists morph, fid', fr, s0, s1, wb, flb. rewrite Hf.
  split; [exact R1|]. split; [exact R2|]. split; [exact R3|]. split; [exact R4|]. split; [exact R5|]. split; [exact R6|].
  split; [exact R7|]. split; [exact R8|]. split; [exact R9|]. split; [exact R10|]. split.
  - intros code Hcode i x Hi. rewrite Hc. exact (R11 code Hcode i x Hi).
  - intros i x Hi. rewrite Hd. exact (R12 i x Hi).
Qed.

(* one definition in a session: it runs like any other tree, and leaves a machine that is ready under the
   table with one more function — the premise of the statement theorems for everything that follows *)
Theorem def_step B t f ps body lc mc c m :
  bready B mc c m -> m_fp m = [] -> ncs (mc_cs mc) + 1 < 4294967296 ->
  strewrite t = Some (NAssign (NName f) (NFunction ps body lc)) ->
  wfb (NAssign (NName f) (NFunction ps body lc)) = true ->
  lpure (repeat VNil (List.length ps)) body = true -> lc = Z.of_nat (List.length ps) ->
  bop_of_name f = None -> f <> "read"%string ->
  snd (run_tree false mc t) = TRefused \/
  exists c' m',
    let fv := VFun (pack_function (ncs (mc_cs mc) + 1) lc lc) (v_next (mc_vm mc)) in
    let mc' := fst (run_tree false mc t) in
    snd (run_tree false mc t) = TValue fv /\
    wof (mc_vm mc') = wbump (wglob (wof (mc_vm mc)) (sassoc_set (v_globals (mc_vm mc)) f fv)) /\
    bready (ft_add B f fv body lc) mc' c' m' /\ m_fp m' = [].
Proof.
  intros [[[Hwf Hid] [Hmid Hch]] Hbc] Hfp Hbig Hst Hwb Hp Hlc Hb Hr.
  unfold run_tree. rewrite Hst. cbn [negb].
  destruct (ByteCode (NAssign (NName f) (NFunction ps body lc)) (mc_cs mc)) as [s'|s0|w] eqn:HB.
  - destruct (bytecode_run_def f ps body lc (mc_cs mc) s' (mc_vm mc) c m session_fuel Hp Hlc Hwf Hid Hfp Hbig HB
                ltac:(unfold session_fuel; lia))
      as [W [v' [c' [m' (R & Hid' & Hmid' & Hch' & Hsp' & Hms & Hg & Hfr & Hnx & Hout & Hin & Hcs & Hds & [code L] & Hu)]]]].
    cbv zeta in R, Hg, Hu. rewrite R. right. exists c', m'. cbv zeta. cbn [fst snd mc_vm mc_cs].
    split; [|split; [|split; [split|]]].
    + reflexivity.
    + unfold wof, wbump, wglob; cbn [w_glob w_out w_in w_next]. rewrite Hg, Hout, Hin, Hnx. reflexivity.
    + split; [split; [exact W|exact Hid']|split; congruence].
    + cbn [mc_vm mc_cs]. destruct L as (Rc & _ & [dd D]).
      apply (bcode_add B _ f _ body lc (pack_function (ncs (mc_cs mc) + 1) lc lc) (v_next (mc_vm mc))); [|reflexivity|exact Hb|exact Hr|].
      * apply (bcode_grow B (load_code (mc_vm mc) (mc_cs mc))); [| | |exact Hbc].
        -- exists code. cbn [load_code v_cs]. rewrite Rc, rev_app_distr, rev_involutive. reflexivity.
        -- exists (rev dd). cbn [load_code v_ds]. rewrite D, rev_app_distr. reflexivity.
        -- cbn [load_code v_frames]. rewrite Hfr. apply frames_le_cons.
      * apply (is_ufun_same lc v'); [cbn [load_code v_cs]; symmetry; exact Hcs|cbn [load_code v_ds]; symmetry; exact Hds|reflexivity|exact Hu].
    + destruct Hms as (F & _). rewrite F. exact Hfp.
  - left. reflexivity.
  - exfalso. destruct (bytecode_never_aborts _ (mc_cs mc) Hwb) as [NA _].
    + destruct Hwf as [Hn _]. rewrite Hn. unfold zlen. lia.
    + exact (NA w HB).
Qed.

(* ---- the same on the side of the reference semantics ---- *)
Lemma eval_def B n f ps body lc env st :
  sem_bf B st -> assoc_get (s_clos st) (s_next st) = None ->
  bop_of_name f = None -> f <> "read"%string -> e_frame env = None ->
  let fv := VFun 0 (s_next st) in
  exists st', eval (S (S n)) (NAssign (NName f) (NFunction ps body lc)) env st = Done st' (CVal fv) /\
    wof_s st' = wbump (wglob (wof_s st) (sassoc_set (s_globals st) f fv)) /\
    sem_bf (ft_add B f fv body (zlen ps)) st'.
Proof.
  intros [H1 [H2 H3]] Hfresh Hb Hr He. cbv zeta.
  eexists. split; [|split].
  - cbn [eval bind new_clos]. rewrite He. cbn [assign is_nil]. reflexivity.
  - reflexivity.
  - assert (Hold : forall id c0, assoc_get (s_clos st) id = Some c0 ->
                   assoc_get ((s_next st, {| sc_params := zlen ps; sc_locals := lc; sc_body := body; sc_env := None |}) :: s_clos st) id = Some c0).
    { intros id c0 H. unfold assoc_get. cbn [find fst]. destruct (Z.eqb_spec (s_next st) id) as [E|N]; [|exact H].
      subst id. rewrite Hfresh in H. discriminate H. }
    split; [|split].
    + intros nm b mo id Hnb Hbf. cbn [ft_add ft_val] in Hbf.
      destruct (String.eqb_spec nm f) as [->|N]; [rewrite Hb in Hnb; discriminate Hnb|].
      destruct (H1 nm b mo id Hnb Hbf) as [l1 [l2 Hc]]. exists l1, l2. cbn [set_global s_clos]. apply Hold. exact Hc.
    + intros mo id Hbf. cbn [ft_add ft_val] in Hbf.
      destruct (String.eqb_spec "read" f) as [E|N]; [exfalso; apply Hr; symmetry; exact E|].
      destruct (H2 mo id Hbf) as [l1 Hc]. exists l1. cbn [set_global s_clos]. apply Hold. exact Hc.
    + intros nm body' mo id Hnb Hbody Hbf. cbn [ft_add ft_val ft_body ft_arity] in *.
      destruct (String.eqb_spec nm f) as [->|N].
      * injection Hbody as <-. injection Hbf as <- <-. exists lc. cbn [set_global s_clos].
        unfold assoc_get. cbn [find fst]. rewrite Z.eqb_refl. reflexivity.
      * destruct (H3 nm body' mo id Hnb Hbody Hbf) as [l1 Hc]. exists l1. cbn [set_global s_clos]. apply Hold. exact Hc.
Qed.

(* ================= definitions as trees of a session ================= *)
Record fdef := { fd_tree : node; fd_name : string; fd_params : list node; fd_body : node }.

Definition fd_lc (d : fdef) : Z := Z.of_nat (List.length (fd_params d)).
Definition fd_resolved (d : fdef) : node := NAssign (NName (fd_name d)) (NFunction (fd_params d) (fd_body d) (fd_lc d)).

(* what is asked of a definition, each clause closed and computable: it resolves to a function of a pure
   expression over its parameters, and its name is not one of the built-ins *)
Definition fdef_ok (d : fdef) : Prop :=
  strewrite (fd_tree d) = Some (fd_resolved d) /\ wfb (fd_resolved d) = true /\
  lpure (repeat VNil (List.length (fd_params d))) (fd_body d) = true /\
  bop_of_name (fd_name d) = None /\ fd_name d <> "read"%string.

Definition fd_value (mc : machine) (d : fdef) : value :=
  VFun (pack_function (ncs (mc_cs mc) + 1) (fd_lc d) (fd_lc d)) (v_next (mc_vm mc)).

(* ================= definitions anywhere between statements ================= *)
(* the machine between the trees of a session, at top level: ready, and no activation on the main memory *)
Definition tready (B : ftab) (mc : machine) (c : ctx) (m : mem) : Prop := bready B mc c m /\ m_fp m = [].

Lemma reset_ready_fp v s c me :
  wfcs s -> v_ncs v = ncs s ->
  assoc_get (v_ctxs v) 0 = Some c -> c_mid c = 0 -> c_children c = [] ->
  exists c' m', ready {| mc_cs := s; mc_vm := reset_after_error (St v 0 me) |} c' m' /\ m_fp m' = [] /\
    v_globals (reset_after_error (St v 0 me)) = v_globals v /\
    v_out (reset_after_error (St v 0 me)) = v_out v.
Proof.
  intros Hwf Hn Hc Hmid Hch. unfold reset_after_error.
  change (v_ctxs (St v 0 me)) with (v_ctxs v). rewrite Hc, Hch. cbn [fold_left].
  pose proof (St_get v 0 me) as G. unfold get_mem in G.
  destruct (assoc_get (v_mems (St v 0 me)) 0) as [m0|] eqn:E; [|discriminate G].
  cbn [req] in G. injection G as ->.
  rewrite St_St. change (v_ctxs (St v 0 (mReset me))) with (v_ctxs v). rewrite Hc.
  exists {| c_ip := v_ncs v; c_mid := 0; c_parent := None; c_children := []; c_tmp := c_tmp c |}, (mReset me).
  split; [|split; [reflexivity|split; reflexivity]].
  split; [|split; reflexivity].
  split; [exact Hwf|]. cbn [mc_vm mc_cs]. constructor.
  - cbn [set_ctx v_ctxs]. apply assoc_get_set_same.
  - cbn [c_ip set_mem St v_ncs]. exact Hn.
  - cbn [c_mid set_ctx v_mems St set_mem]. apply assoc_get_set_same.
  - unfold mReset; cbn [m_sp m_stack]. unfold zlen. lia.
Qed.

Theorem stmt_step_fp B t mc c m n G' sres :
  tready B mc c m -> wstmt t = true -> wfb t = true ->
  ssem B n (wof (mc_vm mc)) t = Some (G', sres) ->
  stmt_outcome mc t G' sres (fun mc' => exists c' m', tready B mc' c' m').
Proof.
  intros [[[[Hwf Hid] [Hmid Hch]] Hbc] Hfp] Hw Hb HM. unfold stmt_outcome.
  unfold run_tree, strewrite. rewrite (resolve_wstmt t Hw). cbn [negb].
  destruct (ByteCode t (mc_cs mc)) as [s'|s0|w] eqn:HB.
  - destruct (bytecode_run_stmt B t (mc_cs mc) s' (mc_vm mc) c m n G' sres Hw Hwf Hid Hbc HB HM) as [W [[code0 Rcode] [k R]]].
    pose proof (bcode_extend B (mc_vm mc) (mc_cs mc) s' code0 Rcode Hbc) as Hbc'.
    specialize (R session_fuel). destruct R as [Rle Rgt].
    destruct (Nat.lt_ge_cases k session_fuel) as [Hlt|Hge].
    + specialize (Rgt Hlt). right. right. destruct sres as [x|err].
      * destruct Rgt as [v' [m' (R & Hm' & Hsp' & Hms & Hg & Hfr' & [c' [Hc' [Hip' [Hmid' Hch']]]])]]. rewrite R.
        cbn [fst snd mc_vm tree_agrees]. split; [reflexivity|]. split; [assumption|].
        exists c', m'. split; [split|].
        { split; [|split; congruence]. split; [exact W|]. cbn [mc_vm mc_cs].
          constructor; try assumption.
          -- rewrite Hmid'. exact Hm'.
          -- destruct Hms as (_&_&_&_&_&B0). pose proof (id_sp _ _ _ _ Hid). lia. }
        { cbn [mc_vm mc_cs]. apply (bcode_same B (load_code (mc_vm mc) s')); [reflexivity|reflexivity| |exact Hbc'].
          cbn [load_code v_frames]. exact Hfr'. }
        { destruct Hms as (F & _). rewrite F. exact Hfp. }
      * destruct Rgt as [me [rep R]]. rewrite R. cbn [fst snd mc_vm tree_agrees]. rewrite Hmid.
        destruct (reset_ready_fp (set_world (load_code (mc_vm mc) s') G') s' c me W eq_refl (id_ctx _ _ _ _ Hid) Hmid Hch)
          as [c' [m' [Hr [Hfp' [Hg Ho]]]]].
        pose proof (reset_in (set_world (load_code (mc_vm mc) s') G') c me (id_ctx _ _ _ _ Hid) Hch) as [Hin [Hnx [Hfr Hcs]]].
        split; [reflexivity|]. split; [|exists c', m'; split; [split; [exact Hr|]|exact Hfp']].
        { etransitivity; [exact (wof_eq _ _ Hg Ho Hin Hnx)|apply wof_set_world]. }
        cbn [mc_vm mc_cs]. apply (bcode_same B (load_code (mc_vm mc) s')); [reflexivity|reflexivity| |exact Hbc'].
        etransitivity; [exact Hfr|reflexivity].
    + specialize (Rle Hge). destruct Rle as [F|Rle].
      * right. left. destruct (Run session_fuel (load_code (mc_vm mc) s') true) as [v' rr]. cbn [snd] in *. rewrite F. reflexivity.
      * right. right. destruct sres as [x|err]; [contradiction|].
        destruct Rle as [me [rep R]]. rewrite R. cbn [fst snd mc_vm tree_agrees]. rewrite Hmid.
        destruct (reset_ready_fp (set_world (load_code (mc_vm mc) s') G') s' c me W eq_refl (id_ctx _ _ _ _ Hid) Hmid Hch)
          as [c' [m' [Hr [Hfp' [Hg Ho]]]]].
        pose proof (reset_in (set_world (load_code (mc_vm mc) s') G') c me (id_ctx _ _ _ _ Hid) Hch) as [Hin [Hnx [Hfr Hcs]]].
        split; [reflexivity|]. split; [|exists c', m'; split; [split; [exact Hr|]|exact Hfp']].
        { etransitivity; [exact (wof_eq _ _ Hg Ho Hin Hnx)|apply wof_set_world]. }
        cbn [mc_vm mc_cs]. apply (bcode_same B (load_code (mc_vm mc) s')); [reflexivity|reflexivity| |exact Hbc'].
        etransitivity; [exact Hfr|reflexivity].
  - left. reflexivity.
  - exfalso. destruct (bytecode_never_aborts t (mc_cs mc) Hb) as [NA _].
    + destruct Hwf as [Hn _]. rewrite Hn. unfold zlen. lia.
    + exact (NA w HB).
Qed.

Inductive item := IDef (d : fdef) | IStmt (t : node).

Definition item_ok (i : item) : Prop :=
  match i with IDef d => fdef_ok d | IStmt t => wstmt t = true /\ wfb t = true end.

Definition item_tree (i : item) : node := match i with IDef d => fd_tree d | IStmt t => t end.

(* what the session theorem says of a list of trees, each a definition or a statement: every statement's
   compiled run agrees with its meaning under the table built by the definitions before it (for whatever
   fuel the semantics defines it), every definition yields its function value and one more table entry;
   the ways out are the ones the model has: a tree refused for size, the model's own step budget, a code
   segment beyond 2^32 words *)
Fixpoint mixed (B : ftab) (mc : machine) (items : list item) : Prop :=
  match items with
  | [] => True
  | IStmt t :: r =>
      forall n G' sres, ssem B n (wof (mc_vm mc)) t = Some (G', sres) ->
        stmt_outcome mc t G' sres (fun mc' => mixed B mc' r)
  | IDef d :: r =>
      let mc' := fst (run_tree false mc (fd_tree d)) in
      let fv := fd_value mc d in
      4294967296 <= ncs (mc_cs mc) + 1 \/ snd (run_tree false mc (fd_tree d)) = TRefused \/
      (snd (run_tree false mc (fd_tree d)) = TValue fv /\
       wof (mc_vm mc') = wbump (wglob (wof (mc_vm mc)) (sassoc_set (v_globals (mc_vm mc)) (fd_name d) fv)) /\
       mixed (ft_add B (fd_name d) fv (fd_body d) (fd_lc d)) mc' r)
  end.

Theorem mixed_session : forall items B mc c m,
  tready B mc c m -> Forall item_ok items -> mixed B mc items.
Proof.
  induction items as [|i r IH]; intros B mc c m Hr Hall; [exact I|].
  inversion Hall as [|i' r' Hi Hrest]; subst. destruct i as [d|t]; cbn [mixed].
  - destruct Hi as (H1 & H2 & H3 & H4 & H5). destruct Hr as [Hr Hfp].
    destruct (Z.lt_ge_cases (ncs (mc_cs mc) + 1) 4294967296) as [Hbig|Hbig]; [|left; exact Hbig].
    right.
    destruct (def_step B (fd_tree d) (fd_name d) (fd_params d) (fd_body d) (fd_lc d) mc c m Hr Hfp Hbig H1 H2 H3 eq_refl H4 H5)
      as [Ref|[c' [m' (Hv & Hw & Hr' & Hfp')]]]; [left; exact Ref|].
    right. cbv zeta in Hv, Hw, Hr'. split; [exact Hv|]. split; [exact Hw|].
    exact (IH _ _ c' m' (conj Hr' Hfp') Hrest).
  - destruct Hi as [Hw Hb]. intros n G' sres HM.
    pose proof (stmt_step_fp B t mc c m n G' sres Hr Hw Hb HM) as S. unfold stmt_outcome in *.
    destruct S as [S|[S|[Ha [Hg [c' [m' Hr']]]]]]; [left; exact S|right; left; exact S|].
    right. right. split; [exact Ha|]. split; [exact Hg|]. exact (IH _ _ c' m' Hr' Hrest).
Qed.
