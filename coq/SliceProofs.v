(* SliceProofs.v — C10: with copy-before-append no operation changes an existing value. *)
Require Import Calc.Base Calc.Bytecode Calc.Value Calc.Slice.
Require Import Lia.
Open Scope nat_scope.

Definition ref_ok (n : nat) (s : sval) : Prop :=
  match s with SSlice a _ _ _ => a < n | SScalar _ => True end.

Lemma ref_ok_mono n m s : n <= m -> ref_ok n s -> ref_ok m s.
Proof. destruct s; cbn; lia. Qed.

Lemma Forall_ref_mono n m l : n <= m -> Forall (ref_ok n) l -> Forall (ref_ok m) l.
Proof. intros H F. eapply Forall_impl; [|exact F]. intros a. apply ref_ok_mono, H. Qed.

Definition heap_closed (h : heap) : Prop := forall a, Forall (ref_ok (List.length h)) (cells h a).

Definition inv (st : sstate) : Prop :=
  heap_closed (st_heap st) /\ Forall (ref_ok (List.length (st_heap st))) (st_pool st).

Lemma cells_app_l h x a : a < List.length h -> cells (h ++ x) a = cells h a.
Proof. intros H. unfold cells. apply app_nth1, H. Qed.

Lemma cells_app_last h x : cells (h ++ [x]) (List.length h) = x.
Proof. unfold cells. rewrite app_nth2 by lia. rewrite Nat.sub_diag. reflexivity. Qed.

Lemma cells_beyond h a : List.length h <= a -> cells h a = [].
Proof. intros H. unfold cells. apply nth_overflow, H. Qed.

Lemma set_nth_length {A} (l : list A) i x : List.length (set_nth l i x) = List.length l.
Proof. revert i. induction l as [|y l IH]; intros [|i]; cbn; try reflexivity. rewrite IH. reflexivity. Qed.

Lemma set_nth_same {A} (l : list A) i x d : i < List.length l -> nth i (set_nth l i x) d = x.
Proof. revert i. induction l as [|y l IH]; intros [|i] H; cbn in *; try lia; try reflexivity. apply IH. lia. Qed.

Lemma set_nth_other {A} (l : list A) i j x d : i <> j -> nth j (set_nth l i x) d = nth j l d.
Proof.
  revert i j. induction l as [|y l IH]; intros [|i] [|j] H; cbn; try reflexivity; try congruence.
  apply IH. congruence.
Qed.

Lemma Forall_firstn {A} (P : A -> Prop) n l : Forall P l -> Forall P (firstn n l).
Proof. revert n. induction l as [|x l IH]; intros [|n] H; cbn; auto. inversion H; subst. constructor; auto. Qed.

Lemma Forall_skipn {A} (P : A -> Prop) n l : Forall P l -> Forall P (skipn n l).
Proof. revert n. induction l as [|x l IH]; intros [|n] H; cbn; auto. inversion H; subst. auto. Qed.

Lemma Forall_repeat_nil n k : Forall (ref_ok n) (repeat (SScalar VNil) k).
Proof. induction k; cbn; constructor; cbn; auto. Qed.

(* ---- a value only depends on the arrays it can reach ---- *)
Lemma vis_ext fuel h h' s :
  heap_closed h ->
  (forall a, a < List.length h -> cells h' a = cells h a) ->
  ref_ok (List.length h) s -> vis fuel h' s = vis fuel h s.
Proof.
  intros Hc Hagree. revert s. induction fuel as [|k IH]; intros s Hs; [reflexivity|].
  destruct s as [v|a o l c]; [reflexivity|]. cbn [vis]. cbn in Hs.
  rewrite (Hagree a Hs). f_equal.
  apply map_ext_in. intros x Hx. apply IH.
  pose proof (Forall_firstn _ l _ (Forall_skipn _ o _ (Hc a))) as F.
  rewrite Forall_forall in F. apply F, Hx.
Qed.

(* ---- appending to a freshly cloned array ---- *)
Lemma go_append_fresh h new o l c vs e :
  heap_closed h ->
  Forall (ref_ok (S (List.length h))) new -> Forall (ref_ok (S (List.length h))) vs ->
  let r := go_append (h ++ [new]) (List.length h) o l c vs e in
  (forall a, a < List.length h -> cells (fst r) a = cells h a) /\
  List.length h < List.length (fst r) /\
  heap_closed (fst r) /\ ref_ok (List.length (fst r)) (snd r).
Proof.
  intros Hc Hnew Hvs. unfold go_append.
  assert (Hc1 : heap_closed (h ++ [new])).
  { intros a. rewrite app_length. cbn [List.length]. replace (List.length h + 1) with (S (List.length h)) by lia.
    destruct (Nat.lt_ge_cases a (List.length h)) as [L|L].
    - rewrite cells_app_l by exact L. eapply Forall_ref_mono; [|apply Hc]. lia.
    - destruct (Nat.eq_dec a (List.length h)) as [->|NE].
      + rewrite cells_app_last. exact Hnew.
      + rewrite cells_beyond; [constructor|]. rewrite app_length. cbn. lia. }
  destruct (Nat.leb (l + List.length vs) c).
  - cbn [fst snd]. rewrite cells_app_last.
    set (arr' := firstn (o + l) new ++ vs ++ skipn (o + l + List.length vs) new).
    assert (Len : List.length (set_nth (h ++ [new]) (List.length h) arr') = S (List.length h)).
    { rewrite set_nth_length, app_length. cbn. lia. }
    repeat split.
    + intros a La. unfold cells. rewrite set_nth_other by lia. apply app_nth1, La.
    + rewrite Len. lia.
    + intros a. rewrite Len.
      destruct (Nat.eq_dec a (List.length h)) as [->|NE].
      * unfold cells. rewrite set_nth_same by (rewrite app_length; cbn; lia).
        unfold arr'. apply Forall_app. split; [apply Forall_firstn, Hnew|].
        apply Forall_app. split; [exact Hvs|apply Forall_skipn, Hnew].
      * unfold cells. rewrite set_nth_other by lia.
        pose proof (Hc1 a) as F. rewrite app_length in F. cbn in F.
        replace (List.length h + 1) with (S (List.length h)) in F by lia. exact F.
    + rewrite Len. cbn. lia.
  - cbn [fst snd].
    set (arr' := firstn l (skipn o (cells (h ++ [new]) (List.length h))) ++ vs ++ repeat (SScalar VNil) e).
    assert (Len : List.length ((h ++ [new]) ++ [arr']) = S (S (List.length h))).
    { rewrite !app_length. cbn. lia. }
    repeat split.
    + intros a La. rewrite cells_app_l by (rewrite app_length; cbn; lia). apply cells_app_l, La.
    + rewrite Len. lia.
    + intros a. rewrite Len.
      destruct (Nat.lt_ge_cases a (S (List.length h))) as [L|L].
      * rewrite cells_app_l by (rewrite app_length; cbn; lia).
        pose proof (Hc1 a) as F. rewrite app_length in F. cbn in F.
        eapply Forall_ref_mono; [|exact F]. lia.
      * destruct (Nat.eq_dec a (S (List.length h))) as [->|NE].
        -- replace (S (List.length h)) with (List.length (h ++ [new])) by (rewrite app_length; cbn; lia).
           rewrite cells_app_last. unfold arr'. rewrite cells_app_last.
           apply Forall_app. split.
           ++ eapply Forall_ref_mono; [|apply Forall_firstn, Forall_skipn, Hnew]. rewrite ?app_length; cbn; lia.
           ++ apply Forall_app. split; [eapply Forall_ref_mono; [|exact Hvs]; rewrite ?app_length; cbn; lia|apply Forall_repeat_nil].
        -- rewrite cells_beyond; [constructor|]. rewrite Len. lia.
    + rewrite app_length. cbn. lia.
Qed.

Lemma Forall_nth_default {A} (P : A -> Prop) l i d : Forall P l -> P d -> P (nth i l d).
Proof.
  intros F Hd. revert i. induction F as [|x l Hx F IH]; intros [|i]; cbn; auto.
Qed.

Lemma nth_error_Forall {A} (P : A -> Prop) l i x : Forall P l -> nth_error l i = Some x -> P x.
Proof. intros F H. rewrite Forall_forall in F. apply F. eapply nth_error_In, H. Qed.

Definition step_ok (st st' : sstate) : Prop :=
  inv st' /\
  (forall a, a < List.length (st_heap st) -> cells (st_heap st') a = cells (st_heap st) a) /\
  List.length (st_heap st) <= List.length (st_heap st') /\
  exists x, st_pool st' = st_pool st ++ [x].

Lemma add_same_heap st x :
  inv st -> ref_ok (List.length (st_heap st)) x -> step_ok st (add (st_heap st) (st_pool st) x).
Proof.
  intros [Hc Hp] Hx. unfold step_ok, inv, add. cbn [st_heap st_pool]. repeat split; auto.
  - apply Forall_app. split; [exact Hp|]. constructor; [exact Hx|constructor].
  - eexists. reflexivity.
Qed.

Lemma add_after_fresh st new o l c vs e :
  inv st ->
  Forall (ref_ok (S (List.length (st_heap st)))) new -> Forall (ref_ok (S (List.length (st_heap st)))) vs ->
  let r := go_append (st_heap st ++ [new]) (List.length (st_heap st)) o l c vs e in
  step_ok st (add (fst r) (st_pool st) (snd r)).
Proof.
  intros [Hc Hp] Hnew Hvs.
  pose proof (go_append_fresh (st_heap st) new o l c vs e Hc Hnew Hvs) as (A & B & C & D).
  cbv zeta. unfold step_ok, inv, add. cbn [st_heap st_pool]. repeat split; auto.
  - apply Forall_app. split.
    + eapply Forall_ref_mono; [|exact Hp]. lia.
    + constructor; [exact D|constructor].
  - lia.
  - eexists. reflexivity.
Qed.

Lemma step_keeps st o : inv st -> uses_clone o = true -> step_ok st (s_step st o).
Proof.
  intros Hinv Hu. pose proof Hinv as [Hc Hp].
  assert (Hfail : step_ok st (add (st_heap st) (st_pool st) (SScalar VNil))) by (apply add_same_heap; [exact Hinv|exact I]).
  destruct o as [vs|a b e1 e2|a i j|a i|a x e1 e2|xs e|a b e2|a x e2]; cbn [uses_clone] in Hu; try discriminate; cbn [s_step].
  - (* literal *)
    unfold step_ok, inv, add. cbn [st_heap st_pool].
    assert (Len : List.length (st_heap st ++ [map SScalar vs]) = S (List.length (st_heap st))) by (rewrite app_length; cbn; lia).
    repeat split.
    + intros k. rewrite Len.
      destruct (Nat.lt_ge_cases k (List.length (st_heap st))) as [L|L].
      * rewrite cells_app_l by exact L. eapply Forall_ref_mono; [|apply Hc]. lia.
      * destruct (Nat.eq_dec k (List.length (st_heap st))) as [->|NE].
        -- rewrite cells_app_last. clear. induction vs; cbn; constructor; cbn; auto.
        -- rewrite cells_beyond; [constructor|]. rewrite Len. lia.
    + rewrite Len. apply Forall_app. split.
      * eapply Forall_ref_mono; [|exact Hp]. lia.
      * constructor; [cbn; lia|constructor].
    + intros k Lk. apply cells_app_l, Lk.
    + rewrite Len. lia.
    + eexists. reflexivity.
  - (* concatenation *)
    destruct (nth_error (st_pool st) a) as [[va|aa ao al ac]|] eqn:Ea; try exact Hfail.
    destruct (nth_error (st_pool st) b) as [[vb|ba bo bl bc]|] eqn:Eb; try exact Hfail.
    unfold go_clone.
    pose proof (nth_error_Forall _ _ _ _ Hp Eb) as Hb. cbn in Hb.
    set (new := firstn al (skipn ao (cells (st_heap st) aa)) ++ repeat (SScalar VNil) e1).
    assert (Hnew : Forall (ref_ok (S (List.length (st_heap st)))) new).
    { unfold new. apply Forall_app. split; [|apply Forall_repeat_nil].
      eapply Forall_ref_mono; [|apply Forall_firstn, Forall_skipn, Hc]. lia. }
    rewrite (cells_app_l _ _ _ Hb).
    assert (Hvs : Forall (ref_ok (S (List.length (st_heap st)))) (firstn bl (skipn bo (cells (st_heap st) ba)))).
    { eapply Forall_ref_mono; [|apply Forall_firstn, Forall_skipn, Hc]. lia. }
    pose proof (add_after_fresh st new 0 al (al + e1) _ e2 Hinv Hnew Hvs) as R. cbv zeta in R.
    destruct (go_append (st_heap st ++ [new]) (List.length (st_heap st)) 0 al (al + e1)
                (firstn bl (skipn bo (cells (st_heap st) ba))) e2) as [h2 r]. exact R.
  - (* slice *)
    destruct (nth_error (st_pool st) a) as [[va|aa ao al ac]|] eqn:Ea; try exact Hfail.
    destruct (Nat.leb i j && Nat.leb j al); [|exact Hfail].
    apply add_same_heap; [exact Hinv|]. exact (nth_error_Forall _ _ _ _ Hp Ea).
  - (* index *)
    destruct (nth_error (st_pool st) a) as [[va|aa ao al ac]|] eqn:Ea; try exact Hfail.
    destruct (Nat.ltb i al); [|exact Hfail].
    apply add_same_heap; [exact Hinv|]. apply Forall_nth_default; [apply Hc|exact I].
  - (* ARR *)
    destruct (nth_error (st_pool st) a) as [[va|aa ao al ac]|] eqn:Ea; try exact Hfail.
    destruct (nth_error (st_pool st) x) as [xv|] eqn:Ex; try exact Hfail.
    unfold go_clone.
    set (new := firstn al (skipn ao (cells (st_heap st) aa)) ++ repeat (SScalar VNil) e1).
    assert (Hnew : Forall (ref_ok (S (List.length (st_heap st)))) new).
    { unfold new. apply Forall_app. split; [|apply Forall_repeat_nil].
      eapply Forall_ref_mono; [|apply Forall_firstn, Forall_skipn, Hc]. lia. }
    assert (Hvs : Forall (ref_ok (S (List.length (st_heap st)))) [xv]).
    { constructor; [|constructor]. eapply ref_ok_mono; [|exact (nth_error_Forall _ _ _ _ Hp Ex)]. lia. }
    pose proof (add_after_fresh st new 0 al (al + e1) _ e2 Hinv Hnew Hvs) as R. cbv zeta in R.
    destruct (go_append (st_heap st ++ [new]) (List.length (st_heap st)) 0 al (al + e1) [xv] e2) as [h2 r]. exact R.
  - (* pack *)
    unfold step_ok, inv, add. cbn [st_heap st_pool].
    set (new := map (fun x => nth x (st_pool st) (SScalar VNil)) xs ++ repeat (SScalar VNil) e).
    assert (Len : List.length (st_heap st ++ [new]) = S (List.length (st_heap st))) by (rewrite app_length; cbn; lia).
    assert (Hnew : Forall (ref_ok (S (List.length (st_heap st)))) new).
    { unfold new. apply Forall_app. split; [|apply Forall_repeat_nil].
      clear -Hp. induction xs as [|x xs IH]; cbn; constructor; [|exact IH].
      eapply ref_ok_mono; [|apply Forall_nth_default; [exact Hp|exact I]]. lia. }
    repeat split.
    + intros k. rewrite Len.
      destruct (Nat.lt_ge_cases k (List.length (st_heap st))) as [L|L].
      * rewrite cells_app_l by exact L. eapply Forall_ref_mono; [|apply Hc]. lia.
      * destruct (Nat.eq_dec k (List.length (st_heap st))) as [->|NE].
        -- rewrite cells_app_last. exact Hnew.
        -- rewrite cells_beyond; [constructor|]. rewrite Len. lia.
    + rewrite Len. apply Forall_app. split.
      * eapply Forall_ref_mono; [|exact Hp]. lia.
      * constructor; [cbn; lia|constructor].
    + intros k Lk. apply cells_app_l, Lk.
    + rewrite Len. lia.
    + eexists. reflexivity.
Qed.

Lemma inv_st0 : inv st0.
Proof. split; [intros a; unfold cells; destruct a; constructor|constructor]. Qed.

Lemma run_keeps ops : forall st,
  inv st -> forallb uses_clone ops = true ->
  inv (fold_left s_step ops st) /\
  forall fuel i s, nth_error (st_pool st) i = Some s ->
    nth_error (st_pool (fold_left s_step ops st)) i = Some s /\
    vis fuel (st_heap (fold_left s_step ops st)) s = vis fuel (st_heap st) s.
Proof.
  induction ops as [|o ops IH]; intros st Hinv Hu; cbn [fold_left].
  - split; [exact Hinv|]. intros fuel i s H. split; [exact H|reflexivity].
  - cbn [forallb] in Hu. apply andb_prop in Hu. destruct Hu as [Ho Hops].
    pose proof (step_keeps st o Hinv Ho) as (Hinv1 & Hagree & Hlen & x & Hpool).
    destruct (IH (s_step st o) Hinv1 Hops) as [Hinv' Hrest].
    split; [exact Hinv'|]. intros fuel i s Hs.
    assert (Hs1 : nth_error (st_pool (s_step st o)) i = Some s).
    { rewrite Hpool. rewrite nth_error_app1; [exact Hs|]. apply nth_error_Some. congruence. }
    destruct (Hrest fuel i s Hs1) as [A B]. split; [exact A|].
    rewrite B. destruct Hinv as [Hc Hp].
    apply vis_ext; [exact Hc|exact Hagree|]. exact (nth_error_Forall _ _ _ _ Hp Hs).
Qed.

(* the statement of C10 on the slice model: whatever was computed before stays
   what it was, whatever is computed afterwards, for every capacity the Go
   runtime may choose *)
Theorem existing_values_never_change : forall ops1 ops2 fuel i s,
  forallb uses_clone (ops1 ++ ops2) = true ->
  nth_error (st_pool (s_run ops1)) i = Some s ->
  nth_error (st_pool (s_run (ops1 ++ ops2))) i = Some s /\
  vis fuel (st_heap (s_run (ops1 ++ ops2))) s = vis fuel (st_heap (s_run ops1)) s.
Proof.
  intros ops1 ops2 fuel i s Hu Hs. unfold s_run in *. rewrite fold_left_app.
  rewrite forallb_app in Hu. apply andb_prop in Hu. destruct Hu as [H1 H2].
  destruct (run_keeps ops1 st0 inv_st0 H1) as [Hinv1 _].
  destruct (run_keeps ops2 _ Hinv1 H2) as [_ R]. apply R, Hs.
Qed.

(* without the copy the statement is false: a slice that stops short of its
   parent's end, extended in place, overwrites the parent *)
Definition careless : list sop := [OLit [VInt 1; VInt 2; VInt 3]; OSub 0 0 2; OLit [VInt 9]; OConcatNoClone 1 2 0].

Theorem without_copy_values_change :
  exists ops1 ops2 i s,
    nth_error (st_pool (s_run ops1)) i = Some s /\
    vis 5 (st_heap (s_run (ops1 ++ ops2))) s <> vis 5 (st_heap (s_run ops1)) s.
Proof.
  exists (firstn 3 careless), (skipn 3 careless), 0, (SSlice 0 0 3 3).
  split; [reflexivity|]. vm_compute. discriminate.
Qed.
