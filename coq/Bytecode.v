(* Bytecode.v — model of types/bytecode/bytecode.go: the fixed 64-bit
   instruction word.  Instructions are Z values in [0, 2^64); the Go code's
   uint64 arithmetic is mirrored with lor/land/shiftl/shiftr.  A Go panic is
   None. *)
Require Import Calc.Base.
Open Scope Z_scope.

(* Instruction layout (bit positions), as the const block of bytecode.go *)
Definition OpcodeHi := 63.   Definition OpcodeLo := 57.
Definition Src2Hi := 56.     Definition Src2Lo := 54.
Definition Src1Hi := 53.     Definition Src1Lo := 51.
Definition Src0Hi := 50.     Definition Src0Lo := 48.
Definition Src2AddrHi := 47. Definition Src2AddrLo := 32.
Definition Src1AddrHi := 31. Definition Src1AddrLo := 16.
Definition Src0AddrHi := 15. Definition Src0AddrLo := 0.
Definition SrcChanWidth := 16.

(* Source addressing kinds *)
Definition AddrInv := 0.  Definition AddrImm := 1. Definition AddrGbl := 2.
Definition AddrLcl := 3.  Definition AddrCls := 4. Definition AddrStck := 5.
Definition AddrTmp := 6.  Definition AddrDS := 7.

Definition TempFlag := Z.shiftl 1 (OpcodeHi - OpcodeLo).   (* 64 *)

(* Opcodes: the iota block *)
Definition NOP := 0. Definition PUSH := 1. Definition POP := 2. Definition MOV := 3.
Definition ADD := 4. Definition SUB := 5. Definition MUL := 6. Definition DIV := 7.
Definition MOD := 8. Definition INC := 9.
Definition NOT := 10. Definition AND := 11. Definition OR := 12.
Definition LT := 13. Definition GT := 14. Definition LE := 15. Definition GE := 16.
Definition EQ := 17. Definition NE := 18.
Definition LSH := 19. Definition RSH := 20. Definition FLIP := 21.
Definition IX1 := 22. Definition IX2 := 23. Definition LEN := 24. Definition ARR := 25.
Definition JMP := 26. Definition JMPF := 27. Definition JMPT := 28.
Definition FUNC := 29. Definition CALL := 30. Definition RET := 31.
Definition CCONT := 32. Definition DCONT := 33. Definition RCONT := 34.
Definition SCONT := 35. Definition YIELD := 36.
Definition READ := 37. Definition WRITE := 38. Definition ATON := 39.
Definition TOA := 40. Definition EXIT := 41.
Definition PUSHTMP := TempFlag + PUSH.

Definition opcode_names : list (Z * string) :=
  [(NOP,"NOP");(PUSH,"PUSH");(POP,"POP");(MOV,"MOV");(ADD,"ADD");(SUB,"SUB");(MUL,"MUL");
   (DIV,"DIV");(MOD,"MOD");(INC,"INC");(NOT,"NOT");(AND,"AND");(OR,"OR");(LT,"LT");(GT,"GT");
   (LE,"LE");(GE,"GE");(EQ,"EQ");(NE,"NE");(LSH,"LSH");(RSH,"RSH");(FLIP,"FLIP");(IX1,"IX1");
   (IX2,"IX2");(LEN,"LEN");(ARR,"ARR");(JMP,"JMP");(JMPF,"JMPF");(JMPT,"JMPT");(FUNC,"FUNC");
   (CALL,"CALL");(RET,"RET");(CCONT,"CCONT");(DCONT,"DCONT");(RCONT,"RCONT");(SCONT,"SCONT");
   (YIELD,"YIELD");(READ,"READ");(WRITE,"WRITE");(ATON,"ATON");(TOA,"TOA");(EXIT,"EXIT")].

Definition mask (hi lo : Z) : Z := Z.shiftl 1 (hi - lo + 1) - 1.

(* New(op) *)
Definition New (op : Z) : Z := Z.shiftl (Z.land op (mask OpcodeHi OpcodeLo)) OpcodeLo.

(* EncodeSrc(srcsel, src, srcAddr); None = panic (range or wrong srcsel) *)
Definition EncodeSrc (srcsel src srcAddr : Z) : option Z :=
  if (srcAddr <? - Z.shiftl 1 (SrcChanWidth - 1)) || (srcAddr >=? Z.shiftl 1 (SrcChanWidth - 1))
  then None
  else
    let addr := u64 srcAddr in
    if srcsel =? 0 then
      Some (Z.lor (Z.shiftl (Z.land src (mask Src0Hi Src0Lo)) Src0Lo)
                  (Z.shiftl (Z.land addr (mask Src0AddrHi Src0AddrLo)) Src0AddrLo))
    else if srcsel =? 1 then
      Some (Z.lor (Z.shiftl (Z.land src (mask Src1Hi Src1Lo)) Src1Lo)
                  (Z.shiftl (Z.land addr (mask Src1AddrHi Src1AddrLo)) Src1AddrLo))
    else if srcsel =? 2 then
      Some (Z.lor (Z.shiftl (Z.land src (mask Src2Hi Src2Lo)) Src2Lo)
                  (Z.shiftl (Z.land addr (mask Src2AddrHi Src2AddrLo)) Src2AddrLo))
    else None.

Definition field (b hi lo : Z) : Z := Z.land (Z.shiftr b lo) (mask hi lo).

Definition OpCode (b : Z) : Z := field b OpcodeHi OpcodeLo.
Definition Src0 (b : Z) : Z := field b Src0Hi Src0Lo.
Definition Src1 (b : Z) : Z := field b Src1Hi Src1Lo.
Definition Src2 (b : Z) : Z := field b Src2Hi Src2Lo.

(* convImm: sign-extend the 16-bit channel, then int(n) *)
Definition convImm (n : Z) : Z :=
  if Z.testbit n (SrcChanWidth - 1) then n - Z.shiftl 1 SrcChanWidth else n.

Definition Src0Addr (b : Z) : Z := convImm (field b Src0AddrHi Src0AddrLo).
Definition Src1Addr (b : Z) : Z := convImm (field b Src1AddrHi Src1AddrLo).
Definition Src2Addr (b : Z) : Z := convImm (field b Src2AddrHi Src2AddrLo).

(* Src(srcsel): only 0 and 1 exist in the Go code *)
Definition Src (b srcsel : Z) : option Z :=
  if srcsel =? 0 then Some (Src0 b) else if srcsel =? 1 then Some (Src1 b) else None.

Definition is_instr (b : Z) : Prop := 0 <= b < two64.

(* ---- function value packing (types/value/value.go NewFunction/ToFunction) ---- *)
Definition paramsCntLo := 48. Definition localCntLo := 32. Definition ipLo := 0.

Definition pack_function (node paramCnt localCnt : Z) : Z :=
  let nd := Z.land (u64 node) (Z.shiftl 1 32 - 1) in
  let pc := Z.land (u64 paramCnt) (Z.shiftl 1 16 - 1) in
  let lc := Z.land (u64 localCnt) (Z.shiftl 1 16 - 1) in
  Z.lor (Z.lor (Z.shiftl pc paramsCntLo) (Z.shiftl lc localCntLo)) (Z.shiftl nd ipLo).

Definition fn_node (m : Z) : Z := Z.land (Z.shiftr m ipLo) (Z.shiftl 1 32 - 1).
Definition fn_params (m : Z) : Z := Z.land (Z.shiftr m paramsCntLo) (Z.shiftl 1 16 - 1).
Definition fn_locals (m : Z) : Z := Z.land (Z.shiftr m localCntLo) (Z.shiftl 1 16 - 1).

(* ---- disassembly (String/srcString), used by runtime error reports ---- *)
Definition srcString (src addr : Z) : string :=
  if src =? AddrDS then "DS[" +++ itoa addr +++ "] "
  else if src =? AddrCls then "CLS[" +++ itoa addr +++ "] "
  else if src =? AddrLcl then "LCL[" +++ itoa addr +++ "] "
  else if src =? AddrGbl then "GBL[" +++ itoa addr +++ "] "
  else if src =? AddrStck then "STCK "
  else if src =? AddrTmp then "TMP "
  else if src =? AddrImm then itoa addr +++ " "
  else "".
