(* StepCode.v — no instruction writes the program: the code segment, the data
   segment (all constants of the program text) and the debug table are the
   same after any step (C10: a literal is the same value every time control
   passes over it; C08: what was compiled stays compiled). *)
Require Import Calc.Base Calc.Bytecode Calc.Value Calc.FloatText Calc.Compile Calc.VM Calc.MemProofs Calc.StepErr.
Open Scope Z_scope.

Definition code_of (v : vm) := (v_cs v, v_ncs v, v_ds v, v_dbg v).

Lemma code_set_mem v mid m g : code_of (set_mem v mid m g) = code_of v. Proof. reflexivity. Qed.
Lemma code_set_ctx v cid c : code_of (set_ctx v cid c) = code_of v. Proof. reflexivity. Qed.
Lemma code_set_globals v g : code_of (set_globals v g) = code_of v. Proof. reflexivity. Qed.
Lemma code_bump v : code_of (fst (bump v)) = code_of v. Proof. reflexivity. Qed.
Lemma code_add_frame v f : code_of (fst (add_frame v f)) = code_of v. Proof. reflexivity. Qed.
Lemma code_write_out v s : code_of (write_out v s) = code_of v. Proof. reflexivity. Qed.
Lemma code_set_in v l : code_of (set_in v l) = code_of v. Proof. reflexivity. Qed.
Lemma code_flag_stale v : code_of (flag_stale v) = code_of v. Proof. reflexivity. Qed.
Lemma code_flag_dead v : code_of (flag_dead v) = code_of v. Proof. reflexivity. Qed.

Lemma code_vPush v mid x v' : vPush v mid x = Good v' -> code_of v' = code_of v.
Proof. unfold vPush, get_mem, obind, req. repeat brk; intros H; try discriminate; inversion H; subst; reflexivity. Qed.

Lemma code_vPop v mid v' x : vPop v mid = Good (v', x) -> code_of v' = code_of v.
Proof. unfold vPop, get_mem, obind, req. repeat brk; intros H; try discriminate; inversion H; subst; reflexivity. Qed.

Lemma code_read_frame v f ix v' x : read_frame v f ix = Good (v', x) -> code_of v' = code_of v.
Proof.
  unfold read_frame, obind, req. repeat brk; intros H; try discriminate; inversion H; subst; try reflexivity;
    repeat match goal with |- context [if ?b then _ else _] => destruct b end; reflexivity.
Qed.

Lemma code_frame_content v f : code_of (fst (frame_content v f)) = code_of v.
Proof.
  unfold frame_content. repeat brk; cbn [fst]; try reflexivity;
    repeat match goal with |- context [if ?b then _ else _] => destruct b end; reflexivity.
Qed.

Lemma code_fetch v mid s a v' x : fetch v mid s a = Good (v', x) -> code_of v' = code_of v.
Proof.
  unfold fetch, get_mem, obind, req.
  repeat brk; intros H; try discriminate; try (inversion H; subst; reflexivity);
    try (eapply code_vPop; eassumption); try (eapply code_read_frame; eassumption).
Qed.

Lemma code_delete_ctx fuel : forall v cid, code_of (delete_ctx fuel v cid) = code_of v.
Proof.
  induction fuel as [|k IH]; intros v cid; [reflexivity|].
  change (delete_ctx (S k) v cid) with
    (match assoc_get (v_ctxs v) cid with
     | None => v
     | Some c =>
         let v1 := fold_left (fun acc ch => delete_ctx k acc (snd ch)) (c_children c) v in
         let v2 := match assoc_get (v_mems v1) (c_mid c) with
                   | Some m => set_mem v1 (c_mid c) (mReset m) false
                   | None => v1
                   end in
         {| v_cs := v_cs v2; v_ncs := v_ncs v2; v_ds := v_ds v2; v_dbg := v_dbg v2; v_globals := v_globals v2;
            v_mems := v_mems v2; v_ctxs := assoc_del (v_ctxs v2) cid; v_frames := v_frames v2; v_next := v_next v2;
            v_out := v_out v2; v_in := v_in v2; v_dead_read := v_dead_read v2; v_grew_captured := v_grew_captured v2 |}
     end).
  destruct (assoc_get (v_ctxs v) cid) as [c|]; [|reflexivity].
  assert (F : forall (l : list (Z * Z)) v0, code_of (fold_left (fun acc ch => delete_ctx k acc (snd ch)) l v0) = code_of v0).
  { induction l as [|x l IHl]; intros v0; [reflexivity|]. cbn [fold_left]. rewrite IHl. apply IH. }
  cbv zeta.
  destruct (assoc_get (v_mems (fold_left (fun acc ch => delete_ctx k acc (snd ch)) (c_children c) v)) (c_mid c));
    unfold code_of; cbn [v_cs v_ncs v_ds v_dbg set_mem]; apply F.
Qed.

Lemma code_delete_range v cid lo hi v' : delete_range v cid lo hi = Good v' -> code_of v' = code_of v.
Proof.
  unfold delete_range, get_ctx, get_mem, obind, req.
  destruct (assoc_get (v_ctxs v) cid) as [c|]; [|discriminate].
  destruct (assoc_get (v_mems v) (c_mid c)) as [m|]; [|discriminate].
  intros H. inversion H; subst; clear H.
  generalize (map (fun i : nat => lo + Z.of_nat i) (seq 0 (Z.to_nat (hi - lo + 1)))). intros ids.
  revert v. induction ids as [|i ids IH]; intros v; [reflexivity|]. cbn [fold_left].
  rewrite IH. clear IH.
  destruct (assoc_get (v_ctxs v) cid) as [c'|]; [|reflexivity].
  destruct (assoc_get (c_children c') (hashContext m i)) as [child|]; [|reflexivity].
  destruct (assoc_get (v_ctxs (delete_ctx ctx_fuel v child)) cid); [rewrite code_set_ctx|]; apply code_delete_ctx.
Qed.

Lemma code_sgds v addr x v' : set_global_from_ds v addr x = Good v' -> code_of v' = code_of v.
Proof. unfold set_global_from_ds, obind, req. repeat brk; intros H; try discriminate; inversion H; subst; reflexivity. Qed.

Ltac code_facts :=
  repeat match goal with
  | H : fetch _ _ _ _ = Good (_, _) |- _ => apply code_fetch in H
  | H : vPush _ _ _ = Good _ |- _ => apply code_vPush in H
  | H : vPop _ _ = Good (_, _) |- _ => apply code_vPop in H
  | H : delete_range _ _ _ _ = Good _ |- _ => apply code_delete_range in H
  | H : set_global_from_ds _ _ _ = Good _ |- _ => apply code_sgds in H
  | H : bump ?v = (?v1, ?z) |- _ =>
      let E := fresh "E" in assert (E : code_of v1 = code_of v) by (rewrite <- (code_bump v), H; reflexivity); clear H
  | H : add_frame ?v ?f = (?v1, ?z) |- _ =>
      let E := fresh "E" in assert (E : code_of v1 = code_of v) by (rewrite <- (code_add_frame v f), H; reflexivity); clear H
  | H : frame_content ?v ?f = (?v1, ?z) |- _ =>
      let E := fresh "E" in assert (E : code_of v1 = code_of v) by (rewrite <- (code_frame_content v f), H; reflexivity); clear H
  end.

Theorem step_keeps_program v r b v' r' :
  step v r b = SNext v' r' -> code_of v' = code_of v.
Proof.
  unfold step, lift, obind, req, next.
  repeat brk; intros H; try discriminate; inversion H; subst;
    repeat match goal with p : (_ * _)%type |- _ => destruct p end; cbn [fst snd] in *; code_facts;
    rewrite ?code_set_mem, ?code_set_ctx, ?code_set_globals, ?code_write_out, ?code_set_in in *; try congruence; try reflexivity.
  all: rewrite ?code_set_mem, ?code_set_ctx, ?code_set_globals, ?code_write_out, ?code_set_in; congruence.
Qed.

(* fetching a constant: the same data-segment cell gives the same value before and after any step *)
Corollary constants_survive_a_step v r b v' r' addr :
  step v r b = SNext v' r' -> znth (v_ds v') addr = znth (v_ds v) addr.
Proof. intros H. apply step_keeps_program in H. unfold code_of in H. inversion H. congruence. Qed.

Lemma step_err_keeps_program v r b v' cid ip e vals :
  step v r b = SErr v' cid ip e vals -> code_of v' = code_of v.
Proof.
  unfold step, lift, obind, req.
  repeat brk; intros H; try discriminate; inversion H; subst;
    repeat match goal with Hf : fetch _ _ _ _ = Good (_, _) |- _ => apply code_fetch in Hf end;
    try congruence; reflexivity.
Qed.

Lemma fold_delete_code k (l : list (Z * Z)) : forall v, code_of (fold_left (fun acc ch => delete_ctx k acc (snd ch)) l v) = code_of v.
Proof. induction l as [|x l IH]; intros v; [reflexivity|]. cbn [fold_left]. rewrite IH. apply code_delete_ctx. Qed.

Lemma code_reset v : code_of (reset_after_error v) = code_of v.
Proof.
  unfold reset_after_error. generalize ctx_fuel. intros k.
  set (v1 := match assoc_get (v_ctxs v) 0 with
             | Some c => fold_left (fun acc ch => delete_ctx k acc (snd ch)) (c_children c) v
             | None => v end).
  assert (C1 : code_of v1 = code_of v).
  { unfold v1. destruct (assoc_get (v_ctxs v) 0) as [c|]; [apply fold_delete_code|reflexivity]. }
  clearbody v1.
  destruct (assoc_get (v_mems v1) 0) as [m|].
  - destruct (assoc_get (v_ctxs (set_mem v1 0 (mReset m) false)) 0); rewrite ?code_set_ctx, ?code_set_mem; exact C1.
  - destruct (assoc_get (v_ctxs v1) 0); rewrite ?code_set_ctx; exact C1.
Qed.

(* and any number of steps, whatever the outcome *)
Theorem run_keeps_program fuel : forall v r b, code_of (fst (run_loop fuel v r b)) = code_of v.
Proof.
  induction fuel as [|k IH]; intros v r b; cbn [run_loop]; [reflexivity|].
  destruct (r_ip r <? v_ncs v).
  - destruct (step v r b) as [v' r'|v' cid ip e vals|w|c] eqn:S; cbn [fst]; try reflexivity.
    + rewrite IH. apply (step_keeps_program _ _ _ _ _ S).
    + rewrite code_reset. apply (step_err_keeps_program _ _ _ _ _ _ _ _ S).
  - destruct (assoc_get (v_ctxs v) (r_ctx r)) as [c|]; [|reflexivity].
    destruct b; [|cbn [fst]; apply code_set_ctx].
    destruct (vPop _ _) as [[v2 x]|] eqn:P; cbn [fst]; [|apply code_set_ctx].
    apply code_vPop in P. rewrite P. apply code_set_ctx.
Qed.
