(* Mem18.v — C18: histories of memory operations.

   Two machines run the same operation list:
     G  the Go algorithm (memory/memory.go) on the memory model of VM.v: one
        growing slice per memory, frame pointer pairs, closure frames that are
        aliases into a stack slice or owned copies, Clone with or without a
        recycled target;
     A  the specification: a memory is a list of activations, each with its own
        local variables and its own operand stack; a captured frame refers to an
        activation; nothing else.
   C18 says every read gives the same value in both.  G flags a read as
   "stale" when it goes through an alias taken before the source slice grew
   (K1) and as "dead" when the aliased activation is gone (K2 territory). *)
Require Import Calc.Base Calc.Bytecode Calc.Value Calc.FloatText Calc.Compile Calc.VM.
Open Scope Z_scope.

Inductive mop :=
| MPush (m : Z) (v : value)
| MPop (m : Z)
| MPushFrame (m a l : Z)
| MPopFrame (m : Z)
| MSet (m i : Z) (v : value)
| MLocal (m i : Z)
| MCapture (m : Z)               (* a new handle for m.Top() *)
| MOwn (h : Z)                   (* a new handle for slices.Clone of handle h *)
| MPushClosure (m h : Z)
| MPopClosure (m : Z)
| MClosure (m i : Z)
| MSetGlobal (n : string) (v : value)
| MGlobal (n : string)
| MClone (m : Z) (reuse : option Z)
| MIPGet (m : Z)
| MIPSet (m : Z) (v : value).

(* what one operation shows *)
Inductive obs :=
| ONone                          (* nothing to observe *)
| OVal (v : value)
| OIllegal                       (* the specification rejects the operation *)
| OAbort (why : string).         (* the Go code panics *)

(* ================= G: the Go algorithm ================= *)
Record gworld := {
  gw_mems : list (Z * mem);
  gw_handles : list framed;      (* handle k = k-th created *)
  gw_globals : list (string * value);
  gw_next_mem : Z;
  gw_serial : Z;
  gw_stale : bool;               (* some read so far went through an alias older than a growth of its slice *)
  gw_dead : bool                 (* some read so far went through an alias of a finished activation *)
}.

Definition gw_init : gworld :=
  {| gw_mems := [(0, mem_new)]; gw_handles := []; gw_globals := []; gw_next_mem := 1; gw_serial := 1;
     gw_stale := false; gw_dead := false |}.

Definition gset (w : gworld) (mid : Z) (m : mem) : gworld :=
  {| gw_mems := assoc_set (gw_mems w) mid m; gw_handles := gw_handles w; gw_globals := gw_globals w;
     gw_next_mem := gw_next_mem w; gw_serial := gw_serial w; gw_stale := gw_stale w; gw_dead := gw_dead w |}.

Definition gflag (w : gworld) (stale dead : bool) : gworld :=
  {| gw_mems := gw_mems w; gw_handles := gw_handles w; gw_globals := gw_globals w;
     gw_next_mem := gw_next_mem w; gw_serial := gw_serial w;
     gw_stale := gw_stale w || stale; gw_dead := gw_dead w || dead |}.

(* m.Top() *)
Definition g_top (mid : Z) (m : mem) : framed :=
  match fp_at m (-2), fp_at m (-1), last_opt (m_serials m) with
  | Good fp, Good le, Some ser => FAlias mid ser fp (le - fp) (m_gen m)
  | _, _, _ => FNone
  end.

(* reading slot ix of a frame value; returns the value and (stale, dead) *)
Definition g_read (w : gworld) (f : framed) (ix : Z) : outcome (value * bool * bool) :=
  match f with
  | FNone => Abort "closure frame: index out of range"
  | FOwned vals => x <~ req (znth vals ix) "closure frame: index out of range" ;; Good (x, false, false)
  | FAlias mid serial base len gen =>
      if (ix <? 0) || (ix >=? len) then Abort "closure frame: index out of range"
      else
        match assoc_get (gw_mems w) mid with
        | None => Good (VNil, false, true)
        | Some m =>
            let live := existsb (fun s => s =? serial) (m_serials m) in
            match znth (m_stack m) (base + ix) with
            | Some x => Good (x, negb (m_gen m =? gen), negb live)
            | None => Good (VNil, false, true)
            end
        end
  end.

Definition g_content (w : gworld) (f : framed) : framed * bool * bool :=
  match f with
  | FAlias mid serial base len gen =>
      match assoc_get (gw_mems w) mid with
      | None => (FOwned (repeat VNil (Z.to_nat len)), false, true)
      | Some m =>
          let live := existsb (fun s => s =? serial) (m_serials m) in
          (FOwned (firstn (Z.to_nat len) (skipn (Z.to_nat base) (m_stack m))),
           negb ((m_gen m =? gen) || (len =? 0)), negb live)
      end
  | x => (x, false, false)
  end.

(* Clone(reuse) with reuse != nil: the recycled memory keeps its slice, grown if too short *)
Definition mCloneReuse (m r : mem) (serial : Z) : outcome mem :=
  let newClosure := match last_opt (m_clos m) with Some f => [f] | None => [] end in
  if zlen (m_fp m) <? 2 then
    let st := if zlen (m_stack r) <? minStackSize
              then m_stack r ++ repeat VNil (Z.to_nat (minStackSize - zlen (m_stack r))) else m_stack r in
    (* the Go code returns a new Type sharing reuse's slices *)
    Good {| m_sp := 0; m_fp := []; m_clos := newClosure; m_stack := st; m_serials := []; m_cap := [];
            m_gen := m_gen r + 1 |}
  else
    fp <~ fp_at m (-2) ;;
    le <~ fp_at m (-1) ;;
    if (fp <? 0) || (m_sp m <? fp) || (m_sp m >? zlen (m_stack m)) then Abort "Clone: slice bounds out of range"
    else
      let size := Z.max (m_sp m - fp) minStackSize in
      let st := if zlen (m_stack r) <? size
                then m_stack r ++ repeat VNil (Z.to_nat (size - zlen (m_stack r))) else m_stack r in
      let part := firstn (Z.to_nat (m_sp m - fp)) (skipn (Z.to_nat fp) (m_stack m)) in
      Good {| m_sp := m_sp m - fp; m_fp := [0; le - fp]; m_clos := newClosure;
              m_stack := part ++ skipn (List.length part) st;
              m_serials := [serial]; m_cap := []; m_gen := m_gen r + 1 |}.

Definition g_step (w : gworld) (o : mop) : gworld * obs :=
  let getm mid := req (assoc_get (gw_mems w) mid) "no such memory" in
  let fin (r : outcome (gworld * obs)) := match r with Good x => x | Abort why => (w, OAbort why) end in
  fin (match o with
  | MPush mid v =>
      m <~ getm mid ;; r <~ mPush m v ;; Good (gset w mid (fst r), ONone)
  | MPop mid =>
      m <~ getm mid ;; r <~ mPop m ;; Good (gset w mid (fst r), OVal (snd r))
  | MPushFrame mid a l =>
      m <~ getm mid ;; r <~ mPushFrame m a l (gw_serial w) ;;
      let w1 := gset w mid (fst r) in
      Good ({| gw_mems := gw_mems w1; gw_handles := gw_handles w1; gw_globals := gw_globals w1;
               gw_next_mem := gw_next_mem w1; gw_serial := gw_serial w1 + 1; gw_stale := gw_stale w1; gw_dead := gw_dead w1 |}, ONone)
  | MPopFrame mid =>
      m <~ getm mid ;; m' <~ mPopFrame m ;; Good (gset w mid m', ONone)
  | MSet mid i v =>
      m <~ getm mid ;; m' <~ mSet m i v ;; Good (gset w mid m', ONone)
  | MLocal mid i =>
      m <~ getm mid ;; x <~ mLookUpLocal m i ;; Good (w, OVal x)
  | MCapture mid =>
      m <~ getm mid ;;
      Good ({| gw_mems := gw_mems w; gw_handles := gw_handles w ++ [g_top mid m]; gw_globals := gw_globals w;
               gw_next_mem := gw_next_mem w; gw_serial := gw_serial w; gw_stale := gw_stale w; gw_dead := gw_dead w |}, ONone)
  | MOwn h =>
      f <~ req (nth_error (gw_handles w) (Z.to_nat h)) "no such handle" ;;
      let '(c, st, dd) := g_content w f in
      let w1 := gflag w st dd in
      Good ({| gw_mems := gw_mems w1; gw_handles := gw_handles w1 ++ [c]; gw_globals := gw_globals w1;
               gw_next_mem := gw_next_mem w1; gw_serial := gw_serial w1; gw_stale := gw_stale w1; gw_dead := gw_dead w1 |}, ONone)
  | MPushClosure mid h =>
      m <~ getm mid ;;
      f <~ req (nth_error (gw_handles w) (Z.to_nat h)) "no such handle" ;;
      Good (gset w mid {| m_sp := m_sp m; m_fp := m_fp m; m_clos := m_clos m ++ [f]; m_stack := m_stack m;
                          m_serials := m_serials m; m_cap := m_cap m; m_gen := m_gen m |}, ONone)
  | MPopClosure mid =>
      m <~ getm mid ;;
      match m_clos m with
      | [] => Abort "PopClosure: slice bounds out of range"
      | _ => Good (gset w mid {| m_sp := m_sp m; m_fp := m_fp m; m_clos := drop_last 1 (m_clos m); m_stack := m_stack m;
                                 m_serials := m_serials m; m_cap := m_cap m; m_gen := m_gen m |}, ONone)
      end
  | MClosure mid i =>
      m <~ getm mid ;;
      f <~ req (last_opt (m_clos m)) "closure stack empty" ;;
      r <~ g_read w f i ;;
      let '(x, st, dd) := r in Good (gflag w st dd, OVal x)
  | MSetGlobal n v =>
      Good ({| gw_mems := gw_mems w; gw_handles := gw_handles w; gw_globals := sassoc_set (gw_globals w) n v;
               gw_next_mem := gw_next_mem w; gw_serial := gw_serial w; gw_stale := gw_stale w; gw_dead := gw_dead w |}, ONone)
  | MGlobal n =>
      Good (w, OVal (match sassoc_get (gw_globals w) n with Some x => x | None => VNil end))
  | MClone mid reuse =>
      m <~ getm mid ;;
      match reuse with
      | None =>
          c <~ mClone m (gw_serial w) ;;
          Good ({| gw_mems := assoc_set (gw_mems w) (gw_next_mem w) c; gw_handles := gw_handles w; gw_globals := gw_globals w;
                   gw_next_mem := gw_next_mem w + 1; gw_serial := gw_serial w + 1; gw_stale := gw_stale w; gw_dead := gw_dead w |}, ONone)
      | Some rid =>
          r <~ getm rid ;;
          c <~ mCloneReuse m r (gw_serial w) ;;
          Good ({| gw_mems := assoc_set (gw_mems w) rid c; gw_handles := gw_handles w; gw_globals := gw_globals w;
                   gw_next_mem := gw_next_mem w; gw_serial := gw_serial w + 1; gw_stale := gw_stale w; gw_dead := gw_dead w |}, ONone)
      end
  | MIPGet mid =>
      m <~ getm mid ;; le <~ fp_at m (-1) ;; x <~ stack_get m le ;; Good (w, OVal x)
  | MIPSet mid v =>
      m <~ getm mid ;; le <~ fp_at m (-1) ;; m' <~ stack_set m le v ;; Good (gset w mid m', ONone)
  end).

(* ================= A: the specification ================= *)
Inductive aframe :=
| ANone
| ARef (mid serial : Z)
| AOwn (vals : list value).

Record aact := { aa_serial : Z; aa_locals : list value; aa_ops : list value }.   (* operands: last = top *)

Record amem := {
  am_base : list value;          (* operands pushed outside any activation *)
  am_acts : list aact;           (* innermost last *)
  am_clos : list aframe
}.

Record aworld := {
  aw_mems : list (Z * amem);
  aw_handles : list aframe;
  aw_globals : list (string * value);
  aw_next_mem : Z;
  aw_serial : Z
}.

Definition aw_init : aworld :=
  {| aw_mems := [(0, {| am_base := []; am_acts := []; am_clos := [] |})]; aw_handles := []; aw_globals := [];
     aw_next_mem := 1; aw_serial := 1 |}.

Definition aset (w : aworld) (mid : Z) (m : amem) : aworld :=
  {| aw_mems := assoc_set (aw_mems w) mid m; aw_handles := aw_handles w; aw_globals := aw_globals w;
     aw_next_mem := aw_next_mem w; aw_serial := aw_serial w |}.

(* the operand stack that is current in a memory *)
Definition a_ops (m : amem) : list value :=
  match last_opt (am_acts m) with Some a => aa_ops a | None => am_base m end.

Definition a_with_ops (m : amem) (ops : list value) : amem :=
  match last_opt (am_acts m) with
  | Some a => {| am_base := am_base m;
                 am_acts := drop_last 1 (am_acts m) ++ [{| aa_serial := aa_serial a; aa_locals := aa_locals a; aa_ops := ops |}];
                 am_clos := am_clos m |}
  | None => {| am_base := ops; am_acts := am_acts m; am_clos := am_clos m |}
  end.

Definition a_with_locals (m : amem) (a : aact) (ls : list value) : amem :=
  {| am_base := am_base m;
     am_acts := drop_last 1 (am_acts m) ++ [{| aa_serial := aa_serial a; aa_locals := ls; aa_ops := aa_ops a |}];
     am_clos := am_clos m |}.

Definition find_act (m : amem) (serial : Z) : option aact :=
  find (fun a => aa_serial a =? serial) (am_acts m).

Definition a_read (w : aworld) (f : aframe) (ix : Z) : option value :=
  match f with
  | ANone => None
  | AOwn vals => znth vals ix
  | ARef mid serial =>
      match assoc_get (aw_mems w) mid with
      | Some m => match find_act m serial with Some a => znth (aa_locals a) ix | None => None end
      | None => None
      end
  end.

Definition opt_obs (o : option (aworld * obs)) (w : aworld) : aworld * obs :=
  match o with Some x => x | None => (w, OIllegal) end.

Definition a_step (w : aworld) (o : mop) : aworld * obs :=
  let getm mid := assoc_get (aw_mems w) mid in
  opt_obs (match o with
  | MPush mid v =>
      match getm mid with
      | Some m => Some (aset w mid (a_with_ops m (a_ops m ++ [v])), ONone)
      | None => None
      end
  | MPop mid =>
      match getm mid with
      | Some m =>
          match last_opt (a_ops m) with
          | Some x => Some (aset w mid (a_with_ops m (drop_last 1 (a_ops m))), OVal x)
          | None => None
          end
      | None => None
      end
  | MPushFrame mid a l =>
      match getm mid with
      | Some m =>
          let ops := a_ops m in
          if (a <? 0) || (l <? a) || (zlen ops <? a) then None
          else
            let args := skipn (List.length ops - Z.to_nat a) ops in
            let m1 := a_with_ops m (firstn (List.length ops - Z.to_nat a) ops) in
            let act := {| aa_serial := aw_serial w; aa_locals := args ++ repeat VNil (Z.to_nat (l - a)); aa_ops := [] |} in
            let m2 := {| am_base := am_base m1; am_acts := am_acts m1 ++ [act]; am_clos := am_clos m1 |} in
            let w1 := aset w mid m2 in
            Some ({| aw_mems := aw_mems w1; aw_handles := aw_handles w1; aw_globals := aw_globals w1;
                     aw_next_mem := aw_next_mem w1; aw_serial := aw_serial w1 + 1 |}, ONone)
      | None => None
      end
  | MPopFrame mid =>
      match getm mid with
      | Some m =>
          match am_acts m with
          | [] => None
          | _ => Some (aset w mid {| am_base := am_base m; am_acts := drop_last 1 (am_acts m); am_clos := am_clos m |}, ONone)
          end
      | None => None
      end
  | MSet mid i v =>
      match getm mid with
      | Some m =>
          match last_opt (am_acts m) with
          | Some a =>
              if (0 <=? i) && (i <? zlen (aa_locals a))
              then Some (aset w mid (a_with_locals m a (zset (aa_locals a) (Z.to_nat i) v)), ONone)
              else None
          | None => None
          end
      | None => None
      end
  | MLocal mid i =>
      match getm mid with
      | Some m =>
          match last_opt (am_acts m) with
          | Some a => match znth (aa_locals a) i with Some x => Some (w, OVal x) | None => None end
          | None => None
          end
      | None => None
      end
  | MCapture mid =>
      match getm mid with
      | Some m =>
          let f := match last_opt (am_acts m) with Some a => ARef mid (aa_serial a) | None => ANone end in
          Some ({| aw_mems := aw_mems w; aw_handles := aw_handles w ++ [f]; aw_globals := aw_globals w;
                   aw_next_mem := aw_next_mem w; aw_serial := aw_serial w |}, ONone)
      | None => None
      end
  | MOwn h =>
      match nth_error (aw_handles w) (Z.to_nat h) with
      | Some f =>
          let c := match f with
                   | ANone => Some ANone
                   | AOwn v => Some (AOwn v)
                   | ARef mid serial =>
                       match assoc_get (aw_mems w) mid with
                       | Some m => match find_act m serial with Some a => Some (AOwn (aa_locals a)) | None => None end
                       | None => None
                       end
                   end in
          match c with
          | Some c => Some ({| aw_mems := aw_mems w; aw_handles := aw_handles w ++ [c]; aw_globals := aw_globals w;
                               aw_next_mem := aw_next_mem w; aw_serial := aw_serial w |}, ONone)
          | None => None
          end
      | None => None
      end
  | MPushClosure mid h =>
      match getm mid, nth_error (aw_handles w) (Z.to_nat h) with
      | Some m, Some f => Some (aset w mid {| am_base := am_base m; am_acts := am_acts m; am_clos := am_clos m ++ [f] |}, ONone)
      | _, _ => None
      end
  | MPopClosure mid =>
      match getm mid with
      | Some m =>
          match am_clos m with
          | [] => None
          | _ => Some (aset w mid {| am_base := am_base m; am_acts := am_acts m; am_clos := drop_last 1 (am_clos m) |}, ONone)
          end
      | None => None
      end
  | MClosure mid i =>
      match getm mid with
      | Some m =>
          match last_opt (am_clos m) with
          | Some f => match a_read w f i with Some x => Some (w, OVal x) | None => None end
          | None => None
          end
      | None => None
      end
  | MSetGlobal n v =>
      Some ({| aw_mems := aw_mems w; aw_handles := aw_handles w; aw_globals := sassoc_set (aw_globals w) n v;
               aw_next_mem := aw_next_mem w; aw_serial := aw_serial w |}, ONone)
  | MGlobal n => Some (w, OVal (match sassoc_get (aw_globals w) n with Some x => x | None => VNil end))
  | MClone mid reuse =>
      match getm mid with
      | Some m =>
          let clos := match last_opt (am_clos m) with Some f => [f] | None => [] end in
          let acts := match last_opt (am_acts m) with
                      | Some a => [{| aa_serial := aw_serial w; aa_locals := aa_locals a; aa_ops := aa_ops a |}]
                      | None => []
                      end in
          let c := {| am_base := []; am_acts := acts; am_clos := clos |} in
          match reuse with
          | None =>
              Some ({| aw_mems := assoc_set (aw_mems w) (aw_next_mem w) c; aw_handles := aw_handles w; aw_globals := aw_globals w;
                       aw_next_mem := aw_next_mem w + 1; aw_serial := aw_serial w + 1 |}, ONone)
          | Some rid =>
              match getm rid with
              | Some _ =>
                  if rid =? mid then None
                  else Some ({| aw_mems := assoc_set (aw_mems w) rid c; aw_handles := aw_handles w; aw_globals := aw_globals w;
                                aw_next_mem := aw_next_mem w; aw_serial := aw_serial w + 1 |}, ONone)
              | None => None
              end
          end
      | None => None
      end
  | MIPGet mid =>
      match getm mid with
      | Some m =>
          match last_opt (am_acts m) with
          | Some a => match aa_ops a with x :: _ => Some (w, OVal x) | [] => None end
          | None => None
          end
      | None => None
      end
  | MIPSet mid v =>
      match getm mid with
      | Some m =>
          match last_opt (am_acts m) with
          | Some a =>
              match aa_ops a with
              | _ :: r => Some (aset w mid (a_with_ops m (v :: r)), ONone)
              | [] => None
              end
          | None => None
          end
      | None => None
      end
  end) w.

(* ================= running a history ================= *)
Fixpoint g_run (w : gworld) (ops : list mop) : list (obs * bool * bool) :=
  match ops with
  | [] => []
  | o :: r => let (w', ob) := g_step w o in (ob, gw_stale w', gw_dead w') :: g_run w' r
  end.

Fixpoint a_run (w : aworld) (ops : list mop) : list obs :=
  match ops with
  | [] => []
  | o :: r => let (w', ob) := a_step w o in ob :: a_run w' r
  end.
