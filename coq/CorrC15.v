(* CorrC15.v — executable comparison functions used by the C15 correspondence run. *)
Require Import Calc.Base Calc.Bytecode.
Open Scope Z_scope.

Definition optZ_eqb (a b : option Z) : bool :=
  match a, b with
  | Some x, Some y => x =? y
  | None, None => true
  | _, _ => false
  end.

(* (sel, kind, addr, what Go returned: Some word or None for a panic) *)
Definition chk_enc (c : Z * Z * Z * option Z) : bool :=
  let '(sel, kind, addr, r) := c in optZ_eqb (EncodeSrc sel kind addr) r.

(* (op, word Go's New returned) *)
Definition chk_new (c : Z * Z) : bool := let '(op, w) := c in New op =? w.

(* (word, fields Go decoded: op k0 k1 k2 a0 a1 a2) *)
Definition chk_dec (c : Z * list Z) : bool :=
  let '(w, fs) := c in
  match fs with
  | [op; k0; k1; k2; a0; a1; a2] =>
      (OpCode w =? op) && (Src0 w =? k0) && (Src1 w =? k1) && (Src2 w =? k2)
      && (Src0Addr w =? a0) && (Src1Addr w =? a1) && (Src2Addr w =? a2)
  | _ => false
  end.

(* (node, pc, lc, node', pc', lc') as Go's NewFunction/ToFunction round trip *)
Definition chk_fn (c : list Z) : bool :=
  match c with
  | [nd; pc; lc; nd'; pc'; lc'] =>
      let m := pack_function nd pc lc in
      (fn_node m =? nd') && (fn_params m =? pc') && (fn_locals m =? lc')
  | _ => false
  end.

(* disassembly text of one operand *)
Definition chk_srcstring (c : Z * Z * string) : bool :=
  let '(k, a, s) := c in String.eqb (srcString k a) s.
