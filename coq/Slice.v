(* Slice.v — C10: Go slices behind calc's array values.

   An array value is a slice header (backing array, offset, length, capacity);
   slicing shares the backing array, append writes in place when capacity
   allows.  calc's operations on arrays are written here with the primitives
   the Go code uses (types/value/value.go Arith and Index, vm/vm.go ARR):
       concatenation  = append(slices.Clone(a), b...)
       slice a[i:j]   = a[i:j]              (shares, keeps capacity to the end)
       ARR            = append(slices.Clone(a), x)
   How much spare capacity Clone and a reallocating append leave is the Go
   runtime's business: it is an oracle argument here, and the theorem holds
   for every oracle. *)
Require Import Calc.Base Calc.Bytecode Calc.Value.
Require Import Lia.
Open Scope nat_scope.

Inductive sval :=
| SScalar (v : value)
| SSlice (arr off len cap : nat).

Definition heap := list (list sval).

Definition cells (h : heap) (a : nat) : list sval := nth a h [].

(* what a value looks like to the program *)
Fixpoint vis (fuel : nat) (h : heap) (s : sval) : value :=
  match fuel with
  | O => VNil
  | S k =>
      match s with
      | SScalar v => v
      | SSlice a o l _ => VArr (map (vis k h) (firstn l (skipn o (cells h a))))
      end
  end.

(* ---------- Go primitives ---------- *)
Definition go_clone (h : heap) (a o l : nat) (extra : nat) : heap * sval :=
  (h ++ [firstn l (skipn o (cells h a)) ++ repeat (SScalar VNil) extra], SSlice (List.length h) 0 l (l + extra)).

Fixpoint set_nth {A} (l : list A) (i : nat) (x : A) : list A :=
  match l, i with
  | [], _ => []
  | _ :: t, O => x :: t
  | y :: t, S j => y :: set_nth t j x
  end.

(* append(s, vs...) *)
Definition go_append (h : heap) (a o l c : nat) (vs : list sval) (extra : nat) : heap * sval :=
  let n := List.length vs in
  if Nat.leb (l + n) c then
    (* room: write behind the slice, in the same backing array *)
    let arr := cells h a in
    let arr' := firstn (o + l) arr ++ vs ++ skipn (o + l + n) arr in
    (set_nth h a arr', SSlice a o (l + n) c)
  else
    (h ++ [firstn l (skipn o (cells h a)) ++ vs ++ repeat (SScalar VNil) extra],
     SSlice (List.length h) 0 (l + n) (l + n + extra)).

(* ---------- calc's operations ---------- *)
Inductive sop :=
| OLit (vs : list value)                    (* a constant array of scalars placed in the data segment *)
| OConcat (a b : nat) (e1 e2 : nat)         (* pool indices; oracles: spare capacity left by Clone / by a reallocating append *)
| OSub (a : nat) (i j : nat)
| OIndex (a : nat) (i : nat)
| OArr (a x : nat) (e1 e2 : nat)            (* ARR: append(Clone(a), x) *)
| OPack (xs : list nat) (e : nat)           (* a new array holding existing values (what a chain of ARR builds) *)
(* the same two without the copy, as a careless implementation would do them *)
| OConcatNoClone (a b : nat) (e2 : nat)
| OArrNoClone (a x : nat) (e2 : nat).

Record sstate := { st_heap : heap; st_pool : list sval }.

Definition st0 : sstate := {| st_heap := []; st_pool := [] |}.

Definition add (h : heap) (p : list sval) (s : sval) : sstate := {| st_heap := h; st_pool := p ++ [s] |}.

(* an operation that does not apply (wrong kinds, bounds) adds Nil to the pool: calc reports an error *)
Definition s_step (st : sstate) (o : sop) : sstate :=
  let h := st_heap st in
  let p := st_pool st in
  let fail := add h p (SScalar VNil) in
  match o with
  | OLit vs => add (h ++ [map SScalar vs]) p (SSlice (List.length h) 0 (List.length vs) (List.length vs))
  | OConcat a b e1 e2 =>
      match nth_error p a, nth_error p b with
      | Some (SSlice aa ao al ac), Some (SSlice ba bo bl bc) =>
          let (h1, c) := go_clone h aa ao al e1 in
          match c with
          | SSlice ca co cl cc =>
              let (h2, r) := go_append h1 ca co cl cc (firstn bl (skipn bo (cells h1 ba))) e2 in add h2 p r
          | _ => fail
          end
      | _, _ => fail
      end
  | OSub a i j =>
      match nth_error p a with
      | Some (SSlice aa ao al ac) =>
          if Nat.leb i j && Nat.leb j al then add h p (SSlice aa (ao + i) (j - i) (ac - i)) else fail
      | _ => fail
      end
  | OIndex a i =>
      match nth_error p a with
      | Some (SSlice aa ao al ac) =>
          if Nat.ltb i al then add h p (nth (ao + i) (cells h aa) (SScalar VNil)) else fail
      | _ => fail
      end
  | OArr a x e1 e2 =>
      match nth_error p a, nth_error p x with
      | Some (SSlice aa ao al ac), Some xv =>
          let (h1, c) := go_clone h aa ao al e1 in
          match c with
          | SSlice ca co cl cc => let (h2, r) := go_append h1 ca co cl cc [xv] e2 in add h2 p r
          | _ => fail
          end
      | _, _ => fail
      end
  | OPack xs e =>
      add (h ++ [map (fun x => nth x p (SScalar VNil)) xs ++ repeat (SScalar VNil) e]) p
          (SSlice (List.length h) 0 (List.length xs) (List.length xs + e))
  | OConcatNoClone a b e2 =>
      match nth_error p a, nth_error p b with
      | Some (SSlice aa ao al ac), Some (SSlice ba bo bl bc) =>
          let (h2, r) := go_append h aa ao al ac (firstn bl (skipn bo (cells h ba))) e2 in add h2 p r
      | _, _ => fail
      end
  | OArrNoClone a x e2 =>
      match nth_error p a, nth_error p x with
      | Some (SSlice aa ao al ac), Some xv =>
          let (h2, r) := go_append h aa ao al ac [xv] e2 in add h2 p r
      | _, _ => fail
      end
  end.

Definition s_run (ops : list sop) : sstate := fold_left s_step ops st0.

(* every pool value as the program sees it *)
Definition fuel_of (st : sstate) : nat := S (S (List.length (st_heap st))).
Definition visible (st : sstate) : list value := map (vis (fuel_of st) (st_heap st)) (st_pool st).

Definition uses_clone (o : sop) : bool :=
  match o with OConcatNoClone _ _ _ | OArrNoClone _ _ _ => false | _ => true end.
