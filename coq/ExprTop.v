(* ExprTop.v — C01 on the pure expression fragment, end to end: ByteCode,
   load, Run on the VM model give the value (or the runtime error class) that
   the definitional semantics gives, and leave the operand stack where it was. *)
Require Import Calc.Sem.
Require Import Calc.Base Calc.Bytecode Calc.BytecodeProofs Calc.Value Calc.FloatText Calc.Ast Calc.Compile Calc.VM
        Calc.MemProofs Calc.StepErr Calc.StepCode Calc.ExprSem Calc.ExprVM Calc.ExprCorrect.
Require Import Lia.
Open Scope Z_scope.

Lemma znth_lt {A} (l : list A) i x : znth l i = Some x -> 0 <= i < zlen l.
Proof.
  unfold znth, zlen. destruct (Z.ltb_spec i 0) as [Hi|Hi]; [discriminate|]. intros Hn.
  assert (Z.to_nat i < List.length l)%nat by (apply nth_error_Some; congruence). lia.
Qed.

Lemma step_in_range v r b :
  (forall w, step v r b <> SAbort w) -> 0 <= r_ip r < zlen (v_cs v).
Proof.
  intros H. unfold step in H. destruct (znth (v_cs v) (r_ip r)) as [i|] eqn:E.
  - exact (znth_lt _ _ _ E).
  - exfalso. apply (H "ip out of range"). reflexivity.
Qed.

Lemma run_loop_steps_ok rr : forall k v r fuel v' r',
  v_ncs v = zlen (v_cs v) ->
  steps rr k v r = SNext v' r' ->
  run_loop (k + fuel) v r rr = run_loop fuel v' r' rr /\ v_ncs v' = zlen (v_cs v') /\ code_of v' = code_of v.
Proof.
  induction k as [|k IH]; intros v r fuel v' r' Hn Hs.
  - cbn in Hs. inversion Hs. subst. auto.
  - cbn [steps] in Hs. destruct (step v r rr) as [v1 r1| | |] eqn:E; try discriminate Hs.
    assert (R : 0 <= r_ip r < zlen (v_cs v)) by (apply (step_in_range v r rr); intros w; rewrite E; discriminate).
    pose proof (step_keeps_program v r rr v1 r1 E) as K. unfold code_of in K. injection K as K1 K2 K3 K4.
    assert (Hn1 : v_ncs v1 = zlen (v_cs v1)) by congruence.
    destruct (IH v1 (with_ip r1 (r_ip r1 + 1)) fuel v' r' Hn1 Hs) as [IH1 [IH2 IH3]].
    cbn [Nat.add run_loop]. assert (B : (r_ip r <? v_ncs v) = true) by (apply Z.ltb_lt; lia).
    rewrite B, E. conj; [exact IH1|exact IH2|]. rewrite IH3. unfold code_of. congruence.
Qed.

Lemma run_loop_steps_error rr : forall k v r fuel v' cid ip e vals,
  v_ncs v = zlen (v_cs v) ->
  steps rr k v r = SErr v' cid ip e vals ->
  run_loop (k + fuel) v r rr = (reset_after_error v', RError e (report_text v' cid ip e vals)).
Proof.
  induction k as [|k IH]; intros v r fuel v' cid ip e vals Hn Hs.
  - cbn in Hs. discriminate.
  - cbn [steps] in Hs. destruct (step v r rr) as [v1 r1|v1 cid1 ip1 e1 vals1| |] eqn:E; try discriminate Hs.
    + assert (R : 0 <= r_ip r < zlen (v_cs v)) by (apply (step_in_range v r rr); intros w; rewrite E; discriminate).
      pose proof (step_keeps_program v r rr v1 r1 E) as K. unfold code_of in K. injection K as K1 K2 K3 K4.
      assert (Hn1 : v_ncs v1 = zlen (v_cs v1)) by congruence.
      cbn [Nat.add run_loop]. assert (B : (r_ip r <? v_ncs v) = true) by (apply Z.ltb_lt; lia).
      rewrite B, E. apply IH; assumption.
    + assert (R : 0 <= r_ip r < zlen (v_cs v)) by (apply (step_in_range v r rr); intros w; rewrite E; discriminate).
      cbn [Nat.add run_loop]. assert (B : (r_ip r <? v_ncs v) = true) by (apply Z.ltb_lt; lia).
      rewrite B, E. inversion Hs. reflexivity.
Qed.

(* the loaded program holds the new code behind the old *)
Lemma code_at_loaded v s s' code :
  wfcs s -> rcs s' = rev code ++ rcs s -> code_at (load_code v s') (ncs s) code.
Proof.
  intros [Hn _] R i x Hi. cbn [load_code v_cs]. rewrite R, rev_app_distr, rev_involutive.
  unfold znth. rewrite Hn. unfold zlen. destruct (Z.ltb_spec (Z.of_nat (List.length (rcs s)) + Z.of_nat i) 0); [lia|].
  rewrite nth_error_app2 by (rewrite rev_length; lia).
  rewrite rev_length. replace (Z.to_nat (Z.of_nat (List.length (rcs s)) + Z.of_nat i) - List.length (rcs s))%nat with i by lia.
  exact Hi.
Qed.

Lemma data_at_loaded v s' : data_at (load_code v s') s'.
Proof. intros i x H. exact H. Qed.

(* the machine between statements: the main context waits at the end of the code *)
Record idle (v : vm) (s : cstate) (c : ctx) (m : mem) : Prop := {
  id_ctx : assoc_get (v_ctxs v) 0 = Some c;
  id_ip : c_ip c = ncs s;
  id_mem : assoc_get (v_mems v) (c_mid c) = Some m;
  id_sp : 0 <= m_sp m <= zlen (m_stack m) }.

Definition agrees (c : ctl) (r : run_result) : Prop :=
  match c, r with
  | CVal x, RValue y => x = y
  | CErr e, RError e' _ => e = e'
  | _, _ => False
  end.

Theorem bytecode_run_pure e s s' v c m fuel :
  pure e = true -> wfcs s -> idle v s c m ->
  ByteCode e s = CompOk s' ->
  (Z.to_nat (ncs s' - ncs s) < fuel)%nat ->
  wfcs s' /\
  match den (v_globals v) e with
  | Ok x =>
      exists v' m', Run fuel (load_code v s') true = (v', RValue x) /\
        assoc_get (v_mems v') (c_mid c) = Some m' /\ m_sp m' = m_sp m /\ msame (m_sp m) m m' /\
        v_globals v' = v_globals v /\ v_out v' = v_out v /\
        (exists c', assoc_get (v_ctxs v') 0 = Some c' /\ c_ip c' = ncs s' /\ c_mid c' = c_mid c /\
                    c_children c' = c_children c)
  | Fail err => exists me rep, Run fuel (load_code v s') true
                               = (reset_after_error (St (load_code v s') (c_mid c) me), RError err rep)
  end.
Proof.
  intros Hp Hwf [Hctx Hip Hmem Hsp] HB Hfuel.
  unfold ByteCode in HB.
  destruct ((instr <- comp e 0 (pass fl0);; (if negb (Src0 instr =? AddrStck) then emit (Z.lor instr (New PUSH)) else cret tt)) s)
    as [[u sfin]| |] eqn:HC; try discriminate HB. injection HB as <-.
  apply cbind_ok in HC. destruct HC as [w [s1 [Hcomp Hfin]]].
  apply (comp_pure_spec e Hp 0 (pass fl0) s w s1 ltac:(lia) Hwf) in Hcomp. apply SpecD_lay in Hcomp.
  destruct Hcomp as [code [K [A (L1 & W1 & Ew & Ok1 & _ & NT & X)]]].
  specialize (NT eq_refl eq_refl eq_refl). cbn [ForbidTemp pass fl0] in X.
  destruct (enc_src0 K A w (okind_range K Ok1) Ew) as [S0 S0a]. rewrite S0 in Hfin.
  set (v1 := load_code v sfin).
  set (r0 := {| r_ctx := 0; r_ip := c_ip c; r_tmp := VNil |}).
  assert (Hrun : Run fuel v1 true = run_loop fuel v1 r0 true).
  { unfold Run. change (v_ctxs v1) with (v_ctxs v). rewrite Hctx. reflexivity. }
  assert (Hmid : cur_mid v1 r0 = Good (c_mid c)).
  { unfold cur_mid, get_ctx. change (v_ctxs v1) with (v_ctxs v). cbn [r0 r_ctx]. rewrite Hctx. reflexivity. }
  assert (Hself : St v1 (c_mid c) m = v1) by (apply St_self; exact Hmem).
  assert (Hncs : v_ncs v1 = zlen (v_cs v1)).
  { cbn [v1 load_code v_ncs v_cs]. unfold zlen. rewrite rev_length.
    destruct (negb (K =? AddrStck)).
    - apply emit_ok in Hfin. subst sfin. exact (proj1 (wfcs_emitted s1 _ W1)).
    - apply cret_ok in Hfin. destruct Hfin as [_ ->]. exact (proj1 W1). }
  assert (Wfin : wfcs sfin).
  { destruct (negb (K =? AddrStck)).
    - apply emit_ok in Hfin. subst sfin. apply wfcs_emitted. exact W1.
    - apply cret_ok in Hfin. destruct Hfin as [_ ->]. exact W1. }
  split; [exact Wfin|].
  rewrite Hrun.
  (* the expression's code, then possibly PUSH *)
  assert (Main : match den (v_globals v) e with
                 | Ok x => exists n m3 r3, (n = Z.to_nat (ncs sfin - ncs s)) /\
                     steps true n (St v1 (c_mid c) m) r0 = SNext (St v1 (c_mid c) m3) r3 /\
                     msame (m_sp m) m m3 /\ m_sp m3 = m_sp m + 1 /\ znth (m_stack m3) (m_sp m) = Some x /\
                     r_ctx r3 = 0 /\ r_ip r3 = ncs sfin
                 | Fail err => exists n me ip vals, (n = Z.to_nat (ncs sfin - ncs s)) /\
                     steps true n (St v1 (c_mid c) m) r0 = SErr (St v1 (c_mid c) me) 0 ip err vals
                 end).
  { destruct (Z.eqb_spec K AddrStck) as [EK|NK]; cbn [negb] in Hfin.
    - apply cret_ok in Hfin. destruct Hfin as [_ ->].
      pose proof (X true v1 (c_mid c) m r0 (code_at_loaded v s s1 code Hwf (proj1 L1)) (data_at_loaded v s1) Hmid Hsp Hip) as E.
      change (v_globals v1) with (v_globals v) in E.
      assert (Hlen : List.length code = Z.to_nat (ncs s1 - ncs s)).
      { destruct L1 as (_ & N & _). unfold zlen in N. lia. }
      destruct (den (v_globals v) e) as [x|err].
      + destruct E as [m3 [r3 [Hs [Hm3 [Hc3 [Hi3 [_ Ho]]]]]]].
        exists (List.length code), m3, r3. conj; try assumption.
        * destruct Ho as [[_ [H1 _]]|[[E1 _]|[[E1 _]|[E1 _]]]]; [exact H1|rewrite EK in E1; discriminate E1|rewrite EK in E1; discriminate E1|rewrite EK in E1; discriminate E1].
        * destruct Ho as [[_ [_ H2]]|[[E1 _]|[[E1 _]|[E1 _]]]]; [exact H2|rewrite EK in E1; discriminate E1|rewrite EK in E1; discriminate E1|rewrite EK in E1; discriminate E1].
      + destruct E as [v' [ip [vals Hs]]]. exists (List.length code), v', ip, vals. conj; assumption.
    - apply emit_ok in Hfin. subst sfin.
      pose proof (lay_emit s s1 code (Z.lor w (New PUSH)) L1) as L2.
      pose proof (code_at_loaded v s (emitted s1 (Z.lor w (New PUSH))) _ Hwf (proj1 L2)) as Hc2.
      fold v1 in Hc2.
      pose proof (code_at_nth v1 (ncs s) code _ [] Hc2) as Hi. apply code_at_app in Hc2. destruct Hc2 as [Hc1 _].
      assert (Hd1 : data_at v1 s1) by (intros i x H; exact H).
      pose proof (X true v1 (c_mid c) m r0 Hc1 Hd1 Hmid Hsp Hip) as E.
      change (v_globals v1) with (v_globals v) in E.
      assert (Hlen : (List.length code + 1)%nat = Z.to_nat (ncs (emitted s1 (Z.lor w (New PUSH))) - ncs s)).
      { destruct L1 as (_ & N & _). unfold zlen in N. cbn [emitted ncs]. lia. }
      destruct (den (v_globals v) e) as [x|err].
      + destruct E as [m2 [r2 [Hs [Hm2 [Hc2 [Hi2 [_ Ho]]]]]]].
        assert (Hat : at_ip v1 r2 (c_mid c) (Z.lor w (New PUSH))).
        { split; [rewrite Hi2; destruct L1 as (_ & N & _); rewrite N; exact Hi|].
          rewrite (cur_mid_ctx v1 r0 r2 Hc2). exact Hmid. }
        assert (Hd : decode (Z.lor w (New PUSH)) =
                     {| f_op := PUSH; f_k0 := K; f_k1 := 0; f_k2 := 0; f_a0 := A; f_a1 := 0; f_a2 := 0 |}).
        { rewrite Z.lor_comm. apply (decode_op0 PUSH K A w ltac:(unfold PUSH; lia) (okind_range K Ok1) Ew). }
        destruct (exec_push true v1 (c_mid c) _ K A _ _ _ _ (m_sp m) m m2 r2 x Hat Hd (proj1 Hsp) Ho NT Hm2)
          as [m3 [Hs3 [Hm3 [Hsp3 Hx3]]]].
        exists (List.length code + 1)%nat, m3, (with_ip r2 (r_ip r2 + 1)).
        conj; try assumption; try (rewrite steps_app, Hs; exact Hs3);
          cbn [with_ip r_ip r_ctx emitted ncs]; try lia; try (rewrite Hc2; reflexivity).
      + destruct E as [v' [ip [vals Hs]]]. exists (List.length code + 1)%nat, v', ip, vals.
        conj; [exact Hlen|]. rewrite steps_app, Hs. reflexivity. }
  rewrite Hself in Main.
  destruct (den (v_globals v) e) as [x|err].
  - destruct Main as [n [m3 [r3 [Hn [Hs [Hm3 [Hsp3 [Hx3 [Hc3 Hi3]]]]]]]]].
    replace fuel with (n + (fuel - n))%nat by lia.
    destruct (run_loop_steps_ok true n v1 r0 (fuel - n) _ _ Hncs Hs) as [Hr [Hn3 Hcode]]. rewrite Hr.
    destruct (fuel - n)%nat as [|f'] eqn:Ef; [lia|]. cbn [run_loop].
    assert (B : (r_ip r3 <? v_ncs (St v1 (c_mid c) m3)) = false).
    { apply Z.ltb_ge. rewrite Hi3. cbn [St set_mem v_ncs v1 load_code]. lia. }
    rewrite B. change (v_ctxs (St v1 (c_mid c) m3)) with (v_ctxs v). rewrite Hc3, Hctx.
    set (c' := {| c_ip := r_ip r3; c_mid := c_mid c; c_parent := c_parent c; c_children := c_children c; c_tmp := c_tmp c |}).
    assert (Hpop : vPop (set_ctx (St v1 (c_mid c) m3) 0 c') (c_mid c)
                   = Good (set_mem (set_ctx (St v1 (c_mid c) m3) 0 c') (c_mid c) (mdrop m3) false, x)).
    { unfold vPop, get_mem. change (v_mems (set_ctx (St v1 (c_mid c) m3) 0 c')) with (v_mems (St v1 (c_mid c) m3)).
      pose proof (St_get v1 (c_mid c) m3) as G. unfold get_mem in G. rewrite G. cbn [obind].
      unfold mPop, stack_get. rewrite Hsp3. replace (m_sp m + 1 - 1) with (m_sp m) by lia. rewrite Hx3.
      cbn [req obind]. unfold mdrop. rewrite Hsp3. replace (m_sp m + 1 - 1) with (m_sp m) by lia. reflexivity. }
    rewrite Hpop.
    eexists. exists (mdrop m3). conj.
    + reflexivity.
    + cbn [set_mem v_mems set_ctx St]. apply assoc_get_set_same.
    + unfold mdrop, with_stack; cbn [m_sp]. lia.
    + apply mdrop_msame; [exact Hm3|lia].
    + reflexivity.
    + reflexivity.
    + exists c'. conj; [cbn [set_mem v_ctxs set_ctx St]; apply assoc_get_set_same|exact Hi3|reflexivity|reflexivity].
  - destruct Main as [n [v' [ip [vals [Hn Hs]]]]].
    replace fuel with (n + (fuel - n))%nat by lia.
    rewrite (run_loop_steps_error true n v1 r0 (fuel - n) _ _ _ _ _ Hncs Hs). eauto.
Qed.

(* ---- the definitional semantics and the compiled code agree ---- *)
Theorem pure_expression_compiled_correctly e s s' v c m fuel fs env st :
  pure e = true -> wfcs s -> idle v s c m ->
  ByteCode e s = CompOk s' -> (Z.to_nat (ncs s' - ncs s) < fuel)%nat ->
  s_globals st = v_globals v -> (height e <= fs)%nat ->
  exists ctl, eval fs e env st = Done st ctl /\ agrees ctl (snd (Run fuel (load_code v s') true)).
Proof.
  intros Hp Hwf Hid HB Hfuel Hg Hfs.
  exists (ctl_of (den (s_globals st) e)). split; [apply eval_pure; assumption|].
  destruct (bytecode_run_pure e s s' v c m fuel Hp Hwf Hid HB Hfuel) as [_ R]. rewrite Hg.
  destruct (den (v_globals v) e) as [x|err].
  - destruct R as [v' [m' [R _]]]. rewrite R. reflexivity.
  - destruct R as [v' [rep R]]. rewrite R. reflexivity.
Qed.

(* ---- through the session functions the correspondence check runs ---- *)
Require Import Calc.Resolve Calc.GenBuiltins Calc.Session.

Definition resolve_list_of := fix go (l : list node) : RM (list node) :=
  match l with
  | [] => rret []
  | x :: r => x' <- resolve x ;; r' <- go r ;; rret (x' :: r')
  end.

Lemma resolve_nlist l : resolve (NList l) = (l' <- resolve_list_of l ;; rret (NList l')).
Proof. reflexivity. Qed.

Lemma resolve_pure : forall e, pure e = true -> resolve e [] = Some (e, []).
Proof.
  apply (pure_induction (fun e => resolve e [] = Some (e, []))); try reflexivity.
  - intros op c l r _ _ _ H1 H2. cbn [resolve]. unfold rbind. rewrite H1, H2. reflexivity.
  - intros op t _ _ H1. cbn [resolve]. unfold rbind. rewrite H1. reflexivity.
  - intros l _ HF. rewrite resolve_nlist. unfold rbind.
    assert (E : resolve_list_of l [] = Some (l, [])).
    { induction HF as [|x r Hx Hr IH]; [reflexivity|]. cbn [resolve_list_of]. unfold rbind. rewrite Hx, IH. reflexivity. }
    rewrite E. reflexivity.
  - intros a i _ _ H1 H2. cbn [resolve]. unfold rbind. rewrite H1, H2. reflexivity.
  - intros a f t _ _ _ H1 H2 H3. cbn [resolve]. unfold rbind. rewrite H1, H2, H3. reflexivity.
Qed.

Definition machine_idle (mc : machine) (c : ctx) (m : mem) : Prop :=
  wfcs (mc_cs mc) /\ idle (mc_vm mc) (mc_cs mc) c m.

Theorem run_tree_pure e mc c m s' :
  pure e = true -> machine_idle mc c m ->
  ByteCode e (mc_cs mc) = CompOk s' -> ncs s' - ncs (mc_cs mc) < 400000 ->
  match den (v_globals (mc_vm mc)) e with
  | Ok x => exists mc' c' m', run_tree false mc e = (mc', TValue x) /\ machine_idle mc' c' m' /\
              m_sp m' = m_sp m /\ c_mid c' = c_mid c /\
              v_globals (mc_vm mc') = v_globals (mc_vm mc) /\ v_out (mc_vm mc') = v_out (mc_vm mc)
  | Fail err => exists mc' rep, run_tree false mc e = (mc', TError err rep)
  end.
Proof.
  intros Hp [Hwf Hid] HB Hlen.
  assert (Hfuel : (Z.to_nat (ncs s' - ncs (mc_cs mc)) < session_fuel)%nat) by (unfold session_fuel; lia).
  destruct (bytecode_run_pure e (mc_cs mc) s' (mc_vm mc) c m session_fuel Hp Hwf Hid HB Hfuel) as [Ws R].
  unfold run_tree, strewrite. rewrite (resolve_pure e Hp). cbn [negb]. rewrite HB.
  destruct (den (v_globals (mc_vm mc)) e) as [x|err].
  - destruct R as [v' [m' (R & Hm' & Hsp' & Hms & Hg & Ho & [c' [Hc' [Hip' [Hmid' _]]]])]]. rewrite R.
    eexists. exists c', m'. conj; try reflexivity; try assumption.
    split; [exact Ws|]. cbn [mc_vm mc_cs]. constructor; try assumption.
    + rewrite Hmid'. exact Hm'.
    + destruct Hms as (_&_&_&_&_&B). pose proof (id_sp _ _ _ _ Hid). lia.
  - destruct R as [v' [rep R]]. rewrite R. eauto.
Qed.
