(* LExprSem.v — pure expressions over global AND local variables: the expressions of function bodies.
   L is the list of values the running activation's variables hold ([] outside any function). *)
Require Import Calc.Sem.
Require Import Calc.Base Calc.Bytecode Calc.BytecodeProofs Calc.Value Calc.FloatText Calc.Ast Calc.Compile Calc.VM
        Calc.MemProofs Calc.ExprSem.
Require Import Lia.
Open Scope Z_scope.

Section Loc.
Variable L : list value.

Fixpoint lpure (e : node) : bool :=
  match e with
  | NInt _ | NBool _ | NStr _ | NName _ => true
  | NLocal ix _ => (0 <=? ix) && (ix <? zlen L)
  | NFloat f => negb (is_negzero f)
  | NBin op l r => match binop_opcode op with Some _ => lpure l && lpure r | None => false end
  | NUn op t => unop_ok op && lpure t
  | NList l => forallb lpure l
  | NIndexAt a i => lpure a && lpure i
  | NIndexFromTo a f t => lpure a && lpure f && lpure t
  | _ => false
  end.

Definition lval (ix : Z) : value := match znth L ix with Some x => x | None => VNil end.

Fixpoint lden (G : list (string * value)) (e : node) : res value :=
  match e with
  | NInt i => Ok (VInt i)
  | NFloat f => Ok (VFloat f)
  | NBool b => Ok (VBool b)
  | NStr s => Ok (VStr s)
  | NName g => Ok (gval G g)
  | NLocal ix _ => Ok (lval ix)
  | NBin op l r =>
      match binop_opcode op with
      | None => Fail ErrType
      | Some c =>
          match lden G l with
          | Fail e => Fail e
          | Ok a => match lden G r with
                    | Fail e => Fail e
                    | Ok b => apply_binop c a b
                    end
          end
      end
  | NUn op t =>
      match lden G t with
      | Fail e => Fail e
      | Ok a => match unop_sem op a with Some r => r | None => Fail ErrType end
      end
  | NList l =>
      match seq_res (lden G) l with
      | Ok vs => Ok (VArr vs)
      | Fail e => Fail e
      end
  | NIndexAt a i =>
      match lden G a with
      | Fail e => Fail e
      | Ok av => match lden G i with Fail e => Fail e | Ok iv => Index1 av iv end
      end
  | NIndexFromTo a f t =>
      match lden G a with
      | Fail e => Fail e
      | Ok av =>
          match lden G f with
          | Fail e => Fail e
          | Ok fv => match lden G t with Fail e => Fail e | Ok tv => Index2 av fv tv end
          end
      end
  | _ => Fail ErrType
  end.

Section LPureInd.
  Variable Q : node -> Prop.
  Hypothesis HInt : forall i, Q (NInt i).
  Hypothesis HFloat : forall f, is_negzero f = false -> Q (NFloat f).
  Hypothesis HStr : forall s, Q (NStr s).
  Hypothesis HBool : forall b, Q (NBool b).
  Hypothesis HName : forall g, Q (NName g).
  Hypothesis HLocal : forall ix n, 0 <= ix < zlen L -> Q (NLocal ix n).
  Hypothesis HBin : forall op c l r, binop_opcode op = Some c -> lpure l = true -> lpure r = true ->
    Q l -> Q r -> Q (NBin op l r).
  Hypothesis HUn : forall op t, unop_ok op = true -> lpure t = true -> Q t -> Q (NUn op t).
  Hypothesis HList : forall l, forallb lpure l = true -> Forall Q l -> Q (NList l).
  Hypothesis HIx1 : forall a i, lpure a = true -> lpure i = true -> Q a -> Q i -> Q (NIndexAt a i).
  Hypothesis HIx2 : forall a f t, lpure a = true -> lpure f = true -> lpure t = true ->
    Q a -> Q f -> Q t -> Q (NIndexFromTo a f t).

  Fixpoint lpure_induction (e : node) : lpure e = true -> Q e.
  Proof.
    destruct e; intros Hp; try discriminate Hp; cbn [lpure] in Hp.
    - apply HInt.
    - apply HFloat. apply negb_true_iff. exact Hp.
    - apply HStr.
    - apply HBool.
    - apply HName.
    - apply HLocal. apply andb_prop in Hp. destruct Hp as [H1 H2]. apply Z.leb_le in H1. apply Z.ltb_lt in H2. lia.
    - destruct (binop_opcode op) as [c|] eqn:E; [|discriminate Hp].
      apply andb_prop in Hp. destruct Hp as [H1 H2].
      apply (HBin op c e1 e2 E H1 H2); apply lpure_induction; assumption.
    - apply andb_prop in Hp. destruct Hp as [H1 H2]. apply (HUn op e H1 H2). apply lpure_induction. exact H2.
    - apply andb_prop in Hp. destruct Hp as [H1 H2]. apply (HIx1 e1 e2 H1 H2); apply lpure_induction; assumption.
    - apply andb_prop in Hp. destruct Hp as [H12 H3]. apply andb_prop in H12. destruct H12 as [H1 H2].
      apply (HIx2 e1 e2 e3 H1 H2 H3); apply lpure_induction; assumption.
    - apply (HList l Hp). induction l as [|x r IHr]; [constructor|].
      cbn [forallb] in Hp. apply andb_prop in Hp. destruct Hp as [Hx Hr].
      constructor; [apply lpure_induction; exact Hx|apply IHr; exact Hr].
  Defined.
End LPureInd.

Lemma node_eqb_lpure : forall l, lpure l = true -> forall r, lpure r = true -> node_eqb l r = true -> l = r.
Proof.
  apply (lpure_induction (fun l => forall r, lpure r = true -> node_eqb l r = true -> l = r)).
  - intros i r Hr H. destruct r; try discriminate H. cbn [node_eqb] in H. apply Z.eqb_eq in H. subst. reflexivity.
  - intros f Hf r Hr H. destruct r; try discriminate H. cbn [node_eqb lpure] in *.
    apply negb_true_iff in Hr. rewrite (float_eqb_eq _ _ Hf Hr H). reflexivity.
  - intros s r Hr H. destruct r; try discriminate H. cbn [node_eqb] in H. apply String.eqb_eq in H. subst. reflexivity.
  - intros b r Hr H. destruct r; try discriminate H. cbn [node_eqb] in H. apply Bool.eqb_prop in H. subst. reflexivity.
  - intros g r Hr H. destruct r; try discriminate H. cbn [node_eqb] in H. apply String.eqb_eq in H. subst. reflexivity.
  - intros ix n _ r Hr H. destruct r; try discriminate H. cbn [node_eqb] in H. apply andb_prop in H. destruct H as [H1 H2].
    apply Z.eqb_eq in H1. apply String.eqb_eq in H2. subst. reflexivity.
  - intros op c l1 l2 Hc H1 H2 IH1 IH2 r Hr H. destruct r; try discriminate H. cbn [node_eqb lpure] in *.
    apply andb_prop in H. destruct H as [H H22]. apply andb_prop in H. destruct H as [H0 H11].
    apply String.eqb_eq in H0. subst. rewrite Hc in Hr. apply andb_prop in Hr. destruct Hr.
    rewrite (IH1 r1), (IH2 r2); auto.
  - intros op t Ho Ht IHt r Hr H. destruct r; try discriminate H. cbn [node_eqb lpure] in *.
    apply andb_prop in H. destruct H as [H0 H1]. apply String.eqb_eq in H0. subst.
    apply andb_prop in Hr. destruct Hr. rewrite (IHt r); auto.
  - intros l Hl HF r Hr H. destruct r; try discriminate H. rewrite node_eqb_list in H. cbn [lpure] in Hr.
    f_equal. revert l0 Hr H. induction l as [|x l IHl]; intros m Hm H; destruct m as [|y m]; try discriminate H; [reflexivity|].
    cbn [list_eqb_of forallb] in *. apply andb_prop in H. destruct H as [Hx Hrest].
    apply andb_prop in Hm. destruct Hm as [Hy Hm]. apply andb_prop in Hl. destruct Hl as [_ Hl].
    inversion HF as [|x' l' Qx Ql]; subst. rewrite (Qx y Hy Hx), (IHl Hl Ql m Hm Hrest). reflexivity.
  - intros a i Ha Hi IHa IHi r Hr H. destruct r; try discriminate H. cbn [node_eqb lpure] in *.
    apply andb_prop in H. destruct H as [H1 H2]. apply andb_prop in Hr. destruct Hr.
    rewrite (IHa r1), (IHi r2); auto.
  - intros a f t Ha Hf Ht IHa IHf IHt r Hr H. destruct r; try discriminate H. cbn [node_eqb lpure] in *.
    apply andb_prop in H. destruct H as [H H3]. apply andb_prop in H. destruct H as [H1 H2].
    apply andb_prop in Hr. destruct Hr as [Hr H6]. apply andb_prop in Hr. destruct Hr as [H4 H5].
    rewrite (IHa r1), (IHf r2), (IHt r3); auto.
Qed.

Lemma has_call_lpure : forall e, lpure e = true -> has_call e = false.
Proof.
  apply (lpure_induction (fun e => has_call e = false)); try reflexivity.
  - intros op c l r _ _ _ H1 H2. cbn [has_call]. rewrite H1, H2. reflexivity.
  - intros op t _ _ H. exact H.
  - intros l _ HF. cbn [has_call]. induction HF as [|x r Hx Hr IH]; [reflexivity|]. cbn [existsb]. rewrite Hx, IH. reflexivity.
  - intros a i _ _ H1 H2. cbn [has_call]. rewrite H1, H2. reflexivity.
  - intros a f t _ _ _ H1 H2 H3. cbn [has_call]. rewrite H1, H2, H3. reflexivity.
Qed.
(* ---- the definitional semantics computes lden, in an activation whose frame holds L ---- *)
Definition frame_holds (st : sstate) (env : env) : Prop :=
  L = [] \/ exists fid vals, e_frame env = Some fid /\ assoc_get (s_frames st) fid = Some vals /\
                            forall ix, 0 <= ix < zlen L -> znth vals ix = znth L ix.

Lemma ev_list_lpure f e : forall l,
  Forall (fun x => forall st, frame_holds st e -> eval f x e st = Done st (ctl_of (lden (s_globals st) x))) l ->
  forall st acc k, frame_holds st e ->
    ev_list_of f e l st acc k =
    match seq_res (lden (s_globals st)) l with
    | Ok vs => k st (rev acc ++ vs)
    | Fail err => Done st (CErr err)
    end.
Proof.
  induction l as [|x r IH]; intros HF st acc k Hfh; cbn [ev_list_of seq_res].
  - rewrite app_nil_r. reflexivity.
  - inversion HF as [|x' r' Hx Hr]; subst. rewrite (Hx st Hfh).
    destruct (lden (s_globals st) x) as [v|err]; cbn [ctl_of bind]; [|reflexivity].
    rewrite (IH Hr st (v :: acc) k Hfh).
    destruct (seq_res (lden (s_globals st)) r) as [vs|err]; [|reflexivity].
    cbn [rev]. rewrite <- app_assoc. reflexivity.
Qed.

Theorem eval_lpure : forall e, lpure e = true -> forall fuel env st, (height e <= fuel)%nat ->
  frame_holds st env ->
  eval fuel e env st = Done st (ctl_of (lden (s_globals st) e)).
Proof.
  apply (lpure_induction (fun e => forall fuel env st, (height e <= fuel)%nat -> frame_holds st env ->
                                   eval fuel e env st = Done st (ctl_of (lden (s_globals st) e))));
    try (intros; destruct fuel as [|fuel]; [cbn [height] in *; lia|]; reflexivity).
  - (* NLocal *)
    intros ix n Hix fuel env st Hf Hfh. destruct fuel as [|fuel]; [cbn [height] in Hf; lia|].
    cbn [eval lookup lden ctl_of]. unfold read_slot, lval.
    destruct Hfh as [E|(fid & vals & He & Hv & Hx)]; [rewrite E in Hix; unfold zlen in Hix; cbn in Hix; lia|].
    rewrite He, Hv, (Hx ix Hix).
    destruct (znth L ix) as [x|] eqn:E; [reflexivity|].
    exfalso. unfold znth, zlen in *. destruct (Z.ltb_spec ix 0); [lia|]. apply nth_error_None in E. lia.
  - (* NBin *)
    intros op c l r Hc Hl Hr IHl IHr fuel env st Hf Hfh. destruct fuel as [|fuel]; [cbn [height] in Hf; lia|].
    cbn [eval lden height] in *. rewrite Hc.
    rewrite (IHl fuel env st ltac:(lia) Hfh).
    destruct (lden (s_globals st) l) as [a|err]; cbn [ctl_of bind]; [|reflexivity].
    rewrite (IHr fuel env st ltac:(lia) Hfh).
    destruct (lden (s_globals st) r) as [b|err]; cbn [ctl_of bind]; [|reflexivity].
    destruct (apply_binop c a b); reflexivity.
  - (* NUn *)
    intros op t Ho Ht IHt fuel env st Hf Hfh. destruct fuel as [|fuel]; [cbn [height] in Hf; lia|].
    cbn [eval lden height] in *. rewrite (IHt fuel env st ltac:(lia) Hfh).
    destruct (lden (s_globals st) t) as [a|err]; cbn [ctl_of bind]; [|reflexivity].
    destruct (unop_ok_sem op a Ho) as [r Er]. rewrite Er. destruct r; reflexivity.
  - (* NList *)
    intros l Hp HF fuel env st Hf Hfh. destruct fuel as [|fuel]; [cbn [height] in Hf; lia|].
    rewrite eval_list. cbn [height] in Hf.
    rewrite (ev_list_lpure fuel env l).
    + cbn [lden rev app]. destruct (seq_res (lden (s_globals st)) l); reflexivity.
    + rewrite Forall_forall in *. intros x Hx st' Hfh'. apply (HF x Hx); [|exact Hfh']. pose proof (height_in x l Hx). lia.
    + exact Hfh.
  - (* NIndexAt *)
    intros a i Ha Hi IHa IHi fuel env st Hf Hfh. destruct fuel as [|fuel]; [cbn [height] in Hf; lia|].
    cbn [eval lden height] in *. rewrite (IHa fuel env st ltac:(lia) Hfh).
    destruct (lden (s_globals st) a) as [av|err]; cbn [ctl_of bind]; [|reflexivity].
    rewrite (IHi fuel env st ltac:(lia) Hfh).
    destruct (lden (s_globals st) i) as [iv|err]; cbn [ctl_of bind]; [|reflexivity].
    destruct (Index1 av iv); reflexivity.
  - (* NIndexFromTo *)
    intros a f t Ha Hff Ht IHa IHf IHt fuel env st Hf Hfh. destruct fuel as [|fuel]; [cbn [height] in Hf; lia|].
    cbn [eval lden height] in *. rewrite (IHa fuel env st ltac:(lia) Hfh).
    destruct (lden (s_globals st) a) as [av|err]; cbn [ctl_of bind]; [|reflexivity].
    rewrite (IHf fuel env st ltac:(lia) Hfh).
    destruct (lden (s_globals st) f) as [fv|err]; cbn [ctl_of bind]; [|reflexivity].
    rewrite (IHt fuel env st ltac:(lia) Hfh).
    destruct (lden (s_globals st) t) as [tv|err]; cbn [ctl_of bind]; [|reflexivity].
    destruct (Index2 av fv tv); reflexivity.
Qed.
End Loc.

(* outside any function: the pure expressions of ExprSem.v *)
Lemma lpure_nil e : pure e = true -> lpure [] e = true.
Proof.
  revert e. apply (pure_induction (fun e => lpure [] e = true)); try reflexivity.
  - intros f Hf. cbn [lpure]. rewrite Hf. reflexivity.
  - intros op c l r Hc _ _ H1 H2. cbn [lpure]. rewrite Hc, H1, H2. reflexivity.
  - intros op t Ho _ H. cbn [lpure]. rewrite Ho, H. reflexivity.
  - intros l _ HF. cbn [lpure]. induction HF as [|x r Hx Hr IH]; [reflexivity|]. cbn [forallb]. rewrite Hx, IH. reflexivity.
  - intros a i _ _ H1 H2. cbn [lpure]. rewrite H1, H2. reflexivity.
  - intros a f t _ _ _ H1 H2 H3. cbn [lpure]. rewrite H1, H2, H3. reflexivity.
Qed.

Lemma lden_nil G e : pure e = true -> lden [] G e = den G e.
Proof.
  revert e. apply (pure_induction (fun e => lden [] G e = den G e)); try reflexivity.
  - intros op c l r Hc _ _ H1 H2. cbn [lden den]. rewrite Hc, H1, H2. reflexivity.
  - intros op t _ _ H. cbn [lden den]. rewrite H. reflexivity.
  - intros l _ HF. cbn [lden den].
    assert (E : seq_res (lden [] G) l = seq_res (den G) l).
    { induction HF as [|x r Hx Hr IH]; [reflexivity|]. cbn [seq_res]. rewrite Hx, IH. reflexivity. }
    rewrite E. reflexivity.
  - intros a i _ _ H1 H2. cbn [lden den]. rewrite H1, H2. reflexivity.
  - intros a f t _ _ _ H1 H2 H3. cbn [lden den]. rewrite H1, H2, H3. reflexivity.
Qed.
