(* Printer.v — writing a syntax tree out as source text by the documented
   rules of Readme.md (C07): five binary precedence levels, all left
   associative; unary operators bind tighter; indexing tightest; a statement
   ends at a newline; a body of several statements is a braced block.

   The printer produces the token sequence; [render] joins it with single
   blanks (other layouts are produced by the check). *)
Require Import Calc.Base Calc.Bytecode Calc.Value Calc.FloatText Calc.Ast Calc.Lexer Calc.Grammar.
Open Scope Z_scope.

Definition T (k : kind) (v : string) : gtok := {| g_kind := k; g_value := v |}.
Definition tOp (v : string) := T KSticky v.
Definition tNs (v : string) := T KNotSticky v.
Definition tNm (v : string) := T KName v.
Definition tNl := T KEOL (sb [10]).

(* binding strength: function 0, the five binary levels 1..5, unary 6, index 7, atoms 8 *)
Definition op_level (op : string) : option nat :=
  if str_in op (level_ops 0) then Some 1%nat
  else if str_in op (level_ops 1) then Some 2%nat
  else if str_in op (level_ops 2) then Some 3%nat
  else if str_in op (level_ops 3) then Some 4%nat
  else if str_in op (level_ops 4) then Some 5%nat
  else None.

Definition level (e : node) : nat :=
  match e with
  | NFunction _ _ _ => 0%nat
  | NBin op _ _ => match op_level op with Some l => l | None => 0%nat end
  | NUn _ _ => 6%nat
  | NIndexAt _ _ | NIndexFromTo _ _ _ => 7%nat
  | _ => 8%nat
  end.

(* the float literal of a non-negative finite float: positional notation, at
   least one digit after the point (the lexer knows no exponent form) *)
Definition fmt_pos (f : float) : string :=
  match Prim2SF f with
  | S754_zero _ => "0.0"
  | S754_finite _ m e =>
      let (ds, dp) := shortest_digits (Zpos m) e in
      let s := fmt_f ds dp in
      if Z.of_nat (List.length ds) - dp >? 0 then s else s +++ ".0"
  | _ => "0.0"
  end.

Fixpoint escape_quotes (s : string) : string :=
  match s with
  | String """" r => String "\" (String """" (escape_quotes r))
  | String c r => String c (escape_quotes r)
  | EmptyString => EmptyString
  end.
Definition quote (s : string) : string := String """" (escape_quotes s +++ String """" EmptyString).

Fixpoint sep_by (sep : list gtok) (l : list (list gtok)) : list gtok :=
  match l with
  | [] => []
  | [x] => x
  | x :: r => x ++ sep ++ sep_by sep r
  end.

Definition braces (stmts : list (list gtok)) : list gtok :=
  [tNs "{"; tNl] ++ sep_by [tNl] stmts ++ [tNl; tNs "}"].

(* a one-line body directly after an expression must not begin with a token
   that could continue that expression *)
Definition starts_ambiguous (p : list gtok) : bool :=
  match p with
  | t :: _ => str_in (g_value t) ["-"; "("; "["]
  | [] => false
  end.

(* would a following "else" be captured by this statement when it is written on one line *)
Fixpoint ends_open_if (n : node) : bool :=
  match n with
  | NIf _ _ => true
  | NIfElse _ _ f => ends_open_if f
  | NWhile _ b => ends_open_if b
  | NFor _ _ b => ends_open_if b
  | NAssign _ (NFunction _ b _) => ends_open_if b
  | NReturn (NFunction _ b _) => ends_open_if b
  | NYield (NFunction _ b _) => ends_open_if b
  | NFunction _ b _ => ends_open_if b
  | _ => false
  end.

Definition name_tok (n : node) : list gtok :=
  match n with NName x => [tNm x] | _ => [] end.

Fixpoint pp (n : node) : list gtok :=
  let at_ (m : nat) (e : node) := if Nat.ltb (level e) m then [tNs "("] ++ pp e ++ [tNs ")"] else pp e in
  let body (guarded : bool) (must_close : bool) (b : node) :=
    match b with
    | NBlock l => braces (map pp l)
    | _ => let p := pp b in
           if (guarded && starts_ambiguous p) || (must_close && ends_open_if b) then braces [p] else p
    end in
  match n with
  | NInt i => [T KIntLit (itoa i)]
  | NFloat f => [T KFloatLit (fmt_pos f)]
  | NStr s => [T KStringLit (quote s)]
  | NBool b => [tNm (if b then "true" else "false")]
  | NName x => [tNm x]
  | NBin op l r =>
      let lv := match op_level op with Some l => l | None => 0%nat end in
      at_ lv l ++ [tOp op] ++ at_ (S lv) r
  | NUn op e => tOp op :: at_ 7%nat e
  | NIndexAt a i => at_ 7%nat a ++ [tNs "["] ++ at_ 1%nat i ++ [tNs "]"]
  | NIndexFromTo a f t => at_ 7%nat a ++ [tNs "["] ++ at_ 1%nat f ++ [tNs ":"] ++ at_ 1%nat t ++ [tNs "]"]
  | NList l => [tNs "["] ++ sep_by [tNs ","] (map (at_ 1%nat) l) ++ [tNs "]"]
  | NCall f args => name_tok f ++ [tNs "("] ++ sep_by [tNs ","] (map (at_ 1%nat) args) ++ [tNs ")"]
  | NFunction ps b _ => [tNs "("] ++ sep_by [tNs ","] (map name_tok ps) ++ [tNs ")"; tOp "->"] ++ body false false b
  | NIf c t => [tNm "if"] ++ at_ 1%nat c ++ body true false t
  | NIfElse c t f => [tNm "if"] ++ at_ 1%nat c ++ body true true t ++ [tNm "else"] ++ body false false f
  | NWhile c b => [tNm "while"] ++ at_ 1%nat c ++ body true false b
  | NFor vars its b =>
      [tNm "for"] ++ sep_by [tNs ","] (map name_tok vars) ++ [tOp "<-"] ++ sep_by [tNs ","] (map (at_ 1%nat) its)
        ++ body true false b
  | NReturn e => tNm "return" :: pp e
  | NYield e => tNm "yield" :: pp e
  | NAssign v e => name_tok v ++ [tOp "="] ++ pp e
  | NBlock l => braces (map pp l)
  | _ => []
  end.

Definition render (ts : list gtok) : string := sconcat " " (map g_value ts).

(* ---------- the trees the printer is defined for (what the parser can produce) ---------- *)
Fixpoint all_lower (s : string) : bool :=
  match s with
  | EmptyString => true
  | String c r => let z := Z_of_byte c in (97 <=? z) && (z <=? 122) && all_lower r
  end.
Definition is_name (x : string) : bool := negb (String.eqb x "") && all_lower x && negb (str_in x keywords).
Definition is_name_node (n : node) : bool := match n with NName x => is_name x | _ => false end.

Fixpoint no_backslash (s : string) : bool :=
  match s with
  | EmptyString => true
  | String c r => negb (Z_of_byte c =? 92) && no_backslash r
  end.

Definition float_ok (f : float) : bool :=
  match parse_float (fmt_pos f) with PFOk g => fsame f g | _ => false end.

Definition is_expr (n : node) : bool :=
  match n with
  | NInt _ | NFloat _ | NStr _ | NBool _ | NName _ | NBin _ _ _ | NUn _ _ | NIndexAt _ _ | NIndexFromTo _ _ _
  | NList _ | NCall _ _ | NFunction _ _ _ => true
  | _ => false
  end.

(* well formed as a statement (expressions included) *)
Fixpoint wfs (n : node) : bool :=
  let wfe (e : node) := is_expr e && wfs e in
  let wfb (b : node) := match b with NBlock l => Nat.leb 2 (List.length l) && forallb wfs l | _ => wfs b end in
  match n with
  | NInt i => (0 <=? i) && (i <=? max_int)
  | NFloat f => float_ok f
  | NStr s => no_backslash s
  | NBool _ => true
  | NName x => is_name x
  | NBin op l r => match op_level op with Some _ => wfe l && wfe r | None => false end
  | NUn op e => str_in op unary_ops && wfe e
  | NIndexAt a i => wfe a && wfe i
  | NIndexFromTo a f t => wfe a && wfe f && wfe t
  | NList l => forallb wfe l
  | NCall f args => is_name_node f && forallb wfe args
  | NFunction ps b lc => (lc =? 0) && forallb is_name_node ps && wfb b
  | NIf c t => wfe c && wfb t
  | NIfElse c t f => wfe c && wfb t && wfb f
  | NWhile c b => wfe c && wfb b
  | NFor vars its b =>
      Nat.leb 1 (List.length vars) && Nat.eqb (List.length vars) (List.length its) &&
      forallb is_name_node vars && forallb wfe its && wfb b
  | NReturn e => wfe e
  | NYield e => wfe e
  | NAssign v e => is_name_node v && wfe e
  | _ => false
  end.

Definition wfe (e : node) : bool := is_expr e && wfs e.
Definition wfb (b : node) : bool :=
  match b with NBlock l => Nat.leb 2 (List.length l) && forallb wfs l | _ => wfs b end.
