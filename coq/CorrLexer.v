(* CorrLexer.v — comparison of the lexer / transactional lexer models with
   what the Go code returned. *)
Require Import Calc.Base Calc.Lexer.
Open Scope Z_scope.

Definition kind_code (k : kind) : Z :=
  match k with
  | KInvalid => 0 | KEOL => 1 | KEOF => 2 | KIntLit => 3 | KFloatLit => 4 | KStringLit => 5
  | KName => 6 | KSticky => 7 | KNotSticky => 8
  end.

(* an observed token: kind code, text, from, to, error message ("" = none) *)
Definition otok := (Z * string * Z * Z * string)%type.

Definition res_matches (r : lexres) (o : otok) : bool :=
  let '(k, v, f, t, e) := o in
  (kind_code (t_kind (r_token r)) =? k) && String.eqb (t_value (r_token r)) v &&
  (t_from (r_token r) =? f) && (t_to (r_token r) =? t) &&
  String.eqb (match r_err r with Some m => m | None => "" end) e.

Fixpoint all_match (rs : list lexres) (os : list otok) : bool :=
  match rs, os with
  | [], [] => true
  | r :: rs', o :: os' => res_matches r o && all_match rs' os'
  | _, _ => false
  end.

(* (input, tokens Go produced up to the first error or the end) *)
Definition chk_lex (c : string * list otok) : bool :=
  let (input, os) := c in all_match (tokens_of input) os.

(* --- transactional lexer: operation sequences --- *)
Inductive top := ONext | OSnap | ORoll | OCommit.

(* what a step made visible: (Next's return, token at the read pointer (if any), From(), To()) *)
Definition ostep := (bool * option otok * Z * Z)%type.

Definition step_matches (ret : bool) (t : tlexer) (o : ostep) : bool :=
  let '(r, tok, f, tto) := o in
  Bool.eqb ret r &&
  match tl_cur t, tok with
  | Some e, Some ot => res_matches e ot && (r_from e =? f) && (r_to e =? tto)
  | None, None => true
  | _, _ => false
  end.

Fixpoint run_ops (t : tlexer) (ops : list top) (obs : list ostep) : bool :=
  match ops with
  | [] => match obs with [] => true | _ => false end
  | ONext :: r =>
      match obs with
      | o :: obs' =>
          match tl_next t with
          | TNTrue t' => step_matches true t' o && run_ops t' r obs'
          | TNFalse t' => step_matches false t' o && run_ops t' r obs'
          | _ => false
          end
      | [] => false
      end
  | OSnap :: r => run_ops (tl_snapshot t) r obs
  | ORoll :: r => match tl_rollback t with Some t' => run_ops t' r obs | None => run_ops t r obs end
  | OCommit :: r => match tl_commit t with Some t' => run_ops t' r obs | None => run_ops t r obs end
  end.

Definition chk_tlex (c : string * list top * list ostep) : bool :=
  let '(input, ops, obs) := c in run_ops (new_tlexer input) ops obs.

(* the abstract cursor: the token the transactional lexer shows after any
   legal operation sequence is the token of a fresh scan at the abstract
   position (spec side of C13) *)
Fixpoint spec_ops (all : list lexres) (pos : Z) (snaps : list Z) (ops : list top) (obs : list ostep) : bool :=
  match ops with
  | [] => match obs with [] => true | _ => false end
  | ONext :: r =>
      match obs with
      | o :: obs' =>
          let '(ret, tok, f, tto) := o in
          let can := pos + 1 <? Z.of_nat (List.length all) in
          let pos' := if can then pos + 1 else pos in
          Bool.eqb ret can &&
          match (if pos' <? 0 then None else nth_error all (Z.to_nat pos')), tok with
          | Some e, Some ot => res_matches e ot && (r_from e =? f) && (r_to e =? tto)
          | None, None => true
          | _, _ => false
          end && spec_ops all pos' snaps r obs'
      | [] => false
      end
  | OSnap :: r => spec_ops all pos (pos :: snaps) r obs
  | ORoll :: r => match snaps with p :: s' => spec_ops all p s' r obs | [] => spec_ops all pos snaps r obs end
  | OCommit :: r => match snaps with _ :: s' => spec_ops all pos s' r obs | [] => spec_ops all pos snaps r obs end
  end.

(* full scan incl. everything after an error is never visible: the cursor spec
   uses the tokens up to the first error, then repeats nothing *)
Definition chk_tlex_spec (c : string * list top * list ostep) : bool :=
  let '(input, ops, obs) := c in spec_ops (tokens_of input) (-1) [] ops obs.
