(* PropC02.v — C02: for loops consume exactly what their iterators yield, lazily and in order.

   Proved here on the definitional semantics: a yield nobody consumes
   evaluates to its operand; a one-iterator loop is exactly "bind the yielded
   value, run the body, only then resume the generator" ([for1_loop], an
   explicit recursion over the generator's resumptions); an iterator that
   never yields gives no body run and nil; a return in the body ends the loop
   without resuming the generator; errors in generator or body end the
   statement; in a two-iterator loop the second iterator being exhausted ends
   the loop after the first variable was bound; and for any number of
   values: a generator that hands out n values (each in the state it was
   resumed in, touching only its own frame) makes the body run exactly n
   times, once per value and in order, with the loop variable bound to it
   ([C02_n_yields_n_bodies_in_order], ForProofs.v; instantiated for the
   built-in generators in C17).  NOT proved: that
   CCONT/YIELD/SCONT/DCONT/RCONT implement this (part of C01's open
   statement).  The check decides it on generator-heavy sessions with Sem as
   oracle. *)
Require Import Calc.Base Calc.Bytecode Calc.Value Calc.FloatText Calc.Ast Calc.Resolve Calc.Compile
        Calc.VM Calc.Sem Calc.SemProofs Calc.Session Calc.CorrSession Calc.SemSession Calc.GenProofs Calc.ForProofs.
Open Scope Z_scope.

(* a yield with no enclosing for loop only evaluates to its operand *)
Theorem C02_naked_yield_is_identity : forall n t e st st1 v,
  eval n t e st = Done st1 (CVal v) ->
  run_top (eval (S n) (NYield t) e st) = (st1, CVal v).
Proof. intros n t e st st1 v H. cbn [eval]. rewrite H. reflexivity. Qed.
Print Assumptions C02_naked_yield_is_identity.

(* the loop after its first binding, as a recursion over the generator's resumptions:
   run the body; only then resume the generator; bind; repeat *)
Fixpoint for1_loop (body : sstate -> comp) (bindv : sstate -> value -> comp)
                   (k : nat) (g : sstate -> comp) (st : sstate) : comp :=
  match k with
  | O => Done st CFuel
  | S k' =>
      bind (body st) (fun st2 bv =>
        match g st2 with
        | Done st' (CVal _) => Done st' (CVal bv)          (* exhausted: the loop's value is the last body value *)
        | Done st' (CRet _) => Done st' (CAbort "return out of an iterator expression")
        | Done st' c => Done st' c
        | Yield st' x g' => bind (bindv st' x) (fun st'' _ => for1_loop body bindv k' g' st'')
        end)
  end.

Theorem C02_for1_is_bind_body_resume : forall n v it body e st,
  eval (S n) (NFor [v] [it] body) e st =
    (let (st1, ei) := frame_copy st e in
     match eval n it ei st1 with
     | Done st' (CVal _) => Done st' (CVal VNil)
     | Done st' (CRet _) => Done st' (CAbort "return out of an iterator expression")
     | Done st' c => Done st' c
     | Yield st' x g =>
         bind (assign st' e v x)
              (fun st'' _ => for1_loop (eval n body e) (fun s y => assign s e v y) n g st'')
     end).
Proof.
  intros. cbn [eval List.length Nat.eqb negb].
  destruct (frame_copy st e) as [st1 ei].
  destruct (eval n it ei st1) as [st' c|st' x g]; [reflexivity|].
  f_equal.
  (* the two loops are the same recursion *)
  assert (L : forall k g0 s,
             (fix loop (k : nat) (ks : list (sstate -> comp)) (st0 : sstate) {struct k} : comp :=
                match k with
                | 0%nat => Done st0 CFuel
                | S k' =>
                    bind (eval n body e st0)
                      (fun (st2 : sstate) (v0 : value) =>
                       match ks with
                       | [] => Done st2 (CAbort "for: generators")
                       | kk0 :: _ =>
                           match kk0 st2 with
                           | Done st'0 (CVal _) => Done st'0 (CVal v0)
                           | Done st'0 (CRet _) => Done st'0 (CAbort "return out of an iterator expression")
                           | Done st'0 (CErr _ as c) | Done st'0 (CExit _ as c) | Done st'0 (CFuel as c)
                           | Done st'0 (CAbort _ as c) => Done st'0 c
                           | Yield st'0 x0 kk1 =>
                               bind (assign st'0 e v x0) (fun (st''0 : sstate) (_ : value) => loop k' (rev [kk1]) st''0)
                           end
                       end)
                end) k (rev [g0]) s
             = for1_loop (eval n body e) (fun s0 y => assign s0 e v y) k g0 s).
  { induction k as [|k IH]; intros g0 s; [reflexivity|].
    cbn [for1_loop rev app]. f_equal.
    apply FunctionalExtensionality.functional_extensionality. intros st2.
    apply FunctionalExtensionality.functional_extensionality. intros bv.
    destruct (g0 st2) as [s' c|s' x0 g1]; [destruct c; reflexivity|].
    f_equal. apply FunctionalExtensionality.functional_extensionality. intros s''.
    apply FunctionalExtensionality.functional_extensionality. intros _. apply IH. }
  apply FunctionalExtensionality.functional_extensionality. intros st''.
  apply FunctionalExtensionality.functional_extensionality. intros _. apply L.
Qed.
Print Assumptions C02_for1_is_bind_body_resume.

(* ---- corollaries for a one-iterator loop ---- *)

(* the iterator never yields: no body is run, the loop is nil *)
Theorem C02_no_yield_no_body : forall n v it body e st st1 ei st' x,
  frame_copy st e = (st1, ei) -> eval n it ei st1 = Done st' (CVal x) ->
  eval (S n) (NFor [v] [it] body) e st = Done st' (CVal VNil).
Proof. intros. rewrite C02_for1_is_bind_body_resume, H, H0. reflexivity. Qed.
Print Assumptions C02_no_yield_no_body.

(* one yield, then exhausted: the variable is bound to the yielded value, the
   body runs exactly once on that binding, the generator is resumed on the
   state the body left, and the loop's value is the body's value *)
Theorem C02_single_yield_single_body : forall n v it body e st st1 ei st' x g st2 st3 bv st4 y,
  frame_copy st e = (st1, ei) ->
  eval (S n) it ei st1 = Yield st' x g ->
  assign st' e v x = Done st2 (CVal x) ->
  eval (S n) body e st2 = Done st3 (CVal bv) ->
  g st3 = Done st4 (CVal y) ->
  eval (S (S n)) (NFor [v] [it] body) e st = Done st4 (CVal bv).
Proof.
  intros. rewrite C02_for1_is_bind_body_resume, H, H0, H1. cbn [bind for1_loop].
  rewrite H2. cbn [bind]. rewrite H3. reflexivity.
Qed.
Print Assumptions C02_single_yield_single_body.

(* a return in the body ends the loop at once: the generator is not resumed *)
Theorem C02_return_in_body_abandons_generator : forall n v it body e st st1 ei st' x g st2 st3 r,
  frame_copy st e = (st1, ei) ->
  eval (S n) it ei st1 = Yield st' x g ->
  assign st' e v x = Done st2 (CVal x) ->
  eval (S n) body e st2 = Done st3 (CRet r) ->
  eval (S (S n)) (NFor [v] [it] body) e st = Done st3 (CRet r).
Proof.
  intros. rewrite C02_for1_is_bind_body_resume, H, H0, H1. cbn [bind for1_loop].
  rewrite H2. reflexivity.
Qed.
Print Assumptions C02_return_in_body_abandons_generator.

(* two yields: the body runs twice, in order, each time before the generator is resumed *)
Theorem C02_two_yields_two_bodies_in_order :
  forall n v it body e st st1 ei sa x1 g1 sb sc b1 sd x2 g2 se sf b2 sg y,
  frame_copy st e = (st1, ei) ->
  eval (S (S n)) it ei st1 = Yield sa x1 g1 ->
  assign sa e v x1 = Done sb (CVal x1) ->
  eval (S (S n)) body e sb = Done sc (CVal b1) ->
  g1 sc = Yield sd x2 g2 ->
  assign sd e v x2 = Done se (CVal x2) ->
  eval (S (S n)) body e se = Done sf (CVal b2) ->
  g2 sf = Done sg (CVal y) ->
  eval (S (S (S n))) (NFor [v] [it] body) e st = Done sg (CVal b2).
Proof.
  intros. rewrite C02_for1_is_bind_body_resume, H, H0, H1. cbn [bind for1_loop].
  rewrite H2. cbn [bind]. rewrite H3, H4. cbn [bind for1_loop]. rewrite H5. cbn [bind]. rewrite H6. reflexivity.
Qed.
Print Assumptions C02_two_yields_two_bodies_in_order.

(* an error raised by the generator when it is resumed ends the statement *)
Theorem C02_error_in_resumed_generator : forall n v it body e st st1 ei st' x g st2 st3 bv st4 er,
  frame_copy st e = (st1, ei) ->
  eval (S n) it ei st1 = Yield st' x g ->
  assign st' e v x = Done st2 (CVal x) ->
  eval (S n) body e st2 = Done st3 (CVal bv) ->
  g st3 = Done st4 (CErr er) ->
  eval (S (S n)) (NFor [v] [it] body) e st = Done st4 (CErr er).
Proof.
  intros. rewrite C02_for1_is_bind_body_resume, H, H0, H1. cbn [bind for1_loop].
  rewrite H2. cbn [bind]. rewrite H3. reflexivity.
Qed.
Print Assumptions C02_error_in_resumed_generator.

(* the Readme's examples: nested loops enumerate the cross product, a
   two-iterator loop zips and stops with the shorter iterator *)
Example C02_readme_cross_product_and_zip :
  let run src := snd (sem_tree sem_init src) in
  (* acc = []; for i <- fromto(1,3) for j <- elems("ab") acc = acc + [toa(i) + j] *)
  run (NBlock [NAssign (NName "acc") (NList []);
               NFor [NName "i"] [NCall (NName "fromto") [NInt 1; NInt 3]]
                 (NFor [NName "j"] [NCall (NName "elems") [NStr "ab"]]
                    (NAssign (NName "acc") (NBin "+" (NName "acc")
                        (NList [NBin "+" (NCall (NName "toa") [NName "i"]) (NName "j")]))));
               NName "acc"])
    = CVal (VArr [VStr "1a"; VStr "1b"; VStr "2a"; VStr "2b"]) /\
  run (NBlock [NAssign (NName "acc") (NList []);
               NFor [NName "i"; NName "j"] [NCall (NName "fromto") [NInt 1; NInt 5]; NCall (NName "elems") [NStr "ab"]]
                 (NAssign (NName "acc") (NBin "+" (NName "acc")
                        (NList [NBin "+" (NCall (NName "toa") [NName "i"]) (NName "j")])));
               NName "acc"])
    = CVal (VArr [VStr "1a"; VStr "2b"]).
Proof. vm_compute. split; reflexivity. Qed.

(* n yields, n bodies, in order: J i is whatever holds when value i has just been handed out *)
Theorem C02_n_yields_n_bodies_in_order :
  forall (f : nat) (v : string) (body : node) (fid : Z) (fr : nat -> list value) (val : nat -> value) (n : nat)
         (J : nat -> sstate -> Prop),
  (forall i, (i < n)%nat -> is_nil (val i) = false) ->
  (forall i st, (i < n)%nat -> J i st -> frame_of st fid = Some (fr i) ->
     exists st1 x, eval f body env_top (set_global st v (val i)) = Done st1 (CVal x) /\
                   frame_of st1 fid = Some (fr i) /\ J (S i) (set_frame st1 fid (fr (S i)))) ->
  forall it st st0,
    gen fid fr val n 0 st0 (eval f it env_top st) ->
    (n <= f)%nat -> J 0%nat st0 -> frame_of st0 fid = Some (fr 0%nat) ->
    exists st' x, eval (S f) (NFor [NName v] [it] body) env_top st = Done st' (CVal x) /\ J n st'.
Proof. exact for_over_gen. Qed.
Print Assumptions C02_n_yields_n_bodies_in_order.
