(* StmtFuel.v — the meaning of a statement does not depend on how much fuel it is given beyond what it needs *)
Require Import Calc.Sem.
Require Import Calc.Base Calc.Bytecode Calc.Value Calc.FloatText Calc.Ast Calc.Compile Calc.VM
        Calc.ExprSem Calc.ExprVM Calc.ExprCorrect Calc.ExprTop Calc.ExprAssign Calc.ExprLen Calc.ExprSession Calc.LExprSem
        Calc.StmtSem Calc.StmtCorrect.
Require Import Lia.
Open Scope Z_scope.

Lemma leb_more a n k : Nat.leb a n = true -> Nat.leb a (n + k) = true.
Proof. intros H. apply Nat.leb_le in H. apply Nat.leb_le. lia. Qed.

Lemma ucall_more B n k W nm args r : ucall_sem B n W nm args = Some r -> ucall_sem B (n + k) W nm args = Some r.
Proof.
  unfold ucall_sem. destruct (ft_body B nm) as [body|]; [|discriminate].
  destruct (Nat.leb (heights args) n) eqn:E1; [|discriminate]. rewrite (leb_more _ _ k E1). cbn [andb].
  destruct (fun_eqb (gval (w_glob W) nm) (ft_val B nm)); [|discriminate].
  destruct (seq_res (den (w_glob W)) args) as [xs|err]; [|exact (fun H => H)].
  destruct (ft_arity B nm =? zlen args); [|exact (fun H => H)].
  destruct (lpure (repeat VNil (List.length args)) body); [|discriminate]. cbn [andb].
  destruct (Nat.leb (height body) n) eqn:E2; [|discriminate]. rewrite (leb_more _ _ k E2). exact (fun H => H).
Qed.

Theorem ssem_more B : forall n t W r k, wstmt t = true -> ssem B n W t = Some r -> ssem B (n + k) W t = Some r.
Proof.
  induction n as [|n IH]; intros t W r k Hw Hs; [discriminate Hs|].
  change (S n + k)%nat with (S (n + k)).
  assert (Pure : (if Nat.leb (height t) (S n) then Some (W, den (w_glob W) t) else None) = Some r ->
                 (if Nat.leb (height t) (S (n + k)) then Some (W, den (w_glob W) t) else None) = Some r).
  { intros H. destruct (Nat.leb (height t) (S n)) eqn:E; [|discriminate H].
    change (S (n + k)) with (S n + k)%nat. rewrite (leb_more _ _ k E). exact H. }
  destruct t; try (apply Pure; exact Hs); try discriminate Hw.
  - (* NIf *)
    cbn [wstmt] in Hw. apply andb_prop in Hw. destruct Hw as [Hc Hb'].
    cbn [ssem] in Hs |- *. destruct (Nat.leb (height t1) n) eqn:E; [|discriminate Hs]. rewrite (leb_more _ _ k E).
    destruct (cond_res (den (w_glob W) t1)) as [[|]|e]; [exact (IH t2 W r k Hb' Hs)|exact Hs|exact Hs].
  - (* NIfElse *)
    cbn [wstmt] in Hw. apply andb_prop in Hw. destruct Hw as [Hw Hb2]. apply andb_prop in Hw. destruct Hw as [Hc Hb1].
    cbn [ssem] in Hs |- *. destruct (Nat.leb (height t1) n) eqn:E; [|discriminate Hs]. rewrite (leb_more _ _ k E).
    destruct (cond_res (den (w_glob W) t1)) as [[|]|e]; [exact (IH t2 W r k Hb1 Hs)|exact (IH t3 W r k Hb2 Hs)|exact Hs].
  - (* NWhile *)
    cbn [wstmt] in Hw. apply andb_prop in Hw. destruct Hw as [Hc Hb'].
    rewrite ssem_while in Hs |- *. destruct (Nat.leb (height t1) n) eqn:E; [|discriminate Hs]. rewrite (leb_more _ _ k E).
    assert (L : forall j W last, swhile_of B n t1 t2 j W last = Some r -> swhile_of B (n + k) t1 t2 (j + k) W last = Some r).
    { induction j as [|j IHj]; intros W0 last H; [discriminate H|].
      change (S j + k)%nat with (S (j + k)). cbn [swhile_of] in *.
      destruct (cond_res (den (w_glob W0) t1)) as [[|]|e]; [|exact H|exact H].
      destruct (ssem B n W0 t2) as [[Wa [v|e]]|] eqn:Eb; try discriminate H.
      - rewrite (IH t2 W0 _ k Hb' Eb). exact (IHj Wa v H).
      - rewrite (IH t2 W0 _ k Hb' Eb). exact H. }
    exact (L n W VNil Hs).
  - (* NAssign *)
    destruct t1; try discriminate Hw. cbn [wstmt] in Hw. unfold assign_ok in Hw.
    cbn [ssem] in Hs |- *. destruct (pure t2) eqn:Hp2.
    + destruct (Nat.leb (height t2) n) eqn:E; [|discriminate Hs]. rewrite (leb_more _ _ k E). exact Hs.
    + cbn [orb] in Hw. assert (Hw2 : wstmt t2 = true) by (destruct t2; try discriminate Hw; exact Hw).
      destruct (ssem B n W t2) as [[Wa [y|err]]|] eqn:E2; try discriminate Hs; rewrite (IH t2 W _ k Hw2 E2); exact Hs.
  - (* NBlock *)
    cbn [wstmt] in Hw. rewrite ssem_block in Hs |- *.
    assert (Hall : forallb wstmt l = true) by (destruct l; [discriminate Hw|exact Hw]).
    clear Hw Pure. revert W Hs Hall.
    induction l as [|x l IHl]; intros W Hs Hall; [exact Hs|].
    cbn [forallb] in Hall. apply andb_prop in Hall. destruct Hall as [Hx Hl].
    destruct l as [|y l'].
    + cbn [sblock_of] in *. exact (IH x W r k Hx Hs).
    + rewrite sblock_cons2 in Hs |- *.
      destruct (ssem B n W x) as [[Wa [v|e]]|] eqn:Ex; try discriminate Hs; rewrite (IH x W _ k Hx Ex).
      * exact (IHl Wa Hs Hl).
      * exact Hs.
  - (* NCall *)
    destruct t; try discriminate Hw. destruct args as [|a [|a2 l]].
    + cbn [ssem] in Hs |- *. destruct (String.eqb n0 "read") eqn:Er.
      2:{ destruct (bop_of_name n0) eqn:Eb; [discriminate Hs|]. exact (ucall_more B n k W n0 [] r Hs). }
      destruct (Nat.leb 1 n) eqn:E; [|discriminate Hs]. rewrite (leb_more _ _ k E). exact Hs.
    + cbn [ssem] in Hs |- *. destruct (bop_of_name n0) as [b|] eqn:Eb.
      2:{ exact (ucall_more B n k W n0 [a] r Hs). }
      destruct (Nat.leb (height a) n) eqn:E1; [|discriminate Hs]. rewrite (leb_more _ _ k E1).
      destruct (Nat.leb 2 n) eqn:E2; [|discriminate Hs]. rewrite (leb_more _ _ k E2). exact Hs.
    + cbn [ssem] in Hs |- *. destruct (bop_of_name n0) eqn:Eb; [discriminate Hs|].
      destruct (String.eqb n0 "read"); [discriminate Hs|].
      exact (ucall_more B n k W n0 _ r Hs).
  - (* NWrite *)
    cbn [ssem] in Hs |- *. destruct (Nat.leb (height t) n) eqn:E; [|discriminate Hs]. rewrite (leb_more _ _ k E). exact Hs.
Qed.

(* so a statement has at most one meaning, whatever fuel finds it *)
Corollary ssem_unique B n m t W r1 r2 :
  wstmt t = true -> ssem B n W t = Some r1 -> ssem B m W t = Some r2 -> r1 = r2.
Proof.
  intros Hw H1 H2. pose proof (ssem_more B n t W r1 m Hw H1) as E1. pose proof (ssem_more B m t W r2 n Hw H2) as E2.
  rewrite Nat.add_comm in E2. rewrite E1 in E2. injection E2 as E. exact E.
Qed.

Corollary ssem_upto B n m t W r : wstmt t = true -> (n <= m)%nat -> ssem B n W t = Some r -> ssem B m W t = Some r.
Proof. intros Hw Hle H. replace m with (n + (m - n))%nat by lia. exact (ssem_more B n t W r (m - n) Hw H). Qed.
