(* Lexer.v — model of lexer/lexer.go and lexer/states.go: the state-function
   lexer with its from/to cursor, and lexer/transaction.go: the replay cache
   with snapshot / rollback / commit.  Input is a byte string; runes are
   decoded as strings.Reader.ReadRune does (invalid UTF-8 gives U+FFFD, size 1). *)
Require Import Calc.Base.
Open Scope Z_scope.

(* ---------- UTF-8 ---------- *)
Definition RuneError := 65533.
Definition EOFr := 0.

(* decode the first rune of a non-empty byte list: (rune, size) *)
Definition decode_rune (l : list Z) : Z * Z :=
  match l with
  | [] => (RuneError, 0)
  | b0 :: r =>
      if b0 <? 128 then (b0, 1)
      else if b0 <? 194 then (RuneError, 1)
      else if b0 <? 224 then
        match r with
        | b1 :: _ => if (128 <=? b1) && (b1 <? 192) then ((b0 - 192) * 64 + (b1 - 128), 2) else (RuneError, 1)
        | _ => (RuneError, 1)
        end
      else if b0 <? 240 then
        match r with
        | b1 :: b2 :: _ =>
            let lo := if b0 =? 224 then 160 else 128 in
            let hi := if b0 =? 237 then 160 else 192 in
            if (lo <=? b1) && (b1 <? hi) && (128 <=? b2) && (b2 <? 192)
            then ((b0 - 224) * 4096 + (b1 - 128) * 64 + (b2 - 128), 3) else (RuneError, 1)
        | _ => (RuneError, 1)
        end
      else if b0 <? 245 then
        match r with
        | b1 :: b2 :: b3 :: _ =>
            let lo := if b0 =? 240 then 144 else 128 in
            let hi := if b0 =? 244 then 144 else 192 in
            if (lo <=? b1) && (b1 <? hi) && (128 <=? b2) && (b2 <? 192) && (128 <=? b3) && (b3 <? 192)
            then ((b0 - 240) * 262144 + (b1 - 128) * 4096 + (b2 - 128) * 64 + (b3 - 128), 4) else (RuneError, 1)
        | _ => (RuneError, 1)
        end
      else (RuneError, 1)
  end.

(* UTF-8 encoding of a rune, as fmt's %c prints it *)
Definition encode_rune (r : Z) : string :=
  if r <? 128 then sb [r]
  else if r <? 2048 then sb [192 + r / 64; 128 + r mod 64]
  else if r <? 65536 then sb [224 + r / 4096; 128 + (r / 64) mod 64; 128 + r mod 64]
  else sb [240 + r / 262144; 128 + (r / 4096) mod 64; 128 + (r / 64) mod 64; 128 + r mod 64].

(* ---------- tokens ---------- *)
Inductive kind := KInvalid | KEOL | KEOF | KIntLit | KFloatLit | KStringLit | KName | KSticky | KNotSticky.

Definition kind_eqb (a b : kind) : bool :=
  match a, b with
  | KInvalid, KInvalid | KEOL, KEOL | KEOF, KEOF | KIntLit, KIntLit | KFloatLit, KFloatLit
  | KStringLit, KStringLit | KName, KName | KSticky, KSticky | KNotSticky, KNotSticky => true
  | _, _ => false
  end.

Definition kind_name (k : kind) : string :=
  match k with
  | KInvalid => "Invalid" | KEOL => "EOL" | KEOF => "EOF" | KIntLit => "IntLit" | KFloatLit => "FloatLit"
  | KStringLit => "StringLit" | KName => "Name" | KSticky => "Sticky" | KNotSticky => "NotSticky"
  end.

Record token := { t_kind : kind; t_value : string; t_from : Z; t_to : Z }.
Definition token0 : token := {| t_kind := KInvalid; t_value := ""; t_from := 0; t_to := 0 |}.

(* token.String() *)
Definition token_string (t : token) : string :=
  match t_kind t with
  | KEOL | KEOF => "<" +++ kind_name (t_kind t) +++ ">"
  | KSticky | KNotSticky => t_value t
  | k => "<" +++ sb [34] +++ t_value t +++ sb [34] +++ " " +++ kind_name k +++ ">"
  end.

(* ---------- state functions ---------- *)
Inductive lstate := SWhite | SComment | SInt | SFloat | SVar | SString | SEscape | SStringEnd
                  | SNotSticky | SSticky | SEol | SEof.

Definition stickyChars := "+*/=<>!-&|#%~".
Definition nonStickyChars := "(){}[],:".

Fixpoint str_contains (s : string) (c : Z) : bool :=
  match s with
  | EmptyString => false
  | String a r => (Z_of_byte a =? c) || str_contains r c
  end.

(* the result of a state function *)
Record str := { s_next : lstate; s_emit : bool; s_adv : bool; s_typ : kind; s_err : option string }.

Definition newSTR (c : Z) (typ : kind) (emit adv : bool) (errmsg : string) : str :=
  let mk n := {| s_next := n; s_emit := emit; s_adv := adv; s_typ := typ; s_err := None |} in
  if (c =? 32) || (c =? 9) then mk SWhite
  else if c =? 59 then mk SComment
  else if c =? 10 then mk SEol
  else if c =? EOFr then mk SEof
  else if (48 <=? c) && (c <=? 57) then mk SInt
  else if (97 <=? c) && (c <=? 122) then mk SVar
  else if c =? 34 then mk SString
  else if str_contains nonStickyChars c then mk SNotSticky
  else if str_contains stickyChars c then mk SSticky
  else {| s_next := SWhite; s_emit := false; s_adv := false; s_typ := KInvalid; s_err := Some errmsg |}.

Definition plain (n : lstate) : str :=
  {| s_next := n; s_emit := false; s_adv := false; s_typ := KInvalid; s_err := None |}.

(* None = the Go code panics (the eof state function) *)
Definition state_fn (st : lstate) (c : Z) : option str :=
  let ch := encode_rune c in
  match st with
  | SWhite => Some (newSTR c KInvalid false true ("Lexer: unexpected char " +++ ch))
  | SComment =>
      if c =? 10 then Some {| s_next := SEol; s_emit := false; s_adv := true; s_typ := KInvalid; s_err := None |}
      else if c =? EOFr then Some {| s_next := SEof; s_emit := false; s_adv := true; s_typ := KInvalid; s_err := None |}
      else Some (plain SComment)
  | SInt =>
      if (48 <=? c) && (c <=? 57) then Some (plain SInt)
      else if c =? 46 then Some (plain SFloat)
      else Some (newSTR c KIntLit true false ("Lexer: unexpected char " +++ ch +++ " in integer literal"))
  | SFloat =>
      if (48 <=? c) && (c <=? 57) then Some (plain SFloat)
      else Some (newSTR c KFloatLit true false ("Lexer: unexpected char " +++ ch +++ " in float literal"))
  | SVar =>
      if (97 <=? c) && (c <=? 122) then Some (plain SVar)
      else Some (newSTR c KName true false ("Lexer: unexpected char " +++ ch +++ " in variable name"))
  | SString =>
      if c =? EOFr then Some {| s_next := SWhite; s_emit := false; s_adv := false; s_typ := KInvalid;
                               s_err := Some "Lexer: unterminated string literal" |}
      else if c =? 34 then Some (plain SStringEnd)
      else if c =? 92 then Some (plain SEscape)
      else Some (plain SString)
  | SEscape =>
      if c =? EOFr then Some {| s_next := SWhite; s_emit := false; s_adv := false; s_typ := KInvalid;
                               s_err := Some "Lexer: unterminated string literal" |}
      else Some (plain SString)
  | SStringEnd => Some (newSTR c KStringLit true false ("Lexer: unexpected char " +++ ch +++ " in string literal"))
  | SNotSticky => Some (newSTR c KNotSticky true false ("Lexer: unexpected char " +++ ch))
  | SSticky =>
      if str_contains stickyChars c && negb (c =? EOFr) then Some (plain SSticky)
      else Some (newSTR c KSticky true false ("Lexer: unexpected char " +++ ch +++ " following operator"))
  | SEol => Some (newSTR c KEOL true false ("Lexer: unexpected char " +++ ch +++ " following new line"))
  | SEof => None
  end.

(* strings.ReplaceAll(word, "\\n", "\n") *)
Fixpoint unescape_nl (l : list Z) : list Z :=
  match l with
  | 92 :: 110 :: r => 10 :: unescape_nl r
  | x :: r => x :: unescape_nl r
  | [] => []
  end.

(* ---------- the lexer ---------- *)
Record lexer := {
  l_input : list Z;
  l_len : Z;
  l_rdr : Z;           (* offset of the strings.Reader *)
  l_from : Z;
  l_to : Z;
  l_token : token;
  l_err : option string;
  l_state : lstate;
  l_eof : bool
}.

Definition new_lexer (input : string) : lexer :=
  let b := bytes_of input in
  {| l_input := b; l_len := Z.of_nat (List.length b); l_rdr := 0; l_from := 0; l_to := 0;
     l_token := token0; l_err := None; l_state := SWhite; l_eof := false |}.

Definition slice (l : list Z) (i j : Z) : list Z := firstn (Z.to_nat (j - i)) (skipn (Z.to_nat i) l).

Inductive next_result := NTrue (l : lexer) | NFalse (l : lexer) | NPanic | NFuel.

Definition finished (l : lexer) : bool := (l_from l =? l_len l) && (l_to l =? l_len l).

Definition with_cursor (l : lexer) (rdr from to : Z) : lexer :=
  {| l_input := l_input l; l_len := l_len l; l_rdr := rdr; l_from := from; l_to := to;
     l_token := l_token l; l_err := l_err l; l_state := l_state l; l_eof := l_eof l |}.

(* the loop of Next with the local state variable st *)
Fixpoint next_loop (fuel : nat) (l : lexer) (st : lstate) : next_result :=
  match fuel with
  | O => NFuel
  | S k =>
      if finished l then
        (* tail: synthetic end of line, then end of file *)
        let l1 := {| l_input := l_input l; l_len := l_len l; l_rdr := l_rdr l; l_from := l_from l; l_to := l_to l;
                     l_token := l_token l; l_err := None; l_state := l_state l; l_eof := l_eof l |} in
        if negb (l_eof l) && negb (kind_eqb (t_kind (l_token l)) KEOL) then
          NTrue {| l_input := l_input l1; l_len := l_len l1; l_rdr := l_rdr l1; l_from := l_from l1; l_to := l_to l1;
                   l_token := {| t_kind := KEOL; t_value := sb [10]; t_from := 0; t_to := 0 |};
                   l_err := None; l_state := l_state l1; l_eof := false |}
        else if negb (l_eof l) then
          NTrue {| l_input := l_input l1; l_len := l_len l1; l_rdr := l_rdr l1; l_from := l_from l1; l_to := l_to l1;
                   l_token := {| t_kind := KEOF; t_value := sb [0]; t_from := 0; t_to := 0 |};
                   l_err := None; l_state := l_state l1; l_eof := true |}
        else NFalse l1
      else
        (* nextRune; after a lexer error the reader is ahead of the cursor and can run dry first:
           ReadRune then fails with io.EOF and Next returns false *)
        if (l_to l <? l_len l) && (l_rdr l >=? l_len l) then
          NFalse {| l_input := l_input l; l_len := l_len l; l_rdr := l_rdr l; l_from := l_from l; l_to := l_to l;
                    l_token := l_token l; l_err := Some "EOF"; l_state := l_state l; l_eof := l_eof l |}
        else
        let '(c0, s, rdr') :=
          if l_to l >=? l_len l then (EOFr, 0, l_rdr l)
          else let (r, sz) := decode_rune (skipn (Z.to_nat (l_rdr l)) (l_input l)) in
               ((if r =? EOFr then RuneError else r), sz, l_rdr l + sz) in
        match state_fn st c0 with
        | None => NPanic
        | Some r =>
            match s_err r with
            | Some msg =>
                NTrue {| l_input := l_input l; l_len := l_len l; l_rdr := rdr'; l_from := l_from l; l_to := l_to l;
                         l_token := l_token l; l_err := Some msg; l_state := l_state l; l_eof := l_eof l |}
            | None =>
                if s_emit r then
                  let word := slice (l_input l) (l_from l) (l_to l) in
                  let word' := match s_typ r with KStringLit => unescape_nl word | _ => word end in
                  NTrue {| l_input := l_input l; l_len := l_len l; l_rdr := rdr'; l_from := l_to l; l_to := l_to l + s;
                           l_token := {| t_kind := s_typ r; t_value := sb word'; t_from := l_from l; t_to := l_to l |};
                           l_err := l_err l; l_state := s_next r; l_eof := l_eof l |}
                else
                  let from' := if s_adv r then l_to l else l_from l in
                  next_loop k (with_cursor l rdr' from' (l_to l + s)) (s_next r)
            end
        end
  end.

Definition lexer_next (l : lexer) : next_result :=
  next_loop (Z.to_nat (l_len l + 4)) l (l_state l).

(* ---------- the transactional lexer (transaction.go) ---------- *)
Record lexres := { r_token : token; r_err : option string; r_from : Z; r_to : Z }.

Record tlexer := {
  tl_stack : list lexres;      (* cache of lexed tokens, oldest first *)
  tl_pointers : list Z;        (* snapshot stack, oldest first *)
  tl_writep : Z;
  tl_readp : Z;
  tl_lexer : lexer
}.

Definition new_tlexer (input : string) : tlexer :=
  {| tl_stack := []; tl_pointers := []; tl_writep := 0; tl_readp := -1; tl_lexer := new_lexer input |}.

Inductive tnext := TNTrue (t : tlexer) | TNFalse (t : tlexer) | TNPanic | TNFuel.

Definition tl_next (t : tlexer) : tnext :=
  if tl_readp t <? tl_writep t - 1 then
    TNTrue {| tl_stack := tl_stack t; tl_pointers := tl_pointers t; tl_writep := tl_writep t;
              tl_readp := tl_readp t + 1; tl_lexer := tl_lexer t |}
  else
    match lexer_next (tl_lexer t) with
    | NTrue l =>
        TNTrue {| tl_stack := tl_stack t ++ [{| r_token := l_token l; r_err := l_err l; r_from := l_from l; r_to := l_to l |}];
                  tl_pointers := tl_pointers t; tl_writep := tl_writep t + 1; tl_readp := tl_readp t + 1; tl_lexer := l |}
    | NFalse l => TNFalse {| tl_stack := tl_stack t; tl_pointers := tl_pointers t; tl_writep := tl_writep t;
                             tl_readp := tl_readp t; tl_lexer := l |}
    | NPanic => TNPanic
    | NFuel => TNFuel
    end.

(* the entry Token()/Err()/From()/To() look at; None = index out of range panic *)
Definition tl_cur (t : tlexer) : option lexres :=
  if tl_readp t <? 0 then None else nth_error (tl_stack t) (Z.to_nat (tl_readp t)).

Definition tl_snapshot (t : tlexer) : tlexer :=
  {| tl_stack := tl_stack t; tl_pointers := tl_pointers t ++ [tl_readp t]; tl_writep := tl_writep t;
     tl_readp := tl_readp t; tl_lexer := tl_lexer t |}.

Definition tl_commit (t : tlexer) : option tlexer :=
  match tl_pointers t with
  | [] => None
  | _ => Some {| tl_stack := tl_stack t; tl_pointers := removelast (tl_pointers t); tl_writep := tl_writep t;
                 tl_readp := tl_readp t; tl_lexer := tl_lexer t |}
  end.

Definition tl_rollback (t : tlexer) : option tlexer :=
  match tl_pointers t with
  | [] => None
  | _ => Some {| tl_stack := tl_stack t; tl_pointers := removelast (tl_pointers t); tl_writep := tl_writep t;
                 tl_readp := last (tl_pointers t) 0; tl_lexer := tl_lexer t |}
  end.

(* all tokens of a fresh scan, up to and including the first error (what the
   parser can ever see) *)
Fixpoint scan_all (fuel : nat) (l : lexer) : list lexres :=
  match fuel with
  | O => []
  | S k =>
      match lexer_next l with
      | NTrue l' =>
          let r := {| r_token := l_token l'; r_err := l_err l'; r_from := l_from l'; r_to := l_to l' |} in
          match l_err l' with
          | Some _ => [r]
          | None => r :: scan_all k l'
          end
      | _ => []
      end
  end.

Definition tokens_of (input : string) : list lexres :=
  scan_all (Z.to_nat (2 * slen input + 4)) (new_lexer input).
