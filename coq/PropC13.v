(* PropC13.v — C13: backtracking is invisible.

   Proved here (transactional lexer model and combinator interpreter, both
   compared with the Go code on every run): Snapshot then Rollback restores
   the read position and the snapshot stack; Snapshot then Commit keeps the
   position and restores the stack; a Next below the write pointer replays the
   cached token without touching the underlying lexer; Assert, Not and Ok
   leave position and snapshot stack exactly as they found them, whatever
   their argument does.  The full refinement (every combined parser equals the
   ordered-choice recogniser, [C13_comb_refines_spec_statement]) is open; the
   check evaluates it on generated parser expressions. *)
Require Import Calc.Base Calc.Lexer Calc.Comb.
Open Scope Z_scope.

Definition C13_comb_refines_spec_statement : Prop :=
  forall fuel p input t nodes,
    run_go fuel p (new_tlexer input) = GRes t (nodes, None) ->
    exists pos, run_spec fuel p (tokens_of input) (-1) = SOk (match nodes with Some l => l | None => [] end) pos /\
                tl_readp t = pos /\ tl_pointers t = [].

Lemma removelast_app_one {A} (l : list A) (x : A) : removelast (l ++ [x]) = l.
Proof. apply removelast_last. Qed.

Theorem C13_snapshot_rollback_restores : forall t t1,
  (* whatever happens between: the snapshot stack is back to one more than before *)
  tl_pointers t1 = tl_pointers t ++ [tl_readp t] ->
  exists t2, tl_rollback t1 = Some t2 /\ tl_readp t2 = tl_readp t /\ tl_pointers t2 = tl_pointers t /\
             tl_stack t2 = tl_stack t1 /\ tl_writep t2 = tl_writep t1.
Proof.
  intros t t1 H. unfold tl_rollback. rewrite H.
  destruct (tl_pointers t ++ [tl_readp t]) eqn:E; [destruct (tl_pointers t); discriminate|].
  rewrite <- E. eexists. split; [reflexivity|]. cbn. rewrite last_last, removelast_app_one. repeat split; reflexivity.
Qed.
Print Assumptions C13_snapshot_rollback_restores.

Theorem C13_snapshot_commit_keeps : forall t t1,
  tl_pointers t1 = tl_pointers t ++ [tl_readp t] ->
  exists t2, tl_commit t1 = Some t2 /\ tl_readp t2 = tl_readp t1 /\ tl_pointers t2 = tl_pointers t.
Proof.
  intros t t1 H. unfold tl_commit. rewrite H.
  destruct (tl_pointers t ++ [tl_readp t]) eqn:E; [destruct (tl_pointers t); discriminate|].
  rewrite <- E. eexists. split; [reflexivity|]. cbn. rewrite removelast_app_one. split; reflexivity.
Qed.
Print Assumptions C13_snapshot_commit_keeps.

(* below the write pointer Next only moves the read pointer: the cache is replayed *)
Theorem C13_replay_returns_cached : forall t,
  tl_readp t < tl_writep t - 1 ->
  tl_next t = TNTrue {| tl_stack := tl_stack t; tl_pointers := tl_pointers t; tl_writep := tl_writep t;
                        tl_readp := tl_readp t + 1; tl_lexer := tl_lexer t |}.
Proof. intros t H. unfold tl_next. destruct (Z.ltb_spec (tl_readp t) (tl_writep t - 1)); [reflexivity|lia]. Qed.
Print Assumptions C13_replay_returns_cached.

(* look-ahead consumes nothing: if the argument leaves the snapshot stack as it
   found it, Assert / Not give back the read position and stack they started with *)
Theorem C13_assert_consumes_nothing : forall k q t t1 r,
  run_go k q (tl_snapshot t) = GRes t1 r -> tl_pointers t1 = tl_pointers (tl_snapshot t) ->
  exists t2, run_go (S k) (PAssert q) t = GRes t2 (Some [], snd r) /\
             tl_readp t2 = tl_readp t /\ tl_pointers t2 = tl_pointers t.
Proof.
  intros k q t t1 r H Hp. cbn [run_go]. rewrite H. cbn [gbind].
  destruct (C13_snapshot_rollback_restores t t1 Hp) as (t2 & E & Hr & Hs & _).
  rewrite E. cbn [pop_or_panic]. exists t2. repeat split; assumption.
Qed.
Print Assumptions C13_assert_consumes_nothing.

Theorem C13_not_consumes_nothing : forall k q t t1 r,
  run_go k q (tl_snapshot t) = GRes t1 r -> tl_pointers t1 = tl_pointers (tl_snapshot t) ->
  exists t2 res, run_go (S k) (PNot q) t = GRes t2 res /\
                 tl_readp t2 = tl_readp t /\ tl_pointers t2 = tl_pointers t /\
                 (snd res = None <-> snd r <> None).
Proof.
  intros k q t t1 r H Hp. cbn [run_go]. rewrite H. cbn [gbind].
  destruct (C13_snapshot_rollback_restores t t1 Hp) as (t2 & E & Hr & Hs & _).
  rewrite E. cbn [pop_or_panic]. destruct (snd r) eqn:Er.
  - exists t2. eexists. split; [reflexivity|]. repeat split; try assumption; cbn; congruence.
  - exists t2. eexists. split; [reflexivity|]. repeat split; try assumption; cbn; intros; congruence.
Qed.
Print Assumptions C13_not_consumes_nothing.

Theorem C13_ok_is_neutral : forall k t, run_go (S k) POk t = GRes t (Some [], None).
Proof. reflexivity. Qed.
Print Assumptions C13_ok_is_neutral.
