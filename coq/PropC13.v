(* PropC13.v — C13: backtracking is invisible.

   Proved here (transactional lexer model and combinator interpreter, both
   compared with the Go code on every run): the interpreter that issues Next,
   Snapshot, Commit and Rollback in the order the Go closures do, over the
   replay cache and with Go's nil / non-nil slices, computes on every
   combinator expression and for every fuel exactly what ordered choice
   computes on the plain token list — same nodes, same position afterwards,
   same error, same panics, the snapshot stack as found
   ([C13_backtracking_is_invisible], CombProofs.v: induction on the fuel and
   the expression, the four repetition loops by their own inductions).  The
   lexer under the transactional lexer enters as a token source: a predicate
   Src with two hypotheses (it delivers the entries of one fixed list in
   order, and reports the end ever after); they are hypotheses of the theorem,
   not axioms — that the concrete lexer model behaves so is compared on every
   run (chk_tlex_spec).  Also: Snapshot/Rollback/Commit restore what they
   should, a replayed Next does not touch the lexer, Assert, Not and Ok consume
   nothing. *)
Require Import Calc.Base Calc.Lexer Calc.Comb Calc.CombProofs.
Open Scope Z_scope.

Lemma removelast_app_one {A} (l : list A) (x : A) : removelast (l ++ [x]) = l.
Proof. apply removelast_last. Qed.

Theorem C13_snapshot_rollback_restores : forall t t1,
  (* whatever happens between: the snapshot stack is back to one more than before *)
  tl_pointers t1 = tl_pointers t ++ [tl_readp t] ->
  exists t2, tl_rollback t1 = Some t2 /\ tl_readp t2 = tl_readp t /\ tl_pointers t2 = tl_pointers t /\
             tl_stack t2 = tl_stack t1 /\ tl_writep t2 = tl_writep t1.
Proof.
  intros t t1 H. unfold tl_rollback. rewrite H.
  destruct (tl_pointers t ++ [tl_readp t]) eqn:E; [destruct (tl_pointers t); discriminate|].
  rewrite <- E. eexists. split; [reflexivity|]. cbn. rewrite last_last, removelast_app_one. repeat split; reflexivity.
Qed.
Print Assumptions C13_snapshot_rollback_restores.

Theorem C13_snapshot_commit_keeps : forall t t1,
  tl_pointers t1 = tl_pointers t ++ [tl_readp t] ->
  exists t2, tl_commit t1 = Some t2 /\ tl_readp t2 = tl_readp t1 /\ tl_pointers t2 = tl_pointers t.
Proof.
  intros t t1 H. unfold tl_commit. rewrite H.
  destruct (tl_pointers t ++ [tl_readp t]) eqn:E; [destruct (tl_pointers t); discriminate|].
  rewrite <- E. eexists. split; [reflexivity|]. cbn. rewrite removelast_app_one. split; reflexivity.
Qed.
Print Assumptions C13_snapshot_commit_keeps.

(* below the write pointer Next only moves the read pointer: the cache is replayed *)
Theorem C13_replay_returns_cached : forall t,
  tl_readp t < tl_writep t - 1 ->
  tl_next t = TNTrue {| tl_stack := tl_stack t; tl_pointers := tl_pointers t; tl_writep := tl_writep t;
                        tl_readp := tl_readp t + 1; tl_lexer := tl_lexer t |}.
Proof. intros t H. unfold tl_next. destruct (Z.ltb_spec (tl_readp t) (tl_writep t - 1)); [reflexivity|lia]. Qed.
Print Assumptions C13_replay_returns_cached.

(* look-ahead consumes nothing: if the argument leaves the snapshot stack as it
   found it, Assert / Not give back the read position and stack they started with *)
Theorem C13_assert_consumes_nothing : forall k q t t1 r,
  run_go k q (tl_snapshot t) = GRes t1 r -> tl_pointers t1 = tl_pointers (tl_snapshot t) ->
  exists t2, run_go (S k) (PAssert q) t = GRes t2 (Some [], snd r) /\
             tl_readp t2 = tl_readp t /\ tl_pointers t2 = tl_pointers t.
Proof.
  intros k q t t1 r H Hp. cbn [run_go]. rewrite H. cbn [gbind].
  destruct (C13_snapshot_rollback_restores t t1 Hp) as (t2 & E & Hr & Hs & _).
  rewrite E. cbn [pop_or_panic]. exists t2. repeat split; assumption.
Qed.
Print Assumptions C13_assert_consumes_nothing.

Theorem C13_not_consumes_nothing : forall k q t t1 r,
  run_go k q (tl_snapshot t) = GRes t1 r -> tl_pointers t1 = tl_pointers (tl_snapshot t) ->
  exists t2 res, run_go (S k) (PNot q) t = GRes t2 res /\
                 tl_readp t2 = tl_readp t /\ tl_pointers t2 = tl_pointers t /\
                 (snd res = None <-> snd r <> None).
Proof.
  intros k q t t1 r H Hp. cbn [run_go]. rewrite H. cbn [gbind].
  destruct (C13_snapshot_rollback_restores t t1 Hp) as (t2 & E & Hr & Hs & _).
  rewrite E. cbn [pop_or_panic]. destruct (snd r) eqn:Er.
  - exists t2. eexists. split; [reflexivity|]. repeat split; try assumption; cbn; congruence.
  - exists t2. eexists. split; [reflexivity|]. repeat split; try assumption; cbn; intros; congruence.
Qed.
Print Assumptions C13_not_consumes_nothing.

Theorem C13_ok_is_neutral : forall k t, run_go (S k) POk t = GRes t (Some [], None).
Proof. reflexivity. Qed.
Print Assumptions C13_ok_is_neutral.

(* ---- the refinement ---- *)
Theorem C13_backtracking_is_invisible :
  forall (toks : list lexres) (Src : lexer -> nat -> Prop),
    (forall l k e, Src l k -> nth_error toks k = Some e ->
       exists l', lexer_next l = NTrue l' /\
                  {| r_token := l_token l'; r_err := l_err l'; r_from := l_from l'; r_to := l_to l' |} = e /\ Src l' (S k)) ->
    (forall l, Src l (List.length toks) -> exists l', lexer_next l = NFalse l' /\ Src l' (List.length toks)) ->
    forall l0, Src l0 0%nat ->
    forall k p,
      let t0 := {| tl_stack := []; tl_pointers := []; tl_writep := 0; tl_readp := -1; tl_lexer := l0 |} in
      sim toks Src t0 (run_go k p t0) (run_spec k p toks (-1)).
Proof. exact backtracking_is_invisible. Qed.
Print Assumptions C13_backtracking_is_invisible.

(* from any state in which the cache is a prefix of the token list: the invariant behind it *)
Theorem C13_go_is_spec_from_any_state :
  forall (toks : list lexres) (Src : lexer -> nat -> Prop),
    (forall l k e, Src l k -> nth_error toks k = Some e ->
       exists l', lexer_next l = NTrue l' /\
                  {| r_token := l_token l'; r_err := l_err l'; r_from := l_from l'; r_to := l_to l' |} = e /\ Src l' (S k)) ->
    (forall l, Src l (List.length toks) -> exists l', lexer_next l = NFalse l' /\ Src l' (List.length toks)) ->
    forall k p t pos, Rt toks Src t pos -> sim toks Src t (run_go k p t) (run_spec k p toks pos).
Proof. intros toks Src H1 H2. exact (go_is_spec toks Src H1 H2). Qed.
Print Assumptions C13_go_is_spec_from_any_state.

(* the hypotheses are met by the concrete lexer model on a real input: the
   successive lexer states of a scan are a token source for the scanned list *)
Fixpoint lexer_states (n : nat) (l : lexer) : list lexer :=
  match n with
  | O => [l]
  | S k => l :: match lexer_next l with NTrue l' => lexer_states k l' | _ => [] end
  end.

Example C13_token_source_exists :
  let input := "f(1, x)" in
  let toks := tokens_of input in
  let LS := lexer_states (List.length toks) (new_lexer input) in
  let Src := fun (l : lexer) (k : nat) => nth_error LS k = Some l in
  List.length toks = 8%nat /\
  (forall l k e, Src l k -> nth_error toks k = Some e ->
     exists l', lexer_next l = NTrue l' /\
                {| r_token := l_token l'; r_err := l_err l'; r_from := l_from l'; r_to := l_to l' |} = e /\ Src l' (S k)) /\
  (forall l, Src l (List.length toks) -> exists l', lexer_next l = NFalse l' /\ Src l' (List.length toks)) /\
  Src (new_lexer input) 0%nat.
Proof.
  cbv zeta. split; [vm_compute; reflexivity|]. split; [|split; [|vm_compute; reflexivity]].
  - intros l k e Hs He.
    do 8 (destruct k as [|k]; [vm_compute in Hs, He; inversion Hs; inversion He; subst; eexists; split; [vm_compute; reflexivity|split; vm_compute; reflexivity]|]).
    vm_compute in He. destruct k; discriminate.
  - intros l Hs. vm_compute in Hs. inversion Hs; subst. eexists. split; vm_compute; reflexivity.
Qed.
