(* ParserShape.v — C05: every tree the grammar model returns, resolved by the
   resolver model, has the shape the compiler theorem assumes; so no input text
   makes the compiler model panic. *)
Require Import Calc.Base Calc.Bytecode Calc.Value Calc.FloatText Calc.Ast Calc.Lexer Calc.Grammar Calc.Resolve
        Calc.Compile Calc.CompileWf Calc.CompileProofs Calc.CompileLoops Calc.ParserTotal.
Require Import Lia.
Open Scope Z_scope.

(* the shape of parser output, before resolution *)
Definition is_nname (n : node) : bool := match n with NName _ => true | _ => false end.

Fixpoint wfp (n : node) : bool :=
  let wfpb (b : node) := match b with NBlock l => forallb wfp l | _ => wfp b end in
  match n with
  | NInt _ | NFloat _ | NStr _ | NBool _ | NName _ => true
  | NBin op l r => (match binop_opcode op with Some _ => true | None => false end) && wfp l && wfp r
  | NUn op t => (String.eqb op "-" || String.eqb op "#" || String.eqb op "!" || String.eqb op "~") && wfp t
  | NIndexAt a i => wfp a && wfp i
  | NIndexFromTo a f t => wfp a && wfp f && wfp t
  | NList l => forallb wfp l
  | NCall name args => is_nname name && forallb wfp args
  | NFunction ps b _ => forallb is_nname ps && wfpb b
  | NIf c t => wfp c && wfpb t
  | NIfElse c t f => wfp c && wfpb t && wfpb f
  | NWhile c b => wfp c && wfpb b
  | NFor vars iters b =>
      Nat.eqb (List.length vars) (List.length iters) && forallb is_nname vars && forallb wfp iters && wfpb b
  | NReturn t => wfp t
  | NYield t => wfp t
  | NAssign v e => is_nname v && wfp e
  | _ => false
  end.

Definition wfpb (b : node) : bool := match b with NBlock l => forallb wfp l | _ => wfp b end.

Definition yields {A} (P : A -> Prop) (f : list tok -> pr A) : Prop := forall ts a r, f ts = Got a r -> P a.

(* operators the grammar accepts have opcodes *)
Lemma level_op_has_opcode L t : tok_in (level_ops L) t = true -> binop_opcode (g_value t) <> None.
Proof.
  unfold tok_in, str_in. intros H. apply existsb_exists in H. destruct H as (v & Hv & E). apply String.eqb_eq in E. rewrite E.
  destruct L as [|[|[|[|[|L]]]]]; cbn in Hv;
    repeat (destruct Hv as [<-|Hv]; [discriminate|]); contradiction.
Qed.

Lemma unary_op_known t : tok_in unary_ops t = true ->
  (String.eqb (g_value t) "-" || String.eqb (g_value t) "#" || String.eqb (g_value t) "!" || String.eqb (g_value t) "~") = true.
Proof.
  unfold tok_in, str_in. intros H. apply existsb_exists in H. destruct H as (v & Hv & E). apply String.eqb_eq in E. rewrite E.
  cbn in Hv. repeat (destruct Hv as [<-|Hv]; [reflexivity|]). contradiction.
Qed.

Lemma accept_true p ts t r : accept p ts = Got t r -> p t = true.
Proof.
  destruct ts as [|[x|] ts']; cbn; intros H; try discriminate.
  destruct (p x) eqn:E; inversion H; subst; exact E.
Qed.

Section ShapeLoops.
  Variable sub : list tok -> pr node.
  Hypothesis Hsub : yields (fun a => wfp a = true) sub.

  Lemma chain_loop_shape n L acc ts a r :
    wfp acc = true -> chain_loop sub n (level_ops L) acc ts = Got a r -> wfp a = true.
  Proof.
    revert acc ts. induction n as [|n IH]; intros acc ts Ha H; cbn in H; [discriminate|].
    destruct (accept (tok_in (level_ops L)) ts) as [t r0| |] eqn:A; try (inversion H; subst; exact Ha).
    assert (Ht : tok_in (level_ops L) t = true) by (apply (accept_true _ _ _ _ A)).
    destruct (sub r0) as [e r1| |] eqn:S; try discriminate.
    apply (IH (NBin (g_value t) acc e) r1); [|exact H].
    cbn [wfp]. pose proof (level_op_has_opcode L t Ht) as Ho.
    destruct (binop_opcode (g_value t)); [|contradiction]. rewrite Ha, (Hsub _ _ _ S). reflexivity.
  Qed.

  Lemma chain_shape n L : yields (fun a => wfp a = true) (chain sub n (level_ops L)).
  Proof.
    intros ts a r H. unfold chain in H. destruct (sub ts) as [e r0| |] eqn:S; try discriminate.
    apply (chain_loop_shape _ _ _ _ _ _ (Hsub _ _ _ S) H).
  Qed.

  Lemma exprs_tail_shape n eac ts acc l r :
    forallb wfp acc = true -> exprs_tail sub n eac ts acc = Got l r -> forallb wfp l = true.
  Proof.
    revert ts acc. induction n as [|n IH]; intros ts acc Ha H; cbn in H; [discriminate|].
    destruct (accept (is_val ",") ts) as [t r0| |]; try (inversion H; subst; exact Ha).
    destruct (sub (if eac then skip_eols r0 else r0)) as [e r1| |] eqn:S; try (inversion H; subst; exact Ha); try discriminate.
    apply (IH r1 (acc ++ [e])); [|exact H]. rewrite forallb_app, Ha. cbn. rewrite (Hsub _ _ _ S). reflexivity.
  Qed.

  Lemma exprs_sep_shape n eac ts l r : exprs_sep sub n eac ts = Got l r -> forallb wfp l = true.
  Proof.
    unfold exprs_sep. destruct (sub ts) as [e r0| |] eqn:S; intros H; try (inversion H; subst; reflexivity); try discriminate.
    apply (exprs_tail_shape n eac r0 [e] l r); [|exact H]. cbn. rewrite (Hsub _ _ _ S). reflexivity.
  Qed.

  Lemma for_exprs_tail_shape n ts acc l r :
    forallb wfp acc = true -> for_exprs_tail sub n ts acc = Got l r -> forallb wfp l = true.
  Proof.
    revert ts acc. induction n as [|n IH]; intros ts acc Ha H; cbn in H; [discriminate|].
    destruct (accept (is_val ",") ts) as [t r0| |]; try (inversion H; subst; exact Ha).
    destruct (sub r0) as [e r1| |] eqn:S; try discriminate.
    apply (IH r1 (acc ++ [e])); [|exact H]. rewrite forallb_app, Ha. cbn. rewrite (Hsub _ _ _ S). reflexivity.
  Qed.

  Lemma index_loop_shape n acc ts a r : wfp acc = true -> index_loop sub n acc ts = Got a r -> wfp a = true.
  Proof.
    revert acc ts. induction n as [|n IH]; intros acc ts Ha H; cbn in H; [discriminate|].
    destruct (peek_val "[" ts); [|inversion H; subst; exact Ha].
    destruct ts as [|t0 r1]; [discriminate|].
    destruct (sub r1) as [e1 r2| |] eqn:S1; try discriminate.
    destruct (accept (is_val ":") r2) as [c r3| |].
    - destruct (sub r3) as [e2 r4| |] eqn:S2; try discriminate.
      destruct (accept (is_val "]") r4) as [c2 r5| |]; try discriminate.
      apply (IH (NIndexFromTo acc e1 e2) r5); [|exact H]. cbn [wfp]. rewrite Ha, (Hsub _ _ _ S1), (Hsub _ _ _ S2). reflexivity.
    - destruct (accept (is_val "]") r2) as [c2 r5| |]; try discriminate.
      apply (IH (NIndexAt acc e1) r5); [|exact H]. cbn [wfp]. rewrite Ha, (Hsub _ _ _ S1). reflexivity.
    - destruct (accept (is_val "]") r2) as [c2 r5| |]; try discriminate.
      apply (IH (NIndexAt acc e1) r5); [|exact H]. cbn [wfp]. rewrite Ha, (Hsub _ _ _ S1). reflexivity.
  Qed.

  Lemma mk_block_shape acc : forallb wfp acc = true -> acc <> [] -> wfpb (mk_block acc) = true.
  Proof.
    intros Ha Hne. unfold mk_block. destruct acc as [|x [|y l]]; [contradiction| |exact Ha].
    cbn in Ha. apply andb_prop in Ha. destruct Ha as [Hx _]. destruct x; cbn [wfpb]; try exact Hx. cbn in Hx. discriminate.
  Qed.

  Lemma stmts_loop_shape n acc ts a r :
    forallb wfp acc = true -> acc <> [] -> stmts_loop sub n acc ts = Got a r -> wfpb a = true.
  Proof.
    revert acc ts. induction n as [|n IH]; intros acc ts Ha Hne H; cbn in H; [discriminate|].
    destruct (eols1 ts) as [u ra| |]; try discriminate.
    destruct (peek_val "}" ra).
    - destruct ra as [|t0 rb]; [discriminate|]. inversion H; subst. apply mk_block_shape; assumption.
    - destruct (sub ra) as [s' rb| |] eqn:S; try discriminate.
      apply (IH (acc ++ [s']) rb); [| |exact H].
      + rewrite forallb_app, Ha. cbn. rewrite (Hsub _ _ _ S). reflexivity.
      + destruct acc; discriminate.
  Qed.
End ShapeLoops.

Definition W (a : node) : Prop := wfp a = true.
Definition WB (a : node) : Prop := wfpb a = true.

Definition ShapeAll (fuel : nat) : Prop :=
  yields W (p_expr fuel) /\ yields W (p_unary fuel) /\ yields W (p_index fuel) /\ yields W (p_atom fuel) /\
  yields W (p_atom_simple fuel) /\ yields W (p_stmt fuel) /\ yields WB (p_block fuel).

Lemma names_tail_names n : forall ts acc, forallb is_nname acc = true -> forallb is_nname (fst (names_tail n ts acc)) = true.
Proof.
  induction n as [|n IH]; intros ts acc Ha; cbn; [exact Ha|].
  destruct ts as [|[c|] [|[t|] r]]; cbn; try exact Ha.
  destruct (is_val "," c && is_varname t); cbn; [|exact Ha]. apply IH. rewrite forallb_app, Ha. reflexivity.
Qed.

Lemma parameters_names ts ps r : parameters ts = Got ps r -> forallb is_nname ps = true.
Proof.
  unfold parameters. destruct (accept (is_val "(") ts) as [t r0| |]; try discriminate.
  assert (N : forallb is_nname (fst (names_sep r0)) = true).
  { unfold names_sep. destruct r0 as [|[t1|] r1]; try reflexivity.
    destruct (is_varname t1); [|reflexivity]. apply names_tail_names. reflexivity. }
  destruct (names_sep r0) as [ns r1]. cbn [fst] in N.
  destruct (accept (is_val ")") r1) as [c r2| |]; intros H; inversion H; subst. exact N.
Qed.

Lemma for_names_tail_names n : forall ts acc l r,
  forallb is_nname acc = true -> for_names_tail n ts acc = Got l r -> forallb is_nname l = true.
Proof.
  induction n as [|n IH]; intros ts acc l r Ha H; cbn in H; [discriminate|].
  destruct ts as [|[c|] r0]; try (inversion H; subst; exact Ha).
  destruct (is_val "," c); [|inversion H; subst; exact Ha].
  destruct (accept is_varname r0) as [t r1| |]; try discriminate.
  apply (IH r1 (acc ++ [NName (g_value t)]) l r); [|exact H]. rewrite forallb_app, Ha. reflexivity.
Qed.

Lemma for_names_tail_length n : forall ts acc l r,
  for_names_tail n ts acc = Got l r -> (List.length acc <= List.length l)%nat.
Proof.
  induction n as [|n IH]; intros ts acc l r H; cbn in H; [discriminate|].
  destruct ts as [|[c|] r0]; try (inversion H; subst; lia).
  destruct (is_val "," c); [|inversion H; subst; lia].
  destruct (accept is_varname r0) as [t r1| |]; try discriminate.
  apply IH in H. rewrite app_length in H. cbn in H. lia.
Qed.

Lemma shape_all : forall fuel, ShapeAll fuel.
Proof.
  induction fuel as [|k IH].
  - repeat split; intros ts a r H; discriminate.
  - destruct IH as (Se & Su & Si & Sa & Ss & Sst & Sb).
    assert (Se' : yields W (p_expr (S k))).
    { intros ts a r H. cbn [p_expr] in H. revert H. apply chain_shape. apply chain_shape. apply chain_shape. apply chain_shape. apply chain_shape. exact Su. }
    assert (Su' : yields W (p_unary (S k))).
    { intros ts a r H. cbn [p_unary] in H.
      destruct (accept (tok_in unary_ops) ts) as [t r0| |] eqn:A.
      - assert (Ht : tok_in unary_ops t = true) by (apply (accept_true _ _ _ _ A)).
        destruct (p_index k r0) as [e r1| |] eqn:I; try discriminate.
        + inversion H; subst. unfold W. cbn [wfp]. rewrite (unary_op_known t Ht), (Si _ _ _ I). reflexivity.
        + apply (Si _ _ _ H).
      - apply (Si _ _ _ H).
      - apply (Si _ _ _ H). }
    assert (Si' : yields W (p_index (S k))).
    { intros ts a r H. cbn [p_index] in H. destruct (p_atom k ts) as [b r0| |] eqn:A; try discriminate.
      apply (index_loop_shape _ Se _ _ _ _ _ (Sa _ _ _ A) H). }
    assert (Sa' : yields W (p_atom (S k))).
    { intros ts a r H. cbn [p_atom] in H.
      destruct (match parameters ts with Got ps r => if peek_val "->" r then Some (ps, r) else None | _ => None end) as [[ps r0]|] eqn:G.
      - destruct (parameters ts) as [ps' r'| |] eqn:Pa; try discriminate.
        destruct (peek_val "->" r'); inversion G; subst. apply parameters_names in Pa.
        destruct r0 as [|t0 r1]; [discriminate|].
        destruct (p_block k r1) as [b r2| |] eqn:B; try discriminate. inversion H; subst.
        unfold W. cbn [wfp]. rewrite Pa. exact (Sb _ _ _ B).
      - destruct ts as [|[t|] [|[o|] r0]]; try (apply (Ss _ _ _ H)).
        destruct (is_varname t && is_val "(" o); [|apply (Ss _ _ _ H)].
        destruct (exprs_sep (p_expr k) (S (List.length r0)) false r0) as [args r1| |] eqn:E; try discriminate.
        apply (exprs_sep_shape _ Se) in E.
        destruct (accept (is_val ")") r1) as [c r2| |]; try discriminate. inversion H; subst.
        unfold W. cbn [wfp is_nname]. exact E. }
    assert (Ss' : yields W (p_atom_simple (S k))).
    { intros ts a r H. cbn [p_atom_simple] in H. destruct ts as [|[t|] r0]; try discriminate.
      destruct (is_floatlit t). { destruct (parse_float (g_value t)); inversion H; subst; reflexivity. }
      destruct (is_intlit t). { destruct (atoi (g_value t)); inversion H; subst; reflexivity. }
      destruct (is_val "true" t). { inversion H; subst; reflexivity. }
      destruct (is_val "false" t). { inversion H; subst; reflexivity. }
      destruct (is_kind KStringLit t). { inversion H; subst; reflexivity. }
      destruct (is_val "[" t).
      { destruct (exprs_sep (p_expr k) (S (List.length r0)) true (skip_eols r0)) as [es r1| |] eqn:E; try discriminate.
        apply (exprs_sep_shape _ Se) in E.
        destruct (accept (is_val "]") r1) as [c r2| |]; try discriminate. inversion H; subst. exact E. }
      destruct (is_val "(" t).
      { destruct (p_expr k r0) as [e r1| |] eqn:E; try discriminate.
        destruct (accept (is_val ")") r1) as [c r2| |]; try discriminate. inversion H; subst. apply (Se _ _ _ E). }
      destruct (is_varname t); inversion H; subst; reflexivity. }
    assert (Sst' : yields W (p_stmt (S k))).
    { intros ts a r H. cbn [p_stmt] in H.
      destruct (peek_val "if" ts).
      { destruct ts as [|t0 r0]; [discriminate|].
        destruct (p_expr k r0) as [c r1| |] eqn:E; try discriminate.
        destruct (p_block k r1) as [b r2| |] eqn:B; try discriminate.
        destruct (peek_val "else" r2).
        - destruct r2 as [|t1 r3]; [discriminate|].
          destruct (p_block k r3) as [f r4| |] eqn:B2; try discriminate. inversion H; subst.
          unfold W. cbn [wfp]. rewrite (Se _ _ _ E). pose proof (Sb _ _ _ B) as X. pose proof (Sb _ _ _ B2) as Y.
          unfold WB, wfpb in X, Y. rewrite X, Y. reflexivity.
        - inversion H; subst. unfold W. cbn [wfp]. rewrite (Se _ _ _ E). exact (Sb _ _ _ B). }
      destruct (peek_val "while" ts).
      { destruct ts as [|t0 r0]; [discriminate|].
        destruct (p_expr k r0) as [c r1| |] eqn:E; try discriminate.
        destruct (p_block k r1) as [b r2| |] eqn:B; try discriminate. inversion H; subst.
        unfold W. cbn [wfp]. rewrite (Se _ _ _ E). exact (Sb _ _ _ B). }
      destruct (peek_val "for" ts).
      { destruct ts as [|t0 r0]; [discriminate|].
        destruct (accept is_varname r0) as [v r1| |]; try discriminate.
        destruct (for_names_tail (S (List.length r1)) r1 [NName (g_value v)]) as [vars r2| |] eqn:F; try discriminate.
        pose proof (for_names_tail_names _ _ [NName (g_value v)] _ _ eq_refl F) as Nv.
        destruct (accept (is_val "<-") r2) as [c r3| |]; try discriminate.
        destruct (p_expr k r3) as [e r4| |] eqn:E; try discriminate.
        destruct (for_exprs_tail (p_expr k) (S (List.length r4)) r4 [e]) as [its r5| |] eqn:F2; try discriminate.
        assert (Ni : forallb wfp its = true).
        { apply (for_exprs_tail_shape _ Se (S (List.length r4)) r4 [e] its r5); [|exact F2]. cbn [forallb]. pose proof (Se _ _ _ E) as X. unfold W in X. rewrite X. reflexivity. }
        destruct (p_block k r5) as [b r6| |] eqn:B; try discriminate.
        destruct (Nat.eqb (List.length vars) (List.length its)) eqn:L; inversion H; subst.
        unfold W. cbn [wfp]. rewrite L, Nv, Ni. exact (Sb _ _ _ B). }
      destruct (peek_val "return" ts).
      { destruct ts as [|t0 r0]; [discriminate|].
        destruct (p_expr k r0) as [e r1| |] eqn:E; try discriminate. inversion H; subst. apply (Se _ _ _ E). }
      destruct (peek_val "yield" ts).
      { destruct ts as [|t0 r0]; [discriminate|].
        destruct (p_expr k r0) as [e r1| |] eqn:E; try discriminate. inversion H; subst. apply (Se _ _ _ E). }
      destruct ts as [|[t|] [|[o|] r0]]; try (apply (Se _ _ _ H)).
      destruct (is_varname t && is_val "=" o); [|apply (Se _ _ _ H)].
      destruct (p_expr k r0) as [e r1| |] eqn:E; try discriminate. inversion H; subst.
      unfold W. cbn [wfp is_nname]. apply (Se _ _ _ E). }
    assert (Sb' : yields WB (p_block (S k))).
    { intros ts a r H. cbn [p_block] in H.
      destruct (peek_val "{" ts).
      - destruct ts as [|t0 r0]; [discriminate|].
        destruct (eols1 r0) as [u r1| |]; try discriminate.
        destruct (p_stmt k r1) as [s r2| |] eqn:St; try discriminate.
        apply (stmts_loop_shape _ Sst (S (List.length r2)) [s] r2 a r); [|discriminate|exact H]. cbn [forallb]. pose proof (Sst _ _ _ St) as X. unfold W in X. rewrite X. reflexivity.
      - pose proof (Sst _ _ _ H) as X. unfold WB, wfpb. unfold W in X.
        destruct a; try exact X. cbn in X. discriminate. }
    repeat split; assumption.
Qed.

(* ---------- the program ---------- *)
Lemma program_loop_shape fuel : forall n acc ts l r,
  Forall WB acc -> p_program_loop fuel n acc ts = Got l r -> Forall WB l.
Proof.
  destruct (shape_all fuel) as (_ & _ & _ & _ & _ & _ & Sb).
  induction n as [|n IH]; intros acc ts l r Ha H; cbn in H; [discriminate|].
  destruct (accept (is_kind KEOL) ts) as [t r0| |]; [inversion H; subst; exact Ha| |].
  - destruct (p_block fuel ts) as [b r1| |] eqn:B; try discriminate.
    apply (IH _ _ _ _ ltac:(apply Forall_app; split; [exact Ha|constructor; [exact (Sb _ _ _ B)|constructor]]) H).
  - destruct (p_block fuel ts) as [b r1| |] eqn:B; try discriminate.
    apply (IH _ _ _ _ ltac:(apply Forall_app; split; [exact Ha|constructor; [exact (Sb _ _ _ B)|constructor]]) H).
Qed.

Theorem parsed_trees_have_parser_shape : forall input l, parse_model input = PTrees l -> Forall WB l.
Proof.
  intros input l H. unfold parse_model, p_program in H.
  destruct (p_program_loop _ _ [] _) as [l0 r| |] eqn:L; try discriminate.
  destruct (eols1 r) as [u r1| |]; try discriminate.
  destruct (accept (is_kind KEOF) r1) as [t r2| |]; try discriminate. inversion H; subst.
  apply (program_loop_shape _ _ _ _ _ _ (Forall_nil _) L).
Qed.

(* ---------- the resolver keeps the shape ---------- *)
Lemma resolve_name_var s t n' t' : resolve_name s t = Some (n', t') -> is_var n' = true.
Proof.
  unfold resolve_name. destruct (split_last t) as [[outer top]|]; [|intros H; inversion H; reflexivity].
  destruct (scope_get top s); [intros H; inversion H; reflexivity|].
  destruct (split_last outer) as [[o encl]|]; [|intros H; inversion H; reflexivity].
  destruct (scope_get encl s); intros H; inversion H; reflexivity.
Qed.

Lemma resolve_vars_var : forall vs t vs' t', resolve_vars vs t = Some (vs', t') ->
  forallb is_var vs' = true /\ List.length vs' = List.length vs.
Proof.
  induction vs as [|v vs IH]; intros t vs' t' H; cbn in H.
  - inversion H; subst. split; reflexivity.
  - destruct v; try discriminate. unfold rbind in H.
    destruct (slot_for_write n t) as [[ix t1]|]; [|discriminate].
    destruct (resolve_vars vs t1) as [[r' t2]|] eqn:E; [|discriminate]. inversion H; subst.
    destruct (IH _ _ _ E) as [A B]. cbn. rewrite A, B. split; reflexivity.
Qed.

Definition RS (n : node) : Prop :=
  (wfp n = true -> forall t n' t', resolve n t = Some (n', t') -> wfc n' = true) /\
  (wfpb n = true -> forall t n' t', resolve n t = Some (n', t') -> wfb n' = true).

Lemma resolve_list_shape (l : list node) :
  (forall x, In x l -> wfp x = true -> forall t n' t', resolve x t = Some (n', t') -> wfc n' = true) ->
  forallb wfp l = true ->
  forall t l' t',
    (fix go (l : list node) : RM (list node) :=
       match l with
       | [] => rret []
       | x :: r => rbind (resolve x) (fun x' => rbind (go r) (fun r' => rret (x' :: r')))
       end) l t = Some (l', t') ->
    forallb wfc l' = true /\ List.length l' = List.length l.
Proof.
  induction l as [|x l IH]; intros Hx W t l' t' H.
  - inversion H; subst. split; reflexivity.
  - cbn [forallb] in W. apply andb_prop in W. destruct W as [Wx Wl]. unfold rbind in H.
    destruct (resolve x t) as [[x' t1]|] eqn:E; [|discriminate].
    match type of H with context [?G l t1] => destruct (G l t1) as [[r' t2]|] eqn:E2; [|discriminate] end.
    inversion H; subst.
    destruct (IH (fun y Hy => Hx y (or_intror Hy)) Wl _ _ _ E2) as [A B].
    cbn. rewrite (Hx x (or_introl eq_refl) Wx _ _ _ E), A, B. split; reflexivity.
Qed.

Ltac res_split H :=
  repeat match type of H with
         | context [match resolve ?x ?t with _ => _ end] =>
             let n' := fresh "n'" in let t1 := fresh "t" in let E := fresh "E" in
             destruct (resolve x t) as [[n' t1]|] eqn:E; [|discriminate]
         end.

Lemma wfb_of_wfc n : wfc n = true -> wfb n = true.
Proof. intros H. destruct n; try exact H. discriminate. Qed.

Theorem resolve_shape : forall N n, (nsize n <= N)%nat -> RS n.
Proof.
  induction N as [|N IH]; intros n HN; [destruct n; cbn in HN; lia|].
  assert (IH1 : forall c, (nsize c < nsize n)%nat -> wfp c = true -> forall t n' t', resolve c t = Some (n', t') -> wfc n' = true).
  { intros c Hc. apply (IH c). lia. }
  assert (IH2 : forall c, (nsize c < nsize n)%nat -> wfpb c = true -> forall t n' t', resolve c t = Some (n', t') -> wfb n' = true).
  { intros c Hc. apply (IH c). lia. }
  assert (IHl : forall l, (lsize l < nsize n)%nat -> forallb wfp l = true ->
            forall x, In x l -> wfp x = true -> forall t n' t', resolve x t = Some (n', t') -> wfc n' = true).
  { intros l Hl _ x Hx. apply IH1. pose proof (lsize_in x l Hx). lia. }
  assert (P1 : wfp n = true -> forall t n' t', resolve n t = Some (n', t') -> wfc n' = true).
  { intros W t n' t' H. destruct n; cbn [wfp] in W; try discriminate; cbn [resolve] in H; unfold rbind, rret in H.
    - inversion H; reflexivity.
    - inversion H; reflexivity.
    - inversion H; reflexivity.
    - inversion H; reflexivity.
    - apply resolve_name_var in H. destruct n'; try discriminate; reflexivity.
    - (* bin *)
      apply andb_prop in W. destruct W as [W W2]. apply andb_prop in W. destruct W as [W0 W1].
      res_split H. inversion H; subst. cbn [wfc]. rewrite W0, (IH1 n1 ltac:(cbn; lia) W1 _ _ _ E), (IH1 n2 ltac:(cbn; lia) W2 _ _ _ E0). reflexivity.
    - apply andb_prop in W. destruct W as [W0 W1]. res_split H. inversion H; subst. cbn [wfc].
      rewrite W0, (IH1 n ltac:(cbn; lia) W1 _ _ _ E). reflexivity.
    - apply andb_prop in W. destruct W as [W0 W1]. res_split H. inversion H; subst. cbn [wfc].
      rewrite (IH1 n1 ltac:(cbn; lia) W0 _ _ _ E), (IH1 n2 ltac:(cbn; lia) W1 _ _ _ E0). reflexivity.
    - apply andb_prop in W. destruct W as [W W2]. apply andb_prop in W. destruct W as [W0 W1].
      res_split H. inversion H; subst. cbn [wfc].
      rewrite (IH1 n1 ltac:(cbn; lia) W0 _ _ _ E), (IH1 n2 ltac:(cbn; lia) W1 _ _ _ E0), (IH1 n3 ltac:(cbn; lia) W2 _ _ _ E1). reflexivity.
    - (* if *)
      apply andb_prop in W. destruct W as [W0 W1]. change (wfpb n2 = true) in W1.
      res_split H. inversion H; subst. cbn [wfc].
      rewrite (IH1 n1 ltac:(cbn; lia) W0 _ _ _ E). exact (IH2 n2 ltac:(cbn; lia) W1 _ _ _ E0).
    - apply andb_prop in W. destruct W as [W W2]. apply andb_prop in W. destruct W as [W0 W1].
      change (wfpb n2 = true) in W1. change (wfpb n3 = true) in W2.
      res_split H. inversion H; subst. cbn [wfc].
      rewrite (IH1 n1 ltac:(cbn; lia) W0 _ _ _ E).
      pose proof (IH2 n2 ltac:(cbn; lia) W1 _ _ _ E0) as X. pose proof (IH2 n3 ltac:(cbn; lia) W2 _ _ _ E1) as Y.
      unfold wfb in X, Y. rewrite X, Y. reflexivity.
    - apply andb_prop in W. destruct W as [W0 W1]. change (wfpb n2 = true) in W1.
      res_split H. inversion H; subst. cbn [wfc].
      rewrite (IH1 n1 ltac:(cbn; lia) W0 _ _ _ E). exact (IH2 n2 ltac:(cbn; lia) W1 _ _ _ E0).
    - (* for *)
      apply andb_prop in W. destruct W as [W W3]. apply andb_prop in W. destruct W as [W W2].
      apply andb_prop in W. destruct W as [W0 W1]. change (wfpb n = true) in W3.
      match type of H with context [?G iters t] => destruct (G iters t) as [[its' t1]|] eqn:E1; [|discriminate] end.
      destruct (resolve_list_shape iters (IHl iters ltac:(rewrite nsize_for; lia) W2) W2 _ _ _ E1) as [A B].
      apply Nat.eqb_eq in W0.
      destruct t1 as [|sc t1'].
      + unfold rbind, rret in H. res_split H. inversion H; subst. cbn [wfc].
        assert (V : forallb is_var vars = true).
        { clear -W1. induction vars as [|v vs IHv]; [reflexivity|]. cbn in *. apply andb_prop in W1. destruct W1 as [X Y].
          destruct v; try discriminate. cbn. apply IHv, Y. }
        rewrite V, A. pose proof (IH2 n ltac:(rewrite nsize_for; lia) W3 _ _ _ E) as X. unfold wfb in X. rewrite X.
        rewrite (proj2 (Nat.eqb_eq _ _)) by lia. reflexivity.
      + unfold rbind, rret in H.
        destruct (resolve_vars vars (sc :: t1')) as [[vs' t2]|] eqn:E2; [|discriminate].
        destruct (resolve_vars_var _ _ _ _ E2) as [V L].
        res_split H. inversion H; subst. cbn [wfc].
        rewrite V, A. pose proof (IH2 n ltac:(rewrite nsize_for; lia) W3 _ _ _ E) as X. unfold wfb in X. rewrite X.
        rewrite (proj2 (Nat.eqb_eq _ _)) by lia. reflexivity.
    - res_split H. inversion H; subst. cbn [wfc]. exact (IH1 n ltac:(cbn; lia) W _ _ _ E).
    - res_split H. inversion H; subst. cbn [wfc]. exact (IH1 n ltac:(cbn; lia) W _ _ _ E).
    - (* assign *)
      apply andb_prop in W. destruct W as [W0 W1]. destruct n1; try discriminate.
      res_split H. pose proof (IH1 n2 ltac:(cbn; lia) W1 _ _ _ E) as X.
      destruct t0 as [|sc t0'].
      + inversion H; subst. cbn [wfc is_var]. exact X.
      + unfold rbind, rret in H. destruct (slot_for_write n (sc :: t0')) as [[ix t2]|]; [|discriminate].
        inversion H; subst. cbn [wfc is_var]. exact X.
    - (* list *)
      match type of H with context [?G l t] => destruct (G l t) as [[l' t1]|] eqn:E1; [|discriminate] end.
      inversion H; subst. cbn [wfc].
      exact (proj1 (resolve_list_shape l (IHl l ltac:(rewrite nsize_list; lia) W) W _ _ _ E1)).
    - (* call *)
      apply andb_prop in W. destruct W as [W0 W1]. destruct n; try discriminate.
      cbn [resolve] in H. unfold rbind, rret in H.
      destruct (resolve_name n t) as [[nm t1]|] eqn:En; [|discriminate].
      match type of H with context [?G args t1] => destruct (G args t1) as [[args' t2]|] eqn:E1; [|discriminate] end.
      inversion H; subst. cbn [wfc]. rewrite (resolve_name_var _ _ _ _ En).
      exact (proj1 (resolve_list_shape args (IHl args ltac:(rewrite nsize_call; lia) W1) W1 _ _ _ E1)).
    - (* function *)
      apply andb_prop in W. destruct W as [W0 W1]. change (wfpb n = true) in W1.
      destruct (param_scope params 0 []) as [sc|]; [|discriminate].
      unfold rbind, rret in H.
      match type of H with context [?G params (t ++ [sc])] => destruct (G params (t ++ [sc])) as [[ps' t1]|]; [|discriminate] end.
      destruct (resolve n t1) as [[b' t2]|] eqn:E; [|discriminate].
      destruct (split_last t2) as [[outer top]|]; [|discriminate]. inversion H; subst. cbn [wfc].
      exact (IH2 n ltac:(rewrite nsize_fun; lia) W1 _ _ _ E). }
  split; [exact P1|].
  intros W t n' t' H. destruct n; try (apply wfb_of_wfc; apply (P1 W _ _ _ H)).
  cbn [wfpb] in W. cbn [resolve] in H. unfold rbind, rret in H.
  match type of H with context [?G l t] => destruct (G l t) as [[l' t1]|] eqn:E1; [|discriminate] end.
  inversion H; subst. cbn [wfb].
  exact (proj1 (resolve_list_shape l (IHl l ltac:(rewrite nsize_block; lia) W) W _ _ _ E1)).
Qed.

(* ---------- from the text to the compiler ---------- *)
Theorem no_input_makes_the_compiler_panic : forall input l,
  parse_model input = PTrees l ->
  forall t, In t l -> forall r, strewrite t = Some r ->
  forall s, 0 <= ncs s ->
    (forall w, ByteCode r s <> CompAbort w) /\ (forall w, ByteCodeNoStck r s <> CompAbort w).
Proof.
  intros input l Hp t Ht r Hr s Hn.
  pose proof (parsed_trees_have_parser_shape input l Hp) as F. rewrite Forall_forall in F. specialize (F t Ht).
  unfold strewrite in Hr. destruct (resolve t []) as [[n' t']|] eqn:E; [|discriminate]. inversion Hr; subst.
  destruct (resolve_shape (nsize t) t (le_n _)) as [_ R2].
  apply bytecode_never_aborts; [exact (R2 F _ _ _ E)|exact Hn].
Qed.
