(* StmtModes.v — file mode (ByteCodeNoStck, Run without the value on the stack) for the trees of a session,
   and two machines side by side: in the same mode or in different modes, at the same or at different
   places in their code segments. *)
Require Import Calc.Sem.
Require Import Calc.Base Calc.Bytecode Calc.BytecodeProofs Calc.Value Calc.FloatText Calc.Ast Calc.Resolve Calc.Compile Calc.VM
        Calc.MemProofs Calc.Session Calc.CompileWf Calc.CompileLoops
        Calc.ExprSem Calc.ExprVM Calc.ExprCorrect Calc.ExprTop Calc.ExprAssign Calc.ExprLen Calc.ExprSession
        Calc.LExprSem Calc.StmtSem Calc.StmtRel Calc.StmtVM Calc.CallVM Calc.StmtCorrect Calc.StmtTop Calc.StmtDef Calc.StmtMixed.
Require Calc.LExprCorrect.
Require Import Lia.
Open Scope Z_scope.

(* ================= a definition in file mode ================= *)
Theorem bytecode_nostck_run_def f ps body lc s s' v c m fuel :
  lpure (repeat VNil (List.length ps)) body = true -> lc = Z.of_nat (List.length ps) ->
  wfcs s -> idle v s c m -> m_fp m = [] -> ncs s + 1 < 4294967296 ->
  ByteCodeNoStck (NAssign (NName f) (NFunction ps body lc)) s = CompOk s' ->
  (3 < fuel)%nat ->
  wfcs s' /\
  exists v' c' m',
    let fv := VFun (pack_function (ncs s + 1) lc lc) (v_next v) in
    Run fuel (load_code v s') false = (v', RValue VNil) /\
    idle v' s' c' m' /\ c_mid c' = c_mid c /\ c_children c' = c_children c /\
    m_sp m' = m_sp m /\ msame (m_sp m) m m' /\
    v_globals v' = sassoc_set (v_globals v) f fv /\
    v_frames v' = (v_next v, FNone) :: v_frames v /\ v_next v' = v_next v + 1 /\
    v_out v' = v_out v /\ v_in v' = v_in v /\
    v_cs v' = rev (rcs s') /\ v_ds v' = rev (rds s') /\
    (exists code, lay s s' code) /\
    is_ufun lc v' body fv.
Proof.
  intros Hp Hlc Hwf [Hctx Hip Hmem Hsp] Hfp Hbig HB Hfuel.
  unfold ByteCodeNoStck in HB.
  destruct ((instr <- comp (NAssign (NName f) (NFunction ps body lc)) 0 (withDiscard true (pass fl0));;
             (if Src0 instr =? AddrStck then emit (New POP) else cret tt)) s)
    as [[u sfin]| |] eqn:HC; try discriminate HB. injection HB as <-.
  apply cbind_ok in HC. destruct HC as [wres [s3 [Hcomp Hfin]]].
  rewrite comp_assign_unfold in Hcomp. change (is_inc f (NFunction ps body lc)) with false in Hcomp. cbv iota in Hcomp.
  apply cbind_ok in Hcomp. destruct Hcomp as [we [s1 [He Hcomp]]].
  rewrite comp_function_unfold in He.
  apply cbind_ok in He. destruct He as [ja [sx [Hh He]]]. apply here_ok in Hh. destruct Hh as [-> ->].
  apply cbind_ok in He. destruct He as [u1 [sj [Hem He]]]. apply emit_ok in Hem. subst sj.
  apply cbind_ok in He. destruct He as [ba [sx [Hh He]]]. apply here_ok in Hh. destruct Hh as [-> ->].
  apply cbind_ok in He. destruct He as [wb [sb [Hb He]]].
  fold flbody in Hb.
  set (s0 := emitted s (New JMP)) in *.
  assert (W0 : wfcs s0) by (apply wfcs_emitted; exact Hwf).
  pose proof Hb as Hb0.
  apply (LExprCorrect.comp_lpure_spec (repeat VNil (List.length ps)) body Hp 0 flbody s0 wb sb ltac:(lia) W0) in Hb.
  apply (LExprCorrect.SpecD_lay (repeat VNil (List.length ps))) in Hb.
  destruct Hb as [bc [Kb [Ab (Lb & Wb & Eb & Okb & _ & Xb & _)]]].
  destruct (okind5_range Kb Okb) as [Rkb Ninv].
  destruct (enc_src0 Kb Ab wb Rkb Eb) as [S0b S0ab].
  rewrite S0b in He. rewrite (proj2 (Z.eqb_neq Kb AddrInv) Ninv) in He. cbn [negb] in He.
  apply cbind_ok in He. destruct He as [u2 [sr [Hem He]]]. apply emit_ok in Hem. subst sr.
  apply cbind_ok in He. destruct He as [u3 [sx [Hr He]]].
  destruct (lc >=? 65536) eqn:Elc; [discriminate Hr|]. apply cret_ok in Hr. destruct Hr as [_ ->].
  apply cbind_ok in He. destruct He as [ix [sd [Hds He]]]. apply add_ds_ok in Hds. destruct Hds as [-> ->].
  apply cbind_ok in He. destruct He as [fa [sx [Hh He]]]. apply here_ok in Hh. destruct Hh as [-> ->].
  apply cbind_ok in He. destruct He as [wf [sx [Hw He]]]. apply enc_ok in Hw. destruct Hw as [-> Ewf].
  apply cbind_ok in He. destruct He as [u4 [sf [Hem He]]]. apply emit_ok in Hem. subst sf.
  apply cbind_ok in He. destruct He as [wj [sx [Hw He]]]. apply enc_ok in Hw. destruct Hw as [-> Ewj].
  apply cbind_ok in He. destruct He as [u5 [sp [Hpatch He]]].
  apply enc_ok in He. destruct He as [-> Ewe].
  set (a := Z.of_nat (List.length ps)) in *.
  set (ret := Z.lor (New RET) wb) in *.
  set (morph := pack_function (ncs s0) a lc) in *.
  set (func := Z.lor (New FUNC) wf) in *.
  set (sd := with_data (emitted sb ret) (VFun morph (-1))) in *.
  assert (L4 : lay s (emitted sd func) ([] ++ New JMP :: (bc ++ [ret]) ++ [func])).
  { cbn [app]. change (New JMP :: (bc ++ [ret]) ++ [func]) with ([New JMP] ++ (bc ++ [ret]) ++ [func]).
    rewrite app_assoc. apply lay_emit. apply lay_with_data.
    apply (lay_trans s s0 _ [New JMP] (bc ++ [ret])).
    - apply (lay_emit s s [] (New JMP)). apply lay_refl.
    - apply lay_emit. exact Lb. }
  replace (ncs s) with (ncs s + zlen (@nil Z)) in Hpatch at 1 by (unfold zlen; cbn; lia).
  destruct (patch_lay s _ [] (New JMP) ((bc ++ [ret]) ++ [func]) wj u5 sp L4 Hwf Hpatch) as (Lp & Dp & NDp & Np).
  cbn [app] in Lp.
  set (jmp := Z.lor (New JMP) wj) in *.
  cbn [comp_ref] in Hcomp.
  apply cbind_ok in Hcomp. destruct Hcomp as [w [s2 [Href Hcomp]]].
  apply cbind_ok in Href. destruct Href as [ix [s2' [Hds Href]]].
  apply add_ds_ok in Hds. destruct Hds as [-> ->]. apply enc_ok in Href. destruct Href as [-> Ew].
  cbv zeta in Hcomp. apply cbind_ok in Hcomp. destruct Hcomp as [u0 [s3' [Hem Hres]]].
  apply emit_ok in Hem. subst s3'. apply enc_ok in Hres. destruct Hres as [-> Ewres].
  set (mov := Z.lor (Z.lor we w) (New MOV)) in *.
  assert (Hdm : decode mov = {| f_op := MOV; f_k0 := AddrStck; f_k1 := AddrGbl; f_k2 := 0; f_a0 := 0; f_a1 := nds sp; f_a2 := 0 |}).
  { unfold mov. replace (Z.lor (Z.lor we w) (New MOV)) with (Z.lor (Z.lor (New MOV) w) we).
    - apply (decode_op01 MOV AddrStck 0 AddrGbl (nds sp) we w mov_range stck_range gbl_range Ewe Ew).
    - rewrite (Z.lor_comm (Z.lor we w)), (Z.lor_comm we w), Z.lor_assoc. reflexivity. }
  assert (HS1 : Src1 mov = AddrGbl /\ Src1Addr mov = nds sp).
  { unfold decode in Hdm. injection Hdm as _ _ H1 _ _ H2 _. auto. }
  destruct HS1 as [HS1 HS1a]. rewrite HS1, HS1a in Ewres.
  destruct (enc_src0 AddrGbl (nds sp) wres gbl_range Ewres) as [S0 S0a]. rewrite S0 in Hfin.
  change (AddrGbl =? AddrStck) with false in Hfin. cbv iota in Hfin.
  apply cret_ok in Hfin. destruct Hfin as [_ ->].
  assert (Wp : wfcs sp).
  { apply (lay_wfcs s sp _ Lp Hwf). rewrite NDp, Dp. destruct Wb as [_ Wd].
    unfold sd, with_data, emitted, zlen in *; cbn [nds rds List.length]. lia. }
  set (s2 := with_data sp (VStr f)) in *.
  set (sfin := emitted s2 mov) in *.
  assert (W2 : wfcs s2) by (apply wfcs_with_data; exact Wp).
  assert (Wfin : wfcs sfin) by (unfold sfin; apply wfcs_emitted; exact W2).
  split; [exact Wfin|].
  set (whole := (jmp :: (bc ++ [ret]) ++ [func]) ++ [mov]).
  assert (Lfin : lay s sfin whole).
  { unfold sfin, whole. apply lay_emit. apply lay_with_data. exact Lp. }
  set (v1 := load_code v sfin).
  set (r0 := {| r_ctx := 0; r_ip := c_ip c; r_tmp := VNil |}).
  assert (Hrun : Run fuel v1 false = run_loop fuel v1 r0 false).
  { unfold Run. change (v_ctxs v1) with (v_ctxs v). rewrite Hctx. reflexivity. }
  assert (Hmid : cur_mid v1 r0 = Good (c_mid c)).
  { unfold cur_mid, get_ctx. change (v_ctxs v1) with (v_ctxs v). cbn [r0 r_ctx]. rewrite Hctx. reflexivity. }
  assert (Hself : St v1 (c_mid c) m = v1) by (apply St_self; exact Hmem).
  assert (Hncs : v_ncs v1 = zlen (v_cs v1)).
  { cbn [v1 load_code v_ncs v_cs]. unfold zlen. rewrite rev_length. exact (proj1 Wfin). }
  pose proof (code_at_loaded v s sfin _ Hwf (proj1 Lfin)) as Hc. fold v1 in Hc.
  assert (Nb : ncs sb = ncs s + 1 + zlen bc).
  { destruct Lb as (_ & N & _). rewrite N. unfold s0, emitted; cbn [ncs]. reflexivity. }
  assert (Nsd : ncs sd = ncs s + 1 + zlen bc + 1) by (unfold sd, with_data, emitted; cbn [ncs]; lia).
  (* the instructions in place *)
  assert (Hi_jmp : znth (v_cs v1) (ncs s) = Some jmp).
  { pose proof (code_at_nth v1 (ncs s) [] jmp (((bc ++ [ret]) ++ [func]) ++ [mov])) as H.
    unfold zlen in H. cbn [List.length] in H. rewrite Z.add_0_r in H. apply H.
    unfold whole in Hc. cbn [app]. cbn [app] in Hc. rewrite <- !app_assoc in Hc. rewrite <- !app_assoc. exact Hc. }
  assert (Hi_func : znth (v_cs v1) (ncs sd) = Some func).
  { pose proof (code_at_nth v1 (ncs s) (jmp :: bc ++ [ret]) func [mov]) as H.
    unfold zlen in H. cbn [List.length] in H. rewrite app_length in H. cbn [List.length] in H.
    rewrite Nsd. unfold zlen. replace (ncs s + 1 + Z.of_nat (List.length bc) + 1) with (ncs s + Z.of_nat (S (List.length bc + 1))) by lia.
    apply H. unfold whole in Hc. cbn [app]. cbn [app] in Hc. rewrite <- !app_assoc in Hc. rewrite <- !app_assoc. exact Hc. }
  assert (Hi_mov : znth (v_cs v1) (ncs sd + 1) = Some mov).
  { pose proof (code_at_nth v1 (ncs s) (jmp :: (bc ++ [ret]) ++ [func]) mov []) as H.
    unfold zlen in H. cbn [List.length] in H. rewrite !app_length in H. cbn [List.length] in H.
    rewrite Nsd. unfold zlen. replace (ncs s + 1 + Z.of_nat (List.length bc) + 1 + 1) with (ncs s + Z.of_nat (S (List.length bc + 1 + 1))) by lia.
    apply H. exact Hc. }
  assert (Hds1 : v_ds v1 = (rev (rds sb) ++ [VFun morph (-1)]) ++ [VStr f]).
  { cbn [v1 load_code v_ds sfin emitted rds s2 with_data]. rewrite Dp. cbn [emitted sd with_data rds]. reflexivity. }
  assert (Hfun_ds : znth (v_ds v1) (nds (emitted sb ret)) = Some (VFun morph (-1))).
  { rewrite Hds1. apply znth_app_l. cbn [emitted nds]. rewrite (proj2 Wb).
    exact (znth_rev_cons (rds sb) (VFun morph (-1))). }
  assert (Hname : znth (v_ds v1) (nds sp) = Some (VStr f)).
  { cbn [v1 load_code v_ds sfin emitted rds s2 with_data]. rewrite (proj2 Wp). apply znth_rev_cons. }
  set (mid := c_mid c) in *.
  (* 1: the jump over the body *)
  assert (Hdj : decode jmp = {| f_op := JMP; f_k0 := AddrImm; f_k1 := 0; f_k2 := 0; f_a0 := ncs sd - ncs s; f_a1 := 0; f_a2 := 0 |}).
  { unfold jmp. apply (decode_op0 JMP AddrImm _ wj jmp_range imm_range Ewj). }
  assert (Hat0 : at_ip v1 r0 mid jmp) by (split; [cbn [r0 r_ip]; rewrite Hip; exact Hi_jmp|exact Hmid]).
  set (r1 := {| r_ctx := 0; r_ip := ncs sd; r_tmp := VNil |}).
  assert (S1 : steps false 1 (St v1 mid m) r0 = SNext (St v1 mid m) r1).
  { rewrite steps_one, (step_jmp v1 mid m r0 false jmp _ _ _ _ _ _ Hat0 Hdj). unfold with_ip, r1; cbn [r_ctx r_ip r_tmp r0].
    f_equal. f_equal. rewrite Hip. lia. }
  (* 2: FUNC *)
  assert (Hdf : decode func = {| f_op := FUNC; f_k0 := AddrDS; f_k1 := 0; f_k2 := 0; f_a0 := nds (emitted sb ret); f_a1 := 0; f_a2 := 0 |}).
  { unfold func. apply (decode_op0 FUNC AddrDS _ wf func_range ds_range Ewf). }
  assert (Hmid1 : forall ip t, cur_mid v1 {| r_ctx := 0; r_ip := ip; r_tmp := t |} = Good mid).
  { intros ip t. unfold cur_mid, get_ctx. change (v_ctxs v1) with (v_ctxs v). cbn [r_ctx]. rewrite Hctx. reflexivity. }
  assert (Hat1 : at_ip v1 r1 mid func) by (split; [exact Hi_func|apply Hmid1]).
  set (fv := VFun morph (v_next v)).
  destruct (vPush_St (vdef v1) mid m fv Hsp) as [m2 (Hpush & Hm2 & Hsp2 & Hx2)].
  set (r2 := {| r_ctx := 0; r_ip := ncs sd + 1; r_tmp := VNil |}).
  assert (S2 : steps false 1 (St v1 mid m) r1 = SNext (St (vdef v1) mid m2) r2).
  { rewrite steps_one, (step_func v1 mid m r1 false func _ _ _ _ _ _ morph (-1) Hat1 Hdf (fetch_ds v1 mid m _ _ Hfun_ds) Hfp).
    change (v_next v1) with (v_next v). fold fv. rewrite Hpush. reflexivity. }
  (* 3: MOV of the function value to the global *)
  set (v2 := vdef v1).
  assert (Hmid2 : forall w ip t, v_ctxs w = v_ctxs v -> cur_mid w {| r_ctx := 0; r_ip := ip; r_tmp := t |} = Good mid).
  { intros w0 ip t E. unfold cur_mid, get_ctx. rewrite E. cbn [r_ctx]. rewrite Hctx. reflexivity. }
  assert (Hat2 : at_ip v2 r2 mid mov) by (split; [exact Hi_mov|apply Hmid2; reflexivity]).
  assert (Hsrc : (if AddrStck =? AddrTmp then Good (St v2 mid m2, r_tmp r2) else fetch (St v2 mid m2) mid AddrStck 0)
                 = Good (St v2 mid (mdrop m2), fv)).
  { change (AddrStck =? AddrTmp) with false. cbv iota. apply fetch_stck. rewrite Hsp2.
    replace (m_sp m + 1 - 1) with (m_sp m) by lia. exact Hx2. }
  set (G' := sassoc_set (v_globals v) f fv).
  set (v3 := set_globals v2 G').
  set (r3 := {| r_ctx := 0; r_ip := ncs sd + 2; r_tmp := VNil |}).
  assert (S3 : steps false 1 (St v2 mid m2) r2 = SNext (St v3 mid (mdrop m2)) r3).
  { rewrite steps_one, (step_mov_gbl v2 mid m2 r2 false mov AddrStck 0 (nds sp) 0 0 _ fv f Hat2 Hdm Hsrc Hname).
    change (is_nil fv) with false. cbv iota. unfold with_ip, r3; cbn [r_ctx r_ip r_tmp r2].
    f_equal. f_equal. lia. }
  assert (Hm2' : msame (m_sp m) m (mdrop m2)) by (apply mdrop_msame; [exact Hm2|lia]).
  assert (S : steps false 3 v1 r0 = SNext (St v3 mid (mdrop m2)) r3).
  { rewrite <- Hself. change 3%nat with (1 + (1 + 1))%nat.
    rewrite steps_app, S1. cbv beta iota. rewrite steps_app, S2. cbv beta iota. fold v2. exact S3. }
  assert (Nfin : ncs sfin = ncs sd + 2).
  { unfold sfin, s2, with_data, emitted; cbn [ncs]. rewrite Np. cbn [emitted ncs]. lia. }
  assert (Emorph : pack_function (ncs s + 1) lc lc = morph) by (unfold morph; rewrite <- Hlc; reflexivity).
  cbv zeta. rewrite Emorph. fold fv.
  rewrite Hrun, (run_finish_nostck v1 r0 _ _ _ fuel c Hncs S Hfuel).
  2:{ cbn [r3 r_ip]. cbn [v1 load_code v_ncs]. rewrite Nfin. lia. }
  2:{ reflexivity. }
  2:{ change (v_ctxs (St v3 mid (mdrop m2))) with (v_ctxs v). exact Hctx. }
  set (c' := {| c_ip := r_ip r3; c_mid := c_mid c; c_parent := c_parent c; c_children := c_children c; c_tmp := c_tmp c |}).
  set (v' := set_ctx (St v3 mid (mdrop m2)) 0 c').
  exists v', c', (mdrop m2).
  assert (Hcs' : v_cs v' = v_cs v1) by reflexivity.
  assert (Hds' : v_ds v' = v_ds v1) by reflexivity.
  conj.
  - reflexivity.
  - constructor.
    + cbn [v' v_ctxs set_ctx St]. apply assoc_get_set_same.
    + cbn [c' c_ip r_ip r3]. rewrite Nfin. lia.
    + cbn [v' set_ctx v_mems]. unfold St, set_mem; cbn [v_mems]. apply assoc_get_set_same.
    + destruct Hm2' as (_ & _ & _ & _ & _ & B3). unfold mdrop, with_stack in *; cbn [m_sp m_stack] in *. lia.
  - reflexivity.
  - reflexivity.
  - unfold mdrop, with_stack; cbn [m_sp]. lia.
  - exact Hm2'.
  - reflexivity.
  - reflexivity.
  - reflexivity.
  - reflexivity.
  - reflexivity.
  - reflexivity.
  - reflexivity.
  - exists whole. exact Lfin.
  - (* the function value meets the premise of the call theorems *)
    assert (Ra : 0 <= a < 65536).
    { split; [unfold a; lia|]. rewrite <- Hlc. rewrite Z.geb_leb in Elc. apply Z.leb_gt in Elc. exact Elc. }
    assert (R0 : 0 <= ncs s0 < 2 ^ 32).
    { change (2 ^ 32) with 4294967296. unfold s0, emitted; cbn [ncs]. destruct Hwf as [Hn _]. rewrite Hn in *. unfold zlen in *. lia. }
    destruct (function_pack_roundtrip (ncs s0) a lc R0 ltac:(change (2 ^ 16) with 65536; lia)
                ltac:(change (2 ^ 16) with 65536; lia)) as (_ & Fn & Fp & Fl). fold morph in Fn, Fp, Fl.
    exists morph, (v_next v), FNone, s0, sb, wb, flbody. conj.
    + reflexivity.
    + rewrite Fp. symmetry. exact Hlc.
    + exact Fl.
    + change (v_frames v') with ((v_next v, FNone) :: v_frames v). unfold assoc_get. rewrite Z.eqb_refl. reflexivity.
    + exact W0.
    + symmetry. exact Fn.
    + exact Hb0.
    + reflexivity.
    + reflexivity.
    + reflexivity.
    + intros code Hcode. destruct Lb as (Rb & _ & _). rewrite Rb in Hcode. apply app_inv_tail in Hcode.
      assert (E : code = bc) by (rewrite <- (rev_involutive code), <- Hcode, rev_involutive; reflexivity). subst code.
      intros i x Hi. rewrite Hcs'.
      unfold whole in Hc. cbn [app] in Hc. apply code_at_cons in Hc. destruct Hc as [_ Hc].
      rewrite <- !app_assoc in Hc. rewrite app_assoc in Hc. apply code_at_app in Hc. destruct Hc as [Hc _].
      exact (Hc i x Hi).
    + intros i y Hi. rewrite Hds', Hds1. apply znth_app_l. apply znth_app_l. exact Hi.
Qed.

(* ================= the trees of a session in either mode ================= *)
(* what a result in file mode says: no value is shown; errors are the same *)
Definition agrees_m (nostck : bool) (r : tree_result) (sres : res value) : Prop :=
  if nostck then match sres with Ok _ => r = TValue VNil | Fail e => exists rep, r = TError e rep end
  else tree_agrees r sres.

Definition outcome_m (nostck : bool) (mc : machine) (t : node) (G' : world) (sres : res value) (rest : machine -> Prop) : Prop :=
  let mc' := fst (run_tree nostck mc t) in
  let r := snd (run_tree nostck mc t) in
  r = TRefused \/ r = TFuel \/ (agrees_m nostck r sres /\ wof (mc_vm mc') = G' /\ rest mc').

Theorem stmt_step_nostck B t mc c m n G' sres :
  tready B mc c m -> wstmt t = true -> wfb t = true ->
  ssem B n (wof (mc_vm mc)) t = Some (G', sres) ->
  outcome_m true mc t G' sres (fun mc' => exists c' m', tready B mc' c' m').
Proof.
  intros [[[[Hwf Hid] [Hmid Hch]] Hbc] Hfp] Hw Hb HM. unfold outcome_m.
  unfold run_tree, strewrite. rewrite (resolve_wstmt t Hw). cbn [negb].
  destruct (ByteCodeNoStck t (mc_cs mc)) as [s'|s0|w] eqn:HB.
  - destruct (bytecode_nostck_run_stmt_full B t (mc_cs mc) s' (mc_vm mc) c m n G' sres Hw Hwf Hid Hbc HB HM) as [W [[code0 Rcode] [k R]]].
    pose proof (bcode_extend B (mc_vm mc) (mc_cs mc) s' code0 Rcode Hbc) as Hbc'.
    specialize (R session_fuel). destruct R as [Rle Rgt].
    destruct (Nat.lt_ge_cases k session_fuel) as [Hlt|Hge].
    + specialize (Rgt Hlt). right. right. destruct sres as [x|err].
      * destruct Rgt as [v' [m' (R & Hm' & Hsp' & Hms & Hg & Hfr' & [c' [Hc' [Hip' [Hmid' Hch']]]])]]. rewrite R.
        cbn [fst snd mc_vm agrees_m]. split; [reflexivity|]. split; [assumption|].
        exists c', m'. split; [split|].
        { split; [|split; congruence]. split; [exact W|]. cbn [mc_vm mc_cs].
          constructor; try assumption.
          -- rewrite Hmid'. exact Hm'.
          -- destruct Hms as (_&_&_&_&_&B0). pose proof (id_sp _ _ _ _ Hid). lia. }
        { cbn [mc_vm mc_cs]. apply (bcode_same B (load_code (mc_vm mc) s')); [reflexivity|reflexivity| |exact Hbc'].
          cbn [load_code v_frames]. exact Hfr'. }
        { destruct Hms as (F & _). rewrite F. exact Hfp. }
      * destruct Rgt as [me [rep R]]. rewrite R. cbn [fst snd mc_vm agrees_m]. rewrite Hmid.
        destruct (reset_ready_fp (set_world (load_code (mc_vm mc) s') G') s' c me W eq_refl (id_ctx _ _ _ _ Hid) Hmid Hch)
          as [c' [m' [Hr [Hfp' [Hg Ho]]]]].
        pose proof (reset_in (set_world (load_code (mc_vm mc) s') G') c me (id_ctx _ _ _ _ Hid) Hch) as [Hin [Hnx [Hfr Hcs]]].
        split; [eexists; reflexivity|]. split; [|exists c', m'; split; [split; [exact Hr|]|exact Hfp']].
        { etransitivity; [exact (wof_eq _ _ Hg Ho Hin Hnx)|apply wof_set_world]. }
        cbn [mc_vm mc_cs]. apply (bcode_same B (load_code (mc_vm mc) s')); [reflexivity|reflexivity| |exact Hbc'].
        etransitivity; [exact Hfr|reflexivity].
    + specialize (Rle Hge). destruct Rle as [F|Rle].
      * right. left. destruct (Run session_fuel (load_code (mc_vm mc) s') false) as [v' rr]. cbn [snd] in *. rewrite F. reflexivity.
      * right. right. destruct sres as [x|err]; [contradiction|].
        destruct Rle as [me [rep R]]. rewrite R. cbn [fst snd mc_vm agrees_m]. rewrite Hmid.
        destruct (reset_ready_fp (set_world (load_code (mc_vm mc) s') G') s' c me W eq_refl (id_ctx _ _ _ _ Hid) Hmid Hch)
          as [c' [m' [Hr [Hfp' [Hg Ho]]]]].
        pose proof (reset_in (set_world (load_code (mc_vm mc) s') G') c me (id_ctx _ _ _ _ Hid) Hch) as [Hin [Hnx [Hfr Hcs]]].
        split; [eexists; reflexivity|]. split; [|exists c', m'; split; [split; [exact Hr|]|exact Hfp']].
        { etransitivity; [exact (wof_eq _ _ Hg Ho Hin Hnx)|apply wof_set_world]. }
        cbn [mc_vm mc_cs]. apply (bcode_same B (load_code (mc_vm mc) s')); [reflexivity|reflexivity| |exact Hbc'].
        etransitivity; [exact Hfr|reflexivity].
  - left. reflexivity.
  - exfalso. destruct (bytecode_never_aborts t (mc_cs mc) Hb) as [_ NA].
    + destruct Hwf as [Hn _]. rewrite Hn. unfold zlen. lia.
    + exact (NA w HB).
Qed.

Theorem stmt_step_m nostck B t mc c m n G' sres :
  tready B mc c m -> wstmt t = true -> wfb t = true ->
  ssem B n (wof (mc_vm mc)) t = Some (G', sres) ->
  outcome_m nostck mc t G' sres (fun mc' => exists c' m', tready B mc' c' m').
Proof.
  destruct nostck; [exact (stmt_step_nostck B t mc c m n G' sres)|exact (stmt_step_fp B t mc c m n G' sres)].
Qed.

Theorem def_step_nostck B t f ps body lc mc c m :
  bready B mc c m -> m_fp m = [] -> ncs (mc_cs mc) + 1 < 4294967296 ->
  strewrite t = Some (NAssign (NName f) (NFunction ps body lc)) ->
  wfb (NAssign (NName f) (NFunction ps body lc)) = true ->
  lpure (repeat VNil (List.length ps)) body = true -> lc = Z.of_nat (List.length ps) ->
  bop_of_name f = None -> f <> "read"%string ->
  snd (run_tree true mc t) = TRefused \/
  exists c' m',
    let fv := VFun (pack_function (ncs (mc_cs mc) + 1) lc lc) (v_next (mc_vm mc)) in
    let mc' := fst (run_tree true mc t) in
    snd (run_tree true mc t) = TValue VNil /\
    wof (mc_vm mc') = wbump (wglob (wof (mc_vm mc)) (sassoc_set (v_globals (mc_vm mc)) f fv)) /\
    bready (ft_add B f fv body lc) mc' c' m' /\ m_fp m' = [].
Proof.
  intros [[[Hwf Hid] [Hmid Hch]] Hbc] Hfp Hbig Hst Hwb Hp Hlc Hb Hr.
  unfold run_tree. rewrite Hst. cbn [negb].
  destruct (ByteCodeNoStck (NAssign (NName f) (NFunction ps body lc)) (mc_cs mc)) as [s'|s0|w] eqn:HB.
  - destruct (bytecode_nostck_run_def f ps body lc (mc_cs mc) s' (mc_vm mc) c m session_fuel Hp Hlc Hwf Hid Hfp Hbig HB
                ltac:(unfold session_fuel; lia))
      as [W [v' [c' [m' (R & Hid' & Hmid' & Hch' & Hsp' & Hms & Hg & Hfr & Hnx & Hout & Hin & Hcs & Hds & [code L] & Hu)]]]].
    cbv zeta in R, Hg, Hu. rewrite R. right. exists c', m'. cbv zeta. cbn [fst snd mc_vm mc_cs].
    split; [|split; [|split; [split|]]].
    + reflexivity.
    + unfold wof, wbump, wglob; cbn [w_glob w_out w_in w_next]. rewrite Hg, Hout, Hin, Hnx. reflexivity.
    + split; [split; [exact W|exact Hid']|split; congruence].
    + cbn [mc_vm mc_cs]. destruct L as (Rc & _ & [dd D]).
      apply (bcode_add B _ f _ body lc (pack_function (ncs (mc_cs mc) + 1) lc lc) (v_next (mc_vm mc))); [|reflexivity|exact Hb|exact Hr|].
      * apply (bcode_grow B (load_code (mc_vm mc) (mc_cs mc))); [| | |exact Hbc].
        -- exists code. cbn [load_code v_cs]. rewrite Rc, rev_app_distr, rev_involutive. reflexivity.
        -- exists (rev dd). cbn [load_code v_ds]. rewrite D, rev_app_distr. reflexivity.
        -- cbn [load_code v_frames]. rewrite Hfr. apply frames_le_cons.
      * apply (is_ufun_same lc v'); [cbn [load_code v_cs]; symmetry; exact Hcs|cbn [load_code v_ds]; symmetry; exact Hds|reflexivity|exact Hu].
    + destruct Hms as (F & _). rewrite F. exact Hfp.
  - left. reflexivity.
  - exfalso. destruct (bytecode_never_aborts _ (mc_cs mc) Hwb) as [_ NA].
    + destruct Hwf as [Hn _]. rewrite Hn. unfold zlen. lia.
    + exact (NA w HB).
Qed.

(* the value a definition shows: the function in value mode, nothing in file mode *)
Definition def_shown (nostck : bool) (fv : value) : value := if nostck then VNil else fv.

Theorem def_step_m nostck B d mc c m :
  tready B mc c m -> fdef_ok d -> ncs (mc_cs mc) + 1 < 4294967296 ->
  snd (run_tree nostck mc (fd_tree d)) = TRefused \/
  exists c' m',
    let fv := fd_value mc d in
    let mc' := fst (run_tree nostck mc (fd_tree d)) in
    snd (run_tree nostck mc (fd_tree d)) = TValue (def_shown nostck fv) /\
    wof (mc_vm mc') = wbump (wglob (wof (mc_vm mc)) (sassoc_set (v_globals (mc_vm mc)) (fd_name d) fv)) /\
    tready (ft_add B (fd_name d) fv (fd_body d) (fd_lc d)) mc' c' m'.
Proof.
  intros [Hr Hfp] (H1 & H2 & H3 & H4 & H5) Hbig. destruct nostck.
  - destruct (def_step_nostck B (fd_tree d) (fd_name d) (fd_params d) (fd_body d) (fd_lc d) mc c m Hr Hfp Hbig H1 H2 H3 eq_refl H4 H5)
      as [Ref|[c' [m' (Hv & Hw & Hr' & Hfp')]]]; [left; exact Ref|right].
    exists c', m'. cbv zeta in *. split; [exact Hv|]. split; [exact Hw|]. split; assumption.
  - destruct (def_step B (fd_tree d) (fd_name d) (fd_params d) (fd_body d) (fd_lc d) mc c m Hr Hfp Hbig H1 H2 H3 eq_refl H4 H5)
      as [Ref|[c' [m' (Hv & Hw & Hr' & Hfp')]]]; [left; exact Ref|right].
    exists c', m'. cbv zeta in *. split; [exact Hv|]. split; [exact Hw|]. split; assumption.
Qed.

(* ================= two machines side by side ================= *)
Definition stuck_m (r : tree_result) : Prop := r = TRefused \/ r = TFuel.

(* two machines — each in value mode or in file mode, their code segments of whatever length, their tables
   B1 and B2 binding the function names to whatever values — run the same trees.  For a statement to which
   the statement semantics (over the first machine's world and table) gives a meaning: unless a run is
   stuck (the tree refused for size, the model's step budget), both runs end as the meaning says — the value
   or error class in value mode, no value but the same error class in file mode — the first machine's world
   is the meaning's, and the second machine's world is related to it (same global data, same output added,
   same input left).  A definition yields the function (value mode) or nothing (file mode) and extends both
   tables. *)
Fixpoint pair (a b : bool) (o1 o2 : list string) (B1 B2 : ftab) (mc1 mc2 : machine) (items : list item) : Prop :=
  match items with
  | [] => True
  | IStmt t :: r =>
      forall n W1' res, ssem B1 n (wof (mc_vm mc1)) t = Some (W1', res) ->
        let r1 := snd (run_tree a mc1 t) in
        let r2 := snd (run_tree b mc2 t) in
        let mc1' := fst (run_tree a mc1 t) in
        let mc2' := fst (run_tree b mc2 t) in
        stuck_m r1 \/ stuck_m r2 \/
        (agrees_m a r1 res /\ agrees_m b r2 res /\ wof (mc_vm mc1') = W1' /\
         wrel B1 B2 o1 o2 W1' (wof (mc_vm mc2')) /\ pair a b o1 o2 B1 B2 mc1' mc2' r)
  | IDef d :: r =>
      let r1 := snd (run_tree a mc1 (fd_tree d)) in
      let r2 := snd (run_tree b mc2 (fd_tree d)) in
      let mc1' := fst (run_tree a mc1 (fd_tree d)) in
      let mc2' := fst (run_tree b mc2 (fd_tree d)) in
      let fv1 := fd_value mc1 d in
      let fv2 := fd_value mc2 d in
      let B1' := ft_add B1 (fd_name d) fv1 (fd_body d) (fd_lc d) in
      let B2' := ft_add B2 (fd_name d) fv2 (fd_body d) (fd_lc d) in
      4294967296 <= ncs (mc_cs mc1) + 1 \/ 4294967296 <= ncs (mc_cs mc2) + 1 \/ r1 = TRefused \/ r2 = TRefused \/
      (r1 = TValue (def_shown a fv1) /\ r2 = TValue (def_shown b fv2) /\
       wrel B1' B2' o1 o2 (wof (mc_vm mc1')) (wof (mc_vm mc2')) /\ pair a b o1 o2 B1' B2' mc1' mc2' r)
  end.

Theorem pair_session FN a b o1 o2 : forall items B1 B2 mc1 c1 m1 mc2 c2 m2,
  tabs_ok FN B1 B2 -> tready B1 mc1 c1 m1 -> tready B2 mc2 c2 m2 ->
  wrel B1 B2 o1 o2 (wof (mc_vm mc1)) (wof (mc_vm mc2)) ->
  Forall (item_ok2 FN) items ->
  pair a b o1 o2 B1 B2 mc1 mc2 items.
Proof.
  induction items as [|i r IH]; intros B1 B2 mc1 c1 m1 mc2 c2 m2 HT Hr1 Hr2 HR Hall; [exact I|].
  inversion Hall as [|i' r' [Hi Hi2] Hrest]; subst. destruct i as [d|t]; cbn [pair].
  - (* a definition *)
    destruct Hi2 as [Hin Hnb]. pose proof Hi as (H1 & H2 & H3 & H4 & H5). cbv zeta.
    destruct (Z.lt_ge_cases (ncs (mc_cs mc1) + 1) 4294967296) as [Hbig1|Hbig1]; [|left; exact Hbig1].
    destruct (Z.lt_ge_cases (ncs (mc_cs mc2) + 1) 4294967296) as [Hbig2|Hbig2]; [|right; left; exact Hbig2].
    right. right.
    destruct (def_step_m a B1 d mc1 c1 m1 Hr1 Hi Hbig1) as [Ref|[c1' [m1' (Hv1 & Hw1 & Hr1')]]]; [left; exact Ref|].
    destruct (def_step_m b B2 d mc2 c2 m2 Hr2 Hi Hbig2) as [Ref|[c2' [m2' (Hv2 & Hw2 & Hr2')]]]; [right; left; exact Ref|].
    right. right. cbv zeta in Hv1, Hw1, Hr1', Hv2, Hw2, Hr2'. split; [exact Hv1|]. split; [exact Hv2|].
    assert (HR' : wrel (ft_add B1 (fd_name d) (fd_value mc1 d) (fd_body d) (fd_lc d))
                       (ft_add B2 (fd_name d) (fd_value mc2 d) (fd_body d) (fd_lc d)) o1 o2
                       (wof (mc_vm (fst (run_tree a mc1 (fd_tree d))))) (wof (mc_vm (fst (run_tree b mc2 (fd_tree d)))))).
    { rewrite Hw1, Hw2. unfold fd_value. exact (wrel_def B1 B2 o1 o2 _ _ (fd_name d) _ _ _ _ (fd_body d) (fd_lc d) HR H4). }
    split; [exact HR'|].
    apply (IH _ _ _ c1' m1' _ c2' m2').
    + exact (tabs_add FN B1 B2 (fd_name d) _ _ (fd_body d) (fd_lc d) _ HT H4 Hin H3 Hnb).
    + exact Hr1'.
    + exact Hr2'.
    + exact HR'.
    + exact Hrest.
  - (* a statement *)
    destruct Hi as [Hw Hb]. intros n W1' res HM1. cbv zeta.
    assert (Hn : nobs B1 t = true) by exact (nobs_mono B1 (BS FN) (to_names _ _ _ HT) t Hw Hi2).
    destruct (ssem_related B1 B2 (to_body _ _ _ HT) (to_arity _ _ _ HT) (tabs_nob FN B1 B2 HT) o1 o2 n t _ _ W1' res Hw Hn HR HM1)
      as (W2' & HM2 & HR').
    pose proof (stmt_step_m a B1 t mc1 c1 m1 n W1' res Hr1 Hw Hb HM1) as S1. unfold outcome_m in S1.
    pose proof (stmt_step_m b B2 t mc2 c2 m2 n W2' res Hr2 Hw Hb HM2) as S2. unfold outcome_m in S2.
    destruct S1 as [S1|[S1|[Ha1 [Hg1 [c1' [m1' Hr1']]]]]]; [left; left; exact S1|left; right; exact S1|].
    destruct S2 as [S2|[S2|[Ha2 [Hg2 [c2' [m2' Hr2']]]]]]; [right; left; left; exact S2|right; left; right; exact S2|].
    right. right. split; [exact Ha1|]. split; [exact Ha2|]. split; [exact Hg1|]. rewrite Hg2. split; [exact HR'|].
    apply (IH _ _ _ c1' m1' _ c2' m2' HT Hr1' Hr2'); [|exact Hrest]. rewrite Hg1, Hg2. exact HR'.
Qed.

Lemma wrel_refl B W : wrel B B [] [] W W.
Proof.
  constructor.
  - intros g _. reflexivity.
  - exists (w_out W). rewrite app_nil_r. split; reflexivity.
  - reflexivity.
  - intros nm _. reflexivity.
Qed.

(* C16: the same session in value mode and in file mode, from the same machine *)
Theorem modes_session FN items B mc c m :
  tabs_ok FN B B -> tready B mc c m -> Forall (item_ok2 FN) items ->
  pair false true [] [] B B mc mc items.
Proof.
  intros HT Hr Hall. exact (pair_session FN false true [] [] items B B mc c m mc c m HT Hr Hr (wrel_refl B _) Hall).
Qed.

(* C08: a session that saw a failing statement, and any machine that never saw it but holds a related world
   (the same global data): every later tree — statement or definition — gives the two the same *)
Theorem failed_then_rest FN o1 o2 B1 B2 mc1 c1 m1 mc2 c2 m2 t n W' err rest :
  tabs_ok FN B1 B2 -> tready B1 mc1 c1 m1 -> tready B2 mc2 c2 m2 ->
  item_ok2 FN (IStmt t) -> ssem B1 n (wof (mc_vm mc1)) t = Some (W', Fail err) ->
  wrel B1 B2 o1 o2 W' (wof (mc_vm mc2)) ->
  Forall (item_ok2 FN) rest ->
  stuck_m (snd (run_tree false mc1 t)) \/
  ((exists rep, snd (run_tree false mc1 t) = TError err rep) /\ wof (mc_vm (fst (run_tree false mc1 t))) = W' /\
   pair false false o1 o2 B1 B2 (fst (run_tree false mc1 t)) mc2 rest).
Proof.
  intros HT Hr1 Hr2 [[Hw Hb] _] HM HR Hrest.
  pose proof (stmt_step_m false B1 t mc1 c1 m1 n W' (Fail err) Hr1 Hw Hb HM) as S. unfold outcome_m in S.
  destruct S as [S|[S|[Ha [Hg [c1' [m1' Hr1']]]]]]; [left; left; exact S|left; right; exact S|].
  right. split.
  - cbn [agrees_m tree_agrees] in Ha. destruct (snd (run_tree false mc1 t)) as [x|e rep|w|code| |]; try contradiction.
    subst e. exists rep. reflexivity.
  - split; [exact Hg|].
    apply (pair_session FN false false o1 o2 rest B1 B2 _ c1' m1' mc2 c2 m2 HT Hr1' Hr2); [|exact Hrest].
    rewrite Hg. exact HR.
Qed.

(* a statement that runs to the end of its meaning leaves the machine at top level *)
Lemma tready_after_stmt nostck B t mc c m n G' sres :
  tready B mc c m -> wstmt t = true -> wfb t = true ->
  ssem B n (wof (mc_vm mc)) t = Some (G', sres) ->
  snd (run_tree nostck mc t) <> TRefused -> snd (run_tree nostck mc t) <> TFuel ->
  wof (mc_vm (fst (run_tree nostck mc t))) = G' /\ exists c' m', tready B (fst (run_tree nostck mc t)) c' m'.
Proof.
  intros Hr Hw Hb HM N1 N2. pose proof (stmt_step_m nostck B t mc c m n G' sres Hr Hw Hb HM) as S. unfold outcome_m in S.
  destruct S as [S|[S|[_ [Hg Hr']]]]; [contradiction|contradiction|]. split; assumption.
Qed.
