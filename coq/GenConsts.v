(* GenConsts.v — GENERATED on every run from /repo by harness `consts` and tools/gen_consts.py. *)
Require Import Calc.Base.
Open Scope Z_scope.

Definition g_OpcodeHi : Z := 63.
Definition g_OpcodeLo : Z := 57.
Definition g_Src2Hi : Z := 56.
Definition g_Src2Lo : Z := 54.
Definition g_Src1Hi : Z := 53.
Definition g_Src1Lo : Z := 51.
Definition g_Src0Hi : Z := 50.
Definition g_Src0Lo : Z := 48.
Definition g_Src2AddrHi : Z := 47.
Definition g_Src2AddrLo : Z := 32.
Definition g_Src1AddrHi : Z := 31.
Definition g_Src1AddrLo : Z := 16.
Definition g_Src0AddrHi : Z := 15.
Definition g_Src0AddrLo : Z := 0.
Definition g_SrcChanWidth : Z := 16.
Definition g_AddrInv : Z := 0.
Definition g_AddrImm : Z := 1.
Definition g_AddrGbl : Z := 2.
Definition g_AddrLcl : Z := 3.
Definition g_AddrCls : Z := 4.
Definition g_AddrStck : Z := 5.
Definition g_AddrTmp : Z := 6.
Definition g_AddrDS : Z := 7.
Definition g_TempFlag : Z := 64.
Definition g_NOP : Z := 0.
Definition g_PUSH : Z := 1.
Definition g_POP : Z := 2.
Definition g_MOV : Z := 3.
Definition g_ADD : Z := 4.
Definition g_SUB : Z := 5.
Definition g_MUL : Z := 6.
Definition g_DIV : Z := 7.
Definition g_MOD : Z := 8.
Definition g_INC : Z := 9.
Definition g_NOT : Z := 10.
Definition g_AND : Z := 11.
Definition g_OR : Z := 12.
Definition g_LT : Z := 13.
Definition g_GT : Z := 14.
Definition g_LE : Z := 15.
Definition g_GE : Z := 16.
Definition g_EQ : Z := 17.
Definition g_NE : Z := 18.
Definition g_LSH : Z := 19.
Definition g_RSH : Z := 20.
Definition g_FLIP : Z := 21.
Definition g_IX1 : Z := 22.
Definition g_IX2 : Z := 23.
Definition g_LEN : Z := 24.
Definition g_ARR : Z := 25.
Definition g_JMP : Z := 26.
Definition g_JMPF : Z := 27.
Definition g_JMPT : Z := 28.
Definition g_FUNC : Z := 29.
Definition g_CALL : Z := 30.
Definition g_RET : Z := 31.
Definition g_CCONT : Z := 32.
Definition g_DCONT : Z := 33.
Definition g_RCONT : Z := 34.
Definition g_SCONT : Z := 35.
Definition g_YIELD : Z := 36.
Definition g_READ : Z := 37.
Definition g_WRITE : Z := 38.
Definition g_ATON : Z := 39.
Definition g_TOA : Z := 40.
Definition g_EXIT : Z := 41.
Definition g_PUSHTMP : Z := 65.
Definition g_ADDTMP : Z := 68.
Definition g_SUBTMP : Z := 69.
Definition g_keywords : list string := ["if"; "else"; "while"; "for"; "return"; "yield"; "true"; "false"]%string.

Definition g_tempifyDepth : Z := 0.
Definition g_minStackSize : Z := 128.
Definition g_localFE : Z := -1.
Definition g_localFP : Z := -2.
Definition g_stickyChars : string := "+*/=<>!-&|#%~"%string.
Definition g_nonStickyChars : string := "(){}[],:"%string.
Definition g_ops : list string := ["+"; "-"; "*"; "/"; "<"; ">"; "<="; ">="; "=="; "!="; "&&"; "||"; "&"; "|"; "<<"; ">>"; "%"; "#"; "~"; ":"; "!"]%string.
Definition g_binops : list (string * Z) := [("+"%string, g_ADD); ("-"%string, g_SUB); ("*"%string, g_MUL); ("/"%string, g_DIV); ("%"%string, g_MOD); ("&"%string, g_AND); ("&&"%string, g_AND); ("|"%string, g_OR); ("||"%string, g_OR); ("=="%string, g_EQ); ("!="%string, g_NE); ("<"%string, g_LT); ("<="%string, g_LE); (">"%string, g_GT); (">="%string, g_GE); ("<<"%string, g_LSH); (">>"%string, g_RSH)].
Definition g_level_ops : list (list string) := [["&&"; "||"]; ["=="; "!="; "<="; ">="; "<"; ">"]; ["&"; "|"]; ["+"; "-"]; ["*"; "/"; "%"; "<<"; ">>"]]%string.
Definition g_unary_ops : list string := ["-"; "#"; "!"; "~"]%string.
