(* ReplProofs.v — facts about the statement splitter of the read-eval loop (C16). *)
Require Import Calc.Base Calc.Repl.
Require Import Lia.
Open Scope Z_scope.

(* the lines of one top-level statement: open after every line but the last *)
Fixpoint completes (o : ocount) (sep : string) (ls : list string) : bool :=
  match ls with
  | [] => false
  | l :: r =>
      let o' := scan o (sep +++ l) in
      match r with
      | [] => negb (is_open o')
      | _ => is_open o' && completes o' (sb [10]) r
      end
  end.

(* the text handed over: the lines joined by line breaks *)
Fixpoint joined (input sep : string) (ls : list string) : string :=
  match ls with
  | [] => input
  | l :: r => joined (input +++ sep +++ l) (sb [10]) r
  end.

Lemma loop_go_stmt : forall ls o input sep rest,
  completes o sep ls = true ->
  loop_go (ls ++ rest) o input sep = joined input sep ls :: loop_go rest oc0 "" "".
Proof.
  induction ls as [|l r IH]; intros o input sep rest H; [discriminate|].
  cbn [completes] in H. cbn [app loop_go joined].
  destruct r as [|l2 r2].
  - apply Bool.negb_true_iff in H. rewrite H. reflexivity.
  - apply andb_prop in H. destruct H as [Ho Hr]. rewrite Ho.
    apply (IH _ _ _ rest Hr).
Qed.

Theorem loop_runs_statement_by_statement : forall stmts : list (list string),
  Forall (fun ls => completes oc0 "" ls = true) stmts ->
  loop_model (List.concat stmts) = map (joined "" "") stmts.
Proof.
  unfold loop_model. induction stmts as [|ls stmts IH]; intros H; [reflexivity|].
  inversion H as [|? ? Hls Hrest]; subst. cbn [List.concat map].
  rewrite (loop_go_stmt ls oc0 "" "" (List.concat stmts) Hls). f_equal. apply IH, Hrest.
Qed.

(* ---- a final line break makes no difference ---- *)
Lemma split_lines_final_newline : forall l cur,
  rev cur ++ l <> [] -> last (rev cur ++ l) 0 <> 10 ->
  split_lines (l ++ [10]) cur = split_lines l cur.
Proof.
  induction l as [|c r IH]; intros cur Hne Hlast.
  - cbn. destruct cur as [|x cur]; [rewrite app_nil_r in Hne; contradiction|reflexivity].
  - cbn [app split_lines]. destruct (c =? 10) eqn:E.
    + f_equal. apply IH.
      * cbn. intros ->. apply Z.eqb_eq in E. subst c. apply Hlast. rewrite last_last. reflexivity.
      * cbn. intros HH. apply Hlast.
        destruct r as [|y r']; [apply Z.eqb_eq in E; subst; rewrite last_last; reflexivity|].
        assert (X : forall (p q : list Z), q <> [] -> last (p ++ q) 0 = last q 0).
        { clear. induction p as [|a p IHp]; intros q Hq; [reflexivity|]. cbn [app].
          destruct (p ++ q) eqn:Epq; [destruct p; [contradiction|discriminate]|]. rewrite <- Epq. cbn. rewrite Epq. rewrite <- Epq. apply IHp, Hq. }
        rewrite X by discriminate. change (last (c :: y :: r') 0) with (last (y :: r') 0). exact HH.
    + apply IH.
      * cbn. intros HH. apply app_eq_nil in HH. destruct HH as [HH _]. apply app_eq_nil in HH. destruct HH as [_ HH]. discriminate.
      * cbn [rev]. rewrite <- app_assoc. exact Hlast.
Qed.

Lemma bytes_of_app a b : bytes_of (a +++ b) = bytes_of a ++ bytes_of b.
Proof. induction a as [|c a IH]; cbn; [reflexivity|]. rewrite IH. reflexivity. Qed.

Theorem final_line_break_is_irrelevant : forall content,
  bytes_of content <> [] -> last (bytes_of content) 0 <> 10 ->
  freader_lines (content +++ sb [10]) = freader_lines content.
Proof.
  intros content Hne Hlast. unfold freader_lines. rewrite bytes_of_app.
  change (bytes_of (sb [10])) with [Z_of_byte (byte_of_Z 10)].
  replace (Z_of_byte (byte_of_Z 10)) with 10 by (vm_compute; reflexivity).
  rewrite split_lines_final_newline; [reflexivity| |]; cbn [rev app]; assumption.
Qed.

(* ---- what does not count ---- *)
Theorem inside_string_nothing_counts : forall o ch,
  oc_instr o = true ->
  oc_blocks (fst (scan_byte o ch)) = oc_blocks o /\ oc_brackets (fst (scan_byte o ch)) = oc_brackets o /\
  snd (scan_byte o ch) = false.
Proof.
  intros o ch H. unfold scan_byte. rewrite H.
  destruct (oc_esc o); [cbn; auto|].
  destruct (ch =? 92); [cbn; auto|]. destruct (ch =? 34); cbn; auto.
Qed.

Theorem inside_comment_nothing_counts : forall l o,
  (forall c, In c l -> c <> 10) -> scan_bytes o true l = o.
Proof.
  induction l as [|c r IH]; intros o H; [reflexivity|]. cbn [scan_bytes].
  destruct (Z.eqb_spec c 10) as [E|NE]; [exfalso; apply (H c); [left; reflexivity|exact E]|].
  cbn. apply IH. intros x Hx. apply H. right. exact Hx.
Qed.

(* a comment ends at the line break: what follows counts again *)
Theorem comment_ends_at_line_break : forall l r o,
  (forall c, In c l -> c <> 10) -> scan_bytes o true (l ++ 10 :: r) = scan_bytes o false r.
Proof.
  induction l as [|c l IH]; intros r o H; cbn [app scan_bytes].
  - reflexivity.
  - destruct (Z.eqb_spec c 10) as [E|NE]; [exfalso; apply (H c); [left; reflexivity|exact E]|].
    cbn. apply IH. intros x Hx. apply H. right. exact Hx.
Qed.
