(* PropC08.v — C08: a session survives errors.

   Proved here (VM model): after a runtime error the main machine is clean
   (sp 0, no frames, no closures, no child contexts, ip at the end of the
   code), so the next statement starts from the same machine state as in a
   session that never saw the failing statement, up to the code and data it
   appended and the globals it had completed.  For sessions of simple
   statements (pure expressions and assignments of pure expressions to
   globals; ExprSession.v) the property itself is proved on the compiler and
   VM models: a failing statement changes neither globals nor output and
   leaves the machine ready ([C08_simple_failure_is_invisible]); where the
   code and data of a statement land and what the dead part of the stack holds
   do not matter, two machines with the same globals give the same result
   ([C08_simple_relocation]); so every later statement of every such history
   gives what the semantics gives ([C08_simple_sessions]).  NOT proved in
   general: that code compiled
   at shifted code/data offsets behaves the same ([C08_twin_sessions_statement],
   open); the check decides it by running every history next to its
   failure-free twin on the real code. *)
Require Import Calc.Base Calc.Bytecode Calc.Value Calc.FloatText Calc.Ast Calc.Resolve Calc.Compile
        Calc.VM Calc.Session Calc.MemProofs Calc.StepErr Calc.StepCode.
Require Import Calc.ExprSem Calc.ExprVM Calc.ExprCorrect Calc.ExprTop Calc.ExprAssign Calc.ExprLen Calc.ExprSession
        Calc.StmtSem Calc.StmtRel Calc.StmtCorrect Calc.StmtTop Calc.StmtTwin.
Open Scope Z_scope.

Definition C08_twin_sessions_statement : Prop :=
  forall (before after_ : list node) (failing : node) (t : node) (mc0 : machine),
    machine_new = Some mc0 ->
    let run_all := fold_left (fun acc x => fst (run_tree false acc x)) in
    let with_failure := run_all after_ (fst (run_tree false (run_all before mc0) failing)) in
    let twin := run_all after_ (run_all before mc0) in
    (exists e rep, snd (run_tree false (run_all before mc0) failing) = TError e rep) ->
    v_globals (mc_vm (fst (run_tree false (run_all before mc0) failing))) = v_globals (mc_vm (run_all before mc0)) ->
    match snd (run_tree false with_failure t), snd (run_tree false twin t) with
    | TValue x, TValue y => vsame x y = true
    | TError e _, TError f _ => e = f
    | a, b => a = b
    end.

Theorem C08_error_leaves_clean_machine : forall v,
  (exists m, assoc_get (v_mems (match assoc_get (v_ctxs v) 0 with
                                | Some c => fold_left (fun acc ch => delete_ctx ctx_fuel acc (snd ch)) (c_children c) v
                                | None => v end)) 0 = Some m) ->
  (exists c, assoc_get (v_ctxs (match assoc_get (v_ctxs v) 0 with
                                | Some c => fold_left (fun acc ch => delete_ctx ctx_fuel acc (snd ch)) (c_children c) v
                                | None => v end)) 0 = Some c) ->
  clean_machine (reset_after_error v).
Proof. exact reset_clean. Qed.
Print Assumptions C08_error_leaves_clean_machine.

(* the reset keeps the globals: bindings completed before the failure persist *)
Lemma delete_ctx_globals : forall fuel v cid, v_globals (delete_ctx fuel v cid) = v_globals v.
Proof.
  induction fuel as [|k IH]; intros v cid; [reflexivity|].
  change (delete_ctx (S k) v cid) with
    (match assoc_get (v_ctxs v) cid with
     | None => v
     | Some c =>
         let v1 := fold_left (fun acc ch => delete_ctx k acc (snd ch)) (c_children c) v in
         let v2 := match assoc_get (v_mems v1) (c_mid c) with
                   | Some m => set_mem v1 (c_mid c) (mReset m) false
                   | None => v1
                   end in
         {| v_cs := v_cs v2; v_ncs := v_ncs v2; v_ds := v_ds v2; v_dbg := v_dbg v2; v_globals := v_globals v2;
            v_mems := v_mems v2; v_ctxs := assoc_del (v_ctxs v2) cid; v_frames := v_frames v2; v_next := v_next v2;
            v_out := v_out v2; v_in := v_in v2; v_dead_read := v_dead_read v2; v_grew_captured := v_grew_captured v2 |}
     end).
  destruct (assoc_get (v_ctxs v) cid) as [c|]; [|reflexivity].
  assert (F : forall (l : list (Z * Z)) v0, v_globals (fold_left (fun acc ch => delete_ctx k acc (snd ch)) l v0) = v_globals v0).
  { induction l as [|x l IHl]; intros v0; [reflexivity|]. cbn [fold_left]. rewrite IHl. apply IH. }
  cbv zeta.
  destruct (assoc_get (v_mems (fold_left (fun acc ch => delete_ctx k acc (snd ch)) (c_children c) v)) (c_mid c));
    cbn [v_globals set_mem]; apply F.
Qed.

Lemma fold_delete_globals : forall (l : list (Z * Z)) k v0,
  v_globals (fold_left (fun acc ch => delete_ctx k acc (snd ch)) l v0) = v_globals v0.
Proof.
  induction l as [|x l IHl]; intros k v0; [reflexivity|].
  cbn [fold_left]. rewrite IHl. apply delete_ctx_globals.
Qed.

Theorem C08_error_keeps_globals : forall v, v_globals (reset_after_error v) = v_globals v.
Proof.
  intros v. unfold reset_after_error.
  generalize ctx_fuel. intros fuel.
  destruct (assoc_get (v_ctxs v) 0) as [c|].
  - pose proof (fold_delete_globals (c_children c) fuel v) as E1.
    set (v1 := fold_left (fun acc ch => delete_ctx fuel acc (snd ch)) (c_children c) v) in *.
    clearbody v1.
    destruct (assoc_get (v_mems v1) 0) as [m|].
    + cbn [v_ctxs set_mem].
      destruct (assoc_get (v_ctxs v1) 0); cbn [v_globals set_ctx set_mem]; exact E1.
    + destruct (assoc_get (v_ctxs v1) 0); cbn [v_globals set_ctx set_mem]; exact E1.
  - destruct (assoc_get (v_mems v) 0) as [m|].
    + cbn [v_ctxs set_mem].
      destruct (assoc_get (v_ctxs v) 0); cbn [v_globals set_ctx set_mem]; reflexivity.
    + destruct (assoc_get (v_ctxs v) 0); cbn [v_globals set_ctx set_mem]; reflexivity.
Qed.
Print Assumptions C08_error_keeps_globals.

(* what was compiled stays compiled: a run that ends in an error (with its reset) leaves code, data and debug table as they were *)
Theorem C08_error_keeps_the_program : forall fuel v r b,
  code_of (fst (run_loop fuel v r b)) = code_of v.
Proof. exact run_keeps_program. Qed.
Print Assumptions C08_error_keeps_the_program.

(* and the machine handed back after an error is the reset of the state in which the failing step ended *)
Theorem C08_run_error_resets : forall fuel v r b v1 e rep,
  run_loop fuel v r b = (v1, RError e rep) ->
  exists vm0 r0 v' vals, step vm0 r0 b = SErr v' (r_ctx r0) (r_ip r0) e vals /\ v1 = reset_after_error v'.
Proof.
  intros fuel v r b v1 e rep H. destruct (run_loop_error fuel v r b v1 e rep H) as (vm0 & r0 & v' & vals & S & _ & E).
  exists vm0, r0, v', vals. split; assumption.
Qed.
Print Assumptions C08_run_error_resets.

(* ---- simple statements: the property on the compiler and VM models ---- *)
Theorem C08_simple_failure_is_invisible : forall t mc c m err rep,
  ready mc c m -> simple t = true -> small t ->
  snd (run_tree false mc t) = TError err rep ->
  v_globals (mc_vm (fst (run_tree false mc t))) = v_globals (mc_vm mc) /\
  v_out (mc_vm (fst (run_tree false mc t))) = v_out (mc_vm mc) /\
  exists c' m', ready (fst (run_tree false mc t)) c' m'.
Proof. exact simple_failure_is_invisible. Qed.
Print Assumptions C08_simple_failure_is_invisible.

Theorem C08_simple_relocation : forall t mc1 c1 m1 mc2 c2 m2,
  ready mc1 c1 m1 -> ready mc2 c2 m2 ->
  v_globals (mc_vm mc1) = v_globals (mc_vm mc2) ->
  simple t = true -> small t ->
  snd (run_tree false mc1 t) <> TRefused -> snd (run_tree false mc2 t) <> TRefused ->
  same_outcome (snd (run_tree false mc1 t)) (snd (run_tree false mc2 t)) /\
  v_globals (mc_vm (fst (run_tree false mc1 t))) = v_globals (mc_vm (fst (run_tree false mc2 t))).
Proof. exact simple_relocation. Qed.
Print Assumptions C08_simple_relocation.

Theorem C08_simple_sessions : forall ts mc c m,
  ready mc c m -> Forall (fun t => simple t = true /\ small t) ts ->
  agree_run mc (v_globals (mc_vm mc)) ts.
Proof. exact simple_session. Qed.
Print Assumptions C08_simple_sessions.

(* ---- the while-language with built-in calls and I/O: the property on the compiler and VM models ---- *)
(* a failing statement — at top level, inside a loop or a block, inside a built-in — leaves a machine
   ready for the next statement; its world is the one the semantics says: bindings and output completed
   before the point of failure, nothing else *)
Theorem C08_failed_statement_leaves_ready : forall Bf t mc c m n W' err,
  bready Bf mc c m -> wstmt t = true -> CompileWf.wfb t = true ->
  ssem Bf n (wof (mc_vm mc)) t = Some (W', Fail err) ->
  stuck (snd (run_tree false mc t)) \/
  (tree_agrees (snd (run_tree false mc t)) (Fail err) /\ wof (mc_vm (fst (run_tree false mc t))) = W' /\
   exists c' m', bready Bf (fst (run_tree false mc t)) c' m').
Proof. exact stmt_failure_leaves_ready. Qed.
Print Assumptions C08_failed_statement_leaves_ready.

(* what a statement does depends on the world only: two ready machines whose worlds agree (same global
   data, same input left; any code and data offsets, allocation counters, earlier output o1 / o2, dead
   stack contents) give the same value or error, write the same lines, and stay in agreement *)
Theorem C08_statement_relocation : forall Bf,
  (forall nm body, ft_body Bf nm = Some body -> nobe Bf body = true) ->
  forall t mc1 c1 m1 mc2 c2 m2 o1 o2 n W1' res,
  bready Bf mc1 c1 m1 -> bready Bf mc2 c2 m2 ->
  wstmt t = true -> CompileWf.wfb t = true -> nobs Bf t = true ->
  wrel Bf Bf o1 o2 (wof (mc_vm mc1)) (wof (mc_vm mc2)) ->
  ssem Bf n (wof (mc_vm mc1)) t = Some (W1', res) ->
  stuck (snd (run_tree false mc1 t)) \/ stuck (snd (run_tree false mc2 t)) \/
  (tree_agrees (snd (run_tree false mc1 t)) res /\ tree_agrees (snd (run_tree false mc2 t)) res /\
   wrel Bf Bf o1 o2 (wof (mc_vm (fst (run_tree false mc1 t)))) (wof (mc_vm (fst (run_tree false mc2 t)))) /\
   (exists c m, bready Bf (fst (run_tree false mc1 t)) c m) /\
   (exists c m, bready Bf (fst (run_tree false mc2 t)) c m)).
Proof. exact stmt_relocation. Qed.
Print Assumptions C08_statement_relocation.

(* so a session that saw failing statements and a twin that never did — any two sessions whose worlds
   agree — give every later statement the same value or error and the same output, for every history *)
Theorem C08_twin_sessions_partial : forall Bf,
  (forall nm body, ft_body Bf nm = Some body -> nobe Bf body = true) ->
  forall ts mc1 c1 m1 mc2 c2 m2 o1 o2,
  bready Bf mc1 c1 m1 -> bready Bf mc2 c2 m2 ->
  wrel Bf Bf o1 o2 (wof (mc_vm mc1)) (wof (mc_vm mc2)) ->
  Forall (fun t => wstmt t = true /\ CompileWf.wfb t = true /\ nobs Bf t = true) ts ->
  twins Bf o1 o2 mc1 mc2 ts.
Proof. exact twin_sessions. Qed.
Print Assumptions C08_twin_sessions_partial.

(* ---- sessions with definitions: the twin may hold its functions at other places ---- *)
Require Import Calc.StmtDef Calc.StmtMixed Calc.StmtModes Calc.PropC01.

(* two machines whose worlds are related — the same global data, the function names bound on both to
   functions with the same bodies, wherever their code lies — run any list of definitions and statements:
   every tree gives the two the same value or error, and their worlds stay related (same global data, same
   output added, same input left).  B1, B2: the two machines' function tables; FN: the names the session gives
   to functions. *)
Theorem C08_twin_sessions_with_definitions_partial : forall FN o1 o2 items B1 B2 mc1 c1 m1 mc2 c2 m2,
  tabs_ok FN B1 B2 -> tready B1 mc1 c1 m1 -> tready B2 mc2 c2 m2 ->
  wrel B1 B2 o1 o2 (wof (mc_vm mc1)) (wof (mc_vm mc2)) ->
  Forall (item_ok2 FN) items ->
  pair false false o1 o2 B1 B2 mc1 mc2 items.
Proof. intros FN o1 o2. exact (pair_session FN false false o1 o2). Qed.
Print Assumptions C08_twin_sessions_with_definitions_partial.

(* so: a statement that fails leaves the world the statement semantics says (its assignments and output up to
   the failure), the machine ready — and from there every later tree behaves as on any machine that never saw
   the failing statement but holds that world's global data *)
Theorem C08_failed_statement_then_any_session_partial :
  forall FN o1 o2 B1 B2 mc1 c1 m1 mc2 c2 m2 t n W' err rest,
  tabs_ok FN B1 B2 -> tready B1 mc1 c1 m1 -> tready B2 mc2 c2 m2 ->
  item_ok2 FN (IStmt t) -> ssem B1 n (wof (mc_vm mc1)) t = Some (W', Fail err) ->
  wrel B1 B2 o1 o2 W' (wof (mc_vm mc2)) ->
  Forall (item_ok2 FN) rest ->
  stuck_m (snd (run_tree false mc1 t)) \/
  ((exists rep, snd (run_tree false mc1 t) = TError err rep) /\ wof (mc_vm (fst (run_tree false mc1 t))) = W' /\
   pair false false o1 o2 B1 B2 (fst (run_tree false mc1 t)) mc2 rest).
Proof. exact failed_then_rest. Qed.
Print Assumptions C08_failed_statement_then_any_session_partial.

(* the premises are met: a block that assigns, writes and then divides by zero fails on the machine after
   builtin.Load; the demonstration session of C01 (four definitions, eighteen statements) then runs the same
   on that machine and on one that never saw the block but holds the assignment and the output *)
Definition failing_block : node :=
  NBlock [NAssign (NName "q") (NInt 5); NCall (NName "write") [NStr "seen"]; NBin "/" (NName "q") (NInt 0)].
Definition twin_assign : node := NAssign (NName "q") (NInt 5).
Definition twin_write : node := NCall (NName "write") [NStr "seen"].
(* notations, not definitions: the proofs below must not ask the kernel to unfold a machine *)
Notation mc_failed := (fst (run_tree false mc_after_first failing_block)).
Notation mc_never := (fst (run_tree false (fst (run_tree false mc_after_first twin_assign)) twin_write)).

Example C08_demo_failed_then_session :
  snd (run_tree false mc_after_first failing_block) = TError ErrZeroDiv (match snd (run_tree false mc_after_first failing_block) with TError _ rep => rep | _ => EmptyString end) /\
  map unfun (map brief (run_all mc_failed (map item_tree demo_items))) =
  map unfun (map brief (run_all mc_never (map item_tree demo_items))) /\
  gval (v_globals (mc_vm mc_failed)) "q" = VInt 5 /\
  v_out (mc_vm (end_of mc_failed (map item_tree demo_items))) = v_out (mc_vm (end_of mc_never (map item_tree demo_items))).
Proof. split; [|split; [|split]]; vm_compute; reflexivity. Qed.

(* the world the statement semantics gives the failing block *)
Definition W_failed : world :=
  match ssem vm_tab 20 (wof (mc_vm mc_after_first)) failing_block with Some (W, _) => W | None => wof (mc_vm mc_after_first) end.

Example C08_demo_failed_then_session_is_covered :
  ssem vm_tab 20 (wof (mc_vm mc_after_first)) failing_block = Some (W_failed, Fail ErrZeroDiv) /\
  (stuck_m (snd (run_tree false mc_after_first failing_block)) \/
   ((exists rep, snd (run_tree false mc_after_first failing_block) = TError ErrZeroDiv rep) /\
    wof (mc_vm (fst (run_tree false mc_after_first failing_block))) = W_failed /\
    pair false false [] [] vm_tab vm_tab (fst (run_tree false mc_after_first failing_block)) mc_never demo_items)).
Proof.
  assert (HM : ssem vm_tab 20 (wof (mc_vm mc_after_first)) failing_block = Some (W_failed, Fail ErrZeroDiv)) by (vm_compute; reflexivity).
  split; [exact HM|].
  destruct C01_vm_start_state_holds as [c [m Hr]].
  (* the twin: the assignment and the write alone, on the same start *)
  assert (M1 : exists G, ssem vm_tab 20 (wof (mc_vm mc_after_first)) twin_assign = Some (G, Ok (VInt 5))) by (eexists; vm_compute; reflexivity).
  destruct M1 as [G1 M1].
  destruct (tready_after_stmt false vm_tab twin_assign mc_after_first c m 20 G1 _ Hr eq_refl eq_refl M1) as [E1 [c1 [m1 Hr1]]].
  { intros X. vm_compute in X. discriminate X. }
  { intros X. vm_compute in X. discriminate X. }
  assert (M2 : exists G, ssem vm_tab 20 (wof (mc_vm (fst (run_tree false mc_after_first twin_assign)))) twin_write = Some (G, Ok VNil)) by (eexists; vm_compute; reflexivity).
  destruct M2 as [G2 M2].
  destruct (tready_after_stmt false vm_tab twin_write _ c1 m1 20 G2 _ Hr1 eq_refl eq_refl M2) as [E2 [c2 [m2 Hr2]]].
  { intros X. vm_compute in X. discriminate X. }
  { intros X. vm_compute in X. discriminate X. }
  assert (HR : wrel vm_tab vm_tab [] [] W_failed (wof (mc_vm mc_never))).
  { assert (Eg : w_glob W_failed = w_glob (wof (mc_vm mc_never))) by (vm_compute; reflexivity).
    assert (Eo : w_out W_failed = w_out (wof (mc_vm mc_never))) by (vm_compute; reflexivity).
    assert (Ei : w_in W_failed = w_in (wof (mc_vm mc_never))) by (vm_compute; reflexivity).
    constructor.
    - intros g _. rewrite Eg. reflexivity.
    - exists (w_out W_failed). rewrite app_nil_r. split; [reflexivity|symmetry; exact Eo].
    - exact Ei.
    - intros nm _. rewrite Eg. reflexivity. }
  assert (Hok : item_ok2 demo_names (IStmt failing_block)) by (split; [split; reflexivity|reflexivity]).
  exact (failed_then_rest demo_names [] [] vm_tab vm_tab mc_after_first c m mc_never c2 m2 failing_block 20 W_failed ErrZeroDiv demo_items
           C01_vm_tables_hold Hr Hr2 Hok HM HR C01_demo_items_ok).
Qed.
