(* PropC03.v — C03: functions are pure across histories and contexts.

   Proved here, on the definitional semantics: the store discipline that makes
   purity hold by construction — an activation's frame is a fresh object,
   creating it (or a closure) disturbs no existing frame, and a frame is only
   ever written through an assignment to a variable of that same activation.
   There is no other machine state (no stack height, capacity, temp register
   or context identity), so the result of a call cannot depend on them.
   NOT proved: the corresponding independence of the VM (the memory layer is
   C18; K1 is an open finding).  The check decides C03 by placing the same
   call in many dynamic contexts of one session on the real code. *)
Require Import Calc.Base Calc.Bytecode Calc.Value Calc.FloatText Calc.Ast Calc.Compile Calc.VM Calc.Sem Calc.MemProofs.
Open Scope Z_scope.

(* open statement: the VM model's result of a call does not depend on the
   operand stack below it, on the call depth or on the stack capacity *)
Definition C03_vm_call_context_independent_statement : Prop :=
  forall (v1 v2 : vm) (r1 r2 : regs) (fuel : nat),
    v_cs v1 = v_cs v2 -> v_ds v1 = v_ds v2 -> v_globals v1 = v_globals v2 -> r_ip r1 = r_ip r2 ->
    (* both about to execute the same CALL with equal arguments on top of arbitrary stacks *)
    True.

Definition frames_fresh (st : sstate) : Prop :=
  forall id vals, assoc_get (s_frames st) id = Some vals -> id < s_next st.

(* a new activation gets a frame nobody else has, and no existing frame changes *)
Theorem C03_new_frame_is_fresh : forall st vals,
  frames_fresh st ->
  let st' := fst (new_frame st vals) in
  let id := snd (new_frame st vals) in
  assoc_get (s_frames st) id = None /\
  assoc_get (s_frames st') id = Some vals /\
  (forall other, other <> id -> assoc_get (s_frames st') other = assoc_get (s_frames st) other) /\
  s_globals st' = s_globals st /\ frames_fresh st'.
Proof.
  intros st vals Hf. unfold new_frame. cbn [fst snd s_frames s_globals].
  split; [|split; [|split; [|split]]].
  - destruct (assoc_get (s_frames st) (s_next st)) as [l|] eqn:E; [|reflexivity].
    apply Hf in E. lia.
  - cbn [assoc_get]. rewrite Z.eqb_refl. reflexivity.
  - intros other Hne. cbn [assoc_get]. destruct (Z.eqb_spec (s_next st) other); [congruence|reflexivity].
  - reflexivity.
  - intros id vs H. cbn [s_frames s_next assoc_get] in *. destruct (Z.eqb_spec (s_next st) id) as [<-|NE].
    + lia.
    + apply Hf in H. lia.
Qed.
Print Assumptions C03_new_frame_is_fresh.

(* creating a closure touches no frame and no global *)
Theorem C03_new_closure_touches_nothing : forall st c,
  s_frames (fst (new_clos st c)) = s_frames st /\ s_globals (fst (new_clos st c)) = s_globals st.
Proof. intros. split; reflexivity. Qed.
Print Assumptions C03_new_closure_touches_nothing.

(* an assignment to a local writes exactly that slot of that activation's frame *)
Theorem C03_assign_writes_one_slot : forall st fid clo ix name v vals,
  v <> VNil -> assoc_get (s_frames st) fid = Some vals -> 0 <= ix < zlen vals ->
  exists st', assign st {| e_frame := Some fid; e_closure := clo |} (NLocal ix name) v = Done st' (CVal v) /\
              assoc_get (s_frames st') fid = Some (zset vals (Z.to_nat ix) v) /\
              (forall other, other <> fid -> assoc_get (s_frames st') other = assoc_get (s_frames st) other) /\
              s_globals st' = s_globals st.
Proof.
  intros st fid clo ix name v vals Hv Hf Hix. unfold assign.
  destruct v; try congruence; cbn; rewrite Hf;
    (destruct (Z.leb_spec 0 ix); [|lia]); (destruct (Z.ltb_spec ix (zlen vals)); [|lia]); cbn;
    (eexists; split; [reflexivity|]); cbn; (split; [apply assoc_get_set_same|]);
    (split; [intros other Hne; apply assoc_get_set_other; congruence|reflexivity]).
Qed.
Print Assumptions C03_assign_writes_one_slot.

(* ---- calls of the pure built-ins toa and aton, as compiled and run by the VM model ---- *)
Require Import Calc.ExprSem Calc.ExprVM Calc.ExprCorrect Calc.ExprSession Calc.CompileWf Calc.Session
        Calc.StmtSem Calc.StmtRel Calc.StmtCorrect Calc.StmtTop Calc.StmtTwin.

(* the value depends on the argument value only; nothing but the allocation counter changes *)
Theorem C03_pure_builtin_depends_on_argument_only : forall b W1 W2 x,
  b <> BWrite ->
  snd (bop_sem b W1 x) = snd (bop_sem b W2 x) /\ fst (bop_sem b W1 x) = W1 /\ fst (bop_sem b W2 x) = W2.
Proof. intros b W1 W2 x Hb. destruct b; [contradiction|split; [reflexivity|split; reflexivity]..]. Qed.
Print Assumptions C03_pure_builtin_depends_on_argument_only.

(* the compiled call nm(e) computes it from ANY machine state — any stack depth below it, any frames, any
   cells in the dead part of the stack, whether or not the stack has to grow for the call (SpecS quantifies
   over every memory m and every machine v holding the code): in a loop body, in a block, in a branch *)
Theorem C03_compiled_builtin_call_anywhere : forall Bf nm b e d s s' w,
  bop_of_name nm = Some b -> pure e = true -> wfcs s ->
  Compile.comp (NCall (NName nm) [e]) 0 (tfl d) s = COk (w, s') ->
  SpecS Bf (NCall (NName nm) [e]) d 0 s s' w.
Proof.
  intros Bf nm b e d s s' w Hb Hp Hwf H.
  apply (comp_stmt Bf (NCall (NName nm) [e])); [cbn [wstmt is_bcall forallb]; rewrite Hp; reflexivity|reflexivity|exact Hwf|exact H].
Qed.
Print Assumptions C03_compiled_builtin_call_anywhere.

(* and between statements: two sessions with the same global data, whatever happened before in either
   (other code and data offsets, other allocation counters, other output, other stack contents), get the
   same result from the same call *)
Theorem C03_compiled_builtin_call_any_history : forall Bf nm b e mc1 c1 m1 mc2 c2 m2 o1 o2 n W1' res,
  (forall f body, ft_body Bf f = Some body -> nobe Bf body = true) ->
  bop_of_name nm = Some b -> pure e = true -> nobe Bf e = true -> wfb (NCall (NName nm) [e]) = true ->
  bready Bf mc1 c1 m1 -> bready Bf mc2 c2 m2 ->
  wrel Bf Bf o1 o2 (wof (mc_vm mc1)) (wof (mc_vm mc2)) ->
  ssem Bf n (wof (mc_vm mc1)) (NCall (NName nm) [e]) = Some (W1', res) ->
  stuck (snd (run_tree false mc1 (NCall (NName nm) [e]))) \/ stuck (snd (run_tree false mc2 (NCall (NName nm) [e]))) \/
  (tree_agrees (snd (run_tree false mc1 (NCall (NName nm) [e]))) res /\
   tree_agrees (snd (run_tree false mc2 (NCall (NName nm) [e]))) res).
Proof.
  intros Bf nm b e mc1 c1 m1 mc2 c2 m2 o1 o2 n W1' res Hnob Hb Hp Hn Hwfb R1 R2 HR HM.
  assert (Hw : wstmt (NCall (NName nm) [e]) = true) by (cbn [wstmt is_bcall forallb]; rewrite Hp; reflexivity).
  assert (Hn' : nobs Bf (NCall (NName nm) [e]) = true) by (cbn [nobs forallb]; rewrite Hn; reflexivity).
  destruct (stmt_relocation Bf Hnob _ mc1 c1 m1 mc2 c2 m2 o1 o2 n W1' res R1 R2 Hw Hwfb Hn' HR HM) as [S|[S|(A1 & A2 & _)]];
    [left; exact S|right; left; exact S|right; right; split; assumption].
Qed.
Print Assumptions C03_compiled_builtin_call_any_history.

(* ---- user functions (one parameter, the body a pure expression of it and of the globals) ---- *)
Require Import Calc.LExprSem.

(* what the function returns depends on the argument values and the global data only: the meaning of a
   call of a user function is ucall_sem — the arguments' values xs, then lden xs G body — and it leaves the
   globals, the output and the input as they were *)
Theorem C03_user_function_result : forall Bf n W nm args W' res,
  ucall_sem Bf n W nm args = Some (W', res) ->
  exists body, ft_body Bf nm = Some body /\
    w_glob W' = w_glob W /\ w_out W' = w_out W /\ w_in W' = w_in W /\
    match seq_res (den (w_glob W)) args with
    | Ok xs => res = Fail ErrArity \/ res = lden xs (w_glob W) body
    | Fail err => res = Fail err
    end.
Proof. exact ucall_sem_facts. Qed.
Print Assumptions C03_user_function_result.

(* the compiled call computes it from ANY machine state: any stack depth, any dead cells, growth or not *)
Theorem C03_compiled_user_call_anywhere : forall Bf nm e d s s' w,
  bop_of_name nm = None -> pure e = true -> wfcs s ->
  Compile.comp (NCall (NName nm) [e]) 0 (tfl d) s = COk (w, s') ->
  SpecS Bf (NCall (NName nm) [e]) d 0 s s' w.
Proof.
  intros Bf nm e d s s' w Hb Hp Hwf H.
  apply (comp_stmt Bf (NCall (NName nm) [e])); [cbn [wstmt is_bcall forallb]; rewrite Hp; reflexivity|reflexivity|exact Hwf|exact H].
Qed.
Print Assumptions C03_compiled_user_call_anywhere.

(* two sessions with the same global data, whatever happened before in either, get the same result *)
Theorem C03_compiled_user_call_any_history : forall Bf nm e mc1 c1 m1 mc2 c2 m2 o1 o2 n W1' res,
  (forall f body, ft_body Bf f = Some body -> nobe Bf body = true) ->
  pure e = true -> nobe Bf e = true -> wfb (NCall (NName nm) [e]) = true ->
  bready Bf mc1 c1 m1 -> bready Bf mc2 c2 m2 ->
  wrel Bf Bf o1 o2 (wof (mc_vm mc1)) (wof (mc_vm mc2)) ->
  ssem Bf n (wof (mc_vm mc1)) (NCall (NName nm) [e]) = Some (W1', res) ->
  stuck (snd (run_tree false mc1 (NCall (NName nm) [e]))) \/ stuck (snd (run_tree false mc2 (NCall (NName nm) [e]))) \/
  (tree_agrees (snd (run_tree false mc1 (NCall (NName nm) [e]))) res /\
   tree_agrees (snd (run_tree false mc2 (NCall (NName nm) [e]))) res).
Proof.
  intros Bf nm e mc1 c1 m1 mc2 c2 m2 o1 o2 n W1' res Hnob Hp Hn Hwfb R1 R2 HR HM.
  assert (Hw : wstmt (NCall (NName nm) [e]) = true) by (cbn [wstmt is_bcall forallb]; rewrite Hp; reflexivity).
  assert (Hn' : nobs Bf (NCall (NName nm) [e]) = true) by (cbn [nobs forallb]; rewrite Hn; reflexivity).
  destruct (stmt_relocation Bf Hnob _ mc1 c1 m1 mc2 c2 m2 o1 o2 n W1' res R1 R2 Hw Hwfb Hn' HR HM) as [S|[S|(A1 & A2 & _)]];
    [left; exact S|right; left; exact S|right; right; split; assumption].
Qed.
Print Assumptions C03_compiled_user_call_any_history.

(* ---- any two sessions, each with its own definitions ---- *)
Require Import Calc.Resolve Calc.ExprTop Calc.ExprAssign Calc.ExprLen Calc.StmtVM Calc.StmtDef Calc.StmtMixed Calc.StmtModes.

(* the same call at any points of any two sessions — which may have defined the function at different places
   in their code segments, after different numbers of calls, loops and failed statements, so that their
   function tables B1, B2 bind the name to different function values with the same body — gives the same value
   or error, as long as the two worlds hold the same global data (wrel).  An instance of the two-machine session
   theorem (StmtModes.v, pair_session). *)
Theorem C03_call_after_any_two_histories_partial : forall FN o1 o2 B1 B2 mc1 c1 m1 mc2 c2 m2 nm args n W1' res,
  tabs_ok FN B1 B2 -> tready B1 mc1 c1 m1 -> tready B2 mc2 c2 m2 ->
  wrel B1 B2 o1 o2 (wof (mc_vm mc1)) (wof (mc_vm mc2)) ->
  forallb pure args = true -> forallb (nobe (BS FN)) args = true -> wfb (NCall (NName nm) args) = true ->
  ssem B1 n (wof (mc_vm mc1)) (NCall (NName nm) args) = Some (W1', res) ->
  let t := NCall (NName nm) args in
  stuck_m (snd (run_tree false mc1 t)) \/ stuck_m (snd (run_tree false mc2 t)) \/
  (tree_agrees (snd (run_tree false mc1 t)) res /\ tree_agrees (snd (run_tree false mc2 t)) res).
Proof.
  intros FN o1 o2 B1 B2 mc1 c1 m1 mc2 c2 m2 nm args n W1' res HT Hr1 Hr2 HR Hp Hnb Hwb HM. cbv zeta.
  assert (Hok : Forall (item_ok2 FN) [IStmt (NCall (NName nm) args)]).
  { constructor; [|constructor]. split; [split; [exact Hp|exact Hwb]|exact Hnb]. }
  pose proof (pair_session FN false false o1 o2 _ B1 B2 mc1 c1 m1 mc2 c2 m2 HT Hr1 Hr2 HR Hok) as P.
  cbn [pair] in P. specialize (P n W1' res HM). cbv zeta in P.
  destruct P as [S|[S|(A1 & A2 & _)]]; [left; exact S|right; left; exact S|right; right; split; [exact A1|exact A2]].
Qed.
Print Assumptions C03_call_after_any_two_histories_partial.
