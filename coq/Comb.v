(* Comb.v — model of combinator/combinator.go: parser combinators over a
   transactional lexer, as a deep embedding with two interpreters:
     run_go   issues Next / Snapshot / Commit / Rollback on the transactional
              lexer model in the order the Go closures do, with Go's nil /
              non-nil slice results;
     run_spec the ordered-choice recogniser on the plain token list.
   C13 says they agree. *)
Require Import Calc.Base Calc.Lexer.
Open Scope Z_scope.

Inductive fmapf := FCount | FRev | FWrap.

Inductive pexp :=
| PAccept (v : string)                 (* token whose text is v *)
| POk
| PAnd (a b : pexp)
| POneOf (ps : list pexp)
| PChoose (cs : list (pexp * pexp))    (* gate, on success *)
| PAny (g s : pexp)
| PSepBy (a b : pexp)
| PSurr (a b c : pexp)
| PAssert (p : pexp)
| PNot (p : pexp)
| PDrop (p : pexp)
| PFmap (f : fmapf) (p : pexp).

Definition node := string.

Record perr := { e_from : Z; e_to : Z; e_msg : string }.

(* Go's ([]Node, *Error): the slice may be nil (None) or not *)
Definition pres := (option (list node) * option perr)%type.

Definition append_nodes (a b : option (list node)) : option (list node) :=
  match a, b with
  | None, None => None
  | None, Some [] => None            (* append(nil, empty...) is nil *)
  | None, Some l => Some l
  | Some l, None => Some l
  | Some l, Some m => Some (l ++ m)
  end.

Definition apply_fmap (f : fmapf) (r : option (list node)) : option (list node) :=
  let l := match r with Some l => l | None => [] end in
  match f with
  | FCount => Some [itoa (Z.of_nat (List.length l))]
  | FRev => Some (rev l)
  | FWrap => Some ["(" +++ sconcat " " l +++ ")"]
  end.

Inductive gores :=
| GRes (t : tlexer) (r : pres)
| GPanic (why : string)
| GFuel.

Definition gbind (m : gores) (f : tlexer -> pres -> gores) : gores :=
  match m with GRes t r => f t r | x => x end.

Definition pop_or_panic (o : option tlexer) (f : tlexer -> gores) : gores :=
  match o with Some t => f t | None => GPanic "index out of range: no snapshot" end.

(* Accept *)
Definition go_accept (v : string) (t : tlexer) : gores :=
  match tl_next t with
  | TNPanic => GPanic "lexer panicked"
  | TNFuel => GFuel
  | TNFalse t' =>
      match tl_cur t' with
      | Some e => GRes t' (None, Some {| e_from := r_from e; e_to := r_to e; e_msg := "Parser: unexpected end of input" |})
      | None => GPanic "index out of range"
      end
  | TNTrue t' =>
      match tl_cur t' with
      | None => GPanic "index out of range"
      | Some e =>
          match r_err e with
          | Some m => GRes t' (None, Some {| e_from := r_from e; e_to := r_to e; e_msg := m |})
          | None =>
              let tok := r_token e in
              if String.eqb (t_value tok) v then GRes t' (Some [t_value tok], None)
              else GRes t' (None, Some {| e_from := t_from tok; e_to := t_to tok;
                                          e_msg := "Parser: " +++ v +++ " expected, got " +++ token_string tok |})
          end
      end
  end.

Fixpoint run_go (fuel : nat) (p : pexp) (t : tlexer) {struct fuel} : gores :=
  match fuel with
  | O => GFuel
  | S k =>
    match p with
    | PAccept v => go_accept v t
    | POk => GRes t (Some [], None)
    | PAnd a b =>
        gbind (run_go k a t) (fun t1 ra =>
          match snd ra with
          | Some _ => GRes t1 ra
          | None => gbind (run_go k b t1) (fun t2 rb => GRes t2 (append_nodes (fst ra) (fst rb), snd rb))
          end)
    | POneOf ps =>
        match ps with
        | [] => GPanic "Parser: OneOf needs at least one parser"
        | _ =>
            (fix go (l : list pexp) (t : tlexer) (lastErr : option perr) : gores :=
               match l with
               | [] => GRes t (None, lastErr)
               | q :: l' =>
                   gbind (run_go k q (tl_snapshot t)) (fun t1 r =>
                     match snd r with
                     | None => pop_or_panic (tl_commit t1) (fun t2 => GRes t2 (fst r, None))
                     | Some e => pop_or_panic (tl_rollback t1) (fun t2 => go l' t2 (Some e))
                     end)
               end) ps t None
        end
    | PChoose cs =>
        (fix go (l : list (pexp * pexp)) (t : tlexer) : gores :=
           match l with
           | [] => GPanic "no predicates succeeded in choice"
           | (g, s) :: l' =>
               gbind (run_go k g (tl_snapshot t)) (fun t1 rg =>
                 match snd rg with
                 | None =>
                     pop_or_panic (tl_commit t1) (fun t2 =>
                       gbind (run_go k s t2) (fun t3 rs =>
                         match fst rs with
                         | Some _ => GRes t3 (append_nodes (fst rg) (fst rs), snd rs)
                         | None => GRes t3 (None, snd rs)
                         end))
                 | Some _ => pop_or_panic (tl_rollback t1) (fun t2 => go l' t2)
                 end)
           end) cs t
    | PAny g s =>
        (fix loop (n : nat) (t : tlexer) (acc : list node) : gores :=
           match n with
           | O => GFuel
           | S n' =>
               gbind (run_go k g (tl_snapshot t)) (fun t1 rg =>
                 match snd rg with
                 | None =>
                     pop_or_panic (tl_commit t1) (fun t2 =>
                       gbind (run_go k s t2) (fun t3 rs =>
                         let acc' := acc ++ (match fst rg with Some l => l | None => [] end)
                                         ++ (match fst rs with Some l => l | None => [] end) in
                         match snd rs with
                         | Some e => GRes t3 (Some acc', Some e)
                         | None => loop n' t3 acc'
                         end))
                 | Some _ => pop_or_panic (tl_rollback t1) (fun t2 => GRes t2 (Some acc, None))
                 end)
           end) k t []
    | PSepBy a b =>
        gbind (run_go k a (tl_snapshot t)) (fun t1 ra =>
          match snd ra with
          | Some _ => pop_or_panic (tl_rollback t1) (fun t2 => GRes t2 (Some [], None))
          | None =>
              pop_or_panic (tl_commit t1) (fun t2 =>
                (fix loop (n : nat) (t : tlexer) (acc : option (list node)) : gores :=
                   match n with
                   | O => GFuel
                   | S n' =>
                       gbind (run_go k b (tl_snapshot t)) (fun tb rb =>
                         match snd rb with
                         | Some _ => pop_or_panic (tl_rollback tb) (fun t' => GRes t' (acc, None))
                         | None =>
                             gbind (run_go k a tb) (fun ta ra' =>
                               match snd ra' with
                               | Some _ => pop_or_panic (tl_rollback ta) (fun t' => GRes t' (acc, None))
                               | None => pop_or_panic (tl_commit ta) (fun t' => loop n' t' (append_nodes acc (fst ra')))
                               end)
                         end)
                   end) k t2 (fst ra))
          end)
    | PSurr a b c =>
        gbind (run_go k a t) (fun t1 ra =>
          match snd ra with
          | Some e => GRes t1 (None, Some e)
          | None =>
              gbind (run_go k b t1) (fun t2 rb =>
                match snd rb with
                | Some e => GRes t2 (None, Some e)
                | None => gbind (run_go k c t2) (fun t3 rc => GRes t3 (fst rb, snd rc))
                end)
          end)
    | PAssert q =>
        gbind (run_go k q (tl_snapshot t)) (fun t1 r =>
          pop_or_panic (tl_rollback t1) (fun t2 => GRes t2 (Some [], snd r)))
    | PNot q =>
        gbind (run_go k q (tl_snapshot t)) (fun t1 r =>
          pop_or_panic (tl_rollback t1) (fun t2 =>
            match snd r with
            | None => GRes t2 (None, Some {| e_from := 0; e_to := 0; e_msg := "expecting error" |})
            | Some _ => GRes t2 (Some [], None)
            end))
    | PDrop q => gbind (run_go k q t) (fun t1 r => GRes t1 (Some [], snd r))
    | PFmap f q =>
        gbind (run_go k q t) (fun t1 r =>
          match snd r with
          | Some e => GRes t1 (None, Some e)
          | None => GRes t1 (apply_fmap f (fst r), None)
          end)
    end
  end.

(* ---------- the specification: ordered choice on a token list ---------- *)
Inductive sres :=
| SOk (nodes : list node) (pos : Z)     (* pos: index of the last consumed token, -1 = none *)
| SFail (e : perr)
| SPanic
| SFuel.

(* what Accept does at position pos of the token list: consume the next token *)
Definition spec_accept (v : string) (toks : list lexres) (pos : Z) : sres :=
  let n := Z.of_nat (List.length toks) in
  if pos + 1 <? n then
    match nth_error toks (Z.to_nat (pos + 1)) with
    | None => SPanic
    | Some e =>
        match r_err e with
        | Some m => SFail {| e_from := r_from e; e_to := r_to e; e_msg := m |}
        | None =>
            let tok := r_token e in
            if String.eqb (t_value tok) v then SOk [t_value tok] (pos + 1)
            else SFail {| e_from := t_from tok; e_to := t_to tok;
                          e_msg := "Parser: " +++ v +++ " expected, got " +++ token_string tok |}
        end
    end
  else
    match (if pos <? 0 then None else nth_error toks (Z.to_nat pos)) with
    | Some e => SFail {| e_from := r_from e; e_to := r_to e; e_msg := "Parser: unexpected end of input" |}
    | None => SPanic
    end.

Fixpoint run_spec (fuel : nat) (p : pexp) (toks : list lexres) (pos : Z) {struct fuel} : sres :=
  match fuel with
  | O => SFuel
  | S k =>
    match p with
    | PAccept v => spec_accept v toks pos
    | POk => SOk [] pos
    | PAnd a b =>
        match run_spec k a toks pos with
        | SOk na p1 =>
            match run_spec k b toks p1 with
            | SOk nb p2 => SOk (na ++ nb) p2
            | x => x
            end
        | x => x
        end
    | POneOf ps =>
        match ps with
        | [] => SPanic
        | _ =>
            (fix go (l : list pexp) (last : sres) : sres :=
               match l with
               | [] => last
               | q :: l' =>
                   match run_spec k q toks pos with
                   | SOk n p1 => SOk n p1
                   | SFail e => go l' (SFail e)
                   | x => x
                   end
               end) ps SPanic
        end
    | PChoose cs =>
        (fix go (l : list (pexp * pexp)) : sres :=
           match l with
           | [] => SPanic
           | (g, s) :: l' =>
               match run_spec k g toks pos with
               | SOk ng p1 =>
                   match run_spec k s toks p1 with
                   | SOk ns p2 => SOk (ng ++ ns) p2
                   | x => x
                   end
               | SFail _ => go l'
               | x => x
               end
           end) cs
    | PAny g s =>
        (fix loop (n : nat) (pos : Z) (acc : list node) : sres :=
           match n with
           | O => SFuel
           | S n' =>
               match run_spec k g toks pos with
               | SOk ng p1 =>
                   match run_spec k s toks p1 with
                   | SOk ns p2 => loop n' p2 (acc ++ ng ++ ns)
                   | x => x
                   end
               | SFail _ => SOk acc pos
               | x => x
               end
           end) k pos []
    | PSepBy a b =>
        match run_spec k a toks pos with
        | SOk na p1 =>
            (fix loop (n : nat) (pos : Z) (acc : list node) : sres :=
               match n with
               | O => SFuel
               | S n' =>
                   match run_spec k b toks pos with
                   | SOk _ pb =>
                       match run_spec k a toks pb with
                       | SOk na' pa => loop n' pa (acc ++ na')
                       | SFail _ => SOk acc pos
                       | x => x
                       end
                   | SFail _ => SOk acc pos
                   | x => x
                   end
               end) k p1 na
        | SFail _ => SOk [] pos
        | x => x
        end
    | PSurr a b c =>
        match run_spec k a toks pos with
        | SOk _ p1 =>
            match run_spec k b toks p1 with
            | SOk nb p2 =>
                match run_spec k c toks p2 with
                | SOk _ p3 => SOk nb p3
                | x => x
                end
            | x => x
            end
        | x => x
        end
    | PAssert q =>
        match run_spec k q toks pos with
        | SOk _ _ => SOk [] pos
        | x => x
        end
    | PNot q =>
        match run_spec k q toks pos with
        | SOk _ _ => SFail {| e_from := 0; e_to := 0; e_msg := "expecting error" |}
        | SFail _ => SOk [] pos
        | x => x
        end
    | PDrop q =>
        match run_spec k q toks pos with
        | SOk _ p1 => SOk [] p1
        | x => x
        end
    | PFmap f q =>
        match run_spec k q toks pos with
        | SOk n p1 => SOk (match apply_fmap f (Some n) with Some l => l | None => [] end) p1
        | x => x
        end
    end
  end.
