(* CorrComb.v — comparison of the combinator model (run_go) and of the
   ordered-choice specification (run_spec) with what the Go combinators did. *)
Require Import Calc.Base Calc.Lexer Calc.CorrLexer Calc.Comb.
Open Scope Z_scope.

Record cobs := {
  co_panic : bool;
  co_nodes : option (list string);
  co_err : option (string * Z * Z);
  co_left : bool;                 (* a snapshot was left on the transaction stack *)
  co_next : option otok           (* the token the next Next shows, None if Next returned false *)
}.

Fixpoint strs_eqb (a b : list string) : bool :=
  match a, b with
  | [], [] => true
  | x :: a', y :: b' => String.eqb x y && strs_eqb a' b'
  | _, _ => false
  end.

Definition err_matches (e : option perr) (o : option (string * Z * Z)) : bool :=
  match e, o with
  | None, None => true
  | Some e, Some (m, f, t) => String.eqb (e_msg e) m && (e_from e =? f) && (e_to e =? t)
  | _, _ => false
  end.

Definition next_matches (t : tlexer) (o : option otok) : bool :=
  match tl_next t, o with
  | TNTrue t', Some ot => match tl_cur t' with Some e => res_matches e ot | None => false end
  | TNFalse _, None => true
  | _, _ => false
  end.

Definition comb_fuel : nat := 40.

Definition go_agrees (p : pexp) (input : string) (o : cobs) : bool :=
  match run_go comb_fuel p (new_tlexer input) with
  | GPanic _ => co_panic o
  | GFuel => false
  | GRes t (nodes, err) =>
      negb (co_panic o) &&
      match nodes, co_nodes o with
      | None, None => true
      | Some a, Some b => strs_eqb a b
      | _, _ => false
      end &&
      err_matches err (co_err o) &&
      Bool.eqb (match tl_pointers t with [] => false | _ => true end) (co_left o) &&
      next_matches t (co_next o)
  end.

Definition spec_agrees (p : pexp) (input : string) (o : cobs) : bool :=
  let toks := tokens_of input in
  match run_spec comb_fuel p toks (-1) with
  | SPanic => co_panic o
  | SFuel => false
  | SFail e => negb (co_panic o) && err_matches (Some e) (co_err o)
  | SOk n pos =>
      negb (co_panic o) &&
      match co_err o with Some _ => false | None => true end &&
      strs_eqb n (match co_nodes o with Some l => l | None => [] end) &&
      negb (co_left o) &&
      (* the position afterwards: the next token is the one after pos *)
      match nth_error toks (Z.to_nat (pos + 1)), co_next o with
      | Some e, Some ot => res_matches e ot
      | None, None => true
      | _, _ => false
      end
  end.

(* 0 agree; +1 the Go-faithful interpreter disagrees; +2 the specification disagrees *)
Definition chk_comb (c : pexp * string * cobs) : Z :=
  let '(p, input, o) := c in
  (if go_agrees p input o then 0 else 1) + (if spec_agrees p input o then 0 else 2).
