(* CorrSession.v — comparison of whole sessions: the VM model against what
   the Go implementation did, statement by statement. *)
Require Import Calc.Base Calc.Bytecode Calc.Value Calc.FloatText Calc.Ast Calc.Resolve Calc.Compile
        Calc.VM Calc.Session.
Open Scope Z_scope.

(* what Go did with one tree *)
Inductive gres :=
| GValue (x : value)
| GError (e : err)
| GRefused
| GPanic
| GHang.       (* the statement did not finish within the time limit *)

(* what Go did with one input: its trees (as parsed), result per tree, the
   output of the whole input without error reports, the counters afterwards *)
Record ginput := {
  g_trees : list node;
  g_results : list gres;
  g_out : string;
  g_counters : list Z;
  g_reports : list string     (* runtime error report per tree, addresses masked; "" when none or not compared *)
}.

Fixpoint zl_eqb (a b : list Z) : bool :=
  match a, b with
  | [], [] => true
  | x :: a', y :: b' => (x =? y) && zl_eqb a' b'
  | _, _ => false
  end.

Definition tree_agrees_rep (check_report : bool) (m : tree_result) (g : gres) (rep : string) : bool :=
  match m, g with
  | TValue x, GValue y => vsame x y
  | TError e r, GError f => err_eqb e f && (negb check_report || String.eqb r rep)
  | TRefused, GRefused => true
  | TAbort _, GPanic => true
  | _, _ => false
  end.

Definition tree_agrees (m : tree_result) (g : gres) : bool :=
  match m, g with
  | TValue x, GValue y => vsame x y
  | TError e _, GError f => err_eqb e f
  | TRefused, GRefused => true
  | TAbort _, GPanic => true
  | _, _ => false
  end.

(* strip the runtime error reports from the model's output the same way the
   driver strips them from Go's: the model keeps them apart already *)

(* result codes: 0 agree, 1 disagree, 2 stack grew while a frame was captured
   (finding K1 territory), 3 dead frame read (finding K2 territory), 4 model out of fuel *)
Fixpoint run_trees_rep (nostck : bool) (mc : machine) (ts : list node) (gs : list gres) (reps : list string) : machine * Z :=
  match ts, gs with
  | [], [] => (mc, 0)
  | t :: ts', g :: gs' =>
      let (mc', r) := run_tree nostck mc t in
      if v_grew_captured (mc_vm mc') then (mc', 2)
      else if v_dead_read (mc_vm mc') then (mc', 3)
      else match r with
           | TFuel => (mc', match g with GHang => 5 | _ => 4 end)
           | _ => if tree_agrees_rep true r g (hd "" reps) then
                    match g with
                    | GPanic => (mc', 5)
                    | _ => run_trees_rep nostck mc' ts' gs' (tl reps)
                    end
                  else (mc', 1)
           end
  | _, _ => (mc, 1)
  end.

Fixpoint run_trees (nostck : bool) (mc : machine) (ts : list node) (gs : list gres) : machine * Z :=
  match ts, gs with
  | [], [] => (mc, 0)
  | t :: ts', g :: gs' =>
      let (mc', r) := run_tree nostck mc t in
      if v_grew_captured (mc_vm mc') then (mc', 2)
      else if v_dead_read (mc_vm mc') then (mc', 3)
      else match r with
           | TFuel => (mc', match g with GHang => 5 | _ => 4 end)
           | _ => if tree_agrees r g then
                    match g with
                    | GPanic => (mc', 5)      (* both abort: the session ends here *)
                    | _ => run_trees nostck mc' ts' gs'
                    end
                  else (mc', 1)
           end
  | _, _ => (mc, 1)
  end.

Definition set_out_empty (mc : machine) : machine := {| mc_cs := mc_cs mc; mc_vm := clear_out (mc_vm mc) |}.

Fixpoint chk_inputs (nostck : bool) (check_counters : bool) (mc : machine) (l : list ginput) : Z :=
  match l with
  | [] => 0
  | g :: r =>
      let (mc', code) := run_trees nostck (set_out_empty mc) (g_trees g) (g_results g) in
      if code =? 5 then 0
      else if negb (code =? 0) then code
      else if negb (String.eqb (out_text (mc_vm mc')) (g_out g)) then 1
      else if check_counters && negb (zl_eqb (counters mc') (g_counters g)) then 1
      else chk_inputs nostck check_counters mc' r
  end.

Fixpoint chk_inputs_rep (mc : machine) (l : list ginput) : Z :=
  match l with
  | [] => 0
  | g :: r =>
      let (mc', code) := run_trees_rep false (set_out_empty mc) (g_trees g) (g_results g) (g_reports g) in
      if code =? 5 then 0
      else if negb (code =? 0) then code
      else if negb (String.eqb (out_text (mc_vm mc')) (g_out g)) then 1
      else chk_inputs_rep mc' r
  end.

(* sessions with the runtime error reports compared too (C19) *)
Definition chk_session_reports (l : list ginput) : Z :=
  match machine_new with
  | Some mc => chk_inputs_rep mc l
  | None => 1
  end.

Definition chk_session (l : list ginput) : Z :=
  match machine_new with
  | Some mc => chk_inputs false true mc l
  | None => 1
  end.

Definition chk_session_nostck (l : list ginput) : Z :=
  match machine_new with
  | Some mc => chk_inputs true true mc l
  | None => 1
  end.

(* for replay files: everything the model observes on a session *)
Fixpoint trace_inputs (nostck : bool) (mc : machine) (l : list (list node)) : list (list tree_result * string * list Z) :=
  match l with
  | [] => []
  | ts :: r =>
      let '(mc', rs) := fold_left (fun acc t =>
                                     let '(m, rs) := acc in
                                     let (m', x) := run_tree nostck m t in (m', rs ++ [x]))
                                  ts (set_out_empty mc, []) in
      (rs, out_text (mc_vm mc'), counters mc') :: trace_inputs nostck mc' r
  end.

Definition trace_session (l : list (list node)) :=
  match machine_new with
  | Some mc => trace_inputs false mc l
  | None => []
  end.
