(* PropC09.v — C09: evaluation leaves the machine clean.

   Proved here (about the memory/VM model): the error path resets the main
   machine completely; growing the stack never loses or moves anything;
   Push/Pop and PushFrame/PopFrame are balanced; a pure expression statement
   (literals, globals, operators, any depth) compiled and run leaves the
   operand stack pointer, every cell below it, the frame and closure stacks
   and the main context where they were ([C09_pure_expression_is_balanced],
   from ExprTop.v); so does every statement of the language over globals —
   assignments, blocks, if, if/else, while, nested, however often the loops
   run — in REPL mode and in file mode ([C09_statement_is_balanced],
   [C09_statement_is_balanced_file_mode]).  NOT proved: that every
   statement the compiler emits is balanced on every path
   ([C09_stmt_balanced_statement], open); the check decides that part by
   reading the residue counters of the real machine after every statement and
   by loop-scaling runs, and compares the counters with the VM model. *)
Require Import Calc.Base Calc.Bytecode Calc.Value Calc.FloatText Calc.Ast Calc.Resolve Calc.Compile
        Calc.VM Calc.Session Calc.MemProofs Calc.ExprSem Calc.ExprVM Calc.ExprCorrect Calc.ExprTop Calc.ExprAssign Calc.ExprLen Calc.ExprSession
        Calc.StmtSem Calc.StmtVM Calc.StmtCorrect Calc.StmtTop.
Open Scope Z_scope.

(* the open statement: running a compiled top-level tree that ends with a
   value leaves sp, frames, closures and contexts where they were *)
Definition C09_stmt_balanced_statement : Prop :=
  forall (mc : machine) (t : node) (mc' : machine) (x : value),
    counters mc = [0; 0; 0; 0; Z.of_nat (List.length (match assoc_get (v_mems (mc_vm mc)) 0 with Some m => m_stack m | None => [] end));
                   ncs (mc_cs mc); 0; ncs (mc_cs mc); nds (mc_cs mc)] ->
    run_tree false mc t = (mc', TValue x) ->
    firstn 4 (counters mc') = [0; 0; 0; 0] /\ nth 6 (counters mc') 0 = 0 /\
    nth 5 (counters mc') 0 = ncs (mc_cs mc').

Theorem C09_error_leaves_clean_machine : forall v,
  (exists m, assoc_get (v_mems (match assoc_get (v_ctxs v) 0 with
                                | Some c => fold_left (fun acc ch => delete_ctx ctx_fuel acc (snd ch)) (c_children c) v
                                | None => v end)) 0 = Some m) ->
  (exists c, assoc_get (v_ctxs (match assoc_get (v_ctxs v) 0 with
                                | Some c => fold_left (fun acc ch => delete_ctx ctx_fuel acc (snd ch)) (c_children c) v
                                | None => v end)) 0 = Some c) ->
  clean_machine (reset_after_error v).
Proof. exact reset_clean. Qed.
Print Assumptions C09_error_leaves_clean_machine.

Theorem C09_growStack_only_grows : forall m n,
  let m' := fst (growStack m n) in
  m_sp m' = m_sp m /\ m_fp m' = m_fp m /\ m_clos m' = m_clos m /\
  (List.length (m_stack m) <= List.length (m_stack m'))%nat /\
  firstn (List.length (m_stack m)) (m_stack m') = m_stack m.
Proof. exact growStack_only_grows. Qed.
Print Assumptions C09_growStack_only_grows.

Theorem C09_push_pop_balanced : forall m x m' g,
  0 <= m_sp m <= zlen (m_stack m) -> mPush m x = Good (m', g) ->
  exists m'', mPop m' = Good (m'', x) /\ m_sp m'' = m_sp m /\ m_fp m'' = m_fp m /\ m_clos m'' = m_clos m.
Proof. exact push_pop_balanced. Qed.
Print Assumptions C09_push_pop_balanced.

Theorem C09_pushframe_popframe_balanced : forall m a l ser m' g,
  mPushFrame m a l ser = Good (m', g) ->
  exists m'', mPopFrame m' = Good m'' /\ m_sp m'' = m_sp m - a /\ m_fp m'' = m_fp m /\
              m_clos m'' = m_clos m /\ m_serials m'' = m_serials m.
Proof. exact pushframe_popframe_balanced. Qed.
Print Assumptions C09_pushframe_popframe_balanced.

(* a pure expression statement leaves no residue *)
Theorem C09_pure_expression_is_balanced : forall e mc c m s' x,
  pure e = true -> machine_idle mc c m ->
  ByteCode e (mc_cs mc) = CompOk s' -> ncs s' - ncs (mc_cs mc) < 400000 ->
  den (v_globals (mc_vm mc)) e = Ok x ->
  exists mc' c' m', run_tree false mc e = (mc', TValue x) /\ machine_idle mc' c' m' /\
    m_sp m' = m_sp m /\ c_mid c' = c_mid c /\ c_ip c' = ncs (mc_cs mc').
Proof.
  intros e mc c m s' x Hp Hid HB Hlen Hd.
  pose proof (run_tree_pure e mc c m s' Hp Hid HB Hlen) as R. rewrite Hd in R.
  destruct R as [mc' [c' [m' (R & Hid' & Hsp & Hmid & _)]]].
  exists mc', c', m'. split; [exact R|]. split; [exact Hid'|]. split; [exact Hsp|]. split; [exact Hmid|].
  destruct Hid' as [_ I]. exact (id_ip _ _ _ _ I).
Qed.
Print Assumptions C09_pure_expression_is_balanced.

(* statements over globals: blocks, if, if/else, while — any nesting, any number of iterations *)
Theorem C09_statement_is_balanced : forall Bf t s s' v c m n G' x,
  wstmt t = true -> wfcs s -> idle v s c m -> bcode Bf (load_code v s) ->
  ByteCode t s = CompOk s' ->
  ssem Bf n (wof v) t = Some (G', Ok x) ->
  exists k, forall fuel, (k < fuel)%nat ->
    exists v' m' c', Run fuel (load_code v s') true = (v', RValue x) /\
      assoc_get (v_mems v') (c_mid c) = Some m' /\ m_sp m' = m_sp m /\ msame (m_sp m) m m' /\
      assoc_get (v_ctxs v') 0 = Some c' /\ c_ip c' = ncs s' /\ c_children c' = c_children c.
Proof.
  intros Bf t s s' v c m n G' x Hw Hwf Hid Hbc HB HM.
  destruct (bytecode_run_stmt Bf t s s' v c m n G' (Ok x) Hw Hwf Hid Hbc HB HM) as [_ [_ [k R]]].
  exists k. intros fuel Hf. destruct (R fuel) as [_ R2]. specialize (R2 Hf).
  destruct R2 as [v' [m' (E & Hm & Hsp & Hms & _ & _ & [c' [Hc [Hip [_ Hch]]]])]].
  exists v', m', c'. split; [exact E|]. split; [exact Hm|]. split; [exact Hsp|]. split; [exact Hms|].
  split; [exact Hc|]. split; [exact Hip|exact Hch].
Qed.
Print Assumptions C09_statement_is_balanced.

Theorem C09_statement_is_balanced_file_mode : forall Bf t s s' v c m n G' x,
  wstmt t = true -> wfcs s -> idle v s c m -> bcode Bf (load_code v s) ->
  ByteCodeNoStck t s = CompOk s' ->
  ssem Bf n (wof v) t = Some (G', Ok x) ->
  exists k, forall fuel, (k < fuel)%nat -> ran_to_end v c m s' G' (Run fuel (load_code v s') false).
Proof.
  intros Bf t s s' v c m n G' x Hw Hwf Hid Hbc HB HM.
  destruct (bytecode_nostck_run_stmt Bf t s s' v c m n G' (Ok x) Hw Hwf Hid Hbc HB HM) as [_ [k R]].
  exists k. exact R.
Qed.
Print Assumptions C09_statement_is_balanced_file_mode.

(* a definition f = (ps) -> body leaves no residue on the stacks: the operand stack, the frame stack and the
   closure stack are where they were, no context is added; what it leaves is the function's entry in the
   frame table *)
Require Import Calc.StmtDef.
Theorem C09_definition_is_balanced : forall f ps body lc s s' v c m fuel,
  LExprSem.lpure (repeat VNil (List.length ps)) body = true -> lc = Z.of_nat (List.length ps) ->
  wfcs s -> idle v s c m -> m_fp m = [] -> ncs s + 1 < 4294967296 ->
  ByteCode (NAssign (NName f) (NFunction ps body lc)) s = CompOk s' ->
  (4 < fuel)%nat ->
  exists v' c' m' fv, Run fuel (load_code v s') true = (v', RValue fv) /\
    assoc_get (v_mems v') (c_mid c) = Some m' /\ m_sp m' = m_sp m /\ m_fp m' = m_fp m /\ m_clos m' = m_clos m /\
    assoc_get (v_ctxs v') 0 = Some c' /\ c_ip c' = ncs s' /\ c_children c' = c_children c /\
    v_frames v' = (v_next v, FNone) :: v_frames v.
Proof.
  intros f ps body lc s s' v c m fuel Hp Hlc Hwf Hid Hfp Hbig HB Hf.
  destruct (bytecode_run_def f ps body lc s s' v c m fuel Hp Hlc Hwf Hid Hfp Hbig HB Hf)
    as [_ [v' [c' [m' (R & Hid' & Hmid & Hch & Hsp & Hms & _ & Hfr & _)]]]].
  exists v', c', m'. eexists. split; [exact R|]. destruct Hid' as [I1 I2 I3 I4]. rewrite Hmid in I3.
  destruct Hms as (F & C & _).
  split; [exact I3|]. split; [exact Hsp|]. split; [exact F|]. split; [exact C|]. split; [exact I1|]. split; [exact I2|].
  split; [exact Hch|exact Hfr].
Qed.
Print Assumptions C09_definition_is_balanced.

(* ---- between the trees of a session, in either mode ---- *)
Require Import Calc.Resolve Calc.StmtRel Calc.StmtMixed Calc.StmtModes.

(* tready: the machine is idle at the end of its code, on the main context, which has no children; its memory
   holds no activation (m_fp = []) and its stack pointer lies within the stack.  A statement of the fragment —
   whether it ends with a value or fails anywhere, in a loop body or inside a callee — and a definition leave
   the machine like that again, in value mode and in file mode: every history of such trees runs at top level
   with no frame, context or closure residue *)
Theorem C09_statement_leaves_top_level : forall nostck B t mc c m n G' sres,
  tready B mc c m -> wstmt t = true -> CompileWf.wfb t = true ->
  ssem B n (wof (mc_vm mc)) t = Some (G', sres) ->
  outcome_m nostck mc t G' sres (fun mc' => exists c' m', tready B mc' c' m').
Proof. exact stmt_step_m. Qed.
Print Assumptions C09_statement_leaves_top_level.

Theorem C09_definition_leaves_top_level : forall nostck B d mc c m,
  tready B mc c m -> fdef_ok d -> ncs (mc_cs mc) + 1 < 4294967296 ->
  snd (run_tree nostck mc (fd_tree d)) = TRefused \/
  exists c' m',
    let fv := fd_value mc d in
    let mc' := fst (run_tree nostck mc (fd_tree d)) in
    snd (run_tree nostck mc (fd_tree d)) = TValue (def_shown nostck fv) /\
    wof (mc_vm mc') = wbump (wglob (wof (mc_vm mc)) (sassoc_set (v_globals (mc_vm mc)) (fd_name d) fv)) /\
    tready (ft_add B (fd_name d) fv (fd_body d) (fd_lc d)) mc' c' m'.
Proof. exact def_step_m. Qed.
Print Assumptions C09_definition_leaves_top_level.
