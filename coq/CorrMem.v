(* CorrMem.v — C18: a history of memory operations run on the real
   memory.Type (observed), on G and on A (Mem18.v). *)
Require Import Calc.Base Calc.Bytecode Calc.Value Calc.FloatText Calc.Compile Calc.VM Calc.Mem18.
Open Scope Z_scope.

Inductive robs := RNone | RVal (v : value) | RPanic | RSkip.

Definition mem_of_op (o : mop) : option Z :=
  match o with
  | MPush m _ | MPop m | MPushFrame m _ _ | MPopFrame m | MSet m _ _ | MLocal m _ | MCapture m
  | MPushClosure m _ | MPopClosure m | MClosure m _ | MIPGet m | MIPSet m _ => Some m
  | MClone m _ => Some m
  | _ => None
  end.

Definition val_eqb (a b : value) : bool :=
  match a, b with
  | VNil, VNil => true
  | VInt x, VInt y => x =? y
  | _, _ => false
  end.

(* codes (plus 100 * index of the operation):
     0  all three agree
     9  the specification rejects the history (generator error)
     2  the real memory and the specification differ            -> a failing history
    12  ... at a read G flags as stale (alias older than a growth of its slice: K1)
    13  ... at a read G flags as dead
     1  the real memory and G differ (value, panic or stack pointer) where the specification agrees with the real one *)
Fixpoint chk_loop (k : Z) (gw : gworld) (aw : aworld) (ops : list mop) (obs : list (robs * Z)) : Z :=
  match ops, obs with
  | [], _ => 0
  | _, [] => 0
  | o :: ops', (r, sp) :: obs' =>
      let (gw1, gob) := g_step {| gw_mems := gw_mems gw; gw_handles := gw_handles gw; gw_globals := gw_globals gw;
                                  gw_next_mem := gw_next_mem gw; gw_serial := gw_serial gw;
                                  gw_stale := false; gw_dead := false |} o in
      let (aw1, aob) := a_step aw o in
      let here c := c + 100 * k in
      match aob with
      | OIllegal => here 9
      | _ =>
          let flagged := if gw_stale gw1 then 12 else if gw_dead gw1 then 13 else 0 in
          let real_vs_spec :=
            match r, aob with
            | RNone, ONone => true
            | RVal x, OVal y => val_eqb x y
            | _, _ => false
            end in
          if negb real_vs_spec then here (if flagged =? 0 then 2 else flagged)
          else
            let real_vs_g :=
              match r, gob with
              | RNone, ONone => true
              | RVal x, OVal y => val_eqb x y
              | _, _ => false
              end in
            let sp_ok :=
              match mem_of_op o with
              | Some m => match assoc_get (gw_mems gw1) m with Some gm => (sp <? 0) || (m_sp gm =? sp) | None => false end
              | None => true
              end in
            if negb (real_vs_g && sp_ok) then (if flagged =? 0 then here 1 else chk_loop (k + 1) gw1 aw1 ops' obs')
            else chk_loop (k + 1) gw1 aw1 ops' obs'
      end
  end.

Definition chk_mem (c : list mop * list (robs * Z)) : Z := chk_loop 0 gw_init aw_init (fst c) (snd c).

(* for diagnosis: what the two machines show *)
Definition show_mem (ops : list mop) := (map (fun x => fst (fst x)) (g_run gw_init ops), a_run aw_init ops).
