(* MemProofs.v — facts about the memory model and the error reset (C08, C09, C18). *)
Require Import Calc.Base Calc.Bytecode Calc.Value Calc.FloatText Calc.Compile Calc.VM.
Open Scope Z_scope.

Lemma assoc_get_set_same {A} (l : list (Z * A)) k v : assoc_get (assoc_set l k v) k = Some v.
Proof.
  induction l as [|[k' w] l IH]; cbn.
  - rewrite Z.eqb_refl. reflexivity.
  - destruct (Z.eqb_spec k' k) as [->|NE]; cbn.
    + rewrite Z.eqb_refl. reflexivity.
    + destruct (Z.eqb_spec k' k); [contradiction|]. exact IH.
Qed.

Lemma assoc_get_set_other {A} (l : list (Z * A)) k k' v :
  k <> k' -> assoc_get (assoc_set l k v) k' = assoc_get l k'.
Proof.
  intros NE. induction l as [|[k0 w] l IH]; cbn.
  - destruct (Z.eqb_spec k k'); [contradiction|reflexivity].
  - destruct (Z.eqb_spec k0 k) as [->|NE0]; cbn.
    + destruct (Z.eqb_spec k k'); [contradiction|reflexivity].
    + destruct (Z.eqb_spec k0 k'); [reflexivity|exact IH].
Qed.

Lemma zset_length {A} (l : list A) i v : List.length (zset l i v) = List.length l.
Proof. revert i. induction l as [|x l IH]; intros [|i]; cbn; try reflexivity. rewrite IH. reflexivity. Qed.

Lemma zset_nth_same {A} (l : list A) i v : (i < List.length l)%nat -> nth_error (zset l i v) i = Some v.
Proof.
  revert i. induction l as [|x l IH]; intros [|i] H; cbn in *; try lia; try reflexivity.
  apply IH. lia.
Qed.

Lemma zset_nth_other {A} (l : list A) i j v : i <> j -> nth_error (zset l i v) j = nth_error l j.
Proof.
  revert i j. induction l as [|x l IH]; intros [|i] [|j] H; cbn; try reflexivity; try congruence.
  apply IH. congruence.
Qed.

(* ---- the error path leaves a clean machine (vm.dumpStack's reset) ---- *)
Definition clean_machine (v : vm) : Prop :=
  exists m c, assoc_get (v_mems v) 0 = Some m /\ assoc_get (v_ctxs v) 0 = Some c /\
              m_sp m = 0 /\ m_fp m = [] /\ m_clos m = [] /\ m_serials m = [] /\
              c_children c = [] /\ c_ip c = v_ncs v /\ c_parent c = None.

Lemma reset_clean v :
  (exists m, assoc_get (v_mems (match assoc_get (v_ctxs v) 0 with
                                | Some c => fold_left (fun acc ch => delete_ctx ctx_fuel acc (snd ch)) (c_children c) v
                                | None => v end)) 0 = Some m) ->
  (exists c, assoc_get (v_ctxs (match assoc_get (v_ctxs v) 0 with
                                | Some c => fold_left (fun acc ch => delete_ctx ctx_fuel acc (snd ch)) (c_children c) v
                                | None => v end)) 0 = Some c) ->
  clean_machine (reset_after_error v).
Proof.
  intros [m Hm] [c Hc]. unfold reset_after_error.
  set (v1 := match assoc_get (v_ctxs v) 0 with
             | Some c0 => fold_left (fun acc ch => delete_ctx ctx_fuel acc (snd ch)) (c_children c0) v
             | None => v end) in *.
  rewrite Hm. cbn [set_mem v_ctxs]. rewrite Hc.
  exists (mReset m). eexists. cbn [set_ctx set_mem v_mems v_ctxs v_ncs].
  rewrite !assoc_get_set_same. repeat split; reflexivity.
Qed.

(* ---- stack discipline of the memory model ---- *)
Lemma growStack_only_grows m n :
  let m' := fst (growStack m n) in
  m_sp m' = m_sp m /\ m_fp m' = m_fp m /\ m_clos m' = m_clos m /\
  (List.length (m_stack m) <= List.length (m_stack m'))%nat /\
  firstn (List.length (m_stack m)) (m_stack m') = m_stack m.
Proof.
  unfold growStack. destruct (m_sp m + n >=? zlen (m_stack m)); cbn.
  - repeat split; try reflexivity.
    + rewrite app_length. lia.
    + rewrite firstn_app, Nat.sub_diag, firstn_all. cbn. apply app_nil_r.
  - repeat split; try reflexivity; try lia. apply firstn_all.
Qed.

Lemma growStack_room m n :
  0 <= m_sp m <= zlen (m_stack m) -> 0 <= n -> m_sp m + n <= zlen (m_stack (fst (growStack m n))).
Proof.
  intros Hsp Hn. unfold growStack, zlen in *.
  destruct (Z.geb_spec (m_sp m + n) (Z.of_nat (List.length (m_stack m)))); cbn.
  - rewrite app_length, repeat_length. unfold minStackSize. lia.
  - lia.
Qed.

(* Push then Pop returns the value and restores sp *)
Lemma push_pop_balanced m x m' g :
  0 <= m_sp m <= zlen (m_stack m) -> mPush m x = Good (m', g) ->
  exists m'', mPop m' = Good (m'', x) /\ m_sp m'' = m_sp m /\ m_fp m'' = m_fp m /\ m_clos m'' = m_clos m.
Proof.
  intros Hsp H. unfold mPush in H.
  destruct (growStack m 1) as [m1 g1] eqn:G.
  pose proof (growStack_only_grows m 1) as (Esp & Efp & Ecl & _ & _). rewrite G in Esp, Efp, Ecl. cbn in Esp, Efp, Ecl.
  pose proof (growStack_room m 1 Hsp ltac:(lia)) as Hroom. rewrite G in Hroom. cbn in Hroom.
  destruct Hsp as [Hsp0 Hsp1].
  unfold stack_set in H.
  destruct ((m_sp m1 <? 0) || (m_sp m1 >=? zlen (m_stack m1))) eqn:B; [discriminate|].
  cbn in H. inversion H; subst; clear H.
  unfold mPop, stack_get, with_stack, znth. cbn.
  replace (m_sp m1 + 1 - 1) with (m_sp m1) by lia.
  destruct (Z.ltb_spec (m_sp m1) 0); [lia|].
  rewrite zset_nth_same by (unfold zlen in Hroom; lia).
  cbn. eexists. split; [reflexivity|]. cbn. repeat split; congruence.
Qed.

(* PushFrame then PopFrame: the arguments are consumed, everything else is as before *)
Lemma pushframe_popframe_balanced m a l ser m' g :
  mPushFrame m a l ser = Good (m', g) ->
  exists m'', mPopFrame m' = Good m'' /\ m_sp m'' = m_sp m - a /\ m_fp m'' = m_fp m /\
              m_clos m'' = m_clos m /\ m_serials m'' = m_serials m.
Proof.
  intros H. unfold mPushFrame in H.
  destruct (growStack m (l - a)) as [m1 g1] eqn:G.
  pose proof (growStack_only_grows m (l - a)) as (Esp & Efp & Ecl & _ & _). rewrite G in Esp, Efp, Ecl. cbn in Esp, Efp, Ecl.
  assert (Eser : m_serials m1 = m_serials m).
  { unfold growStack in G. destruct (m_sp m + (l - a) >=? zlen (m_stack m)); inversion G; reflexivity. }
  destruct ((l - a >? 0) && (m_sp m1 + (l - a) >? zlen (m_stack m1))); [discriminate|].
  inversion H; subst; clear H.
  unfold mPopFrame, fp_at, znth, zlen. cbn [m_fp m_sp m_clos m_stack m_serials m_cap].
  rewrite app_length. cbn [List.length].
  replace (Z.of_nat (List.length (m_fp m1) + 2) + -2) with (Z.of_nat (List.length (m_fp m1))) by lia.
  destruct (Z.ltb_spec (Z.of_nat (List.length (m_fp m1))) 0); [lia|].
  rewrite Nat2Z.id. rewrite nth_error_app2 by lia. rewrite Nat.sub_diag. cbn.
  eexists. split; [reflexivity|]. cbn.
  unfold drop_last. rewrite !app_length. cbn [List.length].
  replace (List.length (m_fp m1) + 2 - 2)%nat with (List.length (m_fp m1)) by lia.
  replace (List.length (m_serials m1) + 1 - 1)%nat with (List.length (m_serials m1)) by lia.
  rewrite !firstn_app, !Nat.sub_diag, !firstn_all. cbn. rewrite !app_nil_r.
  repeat split; try congruence. lia.
Qed.
