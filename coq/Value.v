(* Value.v — model of types/value/value.go: the seven kinds of values and the
   operator families.  Arrays are lists (justified by C10), strings are byte
   strings, ints wrap at 64 bits, floats are IEEE binary64. Function values
   carry their packed word and the index of their captured frame in a table
   kept by whoever evaluates (the VM model or the definitional semantics). *)
Require Import Calc.Base Calc.Bytecode.
Open Scope Z_scope.

Inductive value :=
| VNil
| VInt (i : Z)
| VFloat (f : float)
| VStr (s : string)
| VArr (a : list value)
| VBool (b : bool)
| VFun (morph : Z) (fid : Z).

Inductive err := ErrNil | ErrType | ErrZeroDiv | ErrIndex | ErrArity | ErrConversion | ErrRead.

Inductive res (A : Type) := Ok (a : A) | Fail (e : err).
Arguments Ok {A} a. Arguments Fail {A} e.

Definition is_nil (v : value) : bool := match v with VNil => true | _ => false end.

(* error of the default branch of every binary operator *)
Definition nil_or_type (a b : value) : err :=
  if is_nil a || is_nil b then ErrNil else ErrType.

(* ---- float text: implemented in FloatText.v, passed in as a parameter of
   the rendering functions so that Value.v does not depend on it ---- *)

Definition int_arith (op a b : Z) : Z :=
  if op =? ADD then wrap64 (a + b)
  else if op =? SUB then wrap64 (a - b)
  else if op =? MUL then wrap64 (a * b)
  else wrap64 (Z.quot a b).

Definition float_arith (op : Z) (a b : float) : float :=
  if op =? ADD then (a + b)%float
  else if op =? SUB then (a - b)%float
  else if op =? MUL then (a * b)%float
  else (a / b)%float.

(* Arith: + - * / *)
Definition Arith (op : Z) (a b : value) : res value :=
  match a, b with
  | VInt x, VInt y =>
      if (op =? DIV) && (y =? 0) then Fail ErrZeroDiv else Ok (VInt (int_arith op x y))
  | VInt x, VFloat y => Ok (VFloat (float_arith op (z2f x) y))
  | VFloat x, VInt y => Ok (VFloat (float_arith op x (z2f y)))
  | VFloat x, VFloat y => Ok (VFloat (float_arith op x y))
  | VStr x, VStr y => if op =? ADD then Ok (VStr (x +++ y)) else Fail ErrType
  | VArr x, VArr y => if op =? ADD then Ok (VArr (x ++ y)) else Fail ErrType
  | _, _ => Fail (nil_or_type a b)
  end.

Definition Mod (a b : value) : res value :=
  match a, b with
  | VInt x, VInt y => if y =? 0 then Fail ErrZeroDiv else Ok (VInt (wrap64 (Z.rem x y)))
  | _, _ => Fail (nil_or_type a b)
  end.

Definition int_rel (op a b : Z) : bool :=
  if op =? LT then a <? b else if op =? GT then b <? a
  else if op =? LE then a <=? b else b <=? a.

Definition float_rel (op : Z) (a b : float) : bool :=
  if op =? LT then (a <? b)%float else if op =? GT then (b <? a)%float
  else if op =? LE then (a <=? b)%float else (b <=? a)%float.

Definition Relational (op : Z) (a b : value) : res value :=
  match a, b with
  | VInt x, VInt y => Ok (VBool (int_rel op x y))
  | VInt x, VFloat y => Ok (VBool (float_rel op (z2f x) y))
  | VFloat x, VInt y => Ok (VBool (float_rel op x (z2f y)))
  | VFloat x, VFloat y => Ok (VBool (float_rel op x y))
  | _, _ => Fail (nil_or_type a b)
  end.

Definition Logic (op : Z) (a b : value) : res value :=
  match a, b with
  | VInt x, VInt y => Ok (VInt (if op =? AND then Z.land x y else Z.lor x y))
  | VBool x, VBool y => Ok (VBool (if op =? AND then x && y else x || y))
  | _, _ => Fail (nil_or_type a b)
  end.

(* shifts act on the unsigned 64-bit pattern; a count outside 0..63 gives 0 *)
Definition Shift (op : Z) (a b : value) : res value :=
  match a, b with
  | VInt x, VInt y =>
      let ux := u64 x in
      let cnt := u64 y in
      let r := if cnt >=? 64 then 0
               else if op =? LSH then (ux * 2 ^ cnt) mod two64
               else ux / 2 ^ cnt in
      Ok (VInt (wrap64 r))
  | _, _ => Fail (nil_or_type a b)
  end.

Definition Flip (a : value) : res value :=
  match a with
  | VInt x => Ok (VInt (- x - 1))
  | VNil => Fail ErrNil
  | _ => Fail ErrType
  end.

Definition Not (a : value) : res value :=
  match a with
  | VBool x => Ok (VBool (negb x))
  | VNil => Fail ErrNil
  | _ => Fail ErrType
  end.

Definition Len (a : value) : res value :=
  match a with
  | VStr s => Ok (VInt (slen s))
  | VArr l => Ok (VInt (Z.of_nat (List.length l)))
  | VNil => Fail ErrNil
  | _ => Fail ErrType
  end.

(* the index operands are inspected first, in order *)
Definition index_of (v : value) : res Z :=
  match v with
  | VInt i => Ok i
  | VNil => Fail ErrNil
  | _ => Fail ErrType
  end.

Definition lsub {A} (l : list A) (i j : Z) : list A :=
  firstn (Z.to_nat (j - i)) (skipn (Z.to_nat i) l).

Definition Index1 (t i : value) : res value :=
  match index_of i with
  | Fail e => Fail e
  | Ok i0 =>
      match t with
      | VStr s =>
          if (i0 <? 0) || (i0 >=? slen s) then Fail ErrIndex
          else Ok (VStr (utf8_of_byte (sget s i0)))
      | VArr l =>
          if (i0 <? 0) || (i0 >=? Z.of_nat (List.length l)) then Fail ErrIndex
          else Ok (nth (Z.to_nat i0) l VNil)
      | _ => Fail ErrType
      end
  end.

Definition Index2 (t i j : value) : res value :=
  match index_of i with
  | Fail e => Fail e
  | Ok i0 =>
      match index_of j with
      | Fail e => Fail e
      | Ok i1 =>
          match t with
          | VStr s =>
              if (i0 <? 0) || (i0 >? slen s) || (i1 <? i0) || (i1 >? slen s) then Fail ErrIndex
              else Ok (VStr (ssub s i0 i1))
          | VArr l =>
              let n := Z.of_nat (List.length l) in
              if (i0 <? 0) || (i0 >? n) || (i1 <? i0) || (i1 >? n) then Fail ErrIndex
              else Ok (VArr (lsub l i0 i1))
          | _ => Fail ErrType
          end
      end
  end.

(* StrictEq: exactly the same value; all functions are "equal" (test helper) *)
Fixpoint StrictEq (a b : value) {struct a} : bool :=
  match a, b with
  | VInt x, VInt y => x =? y
  | VFloat x, VFloat y => feq x y
  | VBool x, VBool y => Bool.eqb x y
  | VStr x, VStr y => String.eqb x y
  | VArr x, VArr y =>
      (fix go (l m : list value) {struct l} : bool :=
         match l, m with
         | [], [] => true
         | u :: l', v :: m' => StrictEq u v && go l' m'
         | _, _ => false
         end) x y
  | VNil, VNil => true
  | VFun _ _, VFun _ _ => true
  | _, _ => false
  end.

(* WeakEq: equality as the language defines it.  (result, error) as in Go:
   the element loop stops at the first element that is not equal (or fails). *)
Fixpoint WeakEq (a b : value) {struct a} : bool * option err :=
  match a, b with
  | VInt x, VFloat y => (feq (z2f x) y, None)
  | VFloat x, VInt y => (feq x (z2f y), None)
  | VArr x, VArr y =>
      if negb (Nat.eqb (List.length x) (List.length y)) then (false, None)
      else
        (fix go (l m : list value) {struct l} : bool * option err :=
           match l, m with
           | u :: l', v :: m' =>
               let (r, e) := WeakEq u v in
               if r then go l' m' else (false, e)
           | _, _ => (true, None)
           end) x y
  | VFun _ _, VFun _ _ => (false, None)
  | _, _ =>
      if is_nil a || is_nil b then (false, Some ErrNil) else (StrictEq a b, None)
  end.

Definition EqOp (op : Z) (a b : value) : res value :=
  match WeakEq a b with
  | (_, Some e) => Fail e
  | (r, None) => Ok (VBool (if op =? NE then negb r else r))
  end.

(* the operator a bytecode opcode applies; shared by the VM model and the
   definitional semantics *)
Definition apply_binop (c : Z) (a b : value) : res value :=
  if (c =? ADD) || (c =? SUB) || (c =? MUL) || (c =? DIV) then Arith c a b
  else if c =? MOD then Mod a b
  else if (c =? AND) || (c =? OR) then Logic c a b
  else if (c =? LT) || (c =? GT) || (c =? LE) || (c =? GE) then Relational c a b
  else if (c =? EQ) || (c =? NE) then EqOp c a b
  else Shift c a b.

Definition is_binop (c : Z) : bool :=
  (ADD <=? c) && (c <=? RSH) && negb (c =? INC) && negb (c =? NOT).

(* ---- rendering ---- *)
Section Render.
  Variable fmt_float : float -> string.

  Fixpoint to_string (v : value) : string :=
    match v with
    | VNil => "nil"
    | VInt i => itoa i
    | VFloat f => fmt_float f
    | VBool b => if b then "true" else "false"
    | VStr s => s
    | VFun _ _ => "function"
    | VArr l => "[" +++ sconcat ", " (map to_string l) +++ "]"
    end.

  Definition abbrev (v : value) : string :=
    let s := to_string v in
    if slen s >? 20 then ssub s 0 17 +++ "..." else s.

  Definition display (v : value) : string :=
    match v with
    | VStr s => sb [34] +++ s +++ sb [34]
    | _ => to_string v
    end.
End Render.

(* ---- structural identity of two values, used to compare the model with
   the implementation: floats by bit pattern (NaN = NaN), functions opaque ---- *)
Fixpoint vsame (a b : value) {struct a} : bool :=
  match a, b with
  | VNil, VNil => true
  | VInt x, VInt y => x =? y
  | VFloat x, VFloat y => fsame x y
  | VBool x, VBool y => Bool.eqb x y
  | VStr x, VStr y => String.eqb x y
  | VFun _ _, VFun _ _ => true
  | VArr x, VArr y =>
      (fix go (l m : list value) {struct l} : bool :=
         match l, m with
         | [], [] => true
         | u :: l', v :: m' => vsame u v && go l' m'
         | _, _ => false
         end) x y
  | _, _ => false
  end.

Definition err_eqb (a b : err) : bool :=
  match a, b with
  | ErrNil, ErrNil | ErrType, ErrType | ErrZeroDiv, ErrZeroDiv | ErrIndex, ErrIndex
  | ErrArity, ErrArity | ErrConversion, ErrConversion | ErrRead, ErrRead => true
  | _, _ => false
  end.

Definition res_same (a b : res value) : bool :=
  match a, b with
  | Ok x, Ok y => vsame x y
  | Fail e, Fail f => err_eqb e f
  | _, _ => false
  end.
