(* Ast.v — syntax trees (types/node/node.go), with HasCall and Constant. *)
Require Import Calc.Base Calc.Bytecode Calc.Value.
Open Scope Z_scope.

Inductive node :=
| NInvalid
| NInt (i : Z)
| NFloat (f : float)
| NStr (s : string)
| NBool (b : bool)
| NName (n : string)
| NLocal (ix : Z) (n : string)
| NClosure (ix : Z) (n : string)
| NBin (op : string) (l r : node)
| NUn (op : string) (t : node)
| NIndexAt (a i : node)
| NIndexFromTo (a f t : node)
| NIf (c t : node)
| NIfElse (c t f : node)
| NWhile (c b : node)
| NFor (vars iters : list node) (body : node)
| NReturn (t : node)
| NYield (t : node)
| NAssign (v e : node)
| NBlock (l : list node)
| NList (l : list node)
| NCall (name : node) (args : list node)
| NFunction (params : list node) (body : node) (localcnt : Z)
| NRead
| NWrite (v : node)
| NAton (v : node)
| NToa (v : node)
| NExit (v : node).

(* hascaller.go *)
Fixpoint has_call (n : node) : bool :=
  match n with
  | NCall _ _ => true
  | NList l => existsb has_call l
  | NBin _ l r => has_call l || has_call r
  | NAssign _ e => has_call e
  | NUn _ t => has_call t
  | NIndexAt a i => has_call a || has_call i
  | NIndexFromTo a f t => has_call a || has_call f || has_call t
  | NIf c t => has_call c || has_call t
  | NIfElse c t f => has_call c || has_call t || has_call f
  | NWhile c b => has_call c || has_call b
  | NFor _ iters body => existsb has_call iters || has_call body
  | NReturn t => has_call t
  | NYield t => has_call t
  | NBlock l => existsb has_call l
  | _ => false
  end.

(* constanter.go *)
Fixpoint constant (n : node) : option value :=
  match n with
  | NInt i => Some (VInt i)
  | NFloat f => Some (VFloat f)
  | NStr s => Some (VStr s)
  | NBool b => Some (VBool b)
  | NList l =>
      option_map VArr
        ((fix go (l : list node) : option (list value) :=
            match l with
            | [] => Some []
            | x :: r =>
                match constant x, go r with
                | Some v, Some vs => Some (v :: vs)
                | _, _ => None
                end
            end) l)
  | _ => None
  end.

(* reflect.DeepEqual on trees: floats by Go's ==, everything else structurally *)
Fixpoint node_eqb (a b : node) {struct a} : bool :=
  let list_eqb :=
    (fix go (l m : list node) {struct l} : bool :=
       match l, m with
       | [], [] => true
       | x :: l', y :: m' => node_eqb x y && go l' m'
       | _, _ => false
       end) in
  match a, b with
  | NInvalid, NInvalid => true
  | NInt x, NInt y => x =? y
  | NFloat x, NFloat y => feq x y
  | NStr x, NStr y => String.eqb x y
  | NBool x, NBool y => Bool.eqb x y
  | NName x, NName y => String.eqb x y
  | NLocal i x, NLocal j y => (i =? j) && String.eqb x y
  | NClosure i x, NClosure j y => (i =? j) && String.eqb x y
  | NBin o l r, NBin o' l' r' => String.eqb o o' && node_eqb l l' && node_eqb r r'
  | NUn o t, NUn o' t' => String.eqb o o' && node_eqb t t'
  | NIndexAt x i, NIndexAt x' i' => node_eqb x x' && node_eqb i i'
  | NIndexFromTo x f t, NIndexFromTo x' f' t' => node_eqb x x' && node_eqb f f' && node_eqb t t'
  | NIf c t, NIf c' t' => node_eqb c c' && node_eqb t t'
  | NIfElse c t f, NIfElse c' t' f' => node_eqb c c' && node_eqb t t' && node_eqb f f'
  | NWhile c x, NWhile c' x' => node_eqb c c' && node_eqb x x'
  | NFor v i x, NFor v' i' x' => list_eqb v v' && list_eqb i i' && node_eqb x x'
  | NReturn t, NReturn t' => node_eqb t t'
  | NYield t, NYield t' => node_eqb t t'
  | NAssign v e, NAssign v' e' => node_eqb v v' && node_eqb e e'
  | NBlock l, NBlock l' => list_eqb l l'
  | NList l, NList l' => list_eqb l l'
  | NCall n x, NCall n' x' => node_eqb n n' && list_eqb x x'
  | NFunction p x c, NFunction p' x' c' => list_eqb p p' && node_eqb x x' && (c =? c')
  | NRead, NRead => true
  | NWrite v, NWrite v' => node_eqb v v'
  | NAton v, NAton v' => node_eqb v v'
  | NToa v, NToa v' => node_eqb v v'
  | NExit v, NExit v' => node_eqb v v'
  | _, _ => false
  end.

Definition is_list_node (n : node) : bool := match n with NList _ => true | _ => false end.

(* Namer *)
Definition node_name (n : node) : option string :=
  match n with
  | NName s => Some s
  | NLocal _ s => Some s
  | NClosure _ s => Some s
  | _ => None
  end.
