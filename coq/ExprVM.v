(* ExprVM.v — straight-line execution of the VM model: the memory discipline
   of push and pop, operand fetching, and what each instruction the
   expression compiler emits does. *)
Require Import Calc.Base Calc.Bytecode Calc.BytecodeProofs Calc.Value Calc.FloatText Calc.Ast Calc.Compile Calc.VM
        Calc.MemProofs Calc.ExprSem.
Require Import Lia.
Open Scope Z_scope.

(* ---- k steps of the machine, stopping at the first step that does not continue ---- *)
Fixpoint steps (rr : bool) (k : nat) (v : vm) (r : regs) : stepres :=
  match k with
  | O => SNext v r
  | S k' =>
      match step v r rr with
      | SNext v' r' => steps rr k' v' (with_ip r' (r_ip r' + 1))
      | x => x
      end
  end.

Lemma steps_app rr a b v r :
  steps rr (a + b) v r = match steps rr a v r with SNext v' r' => steps rr b v' r' | x => x end.
Proof.
  revert v r. induction a as [|a IH]; intros v r; cbn [Nat.add steps]; [reflexivity|].
  destruct (step v r rr); try reflexivity. apply IH.
Qed.

(* the run loop performs them *)
Lemma run_loop_steps rr : forall k v r fuel,
  (forall j v' r', (j < k)%nat -> steps rr j v r = SNext v' r' -> r_ip r' < v_ncs v') ->
  forall v' r', steps rr k v r = SNext v' r' ->
  run_loop (k + fuel) v r rr = run_loop fuel v' r' rr.
Proof.
  induction k as [|k IH]; intros v r fuel Hin v' r' Hs.
  - cbn in Hs. inversion Hs. reflexivity.
  - cbn [Nat.add run_loop]. pose proof (Hin 0%nat v r ltac:(lia) eq_refl) as H0.
    apply Z.ltb_lt in H0. rewrite H0. cbn [steps] in Hs.
    destruct (step v r rr) as [v1 r1| | |] eqn:E; try discriminate Hs.
    apply IH; [|exact Hs].
    intros j v2 r2 Hj Hj2. apply (Hin (S j) v2 r2 ltac:(lia)). cbn [steps]. rewrite E. exact Hj2.
Qed.

Lemma run_loop_steps_err rr : forall k v r fuel v' cid ip e vals,
  (forall j v' r', (j < k)%nat -> steps rr j v r = SNext v' r' -> r_ip r' < v_ncs v') ->
  steps rr k v r = SErr v' cid ip e vals ->
  run_loop (k + fuel) v r rr = (reset_after_error v', RError e (report_text v' cid ip e vals)).
Proof.
  induction k as [|k IH]; intros v r fuel v' cid ip e vals Hin Hs.
  - cbn in Hs. discriminate.
  - cbn [Nat.add run_loop]. pose proof (Hin 0%nat v r ltac:(lia) eq_refl) as H0.
    apply Z.ltb_lt in H0. rewrite H0. cbn [steps] in Hs.
    destruct (step v r rr) as [v1 r1| | |] eqn:E; try discriminate Hs.
    + apply IH; [|exact Hs].
      intros j v2 r2 Hj Hj2. apply (Hin (S j) v2 r2 ltac:(lia)). cbn [steps]. rewrite E. exact Hj2.
    + inversion Hs. reflexivity.
Qed.

(* ---- states: a base machine with the memory of the running context replaced ---- *)
Definition St (v : vm) (mid : Z) (m : mem) : vm := set_mem v mid m false.

Lemma assoc_set_set {A} (l : list (Z * A)) k a b : assoc_set (assoc_set l k a) k b = assoc_set l k b.
Proof.
  induction l as [|[k' w] t IH]; cbn [assoc_set].
  - rewrite Z.eqb_refl. reflexivity.
  - destruct (k' =? k) eqn:E; cbn [assoc_set].
    + rewrite Z.eqb_refl. reflexivity.
    + rewrite E, IH. reflexivity.
Qed.

Lemma assoc_set_same {A} (l : list (Z * A)) k a : assoc_get l k = Some a -> assoc_set l k a = l.
Proof.
  induction l as [|[k' w] t IH]; cbn [assoc_set assoc_get]; [discriminate|].
  destruct (k' =? k) eqn:E.
  - intros H. inversion H. apply Z.eqb_eq in E. subst. reflexivity.
  - intros H. rewrite IH by exact H. reflexivity.
Qed.

Lemma St_St v mid m1 m2 g : set_mem (St v mid m1) mid m2 g = St v mid m2.
Proof. unfold St, set_mem; cbn. rewrite assoc_set_set. reflexivity. Qed.

Lemma St_get v mid m : get_mem (St v mid m) mid = Good m.
Proof. unfold get_mem, St, set_mem; cbn. rewrite assoc_get_set_same. reflexivity. Qed.

Lemma St_self v mid m : assoc_get (v_mems v) mid = Some m -> St v mid m = v.
Proof.
  intros H. unfold St, set_mem. rewrite (assoc_set_same _ _ _ H). destruct v; reflexivity.
Qed.

(* ---- the stack below a mark is kept ---- *)
(* m_cap is the model's note of which activations were captured by a function value (used only to flag
   the reads findings K1/K2 are about); a finished call removes its serial from it *)
Definition msame (b : Z) (m m' : mem) : Prop :=
  m_fp m' = m_fp m /\ m_clos m' = m_clos m /\ m_serials m' = m_serials m /\ incl (m_cap m') (m_cap m) /\
  firstn (Z.to_nat b) (m_stack m') = firstn (Z.to_nat b) (m_stack m) /\
  b <= m_sp m' <= zlen (m_stack m').

Lemma msame_refl m : 0 <= m_sp m <= zlen (m_stack m) -> msame (m_sp m) m m.
Proof. intros H. unfold msame. repeat split; try reflexivity; try apply incl_refl; lia. Qed.

Lemma msame_trans b b1 m m1 m2 : b <= b1 -> msame b m m1 -> msame b1 m1 m2 -> msame b m m2.
Proof.
  intros Hb (F1 & C1 & S1 & P1 & T1 & B1) (F2 & C2 & S2 & P2 & T2 & B2). unfold msame.
  split; [congruence|]. split; [congruence|]. split; [congruence|]. split; [exact (incl_tran P2 P1)|].
  split; [|lia].
  assert (H : forall l : list value, firstn (Z.to_nat b) l = firstn (Z.to_nat b) (firstn (Z.to_nat b1) l)).
  { intros l. rewrite firstn_firstn. f_equal. lia. }
  rewrite (H (m_stack m2)), T2, <- H. exact T1.
Qed.

Lemma firstn_zset {A} (l : list A) n i x : (n <= i)%nat -> firstn n (zset l i x) = firstn n l.
Proof.
  revert n i. induction l as [|y l IH]; intros n i H; [destruct i; reflexivity|].
  destruct i as [|i]; [assert (n = 0%nat) by lia; subst; reflexivity|].
  destruct n as [|n]; [reflexivity|]. cbn [zset firstn]. rewrite IH by lia. reflexivity.
Qed.

Lemma nth_error_firstn' {A} (l : list A) n i : (i < n)%nat -> nth_error (firstn n l) i = nth_error l i.
Proof.
  revert n i. induction l as [|x l IH]; intros n i H; [destruct n, i; reflexivity|].
  destruct n as [|n]; [lia|]. destruct i as [|i]; [reflexivity|]. cbn. apply IH. lia.
Qed.

Lemma znth_firstn {A} (l l' : list A) n i :
  firstn n l' = firstn n l -> 0 <= i -> (Z.to_nat i < n)%nat -> znth l' i = znth l i.
Proof.
  intros H Hi Hn. unfold znth. destruct (Z.ltb_spec i 0); [lia|].
  rewrite <- (nth_error_firstn' l' n) by exact Hn. rewrite <- (nth_error_firstn' l n) by exact Hn.
  rewrite H. reflexivity.
Qed.

Lemma vPush_St v mid m x :
  0 <= m_sp m <= zlen (m_stack m) ->
  exists m', vPush (St v mid m) mid x = Good (St v mid m') /\ msame (m_sp m) m m' /\
             m_sp m' = m_sp m + 1 /\ znth (m_stack m') (m_sp m) = Some x.
Proof.
  intros Hsp. unfold vPush. rewrite St_get. cbn [obind]. unfold mPush.
  destruct (growStack m 1) as [m1 g1] eqn:G.
  pose proof (growStack_only_grows m 1) as (Esp & Efp & Ecl & Elen & Efst). rewrite G in Esp, Efp, Ecl, Elen, Efst.
  cbn [fst] in *.
  pose proof (growStack_room m 1 Hsp ltac:(lia)) as Hroom. rewrite G in Hroom. cbn [fst] in Hroom.
  assert (Eser : m_serials m1 = m_serials m /\ m_cap m1 = m_cap m).
  { unfold growStack in G. destruct (m_sp m + 1 >=? zlen (m_stack m)); inversion G; split; reflexivity. }
  destruct Eser as [Eser Ecap].
  unfold stack_set.
  assert (B : (m_sp m1 <? 0) || (m_sp m1 >=? zlen (m_stack m1)) = false).
  { apply orb_false_iff. split; [apply Z.ltb_ge; lia|]. rewrite Z.geb_leb. apply Z.leb_gt. lia. }
  rewrite B. cbn [obind with_stack m_stack m_sp].
  eexists. split; [rewrite St_St; reflexivity|].
  unfold msame, with_stack; cbn [m_fp m_clos m_serials m_cap m_stack m_sp].
  unfold zlen in *. rewrite Esp.
  split; [|split].
  - split; [assumption|]. split; [assumption|]. split; [assumption|]. split; [rewrite Ecap; apply incl_refl|].
    split; [|split].
    + rewrite firstn_zset by lia.
      rewrite <- Efst. rewrite firstn_firstn. f_equal. lia.
    + lia.
    + rewrite zset_length. lia.
  - reflexivity.
  - unfold znth. destruct (Z.ltb_spec (m_sp m) 0); [lia|].
    apply zset_nth_same. lia.
Qed.

Definition mdrop (m : mem) : mem := with_stack m (m_stack m) (m_sp m - 1).

Lemma vPop_St v mid m x :
  znth (m_stack m) (m_sp m - 1) = Some x ->
  vPop (St v mid m) mid = Good (St v mid (mdrop m), x).
Proof.
  intros H. unfold vPop. rewrite St_get. cbn [obind]. unfold mPop, stack_get. rewrite H. cbn [req obind].
  rewrite St_St. reflexivity.
Qed.

Lemma mdrop_msame b m0 m : msame b m0 m -> b <= m_sp m - 1 -> msame b m0 (mdrop m).
Proof.
  intros (F & C & S & P & T & B) Hb. unfold msame, mdrop, with_stack; cbn [m_fp m_clos m_serials m_cap m_stack m_sp].
  split; [assumption|]. split; [assumption|]. split; [assumption|]. split; [assumption|]. split; [assumption|lia].
Qed.

(* ---- operand fetching ---- *)
Lemma cur_mid_St v mid m r : cur_mid (St v mid m) r = cur_mid v r.
Proof. reflexivity. Qed.

Lemma fetch_stck v mid m a x :
  znth (m_stack m) (m_sp m - 1) = Some x ->
  fetch (St v mid m) mid AddrStck a = Good (St v mid (mdrop m), x).
Proof. intros H. unfold fetch. cbn [AddrStck Z.eqb Pos.eqb]. apply vPop_St. exact H. Qed.

Lemma fetch_ds v mid m a x :
  znth (v_ds v) a = Some x -> fetch (St v mid m) mid AddrDS a = Good (St v mid m, x).
Proof.
  intros H. unfold fetch. change (AddrDS =? AddrStck) with false. change (AddrDS =? AddrDS) with true.
  cbv iota. change (v_ds (St v mid m)) with (v_ds v). rewrite H. reflexivity.
Qed.

Lemma fetch_gbl v mid m a g :
  znth (v_ds v) a = Some (VStr g) ->
  fetch (St v mid m) mid AddrGbl a = Good (St v mid m, gval (v_globals v) g).
Proof.
  intros H. unfold fetch.
  change (AddrGbl =? AddrStck) with false. change (AddrGbl =? AddrDS) with false.
  change (AddrGbl =? AddrCls) with false. change (AddrGbl =? AddrLcl) with false.
  change (AddrGbl =? AddrGbl) with true. cbv iota.
  change (v_ds (St v mid m)) with (v_ds v). rewrite H. reflexivity.
Qed.

(* ---- single instructions ---- *)
Definition at_ip (v : vm) (r : regs) (mid : Z) (instr : Z) : Prop :=
  znth (v_cs v) (r_ip r) = Some instr /\ cur_mid v r = Good mid.

Lemma is_binop_cases c : is_binop c = true ->
  In c [ADD; SUB; MUL; DIV; MOD; AND; OR; LT; GT; LE; GE; EQ; NE; LSH; RSH].
Proof.
  unfold is_binop. intros H.
  apply andb_prop in H. destruct H as [H H4]. apply andb_prop in H. destruct H as [H H3].
  apply andb_prop in H. destruct H as [H1 H2].
  apply Z.leb_le in H1. apply Z.leb_le in H2. apply negb_true_iff in H3. apply negb_true_iff in H4.
  apply Z.eqb_neq in H3. apply Z.eqb_neq in H4.
  unfold ADD, RSH, INC, NOT in *.
  assert (C : c = 4 \/ c = 5 \/ c = 6 \/ c = 7 \/ c = 8 \/ c = 11 \/ c = 12 \/ c = 13 \/ c = 14 \/ c = 15 \/
              c = 16 \/ c = 17 \/ c = 18 \/ c = 19 \/ c = 20) by lia.
  cbn [In]. unfold ADD, SUB, MUL, DIV, MOD, AND, OR, LT, GT, LE, GE, EQ, NE, LSH, RSH. intuition.
Qed.

Lemma step_binop v mid m r rr instr op k0 a0 k1 a1 k2 a2 :
  at_ip v r mid instr -> is_binop op = true ->
  decode instr = {| f_op := op; f_k0 := k0; f_k1 := k1; f_k2 := k2; f_a0 := a0; f_a1 := a1; f_a2 := a2 |} ->
  step (St v mid m) r rr =
  lift (p0 <~ fetch (St v mid m) mid k0 a0 ;; let (v0, x0) := p0 in
        p1 <~ fetch v0 mid k1 a1 ;; let (v1, x1) := p1 in
        match apply_binop op x1 x0 with
        | Fail e => Good (SErr v1 (r_ctx r) (r_ip r) e [x1; x0])
        | Ok y => v2 <~ vPush v1 mid y ;; Good (next v2 r)
        end).
Proof.
  intros [Hi Hc] Hb Hd. unfold decode in Hd. injection Hd as Eop E0 E1 E2 Ea0 Ea1 Ea2.
  unfold step. change (v_cs (St v mid m)) with (v_cs v). rewrite Hi. cbn [req obind].
  rewrite cur_mid_St, Hc. cbn [obind]. rewrite Eop, E0, E1, Ea0, Ea1, Hb. reflexivity.
Qed.

Lemma step_binop_tmp v mid m r rr instr c k0 a0 k1 a1 k2 a2 :
  at_ip v r mid instr -> is_binop c = true ->
  decode instr = {| f_op := c + TempFlag; f_k0 := k0; f_k1 := k1; f_k2 := k2; f_a0 := a0; f_a1 := a1; f_a2 := a2 |} ->
  step (St v mid m) r rr =
  lift (p0 <~ fetch (St v mid m) mid k0 a0 ;; let (v0, x0) := p0 in
        match apply_binop c (r_tmp r) x0 with
        | Fail e => Good (SErr v0 (r_ctx r) (r_ip r) e [r_tmp r; x0])
        | Ok y => Good (next v0 (with_tmp r y))
        end).
Proof.
  intros [Hi Hc] Hb Hd. unfold decode in Hd. injection Hd as Eop E0 E1 E2 Ea0 Ea1 Ea2.
  unfold step. change (v_cs (St v mid m)) with (v_cs v). rewrite Hi. cbn [req obind].
  rewrite cur_mid_St, Hc. cbn [obind]. rewrite Eop, E0, Ea0.
  replace (c + TempFlag - TempFlag) with c by lia.
  pose proof (is_binop_cases c Hb) as Hin. cbn [In] in Hin.
  repeat (destruct Hin as [<-|Hin]; [reflexivity|]). destruct Hin.
Qed.

Lemma step_mov_tmp v mid m r rr instr k0 a0 k2 a1 a2 v0 x0 :
  at_ip v r mid instr ->
  decode instr = {| f_op := MOV; f_k0 := k0; f_k1 := AddrTmp; f_k2 := k2; f_a0 := a0; f_a1 := a1; f_a2 := a2 |} ->
  (k0 =? AddrTmp) = false ->
  fetch (St v mid m) mid k0 a0 = Good (v0, x0) ->
  step (St v mid m) r rr = SNext v0 (with_tmp r x0).
Proof.
  intros [Hi Hc] Hd Hk Hf. unfold decode in Hd. injection Hd as Eop E0 E1 E2 Ea0 Ea1 Ea2.
  unfold step. change (v_cs (St v mid m)) with (v_cs v). rewrite Hi. cbn [req obind].
  rewrite cur_mid_St, Hc. cbn [obind]. rewrite Eop, E0, E1, Ea0.
  change (is_binop MOV) with false. cbv iota.
  change ((MOV >=? TempFlag) && is_binop (MOV - TempFlag)) with false. cbv iota.
  change (MOV =? INC) with false. cbv iota.
  change ((MOV =? NOT) || (MOV =? FLIP) || (MOV =? LEN)) with false. cbv iota.
  change ((MOV =? NOT + TempFlag) || (MOV =? FLIP + TempFlag) || (MOV =? LEN + TempFlag)) with false. cbv iota.
  change (MOV =? IX1) with false. change (MOV =? IX2) with false. change (MOV =? JMP) with false.
  change ((MOV =? JMPF) || (MOV =? JMPT)) with false. change (MOV =? PUSH) with false.
  change (MOV =? PUSHTMP) with false. change (MOV =? POP) with false. change (MOV =? MOV) with true.
  cbv iota. rewrite Hk, Hf. cbn [obind].
  change (AddrTmp =? AddrTmp) with true. cbn [negb]. rewrite andb_false_r.
  change (AddrTmp =? AddrLcl) with false. change (AddrTmp =? AddrGbl) with false. reflexivity.
Qed.

Lemma step_pushtmp v mid m r rr instr k0 k1 k2 a0 a1 a2 :
  at_ip v r mid instr ->
  decode instr = {| f_op := PUSHTMP; f_k0 := k0; f_k1 := k1; f_k2 := k2; f_a0 := a0; f_a1 := a1; f_a2 := a2 |} ->
  step (St v mid m) r rr = lift (v1 <~ vPush (St v mid m) mid (r_tmp r) ;; Good (next v1 r)).
Proof.
  intros [Hi Hc] Hd. unfold decode in Hd. injection Hd as Eop E0 E1 E2 Ea0 Ea1 Ea2.
  unfold step. change (v_cs (St v mid m)) with (v_cs v). rewrite Hi. cbn [req obind].
  rewrite cur_mid_St, Hc. cbn [obind]. rewrite Eop. reflexivity.
Qed.

Lemma step_push v mid m r rr instr k0 k1 k2 a0 a1 a2 :
  at_ip v r mid instr ->
  decode instr = {| f_op := PUSH; f_k0 := k0; f_k1 := k1; f_k2 := k2; f_a0 := a0; f_a1 := a1; f_a2 := a2 |} ->
  step (St v mid m) r rr =
  lift (p0 <~ fetch (St v mid m) mid k0 a0 ;; let (v0, x0) := p0 in v1 <~ vPush v0 mid x0 ;; Good (next v1 r)).
Proof.
  intros [Hi Hc] Hd. unfold decode in Hd. injection Hd as Eop E0 E1 E2 Ea0 Ea1 Ea2.
  unfold step. change (v_cs (St v mid m)) with (v_cs v). rewrite Hi. cbn [req obind].
  rewrite cur_mid_St, Hc. cbn [obind]. rewrite Eop, E0, Ea0. reflexivity.
Qed.

Definition is_unop (c : Z) : bool := (c =? NOT) || (c =? FLIP) || (c =? LEN).

Lemma step_unop v mid m r rr instr c k0 k1 k2 a0 a1 a2 :
  at_ip v r mid instr -> is_unop c = true ->
  decode instr = {| f_op := c; f_k0 := k0; f_k1 := k1; f_k2 := k2; f_a0 := a0; f_a1 := a1; f_a2 := a2 |} ->
  step (St v mid m) r rr =
  lift (p0 <~ fetch (St v mid m) mid k0 a0 ;; let (v0, x0) := p0 in
        match unop_of c x0 with
        | Fail e => Good (SErr v0 (r_ctx r) (r_ip r) e [x0])
        | Ok y => v1 <~ vPush v0 mid y ;; Good (next v1 r)
        end).
Proof.
  intros [Hi Hc] Hu Hd. unfold decode in Hd. injection Hd as Eop E0 E1 E2 Ea0 Ea1 Ea2.
  unfold step. change (v_cs (St v mid m)) with (v_cs v). rewrite Hi. cbn [req obind].
  rewrite cur_mid_St, Hc. cbn [obind]. rewrite Eop, E0, Ea0.
  unfold is_unop in Hu.
  destruct (Z.eqb_spec c NOT) as [->|]; [reflexivity|].
  destruct (Z.eqb_spec c FLIP) as [->|]; [reflexivity|].
  destruct (Z.eqb_spec c LEN) as [->|]; [reflexivity|]. discriminate.
Qed.

Lemma step_unop_tmp v mid m r rr instr c k0 k1 k2 a0 a1 a2 :
  at_ip v r mid instr -> is_unop c = true ->
  decode instr = {| f_op := c + TempFlag; f_k0 := k0; f_k1 := k1; f_k2 := k2; f_a0 := a0; f_a1 := a1; f_a2 := a2 |} ->
  step (St v mid m) r rr =
  match unop_of c (r_tmp r) with
  | Fail e => SErr (St v mid m) (r_ctx r) (r_ip r) e [r_tmp r]
  | Ok y => SNext (St v mid m) (with_tmp r y)
  end.
Proof.
  intros [Hi Hc] Hu Hd. unfold decode in Hd. injection Hd as Eop E0 E1 E2 Ea0 Ea1 Ea2.
  unfold step. change (v_cs (St v mid m)) with (v_cs v). rewrite Hi. cbn [req obind].
  rewrite cur_mid_St, Hc. cbn [obind]. rewrite Eop.
  replace (c + TempFlag - TempFlag) with c by lia.
  unfold is_unop in Hu.
  destruct (Z.eqb_spec c NOT) as [->|]; [destruct (unop_of NOT (r_tmp r)); reflexivity|].
  destruct (Z.eqb_spec c FLIP) as [->|]; [destruct (unop_of FLIP (r_tmp r)); reflexivity|].
  destruct (Z.eqb_spec c LEN) as [->|]; [destruct (unop_of LEN (r_tmp r)); reflexivity|]. discriminate.
Qed.

(* ---- the instruction words the compiler builds ---- *)
Lemma enc_zero1 : EncodeSrc 1 0 0 = Some 0. Proof. reflexivity. Qed.
Lemma enc_zero2 : EncodeSrc 2 0 0 = Some 0. Proof. reflexivity. Qed.
Lemma enc_zero0 : EncodeSrc 0 0 0 = Some 0. Proof. reflexivity. Qed.

Lemma decode_op01 op k0 a0 k1 a1 w0 w1 :
  0 <= op < 128 -> 0 <= k0 < 8 -> 0 <= k1 < 8 ->
  EncodeSrc 0 k0 a0 = Some w0 -> EncodeSrc 1 k1 a1 = Some w1 ->
  decode (Z.lor (Z.lor (New op) w1) w0) =
  {| f_op := op; f_k0 := k0; f_k1 := k1; f_k2 := 0; f_a0 := a0; f_a1 := a1; f_a2 := 0 |}.
Proof.
  intros Hop H0 H1 E0 E1.
  pose proof (instr_roundtrip op k0 a0 k1 a1 0 0 w0 w1 0 Hop H0 H1 ltac:(lia) E0 E1 enc_zero2) as [_ D].
  cbv zeta in D. rewrite Z.lor_0_r in D. rewrite <- D. f_equal.
  rewrite <- !Z.lor_assoc. f_equal. apply Z.lor_comm.
Qed.

Lemma decode_op0 op k0 a0 w0 :
  0 <= op < 128 -> 0 <= k0 < 8 -> EncodeSrc 0 k0 a0 = Some w0 ->
  decode (Z.lor (New op) w0) =
  {| f_op := op; f_k0 := k0; f_k1 := 0; f_k2 := 0; f_a0 := a0; f_a1 := 0; f_a2 := 0 |}.
Proof.
  intros Hop H0 E0.
  pose proof (decode_op01 op k0 a0 0 0 w0 0 Hop H0 ltac:(lia) E0 enc_zero1) as D.
  rewrite Z.lor_0_r in D. exact D.
Qed.

Lemma decode_op op :
  0 <= op < 128 ->
  decode (New op) = {| f_op := op; f_k0 := 0; f_k1 := 0; f_k2 := 0; f_a0 := 0; f_a1 := 0; f_a2 := 0 |}.
Proof. intros H. exact (proj2 (opcode_roundtrip op H)). Qed.

Lemma lor_tempflag c : 0 <= c < 64 -> Z.lor c TempFlag = c + TempFlag.
Proof.
  intros H.
  assert (F : forallb (fun n => Z.lor (Z.of_nat n) TempFlag =? Z.of_nat n + TempFlag) (seq 0 64) = true)
    by (vm_compute; reflexivity).
  rewrite forallb_forall in F. specialize (F (Z.to_nat c)).
  rewrite Z2Nat.id in F by lia. apply Z.eqb_eq. apply F. apply in_seq. lia.
Qed.

Lemma is_binop_range c : is_binop c = true -> 0 <= c < 64.
Proof.
  intros H. pose proof (is_binop_cases c H) as Hin. cbn [In] in Hin.
  unfold ADD, SUB, MUL, DIV, MOD, AND, OR, LT, GT, LE, GE, EQ, NE, LSH, RSH in Hin. lia.
Qed.

Lemma is_unop_range c : is_unop c = true -> 0 <= c < 64.
Proof.
  unfold is_unop. intros H.
  destruct (Z.eqb_spec c NOT) as [E|]; [rewrite E; unfold NOT; lia|].
  destruct (Z.eqb_spec c FLIP) as [E|]; [rewrite E; unfold FLIP; lia|].
  destruct (Z.eqb_spec c LEN) as [E|]; [rewrite E; unfold LEN; lia|]. discriminate.
Qed.

(* encoding keeps kind and address readable at the selector it was made for *)
Lemma enc_src0 k a w : 0 <= k < 8 -> EncodeSrc 0 k a = Some w -> Src0 w = k /\ Src0Addr w = a.
Proof.
  intros Hk E.
  assert (R : -32768 <= a < 32768) by (apply (proj1 (encode_accepts_iff 0 k a ltac:(lia))); eauto).
  destruct (src_roundtrip 0 k a ltac:(lia) Hk R) as [w' [E' [_ D]]].
  rewrite E in E'. injection E' as <-. unfold decode in D. injection D as _ D0 _ _ Da _ _.
  cbn in D0, Da. split; assumption.
Qed.

Lemma enc_src1 k a w : 0 <= k < 8 -> EncodeSrc 1 k a = Some w -> Src1 w = k /\ Src1Addr w = a.
Proof.
  intros Hk E.
  assert (R : -32768 <= a < 32768) by (apply (proj1 (encode_accepts_iff 1 k a ltac:(lia))); eauto).
  destruct (src_roundtrip 1 k a ltac:(lia) Hk R) as [w' [E' [_ D]]].
  rewrite E in E'. injection E' as <-. unfold decode in D. injection D as _ _ D1 _ _ Da _.
  cbn in D1, Da. split; assumption.
Qed.

(* ---- arrays: ARR, IX1, IX2 ---- *)
Lemma step_arr v mid m r rr instr k0 a0 k1 a1 k2 a2 :
  at_ip v r mid instr ->
  decode instr = {| f_op := ARR; f_k0 := k0; f_k1 := k1; f_k2 := k2; f_a0 := a0; f_a1 := a1; f_a2 := a2 |} ->
  step (St v mid m) r rr =
  lift (p0 <~ fetch (St v mid m) mid k0 a0 ;; let (v0, x0) := p0 in
        p1 <~ fetch v0 mid k1 a1 ;; let (v1, x1) := p1 in
        match x1 with
        | VArr l => v2 <~ vPush v1 mid (VArr (l ++ [x0])) ;; Good (next v2 r)
        | _ => Abort "cannot convert value to array"
        end).
Proof.
  intros [Hi Hc] Hd. unfold decode in Hd. injection Hd as Eop E0 E1 E2 Ea0 Ea1 Ea2.
  unfold step. change (v_cs (St v mid m)) with (v_cs v). rewrite Hi. cbn [req obind].
  rewrite cur_mid_St, Hc. cbn [obind]. rewrite Eop, E0, E1, Ea0, Ea1. reflexivity.
Qed.

Lemma step_ix1 v mid m r rr instr k0 a0 k1 a1 k2 a2 :
  at_ip v r mid instr ->
  decode instr = {| f_op := IX1; f_k0 := k0; f_k1 := k1; f_k2 := k2; f_a0 := a0; f_a1 := a1; f_a2 := a2 |} ->
  step (St v mid m) r rr =
  lift (p0 <~ fetch (St v mid m) mid k0 a0 ;; let (v0, x0) := p0 in
        p1 <~ fetch v0 mid k1 a1 ;; let (v1, x1) := p1 in
        match Index1 x1 x0 with
        | Fail e => Good (SErr v1 (r_ctx r) (r_ip r) e [x1; x0])
        | Ok y => v2 <~ vPush v1 mid y ;; Good (next v2 r)
        end).
Proof.
  intros [Hi Hc] Hd. unfold decode in Hd. injection Hd as Eop E0 E1 E2 Ea0 Ea1 Ea2.
  unfold step. change (v_cs (St v mid m)) with (v_cs v). rewrite Hi. cbn [req obind].
  rewrite cur_mid_St, Hc. cbn [obind]. rewrite Eop, E0, E1, Ea0, Ea1. reflexivity.
Qed.

Lemma step_ix2 v mid m r rr instr k0 a0 k1 a1 k2 a2 :
  at_ip v r mid instr ->
  decode instr = {| f_op := IX2; f_k0 := k0; f_k1 := k1; f_k2 := k2; f_a0 := a0; f_a1 := a1; f_a2 := a2 |} ->
  step (St v mid m) r rr =
  lift (p0 <~ fetch (St v mid m) mid k0 a0 ;; let (v0, x0) := p0 in
        p1 <~ fetch v0 mid k1 a1 ;; let (v1, x1) := p1 in
        p2 <~ fetch v1 mid k2 a2 ;; let (v2, x2) := p2 in
        match Index2 x2 x1 x0 with
        | Fail e => Good (SErr v2 (r_ctx r) (r_ip r) e [x2; x1; x0])
        | Ok y => v3 <~ vPush v2 mid y ;; Good (next v3 r)
        end).
Proof.
  intros [Hi Hc] Hd. unfold decode in Hd. injection Hd as Eop E0 E1 E2 Ea0 Ea1 Ea2.
  unfold step. change (v_cs (St v mid m)) with (v_cs v). rewrite Hi. cbn [req obind].
  rewrite cur_mid_St, Hc. cbn [obind]. rewrite Eop, E0, E1, E2, Ea0, Ea1, Ea2. reflexivity.
Qed.

Lemma decode_op012 op k0 a0 k1 a1 k2 a2 w0 w1 w2 :
  0 <= op < 128 -> 0 <= k0 < 8 -> 0 <= k1 < 8 -> 0 <= k2 < 8 ->
  EncodeSrc 0 k0 a0 = Some w0 -> EncodeSrc 1 k1 a1 = Some w1 -> EncodeSrc 2 k2 a2 = Some w2 ->
  decode (Z.lor (Z.lor (Z.lor (New op) w2) w1) w0) =
  {| f_op := op; f_k0 := k0; f_k1 := k1; f_k2 := k2; f_a0 := a0; f_a1 := a1; f_a2 := a2 |}.
Proof.
  intros Hop H0 H1 H2 E0 E1 E2.
  pose proof (instr_roundtrip op k0 a0 k1 a1 k2 a2 w0 w1 w2 Hop H0 H1 H2 E0 E1 E2) as [_ D].
  cbv zeta in D. rewrite <- D. f_equal.
  apply Z.bits_inj'. intros n Hn. rewrite !Z.lor_spec.
  destruct (Z.testbit (New op) n), (Z.testbit w0 n), (Z.testbit w1 n), (Z.testbit w2 n); reflexivity.
Qed.

Lemma enc_src2 k a w : 0 <= k < 8 -> EncodeSrc 2 k a = Some w -> Src2 w = k /\ Src2Addr w = a.
Proof.
  intros Hk E.
  assert (R : -32768 <= a < 32768) by (apply (proj1 (encode_accepts_iff 2 k a ltac:(lia))); eauto).
  destruct (src_roundtrip 2 k a ltac:(lia) Hk R) as [w' [E' [_ D]]].
  rewrite E in E'. injection E' as <-. unfold decode in D. injection D as _ _ _ D2 _ _ Da.
  cbn in D2, Da. split; assumption.
Qed.
