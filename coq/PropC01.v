(* PropC01.v — C01: compiled execution matches the definitional semantics.

   What is proved here: the definitional semantics obeys the documented
   language rules (strict left-to-right operators, the value of every
   statement form, boolean conditions, nil assignment, call errors), so the
   oracle the check compares the implementation with is the language
   description and not an arbitrary second implementation.

   What is stated and NOT proved: [C01_compile_correct_statement], the full
   property over the compiler and VM model.  The check decides it on each run
   by differential evidence (implementation vs Sem, implementation vs VM
   model); this is testing, labelled as such in MANIFEST and evidence.

   What is proved of it ([C01_pure_expressions_partial] and the theorems
   around it; ExprSem.v, ExprVM.v, ExprCorrect.v, ExprTop.v): for every PURE
   expression — int/float/bool/string literals, global variables, every binary
   operator, unary - # ! ~, array literals (constant prefix in the data
   segment, the other elements appended by ARR), indexing a[i] and slicing
   a[f:t], nested to any depth — the code the compiler model
   emits, in every context (any operand selector, any combination of the
   flags Discard/ForbidTemp/AcceptTemp/Returning/OpDepth/...), run by the VM
   model from any state, leaves exactly the value the definitional semantics
   computes where the returned operand says (stack, temp register, data
   segment, global), keeps the stack below it, keeps the temp register when
   the context forbids its use, and stops with the same error class when the
   expression has a runtime error.  Through ByteCode/load/Run and through
   run_tree (the functions the correspondence check runs against the Go
   code) the result equals Sem's, the operand stack is back where it was and
   globals and output are untouched.  Over histories (ExprAssign.v,
   ExprSession.v): in a session made of such expression statements and of
   assignments g = e of pure expressions to globals (the increment form
   g = g + 1 or g = 1 + g compiles to INC; FloatComm.v proves IEEE addition
   commutative from the library's specification axiom), of any length, failing statements included,
   every statement gives Sem's value or error class, binds exactly Sem's
   globals, writes nothing and leaves the machine ready — after a runtime
   error too ([C01_simple_sessions_partial]).  And the whole statement
   language over globals (StmtSem.v, StmtVM.v, StmtCorrect.v, StmtTop.v):
   blocks, if, if/else and while with pure conditions and such statements as
   bodies, nested without bound, compiled in value position and in discarded
   position (the two code-generation strategies of every construct, the
   negated-condition folding, forward and backward jumps with their
   back-patching, the "last value" slot of a value-position while): for
   every fuel for which the fuelled semantics [ssem] — which Sem.eval computes
   with the same fuel, [C01_sem_statement] — gives a statement a meaning, the
   compiled code run by the VM model ends with that value or error class and
   that world — global bindings, output written, input left —, in REPL mode
   and in file mode, statement after statement
   ([C01_statement_sessions_partial]).  Calls, as statements and as right
   sides of assignments, with pure arguments (CallVM.v: the CALL/RET
   protocol): of the built-ins write, toa, aton, read, and of user functions
   with any number of parameters whose body is a pure expression of the
   parameters and the globals (LExprSem.v, LExprCorrect.v: expressions with
   local variables, in every context, inside an activation); the wrong
   number of arguments is the arity error.  The premise that the functions'
   code lies where the table Bf says ([bcode]) is discharged by computation
   through sound checkers (StmtCheck.v) for the built-ins on the machine
   after builtin.Load, and PROVED for user functions from their definitions
   (StmtDef.v): running f = (ps) -> body at top level (JMP over the body,
   FUNC, the assignment) leaves a machine that meets it under the table with
   one more entry ([C01_definition_extends_the_table]), so sessions of
   definitions and statements in any order are covered
   ([C01_sessions_with_definitions_partial]).  The two sides bind function
   names to different representations; worlds that agree elsewhere give the
   same results ([C01_statement_sem_vs_vm]), and over whole sessions
   (StmtMixed.v) the two executable functions the check evaluates — sem_tree
   and run_tree — agree tree after tree on values, error classes, global
   data, output and input ([C01_sessions_sem_vs_vm_partial]), from the start
   states of a real session ([C01_sem_start_state_holds],
   [C01_vm_start_state_holds], [C01_start_worlds_related]).
   Missing for the full statement: functions whose bodies are statements,
   recursion, closures, definitions inside blocks or functions, calls nested
   in expressions, generators. *)
Require Calc.LExprCorrect.
Require Import Lia.
Require Import Calc.Base Calc.Bytecode Calc.Value Calc.FloatText Calc.Ast Calc.Resolve Calc.Compile
        Calc.VM Calc.Sem Calc.Session Calc.CorrSession Calc.SemSession Calc.SemProofs
        Calc.ExprSem Calc.ExprVM Calc.ExprCorrect Calc.ExprTop Calc.ExprAssign Calc.ExprLen Calc.ExprSession
        Calc.LExprSem Calc.StmtSem Calc.StmtRel Calc.StmtVM Calc.StmtCorrect Calc.StmtTop Calc.StmtCheck Calc.StmtFuel Calc.StmtDef Calc.StmtMixed Calc.StmtStart Calc.CorrFragment Calc.FragmentSound.
Open Scope Z_scope.

(* ---- the full statement (open) ---- *)
Definition tree_obs_equal (m : tree_result) (c : ctl) : Prop :=
  match m, c with
  | TValue x, CVal y | TValue x, CRet y => vsame x y = true
  | TError e _, CErr f => e = f
  | _, _ => False
  end.

(* one input on both machines: same result per tree and same output, provided
   the semantics gives the input a meaning (no Fuel) and the run stays clear
   of the two recorded findings K1/K2 (no staleness event) *)
Definition C01_compile_correct_statement : Prop :=
  forall (history : list node) (t : node) (mc : machine) (st : sstate),
    (* mc and st are what the two machines reach after the same history *)
    fold_left (fun acc x => fst (run_tree false acc x)) history
              (match machine_new with Some m => m | None => {| mc_cs := cstate0; mc_vm := vm_new |} end) = mc ->
    fold_left (fun acc x => fst (sem_tree acc x)) history sem_init = st ->
    let (mc', r) := run_tree false {| mc_cs := mc_cs mc; mc_vm := clear_out (mc_vm mc) |} t in
    let (st', c) := sem_tree (sem_clear_out st) t in
    c <> CFuel -> r <> TFuel ->
    v_dead_read (mc_vm mc') = false -> v_grew_captured (mc_vm mc') = false ->
    tree_obs_equal r c /\ out_text (mc_vm mc') = sem_out st'.

(* ---- proved: the statement on pure expressions, all depths and contexts ---- *)
Theorem C01_pure_expressions_partial : forall e s s' v c m fuel fs env st,
  pure e = true -> wfcs s -> idle v s c m ->
  ByteCode e s = CompOk s' -> (Z.to_nat (ncs s' - ncs s) < fuel)%nat ->
  s_globals st = v_globals v -> (height e <= fs)%nat ->
  exists ctl, eval fs e env st = Done st ctl /\ agrees ctl (snd (Run fuel (load_code v s') true)).
Proof. exact pure_expression_compiled_correctly. Qed.
Print Assumptions C01_pure_expressions_partial.

(* the value, and what must not change: stack pointer, cells below, globals, output *)
Theorem C01_pure_expression_run : forall e s s' v c m fuel,
  pure e = true -> wfcs s -> idle v s c m ->
  ByteCode e s = CompOk s' -> (Z.to_nat (ncs s' - ncs s) < fuel)%nat ->
  wfcs s' /\
  match den (v_globals v) e with
  | Ok x =>
      exists v' m', Run fuel (load_code v s') true = (v', RValue x) /\
        assoc_get (v_mems v') (c_mid c) = Some m' /\ m_sp m' = m_sp m /\ msame (m_sp m) m m' /\
        v_globals v' = v_globals v /\ v_out v' = v_out v /\
        (exists c', assoc_get (v_ctxs v') 0 = Some c' /\ c_ip c' = ncs s' /\ c_mid c' = c_mid c /\
                    c_children c' = c_children c)
  | Fail err => exists me rep, Run fuel (load_code v s') true
                               = (reset_after_error (St (load_code v s') (c_mid c) me), RError err rep)
  end.
Proof. exact bytecode_run_pure. Qed.
Print Assumptions C01_pure_expression_run.

(* one statement of a session, through the functions the check runs: the machine is ready for the next *)
Theorem C01_pure_expression_in_a_session : forall e mc c m s',
  pure e = true -> machine_idle mc c m ->
  ByteCode e (mc_cs mc) = CompOk s' -> ncs s' - ncs (mc_cs mc) < 400000 ->
  match den (v_globals (mc_vm mc)) e with
  | Ok x => exists mc' c' m', run_tree false mc e = (mc', TValue x) /\ machine_idle mc' c' m' /\
              m_sp m' = m_sp m /\ c_mid c' = c_mid c /\
              v_globals (mc_vm mc') = v_globals (mc_vm mc) /\ v_out (mc_vm mc') = v_out (mc_vm mc)
  | Fail err => exists mc' rep, run_tree false mc e = (mc', TError err rep)
  end.
Proof. exact run_tree_pure. Qed.
Print Assumptions C01_pure_expression_in_a_session.

(* the semantics of a pure expression is its denotation, whatever the environment *)
Theorem C01_sem_pure : forall e, pure e = true -> forall fuel env st, (height e <= fuel)%nat ->
  eval fuel e env st = Done st (ctl_of (den (s_globals st) e)).
Proof. exact eval_pure. Qed.
Print Assumptions C01_sem_pure.

(* the premises are met: the machine after the first statement of a session is idle *)
Definition mc_after_first : machine :=
  match machine_new with
  | Some mc0 => fst (run_tree false mc0 (NInt 0))
  | None => {| mc_cs := cstate0; mc_vm := vm_new |}
  end.

Example C01_pure_premises_hold :
  (exists c m, machine_idle mc_after_first c m) /\
  pure (NBin "-" (NBin "*" (NBin "+" (NInt 1) (NFloat 2)) (NBin "+" (NInt 1) (NFloat 2))) (NUn "-" (NUn "#" (NStr "abc")))) = true /\
  snd (run_tree false mc_after_first
         (NBin "-" (NBin "*" (NBin "+" (NInt 1) (NFloat 2)) (NBin "+" (NInt 1) (NFloat 2))) (NUn "-" (NUn "#" (NStr "abc")))))
  = TValue (VFloat 12).
Proof.
  split; [|split; [reflexivity|vm_compute; reflexivity]].
  assert (E : exists c m, assoc_get (v_ctxs (mc_vm mc_after_first)) 0 = Some c /\
                          assoc_get (v_mems (mc_vm mc_after_first)) (c_mid c) = Some m /\
                          c_ip c = ncs (mc_cs mc_after_first) /\
                          (0 <=? m_sp m) && (m_sp m <=? zlen (m_stack m)) = true /\
                          (ncs (mc_cs mc_after_first) =? zlen (rcs (mc_cs mc_after_first))) &&
                          (nds (mc_cs mc_after_first) =? zlen (rds (mc_cs mc_after_first))) = true).
  { vm_compute. eexists. eexists. repeat split; reflexivity. }
  destruct E as [c [m (E1 & E2 & E3 & E4 & E5)]]. exists c, m.
  apply andb_prop in E4. destruct E4 as [E4a E4b]. apply Z.leb_le in E4a. apply Z.leb_le in E4b.
  apply andb_prop in E5. destruct E5 as [E5a E5b]. apply Z.eqb_eq in E5a. apply Z.eqb_eq in E5b.
  split; [split; assumption|]. constructor; try assumption. split; assumption.
Qed.

(* ---- histories: sessions of expression statements and global assignments ---- *)
(* the definitional semantics of such a statement: value/error and the globals afterwards *)
Theorem C01_sem_simple : forall t, simple t = true -> forall fuel env st, (theight t <= fuel)%nat ->
  eval fuel t env st =
  Done (with_globals st (fst (sem_simple (s_globals st) t))) (ctl_of (snd (sem_simple (s_globals st) t))).
Proof. exact eval_simple. Qed.
Print Assumptions C01_sem_simple.

(* one statement on a ready machine: refused for size, or Sem's result, Sem's globals, no output, ready again *)
Theorem C01_simple_statement : forall t mc c m,
  ready mc c m -> simple t = true -> small t ->
  (snd (run_tree false mc t) = TRefused /\ ready (fst (run_tree false mc t)) c m /\
   mc_vm (fst (run_tree false mc t)) = mc_vm mc) \/
  (tree_agrees (snd (run_tree false mc t)) (snd (sem_simple (v_globals (mc_vm mc)) t)) /\
   v_globals (mc_vm (fst (run_tree false mc t))) = fst (sem_simple (v_globals (mc_vm mc)) t) /\
   v_out (mc_vm (fst (run_tree false mc t))) = v_out (mc_vm mc) /\
   exists c' m', ready (fst (run_tree false mc t)) c' m').
Proof. exact simple_step. Qed.
Print Assumptions C01_simple_statement.

(* every history *)
Theorem C01_simple_sessions_partial : forall ts mc c m,
  ready mc c m -> Forall (fun t => simple t = true /\ small t) ts ->
  agree_run mc (v_globals (mc_vm mc)) ts.
Proof. exact simple_session. Qed.
Print Assumptions C01_simple_sessions_partial.

(* a session by computation: the model runs it, the theorem covers it *)
Definition demo_session : list node :=
  [NAssign (NName "x") (NInt 5);
   NAssign (NName "x") (NBin "+" (NInt 1) (NName "x"));
   NBin "-" (NBin "*" (NName "x") (NName "x")) (NInt 1);
   NBin "+" (NName "nosuch") (NInt 1);
   NAssign (NName "y") (NBin "/" (NName "x") (NInt 0));
   NAssign (NName "s") (NBin "+" (NStr "a") (NStr "b"));
   NUn "#" (NName "s");
   NName "x";
   (* the two witnesses of the property text: a[i+1] + 1 and [1+2] + [3] *)
   NAssign (NName "a") (NList [NInt 5; NInt 6; NInt 7]);
   NAssign (NName "i") (NInt 0);
   NBin "+" (NIndexAt (NName "a") (NBin "+" (NName "i") (NInt 1))) (NInt 1);
   NBin "+" (NList [NBin "+" (NInt 1) (NInt 2)]) (NList [NInt 3]);
   NIndexFromTo (NName "a") (NInt 1) (NUn "#" (NName "a"));
   NList [NName "x"; NList [NName "s"; NInt 2]; NIndexAt (NName "s") (NInt 1)];
   NIndexAt (NName "a") (NInt 7)].

Fixpoint run_all (mc : machine) (ts : list node) : list tree_result :=
  match ts with
  | [] => []
  | t :: r => snd (run_tree false mc t) :: run_all (fst (run_tree false mc t)) r
  end.

Definition brief (r : tree_result) : option (res value) :=
  match r with TValue x => Some (Ok x) | TError e _ => Some (Fail e) | _ => None end.

Example C01_demo_session_is_covered :
  (exists c m, ready mc_after_first c m) /\
  Forall (fun t => simple t = true /\ small t) demo_session /\
  map brief (run_all mc_after_first demo_session) =
  [Some (Ok (VInt 5)); Some (Ok (VInt 6)); Some (Ok (VInt 35)); Some (Fail ErrNil); Some (Fail ErrZeroDiv);
   Some (Ok (VStr "ab")); Some (Ok (VInt 2)); Some (Ok (VInt 6));
   Some (Ok (VArr [VInt 5; VInt 6; VInt 7])); Some (Ok (VInt 0)); Some (Ok (VInt 7));
   Some (Ok (VArr [VInt 3; VInt 3])); Some (Ok (VArr [VInt 6; VInt 7]));
   Some (Ok (VArr [VInt 6; VArr [VStr "ab"; VInt 2]; VStr "b"])); Some (Fail ErrIndex)].
Proof.
  split; [|split].
  - destruct C01_pure_premises_hold as [[c [m H]] _].
    exists c, m. split; [exact H|].
    assert (E : match assoc_get (v_ctxs (mc_vm mc_after_first)) 0 with
                | Some c0 => (c_mid c0 =? 0) && match c_children c0 with [] => true | _ => false end
                | None => false end = true) by (vm_compute; reflexivity).
    destruct H as [_ I]. rewrite (id_ctx _ _ _ _ I) in E.
    apply andb_prop in E. destruct E as [E1 E2]. apply Z.eqb_eq in E1.
    split; [exact E1|]. destruct (c_children c); [reflexivity|discriminate].
  - unfold demo_session, small. repeat constructor; cbn; lia.
  - vm_compute. reflexivity.
Qed.

(* ---- the statement language over globals: blocks, if, if/else, while, and calls of the built-ins
        write(e), toa(e), aton(e) ---- *)
(* a statement acts on a world: the global bindings, the output written so far, the input still unread
   (and the allocation counter: a call takes one number).  Bf gives the function values the built-in
   names were bound to at the start; nm(e) has the built-in meaning while nm is still bound to Bf nm.
   Sem.eval computes the fuelled meaning of a statement: same fuel, same world, same value or error;
   sem_bf: the closure table of Sem holds the built-in bodies where Bf points *)
Theorem C01_sem_statement : forall Bf n t, wstmt t = true -> forall env st W' r,
  sem_bf Bf st ->
  ssem Bf n (wof_s st) t = Some (W', r) ->
  exists st', eval n t env st = Done st' (ctl_of r) /\ wof_s st' = W' /\ s_clos st' = s_clos st.
Proof. exact eval_stmt. Qed.
Print Assumptions C01_sem_statement.

(* in every position (value / discarded) the emitted code has that meaning *)
Theorem C01_statement_compiled : forall Bf t, wstmt t = true ->
  forall d sel s w s', sel = 0 -> wfcs s -> Compile.comp t sel (tfl d) s = COk (w, s') -> SpecS Bf t d sel s s' w.
Proof. exact comp_stmt. Qed.
Print Assumptions C01_statement_compiled.

(* value mode (REPL): ByteCode, load, Run.  bcode: the code of the built-ins lies where Bf points *)
Theorem C01_statement_run : forall Bf t s s' v c m n G' res,
  wstmt t = true -> wfcs s -> idle v s c m -> bcode Bf (load_code v s) ->
  ByteCode t s = CompOk s' ->
  ssem Bf n (wof v) t = Some (G', res) ->
  wfcs s' /\ (exists code, lay s s' code) /\
  exists k, forall fuel,
    ((fuel <= k)%nat -> snd (Run fuel (load_code v s') true) = RFuel \/
                        match res with
                        | Ok _ => False
                        | Fail err => exists me rep, Run fuel (load_code v s') true
                                        = (reset_after_error (SG (load_code v s') G' (c_mid c) me), RError err rep)
                        end) /\
    ((k < fuel)%nat ->
     match res with
     | Ok x => ran_to_value_w v c m s' G' x (Run fuel (load_code v s') true)
     | Fail err => exists me rep, Run fuel (load_code v s') true
                                  = (reset_after_error (SG (load_code v s') G' (c_mid c) me), RError err rep)
     end).
Proof. exact bytecode_run_stmt. Qed.
Print Assumptions C01_statement_run.

(* file mode: ByteCodeNoStck, Run(false): same world (globals, output, input), nothing left on the stack *)
Theorem C01_statement_run_file_mode : forall Bf t s s' v c m n G' res,
  wstmt t = true -> wfcs s -> idle v s c m -> bcode Bf (load_code v s) ->
  ByteCodeNoStck t s = CompOk s' ->
  ssem Bf n (wof v) t = Some (G', res) ->
  wfcs s' /\
  exists k, forall fuel, (k < fuel)%nat ->
    match res with
    | Ok _ => ran_to_end v c m s' G' (Run fuel (load_code v s') false)
    | Fail err => exists me rep, Run fuel (load_code v s') false
                                 = (reset_after_error (SG (load_code v s') G' (c_mid c) me), RError err rep)
    end.
Proof. exact bytecode_nostck_run_stmt. Qed.
Print Assumptions C01_statement_run_file_mode.

(* every history of such statements *)
Theorem C01_statement_sessions_partial : forall Bf ts mc c m,
  bready Bf mc c m -> Forall (fun t => wstmt t = true /\ CompileWf.wfb t = true) ts ->
  sess Bf mc (wof (mc_vm mc)) ts.
Proof. exact stmt_session. Qed.
Print Assumptions C01_statement_sessions_partial.

(* a session with loops and branches, by computation: covered by the theorem, and it computes *)
Definition demo_statements : list node :=
  [NAssign (NName "i") (NInt 0);
   NAssign (NName "t") (NInt 0);
   NWhile (NBin "<" (NName "i") (NInt 5))
          (NBlock [NAssign (NName "t") (NBin "+" (NName "t") (NName "i"));
                   NAssign (NName "i") (NBin "+" (NName "i") (NInt 1))]);
   NName "t";
   NIfElse (NUn "!" (NBin ">" (NName "t") (NInt 5))) (NStr "small") (NStr "big");
   NIf (NBin "==" (NName "t") (NInt 0)) (NInt 1);
   NBlock [NWhile (NBin ">" (NName "i") (NInt 0)) (NAssign (NName "i") (NBin "-" (NName "i") (NInt 2)));
           NIf (NBin "<" (NName "i") (NInt 0)) (NAssign (NName "neg") (NBool true));
           NList [NName "i"; NName "neg"]];
   NIf (NInt 1) (NInt 5);
   NWhile (NName "nosuch") (NInt 1)].

Example C01_demo_statements_are_covered :
  Forall (fun t => wstmt t = true /\ CompileWf.wfb t = true) demo_statements /\
  map brief (run_all mc_after_first demo_statements) =
  [Some (Ok (VInt 0)); Some (Ok (VInt 0)); Some (Ok (VInt 5)); Some (Ok (VInt 10));
   Some (Ok (VStr "big")); Some (Ok VNil); Some (Ok (VArr [VInt (-1); VBool true]));
   Some (Fail ErrType); Some (Fail ErrNil)].
Proof.
  split; [|vm_compute; reflexivity].
  unfold demo_statements. repeat constructor.
Qed.

(* output: a loop that writes; the compiled run leaves exactly the lines the semantics writes, in order
   (the model keeps the newest chunk first) *)
Fixpoint end_of (mc : machine) (ts : list node) : machine :=
  match ts with
  | [] => mc
  | t :: r => end_of (fst (run_tree false mc t)) r
  end.

Definition demo_output : list node :=
  [NAssign (NName "i") (NInt 0);
   NWhile (NBin "<" (NName "i") (NInt 3))
          (NBlock [NWrite (NBin "*" (NName "i") (NName "i"));
                   NAssign (NName "i") (NBin "+" (NName "i") (NInt 1))]);
   NWrite (NList [NName "i"; NStr "done"]);
   NBlock [NWrite (NStr "before"); NWrite (NBin "/" (NInt 1) (NInt 0)); NWrite (NStr "never")]].

Example C01_demo_output_is_covered :
  Forall (fun t => wstmt t = true /\ CompileWf.wfb t = true) demo_output /\
  map brief (run_all mc_after_first demo_output) =
  [Some (Ok (VInt 0)); Some (Ok (VInt 3)); Some (Ok VNil); Some (Fail ErrZeroDiv)] /\
  firstn 5 (v_out (mc_vm (end_of mc_after_first demo_output))) =
  ["before"; "[3, done]"; "4"; "1"; "0"]%string.
Proof.
  split; [unfold demo_output; repeat constructor|]. split; vm_compute; reflexivity.
Qed.

(* ---- the two sides, put together ---- *)
(* The definitional semantics binds a built-in name to an index into its closure table, the VM to an
   entry point and a frame: the two worlds cannot be equal there.  For statements that use the built-in
   names only to call them (nobs), worlds that agree everywhere else give the same value or error and
   stay in agreement: same global data, same output (the same lines added to whatever the two sides had
   written before, o1 and o2; [] [] : the same output altogether), same input left. *)
Theorem C01_statement_worlds_related : forall Bf1 Bf2,
  (forall nm, ft_body Bf1 nm = ft_body Bf2 nm) -> (forall nm, ft_arity Bf1 nm = ft_arity Bf2 nm) ->
  (forall nm body, ft_body Bf1 nm = Some body -> nobe Bf1 body = true) ->
  forall o1 o2 n t W1 W2 W1' r,
  wstmt t = true -> nobs Bf1 t = true -> wrel Bf1 Bf2 o1 o2 W1 W2 ->
  ssem Bf1 n W1 t = Some (W1', r) ->
  exists W2', ssem Bf2 n W2 t = Some (W2', r) /\ wrel Bf1 Bf2 o1 o2 W1' W2'.
Proof. exact ssem_related. Qed.
Print Assumptions C01_statement_worlds_related.

(* Sem.eval on its state and the compiled code on the VM, from related worlds: whenever the semantics
   gives the statement a meaning with fuel n, Sem.eval returns it, and — with enough steps — Run returns
   the same value or error class and leaves a related world *)
Theorem C01_statement_sem_vs_vm : forall Bf1 Bf2 t s s' v c m n env st W1' res,
  (forall nm, ft_body Bf1 nm = ft_body Bf2 nm) -> (forall nm, ft_arity Bf1 nm = ft_arity Bf2 nm) ->
  (forall nm body, ft_body Bf1 nm = Some body -> nobe Bf1 body = true) ->
  wstmt t = true -> nobs Bf1 t = true -> wfcs s -> idle v s c m ->
  sem_bf Bf1 st -> bcode Bf2 (load_code v s) -> wrel Bf1 Bf2 [] [] (wof_s st) (wof v) ->
  ByteCode t s = CompOk s' ->
  ssem Bf1 n (wof_s st) t = Some (W1', res) ->
  (exists st', eval n t env st = Done st' (ctl_of res) /\ wof_s st' = W1') /\
  exists k, forall fuel, (k < fuel)%nat ->
    agrees (ctl_of res) (snd (Run fuel (load_code v s') true)) /\
    match res with
    | Ok _ => wrel Bf1 Bf2 [] [] W1' (wof (fst (Run fuel (load_code v s') true)))
    | Fail _ => True
    end.
Proof.
  intros Bf1 Bf2 t s s' v c m n env st W1' res Hbody Harity Hnob Hw Hn Hwf Hid Hsb Hbc HR HB HM. split.
  - destruct (eval_stmt Bf1 n t Hw env st W1' res Hsb HM) as (st' & E & HW & _). eauto.
  - destruct (ssem_related Bf1 Bf2 Hbody Harity Hnob [] [] n t _ _ W1' res Hw Hn HR HM) as (W2' & HM2 & HR').
    destruct (bytecode_run_stmt Bf2 t s s' v c m n W2' res Hw Hwf Hid Hbc HB HM2) as [_ [_ [k R]]].
    exists k. intros fuel Hf. specialize (R fuel). destruct R as [_ R]. specialize (R Hf). destruct res as [x|err].
    + destruct R as [v' [m' [R [_ [_ [_ [Hg' _]]]]]]]. rewrite R. split; [reflexivity|]. cbn [fst]. rewrite Hg'. exact HR'.
    + destruct R as [me [rep R]]. rewrite R. split; [reflexivity|exact I].
Qed.
Print Assumptions C01_statement_sem_vs_vm.

(* ---- user-level calls of the built-ins: write(e), toa(e), aton(e) ---- *)
(* the machine of a session has the built-ins loaded: its own bindings of the built-in names are a Bf
   for which the premises of the session theorem hold *)
Definition vm_bf : ftab :=
  {| ft_val := fun nm => gval (v_globals (mc_vm mc_after_first)) nm; ft_body := fun _ => None; ft_arity := fun _ => 0 |}.

Example C01_builtin_premises_hold : exists c m, bready vm_bf mc_after_first c m.
Proof.
  destruct C01_demo_session_is_covered as [[c [m Hr]] _]. exists c, m. split; [exact Hr|].
  apply bcode_b_sound; [vm_compute; reflexivity|]. intros nm body mo fid _ Hb. discriminate Hb.
Qed.

(* the same machine with two lines of input waiting *)
Definition mc_with_input : machine :=
  {| mc_cs := mc_cs mc_after_first; mc_vm := set_in (mc_vm mc_after_first) ["12"; "x y"]%string |}.

Example C01_builtin_premises_hold_with_input : exists c m, bready vm_bf mc_with_input c m.
Proof.
  destruct C01_builtin_premises_hold as [c [m H]]. exists c, m.
  exact (bready_set_in vm_bf mc_after_first c m _ H).
Qed.

Definition demo_calls : list node :=
  [NAssign (NName "i") (NInt 0);
   NWhile (NBin "<" (NName "i") (NInt 3))
          (NBlock [NCall (NName "write") [NBin "*" (NName "i") (NName "i")];
                   NAssign (NName "i") (NBin "+" (NName "i") (NInt 1))]);
   NCall (NName "toa") [NList [NName "i"; NFloat 2.5]];
   NCall (NName "aton") [NStr "42"];
   NCall (NName "aton") [NStr "4e1"];
   NCall (NName "aton") [NStr "x"];
   NCall (NName "aton") [NInt 1];
   NBlock [NCall (NName "write") [NStr "before"]; NCall (NName "write") [NBin "/" (NInt 1) (NInt 0)];
           NCall (NName "write") [NStr "never"]];
   NIfElse (NBin "==" (NName "i") (NInt 3)) (NCall (NName "write") [NStr "three"]) (NCall (NName "toa") [NInt 0])].

Definition demo_io : list node :=
  [NAssign (NName "a") (NCall (NName "read") []);
   NAssign (NName "n") (NCall (NName "aton") [NName "a"]);
   NAssign (NName "s") (NCall (NName "toa") [NBin "*" (NName "n") (NInt 2)]);
   NCall (NName "write") [NBin "+" (NName "s") (NStr "!")];
   NCall (NName "read") [];
   NAssign (NName "w") (NCall (NName "write") [NInt 1]);
   NAssign (NName "b") (NCall (NName "read") []);
   NList [NName "a"; NName "n"; NName "s"; NName "w"; NName "b"]].

Example C01_demo_io_is_covered :
  Forall (fun t => wstmt t = true /\ CompileWf.wfb t = true /\ nobs vm_bf t = true) demo_io /\
  map brief (run_all mc_with_input demo_io) =
  [Some (Ok (VStr "12")); Some (Ok (VInt 12)); Some (Ok (VStr "24")); Some (Ok VNil); Some (Ok (VStr "x y"));
   Some (Fail ErrNil); Some (Fail ErrRead); Some (Ok (VArr [VStr "12"; VInt 12; VStr "24"; VNil; VNil]))] /\
  firstn 2 (v_out (mc_vm (end_of mc_with_input demo_io))) = ["1"; "24!"]%string /\
  v_in (mc_vm (end_of mc_with_input demo_io)) = [].
Proof.
  split; [unfold demo_io; repeat constructor|]. split; [vm_compute; reflexivity|]. split; vm_compute; reflexivity.
Qed.

Example C01_demo_calls_are_covered :
  Forall (fun t => wstmt t = true /\ CompileWf.wfb t = true) demo_calls /\
  map brief (run_all mc_after_first demo_calls) =
  [Some (Ok (VInt 0)); Some (Ok (VInt 3)); Some (Ok (VStr "[3, 2.5]")); Some (Ok (VInt 42)); Some (Ok (VFloat 40));
   Some (Fail ErrConversion); Some (Fail ErrType); Some (Fail ErrZeroDiv); Some (Ok VNil)] /\
  firstn 5 (v_out (mc_vm (end_of mc_after_first demo_calls))) =
  ["three"; "before"; "4"; "1"; "0"]%string.
Proof.
  split; [unfold demo_calls; repeat constructor|]. split; vm_compute; reflexivity.
Qed.

(* ---- expressions of function bodies: pure expressions over local AND global variables ---- *)
(* LExprCorrect.v: for every expression built from literals, globals, the variables of the running
   activation (L: the values they hold) and the operators, in every context (selector, flags), the emitted
   code run by the VM model from any state inside that activation (lfr: its frame holds L and lies below
   the stack pointer) leaves the value lden computes where the returned operand says — a local variable is
   an operand read from the frame when its operator runs — and keeps everything below *)
Theorem C01_body_expression_compiled : forall L e, lpure L e = true ->
  LExprCorrect.compiles L (Compile.comp e) (fun G => lden L G e).
Proof. exact LExprCorrect.comp_lpure_spec. Qed.
Print Assumptions C01_body_expression_compiled.

(* and Sem.eval computes lden in an activation whose frame holds L *)
Theorem C01_sem_body_expression : forall L e, lpure L e = true -> forall fuel env st, (height e <= fuel)%nat ->
  frame_holds L st env ->
  eval fuel e env st = Done st (ctl_of (lden L (s_globals st) e)).
Proof. exact eval_lpure. Qed.
Print Assumptions C01_sem_body_expression.

(* a call nm(e1, .., ek) with pure arguments, whatever the callee — a built-in, read(), a user function of
   the table with any number of parameters: the arguments left to right, CALL, the body's code inside the
   new frame, RET of the body's operand; a wrong number of arguments is the arity error, raised by CALL
   after the arguments were evaluated — in every position (C01_statement_compiled has it as a case) *)
Theorem C01_user_call_compiled : forall Bf nm args d s s' w,
  forallb pure args = true -> wfcs s ->
  Compile.comp (NCall (NName nm) args) 0 (tfl d) s = COk (w, s') ->
  SpecS Bf (NCall (NName nm) args) d 0 s s' w.
Proof.
  intros Bf nm args d s s' w Hp Hwf H.
  apply (call_specS Bf nm args (tfl d) d 0 s s' w Hp ltac:(lia) Hwf eq_refl H).
Qed.
Print Assumptions C01_user_call_compiled.

(* ---- calls of user functions: one parameter, the body a pure expression of it and of the globals ---- *)
Definition def_lim : node := NAssign (NName "lim") (NInt 10).
Definition def_sq : node := NAssign (NName "sq") (NFunction [NName "x"] (NBin "*" (NName "x") (NName "x")) 0).
Definition def_big : node :=
  NAssign (NName "big") (NFunction [NName "v"] (NList [NBin ">" (NName "v") (NName "lim"); NUn "-" (NName "v")]) 0).
Definition def_mad : node :=
  NAssign (NName "mad") (NFunction [NName "a"; NName "b"; NName "c"]
                                   (NBin "+" (NBin "*" (NName "a") (NName "b")) (NIndexAt (NName "c") (NInt 0))) 0).
Definition def_k : node := NAssign (NName "k") (NFunction [] (NBin "+" (NName "lim") (NInt 1)) 0).

(* the machine after the five definitions *)
Definition mc_defs : machine := end_of mc_after_first [def_lim; def_sq; def_big; def_mad; def_k].

Definition sq_body : node := NBin "*" (NLocal 0 "x") (NLocal 0 "x").
Definition big_body : node := NList [NBin ">" (NLocal 0 "v") (NName "lim"); NUn "-" (NLocal 0 "v")].
Definition mad_body : node := NBin "+" (NBin "*" (NLocal 0 "a") (NLocal 1 "b")) (NIndexAt (NLocal 2 "c") (NInt 0)).
Definition k_body : node := NBin "+" (NName "lim") (NInt 1).

Definition user_bf : ftab :=
  {| ft_val := fun nm => gval (v_globals (mc_vm mc_defs)) nm;
     ft_body := fun nm => if String.eqb nm "sq" then Some sq_body else if String.eqb nm "big" then Some big_body
                          else if String.eqb nm "mad" then Some mad_body else if String.eqb nm "k" then Some k_body else None;
     ft_arity := fun nm => if String.eqb nm "mad" then 3 else if String.eqb nm "k" then 0 else 1 |}.

(* the flags a function body is compiled with when the definition is a top-level assignment *)
Definition body_flags : flags :=
  withReturning true (withInFunc true (withOpDepth 0 (withForbidTemp false (withInFor false
    (pass (withAcceptTemp true (pass (pass fl0)))))))).

(* the premises of the session theorem hold on that machine: it is ready, the built-ins and the two user
   functions lie where the table says — established by computation through the sound checkers *)
Ltac facts := eexists; eexists; eexists; eexists; eexists;
    (split; [vm_compute; reflexivity|]); (split; [vm_compute; reflexivity|]); (split; [vm_compute; reflexivity|]);
    (split; [vm_compute; reflexivity|]); (split; [vm_compute; reflexivity|]); (split; [vm_compute; reflexivity|]);
    (split; [vm_compute; reflexivity|]); (split; [vm_compute; reflexivity|]); (split; [vm_compute; reflexivity|]);
    (split; [vm_compute; reflexivity|]); (split; [vm_compute; reflexivity|]); split; vm_compute; reflexivity.

Example C01_user_function_premises_hold : exists c m, bready user_bf mc_defs c m.
Proof.
  destruct (ready_b_sound mc_defs) as [c [m Hr]]; [vm_compute; reflexivity|].
  exists c, m. split; [exact Hr|].
  apply bcode_b_sound; [vm_compute; reflexivity|].
  intros nm body mo fid Hb Hbody Hbf. cbn [user_bf ft_body ft_arity] in Hbody |- *.
  destruct (String.eqb_spec nm "sq") as [->|_].
  { injection Hbody as <-.
    apply (ufun_facts_sound _ _ _ _ (emitted (mc_cs (end_of mc_after_first [def_lim])) (New JMP)) body_flags). facts. }
  destruct (String.eqb_spec nm "big") as [->|_].
  { injection Hbody as <-.
    apply (ufun_facts_sound _ _ _ _ (emitted (mc_cs (end_of mc_after_first [def_lim; def_sq])) (New JMP)) body_flags). facts. }
  destruct (String.eqb_spec nm "mad") as [->|_].
  { injection Hbody as <-.
    apply (ufun_facts_sound _ _ _ _ (emitted (mc_cs (end_of mc_after_first [def_lim; def_sq; def_big])) (New JMP)) body_flags). facts. }
  destruct (String.eqb_spec nm "k") as [->|_]; [|discriminate Hbody].
  injection Hbody as <-.
  apply (ufun_facts_sound _ _ _ _ (emitted (mc_cs (end_of mc_after_first [def_lim; def_sq; def_big; def_mad])) (New JMP)) body_flags). facts.
Qed.

Definition demo_ucalls : list node :=
  [NCall (NName "sq") [NInt 7];
   NAssign (NName "y") (NCall (NName "sq") [NBin "+" (NInt 1) (NInt 2)]);
   NAssign (NName "i") (NInt 0);
   NWhile (NBin "<" (NName "i") (NInt 3))
          (NBlock [NAssign (NName "t") (NCall (NName "sq") [NName "i"]);
                   NCall (NName "write") [NName "t"];
                   NAssign (NName "i") (NBin "+" (NName "i") (NInt 1))]);
   NCall (NName "big") [NName "y"];
   NCall (NName "big") [NInt 11];
   NCall (NName "sq") [NStr "a"];
   NAssign (NName "lim") (NInt 100);
   NCall (NName "big") [NInt 11];
   NIfElse (NBin "==" (NName "y") (NInt 9)) (NCall (NName "sq") [NName "y"]) (NCall (NName "toa") [NName "y"]);
   NCall (NName "mad") [NInt 2; NName "y"; NList [NInt 5; NInt 6]];
   NAssign (NName "z") (NCall (NName "k") []);
   NCall (NName "mad") [NName "z"; NBin "/" (NInt 1) (NInt 0); NList []];
   NCall (NName "mad") [NInt 1; NInt 1; NList []];
   NCall (NName "sq") [NInt 1; NInt 2];
   NAssign (NName "z") (NCall (NName "mad") [NInt 1]);
   NCall (NName "k") [NBin "/" (NInt 1) (NInt 0)];
   NName "z"].

Example C01_demo_user_calls_are_covered :
  Forall (fun t => wstmt t = true /\ CompileWf.wfb t = true /\ nobs user_bf t = true) demo_ucalls /\
  (forall nm body, ft_body user_bf nm = Some body -> nobe user_bf body = true) /\
  map brief (run_all mc_defs demo_ucalls) =
  [Some (Ok (VInt 49)); Some (Ok (VInt 9)); Some (Ok (VInt 0)); Some (Ok (VInt 3));
   Some (Ok (VArr [VBool false; VInt (-9)])); Some (Ok (VArr [VBool true; VInt (-11)])); Some (Fail ErrType);
   Some (Ok (VInt 100)); Some (Ok (VArr [VBool false; VInt (-11)])); Some (Ok (VInt 81));
   Some (Ok (VInt 23)); Some (Ok (VInt 101)); Some (Fail ErrZeroDiv); Some (Fail ErrIndex);
   Some (Fail ErrArity); Some (Fail ErrArity); Some (Fail ErrZeroDiv); Some (Ok (VInt 101))] /\
  firstn 3 (v_out (mc_vm (end_of mc_defs demo_ucalls))) = ["4"; "1"; "0"]%string.
Proof.
  split; [unfold demo_ucalls; repeat constructor|]. split.
  - intros nm body H. cbn [user_bf ft_body] in H.
    destruct (String.eqb nm "sq"); [injection H as <-; reflexivity|].
    destruct (String.eqb nm "big"); [injection H as <-; reflexivity|].
    destruct (String.eqb nm "mad"); [injection H as <-; reflexivity|].
    destruct (String.eqb nm "k"); [injection H as <-; reflexivity|discriminate H].
  - split; vm_compute; reflexivity.
Qed.

(* ---- definitions themselves:  f = (p1, .., pk) -> body  with a pure-expression body, compiled and run at top
   level (the jump over the body, FUNC, the assignment), enters f into the function table: the machine it
   leaves meets the premise of the statement theorems under the table with one more entry ---- *)
Theorem C01_definition_compiled_and_run : forall f ps body lc s s' v c m fuel,
  lpure (repeat VNil (List.length ps)) body = true -> lc = Z.of_nat (List.length ps) ->
  wfcs s -> idle v s c m -> m_fp m = [] -> ncs s + 1 < 4294967296 ->
  ByteCode (NAssign (NName f) (NFunction ps body lc)) s = CompOk s' ->
  (4 < fuel)%nat ->
  wfcs s' /\
  exists v' c' m',
    let fv := VFun (pack_function (ncs s + 1) lc lc) (v_next v) in
    Run fuel (load_code v s') true = (v', RValue fv) /\
    idle v' s' c' m' /\ c_mid c' = c_mid c /\ c_children c' = c_children c /\
    m_sp m' = m_sp m /\ msame (m_sp m) m m' /\
    v_globals v' = sassoc_set (v_globals v) f fv /\
    v_frames v' = (v_next v, FNone) :: v_frames v /\ v_next v' = v_next v + 1 /\
    v_out v' = v_out v /\ v_in v' = v_in v /\
    v_cs v' = rev (rcs s') /\ v_ds v' = rev (rds s') /\
    (exists code, lay s s' code) /\
    is_ufun lc v' body fv.
Proof. exact bytecode_run_def. Qed.
Print Assumptions C01_definition_compiled_and_run.

Theorem C01_definition_extends_the_table : forall B t f ps body lc mc c m,
  bready B mc c m -> m_fp m = [] -> ncs (mc_cs mc) + 1 < 4294967296 ->
  strewrite t = Some (NAssign (NName f) (NFunction ps body lc)) ->
  CompileWf.wfb (NAssign (NName f) (NFunction ps body lc)) = true ->
  lpure (repeat VNil (List.length ps)) body = true -> lc = Z.of_nat (List.length ps) ->
  bop_of_name f = None -> f <> "read"%string ->
  snd (run_tree false mc t) = TRefused \/
  exists c' m',
    let fv := VFun (pack_function (ncs (mc_cs mc) + 1) lc lc) (v_next (mc_vm mc)) in
    let mc' := fst (run_tree false mc t) in
    snd (run_tree false mc t) = TValue fv /\
    wof (mc_vm mc') = wbump (wglob (wof (mc_vm mc)) (sassoc_set (v_globals (mc_vm mc)) f fv)) /\
    bready (ft_add B f fv body lc) mc' c' m' /\ m_fp m' = [].
Proof. exact def_step. Qed.
Print Assumptions C01_definition_extends_the_table.

(* the same step in the reference semantics: the closure is entered under a fresh id *)
Theorem C01_sem_definition : forall B n f ps body lc env st,
  sem_bf B st -> assoc_get (s_clos st) (s_next st) = None ->
  bop_of_name f = None -> f <> "read"%string -> e_frame env = None ->
  let fv := VFun 0 (s_next st) in
  exists st', eval (S (S n)) (NAssign (NName f) (NFunction ps body lc)) env st = Done st' (CVal fv) /\
    wof_s st' = wbump (wglob (wof_s st) (sassoc_set (s_globals st) f fv)) /\
    sem_bf (ft_add B f fv body (zlen ps)) st'.
Proof. exact eval_def. Qed.
Print Assumptions C01_sem_definition.

(* every history of definitions and statements, in any order: each statement's compiled run agrees with
   its meaning under the table built by the definitions before it *)
Theorem C01_sessions_with_definitions_partial : forall items B mc c m,
  tready B mc c m -> Forall item_ok items -> mixed B mc items.
Proof. exact mixed_session. Qed.
Print Assumptions C01_sessions_with_definitions_partial.

(* the demonstration again, now from the machine that holds only the built-ins: the definitions are trees of
   the session, and no premise about the user functions is left to a computation *)
Definition demo_items : list item :=
  [IStmt def_lim;
   IDef {| fd_tree := def_sq; fd_name := "sq"; fd_params := [NLocal 0 "x"]; fd_body := sq_body |};
   IDef {| fd_tree := def_big; fd_name := "big"; fd_params := [NLocal 0 "v"]; fd_body := big_body |};
   IDef {| fd_tree := def_mad; fd_name := "mad"; fd_params := [NLocal 0 "a"; NLocal 1 "b"; NLocal 2 "c"]; fd_body := mad_body |};
   IDef {| fd_tree := def_k; fd_name := "k"; fd_params := []; fd_body := k_body |}] ++ map IStmt demo_ucalls.

Example C01_builtin_machine_is_at_top_level : exists c m, tready vm_bf mc_after_first c m.
Proof.
  destruct C01_builtin_premises_hold as [c [m H]]. exists c, m. split; [exact H|].
  destruct H as [[[_ [Hc _ Hm _]] _] _].
  vm_compute in Hc. injection Hc as <-. vm_compute in Hm. injection Hm as <-. reflexivity.
Qed.

Example C01_demo_with_definitions_is_covered :
  Forall item_ok demo_items /\ mixed vm_bf mc_after_first demo_items /\
  map item_tree demo_items = [def_lim; def_sq; def_big; def_mad; def_k] ++ demo_ucalls.
Proof.
  assert (H : Forall item_ok demo_items).
  { unfold demo_items, demo_ucalls. repeat constructor; try discriminate. }
  split; [exact H|]. split; [|reflexivity].
  destruct C01_builtin_machine_is_at_top_level as [c [m Hr]].
  exact (mixed_session demo_items vm_bf mc_after_first c m Hr H).
Qed.

(* ---- the meaning does not depend on the fuel that finds it ---- *)
(* the session theorems speak about "whatever fuel gives the statement a meaning": more fuel gives the same
   meaning, so a statement has at most one *)
Theorem C01_meaning_is_stable_in_fuel : forall B n t W r k,
  wstmt t = true -> ssem B n W t = Some r -> ssem B (n + k) W t = Some r.
Proof. exact ssem_more. Qed.
Print Assumptions C01_meaning_is_stable_in_fuel.

Theorem C01_meaning_is_unique : forall B n m t W r1 r2,
  wstmt t = true -> ssem B n W t = Some r1 -> ssem B m W t = Some r2 -> r1 = r2.
Proof. exact ssem_unique. Qed.
Print Assumptions C01_meaning_is_unique.

(* ---- sessions of definitions and statements: Sem (sem_tree) against the compiled code (run_tree) ---- *)
(* the allocation counter never goes back (so closure ids stay fresh in Sem) *)
Theorem C01_sem_counter_monotone : forall B n t W W' r,
  wstmt t = true -> ssem B n W t = Some (W', r) -> w_next W <= w_next W'.
Proof. exact ssem_next_le. Qed.
Print Assumptions C01_sem_counter_monotone.

(* the two executable functions the correspondence check evaluates next to the real interpreter, on any list
   of trees each of which is a qualifying definition or a statement of the fragment (in any order), from any
   start at which the two sides' worlds are related: every statement to which the statement semantics gives
   a meaning ends in sem_tree with exactly that result and world, and in run_tree with the same value or
   error class and a related world (same global data, same output, same input left); every definition gives
   a function on both sides and keeps the relation under the tables with one more entry each.  FN: the
   names the session gives to functions; no expression may use them except to call them (nobs, nobe). *)
Theorem C01_sessions_sem_vs_vm_partial : forall FN o1 o2 items B1 B2 st mc c m,
  tabs_ok FN B1 B2 -> sem_ok B1 st -> tready B2 mc c m ->
  wrel B1 B2 o1 o2 (wof_s st) (wof (mc_vm mc)) ->
  Forall (item_ok2 FN) items ->
  agree o1 o2 B1 B2 st mc items.
Proof. exact agree_session. Qed.
Print Assumptions C01_sessions_sem_vs_vm_partial.

(* the premises hold at the start of a real session: Sem after its built-in definitions, the machine after
   builtin.Load.  The tables name the four leaf built-ins with the values the two sides bind them to; the
   other built-ins (exit and the generators) are listed as function names without a value, so no statement
   of the fragment may mention them and a call of them has no meaning in ssem. *)
Definition sem_tab : ftab := tab_of (s_globals sem_init).
Definition vm_tab : ftab := tab_of (v_globals (mc_vm mc_after_first)).
Definition demo_names : list string := other_builtins ++ ["sq"; "big"; "mad"; "k"]%string.

Example C01_demo_tables_hold : tabs_ok demo_names sem_tab vm_tab.
Proof.
  constructor.
  - reflexivity.
  - reflexivity.
  - intros g Hg. destruct (tab_names _ g Hg) as [->|[->|[->|[->|[->|[->|[->| ->]]]]]]]; reflexivity.
  - intros nm body H. cbn [sem_tab tab_of ft_body] in H. destruct (existsb (String.eqb nm) other_builtins); [|discriminate H].
    injection H as <-. split; [reflexivity|exists []; reflexivity].
Qed.

Example C01_sem_start_state_holds : sem_ok sem_tab sem_init.
Proof.
  split; [|apply closfresh_b; vm_compute; reflexivity].
  split; [|split].
  - intros nm b mo id Hb Hv. destruct (bop_name_cases nm b Hb) as [[E1 E2]|[[E1 E2]|[E1 E2]]]; subst nm b;
      vm_compute in Hv; injection Hv as <- <-; eexists; eexists; vm_compute; reflexivity.
  - intros mo id Hv. vm_compute in Hv. injection Hv as <- <-. eexists. vm_compute. reflexivity.
  - intros nm body mo id Hb Hbody Hv. cbn [sem_tab tab_of ft_body ft_val] in Hbody, Hv.
    destruct (existsb (String.eqb nm) other_builtins) eqn:E; [|discriminate Hbody].
    destruct (other_cases nm E) as [->|[->|[->| ->]]]; discriminate Hv.
Qed.

Example C01_vm_start_state_holds : exists c m, tready vm_tab mc_after_first c m.
Proof.
  destruct C01_builtin_machine_is_at_top_level as [c [m [[Hr _] Hfp]]]. exists c, m.
  split; [split; [exact Hr|]|exact Hfp].
  apply bcode_b_sound; [vm_compute; reflexivity|].
  intros nm body mo fid _ Hbody Hv. cbn [vm_tab tab_of ft_body ft_val] in Hbody, Hv.
  destruct (existsb (String.eqb nm) other_builtins) eqn:E; [|discriminate Hbody].
  destruct (other_cases nm E) as [->|[->|[->| ->]]]; discriminate Hv.
Qed.

Example C01_start_worlds_related : wrel sem_tab vm_tab [] [] (wof_s sem_init) (wof (mc_vm mc_after_first)).
Proof.
  constructor.
  - apply gsame_keys; vm_compute; reflexivity.
  - exists []. split; vm_compute; reflexivity.
  - vm_compute. reflexivity.
  - intros nm Hnm. destruct (tab_names _ nm Hnm) as [->|[->|[->|[->|[->|[->|[->| ->]]]]]]]; vm_compute; reflexivity.
Qed.

Example C01_demo_items_ok : Forall (item_ok2 demo_names) demo_items.
Proof.
  destruct C01_demo_with_definitions_is_covered as [H _].
  unfold demo_items, demo_ucalls in *. cbn [app map] in *.
  repeat match goal with
         | H : Forall _ (_ :: _) |- _ => inversion H; subst; clear H
         end.
  repeat (constructor; [split; [assumption|first [reflexivity|split; [cbn; tauto|reflexivity]]]|]). constructor.
Qed.


(* the machine's own table on both sides: the premise of the two-machine theorems of C08 and C16 *)
Example C01_vm_tables_hold : tabs_ok demo_names vm_tab vm_tab.
Proof.
  constructor.
  - reflexivity.
  - reflexivity.
  - intros g Hg. destruct (tab_names _ g Hg) as [->|[->|[->|[->|[->|[->|[->| ->]]]]]]]; reflexivity.
  - intros nm body H. cbn [vm_tab tab_of ft_body] in H. destruct (existsb (String.eqb nm) other_builtins); [|discriminate H].
    injection H as <-. split; [reflexivity|exists []; reflexivity].
Qed.

(* the demonstration session, definitions included, on both sides *)
Example C01_demo_sem_vs_vm : agree [] [] sem_tab vm_tab sem_init mc_after_first demo_items.
Proof.
  destruct C01_vm_start_state_holds as [c [m Hr]].
  exact (agree_session demo_names [] [] demo_items sem_tab vm_tab sem_init mc_after_first c m
           C01_demo_tables_hold C01_sem_start_state_holds Hr C01_start_worlds_related C01_demo_items_ok).
Qed.

(* and the statement semantics gives every one of its statements a meaning (the hypothesis of each clause of
   agree), the compiled runs end with the same results: no tree is refused, no budget runs out *)
Fixpoint sem_meanings (B1 : ftab) (st : sstate) (items : list item) : list (option (res value)) :=
  match items with
  | [] => []
  | IStmt t :: r =>
      match ssem B1 sem_fuel (wof_s st) t with Some (_, res) => Some res | None => None end
      :: sem_meanings B1 (fst (sem_tree st t)) r
  | IDef d :: r =>
      Some (Ok (VFun 0 (s_next st)))
      :: sem_meanings (ft_add B1 (fd_name d) (VFun 0 (s_next st)) (fd_body d) (fd_lc d)) (fst (sem_tree st (fd_tree d))) r
  end.
Definition unfun (o : option (res value)) : option (res value) :=
  match o with Some (Ok (VFun _ _)) => Some (Ok (VStr "function")) | x => x end.

Example C01_demo_sem_vs_vm_is_not_vacuous :
  map unfun (sem_meanings sem_tab sem_init demo_items) =
  map unfun (map brief (run_all mc_after_first (map item_tree demo_items))) /\
  map unfun (sem_meanings sem_tab sem_init demo_items) =
  [Some (Ok (VInt 10)); Some (Ok (VStr "function")); Some (Ok (VStr "function")); Some (Ok (VStr "function"));
   Some (Ok (VStr "function")); Some (Ok (VInt 49)); Some (Ok (VInt 9)); Some (Ok (VInt 0)); Some (Ok (VInt 3));
   Some (Ok (VArr [VBool false; VInt (-9)])); Some (Ok (VArr [VBool true; VInt (-11)])); Some (Fail ErrType);
   Some (Ok (VInt 100)); Some (Ok (VArr [VBool false; VInt (-11)])); Some (Ok (VInt 81)); Some (Ok (VInt 23));
   Some (Ok (VInt 101)); Some (Fail ErrZeroDiv); Some (Fail ErrIndex); Some (Fail ErrArity); Some (Fail ErrArity);
   Some (Fail ErrZeroDiv); Some (Ok (VInt 101))].
Proof. split; vm_compute; reflexivity. Qed.

(* ---- what the correspondence run counts as covered is covered ---- *)
(* the run evaluates two checkers in Coq on every generated session: start_ok on the machine the session
   reaches after its first tree (that first run also executes the definitions of the built-ins and is not
   covered by the theorems), and prefix_ok on the remaining trees.  Both are sound for the premises of the
   session theorem: *)
Theorem C01_checked_machine_meets_the_premise : forall mc,
  start_ok mc = true -> exists c m, tready (self_tab mc) mc c m.
Proof. exact start_ok_sound. Qed.
Print Assumptions C01_checked_machine_meets_the_premise.

Theorem C01_counted_trees_are_covered : forall mc0 t1 r,
  machine_new = Some mc0 ->
  let mc1 := fst (run_tree false mc0 t1) in
  let pre := firstn (covered_prefix (t1 :: r)) r in
  mixed (self_tab mc1) mc1 (map item_of pre) /\ map item_tree (map item_of pre) = pre.
Proof. exact covered_prefix_sound. Qed.
Print Assumptions C01_counted_trees_are_covered.

Theorem C01_counted_trees_are_covered_sem_vs_vm : forall mc0 t1 r,
  machine_new = Some mc0 ->
  let st1 := fst (sem_tree sem_init t1) in
  let mc1 := fst (run_tree false mc0 t1) in
  let pre := firstn (covered_prefix2 (t1 :: r)) r in
  agree [] [] (tab_of (s_globals st1)) (self_tab mc1) st1 mc1 (map item_of pre) /\ map item_tree (map item_of pre) = pre.
Proof. exact covered_prefix2_sound. Qed.
Print Assumptions C01_counted_trees_are_covered_sem_vs_vm.

(* the check passes on the machine of the examples, and on a session of the generator's shape *)
Example C01_start_check_passes :
  start_ok mc_after_first = true /\
  covered_prefix ([NAssign (NName "ga") (NInt 3); def_lim; def_sq; def_big; def_mad; def_k] ++ demo_ucalls) = 23%nat /\
  covered_prefix2 ([NAssign (NName "ga") (NInt 3); def_lim; def_sq; def_big; def_mad; def_k] ++ demo_ucalls) = 23%nat.
Proof. split; [|split]; vm_compute; reflexivity. Qed.

(* ---- proved: the oracle follows the language rules ---- *)
Theorem C01_sem_binop_left_error : forall n op c l r e st st1 x,
  binop_opcode op = Some c -> eval n l e st = Done st1 (CErr x) ->
  eval (S n) (NBin op l r) e st = Done st1 (CErr x).
Proof. exact sem_binop_left_error. Qed.
Print Assumptions C01_sem_binop_left_error.

Theorem C01_sem_binop_right_error : forall n op c l r e st st1 a st2 x,
  binop_opcode op = Some c -> eval n l e st = Done st1 (CVal a) -> eval n r e st1 = Done st2 (CErr x) ->
  eval (S n) (NBin op l r) e st = Done st2 (CErr x).
Proof. exact sem_binop_right_error. Qed.
Print Assumptions C01_sem_binop_right_error.

Theorem C01_sem_binop_values : forall n op c l r e st st1 a st2 b,
  binop_opcode op = Some c -> eval n l e st = Done st1 (CVal a) -> eval n r e st1 = Done st2 (CVal b) ->
  eval (S n) (NBin op l r) e st = lift_res st2 (apply_binop c a b).
Proof. exact sem_binop_values. Qed.
Print Assumptions C01_sem_binop_values.

Theorem C01_sem_if_false_is_nil : forall n c t e st st1,
  eval n c e st = Done st1 (CVal (VBool false)) ->
  eval (S n) (NIf c t) e st = Done st1 (CVal VNil).
Proof. exact sem_if_false_is_nil. Qed.
Print Assumptions C01_sem_if_false_is_nil.

Theorem C01_sem_ifelse : forall n c t f e st st1 b,
  eval n c e st = Done st1 (CVal (VBool b)) ->
  eval (S n) (NIfElse c t f) e st = if b then eval n t e st1 else eval n f e st1.
Proof. exact sem_ifelse. Qed.
Print Assumptions C01_sem_ifelse.

Theorem C01_sem_condition_must_be_bool : forall n c t f e st st1 v x,
  eval n c e st = Done st1 (CVal v) -> cond_error v = Some x ->
  eval (S n) (NIf c t) e st = Done st1 (CErr x) /\
  eval (S n) (NIfElse c t f) e st = Done st1 (CErr x).
Proof. exact sem_condition_must_be_bool. Qed.
Print Assumptions C01_sem_condition_must_be_bool.

Theorem C01_sem_while_false_is_nil : forall n c b e st st1,
  eval (S n) c e st = Done st1 (CVal (VBool false)) ->
  eval (S (S n)) (NWhile c b) e st = Done st1 (CVal VNil).
Proof. exact sem_while_false_is_nil. Qed.
Print Assumptions C01_sem_while_false_is_nil.

Theorem C01_sem_while_condition_must_be_bool : forall n c b e st st1 v x,
  eval (S n) c e st = Done st1 (CVal v) -> cond_error v = Some x ->
  eval (S (S n)) (NWhile c b) e st = Done st1 (CErr x).
Proof. exact sem_while_condition_must_be_bool. Qed.
Print Assumptions C01_sem_while_condition_must_be_bool.

Theorem C01_sem_block_cons : forall n x y r e st st1 v,
  eval n x e st = Done st1 (CVal v) ->
  eval (S n) (NBlock (x :: y :: r)) e st = eval (S n) (NBlock (y :: r)) e st1.
Proof. exact sem_block_cons. Qed.
Print Assumptions C01_sem_block_cons.

Theorem C01_sem_block_stops : forall n x y r e st st1 c,
  eval n x e st = Done st1 c -> (forall v, c <> CVal v) ->
  eval (S n) (NBlock (x :: y :: r)) e st = Done st1 c.
Proof. exact sem_block_stops. Qed.
Print Assumptions C01_sem_block_stops.

Theorem C01_sem_assign_nil : forall n target rhs e st st1,
  eval n rhs e st = Done st1 (CVal VNil) ->
  eval (S n) (NAssign target rhs) e st = Done st1 (CErr ErrNil).
Proof. exact sem_assign_nil. Qed.
Print Assumptions C01_sem_assign_nil.

Theorem C01_sem_assign_global : forall n name rhs e st st1 v,
  eval n rhs e st = Done st1 (CVal v) -> v <> VNil ->
  eval (S n) (NAssign (NName name) rhs) e st = Done (set_global st1 name v) (CVal v).
Proof. exact sem_assign_global. Qed.
Print Assumptions C01_sem_assign_global.

Theorem C01_sem_return : forall n t e st st1 v,
  eval n t e st = Done st1 (CVal v) -> eval (S n) (NReturn t) e st = Done st1 (CRet v).
Proof. exact sem_return. Qed.
Print Assumptions C01_sem_return.

Theorem C01_sem_call_non_function : forall n name e st v,
  lookup st e name = Done st (CVal v) -> (forall m f, v <> VFun m f) ->
  eval (S n) (NCall name []) e st = Done st (CErr ErrType).
Proof. exact sem_call_non_function. Qed.
Print Assumptions C01_sem_call_non_function.

(* the Readme's own examples, evaluated by the semantics *)
Example C01_readme_values :
  map (fun t => snd (sem_tree sem_init t))
      [NBin "+" (NBin "-" (NInt 1) (NInt 2)) (NInt 1);
       NIfElse (NBool true) (NInt 1) (NInt 2);
       NIf (NBool false) (NInt 1)]
  = [CVal (VInt 0); CVal (VInt 1); CVal VNil].
Proof. vm_compute. reflexivity. Qed.
