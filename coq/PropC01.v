(* PropC01.v — C01: compiled execution matches the definitional semantics.

   What is proved here: the definitional semantics obeys the documented
   language rules (strict left-to-right operators, the value of every
   statement form, boolean conditions, nil assignment, call errors), so the
   oracle the check compares the implementation with is the language
   description and not an arbitrary second implementation.

   What is stated and NOT proved: [C01_compile_correct_statement], the full
   property over the compiler and VM model.  The check decides it on each run
   by differential evidence (implementation vs Sem, implementation vs VM
   model); this is testing, labelled as such in MANIFEST and evidence. *)
Require Import Calc.Base Calc.Bytecode Calc.Value Calc.FloatText Calc.Ast Calc.Resolve Calc.Compile
        Calc.VM Calc.Sem Calc.Session Calc.CorrSession Calc.SemSession Calc.SemProofs.
Open Scope Z_scope.

(* ---- the full statement (open) ---- *)
Definition tree_obs_equal (m : tree_result) (c : ctl) : Prop :=
  match m, c with
  | TValue x, CVal y | TValue x, CRet y => vsame x y = true
  | TError e _, CErr f => e = f
  | _, _ => False
  end.

(* one input on both machines: same result per tree and same output, provided
   the semantics gives the input a meaning (no Fuel) and the run stays clear
   of the two recorded findings K1/K2 (no staleness event) *)
Definition C01_compile_correct_statement : Prop :=
  forall (history : list node) (t : node) (mc : machine) (st : sstate),
    (* mc and st are what the two machines reach after the same history *)
    fold_left (fun acc x => fst (run_tree false acc x)) history
              (match machine_new with Some m => m | None => {| mc_cs := cstate0; mc_vm := vm_new |} end) = mc ->
    fold_left (fun acc x => fst (sem_tree acc x)) history sem_init = st ->
    let (mc', r) := run_tree false {| mc_cs := mc_cs mc; mc_vm := clear_out (mc_vm mc) |} t in
    let (st', c) := sem_tree (sem_clear_out st) t in
    c <> CFuel -> r <> TFuel ->
    v_dead_read (mc_vm mc') = false -> v_grew_captured (mc_vm mc') = false ->
    tree_obs_equal r c /\ out_text (mc_vm mc') = sem_out st'.

(* ---- proved: the oracle follows the language rules ---- *)
Theorem C01_sem_binop_left_error : forall n op c l r e st st1 x,
  binop_opcode op = Some c -> eval n l e st = Done st1 (CErr x) ->
  eval (S n) (NBin op l r) e st = Done st1 (CErr x).
Proof. exact sem_binop_left_error. Qed.
Print Assumptions C01_sem_binop_left_error.

Theorem C01_sem_binop_right_error : forall n op c l r e st st1 a st2 x,
  binop_opcode op = Some c -> eval n l e st = Done st1 (CVal a) -> eval n r e st1 = Done st2 (CErr x) ->
  eval (S n) (NBin op l r) e st = Done st2 (CErr x).
Proof. exact sem_binop_right_error. Qed.
Print Assumptions C01_sem_binop_right_error.

Theorem C01_sem_binop_values : forall n op c l r e st st1 a st2 b,
  binop_opcode op = Some c -> eval n l e st = Done st1 (CVal a) -> eval n r e st1 = Done st2 (CVal b) ->
  eval (S n) (NBin op l r) e st = lift_res st2 (apply_binop c a b).
Proof. exact sem_binop_values. Qed.
Print Assumptions C01_sem_binop_values.

Theorem C01_sem_if_false_is_nil : forall n c t e st st1,
  eval n c e st = Done st1 (CVal (VBool false)) ->
  eval (S n) (NIf c t) e st = Done st1 (CVal VNil).
Proof. exact sem_if_false_is_nil. Qed.
Print Assumptions C01_sem_if_false_is_nil.

Theorem C01_sem_ifelse : forall n c t f e st st1 b,
  eval n c e st = Done st1 (CVal (VBool b)) ->
  eval (S n) (NIfElse c t f) e st = if b then eval n t e st1 else eval n f e st1.
Proof. exact sem_ifelse. Qed.
Print Assumptions C01_sem_ifelse.

Theorem C01_sem_condition_must_be_bool : forall n c t f e st st1 v x,
  eval n c e st = Done st1 (CVal v) -> cond_error v = Some x ->
  eval (S n) (NIf c t) e st = Done st1 (CErr x) /\
  eval (S n) (NIfElse c t f) e st = Done st1 (CErr x).
Proof. exact sem_condition_must_be_bool. Qed.
Print Assumptions C01_sem_condition_must_be_bool.

Theorem C01_sem_while_false_is_nil : forall n c b e st st1,
  eval (S n) c e st = Done st1 (CVal (VBool false)) ->
  eval (S (S n)) (NWhile c b) e st = Done st1 (CVal VNil).
Proof. exact sem_while_false_is_nil. Qed.
Print Assumptions C01_sem_while_false_is_nil.

Theorem C01_sem_while_condition_must_be_bool : forall n c b e st st1 v x,
  eval (S n) c e st = Done st1 (CVal v) -> cond_error v = Some x ->
  eval (S (S n)) (NWhile c b) e st = Done st1 (CErr x).
Proof. exact sem_while_condition_must_be_bool. Qed.
Print Assumptions C01_sem_while_condition_must_be_bool.

Theorem C01_sem_block_cons : forall n x y r e st st1 v,
  eval n x e st = Done st1 (CVal v) ->
  eval (S n) (NBlock (x :: y :: r)) e st = eval (S n) (NBlock (y :: r)) e st1.
Proof. exact sem_block_cons. Qed.
Print Assumptions C01_sem_block_cons.

Theorem C01_sem_block_stops : forall n x y r e st st1 c,
  eval n x e st = Done st1 c -> (forall v, c <> CVal v) ->
  eval (S n) (NBlock (x :: y :: r)) e st = Done st1 c.
Proof. exact sem_block_stops. Qed.
Print Assumptions C01_sem_block_stops.

Theorem C01_sem_assign_nil : forall n target rhs e st st1,
  eval n rhs e st = Done st1 (CVal VNil) ->
  eval (S n) (NAssign target rhs) e st = Done st1 (CErr ErrNil).
Proof. exact sem_assign_nil. Qed.
Print Assumptions C01_sem_assign_nil.

Theorem C01_sem_assign_global : forall n name rhs e st st1 v,
  eval n rhs e st = Done st1 (CVal v) -> v <> VNil ->
  eval (S n) (NAssign (NName name) rhs) e st = Done (set_global st1 name v) (CVal v).
Proof. exact sem_assign_global. Qed.
Print Assumptions C01_sem_assign_global.

Theorem C01_sem_return : forall n t e st st1 v,
  eval n t e st = Done st1 (CVal v) -> eval (S n) (NReturn t) e st = Done st1 (CRet v).
Proof. exact sem_return. Qed.
Print Assumptions C01_sem_return.

Theorem C01_sem_call_non_function : forall n name e st v,
  lookup st e name = Done st (CVal v) -> (forall m f, v <> VFun m f) ->
  eval (S n) (NCall name []) e st = Done st (CErr ErrType).
Proof. exact sem_call_non_function. Qed.
Print Assumptions C01_sem_call_non_function.

(* the Readme's own examples, evaluated by the semantics *)
Example C01_readme_values :
  map (fun t => snd (sem_tree sem_init t))
      [NBin "+" (NBin "-" (NInt 1) (NInt 2)) (NInt 1);
       NIfElse (NBool true) (NInt 1) (NInt 2);
       NIf (NBool false) (NInt 1)]
  = [CVal (VInt 0); CVal (VInt 1); CVal VNil].
Proof. vm_compute. reflexivity. Qed.
