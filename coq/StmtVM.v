(* StmtVM.v — jumps, POP and back-patching: what the control-flow
   instructions do, and what patching an emitted jump does to the code. *)
Require Import Calc.Sem.
Require Import Calc.Base Calc.Bytecode Calc.BytecodeProofs Calc.Value Calc.FloatText Calc.Ast Calc.Compile Calc.VM
        Calc.MemProofs Calc.ExprSem Calc.ExprVM Calc.ExprCorrect.
Require Import Lia.
Open Scope Z_scope.

Lemma step_jmp v mid m r rr instr k0 k1 k2 a0 a1 a2 :
  at_ip v r mid instr ->
  decode instr = {| f_op := JMP; f_k0 := k0; f_k1 := k1; f_k2 := k2; f_a0 := a0; f_a1 := a1; f_a2 := a2 |} ->
  step (St v mid m) r rr = SNext (St v mid m) (with_ip r (r_ip r + a0 - 1)).
Proof.
  intros [Hi Hc] Hd. unfold decode in Hd. injection Hd as Eop E0 E1 E2 Ea0 Ea1 Ea2.
  unfold step. change (v_cs (St v mid m)) with (v_cs v). rewrite Hi. cbn [req obind].
  rewrite cur_mid_St, Hc. cbn [obind]. rewrite Eop, Ea0. reflexivity.
Qed.

Definition is_cjmp (op : Z) : bool := (op =? JMPF) || (op =? JMPT).

Lemma step_cjmp v mid m r rr instr op K A k1 k2 a1 a2 v0 x0 :
  at_ip v r mid instr -> is_cjmp op = true ->
  decode instr = {| f_op := op; f_k0 := K; f_k1 := k1; f_k2 := k2; f_a0 := A; f_a1 := a1; f_a2 := a2 |} ->
  fetch (St v mid m) mid K A = Good (v0, x0) ->
  step (St v mid m) r rr =
  match x0 with
  | VBool b =>
      if ((op =? JMPF) && negb b) || ((op =? JMPT) && b) then SNext v0 (with_ip r (r_ip r + a1 - 1))
      else SNext v0 r
  | VNil => SErr v0 (r_ctx r) (r_ip r) ErrNil [x0]
  | _ => SErr v0 (r_ctx r) (r_ip r) ErrType [x0]
  end.
Proof.
  intros [Hi Hc] Hj Hd Hf. unfold decode in Hd. injection Hd as Eop E0 E1 E2 Ea0 Ea1 Ea2.
  unfold step. change (v_cs (St v mid m)) with (v_cs v). rewrite Hi. cbn [req obind].
  rewrite cur_mid_St, Hc. cbn [obind]. rewrite Eop, E0, Ea0, Ea1.
  unfold is_cjmp in Hj.
  destruct (Z.eqb_spec op JMPF) as [->|NF].
  - rewrite Hf. destruct x0 as [| | | | |b|]; try reflexivity. destruct b; reflexivity.
  - destruct (Z.eqb_spec op JMPT) as [->|NT]; [|discriminate Hj].
    rewrite Hf. destruct x0 as [| | | | |b|]; try reflexivity. destruct b; reflexivity.
Qed.

Lemma step_pop v mid m r rr instr k0 k1 k2 a0 a1 a2 x :
  at_ip v r mid instr ->
  decode instr = {| f_op := POP; f_k0 := k0; f_k1 := k1; f_k2 := k2; f_a0 := a0; f_a1 := a1; f_a2 := a2 |} ->
  znth (m_stack m) (m_sp m - 1) = Some x ->
  step (St v mid m) r rr = SNext (St v mid (mdrop m)) r.
Proof.
  intros [Hi Hc] Hd Hx. unfold decode in Hd. injection Hd as Eop E0 E1 E2 Ea0 Ea1 Ea2.
  unfold step. change (v_cs (St v mid m)) with (v_cs v). rewrite Hi. cbn [req obind].
  rewrite cur_mid_St, Hc. cbn [obind]. rewrite Eop.
  change (is_binop POP) with false. cbv iota.
  change ((POP >=? TempFlag) && is_binop (POP - TempFlag)) with false. cbv iota.
  change (POP =? INC) with false. cbv iota.
  change ((POP =? NOT) || (POP =? FLIP) || (POP =? LEN)) with false. cbv iota.
  change ((POP =? NOT + TempFlag) || (POP =? FLIP + TempFlag) || (POP =? LEN + TempFlag)) with false. cbv iota.
  change (POP =? IX1) with false. change (POP =? IX2) with false. change (POP =? JMP) with false.
  change ((POP =? JMPF) || (POP =? JMPT)) with false. change (POP =? PUSH) with false.
  change (POP =? PUSHTMP) with false. change (POP =? POP) with true. cbv iota.
  rewrite (vPop_St v mid m x Hx). reflexivity.
Qed.

(* ---- back-patching ---- *)
Lemma update_nth_app_r {A} (f : A -> A) : forall (l1 l2 : list A) n,
  (List.length l1 <= n)%nat -> update_nth n f (l1 ++ l2) = l1 ++ update_nth (n - List.length l1) f l2.
Proof.
  induction l1 as [|x l1 IH]; intros l2 n H; [cbn; rewrite Nat.sub_0_r; reflexivity|].
  destruct n as [|n]; [cbn in H; lia|]. cbn [app update_nth List.length]. rewrite IH by (cbn in H; lia). reflexivity.
Qed.

Lemma update_nth_mid {A} (f : A -> A) (l1 l2 : list A) x :
  update_nth (List.length l1) f (l1 ++ x :: l2) = l1 ++ f x :: l2.
Proof. rewrite update_nth_app_r by lia. rewrite Nat.sub_diag. reflexivity. Qed.

(* patching the instruction that follows [pre] in the code emitted since [s] *)
Lemma patch_lay s s2 pre instr post w u s3 :
  lay s s2 (pre ++ instr :: post) -> wfcs s ->
  patch (ncs s + zlen pre) w s2 = COk (u, s3) ->
  lay s s3 (pre ++ Z.lor instr w :: post) /\ rds s3 = rds s2 /\ nds s3 = nds s2 /\ ncs s3 = ncs s2.
Proof.
  intros (R & N & D) Hwf H. unfold patch in H.
  destruct ((ncs s + zlen pre <? 0) || (ncs s + zlen pre >=? ncs s2)); [discriminate H|].
  injection H as _ <-. cbn [rcs ncs rds nds]. unfold lay; cbn [rcs ncs rds].
  assert (E1 : forall x, rev (pre ++ x :: post) ++ rcs s = rev post ++ x :: (rev pre ++ rcs s)).
  { intros x. rewrite rev_app_distr. cbn [rev]. rewrite <- !app_assoc. reflexivity. }
  conj; try reflexivity; try assumption.
  - rewrite R, !E1.
    replace (Z.to_nat (ncs s2 - 1 - (ncs s + zlen pre))) with (List.length (rev post)).
    + apply (update_nth_mid (fun i => Z.lor i w)).
    + rewrite rev_length, N. unfold zlen. rewrite app_length. cbn [List.length]. lia.
  - rewrite N. unfold zlen. rewrite !app_length. cbn [List.length]. reflexivity.
Qed.

(* ---- WRITE ---- *)
Lemma step_write v mid m r rr instr k0 k1 k2 a0 a1 a2 :
  at_ip v r mid instr ->
  decode instr = {| f_op := WRITE; f_k0 := k0; f_k1 := k1; f_k2 := k2; f_a0 := a0; f_a1 := a1; f_a2 := a2 |} ->
  step (St v mid m) r rr =
  lift (p0 <~ fetch (St v mid m) mid k0 a0 ;; let (v0, x0) := p0 in
        v1 <~ vPush (write_out v0 (to_string fmt_float x0)) mid VNil ;; Good (next v1 r)).
Proof.
  intros [Hi Hc] Hd. unfold decode in Hd. injection Hd as Eop E0 E1 E2 Ea0 Ea1 Ea2.
  unfold step. change (v_cs (St v mid m)) with (v_cs v). rewrite Hi. cbn [req obind].
  rewrite cur_mid_St, Hc. cbn [obind]. rewrite Eop, E0, Ea0. reflexivity.
Qed.

Lemma write_out_St v mid m s : write_out (St v mid m) s = St (write_out v s) mid m.
Proof. reflexivity. Qed.
