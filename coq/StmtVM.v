(* StmtVM.v — jumps, POP and back-patching: what the control-flow
   instructions do, and what patching an emitted jump does to the code. *)
Require Import Calc.Sem.
Require Import Calc.Base Calc.Bytecode Calc.BytecodeProofs Calc.Value Calc.FloatText Calc.Ast Calc.Compile Calc.VM
        Calc.MemProofs Calc.ExprSem Calc.ExprVM Calc.ExprCorrect.
Require Import Lia.
Open Scope Z_scope.

Lemma step_jmp v mid m r rr instr k0 k1 k2 a0 a1 a2 :
  at_ip v r mid instr ->
  decode instr = {| f_op := JMP; f_k0 := k0; f_k1 := k1; f_k2 := k2; f_a0 := a0; f_a1 := a1; f_a2 := a2 |} ->
  step (St v mid m) r rr = SNext (St v mid m) (with_ip r (r_ip r + a0 - 1)).
Proof.
  intros [Hi Hc] Hd. unfold decode in Hd. injection Hd as Eop E0 E1 E2 Ea0 Ea1 Ea2.
  unfold step. change (v_cs (St v mid m)) with (v_cs v). rewrite Hi. cbn [req obind].
  rewrite cur_mid_St, Hc. cbn [obind]. rewrite Eop, Ea0. reflexivity.
Qed.

Definition is_cjmp (op : Z) : bool := (op =? JMPF) || (op =? JMPT).

Lemma step_cjmp v mid m r rr instr op K A k1 k2 a1 a2 v0 x0 :
  at_ip v r mid instr -> is_cjmp op = true ->
  decode instr = {| f_op := op; f_k0 := K; f_k1 := k1; f_k2 := k2; f_a0 := A; f_a1 := a1; f_a2 := a2 |} ->
  fetch (St v mid m) mid K A = Good (v0, x0) ->
  step (St v mid m) r rr =
  match x0 with
  | VBool b =>
      if ((op =? JMPF) && negb b) || ((op =? JMPT) && b) then SNext v0 (with_ip r (r_ip r + a1 - 1))
      else SNext v0 r
  | VNil => SErr v0 (r_ctx r) (r_ip r) ErrNil [x0]
  | _ => SErr v0 (r_ctx r) (r_ip r) ErrType [x0]
  end.
Proof.
  intros [Hi Hc] Hj Hd Hf. unfold decode in Hd. injection Hd as Eop E0 E1 E2 Ea0 Ea1 Ea2.
  unfold step. change (v_cs (St v mid m)) with (v_cs v). rewrite Hi. cbn [req obind].
  rewrite cur_mid_St, Hc. cbn [obind]. rewrite Eop, E0, Ea0, Ea1.
  unfold is_cjmp in Hj.
  destruct (Z.eqb_spec op JMPF) as [->|NF].
  - rewrite Hf. destruct x0 as [| | | | |b|]; try reflexivity. destruct b; reflexivity.
  - destruct (Z.eqb_spec op JMPT) as [->|NT]; [|discriminate Hj].
    rewrite Hf. destruct x0 as [| | | | |b|]; try reflexivity. destruct b; reflexivity.
Qed.

Lemma step_pop v mid m r rr instr k0 k1 k2 a0 a1 a2 x :
  at_ip v r mid instr ->
  decode instr = {| f_op := POP; f_k0 := k0; f_k1 := k1; f_k2 := k2; f_a0 := a0; f_a1 := a1; f_a2 := a2 |} ->
  znth (m_stack m) (m_sp m - 1) = Some x ->
  step (St v mid m) r rr = SNext (St v mid (mdrop m)) r.
Proof.
  intros [Hi Hc] Hd Hx. unfold decode in Hd. injection Hd as Eop E0 E1 E2 Ea0 Ea1 Ea2.
  unfold step. change (v_cs (St v mid m)) with (v_cs v). rewrite Hi. cbn [req obind].
  rewrite cur_mid_St, Hc. cbn [obind]. rewrite Eop.
  change (is_binop POP) with false. cbv iota.
  change ((POP >=? TempFlag) && is_binop (POP - TempFlag)) with false. cbv iota.
  change (POP =? INC) with false. cbv iota.
  change ((POP =? NOT) || (POP =? FLIP) || (POP =? LEN)) with false. cbv iota.
  change ((POP =? NOT + TempFlag) || (POP =? FLIP + TempFlag) || (POP =? LEN + TempFlag)) with false. cbv iota.
  change (POP =? IX1) with false. change (POP =? IX2) with false. change (POP =? JMP) with false.
  change ((POP =? JMPF) || (POP =? JMPT)) with false. change (POP =? PUSH) with false.
  change (POP =? PUSHTMP) with false. change (POP =? POP) with true. cbv iota.
  rewrite (vPop_St v mid m x Hx). reflexivity.
Qed.

(* ---- back-patching ---- *)
Lemma update_nth_app_r {A} (f : A -> A) : forall (l1 l2 : list A) n,
  (List.length l1 <= n)%nat -> update_nth n f (l1 ++ l2) = l1 ++ update_nth (n - List.length l1) f l2.
Proof.
  induction l1 as [|x l1 IH]; intros l2 n H; [cbn; rewrite Nat.sub_0_r; reflexivity|].
  destruct n as [|n]; [cbn in H; lia|]. cbn [app update_nth List.length]. rewrite IH by (cbn in H; lia). reflexivity.
Qed.

Lemma update_nth_mid {A} (f : A -> A) (l1 l2 : list A) x :
  update_nth (List.length l1) f (l1 ++ x :: l2) = l1 ++ f x :: l2.
Proof. rewrite update_nth_app_r by lia. rewrite Nat.sub_diag. reflexivity. Qed.

(* patching the instruction that follows [pre] in the code emitted since [s] *)
Lemma patch_lay s s2 pre instr post w u s3 :
  lay s s2 (pre ++ instr :: post) -> wfcs s ->
  patch (ncs s + zlen pre) w s2 = COk (u, s3) ->
  lay s s3 (pre ++ Z.lor instr w :: post) /\ rds s3 = rds s2 /\ nds s3 = nds s2 /\ ncs s3 = ncs s2.
Proof.
  intros (R & N & D) Hwf H. unfold patch in H.
  destruct ((ncs s + zlen pre <? 0) || (ncs s + zlen pre >=? ncs s2)); [discriminate H|].
  injection H as _ <-. cbn [rcs ncs rds nds]. unfold lay; cbn [rcs ncs rds].
  assert (E1 : forall x, rev (pre ++ x :: post) ++ rcs s = rev post ++ x :: (rev pre ++ rcs s)).
  { intros x. rewrite rev_app_distr. cbn [rev]. rewrite <- !app_assoc. reflexivity. }
  conj; try reflexivity; try assumption.
  - rewrite R, !E1.
    replace (Z.to_nat (ncs s2 - 1 - (ncs s + zlen pre))) with (List.length (rev post)).
    + apply (update_nth_mid (fun i => Z.lor i w)).
    + rewrite rev_length, N. unfold zlen. rewrite app_length. cbn [List.length]. lia.
  - rewrite N. unfold zlen. rewrite !app_length. cbn [List.length]. reflexivity.
Qed.

(* ---- WRITE ---- *)
Lemma step_write v mid m r rr instr k0 k1 k2 a0 a1 a2 :
  at_ip v r mid instr ->
  decode instr = {| f_op := WRITE; f_k0 := k0; f_k1 := k1; f_k2 := k2; f_a0 := a0; f_a1 := a1; f_a2 := a2 |} ->
  step (St v mid m) r rr =
  lift (p0 <~ fetch (St v mid m) mid k0 a0 ;; let (v0, x0) := p0 in
        v1 <~ vPush (write_out v0 (to_string fmt_float x0)) mid VNil ;; Good (next v1 r)).
Proof.
  intros [Hi Hc] Hd. unfold decode in Hd. injection Hd as Eop E0 E1 E2 Ea0 Ea1 Ea2.
  unfold step. change (v_cs (St v mid m)) with (v_cs v). rewrite Hi. cbn [req obind].
  rewrite cur_mid_St, Hc. cbn [obind]. rewrite Eop, E0, Ea0. reflexivity.
Qed.

Lemma write_out_St v mid m s : write_out (St v mid m) s = St (write_out v s) mid m.
Proof. reflexivity. Qed.

(* ---- TOA, ATON ---- *)
Lemma step_toa v mid m r rr instr k0 k1 k2 a0 a1 a2 :
  at_ip v r mid instr ->
  decode instr = {| f_op := TOA; f_k0 := k0; f_k1 := k1; f_k2 := k2; f_a0 := a0; f_a1 := a1; f_a2 := a2 |} ->
  step (St v mid m) r rr =
  lift (p0 <~ fetch (St v mid m) mid k0 a0 ;; let (v0, x0) := p0 in
        v1 <~ vPush v0 mid (VStr (to_string fmt_float x0)) ;; Good (next v1 r)).
Proof.
  intros [Hi Hc] Hd. unfold decode in Hd. injection Hd as Eop E0 E1 E2 Ea0 Ea1 Ea2.
  unfold step. change (v_cs (St v mid m)) with (v_cs v). rewrite Hi. cbn [req obind].
  rewrite cur_mid_St, Hc. cbn [obind]. rewrite Eop, E0, Ea0. reflexivity.
Qed.

Lemma step_aton v mid m r rr instr k0 k1 k2 a0 a1 a2 :
  at_ip v r mid instr ->
  decode instr = {| f_op := ATON; f_k0 := k0; f_k1 := k1; f_k2 := k2; f_a0 := a0; f_a1 := a1; f_a2 := a2 |} ->
  step (St v mid m) r rr =
  lift (p0 <~ fetch (St v mid m) mid k0 a0 ;; let (v0, x0) := p0 in
        match x0 with
        | VStr s =>
            match atoi s with
            | Some i => v1 <~ vPush v0 mid (VInt i) ;; Good (next v1 r)
            | None =>
                match parse_float s with
                | PFOk f => v1 <~ vPush v0 mid (VFloat f) ;; Good (next v1 r)
                | _ => Good (SErr v0 (r_ctx r) (r_ip r) ErrConversion [x0])
                end
            end
        | _ => Good (SErr v0 (r_ctx r) (r_ip r) ErrType [x0])
        end).
Proof.
  intros [Hi Hc] Hd. unfold decode in Hd. injection Hd as Eop E0 E1 E2 Ea0 Ea1 Ea2.
  unfold step. change (v_cs (St v mid m)) with (v_cs v). rewrite Hi. cbn [req obind].
  rewrite cur_mid_St, Hc. cbn [obind]. rewrite Eop, E0, Ea0. reflexivity.
Qed.

(* ---- CALL ---- *)
Lemma step_call v mid m r rr instr k0 k1 k2 a0 a1 a2 :
  at_ip v r mid instr ->
  decode instr = {| f_op := CALL; f_k0 := k0; f_k1 := k1; f_k2 := k2; f_a0 := a0; f_a1 := a1; f_a2 := a2 |} ->
  step (St v mid m) r rr =
  lift (p0 <~ fetch (St v mid m) mid k0 a0 ;; let (v0, f) := p0 in
        match f with
        | VFun morph fid =>
            if negb (fn_params morph =? a1) then Good (SErr v0 (r_ctx r) (r_ip r) ErrArity [f])
            else
              fr <~ req (assoc_get (v_frames v0) fid) "nil closure frame pointer" ;;
              let (v1, ser) := bump v0 in
              m0 <~ get_mem v1 mid ;;
              pm <~ mPushFrame m0 a1 (fn_locals morph) ser ;;
              let (m1, g1) := pm in
              let m2 := {| m_sp := m_sp m1; m_fp := m_fp m1; m_clos := m_clos m1 ++ [fr]; m_stack := m_stack m1;
                           m_serials := m_serials m1; m_cap := m_cap m1; m_gen := m_gen m1 |} in
              v2 <~ vPush (set_mem v1 mid m2 g1) mid (VInt (r_ip r)) ;;
              Good (next v2 (with_ip r (fn_node morph - 1)))
        | _ => Good (SErr v0 (r_ctx r) (r_ip r) ErrType [f])
        end).
Proof.
  intros [Hi Hc] Hd. unfold decode in Hd. injection Hd as Eop E0 E1 E2 Ea0 Ea1 Ea2.
  unfold step. change (v_cs (St v mid m)) with (v_cs v). rewrite Hi. cbn [req obind].
  rewrite cur_mid_St, Hc. cbn [obind]. rewrite Eop, E0, Ea0, Ea1. reflexivity.
Qed.

(* ---- RET inside a call, returning a value that is not a function ---- *)
Lemma step_ret v mid m r rr instr k0 k1 k2 a0 a1 a2 :
  at_ip v r mid instr ->
  decode instr = {| f_op := RET; f_k0 := k0; f_k1 := k1; f_k2 := k2; f_a0 := a0; f_a1 := a1; f_a2 := a2 |} ->
  step (St v mid m) r rr =
  lift (p0 <~ fetch (St v mid m) mid k0 a0 ;; let (v0, x0) := p0 in
        pv <~ (match x0 with
               | VFun morph fid =>
                   match assoc_get (v_frames v0) fid with
                   | Some fr =>
                       let (va, owned) := frame_content v0 fr in
                       let (vb, nfid) := add_frame va owned in
                       Good (vb, VFun morph nfid)
                   | None => Good (v0, x0)
                   end
               | _ => Good (v0, x0)
               end) ;;
        let (v1, val) := pv in
        m0 <~ get_mem v1 mid ;;
        if zlen (m_fp m0) - 1 <? 0 then
          let m1 := with_stack m0 (m_stack m0) 0 in
          v2 <~ (if rr then vPush (set_mem v1 mid m1 false) mid val else Good (set_mem v1 mid m1 false)) ;;
          Good (next v2 (with_ip r (v_ncs v2 - 1)))
        else
          le <~ fp_at m0 (-1) ;;
          ipv <~ stack_get m0 le ;;
          match ipv with
          | VInt lip =>
              m1 <~ mPopFrame m0 ;;
              if zlen (m_clos m1) <? 1 then Abort "PopClosure: slice bounds out of range"
              else
                let m2 := {| m_sp := m_sp m1; m_fp := m_fp m1; m_clos := drop_last 1 (m_clos m1); m_stack := m_stack m1;
                             m_serials := m_serials m1; m_cap := m_cap m1; m_gen := m_gen m1 |} in
                v2 <~ vPush (set_mem v1 mid m2 false) mid val ;;
                Good (next v2 (with_ip r lip))
          | _ => Abort "can't pop instruction pointer"
          end).
Proof.
  intros [Hi Hc] Hd. unfold decode in Hd. injection Hd as Eop E0 E1 E2 Ea0 Ea1 Ea2.
  unfold step. change (v_cs (St v mid m)) with (v_cs v). rewrite Hi. cbn [req obind].
  rewrite cur_mid_St, Hc. cbn [obind]. rewrite Eop, E0, Ea0. reflexivity.
Qed.

(* ---- READ ---- *)
Lemma step_read v mid m r rr instr k0 k1 k2 a0 a1 a2 :
  at_ip v r mid instr ->
  decode instr = {| f_op := READ; f_k0 := k0; f_k1 := k1; f_k2 := k2; f_a0 := a0; f_a1 := a1; f_a2 := a2 |} ->
  step (St v mid m) r rr =
  lift (match v_in v with
        | [] => Good (SErr (St v mid m) (r_ctx r) (r_ip r) ErrRead [])
        | line :: rest => v1 <~ vPush (set_in (St v mid m) rest) mid (VStr line) ;; Good (next v1 r)
        end).
Proof.
  intros [Hi Hc] Hd. unfold decode in Hd. injection Hd as Eop E0 E1 E2 Ea0 Ea1 Ea2.
  unfold step. change (v_cs (St v mid m)) with (v_cs v). rewrite Hi. cbn [req obind].
  rewrite cur_mid_St, Hc. cbn [obind]. rewrite Eop. reflexivity.
Qed.

Lemma set_in_St v mid m l : set_in (St v mid m) l = St (set_in v l) mid m.
Proof. reflexivity. Qed.
