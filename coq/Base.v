(* Base.v — machine-level basics shared by all model layers:
   Go's 64-bit int (two's complement wrap), byte strings, IEEE binary64
   through Coq's primitive floats, decimal integer text as strconv.Itoa/Atoi. *)
From Coq Require Export ZArith List String Ascii Bool Lia.
From Coq Require Export Floats.
From Coq Require Import DecimalString DecimalZ Decimal.
Export ListNotations.
Open Scope string_scope.
Open Scope list_scope.
Open Scope Z_scope.
Infix "+++" := String.append (right associativity, at level 60).

(* ---------- byte strings ---------- *)

Definition byte_of_Z (z : Z) : ascii := ascii_of_N (Z.to_N (z mod 256)).
Definition Z_of_byte (a : ascii) : Z := Z.of_N (N_of_ascii a).

Fixpoint sb (l : list Z) : string :=
  match l with
  | [] => EmptyString
  | b :: r => String (byte_of_Z b) (sb r)
  end.

Fixpoint bytes_of (s : string) : list Z :=
  match s with
  | EmptyString => []
  | String a r => Z_of_byte a :: bytes_of r
  end.

Definition slen (s : string) : Z := Z.of_nat (String.length s).

(* s[i:j] for 0 <= i <= j <= len s *)
Definition ssub (s : string) (i j : Z) : string :=
  String.substring (Z.to_nat i) (Z.to_nat (j - i)) s.

Definition sget (s : string) (i : Z) : Z :=
  match String.get (Z.to_nat i) s with
  | Some a => Z_of_byte a
  | None => 0
  end.

Fixpoint sconcat (sep : string) (l : list string) : string :=
  match l with
  | [] => ""
  | [x] => x
  | x :: r => x +++ sep +++ sconcat sep r
  end.

(* Go's string(rune(b)) for a byte value b: UTF-8 encoding of U+00b *)
Definition utf8_of_byte (b : Z) : string :=
  if b <? 128 then sb [b]
  else sb [192 + b / 64; 128 + b mod 64].

(* ---------- 64-bit integers ---------- *)

Definition two63 : Z := 9223372036854775808.
Definition two64 : Z := 18446744073709551616.
Definition min_int : Z := - two63.
Definition max_int : Z := two63 - 1.

(* the value of a Go int after an overflowing operation *)
Definition wrap64 (z : Z) : Z := (z + two63) mod two64 - two63.
(* uint64(x) for a Go int x *)
Definition u64 (z : Z) : Z := z mod two64.
Definition in_int64 (z : Z) : bool := (min_int <=? z) && (z <=? max_int).

(* ---------- floats ---------- *)

Definition fnan : float := nan.

(* float from its IEEE-754 bit pattern (NaNs are all mapped to the one NaN) *)
Definition fb (bits : Z) : float :=
  let s := Z.testbit bits 63 in
  let e := Z.land (Z.shiftr bits 52) 2047 in
  let m := Z.land bits 4503599627370495 in
  let mag :=
    if e =? 2047 then (if m =? 0 then infinity else nan)
    else if e =? 0 then Z.ldexp (of_uint63 (Uint63.of_Z m)) (-1074)
    else Z.ldexp (of_uint63 (Uint63.of_Z (m + 4503599627370496))) (e - 1075) in
  if s then (- mag)%float else mag.

(* bit-level identity of two floats, NaN identified with NaN *)
Definition fsame (a b : float) : bool := PrimFloat.Leibniz.eqb a b.

(* float64(i) for a Go int i: correctly rounded.  hi*2^32 and lo are exact,
   their IEEE sum is the correctly rounded value of i. *)
Definition z2f (z : Z) : float :=
  let hi := z / 4294967296 in
  let lo := z mod 4294967296 in
  let fhi := if hi <? 0 then (- (of_uint63 (Uint63.of_Z (- hi))))%float
             else of_uint63 (Uint63.of_Z hi) in
  (fhi * 4294967296 + of_uint63 (Uint63.of_Z lo))%float.

(* Go's == on float64 *)
Definition feq (a b : float) : bool := (a =? b)%float.

(* ---------- decimal text of integers ---------- *)

Definition itoa (z : Z) : string := NilZero.string_of_int (Z.to_int z).

Definition udigits (s : string) : option Z :=
  match NilZero.uint_of_string s with
  | Some u => Some (Z.of_uint u)
  | None => None
  end.

(* strconv.Atoi: optional sign, at least one digit, only digits, value in int64 *)
Definition atoi (s : string) : option Z :=
  let r := match s with
           | String "+" t => udigits t
           | String "-" t => option_map Z.opp (udigits t)
           | _ => udigits s
           end in
  match r with
  | Some z => if in_int64 z then Some z else None
  | None => None
  end.
