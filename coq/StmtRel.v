(* StmtRel.v — the definitional semantics and the VM bind the built-in names to different
   representations of the same functions (a closure-table index on one side, an entry point and a frame
   on the other).  Statements that use the built-in names only to call them cannot tell: on worlds that
   agree everywhere else, ssem gives the same value or error, the same output, and worlds that again
   agree everywhere else — whatever the two sides' tables Bf1, Bf2 are. *)
Require Import Calc.Sem.
Require Import Calc.Base Calc.Bytecode Calc.Value Calc.FloatText Calc.Ast Calc.Compile Calc.VM
        Calc.ExprSem Calc.ExprVM Calc.ExprCorrect Calc.ExprTop Calc.ExprAssign Calc.ExprLen Calc.ExprSession Calc.LExprSem Calc.StmtSem.
Require Import Lia.
Open Scope Z_scope.

Section Rel.
Variables Bf1 Bf2 : ftab.
(* the two sides know the same user functions *)
Hypothesis Hbody : forall nm, ft_body Bf1 nm = ft_body Bf2 nm.
Hypothesis Harity : forall nm, ft_arity Bf1 nm = ft_arity Bf2 nm.

(* the names of functions: the built-ins and the user functions of the table *)
Definition is_bname (g : string) : bool :=
  match bop_of_name g with
  | Some _ => true
  | None => String.eqb g "read" || match ft_body Bf1 g with Some _ => true | None => false end
  end.

(* an expression that does not mention a function name *)
Fixpoint nobe (e : node) : bool :=
  match e with
  | NName g => negb (is_bname g)
  | NBin _ l r => nobe l && nobe r
  | NUn _ t => nobe t
  | NList l => forallb nobe l
  | NIndexAt a i => nobe a && nobe i
  | NIndexFromTo a f t => nobe a && nobe f && nobe t
  | _ => true
  end.

(* a statement that mentions function names only as the callee of nm(e) *)
Fixpoint nobs (t : node) : bool :=
  match t with
  | NAssign (NName g) e => negb (is_bname g) && (if pure e then nobe e else nobs e)
  | NBlock l => forallb nobs l
  | NIf c b => nobe c && nobs b
  | NIfElse c a b => nobe c && nobs a && nobs b
  | NWhile c b => nobe c && nobs b
  | NWrite e => nobe e
  | NCall (NName nm) args => forallb nobe args
  | _ => nobe t
  end.

Definition gsame (G1 G2 : globals) : Prop := forall g, is_bname g = false -> gval G1 g = gval G2 g.

Lemma den_same G1 G2 : gsame G1 G2 -> forall e, pure e = true -> nobe e = true -> den G1 e = den G2 e.
Proof.
  intros HG. apply (pure_induction (fun e => nobe e = true -> den G1 e = den G2 e)); try reflexivity.
  - intros g Hn. cbn [nobe] in Hn. cbn [den]. rewrite (HG g); [reflexivity|]. destruct (is_bname g); [discriminate Hn|reflexivity].
  - intros op c l r Hc _ _ IHl IHr Hn. cbn [nobe] in Hn. apply andb_prop in Hn. destruct Hn as [H1 H2].
    cbn [den]. rewrite Hc, (IHl H1), (IHr H2). reflexivity.
  - intros op t _ _ IHt Hn. cbn [nobe] in Hn. cbn [den]. rewrite (IHt Hn). reflexivity.
  - intros l _ HF Hn. cbn [nobe] in Hn. cbn [den].
    assert (E : seq_res (den G1) l = seq_res (den G2) l).
    { induction HF as [|x r Hx Hr IH]; [reflexivity|]. cbn [forallb] in Hn. apply andb_prop in Hn. destruct Hn as [H1 H2].
      cbn [seq_res]. rewrite (Hx H1), (IH H2). reflexivity. }
    rewrite E. reflexivity.
  - intros a i _ _ IHa IHi Hn. cbn [nobe] in Hn. apply andb_prop in Hn. destruct Hn as [H1 H2].
    cbn [den]. rewrite (IHa H1), (IHi H2). reflexivity.
  - intros a f t _ _ _ IHa IHf IHt Hn. cbn [nobe] in Hn. apply andb_prop in Hn. destruct Hn as [H12 H3].
    apply andb_prop in H12. destruct H12 as [H1 H2]. cbn [den]. rewrite (IHa H1), (IHf H2), (IHt H3). reflexivity.
Qed.

Lemma lden_same L G1 G2 : gsame G1 G2 -> forall e, lpure L e = true -> nobe e = true -> lden L G1 e = lden L G2 e.
Proof.
  intros HG. apply (lpure_induction L (fun e => nobe e = true -> lden L G1 e = lden L G2 e)); try reflexivity.
  - intros g Hn. cbn [nobe] in Hn. cbn [lden]. rewrite (HG g); [reflexivity|]. destruct (is_bname g); [discriminate Hn|reflexivity].
  - intros op c l r Hc _ _ IHl IHr Hn. cbn [nobe] in Hn. apply andb_prop in Hn. destruct Hn as [H1 H2].
    cbn [lden]. rewrite Hc, (IHl H1), (IHr H2). reflexivity.
  - intros op t _ _ IHt Hn. cbn [nobe] in Hn. cbn [lden]. rewrite (IHt Hn). reflexivity.
  - intros l _ HF Hn. cbn [nobe] in Hn. cbn [lden].
    assert (E : seq_res (lden L G1) l = seq_res (lden L G2) l).
    { induction HF as [|x r Hx Hr IH]; [reflexivity|]. cbn [forallb] in Hn. apply andb_prop in Hn. destruct Hn as [H1 H2].
      cbn [seq_res]. rewrite (Hx H1), (IH H2). reflexivity. }
    rewrite E. reflexivity.
  - intros a i _ _ IHa IHi Hn. cbn [nobe] in Hn. apply andb_prop in Hn. destruct Hn as [H1 H2].
    cbn [lden]. rewrite (IHa H1), (IHi H2). reflexivity.
  - intros a f t _ _ _ IHa IHf IHt Hn. cbn [nobe] in Hn. apply andb_prop in Hn. destruct Hn as [H12 H3].
    apply andb_prop in H12. destruct H12 as [H1 H2]. cbn [lden]. rewrite (IHa H1), (IHf H2), (IHt H3). reflexivity.
Qed.

Lemma gval_set_other G g x g' : g <> g' -> gval (sassoc_set G g x) g' = gval G g'.
Proof.
  intros NE. unfold gval. induction G as [|[k w] r IH]; cbn [sassoc_set sassoc_get].
  - destruct (String.eqb_spec g g'); [contradiction|reflexivity].
  - destruct (String.eqb k g) eqn:E; cbn [sassoc_get].
    + apply String.eqb_eq in E. subst k. destruct (String.eqb_spec g g'); [contradiction|reflexivity].
    + destruct (String.eqb k g'); [reflexivity|exact IH].
Qed.

(* the two worlds: equal off the built-in names; the built-in names bound as the two tables say; the
   same output written since the two sides held o1 and o2 (o1 = o2 = []: the same output altogether) *)
Record wrel (o1 o2 : list string) (W1 W2 : world) : Prop := {
  wr_glob : gsame (w_glob W1) (w_glob W2);
  wr_out : exists d, w_out W1 = d ++ o1 /\ w_out W2 = d ++ o2;
  wr_in : w_in W1 = w_in W2;
  wr_b : forall nm, is_bname nm = true ->
           fun_eqb (gval (w_glob W1) nm) (ft_val Bf1 nm) = fun_eqb (gval (w_glob W2) nm) (ft_val Bf2 nm) }.

Lemma wrel_glob o1 o2 W1 W2 g x :
  wrel o1 o2 W1 W2 -> is_bname g = false ->
  wrel o1 o2 (wglob W1 (sassoc_set (w_glob W1) g x)) (wglob W2 (sassoc_set (w_glob W2) g x)).
Proof.
  intros [Hg Ho Hi Hb] Hn. constructor; cbn [wglob w_glob w_out w_in]; try assumption.
  - intros g' Hg'. destruct (String.eqb_spec g g') as [->|NE]; [rewrite !gval_set_same; reflexivity|].
    rewrite !gval_set_other by exact NE. exact (Hg g' Hg').
  - intros nm Hnm. assert (NE : g <> nm) by (intros ->; rewrite Hn in Hnm; discriminate).
    rewrite !gval_set_other by exact NE. exact (Hb nm Hnm).
Qed.

Lemma bop_sem_rel o1 o2 b W1 W2 x :
  wrel o1 o2 W1 W2 ->
  snd (bop_sem b W1 x) = snd (bop_sem b W2 x) /\ wrel o1 o2 (wbump (fst (bop_sem b W1 x))) (wbump (fst (bop_sem b W2 x))).
Proof.
  intros [Hg Ho Hi Hb]. destruct b; cbn [bop_sem fst snd]; (split; [reflexivity|]);
    constructor; cbn [wbump wwrite w_glob w_out w_in]; try assumption.
  destruct Ho as [d0 [E1 E2]]. exists (to_string fmt_float x :: d0). rewrite E1, E2. split; reflexivity.
Qed.

(* the bodies of the user functions do not read function names as data either *)
Hypothesis Hnob : forall nm body, ft_body Bf1 nm = Some body -> nobe body = true.

Lemma seq_den_same G1 G2 : gsame G1 G2 -> forall l, forallb pure l = true -> forallb nobe l = true ->
  seq_res (den G1) l = seq_res (den G2) l.
Proof.
  intros HG. induction l as [|x r IH]; intros Hp Hn; [reflexivity|].
  cbn [forallb] in Hp, Hn. apply andb_prop in Hp. destruct Hp as [Hp1 Hp2]. apply andb_prop in Hn. destruct Hn as [Hn1 Hn2].
  cbn [seq_res]. rewrite (den_same _ _ HG x Hp1 Hn1), (IH Hp2 Hn2). reflexivity.
Qed.

Lemma ucall_related o1 o2 n W1 W2 nm args W1' r :
  forallb pure args = true -> forallb nobe args = true -> bop_of_name nm = None -> wrel o1 o2 W1 W2 ->
  ucall_sem Bf1 n W1 nm args = Some (W1', r) ->
  exists W2', ucall_sem Bf2 n W2 nm args = Some (W2', r) /\ wrel o1 o2 W1' W2'.
Proof.
  intros Hp Hn Eb HR Hs. pose proof HR as [Hg Ho Hi Hb]. unfold ucall_sem in *.
  rewrite <- Hbody, <- Harity. destruct (ft_body Bf1 nm) as [body|] eqn:Ebody; [|discriminate Hs].
  assert (Hbn : is_bname nm = true) by (unfold is_bname; rewrite Eb, Ebody; apply orb_true_r).
  rewrite <- (Hb nm Hbn).
  destruct (Nat.leb (heights args) n && fun_eqb (gval (w_glob W1) nm) (ft_val Bf1 nm)); [|discriminate Hs].
  rewrite <- (seq_den_same _ _ Hg args Hp Hn).
  destruct (seq_res (den (w_glob W1)) args) as [xs|err] eqn:Exs.
  - destruct (ft_arity Bf1 nm =? zlen args).
    2:{ injection Hs as <- <-. exists W2. split; [reflexivity|exact HR]. }
    destruct (lpure (repeat VNil (List.length args)) body && Nat.leb (height body) n) eqn:Ec; [|discriminate Hs].
    assert (Hlp : lpure xs body = true).
    { apply andb_prop in Ec. destruct Ec as [Ec _].
      rewrite (lpure_len xs (repeat VNil (List.length args)) body); [exact Ec|].
      unfold zlen. rewrite repeat_length, (seq_res_length _ _ _ Exs). reflexivity. }
    rewrite <- (lden_same xs _ _ Hg body Hlp (Hnob nm body Ebody)).
    destruct (lden xs (w_glob W1) body) as [y|err].
    + destruct (is_fun y); [discriminate Hs|]. injection Hs as <- <-. eexists. split; [reflexivity|].
      constructor; cbn [wbump w_glob w_out w_in]; assumption.
    + injection Hs as <- <-. eexists. split; [reflexivity|].
      constructor; cbn [wbump w_glob w_out w_in]; assumption.
  - injection Hs as <- <-. exists W2. split; [reflexivity|exact HR].
Qed.

Theorem ssem_related o1 o2 : forall n t W1 W2 W1' r,
  wstmt t = true -> nobs t = true -> wrel o1 o2 W1 W2 ->
  ssem Bf1 n W1 t = Some (W1', r) ->
  exists W2', ssem Bf2 n W2 t = Some (W2', r) /\ wrel o1 o2 W1' W2'.
Proof.
  induction n as [|n IH]; intros t W1 W2 W1' r Hw Hn HR Hs; [discriminate Hs|].
  pose proof HR as [Hg Ho Hi Hb].
  assert (Pure : pure t = true -> nobe t = true ->
            (if Nat.leb (height t) (S n) then Some (W1, den (w_glob W1) t) else None) = Some (W1', r) ->
            exists W2', (if Nat.leb (height t) (S n) then Some (W2, den (w_glob W2) t) else None) = Some (W2', r) /\
                        wrel o1 o2 W1' W2').
  { intros Hp Hnb H. destruct (Nat.leb (height t) (S n)); [|discriminate H]. injection H as <- <-.
    exists W2. rewrite (den_same _ _ Hg t Hp Hnb). split; [reflexivity|exact HR]. }
  destruct t; try (apply Pure; [exact Hw|exact Hn|exact Hs]); try discriminate Hw.
  - (* NIf *)
    cbn [wstmt] in Hw. apply andb_prop in Hw. destruct Hw as [Hc Hb']. cbn [nobs] in Hn. apply andb_prop in Hn. destruct Hn as [Hn1 Hn2].
    cbn [ssem] in Hs |- *. destruct (Nat.leb (height t1) n); [|discriminate Hs].
    rewrite <- (den_same _ _ Hg t1 Hc Hn1). destruct (cond_res (den (w_glob W1) t1)) as [[|]|e].
    + exact (IH t2 W1 W2 W1' r Hb' Hn2 HR Hs).
    + injection Hs as <- <-. exists W2. split; [reflexivity|exact HR].
    + injection Hs as <- <-. exists W2. split; [reflexivity|exact HR].
  - (* NIfElse *)
    cbn [wstmt] in Hw. apply andb_prop in Hw. destruct Hw as [Hw Hb2]. apply andb_prop in Hw. destruct Hw as [Hc Hb1].
    cbn [nobs] in Hn. apply andb_prop in Hn. destruct Hn as [Hn Hn3]. apply andb_prop in Hn. destruct Hn as [Hn1 Hn2].
    cbn [ssem] in Hs |- *. destruct (Nat.leb (height t1) n); [|discriminate Hs].
    rewrite <- (den_same _ _ Hg t1 Hc Hn1). destruct (cond_res (den (w_glob W1) t1)) as [[|]|e].
    + exact (IH t2 W1 W2 W1' r Hb1 Hn2 HR Hs).
    + exact (IH t3 W1 W2 W1' r Hb2 Hn3 HR Hs).
    + injection Hs as <- <-. exists W2. split; [reflexivity|exact HR].
  - (* NWhile *)
    cbn [wstmt] in Hw. apply andb_prop in Hw. destruct Hw as [Hc Hb']. cbn [nobs] in Hn. apply andb_prop in Hn. destruct Hn as [Hn1 Hn2].
    rewrite ssem_while in Hs |- *. destruct (Nat.leb (height t1) n); [|discriminate Hs].
    clear Pure Hg Ho Hi Hb. revert Hs. generalize VNil. generalize n at 2 4. intros k. revert W1 W2 HR.
    induction k as [|k IHk]; intros W1 W2 HR last Hs; [discriminate Hs|]. cbn [swhile_of] in *.
    rewrite <- (den_same _ _ (wr_glob _ _ _ _ HR) t1 Hc Hn1). destruct (cond_res (den (w_glob W1) t1)) as [[|]|e].
    + destruct (ssem Bf1 n W1 t2) as [[W1a [v|e]]|] eqn:Eb; try discriminate Hs.
      * destruct (IH t2 W1 W2 W1a (Ok v) Hb' Hn2 HR Eb) as (W2a & E2 & HR2). rewrite E2.
        exact (IHk W1a W2a HR2 v Hs).
      * injection Hs as <- <-. destruct (IH t2 W1 W2 W1a (Fail e) Hb' Hn2 HR Eb) as (W2a & E2 & HR2). rewrite E2.
        exists W2a. split; [reflexivity|exact HR2].
    + injection Hs as <- <-. exists W2. split; [reflexivity|exact HR].
    + injection Hs as <- <-. exists W2. split; [reflexivity|exact HR].
  - (* NAssign *)
    destruct t1; try discriminate Hw. cbn [wstmt] in Hw. unfold assign_ok in Hw.
    cbn [nobs] in Hn. apply andb_prop in Hn. destruct Hn as [Hn1 Hn2]. apply negb_true_iff in Hn1.
    cbn [ssem] in Hs |- *. destruct (pure t2) eqn:Hp2.
    + destruct (Nat.leb (height t2) n); [|discriminate Hs].
      injection Hs as <- <-. cbn [sem_simple]. rewrite <- (den_same _ _ Hg t2 Hp2 Hn2).
      destruct (den (w_glob W1) t2) as [x|err]; cbn [fst snd].
      * destruct (is_nil x); cbn [fst snd].
        -- eexists. split; [reflexivity|]. rewrite !wglob_same. exact HR.
        -- eexists. split; [reflexivity|]. apply wrel_glob; assumption.
      * eexists. split; [reflexivity|]. rewrite !wglob_same. exact HR.
    + cbn [orb] in Hw. assert (Hw2 : wstmt t2 = true) by (destruct t2; try discriminate Hw; exact Hw).
      destruct (ssem Bf1 n W1 t2) as [[W1a [y|err]]|] eqn:E2; try discriminate Hs.
      * destruct (IH t2 W1 W2 W1a (Ok y) Hw2 Hn2 HR E2) as (W2a & E2' & HR2). rewrite E2'.
        destruct (is_nil y); injection Hs as <- <-.
        -- exists W2a. split; [reflexivity|exact HR2].
        -- eexists. split; [reflexivity|]. apply wrel_glob; assumption.
      * injection Hs as <- <-. destruct (IH t2 W1 W2 W1a (Fail err) Hw2 Hn2 HR E2) as (W2a & E2' & HR2). rewrite E2'.
        exists W2a. split; [reflexivity|exact HR2].
  - (* NBlock *)
    cbn [wstmt] in Hw. cbn [nobs] in Hn. rewrite ssem_block in Hs |- *.
    assert (Hall : forallb wstmt l = true) by (destruct l; [discriminate Hw|exact Hw]).
    clear Hw Pure Hg Ho Hi Hb. revert W1 W2 HR Hs Hall Hn.
    induction l as [|x l IHl]; intros W1 W2 HR Hs Hall Hn.
    + cbn [sblock_of] in *. injection Hs as <- <-. exists W2. split; [reflexivity|exact HR].
    + cbn [forallb] in Hall, Hn. apply andb_prop in Hall. destruct Hall as [Hx Hl]. apply andb_prop in Hn. destruct Hn as [Hnx Hnl].
      destruct l as [|y l'].
      * cbn [sblock_of] in *. exact (IH x W1 W2 W1' r Hx Hnx HR Hs).
      * rewrite sblock_cons2 in Hs |- *.
        destruct (ssem Bf1 n W1 x) as [[W1a [v|e]]|] eqn:Ex; try discriminate Hs.
        -- destruct (IH x W1 W2 W1a (Ok v) Hx Hnx HR Ex) as (W2a & E2 & HR2). rewrite E2.
           exact (IHl W1a W2a HR2 Hs Hl Hnl).
        -- injection Hs as <- <-. destruct (IH x W1 W2 W1a (Fail e) Hx Hnx HR Ex) as (W2a & E2 & HR2). rewrite E2.
           exists W2a. split; [reflexivity|exact HR2].
  - (* NCall *)
    destruct t; try discriminate Hw. cbn [wstmt is_bcall] in Hw. cbn [nobs] in Hn. destruct args as [|a [|a2 l]].
    + (* read(), or a user function without parameters *)
      cbn [ssem] in Hs |- *. destruct (String.eqb n0 "read") eqn:Er.
      2:{ destruct (bop_of_name n0) eqn:Eb; [discriminate Hs|]. exact (ucall_related o1 o2 n W1 W2 n0 [] W1' r Hw Hn Eb HR Hs). }
      apply String.eqb_eq in Er. subst n0.
      assert (Hbn : is_bname "read" = true) by reflexivity.
      rewrite <- (Hb "read" Hbn).
      destruct (Nat.leb 1 n && fun_eqb (gval (w_glob W1) "read") (ft_val Bf1 "read")); [|discriminate Hs].
      injection Hs as <- <-. unfold read_sem. rewrite <- Hi.
      destruct (w_in W1) as [|l0 rest] eqn:Ein; cbn [fst snd].
      * eexists. split; [reflexivity|]. constructor; cbn [wbump w_glob w_out w_in]; try assumption.
        rewrite <- Hi, Ein. reflexivity.
      * eexists. split; [reflexivity|]. constructor; cbn [wbump w_glob w_out w_in]; try assumption. reflexivity.
    + cbn [forallb] in Hw, Hn. rewrite andb_true_r in Hw, Hn. cbn [ssem] in Hs |- *.
      destruct (bop_of_name n0) as [b|] eqn:Eb.
      2:{ assert (Hw1 : forallb pure [a] = true) by (cbn [forallb]; rewrite Hw; reflexivity).
          assert (Hn1 : forallb nobe [a] = true) by (cbn [forallb]; rewrite Hn; reflexivity).
          exact (ucall_related o1 o2 n W1 W2 n0 [a] W1' r Hw1 Hn1 Eb HR Hs). }
      assert (Hbn : is_bname n0 = true) by (unfold is_bname; rewrite Eb; reflexivity).
      rewrite <- (Hb n0 Hbn).
      destruct (Nat.leb (height a) n && Nat.leb 2 n && fun_eqb (gval (w_glob W1) n0) (ft_val Bf1 n0)); [|discriminate Hs].
      rewrite <- (den_same _ _ Hg a Hw Hn). destruct (den (w_glob W1) a) as [x|err].
      * injection Hs as <- <-. destruct (bop_sem_rel o1 o2 b W1 W2 x HR) as [E1 E2]. rewrite E1.
        eexists. split; [reflexivity|exact E2].
      * injection Hs as <- <-. exists W2. split; [reflexivity|exact HR].
    + (* two or more arguments *)
      cbn [ssem] in Hs |- *. destruct (bop_of_name n0) eqn:Eb; [discriminate Hs|].
      destruct (String.eqb n0 "read"); [discriminate Hs|].
      exact (ucall_related o1 o2 n W1 W2 n0 _ W1' r Hw Hn Eb HR Hs).
  - (* NWrite *)
    cbn [wstmt] in Hw. cbn [nobs] in Hn. cbn [ssem] in Hs |- *. destruct (Nat.leb (height t) n); [|discriminate Hs].
    rewrite <- (den_same _ _ Hg t Hw Hn). destruct (den (w_glob W1) t) as [x|err]; injection Hs as <- <-.
    + eexists. split; [reflexivity|]. constructor; cbn [wwrite w_glob w_out w_in]; try assumption.
      destruct Ho as [d0 [E1 E2]]. exists (to_string fmt_float x :: d0). rewrite E1, E2. split; reflexivity.
    + exists W2. split; [reflexivity|exact HR].
Qed.
End Rel.
