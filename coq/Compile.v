(* Compile.v — model of types/node/bytecoder.go (with bc/bc.go flags): the
   bytecode compiler.  Same emission order, same partial instruction words
   OR-ed together, same back-patching.  State: code segment, data segment and
   debug map, the two segments kept reversed with their lengths.  Outcomes:
   COk, CRange (the RangeError panic that ByteCode turns into a compile
   error) and CAbort (any other Go panic). *)
Require Import Calc.Base Calc.Bytecode Calc.Value Calc.Ast.
Open Scope Z_scope.

Record flags := {
  Discard : bool; ForbidTemp : bool; AcceptTemp : bool; Returning : bool;
  OpDepth : Z; InFor : bool; InFunc : bool; CtxID : Z; CtxLo : Z; CtxHi : Z }.

Definition fl0 : flags :=
  {| Discard := false; ForbidTemp := false; AcceptTemp := false; Returning := false;
     OpDepth := 0; InFor := false; InFunc := false; CtxID := 0; CtxLo := 0; CtxHi := 0 |}.

(* Data.Pass(): the non-transitive flags are dropped *)
Definition pass (f : flags) : flags :=
  {| Discard := false; ForbidTemp := ForbidTemp f; AcceptTemp := false; Returning := false;
     OpDepth := OpDepth f; InFor := InFor f; InFunc := InFunc f;
     CtxID := CtxID f; CtxLo := CtxLo f; CtxHi := CtxHi f |}.

Definition withDiscard (b : bool) (f : flags) := {| Discard := b; ForbidTemp := ForbidTemp f; AcceptTemp := AcceptTemp f; Returning := Returning f; OpDepth := OpDepth f; InFor := InFor f; InFunc := InFunc f; CtxID := CtxID f; CtxLo := CtxLo f; CtxHi := CtxHi f |}.
Definition withForbidTemp (b : bool) (f : flags) := {| Discard := Discard f; ForbidTemp := b; AcceptTemp := AcceptTemp f; Returning := Returning f; OpDepth := OpDepth f; InFor := InFor f; InFunc := InFunc f; CtxID := CtxID f; CtxLo := CtxLo f; CtxHi := CtxHi f |}.
Definition withAcceptTemp (b : bool) (f : flags) := {| Discard := Discard f; ForbidTemp := ForbidTemp f; AcceptTemp := b; Returning := Returning f; OpDepth := OpDepth f; InFor := InFor f; InFunc := InFunc f; CtxID := CtxID f; CtxLo := CtxLo f; CtxHi := CtxHi f |}.
Definition withReturning (b : bool) (f : flags) := {| Discard := Discard f; ForbidTemp := ForbidTemp f; AcceptTemp := AcceptTemp f; Returning := b; OpDepth := OpDepth f; InFor := InFor f; InFunc := InFunc f; CtxID := CtxID f; CtxLo := CtxLo f; CtxHi := CtxHi f |}.
Definition withOpDepth (d : Z) (f : flags) := {| Discard := Discard f; ForbidTemp := ForbidTemp f; AcceptTemp := AcceptTemp f; Returning := Returning f; OpDepth := d; InFor := InFor f; InFunc := InFunc f; CtxID := CtxID f; CtxLo := CtxLo f; CtxHi := CtxHi f |}.
Definition withInFor (b : bool) (f : flags) := {| Discard := Discard f; ForbidTemp := ForbidTemp f; AcceptTemp := AcceptTemp f; Returning := Returning f; OpDepth := OpDepth f; InFor := b; InFunc := InFunc f; CtxID := CtxID f; CtxLo := CtxLo f; CtxHi := CtxHi f |}.
Definition withInFunc (b : bool) (f : flags) := {| Discard := Discard f; ForbidTemp := ForbidTemp f; AcceptTemp := AcceptTemp f; Returning := Returning f; OpDepth := OpDepth f; InFor := InFor f; InFunc := b; CtxID := CtxID f; CtxLo := CtxLo f; CtxHi := CtxHi f |}.
Definition withCtx (id lo hi : Z) (f : flags) := {| Discard := Discard f; ForbidTemp := ForbidTemp f; AcceptTemp := AcceptTemp f; Returning := Returning f; OpDepth := OpDepth f; InFor := InFor f; InFunc := InFunc f; CtxID := id; CtxLo := lo; CtxHi := hi |}.
Definition withCtxID (id : Z) (f : flags) := withCtx id (CtxLo f) (CtxHi f) f.

(* ---- compilation result being built ---- *)
Record cstate := {
  rcs : list Z;       (* code segment, last instruction first *)
  ncs : Z;            (* len(CS) *)
  rds : list value;   (* data segment, last entry first *)
  nds : Z;            (* len(DS) *)
  dbg : list (Z * (string * Z))   (* call address -> (callee name, argument count) *)
}.

Definition cstate0 : cstate := {| rcs := []; ncs := 0; rds := []; nds := 0; dbg := [] |}.

Inductive cres (A : Type) := COk (a : A) | CRange | CAbort (why : string).
Arguments COk {A} a. Arguments CRange {A}. Arguments CAbort {A} why.

Definition CM (A : Type) := cstate -> cres (A * cstate).
Definition cret {A} (a : A) : CM A := fun s => COk (a, s).
Definition cbind {A B} (m : CM A) (f : A -> CM B) : CM B :=
  fun s => match m s with
           | COk (a, s') => f a s'
           | CRange => CRange
           | CAbort w => CAbort w
           end.
Definition cabort {A} (w : string) : CM A := fun _ => CAbort w.
Notation "x <- m ;; k" := (cbind m (fun x => k)) (at level 61, m at next level, right associativity).
Notation "m ;;; k" := (cbind m (fun _ => k)) (at level 61, right associativity).

Definition emit (i : Z) : CM unit :=
  fun s => COk (tt, {| rcs := i :: rcs s; ncs := ncs s + 1; rds := rds s; nds := nds s; dbg := dbg s |}).
Definition here : CM Z := fun s => COk (ncs s, s).
Definition add_ds (v : value) : CM Z :=
  fun s => COk (nds s, {| rcs := rcs s; ncs := ncs s; rds := v :: rds s; nds := nds s + 1; dbg := dbg s |}).
Definition put_dbg (addr : Z) (name : string) (argc : Z) : CM unit :=
  fun s => COk (tt, {| rcs := rcs s; ncs := ncs s; rds := rds s; nds := nds s;
                       dbg := (addr, (name, argc)) :: filter (fun e => negb (fst e =? addr)) (dbg s) |}).

Fixpoint update_nth {A} (n : nat) (f : A -> A) (l : list A) : list A :=
  match l, n with
  | [], _ => []
  | x :: r, O => f x :: r
  | x :: r, S k => x :: update_nth k f r
  end.

(* CS[addr] |= w : back-patching *)
Definition patch (addr w : Z) : CM unit :=
  fun s =>
    if (addr <? 0) || (addr >=? ncs s) then CAbort "patch: index out of range"
    else COk (tt, {| rcs := update_nth (Z.to_nat (ncs s - 1 - addr)) (fun i => Z.lor i w) (rcs s);
                     ncs := ncs s; rds := rds s; nds := nds s; dbg := dbg s |}).

(* EncodeSrc, its panic is the RangeError (a wrong selector is another panic) *)
Definition enc (sel kind addr : Z) : CM Z :=
  fun s => match EncodeSrc sel kind addr with
           | Some w => COk (w, s)
           | None => if (0 <=? sel) && (sel <=? 2) then CRange else CAbort "wrong srcsel"
           end.

Definition src_of (i sel : Z) : CM Z :=
  fun s => match Src i sel with
           | Some k => COk (k, s)
           | None => CAbort "wrong srcsel"
           end.

Definition binop_opcode (op : string) : option Z :=
  if String.eqb op "+" then Some ADD else if String.eqb op "-" then Some SUB
  else if String.eqb op "*" then Some MUL else if String.eqb op "/" then Some DIV
  else if String.eqb op "%" then Some MOD
  else if String.eqb op "&" || String.eqb op "&&" then Some AND
  else if String.eqb op "|" || String.eqb op "||" then Some OR
  else if String.eqb op "==" then Some EQ else if String.eqb op "!=" then Some NE
  else if String.eqb op "<" then Some LT else if String.eqb op "<=" then Some LE
  else if String.eqb op ">" then Some GT else if String.eqb op ">=" then Some GE
  else if String.eqb op "<<" then Some LSH else if String.eqb op ">>" then Some RSH
  else None.

Definition tempifyDepth := 0.

(* byteCode of the leaves that reference variables (Local, Closure, Name) *)
Definition comp_ref (n : node) (srcsel : Z) : CM Z :=
  match n with
  | NLocal ix _ => enc srcsel AddrLcl ix
  | NClosure ix _ => enc srcsel AddrCls ix
  | NName s => ix <- add_ds (VStr s) ;; enc srcsel AddrGbl ix
  | _ => cabort "variable reference expected"
  end.

(* the values of the longest prefix of constant elements *)
Fixpoint const_prefix (l : list node) : list value :=
  match l with
  | [] => []
  | x :: r => match constant x with
              | Some v => v :: const_prefix r
              | None => []
              end
  end.

Definition comp_const (v : value) (srcsel : Z) : CM Z :=
  ix <- add_ds v ;; enc srcsel AddrDS ix.

(* BinOp.byteCode, parameterised by how the two operands are compiled so that
   unary minus (compiled as -1 * target) can reuse it *)
Definition comp_binop (opname : string)
           (compL compR : Z -> flags -> CM Z)
           (right_has_call non_comparable same_operands : bool)
           (srcsel : Z) (fl : flags) : CM Z :=
  match binop_opcode opname with
  | None => cabort "unexpected op"
  | Some op =>
      let forbidTemp := ForbidTemp fl || right_has_call in
      let opDepth := OpDepth fl in
      left <- compL 1 (withOpDepth (opDepth + 1) (withForbidTemp forbidTemp (pass fl))) ;;
      let temp0 := Src1 left =? AddrTmp in
      temp1 <- (if negb forbidTemp && (opDepth >? tempifyDepth) && negb temp0 then
                  w1 <- enc 1 AddrTmp 0 ;; w0 <- enc 0 (Src1 left) (Src1Addr left) ;;
                  emit (Z.lor (Z.lor (New MOV) w1) w0) ;;; cret true
                else cret temp0) ;;
      (if temp1 && negb non_comparable && same_operands then
         emit (New PUSHTMP) ;;;
         w <- enc 0 AddrStck 0 ;; emit (Z.lor (New (Z.lor op TempFlag)) w)
       else
         right <- compR 0 (withForbidTemp true (pass fl)) ;;
         emit (if temp1 then Z.lor (New (Z.lor op TempFlag)) right
               else Z.lor (Z.lor (New op) left) right)) ;;;
      temp2 <- (if temp1 && (opDepth =? 0) && negb (Discard fl) && negb (AcceptTemp fl) then
                  emit (New PUSHTMP) ;;; cret false
                else cret temp1) ;;
      enc srcsel (if temp2 then AddrTmp else AddrStck) 0
  end.

(* condition(): compile a condition and the jump that tests it, return the
   jump's address.  A leading "!" is folded into the jump. *)
Definition cond_negated (c : node) : bool :=
  match c with NUn op _ => String.eqb op "!" | _ => false end.
Notation cond_of c :=
  (match c with
   | NUn op t => if String.eqb op "!" then t else c
   | _ => c
   end) (only parsing).

Definition comp_condition (compc : Z -> flags -> CM Z) (negated falsey : bool)
           (srcsel : Z) (fl : flags) : CM Z :=
  let jt := if Bool.eqb falsey negated then JMPT else JMPF in
  condCode <- compc srcsel (pass fl) ;;
  addr <- here ;;
  emit (Z.lor (New jt) condCode) ;;; cret addr.

Fixpoint comp (n : node) (srcsel : Z) (fl : flags) {struct n} : CM Z :=
  match n with
  | NInvalid => cabort "invalid node"
  | NInt i => comp_const (VInt i) srcsel
  | NBool b => comp_const (VBool b) srcsel
  | NFloat f => comp_const (VFloat f) srcsel
  | NStr s => comp_const (VStr s) srcsel
  | NLocal _ _ | NClosure _ _ | NName _ => comp_ref n srcsel

  | NList elems =>
      (* the longest constant prefix goes to the data segment *)
      let ary := const_prefix elems in
      let k := List.length ary in
      ix <- add_ds (VArr ary) ;;
      if Nat.leb (List.length elems) k then enc srcsel AddrDS ix
      else
        (fix go (l : list node) (i : nat) : CM unit :=
           match l with
           | [] => cret tt
           | x :: l' =>
               if Nat.ltb i k then go l' (S i)
               else
                 i0 <- comp x 0 (withOpDepth 0 (pass fl)) ;;
                 w <- (if Nat.eqb i k then enc 1 AddrDS ix else enc 1 AddrStck 0) ;;
                 emit (Z.lor (Z.lor i0 (New ARR)) w) ;;; go l' (S i)
           end) elems O ;;;
        enc srcsel AddrStck 0

  | NFunction params body localcnt =>
      jmpAddr <- here ;;
      emit (New JMP) ;;;
      let subfl := withReturning true (withInFunc true (withOpDepth 0 (withForbidTemp false (withInFor false (pass fl))))) in
      bodyAddr <- here ;;
      b <- comp body 0 subfl ;;
      (if negb (Src0 b =? AddrInv) then emit (Z.lor (New RET) b) else cret tt) ;;;
      (if localcnt >=? 65536 then (fun _ => CRange) else cret tt) ;;;
      ix <- add_ds (VFun (pack_function bodyAddr (Z.of_nat (List.length params)) localcnt) (-1)) ;;
      funcAddr <- here ;;
      w <- enc 0 AddrDS ix ;;
      emit (Z.lor (New FUNC) w) ;;;
      wj <- enc 0 AddrImm (funcAddr - jmpAddr) ;;
      patch jmpAddr wj ;;;
      enc srcsel AddrStck 0

  | NCall name args =>
      let subfl := withOpDepth 0 (pass fl) in
      (fix go (l : list node) : CM unit :=
         match l with
         | [] => cret tt
         | a :: l' =>
             i <- comp a 0 subfl ;;
             (if negb (Src0 i =? AddrStck) && negb (Src0 i =? AddrInv)
              then emit (Z.lor i (New PUSH)) else cret tt) ;;; go l'
         end) args ;;;
      match node_name name with
      | None => cabort "function name is not held by a named node"
      | Some nm =>
          addr <- here ;;
          put_dbg addr nm (Z.of_nat (List.length args)) ;;;
          i <- comp_ref name 0 ;;
          w <- enc 1 AddrImm (Z.of_nat (List.length args)) ;;
          emit (Z.lor (Z.lor i (New CALL)) w) ;;;
          enc srcsel AddrStck 0
      end

  | NReturn t =>
      (if InFor fl then
         w0 <- enc 0 AddrImm 0 ;; w1 <- enc 1 AddrImm (CtxHi fl) ;;
         emit (Z.lor (Z.lor (New RCONT) w0) w1)
       else cret tt) ;;;
      target <- comp t 0 (pass fl) ;;
      emit (Z.lor (New RET) target) ;;;
      enc srcsel (if InFunc fl then AddrInv else AddrStck) 0

  | NYield t =>
      target <- comp t 0 (pass fl) ;;
      emit (Z.lor (New YIELD) target) ;;;
      if Discard fl then enc srcsel AddrInv 0
      else emit (New PUSHTMP) ;;; enc srcsel AddrStck 0

  | NAssign vref e =>
      let inc :=
        match e with
        | NBin op l r =>
            String.eqb op "+" &&
            ((match r with NInt 1 => node_eqb l vref | _ => false end) ||
             (match l with NInt 1 => node_eqb r vref | _ => false end))
        | _ => false
        end in
      if inc then
        w <- comp_ref vref 0 ;;
        let instr := Z.lor (New INC) w in
        emit instr ;;;
        enc srcsel (Src0 instr) (Src0Addr instr)
      else
        srcInstr <- comp e 0 (withAcceptTemp true (pass fl)) ;;
        w <- comp_ref vref 1 ;;
        let instr := Z.lor (Z.lor srcInstr w) (New MOV) in
        emit instr ;;;
        enc srcsel (Src1 instr) (Src1Addr instr)

  | NBin op l r =>
      comp_binop op (comp l) (comp r) (has_call r)
                 (is_list_node l || is_list_node r) (node_eqb l r) srcsel fl

  | NUn op t =>
      if String.eqb op "-" then
        comp_binop "*" (fun sel _ => comp_const (VInt (-1)) sel) (comp t) (has_call t)
                   (is_list_node t) (node_eqb (NInt (-1)) t) srcsel (pass fl)
      else
        let opc := if String.eqb op "#" then Some LEN
                   else if String.eqb op "!" then Some NOT
                   else if String.eqb op "~" then Some FLIP else None in
        match opc with
        | None => cabort "unexpected op"
        | Some oc =>
            let forbidTemp := ForbidTemp fl in
            let opDepth := OpDepth fl in
            target <- comp t 0 (withOpDepth (opDepth + 1) (pass fl)) ;;
            let temp0 := Src0 target =? AddrTmp in
            temp1 <- (if negb forbidTemp && (opDepth >? tempifyDepth) && negb temp0 then
                        w1 <- enc 1 AddrTmp 0 ;;
                        emit (Z.lor (Z.lor (New MOV) w1) target) ;;; cret true
                      else cret temp0) ;;
            emit (if temp1 then New (Z.lor oc TempFlag) else Z.lor (New oc) target) ;;;
            temp2 <- (if temp1 && (opDepth =? 0) && negb (Discard fl) && negb (AcceptTemp fl) then
                        emit (New PUSHTMP) ;;; cret false
                      else cret temp1) ;;
            enc srcsel (if temp2 then AddrTmp else AddrStck) 0
        end

  | NBlock body =>
      (fix go (l : list node) (last : Z) : CM Z :=
         match l with
         | [] => cret last
         | [t] =>
             comp t srcsel (withReturning (Returning fl) (withDiscard (Discard fl) (pass fl)))
         | t :: l' =>
             i <- comp t srcsel (withDiscard true (pass fl)) ;;
             k <- src_of i srcsel ;;
             (if k =? AddrStck then emit (New POP) else cret tt) ;;;
             go l' (New POP)
         end) body 0

  | NIf c tc =>
      let discard := Discard fl in
      let returning := Returning fl in
      jmpfAddr <- comp_condition (comp (cond_of c)) (cond_negated c) true 0 (pass fl) ;;
      tcInstr <- comp tc 0 (withDiscard discard (pass fl)) ;;
      dest0 <- enc srcsel (Src0 tcInstr) (Src0Addr tcInstr) ;;
      dest1 <- (if negb (Src0 tcInstr =? AddrStck) && negb (Src0 tcInstr =? AddrInv) && negb discard && negb returning
                then emit (Z.lor (New PUSH) tcInstr) ;;; enc srcsel AddrStck 0
                else cret dest0) ;;
      dest2 <- (if (Src0 tcInstr =? AddrStck) && discard && negb returning
                then emit (New POP) ;;; enc srcsel AddrInv 0
                else cret dest1) ;;
      nra0 <- here ;;
      r3 <- (if returning then
               emit (Z.lor (New RET) tcInstr) ;;;
               d <- enc srcsel AddrInv 0 ;;
               ix <- add_ds VNil ;;
               a <- here ;;
               w <- enc 0 AddrDS ix ;;
               emit (Z.lor (New RET) w) ;;; cret (d, a)
             else cret (dest2, nra0)) ;;
      let '(dest3, nra1) := r3 in
      nra2 <- (if negb returning && negb discard then
                 w <- enc 0 AddrImm 2 ;;
                 emit (Z.lor (New JMP) w) ;;;
                 a <- here ;;
                 ix <- add_ds VNil ;;
                 w' <- enc 0 AddrDS ix ;;
                 emit (Z.lor (New PUSH) w') ;;; cret a
               else cret nra1) ;;
      wp <- enc 1 AddrImm (nra2 - jmpfAddr) ;;
      patch jmpfAddr wp ;;;
      cret dest3

  | NIfElse c tc fc =>
      let returning := Returning fl in
      jmpFAddr <- comp_condition (comp (cond_of c)) (cond_negated c) true 0 (pass fl) ;;
      tCase <- comp tc 0 (pass fl) ;;
      (if negb (Src0 tCase =? AddrStck) && negb (Src0 tCase =? AddrInv) && negb returning
       then emit (Z.lor (New PUSH) tCase) else cret tt) ;;;
      jmpTAddr <- (if returning then emit (Z.lor (New RET) tCase) ;;; cret 0
                   else a <- here ;; emit (New JMP) ;;; cret a) ;;
      fCaseAddr <- here ;;
      fCase <- comp fc 0 (pass fl) ;;
      (if negb (Src0 fCase =? AddrStck) && negb (Src0 fCase =? AddrInv) && negb returning
       then emit (Z.lor (New PUSH) fCase) else cret tt) ;;;
      (if returning then emit (Z.lor (New RET) fCase) else cret tt) ;;;
      wf <- enc 1 AddrImm (fCaseAddr - jmpFAddr) ;;
      patch jmpFAddr wf ;;;
      if returning then enc srcsel AddrInv 0
      else
        endAddr <- here ;;
        wj <- enc 0 AddrImm (endAddr - jmpTAddr) ;;
        patch jmpTAddr wj ;;;
        if (tCase =? AddrInv) && (fCase =? AddrInv) then enc srcsel AddrInv 0
        else enc srcsel AddrStck 0

  | NWhile c body =>
      if Discard fl then
        (* discardingWhile *)
        jmpfAddr <- comp_condition (comp (cond_of c)) (cond_negated c) true 0 (pass fl) ;;
        bodyAddr <- here ;;
        b <- comp body 0 (withDiscard true (pass fl)) ;;
        (if Src0 b =? AddrStck then emit (New POP) else cret tt) ;;;
        jumpBackAddr <- comp_condition (comp (cond_of c)) (cond_negated c) false 0 (pass fl) ;;
        wb <- enc 1 AddrImm (bodyAddr - jumpBackAddr) ;;
        patch jumpBackAddr wb ;;;
        endAddr <- here ;;
        we <- enc 1 AddrImm (endAddr - jmpfAddr) ;;
        patch jmpfAddr we ;;;
        enc srcsel AddrInv 0
      else
        (* pushingWhile *)
        let returning := Returning fl in
        ix <- add_ds VNil ;;
        w <- enc 0 AddrDS ix ;;
        emit (Z.lor (New PUSH) w) ;;;
        initJmpFAddr <- comp_condition (comp (cond_of c)) (cond_negated c) true 0 (pass fl) ;;
        popAddr <- here ;;
        emit (New POP) ;;;
        bodyAddr <- here ;;
        b <- comp body 0 (withDiscard false (pass fl)) ;;
        if Src0 b =? AddrInv then
          endAddr <- here ;;
          dest <- (if returning then
                     ws <- enc 0 AddrStck 0 ;;
                     emit (Z.lor (New RET) ws) ;;; enc srcsel AddrInv 0
                   else enc srcsel AddrStck 0) ;;
          we <- enc 1 AddrImm (endAddr - initJmpFAddr) ;;
          patch initJmpFAddr we ;;;
          cret dest
        else
          let jumpBack := if Src0 b =? AddrStck then popAddr else bodyAddr in
          jumpBackAddr <- comp_condition (comp (cond_of c)) (cond_negated c) false 0 (pass fl) ;;
          wb <- enc 1 AddrImm (jumpBack - jumpBackAddr) ;;
          patch jumpBackAddr wb ;;;
          dest1 <- (if negb (Src0 b =? AddrStck) && negb returning
                    then emit (Z.lor (New PUSH) b) ;;; enc srcsel AddrStck 0
                    else cret b) ;;
          dest2 <- (if returning then emit (Z.lor (New RET) b) ;;; enc srcsel AddrInv 0
                    else cret dest1) ;;
          endAddr <- here ;;
          (if returning then ws <- enc 0 AddrStck 0 ;; emit (Z.lor (New RET) ws) else cret tt) ;;;
          we <- enc 1 AddrImm (endAddr - initJmpFAddr) ;;
          patch initJmpFAddr we ;;;
          cret dest2

  | NFor vars iters body =>
      let nv := Z.of_nat (List.length vars) in
      let ni := Z.of_nat (List.length iters) in
      if negb (ni =? nv) then cabort "for loop number of variables does not match number of iterators"
      else
        let ctxID := CtxID fl in
        let discard := Discard fl in
        let returning := Returning fl in
        (if negb discard then
           ix <- add_ds VNil ;; w <- enc 0 AddrDS ix ;; emit (Z.lor (New PUSH) w)
         else cret tt) ;;;
        cc0 <- here ;;
        (* the iterator expressions, each behind its CCONT *)
        r1 <- (fix go (l : list node) (i : Z) (ccontAddr : Z) (jmps : list Z) : CM (Z * list Z) :=
                 match l with
                 | [] => cret (ccontAddr, jmps)
                 | iter :: l' =>
                     (if i >? 0 then
                        h <- here ;;
                        wc <- enc 0 AddrImm (h - ccontAddr) ;;
                        patch ccontAddr wc ;;;
                        vref <- comp_ref (nth (Z.to_nat (i - 1)) vars NInvalid) 1 ;;
                        ws <- enc 0 AddrStck 0 ;;
                        emit (Z.lor (Z.lor (New MOV) vref) ws)
                      else cret tt) ;;;
                     cc <- here ;;
                     wi <- enc 1 AddrImm (i + ctxID) ;;
                     emit (Z.lor (New CCONT) wi) ;;;
                     _ <- comp iter 0 (withCtxID 0 (pass fl)) ;;
                     w0 <- enc 0 AddrImm ctxID ;;
                     w1 <- enc 1 AddrImm (ctxID + ni - 1) ;;
                     emit (Z.lor (Z.lor (New DCONT) w0) w1) ;;;
                     jmps' <- (if returning then
                                 ws <- enc 0 AddrStck 0 ;; emit (Z.lor (New RET) ws) ;;; cret jmps
                               else
                                 a <- here ;; emit (New JMP) ;;; cret (jmps ++ [a])) ;;
                     go l' (i + 1) cc jmps'
                 end) iters 0 cc0 [] ;;
        let '(ccontAddr, jmpAddrs) := r1 in
        switchAddr <- here ;;
        assignAddr <- (fix go (l : list node) (i : Z) (assignAddr : Z) : CM Z :=
                         match l with
                         | [] => cret assignAddr
                         | vRef :: l' =>
                             ws <- enc 0 AddrImm (ctxID + i) ;;
                             emit (Z.lor (New SCONT) ws) ;;;
                             a <- here ;;
                             assignee <- comp_ref vRef 1 ;;
                             wk <- enc 0 AddrStck 0 ;;
                             emit (Z.lor (Z.lor (New MOV) assignee) wk) ;;;
                             go l' (i + 1) a
                         end) vars 0 0 ;;
        (if negb discard then emit (New POP) else cret tt) ;;;
        b <- comp body 0 (withDiscard discard (withCtx (ctxID + nv) ctxID (ctxID + nv - 1) (withInFor true (pass fl)))) ;;
        (if negb (Src0 b =? AddrStck) && negb (Src0 b =? AddrInv) && negb discard
         then emit (Z.lor (New PUSH) b) else cret tt) ;;;
        (if (Src0 b =? AddrStck) && discard then emit (New POP) else cret tt) ;;;
        h <- here ;;
        wj <- enc 0 AddrImm (switchAddr - h) ;;
        emit (Z.lor (New JMP) wj) ;;;
        (fix go (l : list Z) : CM unit :=
           match l with
           | [] => cret tt
           | a :: l' => h' <- here ;; wa <- enc 0 AddrImm (h' - a) ;; patch a wa ;;; go l'
           end) jmpAddrs ;;;
        wcc <- enc 0 AddrImm (assignAddr - ccontAddr) ;;
        patch ccontAddr wcc ;;;
        enc srcsel (if discard || returning then AddrInv else AddrStck) 0

  | NIndexAt a i =>
      ary <- comp a 1 (withOpDepth 0 (pass fl)) ;;
      at_ <- comp i 0 (withOpDepth 0 (pass fl)) ;;
      emit (Z.lor (Z.lor (New IX1) ary) at_) ;;;
      enc srcsel AddrStck 0

  | NIndexFromTo a f t =>
      ary <- comp a 2 (withOpDepth 0 (pass fl)) ;;
      from <- comp f 1 (withOpDepth 0 (pass fl)) ;;
      to <- comp t 0 (withOpDepth 0 (pass fl)) ;;
      emit (Z.lor (Z.lor (Z.lor (New IX2) ary) from) to) ;;;
      enc srcsel AddrStck 0

  | NRead => emit (New READ) ;;; enc srcsel AddrStck 0
  | NWrite v => i <- comp v 0 (pass fl) ;; emit (Z.lor (New WRITE) i) ;;; enc srcsel AddrStck 0
  | NAton v => i <- comp v 0 (pass fl) ;; emit (Z.lor (New ATON) i) ;;; enc srcsel AddrStck 0
  | NToa v => i <- comp v 0 (pass fl) ;; emit (Z.lor (New TOA) i) ;;; enc srcsel AddrStck 0
  | NExit v => i <- comp v 0 (pass fl) ;; emit (Z.lor (New EXIT) i) ;;; enc srcsel AddrStck 0
  end.

(* ByteCode / ByteCodeNoStck: the compiler entry points.  A RangeError rolls
   the compilation result back (refuseOversize) and is reported. *)
Inductive centry := CompOk (s : cstate) | CompRefused (s : cstate) | CompAbort (why : string).

Definition ByteCode (n : node) (s : cstate) : centry :=
  match (instr <- comp n 0 (pass fl0) ;;
         if negb (Src0 instr =? AddrStck) then emit (Z.lor instr (New PUSH)) else cret tt) s with
  | COk (_, s') => CompOk s'
  | CRange => CompRefused s
  | CAbort w => CompAbort w
  end.

Definition ByteCodeNoStck (n : node) (s : cstate) : centry :=
  match (instr <- comp n 0 (withDiscard true (pass fl0)) ;;
         if Src0 instr =? AddrStck then emit (New POP) else cret tt) s with
  | COk (_, s') => CompOk s'
  | CRange => CompRefused s
  | CAbort w => CompAbort w
  end.
