(* ValueProofs.v — laws of the value algebra (C11). *)
Require Import Calc.Base Calc.Bytecode Calc.Value.
From Coq Require Import SpecFloat FloatAxioms.
Open Scope Z_scope.

(* ---------- induction over values (arrays nest through lists) ---------- *)
Section ValueInd.
  Variable P : value -> Prop.
  Hypothesis Hnil : P VNil.
  Hypothesis Hint : forall i, P (VInt i).
  Hypothesis Hfloat : forall f, P (VFloat f).
  Hypothesis Hstr : forall s, P (VStr s).
  Hypothesis Harr : forall l, Forall P l -> P (VArr l).
  Hypothesis Hbool : forall b, P (VBool b).
  Hypothesis Hfun : forall m f, P (VFun m f).

  Fixpoint value_ind' (v : value) : P v :=
    match v with
    | VNil => Hnil
    | VInt i => Hint i
    | VFloat f => Hfloat f
    | VStr s => Hstr s
    | VBool b => Hbool b
    | VFun m f => Hfun m f
    | VArr l =>
        Harr l ((fix go (l : list value) : Forall P l :=
                   match l with
                   | [] => Forall_nil P
                   | x :: r => Forall_cons x (value_ind' x) (go r)
                   end) l)
    end.
End ValueInd.

(* ---------- float comparison facts from the stdlib specification ---------- *)

Lemma SFcompare_antisym x y :
  SFcompare y x = match SFcompare x y with Some c => Some (CompOpp c) | None => None end.
Proof.
  destruct x as [sx| sx | |sx mx ex], y as [sy|sy| |sy my ey]; cbn; try reflexivity;
    try (destruct sx, sy; reflexivity); try (destruct sx; reflexivity); try (destruct sy; reflexivity).
  destruct sx, sy; try reflexivity.
  - rewrite (Z.compare_antisym ex ey). destruct (ex ?= ey); cbn; try reflexivity.
    rewrite (Pos.compare_cont_antisym mx my Eq). reflexivity.
  - rewrite (Z.compare_antisym ex ey). destruct (ex ?= ey); cbn; try reflexivity.
    rewrite (Pos.compare_cont_antisym mx my Eq). reflexivity.
Qed.

Lemma feq_sym a b : feq a b = feq b a.
Proof.
  unfold feq. rewrite !eqb_spec. unfold SFeqb.
  rewrite (SFcompare_antisym (Prim2SF a) (Prim2SF b)).
  destruct (SFcompare (Prim2SF a) (Prim2SF b)) as [[]|]; reflexivity.
Qed.

Definition fnotnan (f : float) : Prop := Prim2SF f <> S754_nan.

Lemma SFcompare_some x y : x <> S754_nan -> y <> S754_nan -> SFcompare x y <> None.
Proof.
  destruct x as [sx| sx | |sx mx ex], y as [sy|sy| |sy my ey]; cbn; intros Hx Hy; try congruence;
    try (destruct sx, sy; discriminate); try (destruct sx; discriminate); try (destruct sy; discriminate).
Qed.

(* on non-NaN floats  a < b  is the negation of  a >= b  (that is  b <= a) *)
Lemma fltb_not_geb a b : fnotnan a -> fnotnan b -> (a <? b)%float = negb (b <=? a)%float.
Proof.
  intros Ha Hb. rewrite ltb_spec, leb_spec. unfold SFltb, SFleb.
  rewrite (SFcompare_antisym (Prim2SF a) (Prim2SF b)).
  pose proof (SFcompare_some _ _ Ha Hb) as Hs.
  destruct (SFcompare (Prim2SF a) (Prim2SF b)) as [[]|]; cbn; try reflexivity. congruence.
Qed.

(* ---------- the laws ---------- *)

Definition is_arith (op : Z) : Prop := op = ADD \/ op = SUB \/ op = MUL \/ op = DIV.

(* mixed int/float arithmetic promotes to float; int/int stays int *)
Lemma arith_promotes op x y f g :
  is_arith op ->
  Arith op (VInt x) (VFloat f) = Ok (VFloat (float_arith op (z2f x) f)) /\
  Arith op (VFloat f) (VInt x) = Ok (VFloat (float_arith op f (z2f x))) /\
  Arith op (VFloat f) (VFloat g) = Ok (VFloat (float_arith op f g)) /\
  (~ (op = DIV /\ y = 0) -> Arith op (VInt x) (VInt y) = Ok (VInt (int_arith op x y))).
Proof.
  intros Hop. repeat split; try reflexivity.
  intros Hnz. cbn. destruct (Z.eqb_spec op DIV) as [->|]; cbn [andb]; [|reflexivity].
  destruct (Z.eqb_spec y 0) as [->|]; [exfalso; apply Hnz; split; reflexivity| reflexivity].
Qed.

Lemma wrap64_id z : min_int <= z <= max_int -> wrap64 z = z.
Proof.
  unfold wrap64, min_int, max_int, two63, two64. intros H.
  rewrite Z.mod_small by lia. lia.
Qed.

(* integer division truncates toward zero *)
Lemma int_div_truncates x y :
  y <> 0 ->
  Arith DIV (VInt x) (VInt y) = Ok (VInt (wrap64 (Z.quot x y))) /\
  (min_int <= x <= max_int -> ~ (x = min_int /\ y = -1) -> wrap64 (Z.quot x y) = Z.quot x y).
Proof.
  intros Hy. split.
  - cbn. destruct (Z.eqb_spec y 0); [contradiction|reflexivity].
  - intros Hx Hmin. apply wrap64_id.
    unfold min_int, max_int, two63 in *.
    assert (Habs : Z.abs (Z.quot x y) <= Z.abs x).
    { rewrite <- Z.quot_abs by exact Hy.
      destruct (Z.eq_dec (Z.abs x) 0) as [E|NE]; [rewrite E; rewrite Z.quot_0_l by lia; lia|].
      apply Z.quot_le_upper_bound; nia. }
    destruct (Z.eq_dec y (-1)) as [->|Hy1].
    + change (-1) with (- (1)) at 2. rewrite Z.quot_opp_r by lia. rewrite Z.quot_1_r. lia.
    + destruct (Z.eq_dec y 1) as [->|Hy2]; [rewrite Z.quot_1_r; lia|].
      assert (H2 : 2 <= Z.abs y) by lia.
      assert (Z.abs (Z.quot x y) * 2 <= Z.abs x).
      { rewrite <- Z.quot_abs by exact Hy.
        pose proof (Z.mul_quot_le (Z.abs x) (Z.abs y) ltac:(lia) ltac:(lia)). nia. }
      lia.
Qed.

Lemma int_div_mod_zero x :
  Arith DIV (VInt x) (VInt 0) = Fail ErrZeroDiv /\ Mod (VInt x) (VInt 0) = Fail ErrZeroDiv.
Proof. split; reflexivity. Qed.

(* == is symmetric, errors included *)
Lemma StrictEq_sym : forall a b, StrictEq a b = StrictEq b a.
Proof.
  induction a as [|i|f|s|l IH|bb|mm ff] using value_ind'; intros b; destruct b as [|i'|f'|s'|m|b'|m' f'']; cbn; try reflexivity.
  - apply Z.eqb_sym.
  - apply feq_sym.
  - apply String.eqb_sym.
  - revert m. induction IH as [|x l Hx Hl IHl]; destruct m as [|y m]; try reflexivity.
    rewrite Hx. f_equal. apply IHl.
  - destruct bb, b'; reflexivity.
Qed.

Lemma WeakEq_sym : forall a b, WeakEq a b = WeakEq b a.
Proof.
  induction a as [|i|f|s|l IH|bb|mm ff] using value_ind'; intros b; destruct b as [|i'|f'|s'|m|b'|m' f'']; cbn; try reflexivity;
    try (rewrite feq_sym; reflexivity); try (rewrite Z.eqb_sym; reflexivity);
    try (rewrite String.eqb_sym; reflexivity).
  - rewrite (Nat.eqb_sym (List.length l) (List.length m)).
    destruct (Nat.eqb_spec (List.length m) (List.length l)) as [E|NE]; cbn; [|reflexivity].
    revert m E. induction IH as [|x l Hx Hl IHl]; destruct m as [|y m]; intros E; try reflexivity; try discriminate.
    rewrite Hx. destruct (WeakEq y x) as [[] e]; [|reflexivity].
    apply IHl. cbn in E. lia.
  - destruct bb, b'; reflexivity.
Qed.

Lemma eq_symmetric op a b : EqOp op a b = EqOp op b a.
Proof. unfold EqOp. rewrite WeakEq_sym. reflexivity. Qed.

(* != is the negation of ==, with the same errors *)
Lemma ne_is_negation a b :
  EqOp NE a b = match EqOp EQ a b with
              | Ok (VBool r) => Ok (VBool (negb r))
              | Ok v => Ok v
              | Fail e => Fail e
              end.
Proof. unfold EqOp. destruct (WeakEq a b) as [r [e|]]; reflexivity. Qed.

(* relational operators are mutually consistent *)
Lemma rel_consistent_int x y :
  int_rel LT x y = int_rel GT y x /\ int_rel LE x y = int_rel GE y x /\
  int_rel LT x y = negb (int_rel GE x y) /\ int_rel GT x y = negb (int_rel LE x y).
Proof.
  unfold int_rel. cbn. repeat split; try reflexivity.
  - rewrite Z.leb_antisym. rewrite negb_involutive. reflexivity.
  - rewrite Z.leb_antisym. rewrite negb_involutive. reflexivity.
Qed.

Lemma rel_mirror a b :
  Relational LT a b = Relational GT b a /\ Relational LE a b = Relational GE b a.
Proof.
  split; destruct a, b; cbn; try reflexivity;
    unfold nil_or_type; cbn; rewrite ?orb_true_r, ?orb_false_r; reflexivity.
Qed.

Lemma rel_float_consistent f g :
  fnotnan f -> fnotnan g ->
  float_rel LT f g = negb (float_rel GE f g) /\ float_rel GT f g = negb (float_rel LE f g).
Proof.
  intros Hf Hg. unfold float_rel. cbn. split; apply fltb_not_geb; assumption.
Qed.

(* an int equals the float of the same value (z2f never produces NaN; that
   fact is a hypothesis here and is exercised by the correspondence run) *)
Lemma int_eq_its_float n :
  feq (z2f n) (z2f n) = true ->
  EqOp EQ (VInt n) (VFloat (z2f n)) = Ok (VBool true) /\ EqOp EQ (VFloat (z2f n)) (VInt n) = Ok (VBool true).
Proof.
  intros H. unfold EqOp. cbn [WeakEq]. rewrite H. split; reflexivity.
Qed.

(* functions are never equal to anything *)
Lemma functions_never_equal m f b :
  b <> VNil -> EqOp EQ (VFun m f) b = Ok (VBool false) /\ EqOp EQ b (VFun m f) = Ok (VBool false).
Proof.
  intros Hb. rewrite (eq_symmetric EQ b). assert (H : EqOp EQ (VFun m f) b = Ok (VBool false)).
  { destruct b; try reflexivity. congruence. }
  split; exact H.
Qed.

(* a nil operand is always an error *)
Definition is_fail {A} (r : res A) : Prop := match r with Fail _ => True | Ok _ => False end.

Lemma binop_nil_fail c a :
  is_fail (apply_binop c VNil a) /\ is_fail (apply_binop c a VNil).
Proof.
  unfold apply_binop.
  destruct ((c =? ADD) || (c =? SUB) || (c =? MUL) || (c =? DIV)).
  { split; [reflexivity|destruct a; exact I]. }
  destruct (c =? MOD). { split; [reflexivity|destruct a; exact I]. }
  destruct ((c =? AND) || (c =? OR)). { split; [reflexivity|destruct a; exact I]. }
  destruct ((c =? LT) || (c =? GT) || (c =? LE) || (c =? GE)). { split; [reflexivity|destruct a; exact I]. }
  destruct ((c =? EQ) || (c =? NE)).
  { split; [reflexivity|]. unfold EqOp. rewrite WeakEq_sym. reflexivity. }
  split; [reflexivity|destruct a; exact I].
Qed.

Lemma nil_operand_is_error c a i j :
  is_fail (apply_binop c VNil a) /\ is_fail (apply_binop c a VNil) /\
  Flip VNil = Fail ErrNil /\ Not VNil = Fail ErrNil /\ Len VNil = Fail ErrNil /\
  is_fail (Index1 VNil i) /\ Index1 a VNil = Fail ErrNil /\
  is_fail (Index2 VNil i j) /\ Index2 a VNil j = Fail ErrNil /\
  (j = VNil -> is_fail (Index2 a i j)).
Proof.
  destruct (binop_nil_fail c a) as [H1 H2].
  repeat split; try assumption; try reflexivity.
  - unfold Index1. destruct (index_of i); exact I.
  - unfold Index2. destruct (index_of i); [destruct (index_of j)|]; exact I.
  - intros ->. unfold Index2. destruct (index_of i); exact I.
Qed.

(* every operator returns a value or one of the documented operator errors *)
Definition op_err (e : err) : Prop := e = ErrNil \/ e = ErrType \/ e = ErrZeroDiv \/ e = ErrIndex.
Definition res_documented (r : res value) : Prop :=
  match r with Ok _ => True | Fail e => op_err e end.

Lemma nil_or_type_doc a b : op_err (nil_or_type a b).
Proof. unfold nil_or_type, op_err. destruct (is_nil a || is_nil b); auto. Qed.

(* the only error WeakEq produces is ErrNil *)
Lemma WeakEq_err_nil : forall a b r e, WeakEq a b = (r, Some e) -> e = ErrNil.
Proof.
  induction a as [|i|f|s|l IH|bb|mm ff] using value_ind'; intros b0;
    destruct b0 as [|i'|f'|s'|m|b'|m' f'']; cbn; intros r e H;
    try (inversion H; reflexivity); try discriminate.
  revert H. destruct (negb (List.length l =? List.length m)%nat); [discriminate|].
  revert m. induction IH as [|x l Hx Hl IHl]; intros m; destruct m as [|y m']; intros H; try discriminate.
  destruct (WeakEq x y) as [[] e'] eqn:Exy.
  - apply IHl in H. exact H.
  - inversion H; subst. eapply Hx. exact Exy.
Qed.

Lemma op_total c a b i j :
  res_documented (apply_binop c a b) /\ res_documented (Flip a) /\ res_documented (Not a) /\
  res_documented (Len a) /\ res_documented (Index1 a i) /\ res_documented (Index2 a i j).
Proof.
  assert (D := nil_or_type_doc).
  repeat split.
  - unfold apply_binop.
    destruct ((c =? ADD) || (c =? SUB) || (c =? MUL) || (c =? DIV)).
    { destruct a, b; cbn; try apply D; try exact I;
        repeat match goal with |- context [if ?x then _ else _] => destruct x end; cbn; first [exact I | (unfold op_err; auto)]. }
    destruct (c =? MOD).
    { destruct a, b; cbn; try apply D; try exact I;
        repeat match goal with |- context [if ?x then _ else _] => destruct x end; cbn; first [exact I | (unfold op_err; auto)]. }
    destruct ((c =? AND) || (c =? OR)). { destruct a, b; cbn; first [exact I | apply D | (unfold op_err; auto)]. }
    destruct ((c =? LT) || (c =? GT) || (c =? LE) || (c =? GE)). { destruct a, b; cbn; first [exact I | apply D | (unfold op_err; auto)]. }
    destruct ((c =? EQ) || (c =? NE)).
    { unfold EqOp. destruct (WeakEq a b) as [r [e|]] eqn:E; cbn; [|exact I].
      apply WeakEq_err_nil in E. subst. unfold op_err; auto. }
    destruct a, b; cbn; first [exact I | apply D | (unfold op_err; auto)].
  - destruct a; cbn; unfold op_err; auto.
  - destruct a; cbn; unfold op_err; auto.
  - destruct a; cbn; unfold op_err; auto.
  - unfold Index1. destruct i; cbn; try (unfold op_err; auto; fail).
    destruct a; cbn; try (unfold op_err; auto; fail);
      repeat match goal with |- context [if ?x then _ else _] => destruct x end; cbn;
      first [exact I | (unfold op_err; auto)].
  - unfold Index2. destruct i; cbn; try (unfold op_err; auto; fail).
    destruct j; cbn; try (unfold op_err; auto; fail).
    destruct a; cbn; try (unfold op_err; auto; fail);
      repeat match goal with |- context [if ?x then _ else _] => destruct x end; cbn;
      first [exact I | (unfold op_err; auto)].
Qed.

(* ---------- slices ---------- *)

Lemma substring_length : forall s n m,
  (n + m <= String.length s)%nat -> String.length (String.substring n m s) = m.
Proof.
  induction s as [|c s IH]; intros n m H; cbn in *.
  - assert (n = 0%nat) by lia. assert (m = 0%nat) by lia. subst. reflexivity.
  - destruct n as [|n]; destruct m as [|m]; cbn; try reflexivity.
    + f_equal. apply (IH 0%nat). lia.
    + apply IH. lia.
    + apply IH. lia.
Qed.

Lemma append_length : forall a b, String.length (a +++ b) = (String.length a + String.length b)%nat.
Proof. induction a as [|c a IH]; intros b; cbn; [reflexivity|]. rewrite IH. reflexivity. Qed.

Lemma substring_0_all : forall s, String.substring 0 (String.length s) s = s.
Proof. induction s as [|c s IH]; cbn; [reflexivity|]. rewrite IH. reflexivity. Qed.

Lemma substring_split : forall s n,
  (n <= String.length s)%nat ->
  String.substring 0 n s +++ String.substring n (String.length s - n) s = s.
Proof.
  induction s as [|c s IH]; intros n H; cbn in *.
  - destruct n; reflexivity.
  - destruct n as [|n]; cbn.
    + rewrite substring_0_all. reflexivity.
    + rewrite IH by lia. reflexivity.
Qed.

Lemma lsub_length {A} (l : list A) i j :
  0 <= i <= j -> j <= Z.of_nat (List.length l) -> Z.of_nat (List.length (lsub l i j)) = j - i.
Proof.
  intros H1 H2. unfold lsub. rewrite firstn_length, skipn_length. lia.
Qed.

Lemma lsub_split {A} (l : list A) i :
  0 <= i <= Z.of_nat (List.length l) -> lsub l 0 i ++ lsub l i (Z.of_nat (List.length l)) = l.
Proof.
  intros H. unfold lsub. cbn [Z.to_nat skipn]. rewrite Z.sub_0_r.
  rewrite (firstn_all2 (n := Z.to_nat (Z.of_nat (List.length l) - i))).
  - apply firstn_skipn.
  - rewrite skipn_length. lia.
Qed.

Definition sliceable (s : value) : Prop := match s with VStr _ | VArr _ => True | _ => False end.
Definition vlen (s : value) : Z :=
  match s with VStr x => slen x | VArr l => Z.of_nat (List.length l) | _ => 0 end.

Lemma slice_in_bounds s i j :
  sliceable s -> 0 <= i <= j -> j <= vlen s ->
  exists r, Index2 s (VInt i) (VInt j) = Ok r /\ Len r = Ok (VInt (j - i)).
Proof.
  intros Hs Hij Hj. destruct s as [| | |x|l| |]; try contradiction; cbn in *.
  - unfold slen in *.
    destruct (Z.ltb_spec i 0); [lia|]. destruct (Z.gtb_spec i (Z.of_nat (String.length x))); [lia|].
    destruct (Z.ltb_spec j i); [lia|]. destruct (Z.gtb_spec j (Z.of_nat (String.length x))); [lia|].
    cbn. eexists. split; [reflexivity|]. cbn. unfold slen, ssub. rewrite substring_length by lia.
    f_equal. f_equal. lia.
  - destruct (Z.ltb_spec i 0); [lia|]. destruct (Z.gtb_spec i (Z.of_nat (List.length l))); [lia|].
    destruct (Z.ltb_spec j i); [lia|]. destruct (Z.gtb_spec j (Z.of_nat (List.length l))); [lia|].
    cbn. eexists. split; [reflexivity|]. cbn. rewrite lsub_length by lia. reflexivity.
Qed.

(* s[0:i] + s[i:#s] is s again (Coq equality of values: calc's == is
   deliberately false on function and NaN elements) *)
Lemma slice_split_concat s i :
  sliceable s -> 0 <= i <= vlen s ->
  exists a b, Index2 s (VInt 0) (VInt i) = Ok a /\ Index2 s (VInt i) (VInt (vlen s)) = Ok b /\
              Arith ADD a b = Ok s.
Proof.
  intros Hs Hi. destruct s as [| | |x|l| |]; try contradiction; cbn in *.
  - unfold slen in *.
    destruct (Z.gtb_spec 0 (Z.of_nat (String.length x))); [lia|].
    destruct (Z.ltb_spec i 0); [lia|]. destruct (Z.gtb_spec i (Z.of_nat (String.length x))); [lia|].
    destruct (Z.ltb_spec (Z.of_nat (String.length x)) i); [lia|].
    destruct (Z.gtb_spec (Z.of_nat (String.length x)) (Z.of_nat (String.length x))); [lia|].
    cbn. do 2 eexists. split; [reflexivity|]. split; [reflexivity|]. cbn. f_equal. f_equal.
    unfold ssub. cbn [Z.to_nat]. rewrite Z.sub_0_r.
    replace (Z.to_nat (Z.of_nat (String.length x) - i)) with (String.length x - Z.to_nat i)%nat by lia.
    apply substring_split. lia.
  - destruct (Z.gtb_spec 0 (Z.of_nat (List.length l))); [lia|].
    destruct (Z.ltb_spec i 0); [lia|]. destruct (Z.gtb_spec i (Z.of_nat (List.length l))); [lia|].
    destruct (Z.ltb_spec (Z.of_nat (List.length l)) i); [lia|].
    destruct (Z.gtb_spec (Z.of_nat (List.length l)) (Z.of_nat (List.length l))); [lia|].
    cbn. do 2 eexists. split; [reflexivity|]. split; [reflexivity|]. cbn. f_equal. f_equal.
    apply lsub_split. lia.
Qed.

Lemma len_concat a b c :
  sliceable a -> Arith ADD a b = Ok c -> sliceable b /\ vlen c = vlen a + vlen b.
Proof.
  intros Ha H. destruct a as [| | |x|l| |]; try contradiction; destruct b as [| | |y|m| |]; cbn in H;
    try discriminate; inversion H; subst; cbn; split; try exact I.
  - unfold slen. rewrite append_length. lia.
  - rewrite app_length. lia.
Qed.

(* an index error exactly when the position is outside the value *)
Lemma index_error_iff s i j :
  sliceable s ->
  (Index1 s (VInt i) = Fail ErrIndex <-> ~ (0 <= i < vlen s)) /\
  (0 <= i < vlen s -> exists v, Index1 s (VInt i) = Ok v) /\
  (Index2 s (VInt i) (VInt j) = Fail ErrIndex <-> ~ (0 <= i <= j /\ j <= vlen s)) /\
  (0 <= i <= j /\ j <= vlen s -> exists v, Index2 s (VInt i) (VInt j) = Ok v).
Proof.
  intros Hs. destruct s as [| | |x|l| |]; try contradiction; cbn.
  - repeat split; intros H;
      repeat match goal with
      | |- context [Z.ltb ?a ?b] => destruct (Z.ltb_spec a b)
      | |- context [Z.gtb ?a ?b] => destruct (Z.gtb_spec a b)
      | |- context [Z.geb ?a ?b] => destruct (Z.geb_spec a b)
      | H : context [Z.ltb ?a ?b] |- _ => destruct (Z.ltb_spec a b)
      | H : context [Z.gtb ?a ?b] |- _ => destruct (Z.gtb_spec a b)
      | H : context [Z.geb ?a ?b] |- _ => destruct (Z.geb_spec a b)
      end; cbn in *; try lia; try discriminate; try reflexivity; try (eexists; reflexivity).
  - repeat split; intros H;
      repeat match goal with
      | |- context [Z.ltb ?a ?b] => destruct (Z.ltb_spec a b)
      | |- context [Z.gtb ?a ?b] => destruct (Z.gtb_spec a b)
      | |- context [Z.geb ?a ?b] => destruct (Z.geb_spec a b)
      | H : context [Z.ltb ?a ?b] |- _ => destruct (Z.ltb_spec a b)
      | H : context [Z.gtb ?a ?b] |- _ => destruct (Z.gtb_spec a b)
      | H : context [Z.geb ?a ?b] |- _ => destruct (Z.geb_spec a b)
      end; cbn in *; try lia; try discriminate; try reflexivity; try (eexists; reflexivity).
Qed.
