(* StmtStart.v — a checker, sound, for the premise the session theorems put on the machine: evaluated by the
   correspondence run on the machine each generated session reaches after its first tree (whose run also
   executes the definitions of the built-ins), so that the theorems apply to those very sessions. *)
Require Import Calc.Sem.
Require Import Calc.Base Calc.Bytecode Calc.BytecodeProofs Calc.Value Calc.FloatText Calc.Ast Calc.Resolve Calc.Compile Calc.VM
        Calc.MemProofs Calc.Session Calc.CompileWf
        Calc.ExprSem Calc.ExprVM Calc.ExprCorrect Calc.ExprTop Calc.ExprAssign Calc.ExprLen Calc.ExprSession
        Calc.LExprSem Calc.StmtSem Calc.StmtRel Calc.StmtVM Calc.StmtCorrect Calc.StmtTop Calc.StmtCheck Calc.StmtDef Calc.StmtMixed.
Require Import Lia.
Open Scope Z_scope.

(* the machine's own table: the leaf built-ins with the values its globals bind them to *)
Definition self_tab (mc : machine) : ftab := tab_of (v_globals (mc_vm mc)).

Definition tready_b (mc : machine) : bool :=
  match assoc_get (v_ctxs (mc_vm mc)) 0 with
  | Some c =>
      match assoc_get (v_mems (mc_vm mc)) (c_mid c) with
      | Some m =>
          (c_ip c =? ncs (mc_cs mc)) && (0 <=? m_sp m) && (m_sp m <=? zlen (m_stack m)) && (c_mid c =? 0) &&
          (match c_children c with [] => true | _ => false end) &&
          (ncs (mc_cs mc) =? zlen (rcs (mc_cs mc))) && (nds (mc_cs mc) =? zlen (rds (mc_cs mc))) &&
          (match m_fp m with [] => true | _ => false end)
      | None => false
      end
  | None => false
  end.

Definition start_ok (mc : machine) : bool :=
  tready_b mc && bcode_b (self_tab mc) (load_code (mc_vm mc) (mc_cs mc)).

Theorem start_ok_sound mc : start_ok mc = true -> exists c m, tready (self_tab mc) mc c m.
Proof.
  unfold start_ok. intros H. apply andb_prop in H. destruct H as [H Hb].
  unfold tready_b in H. destruct (assoc_get (v_ctxs (mc_vm mc)) 0) as [c|] eqn:Ec; [|discriminate H].
  destruct (assoc_get (v_mems (mc_vm mc)) (c_mid c)) as [m|] eqn:Em; [|discriminate H].
  repeat (apply andb_prop in H; destruct H as [H ?]).
  repeat match goal with E : (_ =? _) = true |- _ => apply Z.eqb_eq in E end.
  repeat match goal with E : (_ <=? _) = true |- _ => apply Z.leb_le in E end.
  exists c, m. split; [split|].
  - split; [split; [split; assumption|constructor; try assumption; lia]|].
    split; [assumption|]. destruct (c_children c); [reflexivity|discriminate].
  - apply bcode_b_sound; [exact Hb|].
    intros nm body mo fid _ Hbody Hv. cbn [self_tab tab_of ft_body ft_val] in Hbody, Hv.
    destruct (existsb (String.eqb nm) other_builtins) eqn:E; [|discriminate Hbody].
    destruct (other_cases nm E) as [->|[->|[->| ->]]]; discriminate Hv.
  - destruct (m_fp m); [reflexivity|discriminate].
Qed.

(* so: a machine that passes the check runs every list of qualifying definitions and statements as the
   session theorem says *)
Theorem checked_start_is_covered mc items :
  start_ok mc = true -> Forall item_ok items -> mixed (self_tab mc) mc items.
Proof.
  intros H Hall. destruct (start_ok_sound mc H) as [c [m Hr]]. exact (mixed_session items (self_tab mc) mc c m Hr Hall).
Qed.
