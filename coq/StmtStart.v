(* StmtStart.v — a checker, sound, for the premise the session theorems put on the machine: evaluated by the
   correspondence run on the machine each generated session reaches after its first tree (whose run also
   executes the definitions of the built-ins), so that the theorems apply to those very sessions. *)
Require Import Calc.Sem.
Require Import Calc.Base Calc.Bytecode Calc.BytecodeProofs Calc.Value Calc.FloatText Calc.Ast Calc.Resolve Calc.Compile Calc.VM
        Calc.MemProofs Calc.Session Calc.CompileWf
        Calc.ExprSem Calc.ExprVM Calc.ExprCorrect Calc.ExprTop Calc.ExprAssign Calc.ExprLen Calc.ExprSession
        Calc.LExprSem Calc.StmtSem Calc.StmtRel Calc.StmtVM Calc.StmtCorrect Calc.StmtTop Calc.StmtCheck Calc.StmtDef Calc.StmtMixed.
Require Import Lia.
Open Scope Z_scope.

(* the machine's own table: the leaf built-ins with the values its globals bind them to *)
Definition self_tab (mc : machine) : ftab := tab_of (v_globals (mc_vm mc)).

Definition tready_b (mc : machine) : bool :=
  match assoc_get (v_ctxs (mc_vm mc)) 0 with
  | Some c =>
      match assoc_get (v_mems (mc_vm mc)) (c_mid c) with
      | Some m =>
          (c_ip c =? ncs (mc_cs mc)) && (0 <=? m_sp m) && (m_sp m <=? zlen (m_stack m)) && (c_mid c =? 0) &&
          (match c_children c with [] => true | _ => false end) &&
          (ncs (mc_cs mc) =? zlen (rcs (mc_cs mc))) && (nds (mc_cs mc) =? zlen (rds (mc_cs mc))) &&
          (match m_fp m with [] => true | _ => false end)
      | None => false
      end
  | None => false
  end.

Definition start_ok (mc : machine) : bool :=
  tready_b mc && bcode_b (self_tab mc) (load_code (mc_vm mc) (mc_cs mc)).

Theorem start_ok_sound mc : start_ok mc = true -> exists c m, tready (self_tab mc) mc c m.
Proof.
  unfold start_ok. intros H. apply andb_prop in H. destruct H as [H Hb].
  unfold tready_b in H. destruct (assoc_get (v_ctxs (mc_vm mc)) 0) as [c|] eqn:Ec; [|discriminate H].
  destruct (assoc_get (v_mems (mc_vm mc)) (c_mid c)) as [m|] eqn:Em; [|discriminate H].
  repeat (apply andb_prop in H; destruct H as [H ?]).
  repeat match goal with E : (_ =? _) = true |- _ => apply Z.eqb_eq in E end.
  repeat match goal with E : (_ <=? _) = true |- _ => apply Z.leb_le in E end.
  exists c, m. split; [split|].
  - split; [split; [split; assumption|constructor; try assumption; lia]|].
    split; [assumption|]. destruct (c_children c); [reflexivity|discriminate].
  - apply bcode_b_sound; [exact Hb|].
    intros nm body mo fid _ Hbody Hv. cbn [self_tab tab_of ft_body ft_val] in Hbody, Hv.
    destruct (existsb (String.eqb nm) other_builtins) eqn:E; [|discriminate Hbody].
    destruct (other_cases nm E) as [->|[->|[->| ->]]]; discriminate Hv.
  - destruct (m_fp m); [reflexivity|discriminate].
Qed.

(* so: a machine that passes the check runs every list of qualifying definitions and statements as the
   session theorem says *)
Theorem checked_start_is_covered mc items :
  start_ok mc = true -> Forall item_ok items -> mixed (self_tab mc) mc items.
Proof.
  intros H Hall. destruct (start_ok_sound mc H) as [c [m Hr]]. exact (mixed_session items (self_tab mc) mc c m Hr Hall).
Qed.

(* ================= the premises of the Sem-vs-VM session theorem, checked on a pair of states ================= *)
Require Import Calc.SemSession.

(* equality of values without arrays, floats and functions: enough for the globals a first tree binds *)
Definition veq (a b : value) : bool :=
  match a, b with
  | VNil, VNil => true
  | VInt x, VInt y => x =? y
  | VBool x, VBool y => Bool.eqb x y
  | VStr x, VStr y => String.eqb x y
  | _, _ => false
  end.

Lemma veq_sound a b : veq a b = true -> a = b.
Proof.
  destruct a, b; try discriminate; cbn [veq]; intros H.
  - reflexivity.
  - apply Z.eqb_eq in H. subst. reflexivity.
  - apply String.eqb_eq in H. subst. reflexivity.
  - apply Bool.eqb_prop in H. subst. reflexivity.
Qed.

Fixpoint sl_eqb (a b : list string) : bool :=
  match a, b with
  | [], [] => true
  | x :: a', y :: b' => String.eqb x y && sl_eqb a' b'
  | _, _ => false
  end.

Lemma sl_eqb_sound : forall a b, sl_eqb a b = true -> a = b.
Proof.
  induction a as [|x a IH]; destruct b as [|y b]; try discriminate; [reflexivity|].
  cbn [sl_eqb]. intros H. apply andb_prop in H. destruct H as [H1 H2]. apply String.eqb_eq in H1. subst.
  rewrite (IH b H2). reflexivity.
Qed.

(* the closure Sem binds a leaf built-in to *)
Definition leaf_closure_ok (st : sstate) (nm : string) (b : option bop) : bool :=
  match gval (s_globals st) nm with
  | VFun _ id =>
      match assoc_get (s_clos st) id with
      | Some c =>
          (match sc_env c with None => true | Some _ => false end) &&
          match b with
          | Some bb =>
              (sc_params c =? 1) &&
              match bb, sc_body c with
              | BWrite, NWrite (NLocal 0 _) => true
              | BToa, NToa (NLocal 0 _) => true
              | BAton, NAton (NLocal 0 _) => true
              | _, _ => false
              end
          | None => (sc_params c =? 0) && match sc_body c with NRead => true | _ => false end
          end
      | None => false
      end
  | _ => true
  end.

Definition sem_b (st : sstate) : bool :=
  leaf_closure_ok st "write" (Some BWrite) && leaf_closure_ok st "toa" (Some BToa) &&
  leaf_closure_ok st "aton" (Some BAton) && leaf_closure_ok st "read" None &&
  forallb (fun p => fst p <? s_next st) (s_clos st).

Lemma leaf_bop_sound st nm b mo id :
  leaf_closure_ok st nm (Some b) = true -> gval (s_globals st) nm = VFun mo id ->
  exists lc ln, assoc_get (s_clos st) id =
    Some {| sc_params := 1; sc_locals := lc; sc_body := bop_node b (NLocal 0 ln); sc_env := None |}.
Proof.
  unfold leaf_closure_ok. intros H Hv. rewrite Hv in H.
  destruct (assoc_get (s_clos st) id) as [c|]; [|discriminate H]. destruct c as [pa lo bo en]. cbn [sc_env sc_params sc_body] in H.
  destruct en; [discriminate H|]. cbn [andb] in H. apply andb_prop in H. destruct H as [H1 H2]. apply Z.eqb_eq in H1. subst pa.
  destruct b, bo; try discriminate H2; destruct bo; try discriminate H2; destruct ix; try discriminate H2;
    eexists; eexists; reflexivity.
Qed.

Lemma leaf_read_sound st mo id :
  leaf_closure_ok st "read" None = true -> gval (s_globals st) "read" = VFun mo id ->
  exists lc, assoc_get (s_clos st) id = Some {| sc_params := 0; sc_locals := lc; sc_body := NRead; sc_env := None |}.
Proof.
  unfold leaf_closure_ok. intros H Hv. rewrite Hv in H.
  destruct (assoc_get (s_clos st) id) as [c|]; [|discriminate H]. destruct c as [pa lo bo en]. cbn [sc_env sc_params sc_body] in H.
  destruct en; [discriminate H|]. cbn [andb] in H. apply andb_prop in H. destruct H as [H1 H2]. apply Z.eqb_eq in H1. subst pa.
  destruct bo; try discriminate H2. eexists. reflexivity.
Qed.

Theorem sem_b_sound st : sem_b st = true -> sem_ok (tab_of (s_globals st)) st.
Proof.
  unfold sem_b. intros H. apply andb_prop in H. destruct H as [H Hf]. apply andb_prop in H. destruct H as [H Hr].
  apply andb_prop in H. destruct H as [H Ha]. apply andb_prop in H. destruct H as [Hw Ht].
  split; [|apply closfresh_b; exact Hf]. split; [|split].
  - intros nm b mo id Hb Hv. cbn [tab_of ft_val] in Hv.
    destruct (bop_name_cases nm b Hb) as [[E1 E2]|[[E1 E2]|[E1 E2]]]; subst nm b; cbn in Hv.
    + exact (leaf_bop_sound st _ _ mo id Hw Hv).
    + exact (leaf_bop_sound st _ _ mo id Ht Hv).
    + exact (leaf_bop_sound st _ _ mo id Ha Hv).
  - intros mo id Hv. cbn in Hv. exact (leaf_read_sound st mo id Hr Hv).
  - intros nm body mo id Hb Hbody Hv. cbn [tab_of ft_body ft_val] in Hbody, Hv.
    destruct (existsb (String.eqb nm) other_builtins) eqn:E; [|discriminate Hbody].
    destruct (other_cases nm E) as [->|[->|[->| ->]]]; discriminate Hv.
Qed.

(* the relation of the two worlds *)
Definition fun_names : list string := ["write"; "toa"; "aton"; "read"; "exit"; "fromto"; "indices"; "elems"]%string.

Definition wrel_b (st : sstate) (mc : machine) : bool :=
  let G1 := s_globals st in
  let G2 := v_globals (mc_vm mc) in
  forallb (fun k => is_bname (tab_of G1) k || veq (gval G1 k) (gval G2 k)) (map fst G1 ++ map fst G2) &&
  sl_eqb (s_out st) (v_out (mc_vm mc)) && sl_eqb (s_in st) (v_in (mc_vm mc)) &&
  forallb (fun nm => Bool.eqb (fun_eqb (gval G1 nm) (ft_val (tab_of G1) nm)) (fun_eqb (gval G2 nm) (ft_val (tab_of G2) nm))) fun_names.

Lemma gval_not_key G g : ~ In g (map fst G) -> gval G g = VNil.
Proof.
  intros H. apply gval_no_key. apply forallb_forall. intros kv Hin. apply negb_true_iff.
  destruct (String.eqb_spec (fst kv) g) as [E|_]; [|reflexivity]. exfalso. apply H. rewrite <- E. apply in_map. exact Hin.
Qed.

Theorem wrel_b_sound st mc :
  wrel_b st mc = true ->
  wrel (tab_of (s_globals st)) (tab_of (v_globals (mc_vm mc))) [] [] (wof_s st) (wof (mc_vm mc)).
Proof.
  unfold wrel_b. cbv zeta. intros H. apply andb_prop in H. destruct H as [H Hb]. apply andb_prop in H. destruct H as [H Hi].
  apply andb_prop in H. destruct H as [Hg Ho].
  constructor; cbn [wof_s wof w_glob w_out w_in].
  - intros g Hn.
    destruct (in_dec String.string_dec g (map fst (s_globals st) ++ map fst (v_globals (mc_vm mc)))) as [Hin|Hout].
    + rewrite forallb_forall in Hg. specialize (Hg g Hin). rewrite Hn in Hg. cbn [orb] in Hg. exact (veq_sound _ _ Hg).
    + rewrite !gval_not_key; [reflexivity| |]; intros X; apply Hout; apply in_or_app; [right|left]; exact X.
  - exists (s_out st). rewrite app_nil_r. split; [reflexivity|]. symmetry. exact (sl_eqb_sound _ _ Ho).
  - exact (sl_eqb_sound _ _ Hi).
  - intros nm Hnm. rewrite forallb_forall in Hb.
    assert (Hin : In nm fun_names).
    { destruct (tab_names _ nm Hnm) as [->|[->|[->|[->|[->|[->|[->| ->]]]]]]]; cbn; tauto. }
    exact (Bool.eqb_prop _ _ (Hb nm Hin)).
Qed.

(* the tables of two such states are always compatible *)
Lemma tabs_any FN G1 G2 : incl other_builtins FN -> tabs_ok FN (tab_of G1) (tab_of G2).
Proof.
  intros Hinc. constructor.
  - reflexivity.
  - reflexivity.
  - intros g Hg. unfold is_bname in *. destruct (bop_of_name g); [reflexivity|].
    destruct (String.eqb g "read"); [reflexivity|]. cbn [orb] in *. cbn [tab_of ft_body] in Hg. cbn [BS ft_body].
    destruct (existsb (String.eqb g) other_builtins) eqn:E; [|discriminate Hg].
    apply existsb_exists in E. destruct E as [x [Hx Ex]]. apply String.eqb_eq in Ex. subst x.
    assert (E2 : existsb (String.eqb g) FN = true) by (apply existsb_exists; exists g; split; [exact (Hinc g Hx)|apply String.eqb_refl]).
    rewrite E2. reflexivity.
  - intros nm body H. cbn [tab_of ft_body] in H. destruct (existsb (String.eqb nm) other_builtins); [|discriminate H].
    injection H as <-. split; [reflexivity|exists []; reflexivity].
Qed.

Definition start_ok2 (st : sstate) (mc : machine) : bool := start_ok mc && sem_b st && wrel_b st mc.

(* a pair of states that passes the checks runs every list of qualifying trees as the Sem-vs-VM session theorem says *)
Theorem checked_pair_is_covered FN st mc items :
  start_ok2 st mc = true -> incl other_builtins FN -> Forall (item_ok2 FN) items ->
  agree [] [] (tab_of (s_globals st)) (self_tab mc) st mc items.
Proof.
  unfold start_ok2. intros H Hinc Hall. apply andb_prop in H. destruct H as [H Hw]. apply andb_prop in H. destruct H as [Hm Hs].
  destruct (start_ok_sound mc Hm) as [c [m Hr]].
  exact (agree_session FN [] [] items _ _ st mc c m (tabs_any FN _ _ Hinc) (sem_b_sound st Hs) Hr (wrel_b_sound st mc Hw) Hall).
Qed.

(* ================= two machines: the premises of the two-machine session theorem ================= *)
Require Import Calc.StmtModes.

Definition wrel_mb (mc1 mc2 : machine) : bool :=
  let G1 := v_globals (mc_vm mc1) in
  let G2 := v_globals (mc_vm mc2) in
  forallb (fun k => is_bname (tab_of G1) k || veq (gval G1 k) (gval G2 k)) (map fst G1 ++ map fst G2) &&
  sl_eqb (v_out (mc_vm mc1)) (v_out (mc_vm mc2)) && sl_eqb (v_in (mc_vm mc1)) (v_in (mc_vm mc2)) &&
  forallb (fun nm => Bool.eqb (fun_eqb (gval G1 nm) (ft_val (tab_of G1) nm)) (fun_eqb (gval G2 nm) (ft_val (tab_of G2) nm))) fun_names.

Theorem wrel_mb_sound mc1 mc2 :
  wrel_mb mc1 mc2 = true ->
  wrel (self_tab mc1) (self_tab mc2) [] [] (wof (mc_vm mc1)) (wof (mc_vm mc2)).
Proof.
  unfold wrel_mb, self_tab. cbv zeta. intros H. apply andb_prop in H. destruct H as [H Hb]. apply andb_prop in H. destruct H as [H Hi].
  apply andb_prop in H. destruct H as [Hg Ho].
  constructor; cbn [wof w_glob w_out w_in].
  - intros g Hn.
    destruct (in_dec String.string_dec g (map fst (v_globals (mc_vm mc1)) ++ map fst (v_globals (mc_vm mc2)))) as [Hin|Hout].
    + rewrite forallb_forall in Hg. specialize (Hg g Hin). rewrite Hn in Hg. cbn [orb] in Hg. exact (veq_sound _ _ Hg).
    + rewrite !gval_not_key; [reflexivity| |]; intros X; apply Hout; apply in_or_app; [right|left]; exact X.
  - exists (v_out (mc_vm mc1)). rewrite app_nil_r. split; [reflexivity|]. symmetry. exact (sl_eqb_sound _ _ Ho).
  - exact (sl_eqb_sound _ _ Hi).
  - intros nm Hnm. rewrite forallb_forall in Hb.
    assert (Hin : In nm fun_names).
    { destruct (tab_names _ nm Hnm) as [->|[->|[->|[->|[->|[->|[->| ->]]]]]]]; cbn; tauto. }
    exact (Bool.eqb_prop _ _ (Hb nm Hin)).
Qed.

Definition start_ok_modes (mc1 mc2 : machine) : bool := start_ok mc1 && start_ok mc2 && wrel_mb mc1 mc2.

(* two machines that pass the checks — one continued in value mode, the other in file mode — run every list of
   qualifying trees as the two-machine session theorem says *)
Theorem checked_modes_are_covered FN mc1 mc2 items :
  start_ok_modes mc1 mc2 = true -> incl other_builtins FN -> Forall (item_ok2 FN) items ->
  pair false true [] [] (self_tab mc1) (self_tab mc2) mc1 mc2 items.
Proof.
  unfold start_ok_modes. intros H Hinc Hall. apply andb_prop in H. destruct H as [H Hw]. apply andb_prop in H. destruct H as [H1 H2].
  destruct (start_ok_sound mc1 H1) as [c1 [m1 Hr1]]. destruct (start_ok_sound mc2 H2) as [c2 [m2 Hr2]].
  exact (pair_session FN false true [] [] items _ _ mc1 c1 m1 mc2 c2 m2 (tabs_any FN _ _ Hinc) Hr1 Hr2 (wrel_mb_sound mc1 mc2 Hw) Hall).
Qed.
