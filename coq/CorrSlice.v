(* CorrSlice.v — C10: a sequence of array operations on real value.Type
   values (observed) and on the slice model. *)
Require Import Calc.Base Calc.Bytecode Calc.Value Calc.Slice.
Open Scope nat_scope.

(* observed result of one operation: the value, and length and capacity of
   its Go slice when it is an array (else 0 0) *)
Definition sobs := (value * nat * nat)%type.

Fixpoint vsame_list (a b : list value) : bool :=
  match a, b with
  | [], [] => true
  | x :: a', y :: b' => vsame x y && vsame_list a' b'
  | _, _ => false
  end.

(* 0 fine; 1 + 100*k: the model's k-th result differs from the observed one
   (value, slice length or capacity) *)
Fixpoint chk_slice_loop (k : nat) (st : sstate) (ops : list sop) (obs : list sobs) : nat :=
  match ops, obs with
  | o :: ops', (v, l, c) :: obs' =>
      let st' := s_step st o in
      match last (st_pool st') (SScalar VNil) with
      | SScalar x => if vsame x v then chk_slice_loop (S k) st' ops' obs' else 1 + 100 * k
      | SSlice a off len cap as s =>
          if vsame (vis (fuel_of st') (st_heap st') s) v && Nat.eqb len l && Nat.eqb cap c
          then chk_slice_loop (S k) st' ops' obs' else 1 + 100 * k
      end
  | _, _ => 0
  end.

(* after the whole sequence every pool value must still be what the real code shows *)
Definition chk_slice (c : list sop * list sobs * list value) : Z :=
  let '(ops, obs, final) := c in
  match chk_slice_loop 0 st0 ops obs with
  | O => if vsame_list (visible (s_run ops)) final then 0%Z else 2%Z
  | n => Z.of_nat n
  end.
