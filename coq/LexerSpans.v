(* LexerSpans.v — C14: for every input, the tokens of a scan lie inside the
   input, in source order, without overlap (the two synthetic tokens at the end,
   end-of-line and end-of-file, carry the empty span 0,0). *)
Require Import Calc.Base Calc.Lexer Calc.LexerProofs.
Require Import Lia.
Open Scope Z_scope.

Definition synthetic (t : token) : Prop :=
  (t_kind t = KEOL \/ t_kind t = KEOF) /\ t_from t = 0 /\ t_to t = 0.

Definition cursor_ok (l : lexer) : Prop := lexer_wf l /\ 0 <= l_from l <= l_to l.

(* one call of Next that returns a token without error *)
Lemma next_loop_span : forall fuel l st l',
  cursor_ok l -> next_loop fuel l st = NTrue l' -> l_err l' = None ->
  cursor_ok l' /\ l_len l' = l_len l /\
  ((synthetic (l_token l') /\ l_from l <= l_from l') \/
   (l_from l <= t_from (l_token l') /\ t_from (l_token l') <= t_to (l_token l') /\
    t_to (l_token l') = l_from l' /\ l_from l' <= l_len l)).
Proof.
  induction fuel as [|k IH]; intros l st l' [(Hlen & Hto & Htr & Hrl) Hft] H He; [discriminate|].
  cbn [next_loop] in H.
  destruct (finished l) eqn:Fin.
  { destruct (negb (l_eof l) && negb (kind_eqb (t_kind (l_token l)) KEOL)).
    - inversion H; subst; clear H. split; [split; [unfold lexer_wf|]; cbn; repeat split; try assumption; lia|].
      split; [reflexivity|]. left. split; [unfold synthetic; cbn; auto|cbn; lia].
    - destruct (negb (l_eof l)); [|discriminate]. inversion H; subst; clear H.
      split; [split; [unfold lexer_wf|]; cbn; repeat split; try assumption; lia|].
      split; [reflexivity|]. left. split; [unfold synthetic; cbn; auto|cbn; lia]. }
  destruct ((l_to l <? l_len l) && (l_rdr l >=? l_len l)) eqn:Dry; [discriminate|].
  destruct (Z.geb_spec (l_to l) (l_len l)) as [Hend|Hmid].
  - destruct (state_fn st EOFr) as [r|]; [|discriminate].
    destruct (s_err r); [inversion H; subst; cbn in He; discriminate|].
    destruct (s_emit r).
    + inversion H; subst; clear H. cbn [l_err] in He.
      split; [split; [unfold lexer_wf|]; cbn; repeat split; try assumption; lia|].
      split; [reflexivity|]. right. cbn. repeat split; lia.
    + eapply IH in H; [|split; [unfold lexer_wf|]; cbn; repeat split; try assumption; try lia; destruct (s_adv r); lia|exact He].
      cbn [with_cursor l_len l_from] in H.
      destruct H as (C' & EL & [[Sy Ef]|(A & B & C & Dd)]); (split; [exact C'|split; [exact EL|]]).
      * left. split; [exact Sy|]. destruct (s_adv r); lia.
      * right. repeat split; try assumption. destruct (s_adv r); lia.
  - assert (Hr : l_rdr l < l_len l).
    { destruct (Z.ltb_spec (l_to l) (l_len l)); [|lia]. cbn in Dry. destruct (Z.geb_spec (l_rdr l) (l_len l)); [discriminate|lia]. }
    destruct (decode_rune (skipn (Z.to_nat (l_rdr l)) (l_input l))) as [rn sz] eqn:D.
    assert (Hsz : 1 <= sz).
    { pose proof (decode_size_pos (skipn (Z.to_nat (l_rdr l)) (l_input l))) as P. rewrite D in P. apply P.
      apply skipn_nonempty. lia. }
    assert (Hsz2 : l_rdr l + sz <= l_len l).
    { pose proof (decode_size_le (skipn (Z.to_nat (l_rdr l)) (l_input l))) as P. rewrite D in P. cbn in P.
      rewrite skipn_length in P. lia. }
    destruct (state_fn st (if rn =? EOFr then RuneError else rn)) as [r|]; [|discriminate].
    destruct (s_err r); [inversion H; subst; cbn in He; discriminate|].
    destruct (s_emit r).
    + inversion H; subst; clear H. cbn [l_err] in He.
      split; [split; [unfold lexer_wf|]; cbn; repeat split; try assumption; lia|].
      split; [reflexivity|]. right. cbn. repeat split; lia.
    + eapply IH in H; [|split; [unfold lexer_wf|]; cbn; repeat split; try assumption; try lia; destruct (s_adv r); lia|exact He].
      cbn [with_cursor l_len l_from] in H.
      destruct H as (C' & EL & [[Sy Ef]|(A & B & C & Dd)]); (split; [exact C'|split; [exact EL|]]).
      * left. split; [exact Sy|]. destruct (s_adv r); lia.
      * right. repeat split; try assumption. destruct (s_adv r); lia.
Qed.

Fixpoint spans_ok (len f : Z) (es : list lexres) : Prop :=
  match es with
  | [] => True
  | e :: r =>
      match r_err e with
      | Some _ => True
      | None =>
          (synthetic (r_token e) /\ spans_ok len f r) \/
          (f <= t_from (r_token e) /\ t_from (r_token e) <= t_to (r_token e) /\ t_to (r_token e) <= len /\
           spans_ok len (t_to (r_token e)) r)
      end
  end.

Lemma scan_spans : forall fuel l f, cursor_ok l -> f <= l_from l -> spans_ok (l_len l) f (scan_all fuel l).
Proof.
  induction fuel as [|k IH]; intros l f C Hf; [exact I|]. cbn [scan_all].
  destruct (lexer_next l) as [l'| | |] eqn:N; try exact I.
  destruct (l_err l') as [m|] eqn:E; cbn [spans_ok r_err r_token]; [exact I|].
  unfold lexer_next in N.
  destruct (next_loop_span _ _ _ _ C N E) as (C' & EL & [[Sy Hfr]|(A & B & Cc & D)]).
  - left. split; [exact Sy|]. rewrite <- EL. apply IH; [exact C'|lia].
  - right. repeat split; try lia. rewrite <- EL. apply IH; [exact C'|lia].
Qed.

Lemma bytes_of_length s : List.length (bytes_of s) = String.length s.
Proof. induction s as [|c s IH]; cbn; [reflexivity|]. rewrite IH. reflexivity. Qed.

(* every token of a scan lies inside the input; tokens follow each other in
   source order and do not overlap *)
Theorem tokens_in_source_order : forall input, spans_ok (slen input) 0 (tokens_of input).
Proof.
  intros input. unfold tokens_of.
  assert (C : cursor_ok (new_lexer input)).
  { split; [apply new_lexer_wf|]. cbn. lia. }
  pose proof (scan_spans (Z.to_nat (2 * slen input + 4)) (new_lexer input) 0 C ltac:(cbn; lia)) as H.
  cbn [new_lexer l_len] in H. rewrite bytes_of_length in H. exact H.
Qed.
