(* ExprSem.v — the pure expression fragment: literals, global variables,
   binary and unary operators, at any nesting depth.  Its denotation [den],
   and that the definitional semantics (Sem.eval) computes exactly it. *)
Require Import Calc.Base Calc.Bytecode Calc.Value Calc.FloatText Calc.Ast Calc.Compile Calc.VM Calc.Sem.
Require Import Lia Floats.
Open Scope Z_scope.

Definition is_negzero (f : float) : bool :=
  match Prim2SF f with S754_zero true => true | _ => false end.

Definition unop_ok (op : string) : bool :=
  String.eqb op "-" || String.eqb op "#" || String.eqb op "!" || String.eqb op "~".

Fixpoint pure (e : node) : bool :=
  match e with
  | NInt _ | NBool _ | NStr _ | NName _ => true
  | NFloat f => negb (is_negzero f)        (* the lexer has no signed literals *)
  | NBin op l r => match binop_opcode op with Some _ => pure l && pure r | None => false end
  | NUn op t => unop_ok op && pure t
  | _ => false
  end.

Definition gval (G : list (string * value)) (g : string) : value :=
  match sassoc_get G g with Some v => v | None => VNil end.

(* the value of a pure expression: operands left to right, both before the operator *)
Fixpoint den (G : list (string * value)) (e : node) : res value :=
  match e with
  | NInt i => Ok (VInt i)
  | NFloat f => Ok (VFloat f)
  | NBool b => Ok (VBool b)
  | NStr s => Ok (VStr s)
  | NName g => Ok (gval G g)
  | NBin op l r =>
      match binop_opcode op with
      | None => Fail ErrType
      | Some c =>
          match den G l with
          | Fail e => Fail e
          | Ok a => match den G r with
                    | Fail e => Fail e
                    | Ok b => apply_binop c a b
                    end
          end
      end
  | NUn op t =>
      match den G t with
      | Fail e => Fail e
      | Ok a => match unop_sem op a with Some r => r | None => Fail ErrType end
      end
  | _ => Fail ErrType
  end.

Fixpoint height (e : node) : nat :=
  match e with
  | NBin _ l r => S (Nat.max (height l) (height r))
  | NUn _ t => S (height t)
  | _ => 1%nat
  end.

Definition ctl_of (r : res value) : ctl := match r with Ok v => CVal v | Fail e => CErr e end.

Lemma unop_ok_sem op a : unop_ok op = true -> exists r, unop_sem op a = Some r.
Proof.
  unfold unop_ok, unop_sem. intros H.
  destruct (String.eqb op "-"); [eauto|]. destruct (String.eqb op "#"); [eauto|].
  destruct (String.eqb op "!"); [eauto|]. destruct (String.eqb op "~"); [eauto|]. discriminate.
Qed.

(* the definitional semantics computes the denotation, in any environment, without touching the state *)
Theorem eval_pure : forall e, pure e = true -> forall fuel env st, (height e <= fuel)%nat ->
  eval fuel e env st = Done st (ctl_of (den (s_globals st) e)).
Proof.
  induction e; intros Hp fuel env st Hf; try discriminate Hp;
    (destruct fuel as [|fuel]; [cbn [height] in Hf; lia|]).
  - reflexivity.
  - reflexivity.
  - reflexivity.
  - reflexivity.
  - reflexivity.
  - (* NBin *)
    cbn [pure] in Hp. cbn [eval den].
    destruct (binop_opcode op) as [c|]; [|discriminate].
    apply andb_prop in Hp. destruct Hp as [Hl Hr]. cbn [height] in Hf.
    rewrite (IHe1 Hl fuel env st ltac:(lia)).
    destruct (den (s_globals st) e1) as [a|err]; cbn [ctl_of bind]; [|reflexivity].
    rewrite (IHe2 Hr fuel env st ltac:(lia)).
    destruct (den (s_globals st) e2) as [b|err]; cbn [ctl_of bind]; [|reflexivity].
    destruct (apply_binop c a b); reflexivity.
  - (* NUn *)
    cbn [pure] in Hp. apply andb_prop in Hp. destruct Hp as [Ho Ht]. cbn [eval den height] in *.
    rewrite (IHe Ht fuel env st ltac:(lia)).
    destruct (den (s_globals st) e) as [a|err]; cbn [ctl_of bind]; [|reflexivity].
    destruct (unop_ok_sem op a Ho) as [r Er]. rewrite Er. destruct r; reflexivity.
Qed.

(* ---- syntactic equality as the compiler tests it ---- *)
Lemma float_eqb_eq a b : is_negzero a = false -> is_negzero b = false -> feq a b = true -> a = b.
Proof.
  unfold feq, is_negzero. intros Ha Hb H. rewrite eqb_spec in H.
  apply Prim2SF_inj. unfold SFeqb, SFcompare in H.
  destruct (Prim2SF a) as [sa|sa| |sa ma ea]; destruct (Prim2SF b) as [sb|sb| |sb mb eb]; try discriminate H;
    try (destruct sa; discriminate); try (destruct sb; discriminate).
  - destruct sa; [discriminate|]. destruct sb; [discriminate|]. reflexivity.
  - destruct sa, sb; try discriminate; reflexivity.
  - destruct sa, sb; try discriminate H;
      (destruct (Z.compare_spec ea eb); try discriminate H; subst eb;
       change (Pos.compare_cont Eq ma mb) with (Pos.compare ma mb) in H;
       destruct (Pos.compare_spec ma mb); try discriminate H; subst; reflexivity).
Qed.

Lemma node_eqb_pure : forall l r, pure l = true -> pure r = true -> node_eqb l r = true -> l = r.
Proof.
  induction l; intros r Hl Hr H; try discriminate Hl; destruct r; try discriminate H; try discriminate Hr;
    cbn [node_eqb] in H; cbn [pure] in Hl, Hr.
  - apply Z.eqb_eq in H. subst. reflexivity.
  - apply negb_true_iff in Hl. apply negb_true_iff in Hr. rewrite (float_eqb_eq _ _ Hl Hr H). reflexivity.
  - apply String.eqb_eq in H. subst. reflexivity.
  - apply Bool.eqb_prop in H. subst. reflexivity.
  - apply String.eqb_eq in H. subst. reflexivity.
  - apply andb_prop in H. destruct H as [H H2]. apply andb_prop in H. destruct H as [H0 H1].
    apply String.eqb_eq in H0. subst.
    destruct (binop_opcode op0); [|discriminate].
    apply andb_prop in Hl. destruct Hl. apply andb_prop in Hr. destruct Hr.
    rewrite (IHl1 r1), (IHl2 r2); auto.
  - apply andb_prop in H. destruct H as [H0 H1]. apply String.eqb_eq in H0. subst.
    apply andb_prop in Hl. destruct Hl. apply andb_prop in Hr. destruct Hr.
    rewrite (IHl r); auto.
Qed.

Lemma has_call_pure : forall e, pure e = true -> has_call e = false.
Proof.
  induction e; intros H; try discriminate H; try reflexivity; cbn [pure has_call] in *.
  - destruct (binop_opcode op); [|discriminate]. apply andb_prop in H. destruct H.
    rewrite IHe1, IHe2; auto.
  - apply andb_prop in H. destruct H. auto.
Qed.

Lemma is_list_pure e : pure e = true -> is_list_node e = false.
Proof. destruct e; intros H; try discriminate H; reflexivity. Qed.
