(* ExprSem.v — the pure expression fragment: literals, global variables,
   binary and unary operators, array literals, indexing and slicing, at any
   nesting depth.  Its denotation [den], and that the definitional semantics
   (Sem.eval) computes exactly it. *)
Require Import Calc.Base Calc.Bytecode Calc.Value Calc.FloatText Calc.Ast Calc.Compile Calc.VM Calc.Sem.
Require Import Lia Floats.
Open Scope Z_scope.

Definition is_negzero (f : float) : bool :=
  match Prim2SF f with S754_zero true => true | _ => false end.

Definition unop_ok (op : string) : bool :=
  String.eqb op "-" || String.eqb op "#" || String.eqb op "!" || String.eqb op "~".

Fixpoint pure (e : node) : bool :=
  match e with
  | NInt _ | NBool _ | NStr _ | NName _ => true
  | NFloat f => negb (is_negzero f)        (* the lexer has no signed literals *)
  | NBin op l r => match binop_opcode op with Some _ => pure l && pure r | None => false end
  | NUn op t => unop_ok op && pure t
  | NList l => forallb pure l
  | NIndexAt a i => pure a && pure i
  | NIndexFromTo a f t => pure a && pure f && pure t
  | _ => false
  end.

Definition gval (G : list (string * value)) (g : string) : value :=
  match sassoc_get G g with Some v => v | None => VNil end.

(* the values of a list of expressions, left to right, up to the first failure *)
Definition seq_res (f : node -> res value) : list node -> res (list value) :=
  fix go (l : list node) : res (list value) :=
    match l with
    | [] => Ok []
    | x :: r =>
        match f x with
        | Fail e => Fail e
        | Ok v => match go r with Fail e => Fail e | Ok vs => Ok (v :: vs) end
        end
    end.

(* the value of a pure expression: operands left to right, all before the operator *)
Fixpoint den (G : list (string * value)) (e : node) : res value :=
  match e with
  | NInt i => Ok (VInt i)
  | NFloat f => Ok (VFloat f)
  | NBool b => Ok (VBool b)
  | NStr s => Ok (VStr s)
  | NName g => Ok (gval G g)
  | NBin op l r =>
      match binop_opcode op with
      | None => Fail ErrType
      | Some c =>
          match den G l with
          | Fail e => Fail e
          | Ok a => match den G r with
                    | Fail e => Fail e
                    | Ok b => apply_binop c a b
                    end
          end
      end
  | NUn op t =>
      match den G t with
      | Fail e => Fail e
      | Ok a => match unop_sem op a with Some r => r | None => Fail ErrType end
      end
  | NList l =>
      match seq_res (den G) l with
      | Ok vs => Ok (VArr vs)
      | Fail e => Fail e
      end
  | NIndexAt a i =>
      match den G a with
      | Fail e => Fail e
      | Ok av => match den G i with Fail e => Fail e | Ok iv => Index1 av iv end
      end
  | NIndexFromTo a f t =>
      match den G a with
      | Fail e => Fail e
      | Ok av =>
          match den G f with
          | Fail e => Fail e
          | Ok fv => match den G t with Fail e => Fail e | Ok tv => Index2 av fv tv end
          end
      end
  | _ => Fail ErrType
  end.

Fixpoint height (e : node) : nat :=
  match e with
  | NBin _ l r => S (Nat.max (height l) (height r))
  | NUn _ t => S (height t)
  | NList l => S (fold_right (fun x acc => Nat.max (height x) acc) 0%nat l)
  | NIndexAt a i => S (Nat.max (height a) (height i))
  | NIndexFromTo a f t => S (Nat.max (height a) (Nat.max (height f) (height t)))
  | _ => 1%nat
  end.

Definition ctl_of (r : res value) : ctl := match r with Ok v => CVal v | Fail e => CErr e end.

(* ---- induction over pure expressions ---- *)
Section PureInd.
  Variable Q : node -> Prop.
  Hypothesis HInt : forall i, Q (NInt i).
  Hypothesis HFloat : forall f, is_negzero f = false -> Q (NFloat f).
  Hypothesis HStr : forall s, Q (NStr s).
  Hypothesis HBool : forall b, Q (NBool b).
  Hypothesis HName : forall g, Q (NName g).
  Hypothesis HBin : forall op c l r, binop_opcode op = Some c -> pure l = true -> pure r = true ->
    Q l -> Q r -> Q (NBin op l r).
  Hypothesis HUn : forall op t, unop_ok op = true -> pure t = true -> Q t -> Q (NUn op t).
  Hypothesis HList : forall l, forallb pure l = true -> Forall Q l -> Q (NList l).
  Hypothesis HIx1 : forall a i, pure a = true -> pure i = true -> Q a -> Q i -> Q (NIndexAt a i).
  Hypothesis HIx2 : forall a f t, pure a = true -> pure f = true -> pure t = true ->
    Q a -> Q f -> Q t -> Q (NIndexFromTo a f t).

  Fixpoint pure_induction (e : node) : pure e = true -> Q e.
  Proof.
    destruct e; intros Hp; try discriminate Hp; cbn [pure] in Hp.
    - apply HInt.
    - apply HFloat. apply negb_true_iff. exact Hp.
    - apply HStr.
    - apply HBool.
    - apply HName.
    - destruct (binop_opcode op) as [c|] eqn:E; [|discriminate Hp].
      apply andb_prop in Hp. destruct Hp as [H1 H2].
      apply (HBin op c e1 e2 E H1 H2); apply pure_induction; assumption.
    - apply andb_prop in Hp. destruct Hp as [H1 H2]. apply (HUn op e H1 H2). apply pure_induction. exact H2.
    - apply andb_prop in Hp. destruct Hp as [H1 H2]. apply (HIx1 e1 e2 H1 H2); apply pure_induction; assumption.
    - apply andb_prop in Hp. destruct Hp as [H12 H3]. apply andb_prop in H12. destruct H12 as [H1 H2].
      apply (HIx2 e1 e2 e3 H1 H2 H3); apply pure_induction; assumption.
    - apply (HList l Hp). induction l as [|x r IHr]; [constructor|].
      cbn [forallb] in Hp. apply andb_prop in Hp. destruct Hp as [Hx Hr].
      constructor; [apply pure_induction; exact Hx|apply IHr; exact Hr].
  Defined.
End PureInd.

Lemma unop_ok_sem op a : unop_ok op = true -> exists r, unop_sem op a = Some r.
Proof.
  unfold unop_ok, unop_sem. intros H.
  destruct (String.eqb op "-"); [eauto|]. destruct (String.eqb op "#"); [eauto|].
  destruct (String.eqb op "!"); [eauto|]. destruct (String.eqb op "~"); [eauto|]. discriminate.
Qed.

(* the list evaluator of Sem.eval, named *)
Definition ev_list_of (fuel' : nat) (e : env) :=
  fix go (l : list node) (st : sstate) (acc : list value) (k : sstate -> list value -> comp) : comp :=
    match l with
    | [] => k st (rev acc)
    | x :: r => bind (eval fuel' x e st) (fun st' v => go r st' (v :: acc) k)
    end.

Lemma eval_list f l e st :
  eval (S f) (NList l) e st = ev_list_of f e l st [] (fun st' vs => Done st' (CVal (VArr vs))).
Proof. reflexivity. Qed.

Lemma ev_list_pure f e : forall l,
  Forall (fun x => forall st, eval f x e st = Done st (ctl_of (den (s_globals st) x))) l ->
  forall st acc k,
    ev_list_of f e l st acc k =
    match seq_res (den (s_globals st)) l with
    | Ok vs => k st (rev acc ++ vs)
    | Fail err => Done st (CErr err)
    end.
Proof.
  induction l as [|x r IH]; intros HF st acc k; cbn [ev_list_of seq_res].
  - rewrite app_nil_r. reflexivity.
  - inversion HF as [|x' r' Hx Hr]; subst. rewrite Hx.
    destruct (den (s_globals st) x) as [v|err]; cbn [ctl_of bind]; [|reflexivity].
    rewrite (IH Hr st (v :: acc) k).
    destruct (seq_res (den (s_globals st)) r) as [vs|err]; [|reflexivity].
    cbn [rev]. rewrite <- app_assoc. reflexivity.
Qed.

Lemma height_in x l : In x l -> (height x <= fold_right (fun y acc => Nat.max (height y) acc) 0 l)%nat.
Proof.
  induction l as [|y r IH]; intros H; [destruct H|]. cbn [fold_right].
  destruct H as [->|H]; [lia|]. specialize (IH H). lia.
Qed.

(* the definitional semantics computes the denotation, in any environment, without touching the state *)
Theorem eval_pure : forall e, pure e = true -> forall fuel env st, (height e <= fuel)%nat ->
  eval fuel e env st = Done st (ctl_of (den (s_globals st) e)).
Proof.
  apply (pure_induction (fun e => forall fuel env st, (height e <= fuel)%nat ->
                                   eval fuel e env st = Done st (ctl_of (den (s_globals st) e))));
    try (intros; destruct fuel as [|fuel]; [cbn [height] in *; lia|]; reflexivity).
  - (* NBin *)
    intros op c l r Hc Hl Hr IHl IHr fuel env st Hf. destruct fuel as [|fuel]; [cbn [height] in Hf; lia|].
    cbn [eval den height] in *. rewrite Hc.
    rewrite (IHl fuel env st ltac:(lia)).
    destruct (den (s_globals st) l) as [a|err]; cbn [ctl_of bind]; [|reflexivity].
    rewrite (IHr fuel env st ltac:(lia)).
    destruct (den (s_globals st) r) as [b|err]; cbn [ctl_of bind]; [|reflexivity].
    destruct (apply_binop c a b); reflexivity.
  - (* NUn *)
    intros op t Ho Ht IHt fuel env st Hf. destruct fuel as [|fuel]; [cbn [height] in Hf; lia|].
    cbn [eval den height] in *. rewrite (IHt fuel env st ltac:(lia)).
    destruct (den (s_globals st) t) as [a|err]; cbn [ctl_of bind]; [|reflexivity].
    destruct (unop_ok_sem op a Ho) as [r Er]. rewrite Er. destruct r; reflexivity.
  - (* NList *)
    intros l Hp HF fuel env st Hf. destruct fuel as [|fuel]; [cbn [height] in Hf; lia|].
    rewrite eval_list. cbn [height] in Hf.
    rewrite (ev_list_pure fuel env l).
    + cbn [den rev app]. destruct (seq_res (den (s_globals st)) l); reflexivity.
    + rewrite Forall_forall in *. intros x Hx st'. apply (HF x Hx). pose proof (height_in x l Hx). lia.
  - (* NIndexAt *)
    intros a i Ha Hi IHa IHi fuel env st Hf. destruct fuel as [|fuel]; [cbn [height] in Hf; lia|].
    cbn [eval den height] in *. rewrite (IHa fuel env st ltac:(lia)).
    destruct (den (s_globals st) a) as [av|err]; cbn [ctl_of bind]; [|reflexivity].
    rewrite (IHi fuel env st ltac:(lia)).
    destruct (den (s_globals st) i) as [iv|err]; cbn [ctl_of bind]; [|reflexivity].
    destruct (Index1 av iv); reflexivity.
  - (* NIndexFromTo *)
    intros a f t Ha Hff Ht IHa IHf IHt fuel env st Hf. destruct fuel as [|fuel]; [cbn [height] in Hf; lia|].
    cbn [eval den height] in *. rewrite (IHa fuel env st ltac:(lia)).
    destruct (den (s_globals st) a) as [av|err]; cbn [ctl_of bind]; [|reflexivity].
    rewrite (IHf fuel env st ltac:(lia)).
    destruct (den (s_globals st) f) as [fv|err]; cbn [ctl_of bind]; [|reflexivity].
    rewrite (IHt fuel env st ltac:(lia)).
    destruct (den (s_globals st) t) as [tv|err]; cbn [ctl_of bind]; [|reflexivity].
    destruct (Index2 av fv tv); reflexivity.
Qed.

(* ---- syntactic equality as the compiler tests it ---- *)
Lemma float_eqb_eq a b : is_negzero a = false -> is_negzero b = false -> feq a b = true -> a = b.
Proof.
  unfold feq, is_negzero. intros Ha Hb H. rewrite eqb_spec in H.
  apply Prim2SF_inj. unfold SFeqb, SFcompare in H.
  destruct (Prim2SF a) as [sa|sa| |sa ma ea]; destruct (Prim2SF b) as [sb|sb| |sb mb eb]; try discriminate H;
    try (destruct sa; discriminate); try (destruct sb; discriminate).
  - destruct sa; [discriminate|]. destruct sb; [discriminate|]. reflexivity.
  - destruct sa, sb; try discriminate; reflexivity.
  - destruct sa, sb; try discriminate H;
      (destruct (Z.compare_spec ea eb); try discriminate H; subst eb;
       change (Pos.compare_cont Eq ma mb) with (Pos.compare ma mb) in H;
       destruct (Pos.compare_spec ma mb); try discriminate H; subst; reflexivity).
Qed.

(* node_eqb's list comparison, named *)
Definition list_eqb_of := fix go (l m : list node) {struct l} : bool :=
  match l, m with
  | [], [] => true
  | x :: l', y :: m' => node_eqb x y && go l' m'
  | _, _ => false
  end.

Lemma node_eqb_list l m : node_eqb (NList l) (NList m) = list_eqb_of l m.
Proof. reflexivity. Qed.

Lemma node_eqb_pure : forall l, pure l = true -> forall r, pure r = true -> node_eqb l r = true -> l = r.
Proof.
  apply (pure_induction (fun l => forall r, pure r = true -> node_eqb l r = true -> l = r)).
  - intros i r Hr H. destruct r; try discriminate H. cbn [node_eqb] in H. apply Z.eqb_eq in H. subst. reflexivity.
  - intros f Hf r Hr H. destruct r; try discriminate H. cbn [node_eqb pure] in *.
    apply negb_true_iff in Hr. rewrite (float_eqb_eq _ _ Hf Hr H). reflexivity.
  - intros s r Hr H. destruct r; try discriminate H. cbn [node_eqb] in H. apply String.eqb_eq in H. subst. reflexivity.
  - intros b r Hr H. destruct r; try discriminate H. cbn [node_eqb] in H. apply Bool.eqb_prop in H. subst. reflexivity.
  - intros g r Hr H. destruct r; try discriminate H. cbn [node_eqb] in H. apply String.eqb_eq in H. subst. reflexivity.
  - intros op c l1 l2 Hc H1 H2 IH1 IH2 r Hr H. destruct r; try discriminate H. cbn [node_eqb pure] in *.
    apply andb_prop in H. destruct H as [H H22]. apply andb_prop in H. destruct H as [H0 H11].
    apply String.eqb_eq in H0. subst. rewrite Hc in Hr. apply andb_prop in Hr. destruct Hr.
    rewrite (IH1 r1), (IH2 r2); auto.
  - intros op t Ho Ht IHt r Hr H. destruct r; try discriminate H. cbn [node_eqb pure] in *.
    apply andb_prop in H. destruct H as [H0 H1]. apply String.eqb_eq in H0. subst.
    apply andb_prop in Hr. destruct Hr. rewrite (IHt r); auto.
  - intros l Hl HF r Hr H. destruct r; try discriminate H. rewrite node_eqb_list in H. cbn [pure] in Hr.
    f_equal. revert l0 Hr H. induction l as [|x l IHl]; intros m Hm H; destruct m as [|y m]; try discriminate H; [reflexivity|].
    cbn [list_eqb_of forallb] in *. apply andb_prop in H. destruct H as [Hx Hrest].
    apply andb_prop in Hm. destruct Hm as [Hy Hm]. apply andb_prop in Hl. destruct Hl as [_ Hl].
    inversion HF as [|x' l' Qx Ql]; subst. rewrite (Qx y Hy Hx), (IHl Hl Ql m Hm Hrest). reflexivity.
  - intros a i Ha Hi IHa IHi r Hr H. destruct r; try discriminate H. cbn [node_eqb pure] in *.
    apply andb_prop in H. destruct H as [H1 H2]. apply andb_prop in Hr. destruct Hr.
    rewrite (IHa r1), (IHi r2); auto.
  - intros a f t Ha Hf Ht IHa IHf IHt r Hr H. destruct r; try discriminate H. cbn [node_eqb pure] in *.
    apply andb_prop in H. destruct H as [H H3]. apply andb_prop in H. destruct H as [H1 H2].
    apply andb_prop in Hr. destruct Hr as [Hr H6]. apply andb_prop in Hr. destruct Hr as [H4 H5].
    rewrite (IHa r1), (IHf r2), (IHt r3); auto.
Qed.

Lemma has_call_pure : forall e, pure e = true -> has_call e = false.
Proof.
  apply (pure_induction (fun e => has_call e = false)); try reflexivity.
  - intros op c l r _ _ _ H1 H2. cbn [has_call]. rewrite H1, H2. reflexivity.
  - intros op t _ _ H. exact H.
  - intros l _ HF. cbn [has_call]. induction HF as [|x r Hx Hr IH]; [reflexivity|]. cbn [existsb]. rewrite Hx, IH. reflexivity.
  - intros a i _ _ H1 H2. cbn [has_call]. rewrite H1, H2. reflexivity.
  - intros a f t _ _ _ H1 H2 H3. cbn [has_call]. rewrite H1, H2, H3. reflexivity.
Qed.
