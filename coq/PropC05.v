(* PropC05.v — C05: no accepted program can crash the interpreter.

   Proved here: every operator of the value algebra, on every pair of operand
   values, returns a value or one of the documented errors (no partial
   function, no division fault), for all 15 binary and 3 unary operators and
   both index forms; a nil operand is always an error.  NOT proved: that the
   compiled code of every parseable program keeps the VM away from its
   internal faults ([C05_no_abort_statement], open).  The check decides that
   part on adversarial generated programs run on the real code (a recovered
   Go panic or a hang is a violation) and compares with the VM model, in which
   every internal fault of vm.go / memory.go / bytecoder.go is the Abort outcome. *)
Require Import Calc.Base Calc.Bytecode Calc.Value Calc.FloatText Calc.Ast Calc.Resolve Calc.Compile
        Calc.VM Calc.Session Calc.ValueProofs.
Open Scope Z_scope.

Definition C05_no_abort_statement : Prop :=
  forall (history : list node) (t : node),
    let mc := fold_left (fun acc x => fst (run_tree false acc x)) history
                        (match machine_new with Some m => m | None => {| mc_cs := cstate0; mc_vm := vm_new |} end) in
    (forall x, In x (t :: history) -> exists s : string, True (* x is a tree the parser returns for some input s; made precise with the grammar model of C06/C07 *)) ->
    forall w, snd (run_tree false mc t) <> TAbort w.

Theorem C05_operators_total : forall c a b i j,
  res_documented (apply_binop c a b) /\ res_documented (Flip a) /\ res_documented (Not a) /\
  res_documented (Len a) /\ res_documented (Index1 a i) /\ res_documented (Index2 a i j).
Proof. exact op_total. Qed.
Print Assumptions C05_operators_total.

Theorem C05_division_by_zero_is_an_error : forall x,
  Arith DIV (VInt x) (VInt 0) = Fail ErrZeroDiv /\ Mod (VInt x) (VInt 0) = Fail ErrZeroDiv.
Proof. exact int_div_mod_zero. Qed.
Print Assumptions C05_division_by_zero_is_an_error.

Theorem C05_index_out_of_range_is_an_error : forall s i j,
  sliceable s ->
  (Index1 s (VInt i) = Fail ErrIndex <-> ~ (0 <= i < vlen s)) /\
  (0 <= i < vlen s -> exists v, Index1 s (VInt i) = Ok v) /\
  (Index2 s (VInt i) (VInt j) = Fail ErrIndex <-> ~ (0 <= i <= j /\ j <= vlen s)) /\
  (0 <= i <= j /\ j <= vlen s -> exists v, Index2 s (VInt i) (VInt j) = Ok v).
Proof. exact index_error_iff. Qed.
Print Assumptions C05_index_out_of_range_is_an_error.

(* shifts are total: any count, negative or huge, gives a value *)
Theorem C05_shift_total : forall op x y, exists r, Shift op (VInt x) (VInt y) = Ok (VInt r).
Proof. intros. eexists. reflexivity. Qed.
Print Assumptions C05_shift_total.
