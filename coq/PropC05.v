(* PropC05.v — C05: no accepted program can crash the interpreter.

   Proved here: (1) every operator of the value algebra, on every pair of
   operand values, returns a value or one of the documented errors (no partial
   function, no division fault), for all 15 binary and 3 unary operators and
   both index forms; a nil operand is always an error.  (2) The compiler model
   never panics: on every tree of the shape the parser and the resolver produce
   (wfb: known operators, variable references where variables are required,
   as many loop variables as iterators, blocks only as bodies) and from every
   state, both entry points return code or the refusal of an oversize program,
   never an abort — every back-patch hits an instruction emitted before, every
   operand selector exists (CompileProofs.v, CompileLoops.v: a Hoare logic over
   the compiler monad, the five list-shaped loops by their own inductions).
   And no input text reaches a panic of the compiler model: every tree the
   grammar model returns has the parser's shape, the resolver model keeps it
   (ParserShape.v), hence for every input, every tree parsed from it and every
   compiler state both entry points return code or a refusal
   ([C05_no_input_makes_the_compiler_panic]).  That the real parser and resolver
   agree with the models is compared on every run; the shape is also evaluated
   on every resolved tree of the run (chk_wfb).  (3) For the while-language over
   globals (C01: expression statements, assignments, blocks, if, if/else, while)
   the compiled code keeps the VM model away from every internal fault: with
   any fuel, Run ends with a value, a runtime error or out-of-fuel, never
   Abort ([C05_statement_runs_never_abort]).  NOT proved: the same for calls,
   closures and generators; the check decides that on adversarial generated
   programs run on the real code (a recovered Go panic or a hang is a
   violation) and compares with the VM model, in which every internal fault of
   vm.go / memory.go / bytecoder.go is the Abort outcome. *)
Require Import Calc.Base Calc.Bytecode Calc.Value Calc.FloatText Calc.Ast Calc.Resolve Calc.Compile
        Calc.VM Calc.Session Calc.ValueProofs Calc.CompileWf Calc.CompileProofs Calc.CompileLoops Calc.Lexer Calc.Grammar Calc.ParserShape.
Open Scope Z_scope.

Theorem C05_operators_total : forall c a b i j,
  res_documented (apply_binop c a b) /\ res_documented (Flip a) /\ res_documented (Not a) /\
  res_documented (Len a) /\ res_documented (Index1 a i) /\ res_documented (Index2 a i j).
Proof. exact op_total. Qed.
Print Assumptions C05_operators_total.

Theorem C05_division_by_zero_is_an_error : forall x,
  Arith DIV (VInt x) (VInt 0) = Fail ErrZeroDiv /\ Mod (VInt x) (VInt 0) = Fail ErrZeroDiv.
Proof. exact int_div_mod_zero. Qed.
Print Assumptions C05_division_by_zero_is_an_error.

Theorem C05_index_out_of_range_is_an_error : forall s i j,
  sliceable s ->
  (Index1 s (VInt i) = Fail ErrIndex <-> ~ (0 <= i < vlen s)) /\
  (0 <= i < vlen s -> exists v, Index1 s (VInt i) = Ok v) /\
  (Index2 s (VInt i) (VInt j) = Fail ErrIndex <-> ~ (0 <= i <= j /\ j <= vlen s)) /\
  (0 <= i <= j /\ j <= vlen s -> exists v, Index2 s (VInt i) (VInt j) = Ok v).
Proof. exact index_error_iff. Qed.
Print Assumptions C05_index_out_of_range_is_an_error.

(* shifts are total: any count, negative or huge, gives a value *)
Theorem C05_shift_total : forall op x y, exists r, Shift op (VInt x) (VInt y) = Ok (VInt r).
Proof. intros. eexists. reflexivity. Qed.
Print Assumptions C05_shift_total.

(* ---- the compiler ---- *)
Theorem C05_compiler_never_panics : forall n s, wfb n = true -> 0 <= ncs s ->
  (forall w, ByteCode n s <> CompAbort w) /\ (forall w, ByteCodeNoStck n s <> CompAbort w).
Proof. exact bytecode_never_aborts. Qed.
Print Assumptions C05_compiler_never_panics.

(* every node, with every operand selector that exists, in every flag context, from every state: no abort, and the code only grows *)
Theorem C05_every_node_compiles_safely : forall n, wfc n = true ->
  forall srcsel fl s, 0 <= srcsel <= 2 -> 0 <= ncs s ->
    match comp n srcsel fl s with
    | CAbort _ => False
    | CRange => True
    | COk (_, s') => ncs s <= ncs s'
    end.
Proof.
  intros n W srcsel fl s Hs Hn.
  destruct (compiler_never_panics (nsize n) n (le_n _)) as [H _]. exact (H W srcsel fl s Hs Hn).
Qed.
Print Assumptions C05_every_node_compiles_safely.

(* the hypothesis is met by a real tree: a function with a for loop over two iterators, conditions, a block *)
Example C05_wfb_nonvacuous :
  wfb (NBlock [NAssign (NName "f") (NFunction [NName "a"] (NBlock [
          NFor [NLocal 1 "i"; NLocal 2 "j"] [NCall (NName "fromto") [NInt 0; NLocal 0 "a"]; NList [NInt 1; NLocal 0 "a"]]
               (NIf (NUn "!" (NBin "<" (NLocal 1 "i") (NLocal 2 "j"))) (NYield (NBin "+" (NLocal 1 "i") (NInt 1))));
          NWhile (NBool true) (NReturn (NIndexFromTo (NStr "abc") (NInt 0) (NUn "#" (NStr "abc"))))]) 3);
        NCall (NName "f") [NInt 2]]) = true.
Proof. reflexivity. Qed.

(* ---- from the text to the compiler ---- *)
Theorem C05_no_input_makes_the_compiler_panic : forall input l,
  parse_model input = PTrees l ->
  forall t, In t l -> forall r, strewrite t = Some r ->
  forall s, 0 <= ncs s ->
    (forall w, ByteCode r s <> CompAbort w) /\ (forall w, ByteCodeNoStck r s <> CompAbort w).
Proof. exact no_input_makes_the_compiler_panic. Qed.
Print Assumptions C05_no_input_makes_the_compiler_panic.

(* ---- the while-language over globals: compiled code never drives the VM into a fault ---- *)
Require Import Calc.ExprSem Calc.ExprVM Calc.ExprCorrect Calc.ExprTop Calc.ExprAssign Calc.ExprSession
        Calc.StmtSem Calc.StmtCorrect Calc.StmtTop.

Theorem C05_statement_runs_never_abort : forall Bf t s s' v c m n G' res fuel,
  wstmt t = true -> ExprCorrect.wfcs s -> idle v s c m -> bcode Bf (load_code v s) ->
  ByteCode t s = CompOk s' ->
  ssem Bf n (wof v) t = Some (G', res) ->
  match snd (Run fuel (load_code v s') true) with
  | RAbort _ => False
  | RExit _ => False
  | _ => True
  end.
Proof.
  intros Bf t s s' v c m n G' res fuel Hw Hwf Hid Hbc HB HM.
  destruct (bytecode_run_stmt Bf t s s' v c m n G' res Hw Hwf Hid Hbc HB HM) as [_ [_ [k R]]].
  destruct (R fuel) as [Rle Rgt].
  destruct (Nat.lt_ge_cases k fuel) as [Hlt|Hge].
  - specialize (Rgt Hlt). destruct res as [x|err].
    + destruct Rgt as [v' [m' [E _]]]. rewrite E. exact I.
    + destruct Rgt as [me [rep E]]. rewrite E. exact I.
  - destruct (Rle Hge) as [F|Rl]; [rewrite F; exact I|].
    destruct res as [x|err]; [contradiction|]. destruct Rl as [me [rep E]]. rewrite E. exact I.
Qed.
Print Assumptions C05_statement_runs_never_abort.

(* a top-level definition of a function with an expression body never drives the session into a fault: the
   tree is refused for size or yields a value — no abort, no exit, no runtime error, no exhausted budget *)
Require Import Calc.Session Calc.StmtDef.
Theorem C05_definition_never_faults : forall B t f ps body lc mc c m,
  bready B mc c m -> m_fp m = [] -> ncs (mc_cs mc) + 1 < 4294967296 ->
  strewrite t = Some (NAssign (NName f) (NFunction ps body lc)) ->
  wfb (NAssign (NName f) (NFunction ps body lc)) = true ->
  LExprSem.lpure (repeat VNil (List.length ps)) body = true -> lc = Z.of_nat (List.length ps) ->
  bop_of_name f = None -> f <> "read"%string ->
  match snd (run_tree false mc t) with
  | TRefused | TValue _ => True
  | _ => False
  end.
Proof.
  intros B t f ps body lc mc c m Hr Hfp Hbig Hst Hwb Hp Hlc Hb Hrd.
  destruct (def_step B t f ps body lc mc c m Hr Hfp Hbig Hst Hwb Hp Hlc Hb Hrd) as [Ref|[c' [m' (Hv & _)]]].
  - rewrite Ref. exact I.
  - cbv zeta in Hv. rewrite Hv. exact I.
Qed.
Print Assumptions C05_definition_never_faults.
