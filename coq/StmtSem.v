(* StmtSem.v — the statement fragment over global variables: pure-expression
   statements, assignments of pure expressions to globals, blocks, if,
   if/else and while with pure conditions, nested without bound.  Its
   fuelled denotation [ssem] and that Sem.eval computes exactly it, with the
   same fuel. *)
Require Import Calc.Sem.
Require Import Calc.Base Calc.Bytecode Calc.Value Calc.FloatText Calc.Ast Calc.Compile Calc.VM
        Calc.ExprSem Calc.ExprVM Calc.ExprCorrect Calc.ExprTop Calc.ExprAssign Calc.ExprLen Calc.ExprSession.
Require Import Lia.
Open Scope Z_scope.

Definition assign_ok (g : string) (e : node) : bool := pure e.

Fixpoint wstmt (t : node) : bool :=
  match t with
  | NAssign (NName g) e => assign_ok g e
  | NAssign _ _ => false
  | NBlock l => match l with [] => false | _ => forallb wstmt l end
  | NIf c b => pure c && wstmt b
  | NIfElse c a b => pure c && wstmt a && wstmt b
  | NWhile c b => pure c && wstmt b
  | _ => pure t
  end.

(* what a condition is worth *)
Definition cond_res (r : res value) : res bool :=
  match r with
  | Fail e => Fail e
  | Ok (VBool b) => Ok b
  | Ok VNil => Fail ErrNil
  | Ok _ => Fail ErrType
  end.

(* the meaning of a statement with fuel n: None = out of fuel; the fuel discipline is Sem.eval's *)
Fixpoint ssem (n : nat) (G : globals) (t : node) {struct n} : option (globals * res value) :=
  match n with
  | O => None
  | S n' =>
      let pure_case := if Nat.leb (height t) n then Some (G, den G t) else None in
      match t with
      | NAssign (NName g) e =>
          if Nat.leb (height e) n' then Some (sem_simple G t) else None
      | NBlock l =>
          (fix go (l : list node) (G : globals) : option (globals * res value) :=
             match l with
             | [] => Some (G, Ok VNil)
             | [x] => ssem n' G x
             | x :: r =>
                 match ssem n' G x with
                 | None => None
                 | Some (G1, Fail e) => Some (G1, Fail e)
                 | Some (G1, Ok _) => go r G1
                 end
             end) l G
      | NIf c b =>
          if Nat.leb (height c) n' then
            match cond_res (den G c) with
            | Fail e => Some (G, Fail e)
            | Ok true => ssem n' G b
            | Ok false => Some (G, Ok VNil)
            end
          else None
      | NIfElse c a b =>
          if Nat.leb (height c) n' then
            match cond_res (den G c) with
            | Fail e => Some (G, Fail e)
            | Ok true => ssem n' G a
            | Ok false => ssem n' G b
            end
          else None
      | NWhile c b =>
          if Nat.leb (height c) n' then
            (fix loop (k : nat) (G : globals) (last : value) : option (globals * res value) :=
               match k with
               | O => None
               | S k' =>
                   match cond_res (den G c) with
                   | Fail e => Some (G, Fail e)
                   | Ok false => Some (G, Ok last)
                   | Ok true =>
                       match ssem n' G b with
                       | None => None
                       | Some (G1, Fail e) => Some (G1, Fail e)
                       | Some (G1, Ok v) => loop k' G1 v
                       end
                   end
               end) n' G VNil
          else None
      | _ => pure_case
      end
  end.

Lemma with_globals_twice st G1 G2 : with_globals (with_globals st G1) G2 = with_globals st G2.
Proof. reflexivity. Qed.

Lemma as_cond_res st r k :
  bind (Done st (ctl_of r)) (fun st1 cv => as_cond st1 cv k) =
  match cond_res r with
  | Fail e => Done st (CErr e)
  | Ok b => k st b
  end.
Proof.
  destruct r as [v|e]; cbn [ctl_of bind cond_res]; [|reflexivity].
  destruct v; reflexivity.
Qed.

(* the block and loop evaluators of Sem.eval, named *)
Definition block_go_of (n : nat) (e : env) :=
  fix go (l : list node) (st : sstate) (last : value) : Sem.comp :=
    match l with
    | [] => Done st (CVal last)
    | [x] => eval n x e st
    | x :: r => bind (eval n x e st) (fun st' _ => go r st' VNil)
    end.

Lemma eval_block n l e st : eval (S n) (NBlock l) e st = block_go_of n e l st VNil.
Proof. reflexivity. Qed.

Definition while_loop_of (n : nat) (c body : node) (e : env) :=
  fix loop (k : nat) (st : sstate) (last : value) : Sem.comp :=
    match k with
    | O => Done st CFuel
    | S k' =>
        bind (eval n c e st) (fun st1 cv =>
          as_cond st1 cv (fun st2 b =>
            if b then bind (eval n body e st2) (fun st3 v => loop k' st3 v)
            else Done st2 (CVal last)))
    end.

Lemma eval_while_of n c body e st :
  eval (S n) (NWhile c body) e st = while_loop_of n c body e n st VNil.
Proof. reflexivity. Qed.

Definition sblock_of (n : nat) :=
  fix go (l : list node) (G : globals) : option (globals * res value) :=
    match l with
    | [] => Some (G, Ok VNil)
    | [x] => ssem n G x
    | x :: r =>
        match ssem n G x with
        | None => None
        | Some (G1, Fail e) => Some (G1, Fail e)
        | Some (G1, Ok _) => go r G1
        end
    end.

Lemma ssem_block n G l : ssem (S n) G (NBlock l) = sblock_of n l G.
Proof. reflexivity. Qed.

Definition swhile_of (n : nat) (c b : node) :=
  fix loop (k : nat) (G : globals) (last : value) : option (globals * res value) :=
    match k with
    | O => None
    | S k' =>
        match cond_res (den G c) with
        | Fail e => Some (G, Fail e)
        | Ok false => Some (G, Ok last)
        | Ok true =>
            match ssem n G b with
            | None => None
            | Some (G1, Fail e) => Some (G1, Fail e)
            | Some (G1, Ok v) => loop k' G1 v
            end
        end
    end.

Lemma ssem_while n G c b :
  ssem (S n) G (NWhile c b) = if Nat.leb (height c) n then swhile_of n c b n G VNil else None.
Proof. reflexivity. Qed.

Lemma block_go_cons2 n e x y l st :
  block_go_of n e (x :: y :: l) st VNil = bind (eval n x e st) (fun st' _ => block_go_of n e (y :: l) st' VNil).
Proof. reflexivity. Qed.

Lemma sblock_cons2 n x y l G :
  sblock_of n (x :: y :: l) G =
  match ssem n G x with
  | None => None
  | Some (G1, Fail e) => Some (G1, Fail e)
  | Some (G1, Ok _) => sblock_of n (y :: l) G1
  end.
Proof. reflexivity. Qed.

(* Sem.eval computes the fuelled meaning: same fuel, same globals, same value or error *)
Theorem eval_stmt : forall n t, wstmt t = true -> forall env st G' r,
  ssem n (s_globals st) t = Some (G', r) ->
  eval n t env st = Done (with_globals st G') (ctl_of r).
Proof.
  induction n as [|n IH]; intros t Hw env st G' r Hs; [discriminate Hs|].
  assert (Pure : pure t = true ->
            (if Nat.leb (height t) (S n) then Some (s_globals st, den (s_globals st) t) else None) = Some (G', r) ->
            eval (S n) t env st = Done (with_globals st G') (ctl_of r)).
  { intros Hp H. destruct (Nat.leb_spec (height t) (S n)) as [Hh|Hh]; [|discriminate H].
    injection H as <- <-. rewrite with_globals_same. apply eval_pure; assumption. }
  destruct t; try (apply Pure; [exact Hw|exact Hs]); try discriminate Hw.
  - (* NIf *)
    cbn [wstmt] in Hw. apply andb_prop in Hw. destruct Hw as [Hc Hb]. cbn [ssem] in Hs. cbn [eval].
    destruct (Nat.leb_spec (height t1) n) as [Hh|Hh]; [|discriminate Hs].
    rewrite (eval_pure t1 Hc n env st Hh), as_cond_res.
    destruct (cond_res (den (s_globals st) t1)) as [[|]|e].
    + apply IH; assumption.
    + injection Hs as <- <-. rewrite with_globals_same. reflexivity.
    + injection Hs as <- <-. rewrite with_globals_same. reflexivity.
  - (* NIfElse *)
    cbn [wstmt] in Hw. apply andb_prop in Hw. destruct Hw as [Hw Hb2]. apply andb_prop in Hw. destruct Hw as [Hc Hb1].
    cbn [ssem] in Hs. cbn [eval].
    destruct (Nat.leb_spec (height t1) n) as [Hh|Hh]; [|discriminate Hs].
    rewrite (eval_pure t1 Hc n env st Hh), as_cond_res.
    destruct (cond_res (den (s_globals st) t1)) as [[|]|e].
    + apply IH; assumption.
    + apply IH; assumption.
    + injection Hs as <- <-. rewrite with_globals_same. reflexivity.
  - (* NWhile *)
    cbn [wstmt] in Hw. apply andb_prop in Hw. destruct Hw as [Hc Hb]. rewrite ssem_while in Hs. rewrite eval_while_of.
    destruct (Nat.leb_spec (height t1) n) as [Hh|Hh]; [|discriminate Hs].
    clear Pure. revert Hs. generalize VNil. generalize n at 2 4. intros k. revert st.
    induction k as [|k IHk]; intros st last Hs; [discriminate Hs|]. cbn [while_loop_of swhile_of] in *.
    rewrite (eval_pure t1 Hc n env st Hh), as_cond_res.
    destruct (cond_res (den (s_globals st) t1)) as [[|]|e].
    + destruct (ssem n (s_globals st) t2) as [[G1 [v|e]]|] eqn:Eb; try discriminate Hs.
      * rewrite (IH t2 Hb env st G1 (Ok v) Eb). cbn [ctl_of bind].
        rewrite (IHk (with_globals st G1) v Hs). reflexivity.
      * injection Hs as <- <-. rewrite (IH t2 Hb env st G1 (Fail e) Eb). reflexivity.
    + injection Hs as <- <-. rewrite with_globals_same. reflexivity.
    + injection Hs as <- <-. rewrite with_globals_same. reflexivity.
  - (* NAssign *)
    destruct t1; try discriminate Hw. cbn [wstmt] in Hw. unfold assign_ok in Hw.
    cbn [ssem] in Hs. destruct (Nat.leb_spec (height t2) n) as [Hh|Hh]; [|discriminate Hs].
    rewrite (eval_simple (NAssign (NName n0) t2) Hw (S n) env st ltac:(cbn [theight]; lia)).
    assert (Hp : sem_simple (s_globals st) (NAssign (NName n0) t2) = (G', r)) by congruence.
    rewrite Hp. reflexivity.
  - (* NBlock *)
    cbn [wstmt] in Hw. rewrite eval_block. rewrite ssem_block in Hs.
    assert (Hall : forallb wstmt l = true) by (destruct l; [discriminate Hw|exact Hw]).
    clear Hw Pure. revert st Hs Hall.
    induction l as [|x l IHl]; intros st Hs Hall.
    + cbn [sblock_of] in Hs. injection Hs as <- <-. rewrite with_globals_same. reflexivity.
    + cbn [forallb] in Hall. apply andb_prop in Hall. destruct Hall as [Hx Hl].
      destruct l as [|y l'].
      * cbn [sblock_of block_go_of] in *. apply IH; assumption.
      * rewrite sblock_cons2 in Hs. rewrite block_go_cons2.
        destruct (ssem n (s_globals st) x) as [[G1 [v|e]]|] eqn:Ex; try discriminate Hs.
        -- rewrite (IH x Hx env st G1 (Ok v) Ex). cbn [ctl_of bind].
           rewrite (IHl (with_globals st G1) Hs Hl). reflexivity.
        -- injection Hs as <- <-. rewrite (IH x Hx env st G1 (Fail e) Ex). reflexivity.
Qed.
