(* StmtSem.v — the statement fragment over global variables: pure-expression
   statements, assignments of pure expressions to globals, write(e), blocks,
   if, if/else and while with pure conditions, nested without bound.  A
   statement acts on a world: the global bindings, the output written so far
   and the input not yet read.  Its fuelled denotation [ssem] and that
   Sem.eval computes exactly it, with the same fuel. *)
Require Import Calc.Sem.
Require Import Calc.Base Calc.Bytecode Calc.Value Calc.FloatText Calc.Ast Calc.Compile Calc.VM
        Calc.ExprSem Calc.ExprVM Calc.ExprCorrect Calc.ExprTop Calc.ExprAssign Calc.ExprLen Calc.ExprSession.
Require Import Lia.
Open Scope Z_scope.

Definition assign_ok (g : string) (e : node) : bool := pure e.

(* what a statement can change *)
Record world := { w_glob : globals; w_out : list string; w_in : list string }.

Definition wglob (W : world) (G : globals) : world := {| w_glob := G; w_out := w_out W; w_in := w_in W |}.
Definition wwrite (W : world) (s : string) : world := {| w_glob := w_glob W; w_out := s :: w_out W; w_in := w_in W |}.

Definition wof_s (st : sstate) : world := {| w_glob := s_globals st; w_out := s_out st; w_in := s_in st |}.
Definition with_world (st : sstate) (W : world) : sstate :=
  {| s_frames := s_frames st; s_clos := s_clos st; s_globals := w_glob W; s_next := s_next st;
     s_out := w_out W; s_in := w_in W |}.

Lemma wglob_same W : wglob W (w_glob W) = W. Proof. destruct W; reflexivity. Qed.
Lemma with_world_same st : with_world st (wof_s st) = st. Proof. destruct st; reflexivity. Qed.
Lemma wof_with_world st W : wof_s (with_world st W) = W. Proof. destruct W; reflexivity. Qed.
Lemma with_world_twice st W1 W2 : with_world (with_world st W1) W2 = with_world st W2. Proof. reflexivity. Qed.
Lemma with_world_glob st G : with_world st (wglob (wof_s st) G) = with_globals st G. Proof. reflexivity. Qed.

Fixpoint wstmt (t : node) : bool :=
  match t with
  | NAssign (NName g) e => assign_ok g e
  | NAssign _ _ => false
  | NBlock l => match l with [] => false | _ => forallb wstmt l end
  | NIf c b => pure c && wstmt b
  | NIfElse c a b => pure c && wstmt a && wstmt b
  | NWhile c b => pure c && wstmt b
  | NWrite e => pure e
  | _ => pure t
  end.

(* what a condition is worth *)
Definition cond_res (r : res value) : res bool :=
  match r with
  | Fail e => Fail e
  | Ok (VBool b) => Ok b
  | Ok VNil => Fail ErrNil
  | Ok _ => Fail ErrType
  end.

(* the meaning of a statement with fuel n: None = out of fuel; the fuel discipline is Sem.eval's *)
Fixpoint ssem (n : nat) (W : world) (t : node) {struct n} : option (world * res value) :=
  match n with
  | O => None
  | S n' =>
      let pure_case := if Nat.leb (height t) n then Some (W, den (w_glob W) t) else None in
      match t with
      | NAssign (NName g) e =>
          if Nat.leb (height e) n'
          then Some (wglob W (fst (sem_simple (w_glob W) t)), snd (sem_simple (w_glob W) t)) else None
      | NWrite e =>
          if Nat.leb (height e) n' then
            match den (w_glob W) e with
            | Ok x => Some (wwrite W (to_string fmt_float x), Ok VNil)
            | Fail err => Some (W, Fail err)
            end
          else None
      | NBlock l =>
          (fix go (l : list node) (W : world) : option (world * res value) :=
             match l with
             | [] => Some (W, Ok VNil)
             | [x] => ssem n' W x
             | x :: r =>
                 match ssem n' W x with
                 | None => None
                 | Some (W1, Fail e) => Some (W1, Fail e)
                 | Some (W1, Ok _) => go r W1
                 end
             end) l W
      | NIf c b =>
          if Nat.leb (height c) n' then
            match cond_res (den (w_glob W) c) with
            | Fail e => Some (W, Fail e)
            | Ok true => ssem n' W b
            | Ok false => Some (W, Ok VNil)
            end
          else None
      | NIfElse c a b =>
          if Nat.leb (height c) n' then
            match cond_res (den (w_glob W) c) with
            | Fail e => Some (W, Fail e)
            | Ok true => ssem n' W a
            | Ok false => ssem n' W b
            end
          else None
      | NWhile c b =>
          if Nat.leb (height c) n' then
            (fix loop (k : nat) (W : world) (last : value) : option (world * res value) :=
               match k with
               | O => None
               | S k' =>
                   match cond_res (den (w_glob W) c) with
                   | Fail e => Some (W, Fail e)
                   | Ok false => Some (W, Ok last)
                   | Ok true =>
                       match ssem n' W b with
                       | None => None
                       | Some (W1, Fail e) => Some (W1, Fail e)
                       | Some (W1, Ok v) => loop k' W1 v
                       end
                   end
               end) n' W VNil
          else None
      | _ => pure_case
      end
  end.

Lemma with_globals_twice st G1 G2 : with_globals (with_globals st G1) G2 = with_globals st G2.
Proof. reflexivity. Qed.

Lemma as_cond_res st r k :
  bind (Done st (ctl_of r)) (fun st1 cv => as_cond st1 cv k) =
  match cond_res r with
  | Fail e => Done st (CErr e)
  | Ok b => k st b
  end.
Proof.
  destruct r as [v|e]; cbn [ctl_of bind cond_res]; [|reflexivity].
  destruct v; reflexivity.
Qed.

(* the block and loop evaluators of Sem.eval, named *)
Definition block_go_of (n : nat) (e : env) :=
  fix go (l : list node) (st : sstate) (last : value) : Sem.comp :=
    match l with
    | [] => Done st (CVal last)
    | [x] => eval n x e st
    | x :: r => bind (eval n x e st) (fun st' _ => go r st' VNil)
    end.

Lemma eval_block n l e st : eval (S n) (NBlock l) e st = block_go_of n e l st VNil.
Proof. reflexivity. Qed.

Definition while_loop_of (n : nat) (c body : node) (e : env) :=
  fix loop (k : nat) (st : sstate) (last : value) : Sem.comp :=
    match k with
    | O => Done st CFuel
    | S k' =>
        bind (eval n c e st) (fun st1 cv =>
          as_cond st1 cv (fun st2 b =>
            if b then bind (eval n body e st2) (fun st3 v => loop k' st3 v)
            else Done st2 (CVal last)))
    end.

Lemma eval_while_of n c body e st :
  eval (S n) (NWhile c body) e st = while_loop_of n c body e n st VNil.
Proof. reflexivity. Qed.

Definition sblock_of (n : nat) :=
  fix go (l : list node) (W : world) : option (world * res value) :=
    match l with
    | [] => Some (W, Ok VNil)
    | [x] => ssem n W x
    | x :: r =>
        match ssem n W x with
        | None => None
        | Some (W1, Fail e) => Some (W1, Fail e)
        | Some (W1, Ok _) => go r W1
        end
    end.

Lemma ssem_block n G l : ssem (S n) G (NBlock l) = sblock_of n l G.
Proof. reflexivity. Qed.

Definition swhile_of (n : nat) (c b : node) :=
  fix loop (k : nat) (W : world) (last : value) : option (world * res value) :=
    match k with
    | O => None
    | S k' =>
        match cond_res (den (w_glob W) c) with
        | Fail e => Some (W, Fail e)
        | Ok false => Some (W, Ok last)
        | Ok true =>
            match ssem n W b with
            | None => None
            | Some (W1, Fail e) => Some (W1, Fail e)
            | Some (W1, Ok v) => loop k' W1 v
            end
        end
    end.

Lemma ssem_while n G c b :
  ssem (S n) G (NWhile c b) = if Nat.leb (height c) n then swhile_of n c b n G VNil else None.
Proof. reflexivity. Qed.

Lemma block_go_cons2 n e x y l st :
  block_go_of n e (x :: y :: l) st VNil = bind (eval n x e st) (fun st' _ => block_go_of n e (y :: l) st' VNil).
Proof. reflexivity. Qed.

Lemma sblock_cons2 n x y l W :
  sblock_of n (x :: y :: l) W =
  match ssem n W x with
  | None => None
  | Some (W1, Fail e) => Some (W1, Fail e)
  | Some (W1, Ok _) => sblock_of n (y :: l) W1
  end.
Proof. reflexivity. Qed.

(* Sem.eval computes the fuelled meaning: same fuel, same globals and output, same value or error *)
Theorem eval_stmt : forall n t, wstmt t = true -> forall env st W' r,
  ssem n (wof_s st) t = Some (W', r) ->
  eval n t env st = Done (with_world st W') (ctl_of r).
Proof.
  induction n as [|n IH]; intros t Hw env st W' r Hs; [discriminate Hs|].
  assert (Pure : pure t = true ->
            (if Nat.leb (height t) (S n) then Some (wof_s st, den (s_globals st) t) else None) = Some (W', r) ->
            eval (S n) t env st = Done (with_world st W') (ctl_of r)).
  { intros Hp H. destruct (Nat.leb_spec (height t) (S n)) as [Hh|Hh]; [|discriminate H].
    injection H as <- <-. rewrite with_world_same. apply eval_pure; assumption. }
  destruct t; try (apply Pure; [exact Hw|exact Hs]); try discriminate Hw.
  - (* NIf *)
    cbn [wstmt] in Hw. apply andb_prop in Hw. destruct Hw as [Hc Hb]. cbn [ssem] in Hs. cbn [eval].
    destruct (Nat.leb_spec (height t1) n) as [Hh|Hh]; [|discriminate Hs].
    rewrite (eval_pure t1 Hc n env st Hh), as_cond_res. cbn [wof_s w_glob] in Hs.
    destruct (cond_res (den (s_globals st) t1)) as [[|]|e].
    + apply IH; assumption.
    + injection Hs as <- <-. rewrite with_world_same. reflexivity.
    + injection Hs as <- <-. rewrite with_world_same. reflexivity.
  - (* NIfElse *)
    cbn [wstmt] in Hw. apply andb_prop in Hw. destruct Hw as [Hw Hb2]. apply andb_prop in Hw. destruct Hw as [Hc Hb1].
    cbn [ssem] in Hs. cbn [eval].
    destruct (Nat.leb_spec (height t1) n) as [Hh|Hh]; [|discriminate Hs].
    rewrite (eval_pure t1 Hc n env st Hh), as_cond_res. cbn [wof_s w_glob] in Hs.
    destruct (cond_res (den (s_globals st) t1)) as [[|]|e].
    + apply IH; assumption.
    + apply IH; assumption.
    + injection Hs as <- <-. rewrite with_world_same. reflexivity.
  - (* NWhile *)
    cbn [wstmt] in Hw. apply andb_prop in Hw. destruct Hw as [Hc Hb]. rewrite ssem_while in Hs. rewrite eval_while_of.
    destruct (Nat.leb_spec (height t1) n) as [Hh|Hh]; [|discriminate Hs].
    clear Pure. revert Hs. generalize VNil. generalize n at 2 4. intros k. revert st.
    induction k as [|k IHk]; intros st last Hs; [discriminate Hs|]. cbn [while_loop_of swhile_of] in *.
    rewrite (eval_pure t1 Hc n env st Hh), as_cond_res. cbn [wof_s w_glob] in Hs.
    destruct (cond_res (den (s_globals st) t1)) as [[|]|e].
    + change {| w_glob := s_globals st; w_out := s_out st; w_in := s_in st |} with (wof_s st) in Hs.
      destruct (ssem n (wof_s st) t2) as [[W1 [v|e]]|] eqn:Eb; try discriminate Hs.
      * rewrite (IH t2 Hb env st W1 (Ok v) Eb). cbn [ctl_of bind].
        rewrite <- (wof_with_world st W1) in Hs.
        rewrite (IHk (with_world st W1) v Hs). reflexivity.
      * injection Hs as <- <-. rewrite (IH t2 Hb env st W1 (Fail e) Eb). reflexivity.
    + injection Hs as <- <-. rewrite with_world_same. reflexivity.
    + injection Hs as <- <-. rewrite with_world_same. reflexivity.
  - (* NAssign *)
    destruct t1; try discriminate Hw. cbn [wstmt] in Hw. unfold assign_ok in Hw.
    cbn [ssem] in Hs. destruct (Nat.leb_spec (height t2) n) as [Hh|Hh]; [|discriminate Hs].
    rewrite (eval_simple (NAssign (NName n0) t2) Hw (S n) env st ltac:(cbn [theight]; lia)).
    injection Hs as <- <-. cbn [wof_s w_glob]. rewrite with_world_glob. reflexivity.
  - (* NBlock *)
    cbn [wstmt] in Hw. rewrite eval_block. rewrite ssem_block in Hs.
    assert (Hall : forallb wstmt l = true) by (destruct l; [discriminate Hw|exact Hw]).
    clear Hw Pure. revert st Hs Hall.
    induction l as [|x l IHl]; intros st Hs Hall.
    + cbn [sblock_of] in Hs. injection Hs as <- <-. rewrite with_world_same. reflexivity.
    + cbn [forallb] in Hall. apply andb_prop in Hall. destruct Hall as [Hx Hl].
      destruct l as [|y l'].
      * cbn [sblock_of block_go_of] in *. apply IH; assumption.
      * rewrite sblock_cons2 in Hs. rewrite block_go_cons2.
        destruct (ssem n (wof_s st) x) as [[W1 [v|e]]|] eqn:Ex; try discriminate Hs.
        -- rewrite (IH x Hx env st W1 (Ok v) Ex). cbn [ctl_of bind].
           rewrite <- (wof_with_world st W1) in Hs.
           rewrite (IHl (with_world st W1) Hs Hl). reflexivity.
        -- injection Hs as <- <-. rewrite (IH x Hx env st W1 (Fail e) Ex). reflexivity.
  - (* NWrite *)
    cbn [wstmt] in Hw. cbn [ssem] in Hs. destruct (Nat.leb_spec (height t) n) as [Hh|Hh]; [|discriminate Hs].
    cbn [eval]. rewrite (eval_pure t Hw n env st Hh). cbn [wof_s w_glob] in Hs.
    destruct (den (s_globals st) t) as [x|err]; injection Hs as <- <-; cbn [ctl_of bind].
    + reflexivity.
    + rewrite with_world_same. reflexivity.
Qed.
