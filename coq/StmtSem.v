(* StmtSem.v — the statement fragment over global variables: pure-expression
   statements, assignments of pure expressions to globals, calls of the
   built-ins write(e), toa(e), aton(e), read() as statements and as the right
   side of an assignment (and the output node itself), blocks, if, if/else
   and while with pure conditions, nested without bound.  A
   statement acts on a world: the global bindings, the output written so far
   and the input not yet read.  Its fuelled denotation [ssem] and that
   Sem.eval computes exactly it, with the same fuel. *)
Require Import Calc.Sem.
Require Import Calc.Base Calc.Bytecode Calc.Value Calc.FloatText Calc.Ast Calc.Compile Calc.VM
        Calc.ExprSem Calc.ExprVM Calc.ExprCorrect Calc.ExprTop Calc.ExprAssign Calc.ExprLen Calc.ExprSession Calc.LExprSem.
Require Import Lia.
Open Scope Z_scope.

Definition assign_ok (g : string) (e : node) : bool := pure e.

(* what a statement can change *)
(* w_next: the allocation counter (every call takes one fresh number for its activation) *)
Record world := { w_glob : globals; w_out : list string; w_in : list string; w_next : Z }.

Definition wglob (W : world) (G : globals) : world := {| w_glob := G; w_out := w_out W; w_in := w_in W; w_next := w_next W |}.
Definition wwrite (W : world) (s : string) : world := {| w_glob := w_glob W; w_out := s :: w_out W; w_in := w_in W; w_next := w_next W |}.

Definition wof_s (st : sstate) : world := {| w_glob := s_globals st; w_out := s_out st; w_in := s_in st; w_next := s_next st |}.
Definition with_world (st : sstate) (W : world) : sstate :=
  {| s_frames := s_frames st; s_clos := s_clos st; s_globals := w_glob W; s_next := w_next W;
     s_out := w_out W; s_in := w_in W |}.

Lemma wglob_same W : wglob W (w_glob W) = W. Proof. destruct W; reflexivity. Qed.
Lemma with_world_same st : with_world st (wof_s st) = st. Proof. destruct st; reflexivity. Qed.
Lemma wof_with_world st W : wof_s (with_world st W) = W. Proof. destruct W; reflexivity. Qed.
Lemma with_world_twice st W1 W2 : with_world (with_world st W1) W2 = with_world st W2. Proof. reflexivity. Qed.
Lemma with_world_glob st G : with_world st (wglob (wof_s st) G) = with_globals st G. Proof. reflexivity. Qed.

(* ---- the one-argument built-in functions (builtin/builtin.go: name = (v) -> op(v)) ---- *)
Inductive bop := BWrite | BToa | BAton.

Definition bop_of_name (s : string) : option bop :=
  if String.eqb s "write" then Some BWrite
  else if String.eqb s "toa" then Some BToa
  else if String.eqb s "aton" then Some BAton
  else None.

Definition bop_node (b : bop) (arg : node) : node :=
  match b with BWrite => NWrite arg | BToa => NToa arg | BAton => NAton arg end.

Definition aton_res (x : value) : res value :=
  match x with
  | VStr s =>
      match atoi s with
      | Some i => Ok (VInt i)
      | None => match parse_float s with PFOk f => Ok (VFloat f) | _ => Fail ErrConversion end
      end
  | _ => Fail ErrType
  end.

Definition bop_sem (b : bop) (W : world) (x : value) : world * res value :=
  match b with
  | BWrite => (wwrite W (to_string fmt_float x), Ok VNil)
  | BToa => (W, Ok (VStr (to_string fmt_float x)))
  | BAton => (W, aton_res x)
  end.

(* read(): the next line of the input, or a read error when there is none *)
Definition read_sem (W : world) : world * res value :=
  match w_in W with
  | [] => (W, Fail ErrRead)
  | l :: rest => ({| w_glob := w_glob W; w_out := w_out W; w_in := rest; w_next := w_next W |}, Ok (VStr l))
  end.

(* a call with one pure argument, or read(): nm(e) for write, toa, aton and for user functions *)
Definition is_bcall (e : node) : bool :=
  match e with
  | NCall (NName nm) args => forallb pure args
  | _ => false
  end.

(* a call takes a fresh number for its activation *)
Definition wbump (W : world) : world :=
  {| w_glob := w_glob W; w_out := w_out W; w_in := w_in W; w_next := w_next W + 1 |}.

Definition fun_eqb (a b : value) : bool :=
  match a, b with
  | VFun m1 f1, VFun m2 f2 => (m1 =? m2) && (f1 =? f2)
  | _, _ => false
  end.

Lemma fun_eqb_eq a b : fun_eqb a b = true -> a = b /\ exists m f, b = VFun m f.
Proof.
  destruct a, b; try discriminate. cbn [fun_eqb]. intros H. apply andb_prop in H. destruct H as [H1 H2].
  apply Z.eqb_eq in H1, H2. subst. eauto.
Qed.

Fixpoint wstmt (t : node) : bool :=
  match t with
  | NAssign (NName g) e => assign_ok g e || is_bcall e
  | NAssign _ _ => false
  | NBlock l => match l with [] => false | _ => forallb wstmt l end
  | NIf c b => pure c && wstmt b
  | NIfElse c a b => pure c && wstmt a && wstmt b
  | NWhile c b => pure c && wstmt b
  | NWrite e => pure e
  | NCall _ _ => is_bcall t
  | _ => pure t
  end.

(* what a condition is worth *)
Definition cond_res (r : res value) : res bool :=
  match r with
  | Fail e => Fail e
  | Ok (VBool b) => Ok b
  | Ok VNil => Fail ErrNil
  | Ok _ => Fail ErrType
  end.

(* Bf: the functions the session knows — ft_val nm is the function value nm was bound to when it was
   defined (for the built-ins: when the session began); ft_body nm is, for a user function of one
   parameter whose body is a pure expression over its parameter and the globals, that body.  A call
   nm(e) has the meaning of the built-in or of the body for as long as nm is still bound to ft_val nm.
   ft_arity nm is the number of parameters of a user function. *)
Record ftab := { ft_val : string -> value; ft_body : string -> option node; ft_arity : string -> Z }.

(* the value is a function value *)
Definition is_fun (y : value) : bool := match y with VFun _ _ => true | _ => false end.

(* a body may mention its one parameter *)
Definition lpure1 (body : node) : bool := lpure [VNil] body.

Lemma lpure_len L1 L2 e : zlen L1 = zlen L2 -> lpure L1 e = lpure L2 e.
Proof.
  intros E. revert e. fix IH 1. intros e. destruct e; try reflexivity; cbn [lpure].
  - rewrite E. reflexivity.
  - rewrite (IH e1), (IH e2). reflexivity.
  - rewrite (IH e). reflexivity.
  - rewrite (IH e1), (IH e2). reflexivity.
  - rewrite (IH e1), (IH e2), (IH e3). reflexivity.
  - induction l as [|x r IHr]; [reflexivity|]. cbn [forallb]. rewrite (IH x), IHr. reflexivity.
Qed.

Definition heights (l : list node) : nat := fold_right (fun x acc => Nat.max (height x) acc) 0%nat l.

(* the call nm(args) of a user function of the table, when nm is still bound to it: the arguments left to
   right, then the body with the parameters holding their values *)
Definition ucall_sem (Bf : ftab) (n' : nat) (W : world) (nm : string) (args : list node) : option (world * res value) :=
  match ft_body Bf nm with
  | Some body =>
      if Nat.leb (heights args) n' && fun_eqb (gval (w_glob W) nm) (ft_val Bf nm) then
        match seq_res (den (w_glob W)) args with
        | Ok xs =>
            if ft_arity Bf nm =? zlen args then
              if lpure (repeat VNil (List.length args)) body && Nat.leb (height body) n' then
                match lden xs (w_glob W) body with
                | Ok y => if is_fun y then None else Some (wbump W, Ok y)
                | Fail err => Some (wbump W, Fail err)
                end
              else None
            else Some (W, Fail ErrArity)      (* the wrong number of arguments: found when the call is made *)
        | Fail err => Some (W, Fail err)
        end
      else None
  | None => None
  end.

Lemma height_pos e : (1 <= height e)%nat.
Proof. destruct e; cbn [height]; lia. Qed.

Section WithB.
Variable Bf : ftab.

(* the meaning of a statement with fuel n: None = out of fuel; the fuel discipline is Sem.eval's *)
Fixpoint ssem (n : nat) (W : world) (t : node) {struct n} : option (world * res value) :=
  match n with
  | O => None
  | S n' =>
      let pure_case := if Nat.leb (height t) n then Some (W, den (w_glob W) t) else None in
      match t with
      | NAssign (NName g) e =>
          if pure e then
            if Nat.leb (height e) n'
            then Some (wglob W (fst (sem_simple (w_glob W) t)), snd (sem_simple (w_glob W) t)) else None
          else
            match ssem n' W e with
            | Some (W1, Ok y) =>
                if is_nil y then Some (W1, Fail ErrNil)
                else Some (wglob W1 (sassoc_set (w_glob W1) g y), Ok y)
            | Some (W1, Fail err) => Some (W1, Fail err)
            | None => None
            end
      | NWrite e =>
          if Nat.leb (height e) n' then
            match den (w_glob W) e with
            | Ok x => Some (wwrite W (to_string fmt_float x), Ok VNil)
            | Fail err => Some (W, Fail err)
            end
          else None
      | NCall (NName nm) [e] =>
          match bop_of_name nm with
          | Some b =>
              if Nat.leb (height e) n' && Nat.leb 2 n' && fun_eqb (gval (w_glob W) nm) (ft_val Bf nm) then
                match den (w_glob W) e with
                | Ok x => Some (wbump (fst (bop_sem b W x)), snd (bop_sem b W x))
                | Fail err => Some (W, Fail err)
                end
              else None
          | None => ucall_sem Bf n' W nm [e]
          end
      | NCall (NName nm) [] =>
          if String.eqb nm "read" then
            if Nat.leb 1 n' && fun_eqb (gval (w_glob W) nm) (ft_val Bf nm)
            then Some (wbump (fst (read_sem W)), snd (read_sem W)) else None
          else match bop_of_name nm with Some _ => None | None => ucall_sem Bf n' W nm [] end
      | NCall (NName nm) (e1 :: e2 :: rest) =>
          match bop_of_name nm with
          | Some _ => None
          | None => if String.eqb nm "read" then None else ucall_sem Bf n' W nm (e1 :: e2 :: rest)
          end
      | NBlock l =>
          (fix go (l : list node) (W : world) : option (world * res value) :=
             match l with
             | [] => Some (W, Ok VNil)
             | [x] => ssem n' W x
             | x :: r =>
                 match ssem n' W x with
                 | None => None
                 | Some (W1, Fail e) => Some (W1, Fail e)
                 | Some (W1, Ok _) => go r W1
                 end
             end) l W
      | NIf c b =>
          if Nat.leb (height c) n' then
            match cond_res (den (w_glob W) c) with
            | Fail e => Some (W, Fail e)
            | Ok true => ssem n' W b
            | Ok false => Some (W, Ok VNil)
            end
          else None
      | NIfElse c a b =>
          if Nat.leb (height c) n' then
            match cond_res (den (w_glob W) c) with
            | Fail e => Some (W, Fail e)
            | Ok true => ssem n' W a
            | Ok false => ssem n' W b
            end
          else None
      | NWhile c b =>
          if Nat.leb (height c) n' then
            (fix loop (k : nat) (W : world) (last : value) : option (world * res value) :=
               match k with
               | O => None
               | S k' =>
                   match cond_res (den (w_glob W) c) with
                   | Fail e => Some (W, Fail e)
                   | Ok false => Some (W, Ok last)
                   | Ok true =>
                       match ssem n' W b with
                       | None => None
                       | Some (W1, Fail e) => Some (W1, Fail e)
                       | Some (W1, Ok v) => loop k' W1 v
                       end
                   end
               end) n' W VNil
          else None
      | _ => pure_case
      end
  end.

Lemma with_globals_twice st G1 G2 : with_globals (with_globals st G1) G2 = with_globals st G2.
Proof. reflexivity. Qed.

Lemma as_cond_res st r k :
  bind (Done st (ctl_of r)) (fun st1 cv => as_cond st1 cv k) =
  match cond_res r with
  | Fail e => Done st (CErr e)
  | Ok b => k st b
  end.
Proof.
  destruct r as [v|e]; cbn [ctl_of bind cond_res]; [|reflexivity].
  destruct v; reflexivity.
Qed.

(* the block and loop evaluators of Sem.eval, named *)
Definition block_go_of (n : nat) (e : env) :=
  fix go (l : list node) (st : sstate) (last : value) : Sem.comp :=
    match l with
    | [] => Done st (CVal last)
    | [x] => eval n x e st
    | x :: r => bind (eval n x e st) (fun st' _ => go r st' VNil)
    end.

Lemma eval_block n l e st : eval (S n) (NBlock l) e st = block_go_of n e l st VNil.
Proof. reflexivity. Qed.

Definition while_loop_of (n : nat) (c body : node) (e : env) :=
  fix loop (k : nat) (st : sstate) (last : value) : Sem.comp :=
    match k with
    | O => Done st CFuel
    | S k' =>
        bind (eval n c e st) (fun st1 cv =>
          as_cond st1 cv (fun st2 b =>
            if b then bind (eval n body e st2) (fun st3 v => loop k' st3 v)
            else Done st2 (CVal last)))
    end.

Lemma eval_while_of n c body e st :
  eval (S n) (NWhile c body) e st = while_loop_of n c body e n st VNil.
Proof. reflexivity. Qed.

Definition sblock_of (n : nat) :=
  fix go (l : list node) (W : world) : option (world * res value) :=
    match l with
    | [] => Some (W, Ok VNil)
    | [x] => ssem n W x
    | x :: r =>
        match ssem n W x with
        | None => None
        | Some (W1, Fail e) => Some (W1, Fail e)
        | Some (W1, Ok _) => go r W1
        end
    end.

Lemma ssem_block n G l : ssem (S n) G (NBlock l) = sblock_of n l G.
Proof. reflexivity. Qed.

Definition swhile_of (n : nat) (c b : node) :=
  fix loop (k : nat) (W : world) (last : value) : option (world * res value) :=
    match k with
    | O => None
    | S k' =>
        match cond_res (den (w_glob W) c) with
        | Fail e => Some (W, Fail e)
        | Ok false => Some (W, Ok last)
        | Ok true =>
            match ssem n W b with
            | None => None
            | Some (W1, Fail e) => Some (W1, Fail e)
            | Some (W1, Ok v) => loop k' W1 v
            end
        end
    end.

Lemma ssem_while n G c b :
  ssem (S n) G (NWhile c b) = if Nat.leb (height c) n then swhile_of n c b n G VNil else None.
Proof. reflexivity. Qed.

Lemma block_go_cons2 n e x y l st :
  block_go_of n e (x :: y :: l) st VNil = bind (eval n x e st) (fun st' _ => block_go_of n e (y :: l) st' VNil).
Proof. reflexivity. Qed.

Lemma sblock_cons2 n x y l W :
  sblock_of n (x :: y :: l) W =
  match ssem n W x with
  | None => None
  | Some (W1, Fail e) => Some (W1, Fail e)
  | Some (W1, Ok _) => sblock_of n (y :: l) W1
  end.
Proof. reflexivity. Qed.

(* the closure table of the definitional semantics holds the built-ins where Bf says *)
Definition sem_bf (st : sstate) : Prop :=
  (forall nm b mo id, bop_of_name nm = Some b -> ft_val Bf nm = VFun mo id ->
    exists lc ln, assoc_get (s_clos st) id =
      Some {| sc_params := 1; sc_locals := lc; sc_body := bop_node b (NLocal 0 ln); sc_env := None |}) /\
  (forall mo id, ft_val Bf "read" = VFun mo id ->
    exists lc, assoc_get (s_clos st) id =
      Some {| sc_params := 0; sc_locals := lc; sc_body := NRead; sc_env := None |}) /\
  (forall nm body mo id, bop_of_name nm = None -> ft_body Bf nm = Some body -> ft_val Bf nm = VFun mo id ->
    exists lc, assoc_get (s_clos st) id =
      Some {| sc_params := ft_arity Bf nm; sc_locals := lc; sc_body := body; sc_env := None |}).

Lemma eval_local0 n env st fid x rest ln :
  e_frame env = Some fid -> assoc_get (s_frames st) fid = Some (x :: rest) ->
  eval (S n) (NLocal 0 ln) env st = Done st (CVal x).
Proof. intros He Hf. cbn [eval lookup]. unfold read_slot. rewrite He, Hf. reflexivity. Qed.

(* the body of a built-in, run in a fresh frame holding the argument *)
Lemma eval_bop_body b n env st fid x rest ln :
  e_frame env = Some fid -> assoc_get (s_frames st) fid = Some (x :: rest) ->
  exists st', eval (S (S n)) (bop_node b (NLocal 0 ln)) env st = Done st' (ctl_of (snd (bop_sem b (wof_s st) x))) /\
              wof_s st' = fst (bop_sem b (wof_s st) x) /\ s_clos st' = s_clos st.
Proof.
  intros He Hf. destruct b; cbn [bop_node].
  - change (eval (S (S n)) (NWrite (NLocal 0 ln)) env st)
      with (bind (eval (S n) (NLocal 0 ln) env st) (fun st1 y => Done (emit_out st1 (to_string fmt_float y)) (CVal VNil))).
    rewrite (eval_local0 n env st fid x rest ln He Hf). cbn [bind bop_sem fst snd ctl_of].
    eexists. split; [reflexivity|]. split; reflexivity.
  - change (eval (S (S n)) (NToa (NLocal 0 ln)) env st)
      with (bind (eval (S n) (NLocal 0 ln) env st) (fun st1 y => Done st1 (CVal (VStr (to_string fmt_float y))))).
    rewrite (eval_local0 n env st fid x rest ln He Hf). cbn [bind bop_sem fst snd ctl_of].
    exists st. split; [reflexivity|]. split; reflexivity.
  - change (eval (S (S n)) (NAton (NLocal 0 ln)) env st)
      with (bind (eval (S n) (NLocal 0 ln) env st) (fun st1 y =>
              match y with
              | VStr s0 =>
                  match atoi s0 with
                  | Some i => Done st1 (CVal (VInt i))
                  | None => match parse_float s0 with
                            | PFOk f => Done st1 (CVal (VFloat f))
                            | _ => Done st1 (CErr ErrConversion)
                            end
                  end
              | _ => Done st1 (CErr ErrType)
              end)).
    rewrite (eval_local0 n env st fid x rest ln He Hf). cbn [bind bop_sem fst snd].
    exists st. split; [|split; reflexivity].
    unfold aton_res. destruct x; try reflexivity. destruct (atoi s); [reflexivity|]. destruct (parse_float s); reflexivity.
Qed.

Lemma eval_call_unfold n name args env st :
  eval (S n) (NCall name args) env st =
  ev_list_of n env args st [] (fun st1 argv =>
    bind (lookup st1 env name) (fun st2 f =>
      match f with
      | VFun _ id =>
          match assoc_get (s_clos st2) id with
          | None => Done st2 (Sem.CAbort "no such function")
          | Some c =>
              if negb (sc_params c =? zlen argv) then Done st2 (CErr ErrArity)
              else
                let locals := repeat VNil (Z.to_nat (sc_locals c - sc_params c)) in
                let (st3, fid) := new_frame st2 (argv ++ locals) in
                catch_return (eval n (sc_body c) {| e_frame := Some fid; e_closure := sc_env c |} st3)
          end
      | _ => Done st2 (CErr ErrType)
      end)).
Proof. reflexivity. Qed.

Lemma heights_in x l : In x l -> (height x <= heights l)%nat.
Proof. apply height_in. Qed.

Lemma seq_res_length (f : node -> res value) : forall l vs, seq_res f l = Ok vs -> List.length vs = List.length l.
Proof.
  induction l as [|x r IH]; intros vs H; cbn [seq_res] in H; [injection H as <-; reflexivity|].
  destruct (f x) as [v|e]; [|discriminate H]. destruct (seq_res f r) as [vr|e] eqn:E; [|discriminate H].
  injection H as <-. cbn [List.length]. rewrite (IH vr eq_refl). reflexivity.
Qed.

(* what a call of a user function can do: it leaves the globals, the output and the input as they were,
   and its result is the arity error, an argument's error, or the body's value on the arguments' values *)
Lemma ucall_sem_facts n W nm args W' res :
  ucall_sem Bf n W nm args = Some (W', res) ->
  exists body, ft_body Bf nm = Some body /\
    w_glob W' = w_glob W /\ w_out W' = w_out W /\ w_in W' = w_in W /\
    match seq_res (den (w_glob W)) args with
    | Ok xs => res = Fail ErrArity \/ res = lden xs (w_glob W) body
    | Fail err => res = Fail err
    end.
Proof.
  intros H. unfold ucall_sem in H.
  destruct (ft_body Bf nm) as [body|]; [|discriminate H]. exists body. split; [reflexivity|].
  destruct (Nat.leb (heights args) n && fun_eqb (gval (w_glob W) nm) (ft_val Bf nm)); [|discriminate H].
  destruct (seq_res (den (w_glob W)) args) as [xs|err]; [|injection H as <- <-; repeat split].
  destruct (ft_arity Bf nm =? zlen args); [|injection H as <- <-; repeat split; left; reflexivity].
  destruct (lpure (repeat VNil (List.length args)) body && Nat.leb (height body) n); [|discriminate H].
  destruct (lden xs (w_glob W) body) as [y|err].
  - destruct (is_fun y); [discriminate H|]. injection H as <- <-. repeat split. right. reflexivity.
  - injection H as <- <-. repeat split. right. reflexivity.
Qed.

(* a call of a user function of the table, under the definitional semantics *)
Lemma eval_ucall n nm args env st W' r :
  forallb pure args = true -> sem_bf st -> bop_of_name nm = None ->
  ucall_sem Bf n (wof_s st) nm args = Some (W', r) ->
  exists st', eval (S n) (NCall (NName nm) args) env st = Done st' (ctl_of r) /\ wof_s st' = W' /\ s_clos st' = s_clos st.
Proof.
  intros Hp Hbf Hb Hs. unfold ucall_sem in Hs.
  destruct (ft_body Bf nm) as [body|] eqn:Ebody; [|discriminate Hs].
  destruct (Nat.leb_spec (heights args) n) as [Hh|Hh]; [|discriminate Hs]. cbn [andb] in Hs.
  destruct (fun_eqb (gval (w_glob (wof_s st)) nm) (ft_val Bf nm)) eqn:Ef; [|discriminate Hs].
  apply fun_eqb_eq in Ef. destruct Ef as [Eg [mo [id Ebf]]]. cbn [wof_s w_glob] in Eg, Hs.
  destruct (proj2 (proj2 Hbf) nm body mo id Hb Ebody Ebf) as [lc Hcl].
  rewrite eval_call_unfold.
  rewrite (ev_list_pure n env args).
  2:{ rewrite Forall_forall. intros x Hx st0. apply eval_pure.
      - rewrite forallb_forall in Hp. exact (Hp x Hx).
      - pose proof (heights_in x args Hx). lia. }
  destruct (seq_res (den (s_globals st)) args) as [xs|err] eqn:Exs.
  - cbn [rev app lookup bind]. fold (gval (s_globals st) nm). rewrite Eg, Ebf, Hcl.
    cbn [sc_params sc_locals sc_body sc_env].
    assert (Hlen : List.length xs = List.length args) by (apply (seq_res_length _ _ _ Exs)).
    assert (Ezz : zlen xs = zlen args) by (unfold zlen; rewrite Hlen; reflexivity).
    rewrite Ezz.
    destruct (Z.eqb_spec (ft_arity Bf nm) (zlen args)) as [Ear|Near]; cbn [negb].
    2:{ injection Hs as <- <-. exists st. split; [reflexivity|split; reflexivity]. }
    destruct (lpure (repeat VNil (List.length args)) body) eqn:Hlp; [|discriminate Hs]. cbn [andb] in Hs.
    destruct (Nat.leb_spec (height body) n) as [Hhb|Hhb]; [|discriminate Hs].
    cbn [new_frame].
    match goal with |- context [eval _ _ _ ?s0] => set (st3 := s0) end.
    assert (Hlp' : lpure xs body = true).
    { rewrite (lpure_len xs (repeat VNil (List.length args)) body); [exact Hlp|]. unfold zlen. rewrite repeat_length, Hlen. reflexivity. }
    assert (Hfh : frame_holds xs st3 {| e_frame := Some (s_next st); e_closure := None |}).
    { right. eexists (s_next st), _. split; [reflexivity|]. split.
      - cbn [st3 s_frames assoc_get]. rewrite Z.eqb_refl. reflexivity.
      - intros ix Hix. unfold znth, zlen in *. destruct (Z.ltb_spec ix 0); [lia|].
        apply nth_error_app1. lia. }
    destruct n as [|n1]; [pose proof (height_pos body); lia|].
    rewrite (eval_lpure xs body Hlp' (S n1) _ st3 Hhb Hfh).
    change (s_globals st3) with (s_globals st).
    destruct (lden xs (s_globals st) body) as [y|err]; cbn [ctl_of catch_return].
    + destruct (is_fun y); [discriminate Hs|]. injection Hs as <- <-.
      exists st3. split; [reflexivity|]. split; reflexivity.
    + injection Hs as <- <-. exists st3. split; [reflexivity|]. split; reflexivity.
  - injection Hs as <- <-. exists st. split; [reflexivity|split; reflexivity].
Qed.

(* Sem.eval computes the fuelled meaning: same fuel, same world, same value or error; the closure
   table is not touched (the frames of finished calls stay behind in s_frames: no one can reach them) *)
Theorem eval_stmt : forall n t, wstmt t = true -> forall env st W' r,
  sem_bf st ->
  ssem n (wof_s st) t = Some (W', r) ->
  exists st', eval n t env st = Done st' (ctl_of r) /\ wof_s st' = W' /\ s_clos st' = s_clos st.
Proof.
  induction n as [|n IH]; intros t Hw env st W' r Hbf Hs; [discriminate Hs|].
  assert (Pure : pure t = true ->
            (if Nat.leb (height t) (S n) then Some (wof_s st, den (s_globals st) t) else None) = Some (W', r) ->
            exists st', eval (S n) t env st = Done st' (ctl_of r) /\ wof_s st' = W' /\ s_clos st' = s_clos st).
  { intros Hp H. destruct (Nat.leb_spec (height t) (S n)) as [Hh|Hh]; [|discriminate H].
    injection H as <- <-. exists st. split; [apply eval_pure; assumption|split; reflexivity]. }
  assert (Same : forall st1, s_clos st1 = s_clos st -> sem_bf st1).
  { intros st1 E. destruct Hbf as [Hb1 [Hb2 Hb3]]. split; [|split].
    - intros nm b mo id H1 H2. rewrite E. exact (Hb1 nm b mo id H1 H2).
    - intros mo id H2. rewrite E. exact (Hb2 mo id H2).
    - intros nm body mo id H0 H1 H2. rewrite E. exact (Hb3 nm body mo id H0 H1 H2). }
  destruct t; try (apply Pure; [exact Hw|exact Hs]); try discriminate Hw.
  - (* NIf *)
    cbn [wstmt] in Hw. apply andb_prop in Hw. destruct Hw as [Hc Hb]. cbn [ssem] in Hs. cbn [eval].
    destruct (Nat.leb_spec (height t1) n) as [Hh|Hh]; [|discriminate Hs].
    rewrite (eval_pure t1 Hc n env st Hh), as_cond_res. cbn [wof_s w_glob] in Hs.
    destruct (cond_res (den (s_globals st) t1)) as [[|]|e].
    + apply IH; assumption.
    + injection Hs as <- <-. exists st. split; [reflexivity|split; reflexivity].
    + injection Hs as <- <-. exists st. split; [reflexivity|split; reflexivity].
  - (* NIfElse *)
    cbn [wstmt] in Hw. apply andb_prop in Hw. destruct Hw as [Hw Hb2]. apply andb_prop in Hw. destruct Hw as [Hc Hb1].
    cbn [ssem] in Hs. cbn [eval].
    destruct (Nat.leb_spec (height t1) n) as [Hh|Hh]; [|discriminate Hs].
    rewrite (eval_pure t1 Hc n env st Hh), as_cond_res. cbn [wof_s w_glob] in Hs.
    destruct (cond_res (den (s_globals st) t1)) as [[|]|e].
    + apply IH; assumption.
    + apply IH; assumption.
    + injection Hs as <- <-. exists st. split; [reflexivity|split; reflexivity].
  - (* NWhile *)
    cbn [wstmt] in Hw. apply andb_prop in Hw. destruct Hw as [Hc Hb]. rewrite ssem_while in Hs. rewrite eval_while_of.
    destruct (Nat.leb_spec (height t1) n) as [Hh|Hh]; [|discriminate Hs].
    clear Pure. revert Hs. generalize VNil. generalize n at 2 4. intros k. revert st Hbf Same.
    induction k as [|k IHk]; intros st Hbf Same last Hs; [discriminate Hs|]. cbn [while_loop_of swhile_of] in *.
    rewrite (eval_pure t1 Hc n env st Hh), as_cond_res. cbn [wof_s w_glob] in Hs.
    destruct (cond_res (den (s_globals st) t1)) as [[|]|e].
    + change {| w_glob := s_globals st; w_out := s_out st; w_in := s_in st; w_next := s_next st |} with (wof_s st) in Hs.
      destruct (ssem n (wof_s st) t2) as [[W1 [v|e]]|] eqn:Eb; try discriminate Hs.
      * destruct (IH t2 Hb env st W1 (Ok v) Hbf Eb) as (st1 & E1 & HW1 & HC1). rewrite E1. cbn [ctl_of bind].
        rewrite <- HW1 in Hs.
        destruct (IHk st1 (Same st1 HC1) ltac:(intros st2 E2; apply Same; congruence) v Hs) as (st2 & E2 & HW2 & HC2).
        exists st2. split; [exact E2|]. split; [exact HW2|congruence].
      * injection Hs as <- <-. destruct (IH t2 Hb env st W1 (Fail e) Hbf Eb) as (st1 & E1 & HW1 & HC1).
        rewrite E1. exists st1. split; [reflexivity|split; assumption].
    + injection Hs as <- <-. exists st. split; [reflexivity|split; reflexivity].
    + injection Hs as <- <-. exists st. split; [reflexivity|split; reflexivity].
  - (* NAssign *)
    destruct t1; try discriminate Hw. cbn [wstmt] in Hw. unfold assign_ok in Hw.
    cbn [ssem] in Hs. destruct (pure t2) eqn:Hp2.
    + destruct (Nat.leb_spec (height t2) n) as [Hh|Hh]; [|discriminate Hs].
      rewrite (eval_simple (NAssign (NName n0) t2) Hp2 (S n) env st ltac:(cbn [theight]; lia)).
      injection Hs as <- <-. cbn [wof_s w_glob]. eexists. split; [reflexivity|]. split; reflexivity.
    + cbn [orb] in Hw.
      assert (Hw2 : wstmt t2 = true) by (destruct t2; try discriminate Hw; exact Hw).
      change (eval (S n) (NAssign (NName n0) t2) env st)
        with (bind (eval n t2 env st) (fun st1 v => assign st1 env (NName n0) v)).
      destruct (ssem n (wof_s st) t2) as [[W1 [y|err]]|] eqn:E2; try discriminate Hs.
      * destruct (IH t2 Hw2 env st W1 (Ok y) Hbf E2) as (st1 & E1 & HW1 & HC1). rewrite E1. cbn [ctl_of bind].
        unfold assign. destruct (is_nil y).
        -- injection Hs as <- <-. exists st1. split; [reflexivity|split; assumption].
        -- injection Hs as <- <-. eexists. split; [reflexivity|]. split; [|exact HC1].
           rewrite <- HW1. reflexivity.
      * injection Hs as <- <-. destruct (IH t2 Hw2 env st W1 (Fail err) Hbf E2) as (st1 & E1 & HW1 & HC1). rewrite E1.
        exists st1. split; [reflexivity|split; assumption].
  - (* NBlock *)
    cbn [wstmt] in Hw. rewrite eval_block. rewrite ssem_block in Hs.
    assert (Hall : forallb wstmt l = true) by (destruct l; [discriminate Hw|exact Hw]).
    clear Hw Pure. revert st Hbf Same Hs Hall.
    induction l as [|x l IHl]; intros st Hbf Same Hs Hall.
    + cbn [sblock_of] in Hs. injection Hs as <- <-. exists st. split; [reflexivity|split; reflexivity].
    + cbn [forallb] in Hall. apply andb_prop in Hall. destruct Hall as [Hx Hl].
      destruct l as [|y l'].
      * cbn [sblock_of block_go_of] in *. apply IH; assumption.
      * rewrite sblock_cons2 in Hs. rewrite block_go_cons2.
        destruct (ssem n (wof_s st) x) as [[W1 [v|e]]|] eqn:Ex; try discriminate Hs.
        -- destruct (IH x Hx env st W1 (Ok v) Hbf Ex) as (st1 & E1 & HW1 & HC1). rewrite E1. cbn [ctl_of bind].
           rewrite <- HW1 in Hs.
           destruct (IHl st1 (Same st1 HC1) ltac:(intros st2 E2; apply Same; congruence) Hs Hl) as (st2 & E2 & HW2 & HC2).
           exists st2. split; [exact E2|]. split; [exact HW2|congruence].
        -- injection Hs as <- <-. destruct (IH x Hx env st W1 (Fail e) Hbf Ex) as (st1 & E1 & HW1 & HC1).
           rewrite E1. exists st1. split; [reflexivity|split; assumption].
  - (* NCall *)
    destruct t; try discriminate Hw. cbn [wstmt is_bcall] in Hw. destruct args as [|a [|a2 l]].
    { (* no argument: read(), or a user function *)
      cbn [ssem] in Hs. destruct (String.eqb n0 "read") eqn:Er.
      2:{ destruct (bop_of_name n0) eqn:Eb; [discriminate Hs|]. exact (eval_ucall n n0 [] env st W' r Hw Hbf Eb Hs). }
      apply String.eqb_eq in Er. subst n0.
      destruct (Nat.leb_spec 1 n) as [H1|H1]; [|discriminate Hs]. cbn [andb] in Hs.
      destruct (fun_eqb (gval (w_glob (wof_s st)) "read") (ft_val Bf "read")) eqn:Ef; [|discriminate Hs].
      apply fun_eqb_eq in Ef. destruct Ef as [Eg [mo [id Ebf]]]. cbn [wof_s w_glob] in Eg, Hs.
      destruct (proj1 (proj2 Hbf) mo id Ebf) as [lc Hcl].
      destruct n as [|n1]; [lia|].
      change (eval (S (S n1)) (NCall (NName "read") []) env st)
        with (bind (lookup st env (NName "read")) (fun st2 f =>
                match f with
                | VFun _ id0 =>
                    match assoc_get (s_clos st2) id0 with
                    | None => Done st2 (Sem.CAbort "no such function")
                    | Some c =>
                        if negb (sc_params c =? zlen (@rev value [])) then Done st2 (CErr ErrArity)
                        else
                          let locals := repeat VNil (Z.to_nat (sc_locals c - sc_params c)) in
                          let (st3, fid) := new_frame st2 (rev [] ++ locals) in
                          catch_return (eval (S n1) (sc_body c) {| e_frame := Some fid; e_closure := sc_env c |} st3)
                    end
                | _ => Done st2 (CErr ErrType)
                end)).
      cbn [lookup bind]. fold (gval (s_globals st) "read"). rewrite Eg, Ebf, Hcl.
      cbn [sc_params sc_locals sc_body sc_env rev app zlen List.length Z.of_nat Z.eqb negb new_frame].
      cbn [eval take_in]. injection Hs as <- <-. unfold read_sem. cbn [wof_s w_in s_in].
      destruct (s_in st) as [|l rest] eqn:Ein; cbn [catch_return fst snd ctl_of].
      * eexists. split; [reflexivity|]. split; [|reflexivity].
        unfold wbump, wof_s; cbn [w_glob w_out w_in w_next s_globals s_out s_in s_next]. rewrite Ein. reflexivity.
      * eexists. split; [reflexivity|]. split; reflexivity. }
    2:{ (* two or more arguments *)
      cbn [ssem] in Hs. destruct (bop_of_name n0) eqn:Eb; [discriminate Hs|].
      destruct (String.eqb n0 "read"); [discriminate Hs|].
      exact (eval_ucall n n0 _ env st W' r Hw Hbf Eb Hs). }
    { (* nm(e) *)
    cbn [forallb] in Hw. rewrite andb_true_r in Hw. cbn [ssem] in Hs.
    destruct (bop_of_name n0) as [b|] eqn:Eb.
    2:{ (* a user function *)
      assert (Hw1 : forallb pure [a] = true) by (cbn [forallb]; rewrite Hw; reflexivity).
      exact (eval_ucall n n0 [a] env st W' r Hw1 Hbf Eb Hs). }
    destruct (Nat.leb_spec (height a) n) as [Hh|Hh]; [|discriminate Hs].
    destruct (Nat.leb_spec 2 n) as [H2|H2]; [|discriminate Hs]. cbn [andb] in Hs.
    destruct (fun_eqb (gval (w_glob (wof_s st)) n0) (ft_val Bf n0)) eqn:Ef; [|discriminate Hs].
    apply fun_eqb_eq in Ef. destruct Ef as [Eg [mo [id Ebf]]]. cbn [wof_s w_glob] in Eg, Hs.
    destruct (proj1 Hbf n0 b mo id Eb Ebf) as [lc [ln Hcl]].
    destruct n as [|[|n2]]; try lia.
    change (eval (S (S (S n2))) (NCall (NName n0) [a]) env st)
      with (bind (eval (S (S n2)) a env st) (fun st' v =>
              bind (lookup st' env (NName n0)) (fun st2 f =>
                match f with
                | VFun _ id0 =>
                    match assoc_get (s_clos st2) id0 with
                    | None => Done st2 (Sem.CAbort "no such function")
                    | Some c =>
                        if negb (sc_params c =? zlen (rev [v])) then Done st2 (CErr ErrArity)
                        else
                          let locals := repeat VNil (Z.to_nat (sc_locals c - sc_params c)) in
                          let (st3, fid) := new_frame st2 (rev [v] ++ locals) in
                          catch_return (eval (S (S n2)) (sc_body c) {| e_frame := Some fid; e_closure := sc_env c |} st3)
                    end
                | _ => Done st2 (CErr ErrType)
                end))).
    rewrite (eval_pure a Hw (S (S n2)) env st Hh).
    destruct (den (s_globals st) a) as [x|err]; cbn [ctl_of bind].
    + cbn [lookup bind]. fold (gval (s_globals st) n0). rewrite Eg, Ebf, Hcl.
      cbn [sc_params sc_locals sc_body sc_env rev app zlen List.length Z.of_nat Z.eqb negb].
      replace (negb (1 =? Pos.of_succ_nat 0)%positive) with false by reflexivity.
      cbn [new_frame].
      match goal with |- context [eval _ _ _ ?s0] => set (st3 := s0) end.
      destruct (eval_bop_body b n2 {| e_frame := Some (s_next st); e_closure := None |} st3 (s_next st) x
                  (repeat VNil (Z.to_nat (lc - 1))) ln eq_refl) as (st4 & E4 & HW4 & HC4).
      { cbn [st3 s_frames assoc_get]. rewrite Z.eqb_refl. reflexivity. }
      assert (HB : bop_sem b (wof_s st3) x = (wbump (fst (bop_sem b (wof_s st) x)), snd (bop_sem b (wof_s st) x))).
      { destruct b; reflexivity. }
      rewrite HB in E4, HW4. cbn [fst snd] in E4, HW4.
      rewrite E4. injection Hs as <- <-.
      exists st4. split; [|split; [exact HW4|exact HC4]].
      destruct (snd (bop_sem b (wof_s st) x)); reflexivity.
    + injection Hs as <- <-. exists st. split; [reflexivity|split; reflexivity]. }
  - (* NWrite *)
    cbn [wstmt] in Hw. cbn [ssem] in Hs. destruct (Nat.leb_spec (height t) n) as [Hh|Hh]; [|discriminate Hs].
    cbn [eval]. rewrite (eval_pure t Hw n env st Hh). cbn [wof_s w_glob] in Hs.
    destruct (den (s_globals st) t) as [x|err]; injection Hs as <- <-; cbn [ctl_of bind].
    + eexists. split; [reflexivity|split; reflexivity].
    + exists st. split; [reflexivity|split; reflexivity].
Qed.
End WithB.
