(* PropC16.v — C16: all three run modes execute the same program the same way.

   Proved here about the model of the read-eval loop (Repl.v, compared with
   the real node.Loop and FReader on every run): a script whose top-level
   statements are each complete (open after every line but the last) is
   handed to processInput statement by statement, each exactly as if entered
   on its own; a final line break makes no difference; characters inside
   string literals and comments do not count.  That -eval, the REPL and file
   mode then compute the same values and output is decided on the built
   binary by the check; for the statement language over globals
   (assignments, blocks, if, if/else, while; StmtTop.v) it is proved on the
   compiler and VM models that the two compilation modes — ByteCode with
   Run(true) as the REPL and -eval use, ByteCodeNoStck with Run(false) as
   file mode uses — leave the same global bindings and the same stack
   ([C16_modes_bind_the_same_globals]); and for whole sessions of such
   statements and of definitions of expression-bodied functions, in any order,
   the two modes stay related tree after tree: the same values or errors (file
   mode shows no value), the same global data, the same output, the same input
   left ([C16_sessions_in_both_modes_partial], StmtModes.v). *)
Require Import Calc.Base Calc.Repl Calc.ReplProofs.
Require Import Calc.Bytecode Calc.Value Calc.Ast Calc.Compile Calc.VM Calc.Session
        Calc.ExprSem Calc.ExprVM Calc.ExprCorrect Calc.ExprTop Calc.ExprAssign Calc.ExprSession
        Calc.StmtSem Calc.StmtCorrect Calc.StmtTop.
Open Scope Z_scope.

Theorem C16_script_runs_statement_by_statement : forall stmts : list (list string),
  Forall (fun ls => completes oc0 "" ls = true) stmts ->
  loop_model (List.concat stmts) = map (joined "" "") stmts.
Proof. exact loop_runs_statement_by_statement. Qed.
Print Assumptions C16_script_runs_statement_by_statement.

Theorem C16_final_line_break_is_irrelevant : forall content,
  bytes_of content <> [] -> last (bytes_of content) 0 <> 10 ->
  file_inputs (content +++ sb [10]) = file_inputs content.
Proof. intros c H1 H2. unfold file_inputs. rewrite final_line_break_is_irrelevant by assumption. reflexivity. Qed.
Print Assumptions C16_final_line_break_is_irrelevant.

Theorem C16_inside_string_nothing_counts : forall o ch,
  oc_instr o = true ->
  oc_blocks (fst (scan_byte o ch)) = oc_blocks o /\ oc_brackets (fst (scan_byte o ch)) = oc_brackets o /\
  snd (scan_byte o ch) = false.
Proof. exact inside_string_nothing_counts. Qed.
Print Assumptions C16_inside_string_nothing_counts.

Theorem C16_inside_comment_nothing_counts : forall l o,
  (forall c, In c l -> c <> 10) -> scan_bytes o true l = o.
Proof. exact inside_comment_nothing_counts. Qed.
Print Assumptions C16_inside_comment_nothing_counts.

Theorem C16_comment_ends_at_line_break : forall l r o,
  (forall c, In c l -> c <> 10) -> scan_bytes o true (l ++ 10 :: r) = scan_bytes o false r.
Proof. exact comment_ends_at_line_break. Qed.
Print Assumptions C16_comment_ends_at_line_break.

(* the hypotheses are met by a real script: a line, a block with a brace in a
   string and in a comment, an array literal over two lines, a string over two lines *)
Example C16_nonvacuous :
  let stmts := [["x = 1"]; ["f = (a) -> { ; note }"; "write(""}"")"; "a"; "}"]; ["l = [1,"; "2]"]; ["s = ""ab"; "c{"""]] in
  forallb (completes oc0 "") stmts = true /\
  loop_model (List.concat stmts) = ["x = 1"; "f = (a) -> { ; note }" +++ sb [10] +++ "write(""}"")" +++ sb [10] +++ "a" +++ sb [10] +++ "}";
                                    "l = [1," +++ sb [10] +++ "2]"; "s = ""ab" +++ sb [10] +++ "c{"""].
Proof. split; vm_compute; reflexivity. Qed.

(* value mode and file mode of one statement, started from the same machine: the same global bindings,
   the same output written, the same input left *)
Theorem C16_modes_bind_the_same_globals : forall Bf t s s1 s2 v c m n G' x,
  wstmt t = true -> wfcs s -> idle v s c m -> bcode Bf (load_code v s) ->
  ByteCode t s = CompOk s1 -> ByteCodeNoStck t s = CompOk s2 ->
  ssem Bf n (wof v) t = Some (G', Ok x) ->
  exists k, forall fuel, (k < fuel)%nat ->
    wof (fst (Run fuel (load_code v s1) true)) = G' /\
    wof (fst (Run fuel (load_code v s2) false)) = G' /\
    snd (Run fuel (load_code v s1) true) = RValue x /\
    snd (Run fuel (load_code v s2) false) = RValue VNil.
Proof.
  intros Bf t s s1 s2 v c m n G' x Hw Hwf Hid Hbc HB1 HB2 HM.
  destruct (bytecode_run_stmt Bf t s s1 v c m n G' (Ok x) Hw Hwf Hid Hbc HB1 HM) as [_ [_ [k1 R1]]].
  destruct (bytecode_nostck_run_stmt Bf t s s2 v c m n G' (Ok x) Hw Hwf Hid Hbc HB2 HM) as [_ [k2 R2]].
  exists (Nat.max k1 k2). intros fuel Hf.
  destruct (R1 fuel) as [_ R1']. specialize (R1' ltac:(lia)). specialize (R2 fuel ltac:(lia)).
  destruct R1' as [v1 [m1 (E1 & _ & _ & _ & G1 & _)]]. destruct R2 as [v2 [m2 (E2 & _ & _ & _ & G2 & _)]].
  rewrite E1, E2. cbn [fst snd]. repeat split; assumption.
Qed.
Print Assumptions C16_modes_bind_the_same_globals.

(* ---- whole sessions in the two modes ---- *)
Require Import Calc.Resolve Calc.StmtRel Calc.StmtDef Calc.StmtMixed Calc.StmtModes Calc.PropC01.

(* a session of definitions and statements run from one machine in value mode and in file mode: at every
   statement to which the statement semantics gives a meaning, unless a run is stuck (tree refused for size,
   the model's step budget), value mode ends with the meaning's value or error class, file mode with no value
   or the same error class, value mode's world is the meaning's and file mode's world is related to it: the
   same global data (the function values differ only in their entry points), the same output, the same input
   left.  FN: the names the session gives to functions. *)
Theorem C16_sessions_in_both_modes_partial : forall FN items B mc c m,
  tabs_ok FN B B -> tready B mc c m -> Forall (item_ok2 FN) items ->
  pair false true [] [] B B mc mc items.
Proof. exact modes_session. Qed.
Print Assumptions C16_sessions_in_both_modes_partial.

(* a definition in file mode: compiled without the final PUSH, three steps, the same function value bound *)
Theorem C16_definition_in_file_mode : forall B t f ps body lc mc c m,
  bready B mc c m -> m_fp m = [] -> ncs (mc_cs mc) + 1 < 4294967296 ->
  strewrite t = Some (NAssign (NName f) (NFunction ps body lc)) ->
  CompileWf.wfb (NAssign (NName f) (NFunction ps body lc)) = true ->
  LExprSem.lpure (repeat VNil (List.length ps)) body = true -> lc = Z.of_nat (List.length ps) ->
  bop_of_name f = None -> f <> "read"%string ->
  snd (run_tree true mc t) = TRefused \/
  exists c' m',
    let fv := VFun (pack_function (ncs (mc_cs mc) + 1) lc lc) (v_next (mc_vm mc)) in
    let mc' := fst (run_tree true mc t) in
    snd (run_tree true mc t) = TValue VNil /\
    wof (mc_vm mc') = wbump (wglob (wof (mc_vm mc)) (sassoc_set (v_globals (mc_vm mc)) f fv)) /\
    bready (ft_add B f fv body lc) mc' c' m' /\ m_fp m' = [].
Proof. exact def_step_nostck. Qed.
Print Assumptions C16_definition_in_file_mode.

(* the premises hold for the demonstration session of C01 on the machine after builtin.Load and a first statement, and the session
   computes in file mode: no values, the same errors *)
Example C16_demo_in_both_modes : pair false true [] [] vm_tab vm_tab mc_after_first mc_after_first demo_items.
Proof.
  destruct C01_vm_start_state_holds as [c [m Hr]].
  exact (modes_session demo_names demo_items vm_tab mc_after_first c m C01_vm_tables_hold Hr C01_demo_items_ok).
Qed.

Fixpoint run_all_file (mc : machine) (ts : list node) : list tree_result :=
  match ts with
  | [] => []
  | t :: r => snd (run_tree true mc t) :: run_all_file (fst (run_tree true mc t)) r
  end.

Definition hide_value (o : option (res value)) : option (res value) :=
  match o with Some (Ok _) => Some (Ok VNil) | x => x end.

Example C16_demo_in_file_mode_computes :
  map brief (run_all_file mc_after_first (map item_tree demo_items)) =
  map hide_value (map brief (run_all mc_after_first (map item_tree demo_items))) /\
  List.length (filter (fun o => match o with Some (Fail _) => true | _ => false end)
                      (map brief (run_all_file mc_after_first (map item_tree demo_items)))) = 6%nat.
Proof. split; vm_compute; reflexivity. Qed.

(* ---- what the run counts as covered is covered ---- *)
Require Import Calc.StmtStart Calc.CorrFragment Calc.FragmentSound.

(* the run evaluates covered_modes in Coq on generated sessions: the first tree is run from the fresh machine in
   value mode and in file mode (those runs also execute the built-ins' definitions and are not covered); when
   the two machines pass the sound checks of the theorem's premises, every tree of the counted prefix of the
   remaining trees behaves in the two modes as the two-machine session theorem says *)
Theorem C16_counted_trees_are_covered_in_both_modes : forall mc0 t1 r,
  machine_new = Some mc0 ->
  let mc1 := fst (run_tree false mc0 t1) in
  let mc2 := fst (run_tree true mc0 t1) in
  let pre := firstn (covered_modes (t1 :: r)) r in
  pair false true [] [] (self_tab mc1) (self_tab mc2) mc1 mc2 (map item_of pre) /\ map item_tree (map item_of pre) = pre.
Proof. exact covered_modes_sound. Qed.
Print Assumptions C16_counted_trees_are_covered_in_both_modes.

Example C16_modes_check_passes :
  covered_modes ([NAssign (NName "ga") (NInt 3); def_lim; def_sq; def_big; def_mad; def_k] ++ demo_ucalls) = 23%nat.
Proof. vm_compute. reflexivity. Qed.
