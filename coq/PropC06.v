(* PropC06.v — C06: the front end is total.

   Proved here about the lexer model (compared token for token with the Go
   lexer): from a well-formed lexer, one call of Next never runs out of steps
   — every loop iteration consumes a rune, and at the end of the input the
   state table forces a return ([eof_step]: every state emits, errs or gives
   up its pending text; the unterminated comment / string hangs were exactly a
   violation of this table fact) — and Next keeps the lexer well formed, so the
   claim holds for every call of a scan; error spans lie inside the input.
   Proved about the grammar model (Grammar.v, compared with parser.Parse on
   every run of C07 and C06): on every input it returns trees or rejects, it
   never exhausts the fuel it is given (8 * tokens + 16), because every
   successful parse of an expression, statement or block consumes a token.
   The model has no panics by construction (its only failure values are
   "rejected" and "out of fuel"); that the Go combinators do not panic on the
   grammar's own combinator expressions is what the run checks.  Go's
   goroutine stack limit K3 is a recorded finding. *)
Require Import Calc.Base Calc.Lexer Calc.LexerProofs Calc.Grammar Calc.ParserTotal.
Open Scope Z_scope.

Theorem C06_lexer_next_terminates : forall l, lexer_wf l -> lexer_next l <> NFuel.
Proof. exact lexer_next_terminates. Qed.
Print Assumptions C06_lexer_next_terminates.

Theorem C06_new_lexer_wf : forall input, lexer_wf (new_lexer input).
Proof. exact new_lexer_wf. Qed.
Print Assumptions C06_new_lexer_wf.

Theorem C06_next_keeps_wf : forall fuel l st l',
  lexer_wf l -> (next_loop fuel l st = NTrue l' \/ next_loop fuel l st = NFalse l') -> lexer_wf l'.
Proof. exact next_loop_wf. Qed.
Print Assumptions C06_next_keeps_wf.

Theorem C06_eof_forces_progress : forall st r,
  state_fn st EOFr = Some r -> s_err r = None -> s_emit r = false -> s_adv r = true.
Proof. exact eof_step. Qed.
Print Assumptions C06_eof_forces_progress.

(* the span the lexer reports with a token or an error lies inside the input *)
Theorem C06_spans_inside_input : forall l, lexer_wf l -> 0 <= l_to l <= l_len l.
Proof. intros l (H1 & H2 & H3 & H4). lia. Qed.
Print Assumptions C06_spans_inside_input.

(* a lexer that has reached the end state is never fed a rune: the only
   state function that can abort is unreachable with input left *)
Theorem C06_only_eof_state_can_abort : forall st c, st <> SEof -> state_fn st c <> None.
Proof.
  intros st c H. destruct st; try congruence; cbn;
    repeat match goal with |- context [if ?x then _ else _] => destruct x end; discriminate.
Qed.
Print Assumptions C06_only_eof_state_can_abort.

(* ---- the parser ---- *)
Theorem C06_parser_total : forall input, parse_model input <> PFuel.
Proof. exact parse_model_total. Qed.
Print Assumptions C06_parser_total.

Theorem C06_program_never_out_of_fuel : forall ts, p_program (parse_fuel ts) ts <> Out.
Proof. exact program_never_out_of_fuel. Qed.
Print Assumptions C06_program_never_out_of_fuel.

Theorem C06_successful_parse_consumes_a_token : forall fuel,
  shrinks (p_expr fuel) /\ shrinks (p_stmt fuel) /\ shrinks (p_block fuel).
Proof. exact consumed_tokens_shrink. Qed.
Print Assumptions C06_successful_parse_consumes_a_token.
