(* PropC06.v — C06: the front end is total.

   Proved here about the lexer model (compared token for token with the Go
   lexer): from a well-formed lexer, one call of Next never runs out of steps
   — every loop iteration consumes a rune, and at the end of the input the
   state table forces a return ([eof_step]: every state emits, errs or gives
   up its pending text; the unterminated comment / string hangs were exactly a
   violation of this table fact) — and Next keeps the lexer well formed, so the
   claim holds for every call of a scan; error spans lie inside the input.
   NOT proved: termination and abort-freedom of the parser over the grammar
   (open: it needs the grammar model; Go's goroutine stack limit K3 is a
   recorded finding).  The check decides that part on arbitrary byte strings
   run through parser.Parse and reportError with a time limit. *)
Require Import Calc.Base Calc.Lexer Calc.LexerProofs.
Open Scope Z_scope.

Theorem C06_lexer_next_terminates : forall l, lexer_wf l -> lexer_next l <> NFuel.
Proof. exact lexer_next_terminates. Qed.
Print Assumptions C06_lexer_next_terminates.

Theorem C06_new_lexer_wf : forall input, lexer_wf (new_lexer input).
Proof. exact new_lexer_wf. Qed.
Print Assumptions C06_new_lexer_wf.

Theorem C06_next_keeps_wf : forall fuel l st l',
  lexer_wf l -> (next_loop fuel l st = NTrue l' \/ next_loop fuel l st = NFalse l') -> lexer_wf l'.
Proof. exact next_loop_wf. Qed.
Print Assumptions C06_next_keeps_wf.

Theorem C06_eof_forces_progress : forall st r,
  state_fn st EOFr = Some r -> s_err r = None -> s_emit r = false -> s_adv r = true.
Proof. exact eof_step. Qed.
Print Assumptions C06_eof_forces_progress.

(* the span the lexer reports with a token or an error lies inside the input *)
Theorem C06_spans_inside_input : forall l, lexer_wf l -> 0 <= l_to l <= l_len l.
Proof. intros l (H1 & H2 & H3 & H4). lia. Qed.
Print Assumptions C06_spans_inside_input.

(* a lexer that has reached the end state is never fed a rune: the only
   state function that can abort is unreachable with input left *)
Theorem C06_only_eof_state_can_abort : forall st c, st <> SEof -> state_fn st c <> None.
Proof.
  intros st c H. destruct st; try congruence; cbn;
    repeat match goal with |- context [if ?x then _ else _] => destruct x end; discriminate.
Qed.
Print Assumptions C06_only_eof_state_can_abort.
