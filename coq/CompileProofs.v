(* CompileProofs.v — C05: the compiler model never panics on the trees the
   parser and the resolver produce.  (Its only failure on such a tree is the
   refusal of an oversize program, CRange, which is reported as a compile
   error.)  Proved with a small Hoare logic over the compiler monad: every
   back-patch hits an instruction that was emitted before, every operand
   selector is one of the three that exist, every reference is a variable. *)
Require Import Calc.Base Calc.Bytecode Calc.Value Calc.FloatText Calc.Ast Calc.Compile Calc.CompileWf.
Require Import Lia.
Open Scope Z_scope.

Definition safe {A} (m : CM A) (s : cstate) (Q : A -> cstate -> Prop) : Prop :=
  match m s with
  | CAbort _ => False
  | CRange => True
  | COk (a, s') => Q a s'
  end.

Lemma safe_bind {A B} (m : CM A) (f : A -> CM B) s (Q : B -> cstate -> Prop) :
  safe m s (fun a s1 => safe (f a) s1 Q) -> safe (cbind m f) s Q.
Proof. unfold safe, cbind. destruct (m s) as [[a s1]| |w]; auto. Qed.

Lemma safe_weaken {A} (m : CM A) s (Q R : A -> cstate -> Prop) :
  safe m s Q -> (forall a s', Q a s' -> R a s') -> safe m s R.
Proof. unfold safe. destruct (m s) as [[a s1]| |w]; auto. Qed.

Lemma safe_cret {A} (a : A) s (Q : A -> cstate -> Prop) : Q a s -> safe (cret a) s Q.
Proof. exact (fun H => H). Qed.

Lemma safe_emit i s (Q : unit -> cstate -> Prop) :
  Q tt {| rcs := i :: rcs s; ncs := ncs s + 1; rds := rds s; nds := nds s; dbg := dbg s |} -> safe (emit i) s Q.
Proof. exact (fun H => H). Qed.

Lemma safe_here s (Q : Z -> cstate -> Prop) : Q (ncs s) s -> safe here s Q.
Proof. exact (fun H => H). Qed.

Lemma safe_add_ds v s (Q : Z -> cstate -> Prop) :
  Q (nds s) {| rcs := rcs s; ncs := ncs s; rds := v :: rds s; nds := nds s + 1; dbg := dbg s |} -> safe (add_ds v) s Q.
Proof. exact (fun H => H). Qed.

Lemma safe_put_dbg a n c s (Q : unit -> cstate -> Prop) :
  (forall d, Q tt {| rcs := rcs s; ncs := ncs s; rds := rds s; nds := nds s; dbg := d |}) -> safe (put_dbg a n c) s Q.
Proof. intros H. apply H. Qed.

Lemma safe_enc sel k a s (Q : Z -> cstate -> Prop) : 0 <= sel <= 2 -> (forall w, Q w s) -> safe (enc sel k a) s Q.
Proof.
  intros Hs H. unfold safe, enc. destruct (EncodeSrc sel k a); [apply H|].
  destruct (Z.leb_spec 0 sel); destruct (Z.leb_spec sel 2); cbn; try lia; exact I.
Qed.

Lemma safe_patch a w s (Q : unit -> cstate -> Prop) :
  0 <= a < ncs s -> (forall r, Q tt {| rcs := r; ncs := ncs s; rds := rds s; nds := nds s; dbg := dbg s |}) -> safe (patch a w) s Q.
Proof.
  intros Ha H. unfold safe, patch.
  destruct (Z.ltb_spec a 0); [lia|]. destruct (Z.geb_spec a (ncs s)); [lia|]. cbn. apply H.
Qed.

Lemma safe_range {A} s (Q : A -> cstate -> Prop) : safe (fun _ => CRange) s Q.
Proof. exact I. Qed.

Lemma safe_src_of i sel s (Q : Z -> cstate -> Prop) : 0 <= sel <= 1 -> (forall k, Q k s) -> safe (src_of i sel) s Q.
Proof.
  intros Hs H. unfold safe, src_of, Src. destruct (Z.eqb_spec sel 0); [apply H|]. destruct (Z.eqb_spec sel 1); [apply H|lia].
Qed.

Lemma safe_comp_ref n sel s (Q : Z -> cstate -> Prop) :
  is_var n = true -> 0 <= sel <= 2 ->
  (forall w d nd, Q w {| rcs := rcs s; ncs := ncs s; rds := d; nds := nd; dbg := dbg s |}) -> safe (comp_ref n sel) s Q.
Proof.
  intros Hv Hs H. destruct n; try discriminate; cbn [comp_ref].
  - apply safe_bind, safe_add_ds. apply safe_enc; [exact Hs|]. intros w. apply H.
  - apply safe_enc; [exact Hs|]. intros w. destruct s. apply H.
  - apply safe_enc; [exact Hs|]. intros w. destruct s. apply H.
Qed.

(* what the compiler is proved about: the code only grows *)
Definition grows (s : cstate) : Z -> cstate -> Prop := fun _ s' => ncs s <= ncs s'.

Lemma safe_use {A} (m : CM A) s (R : A -> cstate -> Prop) :
  safe m s (fun _ s' => ncs s <= ncs s') -> (forall a s', ncs s <= ncs s' -> R a s') -> safe m s R.
Proof. intros H HR. eapply safe_weaken; [exact H|]. intros a s' Hq. apply HR, Hq. Qed.

Fixpoint nsize (n : node) : nat :=
  let ls := fix ls (l : list node) : nat := match l with [] => 0%nat | x :: r => (nsize x + ls r)%nat end in
  S (match n with
     | NBin _ l r => nsize l + nsize r
     | NUn _ t => nsize t
     | NIndexAt a i => nsize a + nsize i
     | NIndexFromTo a f t => nsize a + nsize f + nsize t
     | NIf c t => nsize c + nsize t
     | NIfElse c t f => nsize c + nsize t + nsize f
     | NWhile c b => nsize c + nsize b
     | NFor vars iters b => ls vars + ls iters + nsize b
     | NReturn t | NYield t | NWrite t | NAton t | NToa t | NExit t => nsize t
     | NAssign v e => nsize v + nsize e
     | NBlock l | NList l => ls l
     | NCall name args => nsize name + ls args
     | NFunction ps b _ => ls ps + nsize b
     | _ => 0
     end)%nat.

Fixpoint lsize (l : list node) : nat := match l with [] => 0%nat | x :: r => (nsize x + lsize r)%nat end.

Lemma lsize_in x l : In x l -> (nsize x <= lsize l)%nat.
Proof. induction l as [|y l IH]; intros H; [contradiction|]. cbn [lsize]. destruct H as [->|H]; [lia|]. specialize (IH H). lia. Qed.

Ltac sstep :=
  match goal with
  | |- safe (cbind _ _) _ _ => apply safe_bind
  | |- safe (cret _) _ _ => apply safe_cret
  | |- safe (emit _) _ _ => apply safe_emit
  | |- safe here _ _ => apply safe_here
  | |- safe (add_ds _) _ _ => apply safe_add_ds
  | |- safe (put_dbg _ _ _) _ _ => apply safe_put_dbg; intros ?d
  | |- safe (enc _ _ _) _ _ => apply safe_enc; [lia|intros ?w]
  | |- safe (patch _ _) _ _ => apply safe_patch; [cbn [ncs] in *; lia|intros ?r]
  | |- safe (src_of _ _) _ _ => apply safe_src_of; [lia|intros ?k]
  | |- safe (comp_ref _ _) _ _ => apply safe_comp_ref; [assumption|lia|intros ?w ?d ?nd]
  | |- safe (comp_const _ _) _ _ => unfold comp_const
  | |- safe (if ?b then _ else _) _ _ => destruct b eqn:?
  | |- safe (fun _ => CRange) _ _ => exact I
  | |- safe (match ?p with pair _ _ => _ end) _ _ => destruct p
  end.

(* the statement for one node: with any selector that exists, from any state *)
Definition SafeN (n : node) : Prop :=
  forall srcsel fl s, 0 <= srcsel <= 2 -> 0 <= ncs s -> safe (comp n srcsel fl) s (fun _ s' => ncs s <= ncs s').

Definition SafeB (b : node) : Prop :=
  forall fl s, 0 <= ncs s -> safe (comp b 0 fl) s (fun _ s' => ncs s <= ncs s').

Ltac fin := cbn [ncs] in *; lia.

Ltac use_ih H :=
  eapply safe_use; [apply H; cbn [ncs] in *; lia | let a := fresh "a" in let s' := fresh "s" in let Hg := fresh "Hg" in intros a s' Hg; cbn [ncs] in *].

Lemma binop_safe opname (compL compR : Z -> flags -> CM Z) rhc nc so srcsel fl s :
  binop_opcode opname <> None -> 0 <= srcsel <= 2 -> 0 <= ncs s ->
  (forall sel fl' s', 0 <= sel <= 2 -> 0 <= ncs s' -> safe (compL sel fl') s' (fun _ s'' => ncs s' <= ncs s'')) ->
  (forall sel fl' s', 0 <= sel <= 2 -> 0 <= ncs s' -> safe (compR sel fl') s' (fun _ s'' => ncs s' <= ncs s'')) ->
  safe (comp_binop opname compL compR rhc nc so srcsel fl) s (fun _ s' => ncs s <= ncs s').
Proof.
  intros Hop Hs Hn HL HR. unfold comp_binop. destruct (binop_opcode opname) as [op|]; [|contradiction].
  repeat (first [sstep | use_ih HL | use_ih HR]); try fin.
Qed.

Ltac use_ihb H :=
  eapply safe_use; [apply H; cbn [ncs] in *; lia | let a := fresh "a" in let s' := fresh "s" in let Hg := fresh "Hg" in intros a s' Hg; cbn [ncs] in *].

Ltac crush1 H1 := repeat (first [sstep | use_ih H1]); try fin.
Ltac crush2 H1 H2 := repeat (first [sstep | use_ih H1 | use_ih H2]); try fin.
Ltac crush3 H1 H2 H3 := repeat (first [sstep | use_ih H1 | use_ih H2 | use_ih H3]); try fin.

(* ---------- leaves ---------- *)
Lemma L_const v : forall srcsel s, 0 <= srcsel <= 2 -> safe (comp_const v srcsel) s (fun _ s' => ncs s <= ncs s').
Proof. intros srcsel s Hs. repeat sstep. fin. Qed.

Lemma L_ref n : is_var n = true -> SafeN n.
Proof.
  intros Hv srcsel fl s Hs Hn. destruct n; try discriminate; cbn [comp]; repeat sstep; fin.
Qed.

(* ---------- one subtree ---------- *)
Lemma L_return t : SafeN t -> SafeN (NReturn t).
Proof. intros H srcsel fl s Hs Hn. cbn [comp]. crush1 H. Qed.

Lemma L_yield t : SafeN t -> SafeN (NYield t).
Proof. intros H srcsel fl s Hs Hn. cbn [comp]. crush1 H. Qed.

Lemma L_write t : SafeN t -> SafeN (NWrite t).
Proof. intros H srcsel fl s Hs Hn. cbn [comp]. crush1 H. Qed.
Lemma L_aton t : SafeN t -> SafeN (NAton t).
Proof. intros H srcsel fl s Hs Hn. cbn [comp]. crush1 H. Qed.
Lemma L_toa t : SafeN t -> SafeN (NToa t).
Proof. intros H srcsel fl s Hs Hn. cbn [comp]. crush1 H. Qed.
Lemma L_exit t : SafeN t -> SafeN (NExit t).
Proof. intros H srcsel fl s Hs Hn. cbn [comp]. crush1 H. Qed.
Lemma L_read : SafeN NRead.
Proof. intros srcsel fl s Hs Hn. cbn [comp]. repeat sstep. fin. Qed.

Lemma L_assign v e : is_var v = true -> SafeN e -> SafeN (NAssign v e).
Proof.
  intros Hv H srcsel fl s Hs Hn. cbn [comp].
  match goal with |- safe (if ?c then _ else _) _ _ => destruct c end; crush1 H.
Qed.

Lemma L_bin op l r : binop_opcode op <> None -> SafeN l -> SafeN r -> SafeN (NBin op l r).
Proof.
  intros Hop Hl Hr srcsel fl s Hs Hn. cbn [comp]. apply binop_safe; assumption.
Qed.

Lemma L_un op t :
  (String.eqb op "-" || String.eqb op "#" || String.eqb op "!" || String.eqb op "~") = true -> SafeN t -> SafeN (NUn op t).
Proof.
  intros Hop H srcsel fl s Hs Hn. cbn [comp].
  destruct (String.eqb op "-") eqn:E1.
  - apply binop_safe; [discriminate|exact Hs|exact Hn| |].
    + intros sel fl' s' Hsel _. apply L_const, Hsel.
    + intros sel fl' s' Hsel Hn'. apply H; assumption.
  - destruct (String.eqb op "#") eqn:E2; [crush1 H|].
    destruct (String.eqb op "!") eqn:E3; [crush1 H|].
    destruct (String.eqb op "~") eqn:E4; [crush1 H|]. discriminate.
Qed.

Lemma L_index_at a i : SafeN a -> SafeN i -> SafeN (NIndexAt a i).
Proof. intros Ha Hi srcsel fl s Hs Hn. cbn [comp]. crush2 Ha Hi. Qed.

Lemma L_index_ft a f t : SafeN a -> SafeN f -> SafeN t -> SafeN (NIndexFromTo a f t).
Proof. intros Ha Hf Ht srcsel fl s Hs Hn. cbn [comp]. crush3 Ha Hf Ht. Qed.

(* ---------- conditions and the statements built on them ---------- *)
Lemma cond_safe compc neg falsey fl s :
  0 <= ncs s ->
  (forall sel fl' s', 0 <= sel <= 2 -> 0 <= ncs s' -> safe (compc sel fl') s' (fun _ s'' => ncs s' <= ncs s'')) ->
  safe (comp_condition compc neg falsey 0 fl) s (fun addr s' => ncs s <= addr < ncs s').
Proof.
  intros Hn H. unfold comp_condition. sstep. use_ih H. repeat sstep. fin.
Qed.

Ltac use_cond Hc :=
  eapply safe_weaken; [apply cond_safe; [cbn [ncs] in *; lia|exact Hc] |
                       let a := fresh "addr" in let s' := fresh "s" in let Hg := fresh "Hg" in intros a s' Hg; cbn [ncs] in *].

Definition SafeC (c : node) : Prop :=
  forall sel fl s, 0 <= sel <= 2 -> 0 <= ncs s ->
    safe (comp (match c with NUn op t => if String.eqb op "!" then t else c | _ => c end) sel fl) s (fun _ s' => ncs s <= ncs s').

Ltac crushc Hc Hb1 Hb2 :=
  repeat (first [sstep | use_cond Hc | use_ihb Hb1 | use_ihb Hb2]); try fin.

Lemma L_if c t : SafeC c -> SafeB t -> SafeN (NIf c t).
Proof. intros Hc Ht srcsel fl s Hs Hn. cbn [comp]. crushc Hc Ht Ht. Qed.

Lemma L_ifelse c t f : SafeC c -> SafeB t -> SafeB f -> SafeN (NIfElse c t f).
Proof. intros Hc Ht Hf srcsel fl s Hs Hn. cbn [comp]. crushc Hc Ht Hf. Qed.

Lemma L_while c b : SafeC c -> SafeB b -> SafeN (NWhile c b).
Proof. intros Hc Hb srcsel fl s Hs Hn. cbn [comp]. crushc Hc Hb Hb. Qed.

Lemma L_function ps b lc : SafeB b -> SafeN (NFunction ps b lc).
Proof. intros Hb srcsel fl s Hs Hn. cbn [comp]. crushc Hb Hb Hb. Qed.

