(* Repl.v — model of types/node/repl.go: the line reader of file mode and the
   loop that decides when the accumulated lines form a statement (C16). *)
Require Import Calc.Base.
Open Scope Z_scope.

(* openCount *)
Record ocount := { oc_blocks : Z; oc_brackets : Z; oc_instr : bool; oc_esc : bool }.
Definition oc0 : ocount := {| oc_blocks := 0; oc_brackets := 0; oc_instr := false; oc_esc := false |}.

(* one byte outside a comment; returns the new state and whether a comment starts here *)
Definition scan_byte (o : ocount) (ch : Z) : ocount * bool :=
  if oc_instr o then
    if oc_esc o then ({| oc_blocks := oc_blocks o; oc_brackets := oc_brackets o; oc_instr := true; oc_esc := false |}, false)
    else if ch =? 92 then ({| oc_blocks := oc_blocks o; oc_brackets := oc_brackets o; oc_instr := true; oc_esc := true |}, false)
    else if ch =? 34 then ({| oc_blocks := oc_blocks o; oc_brackets := oc_brackets o; oc_instr := false; oc_esc := false |}, false)
    else (o, false)
  else if ch =? 59 then (o, true)
  else if ch =? 34 then ({| oc_blocks := oc_blocks o; oc_brackets := oc_brackets o; oc_instr := true; oc_esc := oc_esc o |}, false)
  else if ch =? 123 then ({| oc_blocks := oc_blocks o + 1; oc_brackets := oc_brackets o; oc_instr := false; oc_esc := oc_esc o |}, false)
  else if ch =? 125 then ({| oc_blocks := oc_blocks o - 1; oc_brackets := oc_brackets o; oc_instr := false; oc_esc := oc_esc o |}, false)
  else if ch =? 91 then ({| oc_blocks := oc_blocks o; oc_brackets := oc_brackets o + 1; oc_instr := false; oc_esc := oc_esc o |}, false)
  else if ch =? 93 then ({| oc_blocks := oc_blocks o; oc_brackets := oc_brackets o - 1; oc_instr := false; oc_esc := oc_esc o |}, false)
  else (o, false).

(* scan over the bytes; in_comment: skipping to the next line break *)
Fixpoint scan_bytes (o : ocount) (in_comment : bool) (l : list Z) : ocount :=
  match l with
  | [] => o
  | ch :: r =>
      if in_comment then scan_bytes o (negb (ch =? 10)) r
      else
        let (o', c) := scan_byte o ch in
        (* a comment that starts at ';' runs to the line break; the line break itself is skipped by the Go loop's i++ *)
        scan_bytes o' c r
  end.

Definition scan (o : ocount) (line : string) : ocount := scan_bytes o false (bytes_of line).

Definition is_open (o : ocount) : bool := (oc_blocks o >? 0) || (oc_brackets o >? 0) || oc_instr o.

(* Loop: the inputs handed to processInput, in order *)
Fixpoint loop_go (lines : list string) (o : ocount) (input sep : string) : list string :=
  match lines with
  | [] => if String.eqb input "" then [] else [input]
  | line :: rest =>
      let o' := scan o (sep +++ line) in
      let input' := input +++ sep +++ line in
      if is_open o' then loop_go rest o' input' (sb [10])
      else input' :: loop_go rest oc0 "" ""
  end.

Definition loop_model (lines : list string) : list string := loop_go lines oc0 "" "".

(* FReader.read until EOF: the lines of a file, without their line breaks; a
   last line without line break counts, an empty rest after the last line break does not *)
Fixpoint split_lines (l : list Z) (cur : list Z) : list (list Z) :=
  match l with
  | [] => match cur with [] => [] | _ => [rev cur] end
  | c :: r => if c =? 10 then rev cur :: split_lines r [] else split_lines r (c :: cur)
  end.

Definition freader_lines (content : string) : list string := map sb (split_lines (bytes_of content) []).

Definition file_inputs (content : string) : list string := loop_model (freader_lines content).
