(* StmtTop.v — C01 on the statement fragment, end to end: ByteCode (value
   mode, as the REPL compiles) and ByteCodeNoStck (file mode), load, Run on
   the VM model against the fuelled semantics and Sem.eval; then sessions. *)
Require Import Calc.Sem.
Require Import Calc.Base Calc.Bytecode Calc.BytecodeProofs Calc.Value Calc.FloatText Calc.Ast Calc.Resolve Calc.Compile Calc.VM
        Calc.MemProofs Calc.StepErr Calc.StepCode Calc.GenBuiltins Calc.Session
        Calc.CompileWf Calc.CompileProofs Calc.CompileLoops
        Calc.ExprSem Calc.ExprVM Calc.ExprCorrect Calc.ExprTop Calc.ExprAssign Calc.ExprLen Calc.ExprSession
        Calc.StmtSem Calc.StmtVM Calc.StmtCorrect.
Require Import Lia.
Open Scope Z_scope.

(* the machine at the start of Run on freshly loaded code *)
Section Start.
  Variables (v : vm) (s sfin : cstate) (c : ctx) (m : mem).
  Hypothesis Hwf : wfcs s.
  Hypothesis Wfin : wfcs sfin.
  Hypothesis Hid : idle v s c m.

  Let v1 := load_code v sfin.
  Let r0 := {| r_ctx := 0; r_ip := c_ip c; r_tmp := VNil |}.

  Lemma start_run fuel rr : Run fuel v1 rr = run_loop fuel v1 r0 rr.
  Proof. unfold Run. change (v_ctxs v1) with (v_ctxs v). rewrite (id_ctx _ _ _ _ Hid). reflexivity. Qed.

  Lemma start_mid : cur_mid v1 r0 = Good (c_mid c).
  Proof. unfold cur_mid, get_ctx. change (v_ctxs v1) with (v_ctxs v). cbn [r0 r_ctx]. rewrite (id_ctx _ _ _ _ Hid). reflexivity. Qed.

  Lemma start_self : St v1 (c_mid c) m = v1.
  Proof. apply St_self. exact (id_mem _ _ _ _ Hid). Qed.

  Lemma start_ncs : v_ncs v1 = zlen (v_cs v1).
  Proof. cbn [v1 load_code v_ncs v_cs]. unfold zlen. rewrite rev_length. exact (proj1 Wfin). Qed.

  Lemma start_ip : r_ip r0 = ncs s.
  Proof. exact (id_ip _ _ _ _ Hid). Qed.
End Start.

(* the end of Run in file mode: nothing is popped *)
Lemma run_finish_nostck v1 r0 n vf r3 fuel c :
  v_ncs v1 = zlen (v_cs v1) ->
  steps false n v1 r0 = SNext vf r3 -> (n < fuel)%nat ->
  r_ip r3 = v_ncs v1 -> r_ctx r3 = 0 ->
  assoc_get (v_ctxs vf) 0 = Some c ->
  run_loop fuel v1 r0 false =
  (set_ctx vf 0 {| c_ip := r_ip r3; c_mid := c_mid c; c_parent := c_parent c;
                   c_children := c_children c; c_tmp := c_tmp c |}, RValue VNil).
Proof.
  intros Hn Hs Hf Hip Hctx Hc.
  replace fuel with (n + (fuel - n))%nat by lia.
  destruct (run_loop_steps_ok false n v1 r0 (fuel - n) _ _ Hn Hs) as [Hr [Hn3 Hcode]]. rewrite Hr.
  destruct (fuel - n)%nat as [|f'] eqn:Ef; [lia|]. cbn [run_loop].
  assert (Hncs : v_ncs vf = v_ncs v1) by (unfold code_of in Hcode; congruence).
  assert (B : (r_ip r3 <? v_ncs vf) = false) by (apply Z.ltb_ge; lia).
  rewrite B, Hctx, Hc. reflexivity.
Qed.

Lemma pass_fl0 : pass fl0 = tfl false. Proof. reflexivity. Qed.
Lemma discard_fl0 : withDiscard true (pass fl0) = tfl true. Proof. reflexivity. Qed.

(* ---- too little fuel: the run loop says so ---- *)
Lemma run_loop_short_next rr : forall k v r v' r' fuel,
  v_ncs v = zlen (v_cs v) -> steps rr k v r = SNext v' r' -> (fuel <= k)%nat ->
  snd (run_loop fuel v r rr) = RFuel.
Proof.
  induction k as [|k IH]; intros v r v' r' fuel Hn Hs Hf.
  - assert (fuel = 0%nat) by lia. subst. reflexivity.
  - destruct fuel as [|f]; [reflexivity|]. cbn [steps] in Hs.
    destruct (step v r rr) as [v1 r1| | |] eqn:E; try discriminate Hs.
    assert (R : 0 <= r_ip r < zlen (v_cs v)) by (apply (step_in_range v r rr); intros w; rewrite E; discriminate).
    pose proof (step_keeps_program v r rr v1 r1 E) as K. unfold code_of in K. injection K as K1 K2 K3 K4.
    assert (Hn1 : v_ncs v1 = zlen (v_cs v1)) by congruence.
    cbn [run_loop]. assert (B : (r_ip r <? v_ncs v) = true) by (apply Z.ltb_lt; lia). rewrite B, E.
    apply (IH v1 _ v' r' f Hn1 Hs). lia.
Qed.

Lemma run_loop_short_err rr : forall k v r v' cid ip e vals fuel,
  v_ncs v = zlen (v_cs v) -> steps rr k v r = SErr v' cid ip e vals ->
  snd (run_loop fuel v r rr) = RFuel \/
  run_loop fuel v r rr = (reset_after_error v', RError e (report_text v' cid ip e vals)).
Proof.
  induction k as [|k IH]; intros v r v' cid ip e vals fuel Hn Hs; [discriminate Hs|].
  destruct fuel as [|f]; [left; reflexivity|]. cbn [steps] in Hs.
  destruct (step v r rr) as [v1 r1|v1 cid1 ip1 e1 vals1| |] eqn:E; try discriminate Hs.
  - assert (R : 0 <= r_ip r < zlen (v_cs v)) by (apply (step_in_range v r rr); intros w; rewrite E; discriminate).
    pose proof (step_keeps_program v r rr v1 r1 E) as K. unfold code_of in K. injection K as K1 K2 K3 K4.
    assert (Hn1 : v_ncs v1 = zlen (v_cs v1)) by congruence.
    cbn [run_loop]. assert (B : (r_ip r <? v_ncs v) = true) by (apply Z.ltb_lt; lia). rewrite B, E.
    apply (IH v1 _ v' cid ip e vals f Hn1 Hs).
  - assert (R : 0 <= r_ip r < zlen (v_cs v)) by (apply (step_in_range v r rr); intros w; rewrite E; discriminate).
    right. cbn [run_loop]. assert (B : (r_ip r <? v_ncs v) = true) by (apply Z.ltb_lt; lia). rewrite B, E.
    inversion Hs. reflexivity.
Qed.

Section WithB.
Variable Bf : ftab.
Local Notation ssem := (StmtSem.ssem Bf).
Local Notation RunsS := (StmtCorrect.RunsS Bf).
Local Notation comp_stmt := (StmtCorrect.comp_stmt Bf).
Local Notation value_on_stack := (StmtCorrect.value_on_stack Bf).
Local Notation bcode := (StmtCorrect.bcode Bf).

(* the built-ins stay where they are when more code is appended and when only memories, contexts and
   the world change *)
Lemma bcode_same v1 v2 : v_cs v2 = v_cs v1 -> v_ds v2 = v_ds v1 -> v_frames v2 = v_frames v1 -> bcode v1 -> bcode v2.
Proof.
  intros Hc Hd Hf [H1 [H2 H3]]. split; [|split].
  - intros nm b mo fid Hb Hbf. destruct (H1 nm b mo fid Hb Hbf) as (morph & fid' & fr & i1 & i2 & R).
    exists morph, fid', fr, i1, i2. rewrite Hc, Hf. exact R.
  - intros mo fid Hbf. destruct (H2 mo fid Hbf) as (morph & fid' & fr & i1 & i2 & R).
    exists morph, fid', fr, i1, i2. rewrite Hc, Hf. exact R.
  - intros nm body mo fid Hb Hbody Hbf.
    destruct (H3 nm body mo fid Hb Hbody Hbf) as (morph & fid' & fr & s0 & s1 & wb & flb & R1 & R2 & R3 & R4 & R5 & R6 & R7 & R8 & R9 & R10 & R11 & R12).
    exists morph, fid', fr, s0, s1, wb, flb. rewrite Hf.
    split; [exact R1|]. split; [exact R2|]. split; [exact R3|]. split; [exact R4|]. split; [exact R5|]. split; [exact R6|].
    split; [exact R7|]. split; [exact R8|]. split; [exact R9|]. split; [exact R10|]. split.
    + intros code Hcode i x Hi. rewrite Hc. exact (R11 code Hcode i x Hi).
    + intros i x Hi. rewrite Hd. exact (R12 i x Hi).
Qed.

Lemma bcode_extend v s s' code : lay s s' code -> bcode (load_code v s) -> bcode (load_code v s').
Proof.
  intros (R & _ & [dd D]) [H1 [H2 H3]]. split; [|split].
  - intros nm b mo fid Hb Hbf. destruct (H1 nm b mo fid Hb Hbf) as (morph & fid' & fr & i1 & i2 & R1 & R2 & R3 & R4 & R5 & R6 & R7).
    exists morph, fid', fr, i1, i2. cbn [load_code v_cs v_frames] in *. rewrite R, rev_app_distr, rev_involutive.
    split; [exact R1|]. split; [exact R2|]. split; [exact R3|]. split; [exact R4|].
    split; [apply znth_app_l; exact R5|]. split; [apply znth_app_l; exact R6|exact R7].
  - intros mo fid Hbf. destruct (H2 mo fid Hbf) as (morph & fid' & fr & i1 & i2 & R1 & R2 & R3 & R4 & R5 & R6 & R7).
    exists morph, fid', fr, i1, i2. cbn [load_code v_cs v_frames] in *. rewrite R, rev_app_distr, rev_involutive.
    split; [exact R1|]. split; [exact R2|]. split; [exact R3|]. split; [exact R4|].
    split; [apply znth_app_l; exact R5|]. split; [apply znth_app_l; exact R6|exact R7].
  - intros nm body mo fid Hb Hbody Hbf.
    destruct (H3 nm body mo fid Hb Hbody Hbf) as (morph & fid' & fr & s0 & s1 & wb & flb & R1 & R2 & R3 & R4 & R5 & R6 & R7 & R8 & R9 & R10 & R11 & R12).
    exists morph, fid', fr, s0, s1, wb, flb. cbn [load_code v_cs v_ds v_frames] in *.
    split; [exact R1|]. split; [exact R2|]. split; [exact R3|]. split; [exact R4|]. split; [exact R5|]. split; [exact R6|].
    split; [exact R7|]. split; [exact R8|]. split; [exact R9|]. split; [exact R10|]. split.
    + intros code0 Hcode i x Hi. cbn [load_code v_cs]. rewrite R, rev_app_distr, rev_involutive. apply znth_app_l.
      exact (R11 code0 Hcode i x Hi).
    + intros i x Hi. cbn [load_code v_ds]. rewrite D, rev_app_distr. apply znth_app_l. exact (R12 i x Hi).
Qed.

(* a checker for the premise, so that it is established by one computation *)
Definition dec_is (w : Z) (op k0 : Z) : bool :=
  let d := decode w in
  (f_op d =? op) && (f_k0 d =? k0) && (f_k1 d =? 0) && (f_k2 d =? 0) && (f_a0 d =? 0) && (f_a1 d =? 0) && (f_a2 d =? 0).

Lemma dec_is_ok w op k0 : dec_is w op k0 = true ->
  decode w = {| f_op := op; f_k0 := k0; f_k1 := 0; f_k2 := 0; f_a0 := 0; f_a1 := 0; f_a2 := 0 |}.
Proof.
  unfold dec_is. destruct (decode w) as [o a b c d e f]. cbn [f_op f_k0 f_k1 f_k2 f_a0 f_a1 f_a2]. intros H.
  repeat (apply andb_prop in H; destruct H as [H ?]).
  repeat match goal with E : (_ =? _) = true |- _ => apply Z.eqb_eq in E end. subst. reflexivity.
Qed.

Definition fun_at (v : vm) (f : value) (arity op k0 : Z) : bool :=
  match f with
  | VFun morph fid =>
      (fn_params morph =? arity) && (fn_locals morph =? arity) &&
      match assoc_get (v_frames v) fid, znth (v_cs v) (fn_node morph), znth (v_cs v) (fn_node morph + 1) with
      | Some _, Some i1, Some i2 => dec_is i1 op k0 && dec_is i2 RET AddrStck
      | _, _, _ => false
      end
  | _ => true
  end.

Definition bcode_b (v : vm) : bool :=
  fun_at v (ft_val Bf "write") 1 WRITE AddrLcl && fun_at v (ft_val Bf "toa") 1 TOA AddrLcl &&
  fun_at v (ft_val Bf "aton") 1 ATON AddrLcl && fun_at v (ft_val Bf "read") 0 READ 0.

Lemma fun_at_b v b nm mo fid : fun_at v (ft_val Bf nm) 1 (bop_code b) AddrLcl = true -> ft_val Bf nm = VFun mo fid -> is_bfun v b (ft_val Bf nm).
Proof.
  intros H E. rewrite E in *. cbn [fun_at] in H. apply andb_prop in H. destruct H as [H H3]. apply andb_prop in H. destruct H as [H1 H2].
  apply Z.eqb_eq in H1, H2.
  destruct (assoc_get (v_frames v) fid) as [fr|] eqn:Ef; [|discriminate H3].
  destruct (znth (v_cs v) (fn_node mo)) as [i1|] eqn:E1; [|discriminate H3].
  destruct (znth (v_cs v) (fn_node mo + 1)) as [i2|] eqn:E2; [|discriminate H3].
  apply andb_prop in H3. destruct H3 as [D1 D2]. apply dec_is_ok in D1, D2.
  exists mo, fid, fr, i1, i2. repeat split; assumption.
Qed.

(* the user functions are established separately (is_ufun needs the compile state of the definition) *)
Lemma bcode_b_sound v :
  bcode_b v = true ->
  (forall nm body mo fid, bop_of_name nm = None -> ft_body Bf nm = Some body -> ft_val Bf nm = VFun mo fid ->
     is_ufun (ft_arity Bf nm) v body (ft_val Bf nm)) ->
  bcode v.
Proof.
  unfold bcode_b. intros H HU. apply andb_prop in H. destruct H as [H Hr]. apply andb_prop in H. destruct H as [H Ha].
  apply andb_prop in H. destruct H as [Hw Ht]. split; [|split; [|exact HU]].
  - intros nm b mo fid Hb Hbf. unfold bop_of_name in Hb.
    destruct (String.eqb_spec nm "write") as [->|_]; [injection Hb as <-; exact (fun_at_b v BWrite "write" mo fid Hw Hbf)|].
    destruct (String.eqb_spec nm "toa") as [->|_]; [injection Hb as <-; exact (fun_at_b v BToa "toa" mo fid Ht Hbf)|].
    destruct (String.eqb_spec nm "aton") as [->|_]; [injection Hb as <-; exact (fun_at_b v BAton "aton" mo fid Ha Hbf)|].
    discriminate Hb.
  - intros mo fid Hbf. rewrite Hbf in *. cbn [fun_at] in Hr. apply andb_prop in Hr. destruct Hr as [H H3]. apply andb_prop in H. destruct H as [H1 H2].
    apply Z.eqb_eq in H1, H2.
    destruct (assoc_get (v_frames v) fid) as [fr|] eqn:Ef; [|discriminate H3].
    destruct (znth (v_cs v) (fn_node mo)) as [i1|] eqn:E1; [|discriminate H3].
    destruct (znth (v_cs v) (fn_node mo + 1)) as [i2|] eqn:E2; [|discriminate H3].
    apply andb_prop in H3. destruct H3 as [D1 D2]. apply dec_is_ok in D1, D2.
    exists mo, fid, fr, i1, i2. repeat split; assumption.
Qed.

(* the reset after an error keeps the unread input *)
Lemma reset_in v c me :
  assoc_get (v_ctxs v) 0 = Some c -> c_children c = [] ->
  v_in (reset_after_error (St v 0 me)) = v_in v /\ v_next (reset_after_error (St v 0 me)) = v_next v /\
  v_frames (reset_after_error (St v 0 me)) = v_frames v /\ v_cs (reset_after_error (St v 0 me)) = v_cs v.
Proof.
  intros Hc Hch. unfold reset_after_error.
  change (v_ctxs (St v 0 me)) with (v_ctxs v). rewrite Hc, Hch. cbn [fold_left].
  pose proof (St_get v 0 me) as G. unfold get_mem in G.
  destruct (assoc_get (v_mems (St v 0 me)) 0) as [m0|] eqn:E; [|discriminate G].
  rewrite St_St. change (v_ctxs (St v 0 (mReset m0))) with (v_ctxs v). rewrite Hc. repeat split; reflexivity.
Qed.

Lemma wof_eq v v' : v_globals v = v_globals v' -> v_out v = v_out v' -> v_in v = v_in v' -> v_next v = v_next v' ->
  wof v = wof v'.
Proof. unfold wof. intros -> -> -> ->. reflexivity. Qed.

(* Run ended with value x, in world W', the machine clean *)
Definition ran_to_value_w (v : vm) (c : ctx) (m : mem) (s' : cstate) (W' : world) (x : value)
           (res : vm * run_result) : Prop :=
  exists v' m', res = (v', RValue x) /\
    assoc_get (v_mems v') (c_mid c) = Some m' /\ m_sp m' = m_sp m /\ msame (m_sp m) m m' /\
    wof v' = W' /\ v_frames v' = v_frames v /\
    (exists c', assoc_get (v_ctxs v') 0 = Some c' /\ c_ip c' = ncs s' /\ c_mid c' = c_mid c /\
                c_children c' = c_children c).

(* ---- value mode ---- *)
Theorem bytecode_run_stmt t s s' v c m n G' res :
  wstmt t = true -> wfcs s -> idle v s c m -> bcode (load_code v s) ->
  ByteCode t s = CompOk s' ->
  ssem n (wof v) t = Some (G', res) ->
  wfcs s' /\ (exists code, lay s s' code) /\
  exists k, forall fuel,
    ((fuel <= k)%nat -> snd (Run fuel (load_code v s') true) = RFuel \/
                        match res with
                        | Ok _ => False
                        | Fail err => exists me rep, Run fuel (load_code v s') true
                                        = (reset_after_error (SG (load_code v s') G' (c_mid c) me), RError err rep)
                        end) /\
    ((k < fuel)%nat ->
     match res with
     | Ok x => ran_to_value_w v c m s' G' x (Run fuel (load_code v s') true)
     | Fail err => exists me rep, Run fuel (load_code v s') true
                                  = (reset_after_error (SG (load_code v s') G' (c_mid c) me), RError err rep)
     end).
Proof.
  intros Hw Hwf Hid Hbc0 HB HM.
  unfold ByteCode in HB. rewrite pass_fl0 in HB.
  destruct ((instr <- comp t 0 (tfl false);; (if negb (Src0 instr =? AddrStck) then emit (Z.lor instr (New PUSH)) else cret tt)) s)
    as [[u sfin]| |] eqn:HC; try discriminate HB. injection HB as <-.
  apply cbind_ok in HC. destruct HC as [w [s1 [Hcomp Hfin]]].
  destruct (comp_stmt t Hw false 0 s w s1 eq_refl Hwf Hcomp) as [code [K [A (L1 & W1 & Ew & Sk & NT & X)]]].
  destruct (NT eq_refl) as [NTmp NInv].
  destruct (enc_src0 K A w (skind_range K Sk) Ew) as [S0 _]. rewrite S0 in Hfin.
  assert (Hpush : lay s1 sfin (push_code K w) /\ rds sfin = rds s1 /\ nds sfin = nds s1 /\ wfcs sfin).
  { unfold push_code. destruct (K =? AddrStck); cbn [negb] in Hfin.
    - apply cret_ok in Hfin. destruct Hfin as [_ ->]. conj; [apply lay_refl|reflexivity|reflexivity|exact W1].
    - apply emit_ok in Hfin. subst sfin. rewrite Z.lor_comm. conj; try reflexivity.
      + change [Z.lor (New PUSH) w] with ([] ++ [Z.lor (New PUSH) w]). apply lay_emit. apply lay_refl.
      + apply wfcs_emitted. exact W1. }
  destruct Hpush as [Lp [Rdf [Ndf Wfin]]].
  split; [exact Wfin|].
  assert (Lfin0 : lay s sfin (code ++ push_code K w)) by (apply (lay_trans s s1 sfin); assumption).
  split; [exists (code ++ push_code K w); exact Lfin0|].
  pose proof (bcode_extend v s sfin _ Lfin0 Hbc0) as Hbc.
  assert (XS : RunsS (fun G => ssem n G t) false s sfin s1 (code ++ push_code K w) AddrStck 0).
  { apply (value_on_stack _ s s1 sfin s1 code K A w (X n) NTmp NInv Sk Ew).
    - destruct L1 as (_ & N & _). exact N.
    - destruct Lp as (_ & N & _). exact N. }
  set (v1 := load_code v sfin).
  set (r0 := {| r_ctx := 0; r_ip := c_ip c; r_tmp := VNil |}).
  assert (Lfin : lay s sfin (code ++ push_code K w)) by (apply (lay_trans s s1 sfin); assumption).
  pose proof (code_at_loaded v s sfin _ Hwf (proj1 Lfin)) as Hc. fold v1 in Hc.
  assert (Hd1 : data_at v1 s1).
  { intros i y Hy. cbn [v1 load_code v_ds]. rewrite Rdf. exact Hy. }
  pose proof (XS true v1 (c_mid c) m r0 G' res Hbc Hc Hd1 (start_mid v s sfin c m Hid) (id_sp _ _ _ _ Hid)
                 (start_ip v s c m Hid) HM) as E.
  pose proof (start_self v s sfin c m Hid) as Hself. fold v1 in Hself. rewrite Hself in E.
  destruct res as [x|err].
  - destruct E as [k [m3 [r3 [Hs [Hm3 [Hc3 [Hi3 Ho]]]]]]]. exists k. intros fuel.
    pose proof (start_run v s sfin c m Hid fuel true) as Hrun. fold v1 r0 in Hrun. rewrite Hrun.
    split; [intros Hle; left; apply (run_loop_short_next true k v1 r0 _ _ fuel (start_ncs v sfin Wfin) Hs Hle)|intros Hfuel].
    destruct Ho as [[_ [Hsp3 Hx3]]|[[E1 _]|[[E1 _]|[E1 _]]]]; try discriminate E1.
    unfold ran_to_value_w.
    rewrite (run_finish v1 r0 k _ _ fuel c m3 x (start_ncs v sfin Wfin) Hs Hfuel).
    + eexists. exists (mdrop m3). conj.
      * reflexivity.
      * cbn [set_mem v_mems set_ctx]. unfold SG, St, set_mem; cbn [v_mems]. rewrite assoc_set_set. apply assoc_get_set_same.
      * unfold mdrop, with_stack; cbn [m_sp]. lia.
      * apply mdrop_msame; [exact Hm3|lia].
      * destruct G'; reflexivity.
      * reflexivity.
      * eexists. conj; [cbn [set_mem v_ctxs set_ctx]; apply assoc_get_set_same| |reflexivity|reflexivity].
        cbn [c_ip]. exact Hi3.
    + rewrite Hi3. reflexivity.
    + rewrite Hc3. reflexivity.
    + exact (id_ctx _ _ _ _ Hid).
    + unfold SG, St, set_mem; cbn [v_mems]. apply assoc_get_set_same.
    + rewrite Hsp3. replace (m_sp m + 1 - 1) with (m_sp m) by lia. exact Hx3.
  - destruct E as [k [me [ip [vals Hs]]]]. exists k. intros fuel.
    pose proof (start_run v s sfin c m Hid fuel true) as Hrun. fold v1 r0 in Hrun. rewrite Hrun.
    split.
    + intros _. destruct (run_loop_short_err true k v1 r0 _ _ _ _ _ fuel (start_ncs v sfin Wfin) Hs) as [F|R]; [left; exact F|].
      right. rewrite R. eauto.
    + intros Hfuel. replace fuel with (k + (fuel - k))%nat by lia.
      rewrite (run_loop_steps_error true k v1 r0 (fuel - k) _ _ _ _ _ (start_ncs v sfin Wfin) Hs). eauto.
Qed.

(* ---- file mode: ByteCodeNoStck, Run(false) ---- *)
Definition ran_to_end (v : vm) (c : ctx) (m : mem) (s' : cstate) (G' : world) (r : vm * run_result) : Prop :=
  exists v' m', r = (v', RValue VNil) /\
    assoc_get (v_mems v') (c_mid c) = Some m' /\ m_sp m' = m_sp m /\ msame (m_sp m) m m' /\
    wof v' = G' /\ v_frames v' = v_frames v /\
    (exists c', assoc_get (v_ctxs v') 0 = Some c' /\ c_ip c' = ncs s' /\ c_mid c' = c_mid c /\
                c_children c' = c_children c).

(* with the short runs too: below the k steps the run takes, it is out of fuel (or, for an error, may
   already have reached it) *)
Theorem bytecode_nostck_run_stmt_full t s s' v c m n G' res :
  wstmt t = true -> wfcs s -> idle v s c m -> bcode (load_code v s) ->
  ByteCodeNoStck t s = CompOk s' ->
  ssem n (wof v) t = Some (G', res) ->
  wfcs s' /\ (exists code, lay s s' code) /\
  exists k, forall fuel,
    ((fuel <= k)%nat -> snd (Run fuel (load_code v s') false) = RFuel \/
                        match res with
                        | Ok _ => False
                        | Fail err => exists me rep, Run fuel (load_code v s') false
                                        = (reset_after_error (SG (load_code v s') G' (c_mid c) me), RError err rep)
                        end) /\
    ((k < fuel)%nat ->
     match res with
     | Ok _ => ran_to_end v c m s' G' (Run fuel (load_code v s') false)
     | Fail err => exists me rep, Run fuel (load_code v s') false
                                  = (reset_after_error (SG (load_code v s') G' (c_mid c) me), RError err rep)
     end).
Proof.
  intros Hw Hwf Hid Hbc0 HB HM.
  unfold ByteCodeNoStck in HB. rewrite discard_fl0 in HB.
  destruct ((instr <- comp t 0 (tfl true);; (if Src0 instr =? AddrStck then emit (New POP) else cret tt)) s)
    as [[u sfin]| |] eqn:HC; try discriminate HB. injection HB as <-.
  apply cbind_ok in HC. destruct HC as [w [s1 [Hcomp Hfin]]].
  destruct (comp_stmt t Hw true 0 s w s1 eq_refl Hwf Hcomp) as [code [K [A (L1 & W1 & Ew & Sk & _ & X)]]].
  destruct (enc_src0 K A w (skind_range K Sk) Ew) as [S0 _]. rewrite S0 in Hfin.
  destruct (pop_emit_ok K s1 u sfin Hfin) as [Lp [Rdf [Ndf Wfin]]]. specialize (Wfin W1).
  split; [exact Wfin|].
  set (v1 := load_code v sfin).
  set (r0 := {| r_ctx := 0; r_ip := c_ip c; r_tmp := VNil |}).
  assert (Lfin : lay s sfin (code ++ pop_code K)) by (apply (lay_trans s s1 sfin); assumption).
  split; [exists (code ++ pop_code K); exact Lfin|].
  pose proof (bcode_extend v s sfin _ Lfin Hbc0) as Hbc.
  pose proof (code_at_loaded v s sfin _ Hwf (proj1 Lfin)) as Hc. fold v1 in Hc.
  pose proof Hc as Hc0. apply code_at_app in Hc. destruct Hc as [HcC HcP].
  assert (Hd1 : data_at v1 s1).
  { intros i y Hy. cbn [v1 load_code v_ds]. rewrite Rdf. exact Hy. }
  pose proof (X n false v1 (c_mid c) m r0 G' res Hbc HcC Hd1 (start_mid v s sfin c m Hid) (id_sp _ _ _ _ Hid)
                 (start_ip v s c m Hid) HM) as E.
  pose proof (start_self v s sfin c m Hid) as Hself. fold v1 in Hself. rewrite Hself in E.
  pose proof (id_sp _ _ _ _ Hid) as Hsp.
  destruct res as [x|err].
  - destruct E as [k [m1 [r1 [Hs [Hm1 [Hc1 [Hi1 Hsp1]]]]]]]. cbn beta iota in Hsp1.
    set (v2 := set_world v1 G') in *.
    assert (Popped : exists k2 m2 r2, steps false k2 (St v2 (c_mid c) m1) r1 = SNext (St v2 (c_mid c) m2) r2 /\
              msame (m_sp m) m m2 /\ m_sp m2 = m_sp m /\ r_ctx r2 = 0 /\ r_ip r2 = ncs sfin).
    { unfold pop_code, stack_effect in *. destruct (Z.eqb_spec K AddrStck) as [EK|NK].
      - assert (Hat : at_ip v2 r1 (c_mid c) (New POP)).
        { split.
          - change (v_cs v2) with (v_cs v1). rewrite Hi1. destruct L1 as (_ & N & _). rewrite N.
            apply code_at_cons in HcP. exact (proj1 HcP).
          - change (cur_mid v2 r1) with (cur_mid v1 r1). rewrite (cur_mid_ctx v1 r0 r1 Hc1). exact (start_mid v s sfin c m Hid). }
        destruct (exec_pop false v2 (c_mid c) (New POP) (m_sp m) m m1 r1 Hat (decode_op POP pop_range) Hm1 Hsp1 (proj1 Hsp))
          as [Hs2 [Hm2 Hsp2]].
        exists 1%nat, (mdrop m1), (with_ip r1 (r_ip r1 + 1)). conj; try assumption;
          cbn [with_ip r_ip r_ctx]; try (rewrite Hc1; reflexivity).
        rewrite Hi1. destruct Lp as (_ & N & _). rewrite N. unfold zlen. cbn [List.length]. lia.
      - exists 0%nat, m1, r1. cbn [steps]. conj; try assumption; try reflexivity; try lia;
          try (rewrite Hc1; reflexivity).
        rewrite Hi1. destruct Lp as (_ & N & _). rewrite N. unfold zlen. cbn [List.length]. lia. }
    destruct Popped as [k2 [m2 [r2 [Hs2 [Hm2 [Hsp2 [Hc2 Hi2]]]]]]].
    exists (k + k2)%nat. intros fuel.
    pose proof (start_run v s sfin c m Hid fuel false) as Hrun. fold v1 r0 in Hrun. rewrite Hrun.
    assert (Hsteps : steps false (k + k2) v1 r0 = SNext (St v2 (c_mid c) m2) r2).
    { rewrite steps_app, Hs. exact Hs2. }
    split; [intros Hle; left; apply (run_loop_short_next false (k + k2) v1 r0 _ _ fuel (start_ncs v sfin Wfin) Hsteps Hle)|intros Hfuel].
    unfold ran_to_end.
    rewrite (run_finish_nostck v1 r0 _ _ _ fuel c (start_ncs v sfin Wfin) Hsteps Hfuel).
    + eexists. exists m2. conj.
      * reflexivity.
      * cbn [set_ctx v_mems]. unfold St, set_mem; cbn [v_mems]. apply assoc_get_set_same.
      * exact Hsp2.
      * exact Hm2.
      * unfold v2. destruct G'; reflexivity.
      * reflexivity.
      * eexists. conj; [cbn [v_ctxs set_ctx]; apply assoc_get_set_same| |reflexivity|reflexivity].
        cbn [c_ip]. exact Hi2.
    + rewrite Hi2. reflexivity.
    + exact Hc2.
    + exact (id_ctx _ _ _ _ Hid).
  - destruct E as [k [me [ip [vals Hs]]]]. exists k. intros fuel.
    pose proof (start_run v s sfin c m Hid fuel false) as Hrun. fold v1 r0 in Hrun. rewrite Hrun.
    split.
    + intros _. destruct (run_loop_short_err false k v1 r0 _ _ _ _ _ fuel (start_ncs v sfin Wfin) Hs) as [F|R]; [left; exact F|].
      right. rewrite R. eauto.
    + intros Hfuel. replace fuel with (k + (fuel - k))%nat by lia.
      rewrite (run_loop_steps_error false k v1 r0 (fuel - k) _ _ _ _ _ (start_ncs v sfin Wfin) Hs). eauto.
Qed.

Theorem bytecode_nostck_run_stmt t s s' v c m n G' res :
  wstmt t = true -> wfcs s -> idle v s c m -> bcode (load_code v s) ->
  ByteCodeNoStck t s = CompOk s' ->
  ssem n (wof v) t = Some (G', res) ->
  wfcs s' /\
  exists k, forall fuel, (k < fuel)%nat ->
    match res with
    | Ok _ => ran_to_end v c m s' G' (Run fuel (load_code v s') false)
    | Fail err => exists me rep, Run fuel (load_code v s') false
                                 = (reset_after_error (SG (load_code v s') G' (c_mid c) me), RError err rep)
    end.
Proof.
  intros Hw Hwf Hid Hbc HB HM.
  destruct (bytecode_nostck_run_stmt_full t s s' v c m n G' res Hw Hwf Hid Hbc HB HM) as [W [_ [k R]]].
  split; [exact W|]. exists k. intros fuel Hf. exact (proj2 (R fuel) Hf).
Qed.

(* ---- the definitional semantics and the compiled code agree ---- *)
(* both are given the same world: where no function values are bound (the built-ins are bound to
   different representations on the two sides; see ssem_related for worlds that differ there) *)
Theorem statement_compiled_correctly t s s' v c m n env st G' res :
  wstmt t = true -> wfcs s -> idle v s c m -> bcode (load_code v s) -> sem_bf Bf st -> wof_s st = wof v ->
  ByteCode t s = CompOk s' ->
  ssem n (wof v) t = Some (G', res) ->
  (exists st', eval n t env st = Done st' (ctl_of res) /\ wof_s st' = G') /\
  exists k, forall fuel, (k < fuel)%nat ->
    agrees (ctl_of res) (snd (Run fuel (load_code v s') true)) /\
    match res with Ok _ => wof (fst (Run fuel (load_code v s') true)) = G' | Fail _ => True end.
Proof.
  intros Hw Hwf Hid Hbc Hsb Hg HB HM. split.
  - rewrite <- Hg in HM. destruct (eval_stmt Bf n t Hw env st G' res Hsb HM) as (st' & E & HW & _). eauto.
  - destruct (bytecode_run_stmt t s s' v c m n G' res Hw Hwf Hid Hbc HB HM) as [_ [_ [k R]]].
    exists k. intros fuel Hf. specialize (R fuel). destruct R as [_ R]. specialize (R Hf). destruct res as [x|err].
    + destruct R as [v' [m' [R [_ [_ [_ [Hg' _]]]]]]]. rewrite R. split; [reflexivity|exact Hg'].
    + destruct R as [me [rep R]]. rewrite R. split; [reflexivity|exact I].
Qed.

(* ---- through run_tree, statement after statement ---- *)
Lemma resolve_wstmt : forall t, wstmt t = true -> resolve t [] = Some (t, []).
Proof.
  apply (wstmt_induction (fun t => resolve t [] = Some (t, []))).
  - intros t Hp. apply resolve_pure. exact Hp.
  - intros g e Hp.
    cbn [resolve]. unfold rbind. rewrite (resolve_pure e Hp). reflexivity.
  - intros g e _ _ He. cbn [resolve]. unfold rbind. rewrite He. reflexivity.
  - intros l _ _ HF.
    assert (E : resolve_list_of l [] = Some (l, [])).
    { induction HF as [|x r Hx Hr IH]; [reflexivity|]. cbn [resolve_list_of]. unfold rbind. rewrite Hx, IH. reflexivity. }
    change (resolve (NBlock l) []) with (rbind (resolve_list_of l) (fun l' => rret (NBlock l')) []).
    unfold rbind. rewrite E. reflexivity.
  - intros c b Hc _ Hb. cbn [resolve]. unfold rbind. rewrite (resolve_pure c Hc), Hb. reflexivity.
  - intros c a b Hc _ _ Ha Hb. cbn [resolve]. unfold rbind. rewrite (resolve_pure c Hc), Ha, Hb. reflexivity.
  - intros c b Hc _ Hb. cbn [resolve]. unfold rbind. rewrite (resolve_pure c Hc), Hb. reflexivity.
  - intros e He. cbn [resolve]. unfold rbind. rewrite (resolve_pure e He). reflexivity.
  - intros nm args Hp.
    change (resolve (NCall (NName nm) args) []) with
      (rbind (resolve (NName nm)) (fun name' => rbind (resolve_list_of args) (fun args' => rret (NCall name' args'))) []).
    unfold rbind. rewrite (resolve_pure (NName nm) eq_refl).
    assert (E : resolve_list_of args [] = Some (args, [])).
    { induction args as [|x r IH]; [reflexivity|]. cbn [forallb] in Hp. apply andb_prop in Hp. destruct Hp as [Hx Hr].
      cbn [resolve_list_of]. unfold rbind. rewrite (resolve_pure x Hx), (IH Hr). reflexivity. }
    rewrite E. reflexivity.
Qed.

(* what running a statement leaves: value or error class as the semantics says, and its world — the global
   bindings, the output written so far, the input still unread *)
Definition stmt_outcome (mc : machine) (t : node) (G' : world) (sres : res value) (rest : machine -> Prop) : Prop :=
  let mc' := fst (run_tree false mc t) in
  let r := snd (run_tree false mc t) in
  r = TRefused \/ r = TFuel \/
  (tree_agrees r sres /\ wof (mc_vm mc') = G' /\ rest mc').

Definition bready (mc : machine) (c : ctx) (m : mem) : Prop :=
  ready mc c m /\ bcode (load_code (mc_vm mc) (mc_cs mc)).

(* input waiting on standard input does not matter to the premises *)
Lemma bready_set_in mc c m l :
  bready mc c m -> bready {| mc_cs := mc_cs mc; mc_vm := set_in (mc_vm mc) l |} c m.
Proof.
  intros [[[Hwf [H1 H2 H3 H4]] [Hm Hc]] Hb].
  split; [split; [split; [exact Hwf|constructor; assumption]|split; assumption]|].
  apply (bcode_same (load_code (mc_vm mc) (mc_cs mc))); [reflexivity|reflexivity|reflexivity|exact Hb].
Qed.

Theorem stmt_step t mc c m n G' sres :
  bready mc c m -> wstmt t = true -> wfb t = true ->
  ssem n (wof (mc_vm mc)) t = Some (G', sres) ->
  stmt_outcome mc t G' sres (fun mc' => exists c' m', bready mc' c' m').
Proof.
  intros [[[Hwf Hid] [Hmid Hch]] Hbc] Hw Hb HM. unfold stmt_outcome.
  unfold run_tree, strewrite. rewrite (resolve_wstmt t Hw). cbn [negb].
  destruct (ByteCode t (mc_cs mc)) as [s'|s0|w] eqn:HB.
  - destruct (bytecode_run_stmt t (mc_cs mc) s' (mc_vm mc) c m n G' sres Hw Hwf Hid Hbc HB HM) as [W [[code0 Rcode] [k R]]].
    pose proof (bcode_extend (mc_vm mc) (mc_cs mc) s' code0 Rcode Hbc) as Hbc'.
    specialize (R session_fuel). destruct R as [Rle Rgt].
    destruct (Nat.lt_ge_cases k session_fuel) as [Hlt|Hge].
    + specialize (Rgt Hlt). right. right. destruct sres as [x|err].
      * destruct Rgt as [v' [m' (R & Hm' & Hsp' & Hms & Hg & Hfr' & [c' [Hc' [Hip' [Hmid' Hch']]]])]]. rewrite R.
        cbn [fst snd mc_vm tree_agrees]. conj; try reflexivity; try assumption.
        exists c', m'. split.
        { split; [|split; congruence]. split; [exact W|]. cbn [mc_vm mc_cs].
          constructor; try assumption.
          -- rewrite Hmid'. exact Hm'.
          -- destruct Hms as (_&_&_&_&_&B). pose proof (id_sp _ _ _ _ Hid). lia. }
        cbn [mc_vm mc_cs]. apply (bcode_same (load_code (mc_vm mc) s')); [reflexivity|reflexivity| |exact Hbc'].
        cbn [load_code v_frames]. exact Hfr'.
      * destruct Rgt as [me [rep R]]. rewrite R. cbn [fst snd mc_vm tree_agrees]. rewrite Hmid.
        destruct (reset_ready (set_world (load_code (mc_vm mc) s') G') s' c me W eq_refl (id_ctx _ _ _ _ Hid) Hmid Hch)
          as [c' [m' [Hr [Hg Ho]]]].
        pose proof (reset_in (set_world (load_code (mc_vm mc) s') G') c me (id_ctx _ _ _ _ Hid) Hch) as [Hin [Hnx [Hfr Hcs]]].
        conj; [reflexivity| |exists c', m'; split; [exact Hr|]].
        { etransitivity; [exact (wof_eq _ _ Hg Ho Hin Hnx)|apply wof_set_world]. }
        cbn [mc_vm mc_cs]. apply (bcode_same (load_code (mc_vm mc) s')); [reflexivity|reflexivity| |exact Hbc'].
        etransitivity; [exact Hfr|reflexivity].
    + specialize (Rle Hge). destruct Rle as [F|Rle].
      * right. left. destruct (Run session_fuel (load_code (mc_vm mc) s') true) as [v' rr]. cbn [snd] in *. rewrite F. reflexivity.
      * right. right. destruct sres as [x|err]; [contradiction|].
        destruct Rle as [me [rep R]]. rewrite R. cbn [fst snd mc_vm tree_agrees]. rewrite Hmid.
        destruct (reset_ready (set_world (load_code (mc_vm mc) s') G') s' c me W eq_refl (id_ctx _ _ _ _ Hid) Hmid Hch)
          as [c' [m' [Hr [Hg Ho]]]].
        pose proof (reset_in (set_world (load_code (mc_vm mc) s') G') c me (id_ctx _ _ _ _ Hid) Hch) as [Hin [Hnx [Hfr Hcs]]].
        conj; [reflexivity| |exists c', m'; split; [exact Hr|]].
        { etransitivity; [exact (wof_eq _ _ Hg Ho Hin Hnx)|apply wof_set_world]. }
        cbn [mc_vm mc_cs]. apply (bcode_same (load_code (mc_vm mc) s')); [reflexivity|reflexivity| |exact Hbc'].
        etransitivity; [exact Hfr|reflexivity].
  - left. reflexivity.
  - exfalso. destruct (bytecode_never_aborts t (mc_cs mc) Hb) as [NA _].
    + destruct Hwf as [Hn _]. rewrite Hn. unfold zlen. lia.
    + exact (NA w HB).
Qed.

(* every history: for whatever fuel the semantics defines a statement, the compiled run agrees,
   unless the statement is refused for size or the machine model runs out of its own step budget *)
Fixpoint sess (mc : machine) (G : world) (ts : list node) : Prop :=
  match ts with
  | [] => True
  | t :: r =>
      forall n G' sres, ssem n G t = Some (G', sres) ->
        stmt_outcome mc t G' sres (fun mc' => sess mc' G' r)
  end.

Theorem stmt_session : forall ts mc c m,
  bready mc c m -> Forall (fun t => wstmt t = true /\ wfb t = true) ts ->
  sess mc (wof (mc_vm mc)) ts.
Proof.
  induction ts as [|t r IH]; intros mc c m Hr Hall; [exact I|].
  inversion Hall as [|t' r' [Hw Hb] Hrest]; subst. cbn [sess]. intros n G' sres HM.
  pose proof (stmt_step t mc c m n G' sres Hr Hw Hb HM) as S. unfold stmt_outcome in *.
  destruct S as [S|[S|[Ha [Hg [c' [m' Hr']]]]]]; [left; exact S|right; left; exact S|].
  right. right. conj; try assumption. rewrite <- Hg. apply (IH _ c' m' Hr' Hrest).
Qed.

(* ---- equivalences of statement forms, on the meaning the compiled code has ---- *)
Lemma cond_res_not G c : pure c = true ->
  cond_res (den G (NUn "!" c)) = match cond_res (den G c) with Ok b => Ok (negb b) | Fail e => Fail e end.
Proof.
  intros _. cbn [den]. destruct (den G c) as [a|e]; [|reflexivity]. unfold unop_sem. cbn. destruct a; reflexivity.
Qed.

(* if !c A else B  is  if c B else A *)
Theorem negated_if_swap n G c a b r :
  pure c = true ->
  ssem (S n) G (NIfElse (NUn "!" c) a b) = Some r -> ssem (S n) G (NIfElse c b a) = Some r.
Proof.
  intros Hp H. cbn [ssem] in H |- *. cbn [height] in H.
  destruct (Nat.leb_spec (S (height c)) n) as [Hh|Hh]; [|discriminate H].
  assert (E : Nat.leb (height c) n = true) by (apply Nat.leb_le; lia). rewrite E.
  rewrite (cond_res_not (w_glob G) c Hp) in H. destruct (cond_res (den (w_glob G) c)) as [[|]|e]; exact H.
Qed.
End WithB.
