(* CompileLoops.v — C05: the list-shaped parts of the compiler (array literals, call arguments, blocks, for). *)
Require Import Calc.Base Calc.Bytecode Calc.Value Calc.FloatText Calc.Ast Calc.Compile Calc.CompileWf Calc.CompileProofs.
Require Import Lia.
Open Scope Z_scope.

(* ---------- lists of subtrees ---------- *)
Lemma list_go_safe fl (k : nat) ix : forall (l : list node) (i : nat) s,
  (forall x, In x l -> SafeN x) -> 0 <= ncs s ->
  safe ((fix go (l : list node) (i : nat) : CM unit :=
           match l with
           | [] => cret tt
           | x :: l' =>
               if Nat.ltb i k then go l' (S i)
               else
                 i0 <- comp x 0 (withOpDepth 0 (pass fl)) ;;
                 w <- (if Nat.eqb i k then enc 1 AddrDS ix else enc 1 AddrStck 0) ;;
                 emit (Z.lor (Z.lor i0 (New ARR)) w) ;;; go l' (S i)
           end) l i) s (fun _ s' => ncs s <= ncs s').
Proof.
  induction l as [|x l IH]; intros i s Hx Hn; [apply safe_cret; lia|].
  destruct (Nat.ltb i k).
  - apply IH; [intros y Hy; apply Hx; right; exact Hy|exact Hn].
  - pose proof (Hx x (or_introl eq_refl)) as H1.
    sstep. use_ih H1. sstep. sstep.
    + sstep. sstep. sstep.
      eapply safe_weaken; [apply IH; [intros y Hy; apply Hx; right; exact Hy|fin]|]. intros u s' Hg'. fin.
    + sstep. sstep. sstep.
      eapply safe_weaken; [apply IH; [intros y Hy; apply Hx; right; exact Hy|fin]|]. intros u s' Hg'. fin.
Qed.

Lemma L_list l : (forall x, In x l -> SafeN x) -> SafeN (NList l).
Proof.
  intros Hx srcsel fl s Hs Hn. cbn [comp]. sstep. sstep. sstep.
  - sstep. fin.
  - sstep. eapply safe_weaken; [apply list_go_safe; [exact Hx|fin]|]. intros u s' Hg'. cbn [ncs] in *. sstep. fin.
Qed.

Lemma call_go_safe fl : forall (l : list node) s,
  (forall x, In x l -> SafeN x) -> 0 <= ncs s ->
  safe ((fix go (l : list node) : CM unit :=
           match l with
           | [] => cret tt
           | a :: l' =>
               i <- comp a 0 fl ;;
               (if negb (Src0 i =? AddrStck) && negb (Src0 i =? AddrInv)
                then emit (Z.lor i (New PUSH)) else cret tt) ;;; go l'
           end) l) s (fun _ s' => ncs s <= ncs s').
Proof.
  induction l as [|x l IH]; intros s Hx Hn; [apply safe_cret; lia|].
  pose proof (Hx x (or_introl eq_refl)) as H1.
  sstep. use_ih H1. sstep. sstep.
  - sstep. eapply safe_weaken; [apply IH; [intros y Hy; apply Hx; right; exact Hy|fin]|]. intros u s' Hg'. fin.
  - sstep. eapply safe_weaken; [apply IH; [intros y Hy; apply Hx; right; exact Hy|fin]|]. intros u s' Hg'. fin.
Qed.

Lemma L_call name args : is_var name = true -> (forall x, In x args -> SafeN x) -> SafeN (NCall name args).
Proof.
  intros Hv Hx srcsel fl s Hs Hn. cbn [comp]. sstep.
  eapply safe_weaken; [apply call_go_safe; [exact Hx|exact Hn]|]. intros u s' Hg'. cbn beta.
  assert (E : exists nm, node_name name = Some nm) by (destruct name; try discriminate; eexists; reflexivity).
  destruct E as [nm E]. rewrite E. repeat sstep. fin.
Qed.

Definition block_go (srcsel : Z) (fl : flags) :=
  fix go (l : list node) (last : Z) : CM Z :=
    match l with
    | [] => cret last
    | [t] => comp t srcsel (withReturning (Returning fl) (withDiscard (Discard fl) (pass fl)))
    | t :: l' =>
        i <- comp t srcsel (withDiscard true (pass fl)) ;;
        k <- src_of i srcsel ;;
        (if k =? AddrStck then emit (New POP) else cret tt) ;;;
        go l' (New POP)
    end.

Lemma block_go_cons srcsel fl x l last :
  block_go srcsel fl (x :: l) last =
  match l with
  | [] => comp x srcsel (withReturning (Returning fl) (withDiscard (Discard fl) (pass fl)))
  | _ :: _ =>
      i <- comp x srcsel (withDiscard true (pass fl)) ;;
      k <- src_of i srcsel ;;
      (if k =? AddrStck then emit (New POP) else cret tt) ;;;
      block_go srcsel fl l (New POP)
  end.
Proof. destruct l; reflexivity. Qed.

Lemma block_go_safe srcsel fl : 0 <= srcsel <= 1 -> forall (l : list node) last s,
  (forall x, In x l -> SafeN x) -> 0 <= ncs s ->
  safe (block_go srcsel fl l last) s (fun _ s' => ncs s <= ncs s').
Proof.
  intros Hs. induction l as [|x l IH]; intros last s Hx Hn; [apply safe_cret; lia|].
  pose proof (Hx x (or_introl eq_refl)) as H1. rewrite block_go_cons.
  destruct l as [|y l'].
  - apply H1; [lia|exact Hn].
  - sstep. use_ih H1. sstep. sstep. sstep. sstep.
    + sstep. eapply safe_weaken; [apply IH; [intros z Hz; apply Hx; right; exact Hz|fin]|]. intros u s' Hg'. fin.
    + sstep. eapply safe_weaken; [apply IH; [intros z Hz; apply Hx; right; exact Hz|fin]|]. intros u s' Hg'. fin.
Qed.

Lemma L_block l : (forall x, In x l -> SafeN x) ->
  forall srcsel fl s, 0 <= srcsel <= 1 -> 0 <= ncs s -> safe (comp (NBlock l) srcsel fl) s (fun _ s' => ncs s <= ncs s').
Proof. intros Hx srcsel fl s Hs Hn. cbn [comp]. change (safe (block_go srcsel fl l 0) s (fun _ s' => ncs s <= ncs s')). apply block_go_safe; assumption. Qed.

(* ---------- for ---------- *)
Definition for_go1 (fl : flags) (vars : list node) (ctxID ni : Z) (returning : bool) :=
  fix go (l : list node) (i : Z) (ccontAddr : Z) (jmps : list Z) : CM (Z * list Z) :=
    match l with
    | [] => cret (ccontAddr, jmps)
    | iter :: l' =>
        (if i >? 0 then
           h <- here ;;
           wc <- enc 0 AddrImm (h - ccontAddr) ;;
           patch ccontAddr wc ;;;
           vref <- comp_ref (nth (Z.to_nat (i - 1)) vars NInvalid) 1 ;;
           ws <- enc 0 AddrStck 0 ;;
           emit (Z.lor (Z.lor (New MOV) vref) ws)
         else cret tt) ;;;
        cc <- here ;;
        wi <- enc 1 AddrImm (i + ctxID) ;;
        emit (Z.lor (New CCONT) wi) ;;;
        _ <- comp iter 0 (withCtxID 0 (pass fl)) ;;
        w0 <- enc 0 AddrImm ctxID ;;
        w1 <- enc 1 AddrImm (ctxID + ni - 1) ;;
        emit (Z.lor (Z.lor (New DCONT) w0) w1) ;;;
        jmps' <- (if returning then
                    ws <- enc 0 AddrStck 0 ;; emit (Z.lor (New RET) ws) ;;; cret jmps
                  else
                    a <- here ;; emit (New JMP) ;;; cret (jmps ++ [a])) ;;
        go l' (i + 1) cc jmps'
    end.

Lemma for_go1_safe fl vars ctxID ni returning :
  forallb is_var vars = true ->
  forall (l : list node) i cc jmps s,
    (forall x, In x l -> SafeN x) ->
    0 <= i -> i + Z.of_nat (List.length l) = Z.of_nat (List.length vars) ->
    0 <= cc <= ncs s -> (i > 0 -> cc < ncs s) -> Forall (fun a => 0 <= a < ncs s) jmps ->
    safe (for_go1 fl vars ctxID ni returning l i cc jmps) s
         (fun r s' => ncs s <= ncs s' /\ 0 <= fst r <= ncs s' /\ Forall (fun a => 0 <= a < ncs s') (snd r)).
Proof.
  intros Hv. induction l as [|x l IH]; intros i cc jmps s Hx Hi Hlen Hcc Hcc' Hj.
  - apply safe_cret. cbn [fst snd]. repeat split; try lia. exact Hj.
  - pose proof (Hx x (or_introl eq_refl)) as H1. cbn [for_go1]. fold (for_go1 fl vars ctxID ni returning).
    cbn [List.length] in Hlen.
    assert (Hvar : i > 0 -> is_var (nth (Z.to_nat (i - 1)) vars NInvalid) = true).
    { intros Hpos. rewrite forallb_forall in Hv. apply Hv. apply nth_In. lia. }
    sstep.
    assert (Pre : safe (if i >? 0
                        then h <- here;; wc <- enc 0 AddrImm (h - cc);; patch cc wc;;;
                             vref <- comp_ref (nth (Z.to_nat (i - 1)) vars NInvalid) 1;;
                             ws <- enc 0 AddrStck 0;; emit (Z.lor (Z.lor (New MOV) vref) ws)
                        else cret tt) s (fun _ s1 => ncs s <= ncs s1)).
    { destruct (Z.gtb_spec i 0) as [Hp|Hp].
      - specialize (Hvar ltac:(lia)). specialize (Hcc' ltac:(lia)). repeat sstep. fin.
      - apply safe_cret. lia. }
    eapply safe_weaken; [exact Pre|]. intros u s1 G1. cbn beta.
    assert (Mono : forall a b (p : a <= b) (l0 : list Z), Forall (fun z => 0 <= z < a) l0 -> Forall (fun z => 0 <= z < b) l0).
    { intros a0 b0 p l0 F. eapply Forall_impl; [|exact F]. intros z Hz. cbn in Hz. lia. }
    repeat (first [sstep | use_ih H1]).
    + eapply safe_weaken; [apply IH; try (intros y Hy; apply Hx; right; exact Hy); cbn [ncs] in *; try lia|].
      * eapply Mono; [|exact Hj]. lia.
      * intros r' s' (A & B & C). cbn [ncs] in *. repeat split; try lia. exact C.
    + eapply safe_weaken; [apply IH; try (intros y Hy; apply Hx; right; exact Hy); cbn [ncs] in *; try lia|].
      * apply Forall_app. split; [eapply Mono; [|exact Hj]; lia|]. constructor; [lia|constructor].
      * intros r' s' (A & B & C). cbn [ncs] in *. repeat split; try lia. exact C.
Qed.

Definition for_go2 (ctxID : Z) :=
  fix go (l : list node) (i : Z) (assignAddr : Z) : CM Z :=
    match l with
    | [] => cret assignAddr
    | vRef :: l' =>
        ws <- enc 0 AddrImm (ctxID + i) ;;
        emit (Z.lor (New SCONT) ws) ;;;
        a <- here ;;
        assignee <- comp_ref vRef 1 ;;
        wk <- enc 0 AddrStck 0 ;;
        emit (Z.lor (Z.lor (New MOV) assignee) wk) ;;;
        go l' (i + 1) a
    end.

Lemma for_go2_safe ctxID : forall (l : list node) i a s,
  forallb is_var l = true ->
  safe (for_go2 ctxID l i a) s (fun _ s' => ncs s <= ncs s').
Proof.
  induction l as [|v l IH]; intros i a s Hv; [apply safe_cret; lia|].
  cbn [forallb] in Hv. apply andb_prop in Hv. destruct Hv as [Hv1 Hv2].
  cbn [for_go2]. fold (for_go2 ctxID). repeat sstep.
  eapply safe_weaken; [apply IH; exact Hv2|]. intros u s' Hg'. fin.
Qed.

Definition for_go3 :=
  fix go (l : list Z) : CM unit :=
    match l with
    | [] => cret tt
    | a :: l' => h' <- here ;; wa <- enc 0 AddrImm (h' - a) ;; patch a wa ;;; go l'
    end.

Lemma for_go3_safe : forall (l : list Z) s,
  Forall (fun a => 0 <= a < ncs s) l -> safe (for_go3 l) s (fun _ s' => ncs s' = ncs s).
Proof.
  induction l as [|a l IH]; intros s Hl; [apply safe_cret; reflexivity|].
  inversion Hl; subst. cbn [for_go3]. fold for_go3. repeat sstep.
  eapply safe_weaken; [apply IH; cbn [ncs]; assumption|]. intros u s' Hg'. cbn [ncs] in *. exact Hg'.
Qed.

Lemma L_for vars iters b :
  Nat.eqb (List.length vars) (List.length iters) = true -> forallb is_var vars = true ->
  (forall x, In x iters -> SafeN x) -> SafeB b -> SafeN (NFor vars iters b).
Proof.
  intros Hlen Hv Hx Hb srcsel fl s Hs Hn. cbn [comp].
  apply Nat.eqb_eq in Hlen.
  assert (E : Z.of_nat (List.length iters) =? Z.of_nat (List.length vars) = true) by (apply Z.eqb_eq; lia).
  rewrite E. cbn [negb].
  remember (Discard fl) as dsc eqn:Ed.
  destruct dsc; cbn [negb andb orb].
  - 
      assert (Step : forall s1 (Q : Z -> cstate -> Prop) rest,
                0 <= ncs s1 ->
                (forall cc jm s2, ncs s1 <= ncs s2 -> 0 <= cc <= ncs s2 -> Forall (fun a => 0 <= a < ncs s2) jm ->
                                  safe (rest (cc, jm)) s2 Q) ->
                safe (cbind (for_go1 fl vars (CtxID fl) (Z.of_nat (List.length iters)) (Returning fl) iters 0 (ncs s1) []) rest) s1 Q).
      { intros s1 Q rest Hn1 Hrest. apply safe_bind.
        eapply safe_weaken; [apply (for_go1_safe fl vars _ _ _ Hv iters 0 (ncs s1) [] s1 Hx); try lia; constructor|].
        intros [cc jm] s2 (A & B & C). cbn [fst snd] in *. apply Hrest; assumption. }
      assert (Rest : forall cc jm s2, 0 <= ncs s2 -> 0 <= cc <= ncs s2 -> Forall (fun a => 0 <= a < ncs s2) jm ->
                safe (let '(ccontAddr, jmpAddrs) := (cc, jm) in
                      switchAddr <- here ;;
                      assignAddr <- for_go2 (CtxID fl) vars 0 0 ;;
                      (if negb (true) then emit (New POP) else cret tt) ;;;
                      b0 <- comp b 0 (withDiscard (true) (withCtx (CtxID fl + Z.of_nat (List.length vars)) (CtxID fl)
                                       (CtxID fl + Z.of_nat (List.length vars) - 1) (withInFor true (pass fl)))) ;;
                      (if negb (Src0 b0 =? AddrStck) && negb (Src0 b0 =? AddrInv) && negb (true)
                       then emit (Z.lor (New PUSH) b0) else cret tt) ;;;
                      (if (Src0 b0 =? AddrStck) && true then emit (New POP) else cret tt) ;;;
                      h <- here ;;
                      wj <- enc 0 AddrImm (switchAddr - h) ;;
                      emit (Z.lor (New JMP) wj) ;;;
                      for_go3 jmpAddrs ;;;
                      wcc <- enc 0 AddrImm (assignAddr - ccontAddr) ;;
                      patch ccontAddr wcc ;;;
                      enc srcsel (if true || Returning fl then AddrInv else AddrStck) 0) s2
                     (fun _ s3 => ncs s2 <= ncs s3)).
      { intros cc jm s2 Hn2 Hcc Hj. cbv iota beta.
        assert (Mono : forall a0 b0 (p : a0 <= b0) (l0 : list Z), Forall (fun z => 0 <= z < a0) l0 -> Forall (fun z => 0 <= z < b0) l0).
        { intros a0 b0 p l0 F. eapply Forall_impl; [|exact F]. intros z Hz. cbn in Hz. lia. }
        sstep. sstep. sstep.
        eapply safe_weaken; [apply for_go2_safe; exact Hv|]. intros aa s3 G3. cbn beta.
        repeat (first [sstep | use_ihb Hb]);
          (eapply safe_weaken; [apply for_go3_safe; cbn [ncs] in *; eapply Mono; [|exact Hj]; lia|];
           intros u s' Hg'; cbn [ncs] in *; repeat sstep; fin). }
      repeat sstep;
        (eapply safe_weaken;
           [apply (for_go1_safe fl vars (CtxID fl) (Z.of_nat (List.length iters)) (Returning fl) Hv iters 0 _ [] _ Hx);
            try fin; constructor|];
         intros [cc jm] s2 (A & B & C); cbn [fst snd] in *;
         eapply safe_weaken; [apply (Rest cc jm s2); [fin|exact B|exact C]|]; intros u s' Hg'; fin).
  - 
      assert (Step : forall s1 (Q : Z -> cstate -> Prop) rest,
                0 <= ncs s1 ->
                (forall cc jm s2, ncs s1 <= ncs s2 -> 0 <= cc <= ncs s2 -> Forall (fun a => 0 <= a < ncs s2) jm ->
                                  safe (rest (cc, jm)) s2 Q) ->
                safe (cbind (for_go1 fl vars (CtxID fl) (Z.of_nat (List.length iters)) (Returning fl) iters 0 (ncs s1) []) rest) s1 Q).
      { intros s1 Q rest Hn1 Hrest. apply safe_bind.
        eapply safe_weaken; [apply (for_go1_safe fl vars _ _ _ Hv iters 0 (ncs s1) [] s1 Hx); try lia; constructor|].
        intros [cc jm] s2 (A & B & C). cbn [fst snd] in *. apply Hrest; assumption. }
      assert (Rest : forall cc jm s2, 0 <= ncs s2 -> 0 <= cc <= ncs s2 -> Forall (fun a => 0 <= a < ncs s2) jm ->
                safe (let '(ccontAddr, jmpAddrs) := (cc, jm) in
                      switchAddr <- here ;;
                      assignAddr <- for_go2 (CtxID fl) vars 0 0 ;;
                      (if negb (false) then emit (New POP) else cret tt) ;;;
                      b0 <- comp b 0 (withDiscard (false) (withCtx (CtxID fl + Z.of_nat (List.length vars)) (CtxID fl)
                                       (CtxID fl + Z.of_nat (List.length vars) - 1) (withInFor true (pass fl)))) ;;
                      (if negb (Src0 b0 =? AddrStck) && negb (Src0 b0 =? AddrInv) && negb (false)
                       then emit (Z.lor (New PUSH) b0) else cret tt) ;;;
                      (if (Src0 b0 =? AddrStck) && false then emit (New POP) else cret tt) ;;;
                      h <- here ;;
                      wj <- enc 0 AddrImm (switchAddr - h) ;;
                      emit (Z.lor (New JMP) wj) ;;;
                      for_go3 jmpAddrs ;;;
                      wcc <- enc 0 AddrImm (assignAddr - ccontAddr) ;;
                      patch ccontAddr wcc ;;;
                      enc srcsel (if false || Returning fl then AddrInv else AddrStck) 0) s2
                     (fun _ s3 => ncs s2 <= ncs s3)).
      { intros cc jm s2 Hn2 Hcc Hj. cbv iota beta.
        assert (Mono : forall a0 b0 (p : a0 <= b0) (l0 : list Z), Forall (fun z => 0 <= z < a0) l0 -> Forall (fun z => 0 <= z < b0) l0).
        { intros a0 b0 p l0 F. eapply Forall_impl; [|exact F]. intros z Hz. cbn in Hz. lia. }
        sstep. sstep. sstep.
        eapply safe_weaken; [apply for_go2_safe; exact Hv|]. intros aa s3 G3. cbn beta.
        repeat (first [sstep | use_ihb Hb]);
          (eapply safe_weaken; [apply for_go3_safe; cbn [ncs] in *; eapply Mono; [|exact Hj]; lia|];
           intros u s' Hg'; cbn [ncs] in *; repeat sstep; fin). }
      repeat sstep;
        (eapply safe_weaken;
           [apply (for_go1_safe fl vars (CtxID fl) (Z.of_nat (List.length iters)) (Returning fl) Hv iters 0 _ [] _ Hx);
            try fin; constructor|];
         intros [cc jm] s2 (A & B & C); cbn [fst snd] in *;
         eapply safe_weaken; [apply (Rest cc jm s2); [fin|exact B|exact C]|]; intros u s' Hg'; fin).
Qed.


(* ---------- every tree ---------- *)
Lemma nsize_list l : nsize (NList l) = S (lsize l). Proof. reflexivity. Qed.
Lemma nsize_block l : nsize (NBlock l) = S (lsize l). Proof. reflexivity. Qed.
Lemma nsize_call n l : nsize (NCall n l) = S (nsize n + lsize l). Proof. reflexivity. Qed.
Lemma nsize_for vs its b : nsize (NFor vs its b) = S (lsize vs + lsize its + nsize b). Proof. reflexivity. Qed.
Lemma nsize_fun ps b lc : nsize (NFunction ps b lc) = S (lsize ps + nsize b). Proof. reflexivity. Qed.

Definition Both (n : node) : Prop :=
  (wfc n = true -> SafeN n) /\
  (forall l, n = NBlock l -> forallb wfc l = true ->
     forall srcsel fl s, 0 <= srcsel <= 1 -> 0 <= ncs s -> safe (comp n srcsel fl) s (fun _ s' => ncs s <= ncs s')).

Lemma body_of_both b : Both b -> wfb b = true -> SafeB b.
Proof.
  intros [H1 H2] W fl s Hn. destruct b; try (apply H1; [exact W|lia|exact Hn]).
  apply (H2 l eq_refl W 0 fl s); [lia|exact Hn].
Qed.

Theorem compiler_never_panics : forall N n, (nsize n <= N)%nat -> Both n.
Proof.
  induction N as [|N IH]; intros n HN; [destruct n; cbn in HN; lia|].
  assert (IHs : forall c, (nsize c < nsize n)%nat -> wfc c = true -> SafeN c).
  { intros c Hc W. apply (IH c); [lia|exact W]. }
  assert (IHb : forall c, (nsize c < nsize n)%nat -> wfb c = true -> SafeB c).
  { intros c Hc W. apply body_of_both; [apply IH; lia|exact W]. }
  assert (IHl : forall l, (lsize l < nsize n)%nat -> forallb wfc l = true -> forall x, In x l -> SafeN x).
  { intros l Hl W x Hx. rewrite forallb_forall in W. apply IHs; [pose proof (lsize_in x l Hx); lia|apply W, Hx]. }
  assert (IHc : forall c, (nsize c < nsize n)%nat -> wfc c = true -> SafeC c).
  { intros c Hc W sel fl s Hs Hn.
    destruct c; try (apply (IHs _ Hc W); assumption).
    destruct (String.eqb op "!") eqn:E; [|apply (IHs _ Hc W); assumption].
    cbn [wfc] in W. apply andb_prop in W. destruct W as [_ W]. apply IHs; [cbn in Hc |- *; lia|exact W|exact Hs|exact Hn]. }
  split.
  - intros W. destruct n; cbn [wfc] in W; try discriminate.
    + intros srcsel fl st Hs Hn. cbn [comp]. apply L_const, Hs.
    + intros srcsel fl st Hs Hn. cbn [comp]. apply L_const, Hs.
    + intros srcsel fl st Hs Hn. cbn [comp]. apply L_const, Hs.
    + intros srcsel fl st Hs Hn. cbn [comp]. apply L_const, Hs.
    + apply L_ref. reflexivity.
    + apply L_ref. reflexivity.
    + apply L_ref. reflexivity.
    + (* bin *)
      apply andb_prop in W. destruct W as [W W2]. apply andb_prop in W. destruct W as [W0 W1].
      apply L_bin; [destruct (binop_opcode op); [discriminate|discriminate]| |]; apply IHs; try assumption; cbn; lia.
    + apply andb_prop in W. destruct W as [W0 W1]. apply L_un; [exact W0|]. apply IHs; [cbn; lia|exact W1].
    + apply andb_prop in W. destruct W as [W0 W1]. apply L_index_at; apply IHs; try assumption; cbn; lia.
    + apply andb_prop in W. destruct W as [W W2]. apply andb_prop in W. destruct W as [W0 W1].
      apply L_index_ft; apply IHs; try assumption; cbn; lia.
    + apply andb_prop in W. destruct W as [W0 W1]. change (wfb n2 = true) in W1.
      apply L_if; [apply IHc; [cbn; lia|exact W0]|apply IHb; [cbn; lia|exact W1]].
    + apply andb_prop in W. destruct W as [W W2]. apply andb_prop in W. destruct W as [W0 W1].
      change (wfb n2 = true) in W1. change (wfb n3 = true) in W2.
      apply L_ifelse; [apply IHc; [cbn; lia|exact W0]|apply IHb; [cbn; lia|exact W1]|apply IHb; [cbn; lia|exact W2]].
    + apply andb_prop in W. destruct W as [W0 W1]. change (wfb n2 = true) in W1.
      apply L_while; [apply IHc; [cbn; lia|exact W0]|apply IHb; [cbn; lia|exact W1]].
    + (* for *)
      apply andb_prop in W. destruct W as [W W3]. apply andb_prop in W. destruct W as [W W2].
      apply andb_prop in W. destruct W as [W0 W1]. change (wfb n = true) in W3.
      apply L_for; [exact W0|exact W1|apply IHl; [rewrite nsize_for; lia|exact W2]|apply IHb; [rewrite nsize_for; lia|exact W3]].
    + apply L_return. apply IHs; [cbn; lia|exact W].
    + apply L_yield. apply IHs; [cbn; lia|exact W].
    + apply andb_prop in W. destruct W as [W0 W1]. apply L_assign; [exact W0|apply IHs; [cbn; lia|exact W1]].
    + apply L_list. apply IHl; [rewrite nsize_list; lia|exact W].
    + apply andb_prop in W. destruct W as [W0 W1]. apply L_call; [exact W0|apply IHl; [rewrite nsize_call; lia|exact W1]].
    + change (wfb n = true) in W. apply L_function. apply IHb; [rewrite nsize_fun; lia|exact W].
    + apply L_read.
    + apply L_write. apply IHs; [cbn; lia|exact W].
    + apply L_aton. apply IHs; [cbn; lia|exact W].
    + apply L_toa. apply IHs; [cbn; lia|exact W].
    + apply L_exit. apply IHs; [cbn; lia|exact W].
  - intros l -> W srcsel fl s Hs Hn. apply L_block; [|exact Hs|exact Hn]. apply IHl; [rewrite nsize_block; lia|exact W].
Qed.

(* the entry points: no tree that satisfies wfc / wfb makes the compiler panic *)
Theorem bytecode_never_aborts : forall n s, wfb n = true -> 0 <= ncs s ->
  (forall w, ByteCode n s <> CompAbort w) /\ (forall w, ByteCodeNoStck n s <> CompAbort w).
Proof.
  intros n s W Hn.
  pose proof (body_of_both n (compiler_never_panics (nsize n) n (le_n _)) W) as HB.
  split; intros w.
  - unfold ByteCode, cbind.
    pose proof (HB (pass fl0) s Hn) as H. unfold safe in H.
    destruct (comp n 0 (pass fl0) s) as [[i s']| |w'] eqn:E; try discriminate; [|contradiction].
    destruct (negb (Src0 i =? AddrStck)); cbn; discriminate.
  - unfold ByteCodeNoStck, cbind.
    pose proof (HB (withDiscard true (pass fl0)) s Hn) as H. unfold safe in H.
    destruct (comp n 0 (withDiscard true (pass fl0)) s) as [[i s']| |w'] eqn:E; try discriminate; [|contradiction].
    destruct (Src0 i =? AddrStck); cbn; discriminate.
Qed.
