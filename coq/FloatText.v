(* FloatText.v — the text form of floats: fmt.Sprint(float64) (shortest
   round-trip digits, %g layout with the 'shortest' exponent threshold) and
   strconv.ParseFloat for decimal syntax (correctly rounded).  Exact integer
   arithmetic throughout; validated against Go by the correspondence runs. *)
Require Import Calc.Base.
From Coq Require Import SpecFloat.
Open Scope Z_scope.

(* ---------- shortest digits (free-format Steele-White / dragon4) ---------- *)

(* scale up: find k with high < 10^k *)
Fixpoint scale_up (fuel : nat) (even : bool) (R S Mp : Z) (k : Z) : Z * Z :=
  match fuel with
  | O => (S, k)
  | Datatypes.S n =>
      if (if even then R + Mp >=? S else R + Mp >? S)
      then scale_up n even R (S * 10) Mp (k + 1)
      else (S, k)
  end.

Fixpoint scale_down (fuel : nat) (even : bool) (R S Mp Mm : Z) (k : Z) : Z * Z * Z * Z :=
  match fuel with
  | O => (R, Mp, Mm, k)
  | Datatypes.S n =>
      if (if even then (R + Mp) * 10 <? S else (R + Mp) * 10 <=? S)
      then scale_down n even (R * 10) S (Mp * 10) (Mm * 10) (k - 1)
      else (R, Mp, Mm, k)
  end.

Fixpoint gen_digits (fuel : nat) (even : bool) (R S Mp Mm : Z) : list Z :=
  match fuel with
  | O => []
  | Datatypes.S n =>
      let d := (R * 10) / S in
      let R' := (R * 10) mod S in
      let Mp' := Mp * 10 in
      let Mm' := Mm * 10 in
      let tc1 := if even then R' <=? Mm' else R' <? Mm' in
      let tc2 := if even then R' + Mp' >=? S else R' + Mp' >? S in
      if negb tc1 && negb tc2 then d :: gen_digits n even R' S Mp' Mm'
      else if tc1 && negb tc2 then [d]
      else if negb tc1 && tc2 then [d + 1]
      else if 2 * R' <? S then [d]
      else if 2 * R' >? S then [d + 1]
      else if Z.odd d then [d + 1] else [d]
  end.

(* propagate a carry of 10 in the last digit (d+1 may be 10) *)
Fixpoint fix_carry (ds : list Z) : list Z * bool :=
  match ds with
  | [] => ([], false)
  | d :: r =>
      let (r', c) := fix_carry r in
      let d' := if c then d + 1 else d in
      match r with
      | [] => if d =? 10 then ([0], true) else ([d], false)
      | _ => if d' =? 10 then (0 :: r', true) else (d' :: r', false)
      end
  end.

Fixpoint strip_trailing_zeros (ds : list Z) : list Z :=
  match ds with
  | [] => []
  | d :: r =>
      match strip_trailing_zeros r with
      | [] => if d =? 0 then [] else [d]
      | r' => d :: r'
      end
  end.

(* value = m * 2^e, m > 0.  Result: digits d1..dn and dp with value = 0.d1..dn * 10^dp *)
Definition shortest_digits (m e : Z) : list Z * Z :=
  let even := Z.even m in
  let boundary := (m =? 4503599627370496) && (e >? -1074) in
  let R0 := if e >=? 0 then m * 2 ^ e * 2 else m * 2 in
  let S0 := if e >=? 0 then 2 else 2 ^ (- e) * 2 in
  let M0 := if e >=? 0 then 2 ^ e else 1 in
  let R := if boundary then R0 * 2 else R0 in
  let S := if boundary then S0 * 2 else S0 in
  let Mp := if boundary then M0 * 2 else M0 in
  let Mm := M0 in
  let '(S1, k1) := scale_up 400 even R S Mp 0 in
  let '(R2, Mp2, Mm2, k2) := scale_down 400 even R S1 Mp Mm k1 in
  let ds := gen_digits 25 even R2 S1 Mp2 Mm2 in
  let (ds', c) := fix_carry ds in
  let ds'' := if c then 1 :: ds' else ds' in
  (strip_trailing_zeros ds'', if c then k2 + 1 else k2).

Definition digit_char (d : Z) : string := sb [48 + d].
Fixpoint digits_string (ds : list Z) : string :=
  match ds with [] => "" | d :: r => digit_char d +++ digits_string r end.

Fixpoint zeros (n : nat) : string := match n with O => "" | S k => "0" +++ zeros k end.

(* %e with all digits: d.ddde±XX *)
Definition fmt_e (ds : list Z) (dp : Z) : string :=
  let first := match ds with [] => "0" | d :: _ => digit_char d end in
  let rest := match ds with [] => "" | _ :: r => digits_string r end in
  let x := dp - 1 in
  let ax := Z.abs x in
  first +++ (if String.eqb rest "" then "" else "." +++ rest)
        +++ "e" +++ (if x <? 0 then "-" else "+")
        +++ (if ax <? 10 then "0" +++ itoa ax else itoa ax).

(* %f with max(nd-dp,0) decimals *)
Definition fmt_f (ds : list Z) (dp : Z) : string :=
  let nd := Z.of_nat (List.length ds) in
  let ipart :=
    if dp >? 0 then
      digits_string (firstn (Z.to_nat dp) ds) +++ zeros (Z.to_nat (dp - nd))
    else "0" in
  let prec := Z.max (nd - dp) 0 in
  let frac :=
    if prec >? 0 then
      "." +++ (if dp <? 0 then zeros (Z.to_nat (- dp)) +++ digits_string ds
               else digits_string (skipn (Z.to_nat dp) ds))
    else "" in
  ipart +++ frac.

Definition fmt_float (f : float) : string :=
  match Prim2SF f with
  | S754_nan => "NaN"
  | S754_infinity s => if s then "-Inf" else "+Inf"
  | S754_zero s => if s then "-0" else "0"
  | S754_finite s m e =>
      let (ds, dp) := shortest_digits (Zpos m) e in
      let x := dp - 1 in
      let body := if (x <? -4) || (x >=? 6) then fmt_e ds dp else fmt_f ds dp in
      if s then "-" +++ body else body
  end.

(* ---------- ParseFloat, decimal syntax ---------- *)

Definition is_digit (c : Z) : bool := (48 <=? c) && (c <=? 57).

(* read digits; returns (value, count, rest) *)
Fixpoint read_digits (l : list Z) (acc cnt : Z) : Z * Z * list Z :=
  match l with
  | c :: r => if is_digit c then read_digits r (acc * 10 + (c - 48)) (cnt + 1) else (acc, cnt, l)
  | [] => (acc, cnt, [])
  end.

Definition lower (c : Z) : Z := if (65 <=? c) && (c <=? 90) then c + 32 else c.

Definition list_eqb (a b : list Z) : bool :=
  (Nat.eqb (List.length a) (List.length b)) && forallb (fun p => fst p =? snd p) (combine a b).

(* correctly rounded binary64 of N/D (N, D > 0); None on overflow *)
Definition round_ratio (N D : Z) : option float :=
  let s0 := Z.log2 N - Z.log2 D - 52 in
  let q_of s := if s >=? 0 then N / (D * 2 ^ s) else (N * 2 ^ (- s)) / D in
  let s1 := if q_of s0 <? 4503599627370496 then s0 - 1 else s0 in
  let s2 := if q_of s1 >=? 9007199254740992 then s1 + 1 else s1 in
  let s := Z.max s2 (-1074) in
  let qn := if s >=? 0 then N else N * 2 ^ (- s) in
  let qd := if s >=? 0 then D * 2 ^ s else D in
  let q := qn / qd in
  let r := qn mod qd in
  let q' := if 2 * r >? qd then q + 1 else if 2 * r =? qd then (if Z.odd q then q + 1 else q) else q in
  let (q'', s') := if q' =? 9007199254740992 then (4503599627370496, s + 1) else (q', s) in
  if (q'' >=? 4503599627370496) && (s' + 53 >? 1024) then None
  else Some (Z.ldexp (of_uint63 (Uint63.of_Z q'')) s').

Inductive pf_result := PFSyntax | PFRange | PFOk (f : float).

Definition parse_float (str : string) : pf_result :=
  let l := bytes_of str in
  let '(neg, l1) := match l with
                    | 43 :: r => (false, r)
                    | 45 :: r => (true, r)
                    | _ => (false, l)
                    end in
  let low := map lower l1 in
  let sgn (f : float) := if neg then (- f)%float else f in
  if list_eqb low (bytes_of "inf") || list_eqb low (bytes_of "infinity") then PFOk (sgn infinity)
  else if list_eqb low (bytes_of "nan") then PFOk nan
  else
    let '(ip, icnt, l2) := read_digits l1 0 0 in
    let '(fp, fcnt, l3) := match l2 with
                           | 46 :: r => read_digits r ip 0
                           | _ => (ip, 0, l2)
                           end in
    if icnt + fcnt =? 0 then PFSyntax
    else
      let '(ok, ex, l4) :=
        match l3 with
        | c :: r =>
            if lower c =? 101 then
              let '(eneg, r1) := match r with
                                 | 43 :: t => (false, t)
                                 | 45 :: t => (true, t)
                                 | _ => (false, r)
                                 end in
              let '(ev, ecnt, r2) := read_digits r1 0 0 in
              if ecnt =? 0 then (false, 0, r2) else (true, (if eneg then - ev else ev), r2)
            else (true, 0, l3)
        | [] => (true, 0, [])
        end in
      if negb ok then PFSyntax
      else match l4 with
           | _ :: _ => PFSyntax
           | [] =>
               let M := fp in
               let E := ex - fcnt in
               if M =? 0 then PFOk (sgn zero)
               else
                 let mag := Z.log2 M / 3 + E in   (* crude decimal magnitude *)
                 if mag >? 400 then PFRange
                 else if mag <? -500 then PFOk (sgn zero)
                 else
                   let N := if E >=? 0 then M * 10 ^ E else M in
                   let D := if E >=? 0 then 1 else 10 ^ (- E) in
                   match round_ratio N D with
                   | None => PFRange
                   | Some f => PFOk (sgn f)
                   end
           end.
