(* MemClosure.v — C18, the aliasing operations: capturing the top frame in a
   function value, copying a captured frame, the closure stack, reading a
   captured variable.  The Go algorithm G (whose captured frames are slices
   into a stack) shows on every legal history exactly what the specification A
   (where a captured frame refers to an activation) shows — for ALL sixteen
   operations of Mem18.v.  G's stale/dead flags play no part in the values the
   model computes; they mark the reads on which the real Go slices may differ
   from the model (findings K1, K2). *)
Require Import Calc.Base Calc.Bytecode Calc.Value Calc.FloatText Calc.Compile Calc.VM Calc.Mem18 Calc.MemRefine.
Require Import Lia.
Open Scope Z_scope.

(* ---------- forgetting the closure part ---------- *)
Definition noclos (m : mem) : mem :=
  {| m_sp := m_sp m; m_fp := m_fp m; m_clos := []; m_stack := m_stack m;
     m_serials := m_serials m; m_cap := m_cap m; m_gen := m_gen m |}.

Definition noclos_a (m : amem) : amem := {| am_base := am_base m; am_acts := am_acts m; am_clos := [] |}.

Definition map_snd {A B} (f : A -> B) (l : list (Z * A)) : list (Z * B) := map (fun p => (fst p, f (snd p))) l.

Lemma assoc_get_map_snd {A B} (f : A -> B) l k : assoc_get (map_snd f l) k = option_map f (assoc_get l k).
Proof.
  unfold map_snd. induction l as [|[k' a] r IH]; cbn [map assoc_get fst snd]; [reflexivity|].
  destruct (k' =? k); [reflexivity|exact IH].
Qed.

Lemma assoc_set_map_snd {A B} (f : A -> B) l k a : map_snd f (assoc_set l k a) = assoc_set (map_snd f l) k (f a).
Proof.
  unfold map_snd. induction l as [|[k' b] r IH]; cbn [map assoc_set fst snd]; [reflexivity|].
  destruct (k' =? k); cbn [map fst snd]; [reflexivity|]. rewrite IH. reflexivity.
Qed.

Definition strip_g (w : gworld) : gworld :=
  {| gw_mems := map_snd noclos (gw_mems w); gw_handles := []; gw_globals := gw_globals w;
     gw_next_mem := gw_next_mem w; gw_serial := gw_serial w; gw_stale := false; gw_dead := false |}.

Definition strip_a (w : aworld) : aworld :=
  {| aw_mems := map_snd noclos_a (aw_mems w); aw_handles := []; aw_globals := aw_globals w;
     aw_next_mem := aw_next_mem w; aw_serial := aw_serial w |}.

(* the memory functions do not look at the closure stack *)
Lemma growStack_noclos m n : growStack (noclos m) n = (noclos (fst (growStack m n)), snd (growStack m n)).
Proof. unfold growStack, noclos; cbn. destruct (m_sp m + n >=? zlen (m_stack m)); reflexivity. Qed.

Lemma growStack_clos m n : m_clos (fst (growStack m n)) = m_clos m.
Proof. unfold growStack. destruct (m_sp m + n >=? zlen (m_stack m)); reflexivity. Qed.

Definition omap {A B} (f : A -> B) (o : outcome A) : outcome B :=
  match o with Good a => Good (f a) | Abort w => Abort w end.

Lemma mPush_noclos m v : mPush (noclos m) v = omap (fun r => (noclos (fst r), snd r)) (mPush m v).
Proof.
  unfold mPush. rewrite growStack_noclos. destruct (growStack m 1) as [m1 g]. cbn [fst snd].
  unfold stack_set, noclos; cbn. destruct ((m_sp m1 <? 0) || (m_sp m1 >=? zlen (m_stack m1))); reflexivity.
Qed.

Lemma mPush_clos m v r : mPush m v = Good r -> m_clos (fst r) = m_clos m.
Proof.
  unfold mPush. pose proof (growStack_clos m 1) as E. destruct (growStack m 1) as [m1 g]. cbn [fst] in E.
  unfold stack_set. destruct ((m_sp m1 <? 0) || (m_sp m1 >=? zlen (m_stack m1))); cbn; [discriminate|].
  intros H. inversion H. cbn. exact E.
Qed.

Lemma mPop_noclos m : mPop (noclos m) = omap (fun r => (noclos (fst r), snd r)) (mPop m).
Proof. unfold mPop, stack_get, noclos; cbn. destruct (znth (m_stack m) (m_sp m - 1)); reflexivity. Qed.

Lemma mPop_clos m r : mPop m = Good r -> m_clos (fst r) = m_clos m.
Proof. unfold mPop, stack_get. destruct (znth (m_stack m) (m_sp m - 1)); cbn; [|discriminate]. intros H. inversion H. reflexivity. Qed.

Lemma mPushFrame_noclos m a l s :
  mPushFrame (noclos m) a l s = omap (fun r => (noclos (fst r), snd r)) (mPushFrame m a l s).
Proof.
  unfold mPushFrame. rewrite growStack_noclos. destruct (growStack m (l - a)) as [m1 g]. cbn [fst snd].
  unfold noclos; cbn. destruct ((l - a >? 0) && (m_sp m1 + (l - a) >? zlen (m_stack m1))); reflexivity.
Qed.

Lemma mPushFrame_facts m a l s r : mPushFrame m a l s = Good r ->
  m_clos (fst r) = m_clos m /\ m_serials (fst r) = m_serials m ++ [s] /\
  exists x y, m_fp (fst r) = m_fp m ++ [x; y].
Proof.
  unfold mPushFrame. pose proof (growStack_app m (l - a)) as G.
  destruct (growStack m (l - a)) as [m1 g]. cbn [fst] in G.
  destruct ((l - a >? 0) && (m_sp m1 + (l - a) >? zlen (m_stack m1))); [discriminate|].
  intros H. inversion H. cbn. destruct G as (extra & _ & _ & Gfp & Gcl & Gser). rewrite Gcl, Gfp, Gser. eauto.
Qed.

Lemma mPopFrame_noclos m : mPopFrame (noclos m) = omap noclos (mPopFrame m).
Proof. unfold mPopFrame, fp_at, noclos; cbn. destruct (znth (m_fp m) (zlen (m_fp m) + -2)); reflexivity. Qed.

Lemma mPopFrame_facts m m' : mPopFrame m = Good m' ->
  m_clos m' = m_clos m /\ m_serials m' = drop_last 1 (m_serials m) /\ m_fp m' = drop_last 2 (m_fp m).
Proof.
  unfold mPopFrame, fp_at. destruct (znth (m_fp m) (zlen (m_fp m) + -2)); cbn; [|discriminate].
  intros H. inversion H. cbn. auto.
Qed.

Lemma mSet_noclos m i v : mSet (noclos m) i v = omap noclos (mSet m i v).
Proof.
  unfold mSet, fp_at, stack_set, noclos; cbn. destruct (znth (m_fp m) (zlen (m_fp m) + -2)) as [fp|]; cbn; [|reflexivity].
  destruct ((fp + i <? 0) || (fp + i >=? zlen (m_stack m))); reflexivity.
Qed.

Lemma stack_set_facts m i v m' : stack_set m i v = Good m' ->
  m_clos m' = m_clos m /\ m_serials m' = m_serials m /\ m_fp m' = m_fp m.
Proof.
  unfold stack_set. destruct ((i <? 0) || (i >=? zlen (m_stack m))); [discriminate|]. intros H. inversion H. cbn. auto.
Qed.

Lemma mSet_facts m i v m' : mSet m i v = Good m' ->
  m_clos m' = m_clos m /\ m_serials m' = m_serials m /\ m_fp m' = m_fp m.
Proof.
  unfold mSet, fp_at. destruct (znth (m_fp m) (zlen (m_fp m) + -2)); cbn; [|discriminate]. apply stack_set_facts.
Qed.

Lemma stack_set_noclos m i v : stack_set (noclos m) i v = omap noclos (stack_set m i v).
Proof. unfold stack_set, noclos; cbn. destruct ((i <? 0) || (i >=? zlen (m_stack m))); reflexivity. Qed.

Lemma mLookUpLocal_noclos m i : mLookUpLocal (noclos m) i = mLookUpLocal m i.
Proof. reflexivity. Qed.

Lemma fp_at_noclos m k : fp_at (noclos m) k = fp_at m k. Proof. reflexivity. Qed.
Lemma stack_get_noclos m i : stack_get (noclos m) i = stack_get m i. Proof. reflexivity. Qed.

Lemma mClone_noclos m s : mClone (noclos m) s = omap noclos (mClone m s).
Proof.
  unfold mClone, fp_at, noclos; cbn. destruct (zlen (m_fp m) <? 2); [reflexivity|].
  destruct (znth (m_fp m) (zlen (m_fp m) + -2)) as [fp|]; cbn; [|reflexivity].
  destruct (znth (m_fp m) (zlen (m_fp m) + -1)) as [le|]; cbn; [|reflexivity].
  destruct ((fp <? 0) || (m_sp m <? fp) || (m_sp m >? zlen (m_stack m))); reflexivity.
Qed.

Lemma mCloneReuse_noclos m r s : mCloneReuse (noclos m) (noclos r) s = omap noclos (mCloneReuse m r s).
Proof.
  unfold mCloneReuse, fp_at, noclos; cbn. destruct (zlen (m_fp m) <? 2); [reflexivity|].
  destruct (znth (m_fp m) (zlen (m_fp m) + -2)) as [fp|]; cbn; [|reflexivity].
  destruct (znth (m_fp m) (zlen (m_fp m) + -1)) as [le|]; cbn; [|reflexivity].
  destruct ((fp <? 0) || (m_sp m <? fp) || (m_sp m >? zlen (m_stack m))); reflexivity.
Qed.

(* ---------- the core operations commute with forgetting closures ---------- *)
Lemma strip_gset w mid m : strip_g (gset w mid m) = gset (strip_g w) mid (noclos m).
Proof. unfold strip_g, gset; cbn [gw_mems gw_handles gw_globals gw_next_mem gw_serial gw_stale gw_dead]. rewrite assoc_set_map_snd. reflexivity. Qed.

Lemma strip_aset w mid m : strip_a (aset w mid m) = aset (strip_a w) mid (noclos_a m).
Proof. unfold strip_a, aset; cbn [aw_mems aw_handles aw_globals aw_next_mem aw_serial]. rewrite assoc_set_map_snd. reflexivity. Qed.

Lemma g_step_strip gw o : core_op o = true ->
  g_step (strip_g gw) o = (strip_g (fst (g_step gw o)), snd (g_step gw o)).
Proof.
  intros Hc. destruct o; try discriminate Hc; unfold g_step; cbn [gw_mems strip_g];
    rewrite ?assoc_get_map_snd.
  - (* push *) destruct (assoc_get (gw_mems gw) m) as [gm|]; cbn [option_map req obind]; [|reflexivity].
    rewrite mPush_noclos. destruct (mPush gm v) as [[m' g]|w]; cbn [omap obind fst snd]; [|reflexivity].
    rewrite strip_gset. reflexivity.
  - (* pop *) destruct (assoc_get (gw_mems gw) m) as [gm|]; cbn [option_map req obind]; [|reflexivity].
    rewrite mPop_noclos. destruct (mPop gm) as [[m' x]|w]; cbn [omap obind fst snd]; [|reflexivity].
    rewrite strip_gset. reflexivity.
  - (* push frame *) destruct (assoc_get (gw_mems gw) m) as [gm|]; cbn [option_map req obind]; [|reflexivity].
    change (gw_serial (strip_g gw)) with (gw_serial gw).
    rewrite mPushFrame_noclos. destruct (mPushFrame gm a l (gw_serial gw)) as [[m' g]|w]; cbn [omap obind fst snd]; [|reflexivity].
    unfold strip_g, gset; cbn [gw_mems gw_handles gw_globals gw_next_mem gw_serial gw_stale gw_dead]. rewrite assoc_set_map_snd. reflexivity.
  - (* pop frame *) destruct (assoc_get (gw_mems gw) m) as [gm|]; cbn [option_map req obind]; [|reflexivity].
    rewrite mPopFrame_noclos. destruct (mPopFrame gm) as [m'|w]; cbn [omap obind fst snd]; [|reflexivity].
    rewrite strip_gset. reflexivity.
  - (* set *) destruct (assoc_get (gw_mems gw) m) as [gm|]; cbn [option_map req obind]; [|reflexivity].
    rewrite mSet_noclos. destruct (mSet gm i v) as [m'|w]; cbn [omap obind fst snd]; [|reflexivity].
    rewrite strip_gset. reflexivity.
  - (* local *) destruct (assoc_get (gw_mems gw) m) as [gm|]; cbn [option_map req obind]; [|reflexivity].
    rewrite mLookUpLocal_noclos. destruct (mLookUpLocal gm i) as [x|w]; reflexivity.
  - (* set global *) reflexivity.
  - (* global *) reflexivity.
  - (* clone *) destruct (assoc_get (gw_mems gw) m) as [gm|]; cbn [option_map req obind]; [|reflexivity].
    destruct reuse as [rid|].
    + rewrite assoc_get_map_snd. destruct (assoc_get (gw_mems gw) rid) as [gr|]; cbn [option_map req obind]; [|reflexivity].
      change (gw_serial (strip_g gw)) with (gw_serial gw).
      rewrite mCloneReuse_noclos. destruct (mCloneReuse gm gr (gw_serial gw)) as [c|w]; cbn [omap obind fst snd]; [|reflexivity].
      unfold strip_g; cbn [gw_mems gw_handles gw_globals gw_next_mem gw_serial gw_stale gw_dead]. rewrite assoc_set_map_snd. reflexivity.
    + change (gw_serial (strip_g gw)) with (gw_serial gw).
      rewrite mClone_noclos. destruct (mClone gm (gw_serial gw)) as [c|w]; cbn [omap obind fst snd]; [|reflexivity].
      unfold strip_g; cbn [gw_mems gw_handles gw_globals gw_next_mem gw_serial gw_stale gw_dead]. rewrite assoc_set_map_snd. reflexivity.
  - (* ip get *) destruct (assoc_get (gw_mems gw) m) as [gm|]; cbn [option_map req obind]; [|reflexivity].
    rewrite fp_at_noclos. destruct (fp_at gm (-1)) as [le|w]; cbn [obind]; [|reflexivity].
    rewrite stack_get_noclos. destruct (stack_get gm le) as [x|w]; reflexivity.
  - (* ip set *) destruct (assoc_get (gw_mems gw) m) as [gm|]; cbn [option_map req obind]; [|reflexivity].
    rewrite fp_at_noclos. destruct (fp_at gm (-1)) as [le|w]; cbn [obind]; [|reflexivity].
    rewrite stack_set_noclos. destruct (stack_set gm le v) as [m'|w]; cbn [omap obind fst snd]; [|reflexivity].
    rewrite strip_gset. reflexivity.
Qed.

Lemma a_ops_noclos m : a_ops (noclos_a m) = a_ops m. Proof. reflexivity. Qed.

Lemma a_with_ops_noclos m ops : a_with_ops (noclos_a m) ops = noclos_a (a_with_ops m ops).
Proof. unfold a_with_ops, noclos_a; cbn [am_acts am_base am_clos]. destruct (last_opt (am_acts m)); reflexivity. Qed.

Lemma a_with_locals_noclos m a ls : a_with_locals (noclos_a m) a ls = noclos_a (a_with_locals m a ls).
Proof. reflexivity. Qed.

Lemma a_step_strip aw o : core_op o = true ->
  a_step (strip_a aw) o = (strip_a (fst (a_step aw o)), snd (a_step aw o)).
Proof.
  intros Hc. destruct o; try discriminate Hc; unfold a_step; cbn [aw_mems strip_a];
    rewrite ?assoc_get_map_snd.
  - destruct (assoc_get (aw_mems aw) m) as [am|]; cbn [option_map opt_obs fst snd]; [|reflexivity].
    rewrite a_ops_noclos, a_with_ops_noclos, strip_aset. reflexivity.
  - destruct (assoc_get (aw_mems aw) m) as [am|]; cbn [option_map opt_obs fst snd]; [|reflexivity].
    rewrite a_ops_noclos. destruct (last_opt (a_ops am)); cbn [opt_obs fst snd]; [|reflexivity].
    rewrite a_with_ops_noclos, strip_aset. reflexivity.
  - destruct (assoc_get (aw_mems aw) m) as [am|]; cbn [option_map opt_obs fst snd]; [|reflexivity].
    rewrite a_ops_noclos. destruct ((a <? 0) || (l <? a) || (zlen (a_ops am) <? a)); cbn [opt_obs fst snd]; [reflexivity|].
    rewrite a_with_ops_noclos. unfold strip_a, aset; cbn [aw_mems aw_handles aw_globals aw_next_mem aw_serial].
    rewrite assoc_set_map_snd. reflexivity.
  - destruct (assoc_get (aw_mems aw) m) as [am|]; cbn [option_map opt_obs fst snd]; [|reflexivity].
    cbn [noclos_a am_acts]. destruct (am_acts am); cbn [opt_obs fst snd]; [reflexivity|].
    rewrite strip_aset. reflexivity.
  - destruct (assoc_get (aw_mems aw) m) as [am|]; cbn [option_map opt_obs fst snd]; [|reflexivity].
    cbn [noclos_a am_acts]. destruct (last_opt (am_acts am)) as [a|]; cbn [opt_obs fst snd]; [|reflexivity].
    destruct ((0 <=? i) && (i <? zlen (aa_locals a))); cbn [opt_obs fst snd]; [|reflexivity].
    change {| am_base := am_base am; am_acts := am_acts am; am_clos := [] |} with (noclos_a am).
    rewrite a_with_locals_noclos, strip_aset. reflexivity.
  - destruct (assoc_get (aw_mems aw) m) as [am|]; cbn [option_map opt_obs fst snd]; [|reflexivity].
    cbn [noclos_a am_acts]. destruct (last_opt (am_acts am)) as [a|]; cbn [opt_obs fst snd]; [|reflexivity].
    destruct (znth (aa_locals a) i); reflexivity.
  - reflexivity.
  - reflexivity.
  - destruct (assoc_get (aw_mems aw) m) as [am|]; cbn [option_map opt_obs fst snd]; [|reflexivity].
    cbn [noclos_a am_acts am_clos last_opt]. 
    destruct reuse as [rid|].
    + rewrite assoc_get_map_snd. destruct (assoc_get (aw_mems aw) rid) as [ar|]; cbn [option_map opt_obs fst snd]; [|reflexivity].
      destruct (rid =? m); cbn [opt_obs fst snd]; [reflexivity|].
      unfold strip_a; cbn [aw_mems aw_handles aw_globals aw_next_mem aw_serial]. rewrite assoc_set_map_snd. reflexivity.
    + cbn [opt_obs fst snd]. unfold strip_a; cbn [aw_mems aw_handles aw_globals aw_next_mem aw_serial]. rewrite assoc_set_map_snd. reflexivity.
  - destruct (assoc_get (aw_mems aw) m) as [am|]; cbn [option_map opt_obs fst snd]; [|reflexivity].
    cbn [noclos_a am_acts]. destruct (last_opt (am_acts am)) as [a|]; cbn [opt_obs fst snd]; [|reflexivity].
    destruct (aa_ops a); reflexivity.
  - destruct (assoc_get (aw_mems aw) m) as [am|]; cbn [option_map opt_obs fst snd]; [|reflexivity].
    cbn [noclos_a am_acts]. destruct (last_opt (am_acts am)) as [a|]; cbn [opt_obs fst snd]; [|reflexivity].
    destruct (aa_ops a); cbn [opt_obs fst snd]; [reflexivity|].
    change {| am_base := am_base am; am_acts := am_acts am; am_clos := [] |} with (noclos_a am).
    rewrite a_with_ops_noclos, strip_aset. reflexivity.
Qed.

(* ---------- where an activation's variables lie in the Go stack ---------- *)
Fixpoint geo_l (sers fp : list Z) (ser : Z) : option (Z * Z) :=
  match sers, fp with
  | s :: sr, a :: b :: fr => if s =? ser then Some (a, b - a) else geo_l sr fr ser
  | _, _ => None
  end.

Lemma geo_l_app_old : forall sers fp s x y ser r,
  List.length fp = (2 * List.length sers)%nat ->
  geo_l (sers ++ [s]) (fp ++ [x; y]) ser = Some r -> ser <> s -> geo_l sers fp ser = Some r.
Proof.
  induction sers as [|s0 sers IH]; intros fp s x y ser r Hl H Hne.
  - destruct fp; [|cbn in Hl; lia]. cbn in H. destruct (Z.eqb_spec s ser); [congruence|discriminate].
  - destruct fp as [|a [|b fr]]; try (cbn in Hl; lia). cbn [app geo_l] in H |- *.
    destruct (s0 =? ser); [exact H|]. apply (IH fr s x y ser r); [cbn in Hl; lia|exact H|exact Hne].
Qed.

Lemma geo_l_prefix : forall sers fp sers' fp' ser r,
  List.length fp = (2 * List.length sers)%nat ->
  geo_l sers fp ser = Some r -> geo_l (sers ++ sers') (fp ++ fp') ser = Some r.
Proof.
  induction sers as [|s0 sers IH]; intros fp sers' fp' ser r Hl H; [discriminate H|].
  destruct fp as [|a [|b fr]]; try (cbn in Hl; lia). cbn [app geo_l] in H |- *.
  destruct (s0 =? ser); [exact H|]. apply IH; [cbn in Hl; lia|exact H].
Qed.

Lemma geo_l_last : forall sers fp s x y,
  List.length fp = (2 * List.length sers)%nat -> ~ In s sers ->
  geo_l (sers ++ [s]) (fp ++ [x; y]) s = Some (x, y - x).
Proof.
  induction sers as [|s0 sers IH]; intros fp s x y Hl Hn.
  - destruct fp; [|cbn in Hl; lia]. cbn. rewrite Z.eqb_refl. reflexivity.
  - destruct fp as [|a [|b fr]]; try (cbn in Hl; lia). cbn [app geo_l].
    destruct (Z.eqb_spec s0 s) as [->|_]; [exfalso; apply Hn; left; reflexivity|].
    apply IH; [cbn in Hl; lia|]. intros Hi. apply Hn. right. exact Hi.
Qed.

Lemma geo_l_in : forall sers fp ser r, geo_l sers fp ser = Some r -> In ser sers.
Proof.
  induction sers as [|s0 sers IH]; intros fp ser r H; [discriminate H|].
  destruct fp as [|a [|b fr]]; try discriminate H. cbn [geo_l] in H.
  destruct (Z.eqb_spec s0 ser) as [->|_]; [left; reflexivity|right; exact (IH _ _ _ H)].
Qed.

Lemma drop_last_app_len {A} (l : list A) n : exists t, l = drop_last n l ++ t /\ List.length t = Nat.min n (List.length l).
Proof.
  unfold drop_last. exists (skipn (List.length l - n) l). split; [symmetry; apply firstn_skipn|].
  rewrite skipn_length. lia.
Qed.

(* reading an activation's variable out of the flat stack *)
Lemma geo_flat : forall acts start pre junk ser a,
  start = zlen pre ->
  find (fun x => aa_serial x =? ser) acts = Some a ->
  exists p, geo_l (map aa_serial acts) (fps start acts) ser = Some (p, zlen (aa_locals a)) /\
    forall ix, 0 <= ix < zlen (aa_locals a) -> znth (pre ++ flat_acts acts ++ junk) (p + ix) = znth (aa_locals a) ix.
Proof.
  induction acts as [|b acts IH]; intros start pre junk ser a Hs Hf; [discriminate Hf|].
  cbn [find map fps geo_l] in *. destruct (aa_serial b =? ser) eqn:E.
  - injection Hf as <-. exists start. split; [f_equal; f_equal; lia|].
    intros ix Hix. rewrite flat_acts_cons. unfold act_cells. rewrite Hs.
    rewrite znth_app_r by lia. replace (zlen pre + ix - zlen pre) with ix by lia.
    rewrite <- !app_assoc. apply znth_app_l. exact Hix.
  - destruct (IH (start + zlen (act_cells b)) (pre ++ act_cells b) junk ser a) as [p [Hg Hr]].
    + rewrite zlen_app. lia.
    + exact Hf.
    + exists p. split; [exact Hg|]. intros ix Hix. rewrite flat_acts_cons. rewrite <- (Hr ix Hix).
      rewrite <- !app_assoc. reflexivity.
Qed.

(* ---------- what a core operation does to the frame bookkeeping of each memory ---------- *)
Require Import Calc.MemProofs.
Ltac conj := repeat match goal with |- _ /\ _ => split end.

Inductive mtrans (ser0 : Z) (bump : Prop) (gm gm' : mem) : Prop :=
| mt_same : m_serials gm' = m_serials gm -> m_fp gm' = m_fp gm -> mtrans ser0 bump gm gm'
| mt_push : bump -> m_serials gm' = m_serials gm ++ [ser0] -> (exists x y, m_fp gm' = m_fp gm ++ [x; y]) -> mtrans ser0 bump gm gm'
| mt_pop : m_serials gm' = drop_last 1 (m_serials gm) -> m_fp gm' = drop_last 2 (m_fp gm) -> mtrans ser0 bump gm gm'.

Definition copied_clos (gm : mem) : list framed := match last_opt (m_clos gm) with Some f => [f] | None => [] end.

(* bump: the serial counter advanced by one *)
Definition mem_after (gw : gworld) (bump : Prop) (mid : Z) (gm' : mem) : Prop :=
  (exists gm, assoc_get (gw_mems gw) mid = Some gm /\ m_clos gm' = m_clos gm /\ mtrans (gw_serial gw) bump gm gm') \/
  (bump /\ exists src gs, assoc_get (gw_mems gw) src = Some gs /\ m_clos gm' = copied_clos gs /\
                  ((m_serials gm' = [gw_serial gw] /\ exists x y, m_fp gm' = [x; y]) \/
                   (m_serials gm' = [] /\ m_fp gm' = []))).

Lemma growStack_ser m n : m_serials (fst (growStack m n)) = m_serials m /\ m_fp (fst (growStack m n)) = m_fp m.
Proof. destruct (growStack_app m n) as (e & _ & _ & F & _ & S). auto. Qed.

Lemma mPush_facts m v r : mPush m v = Good r ->
  m_clos (fst r) = m_clos m /\ m_serials (fst r) = m_serials m /\ m_fp (fst r) = m_fp m.
Proof.
  intros H. split; [exact (mPush_clos m v r H)|]. unfold mPush in H.
  pose proof (growStack_ser m 1) as [S F]. destruct (growStack m 1) as [m1 g]. cbn [fst] in S, F.
  unfold stack_set in H. destruct ((m_sp m1 <? 0) || (m_sp m1 >=? zlen (m_stack m1))); cbn in H; [discriminate|].
  inversion H. cbn. auto.
Qed.

Lemma mPop_facts m r : mPop m = Good r ->
  m_clos (fst r) = m_clos m /\ m_serials (fst r) = m_serials m /\ m_fp (fst r) = m_fp m.
Proof.
  unfold mPop, stack_get. destruct (znth (m_stack m) (m_sp m - 1)); cbn; [|discriminate]. intros H. inversion H. cbn. auto.
Qed.

Lemma mClone_facts m s c : mClone m s = Good c ->
  m_clos c = copied_clos m /\
  ((m_serials c = [s] /\ exists x y, m_fp c = [x; y]) \/ (m_serials c = [] /\ m_fp c = [])).
Proof.
  unfold mClone, copied_clos. destruct (zlen (m_fp m) <? 2).
  - intros H. inversion H. cbn. auto.
  - destruct (fp_at m (-2)) as [fp|]; cbn; [|discriminate]. destruct (fp_at m (-1)) as [le|]; cbn; [|discriminate].
    destruct ((fp <? 0) || (m_sp m <? fp) || (m_sp m >? zlen (m_stack m))); [discriminate|].
    intros H. inversion H. cbn. split; [reflexivity|]. left. eauto.
Qed.

Lemma mCloneReuse_facts m r s c : mCloneReuse m r s = Good c ->
  m_clos c = copied_clos m /\
  ((m_serials c = [s] /\ exists x y, m_fp c = [x; y]) \/ (m_serials c = [] /\ m_fp c = [])).
Proof.
  unfold mCloneReuse, copied_clos. destruct (zlen (m_fp m) <? 2).
  - intros H. inversion H. cbn. auto.
  - destruct (fp_at m (-2)) as [fp|]; cbn; [|discriminate]. destruct (fp_at m (-1)) as [le|]; cbn; [|discriminate].
    destruct ((fp <? 0) || (m_sp m <? fp) || (m_sp m >? zlen (m_stack m))); [discriminate|].
    intros H. inversion H. cbn. split; [reflexivity|]. left. eauto.
Qed.

Lemma same_after gw bump mid gm : assoc_get (gw_mems gw) mid = Some gm -> mem_after gw bump mid gm.
Proof. intros H. left. exists gm. split; [exact H|]. split; [reflexivity|]. apply mt_same; reflexivity. Qed.

Lemma set_after gw bump mid0 gm0 (gm1 : mem) mid gm' :
  assoc_get (gw_mems gw) mid0 = Some gm0 ->
  m_clos gm1 = m_clos gm0 -> mtrans (gw_serial gw) bump gm0 gm1 ->
  assoc_get (assoc_set (gw_mems gw) mid0 gm1) mid = Some gm' -> mem_after gw bump mid gm'.
Proof.
  intros H0 Hc Ht H. destruct (Z.eq_dec mid0 mid) as [->|NE].
  - rewrite assoc_get_set_same in H. injection H as <-. left. exists gm0. auto.
  - rewrite assoc_get_set_other in H by exact NE. apply same_after. exact H.
Qed.

Lemma core_mem_after gw o : core_op o = true ->
  let gw' := fst (g_step gw o) in
  gw_handles gw' = gw_handles gw /\ gw_serial gw <= gw_serial gw' /\
  (forall mid gm', assoc_get (gw_mems gw') mid = Some gm' ->
     mem_after gw (gw_serial gw' = gw_serial gw + 1) mid gm').
Proof.
  intros Hc. cbv zeta. destruct o; try discriminate Hc; unfold g_step.
  - destruct (assoc_get (gw_mems gw) m) as [gm|] eqn:E; cbn [req obind fst]; [|conj; auto; try lia; intros; apply same_after; assumption].
    destruct (mPush gm v) as [[m' g]|w] eqn:EP; cbn [obind fst snd]; [|conj; auto; try lia; intros; apply same_after; assumption].
    destruct (mPush_facts gm v _ EP) as (C & S & F). cbn [fst] in C, S, F.
    cbn [gset gw_handles gw_serial gw_mems fst]. conj; try reflexivity; try lia. intros mid gm' H.
    apply (set_after gw _ m gm m' mid gm' E C (mt_same _ _ _ _ S F) H).
  - destruct (assoc_get (gw_mems gw) m) as [gm|] eqn:E; cbn [req obind fst]; [|conj; auto; try lia; intros; apply same_after; assumption].
    destruct (mPop gm) as [[m' x]|w] eqn:EP; cbn [obind fst snd]; [|conj; auto; try lia; intros; apply same_after; assumption].
    destruct (mPop_facts gm _ EP) as (C & S & F). cbn [fst] in C, S, F.
    cbn [gset gw_handles gw_serial gw_mems fst]. conj; try reflexivity; try lia. intros mid gm' H.
    apply (set_after gw _ m gm m' mid gm' E C (mt_same _ _ _ _ S F) H).
  - destruct (assoc_get (gw_mems gw) m) as [gm|] eqn:E; cbn [req obind fst]; [|conj; auto; try lia; intros; apply same_after; assumption].
    destruct (mPushFrame gm a l (gw_serial gw)) as [[m' g]|w] eqn:EP; cbn [obind fst snd];
      [|conj; auto; try lia; intros; apply same_after; assumption].
    destruct (mPushFrame_facts gm a l _ _ EP) as (C & S & F). cbn [fst] in C, S, F.
    cbn [gset gw_handles gw_serial gw_mems fst]. conj; try reflexivity; try lia. intros mid gm' H.
    apply (set_after gw _ m gm m' mid gm' E C (mt_push _ _ _ _ eq_refl S F) H).
  - destruct (assoc_get (gw_mems gw) m) as [gm|] eqn:E; cbn [req obind fst]; [|conj; auto; try lia; intros; apply same_after; assumption].
    destruct (mPopFrame gm) as [m'|w] eqn:EP; cbn [obind fst snd]; [|conj; auto; try lia; intros; apply same_after; assumption].
    destruct (mPopFrame_facts gm _ EP) as (C & S & F).
    cbn [gset gw_handles gw_serial gw_mems fst]. conj; try reflexivity; try lia. intros mid gm' H.
    apply (set_after gw _ m gm m' mid gm' E C (mt_pop _ _ _ _ S F) H).
  - destruct (assoc_get (gw_mems gw) m) as [gm|] eqn:E; cbn [req obind fst]; [|conj; auto; try lia; intros; apply same_after; assumption].
    destruct (mSet gm i v) as [m'|w] eqn:EP; cbn [obind fst snd]; [|conj; auto; try lia; intros; apply same_after; assumption].
    destruct (mSet_facts gm i v _ EP) as (C & S & F).
    cbn [gset gw_handles gw_serial gw_mems fst]. conj; try reflexivity; try lia. intros mid gm' H.
    apply (set_after gw _ m gm m' mid gm' E C (mt_same _ _ _ _ S F) H).
  - destruct (assoc_get (gw_mems gw) m) as [gm|] eqn:E; cbn [req obind fst]; [|conj; auto; try lia; intros; apply same_after; assumption].
    destruct (mLookUpLocal gm i); cbn [obind fst]; conj; auto; try lia; intros; apply same_after; assumption.
  - cbn [fst gw_handles gw_serial gw_mems]. conj; auto; try lia. intros; apply same_after; assumption.
  - cbn [fst]. conj; auto; try lia. intros; apply same_after; assumption.
  - destruct (assoc_get (gw_mems gw) m) as [gm|] eqn:E; cbn [req obind fst]; [|conj; auto; try lia; intros; apply same_after; assumption].
    destruct reuse as [rid|].
    + destruct (assoc_get (gw_mems gw) rid) as [gr|] eqn:ER; cbn [req obind fst]; [|conj; auto; try lia; intros; apply same_after; assumption].
      destruct (mCloneReuse gm gr (gw_serial gw)) as [c|w] eqn:EC; cbn [obind fst snd];
        [|conj; auto; try lia; intros; apply same_after; assumption].
      destruct (mCloneReuse_facts gm gr _ _ EC) as (C & S).
      cbn [gset gw_handles gw_serial gw_mems fst]. conj; try reflexivity; try lia. intros mid gm' H.
      destruct (Z.eq_dec rid mid) as [->|NE].
      * rewrite assoc_get_set_same in H. injection H as <-. right. split; [reflexivity|]. exists m, gm. auto.
      * rewrite assoc_get_set_other in H by exact NE. apply same_after. exact H.
    + destruct (mClone gm (gw_serial gw)) as [c|w] eqn:EC; cbn [obind fst snd];
        [|conj; auto; try lia; intros; apply same_after; assumption].
      destruct (mClone_facts gm _ _ EC) as (C & S).
      cbn [gset gw_handles gw_serial gw_mems fst]. conj; try reflexivity; try lia. intros mid gm' H.
      destruct (Z.eq_dec (gw_next_mem gw) mid) as [<-|NE].
      * rewrite assoc_get_set_same in H. injection H as <-. right. split; [reflexivity|]. exists m, gm. auto.
      * rewrite assoc_get_set_other in H by exact NE. apply same_after. exact H.
  - destruct (assoc_get (gw_mems gw) m) as [gm|] eqn:E; cbn [req obind fst]; [|conj; auto; try lia; intros; apply same_after; assumption].
    destruct (fp_at gm (-1)) as [le|]; cbn [obind fst]; [|conj; auto; try lia; intros; apply same_after; assumption].
    destruct (stack_get gm le); cbn [obind fst]; conj; auto; try lia; intros; apply same_after; assumption.
  - destruct (assoc_get (gw_mems gw) m) as [gm|] eqn:E; cbn [req obind fst]; [|conj; auto; try lia; intros; apply same_after; assumption].
    destruct (fp_at gm (-1)) as [le|]; cbn [obind fst]; [|conj; auto; try lia; intros; apply same_after; assumption].
    destruct (stack_set gm le v) as [m'|w] eqn:EP; cbn [obind fst snd]; [|conj; auto; try lia; intros; apply same_after; assumption].
    destruct (stack_set_facts gm le v _ EP) as (C & S & F).
    cbn [gset gw_handles gw_serial gw_mems fst]. conj; try reflexivity; try lia. intros mid gm' H.
    apply (set_after gw _ m gm m' mid gm' E C (mt_same _ _ _ _ S F) H).
Qed.

(* ---------- the relation between G's frame values and A's ---------- *)
Definition Rf (gw : gworld) (gf : framed) (af : aframe) : Prop :=
  match gf, af with
  | FNone, ANone => True
  | FOwned vs, AOwn vs' => vs = vs'
  | FAlias mid ser base len gen, ARef mid' ser' =>
      mid = mid' /\ ser = ser' /\ ser < gw_serial gw /\
      forall gm p l, assoc_get (gw_mems gw) mid = Some gm ->
        geo_l (m_serials gm) (m_fp gm) ser = Some (p, l) -> p = base /\ l = len
  | _, _ => False
  end.

Definition ser_ok (gw : gworld) : Prop :=
  forall mid gm, assoc_get (gw_mems gw) mid = Some gm ->
    NoDup (m_serials gm) /\ Forall (fun s => s < gw_serial gw) (m_serials gm) /\
    List.length (m_fp gm) = (2 * List.length (m_serials gm))%nat.

Definition Rc (gw : gworld) (aw : aworld) : Prop :=
  Forall2 (Rf gw) (gw_handles gw) (aw_handles aw) /\
  (forall mid gm am, assoc_get (gw_mems gw) mid = Some gm -> assoc_get (aw_mems aw) mid = Some am ->
     Forall2 (Rf gw) (m_clos gm) (am_clos am)) /\
  ser_ok gw.

Definition RW (gw : gworld) (aw : aworld) : Prop := Rw (strip_g gw) (strip_a aw) /\ Rc gw aw.

Lemma drop_last_length {A} (l : list A) n : List.length (drop_last n l) = (List.length l - n)%nat.
Proof. unfold drop_last. rewrite firstn_length. lia. Qed.

Lemma drop_last_incl {A} (l : list A) n x : In x (drop_last n l) -> In x l.
Proof. unfold drop_last. intros H. rewrite <- (firstn_skipn (List.length l - n) l). apply in_or_app. left. exact H. Qed.

Lemma NoDup_firstn {A} (l : list A) n : NoDup l -> NoDup (firstn n l).
Proof.
  revert n. induction l as [|x l IH]; intros n H; [destruct n; constructor|].
  destruct n as [|n]; [constructor|]. cbn [firstn]. inversion H; subst. constructor; [|apply IH; assumption].
  intros Hin. apply H2. rewrite <- (firstn_skipn n l). apply in_or_app. left. exact Hin.
Qed.

(* a frame value keeps its meaning across a step that treats every memory as mem_after says *)
Lemma rf_after gw gw' gf af :
  ser_ok gw -> gw_serial gw <= gw_serial gw' ->
  (forall mid gm', assoc_get (gw_mems gw') mid = Some gm' ->
     mem_after gw (gw_serial gw' = gw_serial gw + 1) mid gm') ->
  Rf gw gf af -> Rf gw' gf af.
Proof.
  intros Hok Hser Hafter H. destruct gf as [|mid ser base len gen|vs]; destruct af as [|mid' ser'|vs']; try exact H.
  cbn [Rf] in *. destruct H as (-> & -> & Hlt & Hgeo). conj; try reflexivity; [lia|].
  intros gm' p l Hl Hg. destruct (Hafter _ _ Hl) as [(gm & Hold & _ & Ht)|(_ & src & gs & _ & _ & Hs)].
  - destruct (Hok _ _ Hold) as (_ & _ & Hlen).
    destruct Ht as [S F|_ S [x [y F]]|S F]; rewrite S, F in Hg.
    + exact (Hgeo gm p l Hold Hg).
    + apply (Hgeo gm p l Hold). apply (geo_l_app_old _ _ _ _ _ _ _ Hlen Hg). lia.
    + apply (Hgeo gm p l Hold).
      destruct (drop_last_app_len (m_serials gm) 1) as [ts [Es Ls]].
      destruct (drop_last_app_len (m_fp gm) 2) as [tf [Ef Lf]].
      rewrite Es, Ef. apply geo_l_prefix; [|exact Hg].
      rewrite !drop_last_length. lia.
  - exfalso. destruct Hs as [[S _]|[S _]]; rewrite S in Hg.
    + apply geo_l_in in Hg. destruct Hg as [E|[]]. lia.
    + discriminate Hg.
Qed.

Lemma NoDup_snoc {A} (l : list A) x : NoDup l -> ~ In x l -> NoDup (l ++ [x]).
Proof.
  intros Hn Hx. induction Hn as [|y l Hy Hl IH]; [constructor; [intros []|constructor]|].
  cbn [app]. constructor.
  - intros Hin. apply in_app_or in Hin. destruct Hin as [Hin|[->|[]]]; [exact (Hy Hin)|apply Hx; left; reflexivity].
  - apply IH. intros Hin. apply Hx. right. exact Hin.
Qed.

Lemma ser_ok_after gw gw' :
  ser_ok gw -> gw_serial gw <= gw_serial gw' ->
  (forall mid gm', assoc_get (gw_mems gw') mid = Some gm' ->
     mem_after gw (gw_serial gw' = gw_serial gw + 1) mid gm') ->
  ser_ok gw'.
Proof.
  intros Hok Hser Hafter mid gm' Hl.
  destruct (Hafter _ _ Hl) as [(gm & Hold & _ & Ht)|(Hb & src & gs & _ & _ & Hs)].
  - destruct (Hok _ _ Hold) as (Hnd & Hlt & Hlen).
    destruct Ht as [S F|Hb S [x [y F]]|S F]; rewrite S, F.
    + conj; [exact Hnd| |exact Hlen]. apply (Forall_impl _ (fun s Hs => Z.lt_le_trans _ _ _ Hs Hser) Hlt).
    + conj.
      * apply NoDup_snoc; [exact Hnd|]. intros Hin. rewrite Forall_forall in Hlt. specialize (Hlt _ Hin). lia.
      * apply Forall_app. split; [apply (Forall_impl _ (fun s Hs => Z.lt_le_trans _ _ _ Hs Hser) Hlt)|].
        constructor; [lia|constructor].
      * rewrite !app_length. cbn [List.length]. lia.
    + conj.
      * unfold drop_last. apply NoDup_firstn. exact Hnd.
      * rewrite Forall_forall in *. intros s Hin. apply drop_last_incl in Hin. specialize (Hlt _ Hin). lia.
      * rewrite !drop_last_length. lia.
  - destruct Hs as [[S [x [y F]]]|[S F]]; rewrite S, F.
    + conj; [constructor; [intros []|constructor]|constructor; [lia|constructor]|reflexivity].
    + conj; [constructor|constructor|reflexivity].
Qed.

(* ---------- what a core operation does to the closure stacks ---------- *)
Definition clone_target (next : Z) (o : mop) : option (Z * Z) :=
  match o with
  | MClone m (Some rid) => Some (rid, m)
  | MClone m None => Some (next, m)
  | _ => None
  end.

Definition clos_after_g (gw : gworld) (o : mop) (mid : Z) (gm' : mem) : Prop :=
  match clone_target (gw_next_mem gw) o with
  | Some (t, src) =>
      if t =? mid then exists gs, assoc_get (gw_mems gw) src = Some gs /\ m_clos gm' = copied_clos gs
      else exists gm, assoc_get (gw_mems gw) mid = Some gm /\ m_clos gm' = m_clos gm
  | None => exists gm, assoc_get (gw_mems gw) mid = Some gm /\ m_clos gm' = m_clos gm
  end.

Definition copied_clos_a (am : amem) : list aframe := match last_opt (am_clos am) with Some f => [f] | None => [] end.

Definition clos_after_a (aw : aworld) (o : mop) (mid : Z) (am' : amem) : Prop :=
  match clone_target (aw_next_mem aw) o with
  | Some (t, src) =>
      if t =? mid then exists gs, assoc_get (aw_mems aw) src = Some gs /\ am_clos am' = copied_clos_a gs
      else exists am, assoc_get (aw_mems aw) mid = Some am /\ am_clos am' = am_clos am
  | None => exists am, assoc_get (aw_mems aw) mid = Some am /\ am_clos am' = am_clos am
  end.

Lemma set_clos_g (l : list (Z * mem)) mid0 m0 m1 mid gm' :
  assoc_get l mid0 = Some m0 -> m_clos m1 = m_clos m0 ->
  assoc_get (assoc_set l mid0 m1) mid = Some gm' -> exists gm, assoc_get l mid = Some gm /\ m_clos gm' = m_clos gm.
Proof.
  intros H0 Hc H. destruct (Z.eq_dec mid0 mid) as [->|NE].
  - rewrite assoc_get_set_same in H. injection H as <-. eauto.
  - rewrite assoc_get_set_other in H by exact NE. eauto.
Qed.

Lemma set_clos_a (l : list (Z * amem)) mid0 m0 m1 mid gm' :
  assoc_get l mid0 = Some m0 -> am_clos m1 = am_clos m0 ->
  assoc_get (assoc_set l mid0 m1) mid = Some gm' -> exists gm, assoc_get l mid = Some gm /\ am_clos gm' = am_clos gm.
Proof.
  intros H0 Hc H. destruct (Z.eq_dec mid0 mid) as [->|NE].
  - rewrite assoc_get_set_same in H. injection H as <-. eauto.
  - rewrite assoc_get_set_other in H by exact NE. eauto.
Qed.

Lemma g_clos_after gw o : core_op o = true -> (forall w, snd (g_step gw o) <> OAbort w) ->
  forall mid gm', assoc_get (gw_mems (fst (g_step gw o))) mid = Some gm' -> clos_after_g gw o mid gm'.
Proof.
  intros Hc Hna mid gm' H. unfold clos_after_g.
  destruct o; try discriminate Hc; cbn [clone_target]; unfold g_step in *.
  - destruct (assoc_get (gw_mems gw) m) as [gm|] eqn:E; cbn [req obind fst snd] in *; [|exfalso; exact (Hna _ eq_refl)].
    destruct (mPush gm v) as [[m' g]|w] eqn:EP; cbn [obind fst snd] in *; [|exfalso; exact (Hna _ eq_refl)].
    destruct (mPush_facts gm v _ EP) as (C & _). cbn [gset gw_mems fst] in *. exact (set_clos_g _ _ _ _ _ _ E C H).
  - destruct (assoc_get (gw_mems gw) m) as [gm|] eqn:E; cbn [req obind fst snd] in *; [|exfalso; exact (Hna _ eq_refl)].
    destruct (mPop gm) as [[m' g]|w] eqn:EP; cbn [obind fst snd] in *; [|exfalso; exact (Hna _ eq_refl)].
    destruct (mPop_facts gm _ EP) as (C & _). cbn [gset gw_mems fst] in *. exact (set_clos_g _ _ _ _ _ _ E C H).
  - destruct (assoc_get (gw_mems gw) m) as [gm|] eqn:E; cbn [req obind fst snd] in *; [|exfalso; exact (Hna _ eq_refl)].
    destruct (mPushFrame gm a l (gw_serial gw)) as [[m' g]|w] eqn:EP; cbn [obind fst snd] in *; [|exfalso; exact (Hna _ eq_refl)].
    destruct (mPushFrame_facts gm a l _ _ EP) as (C & _). cbn [gset gw_mems fst] in *. exact (set_clos_g _ _ _ _ _ _ E C H).
  - destruct (assoc_get (gw_mems gw) m) as [gm|] eqn:E; cbn [req obind fst snd] in *; [|exfalso; exact (Hna _ eq_refl)].
    destruct (mPopFrame gm) as [m'|w] eqn:EP; cbn [obind fst snd] in *; [|exfalso; exact (Hna _ eq_refl)].
    destruct (mPopFrame_facts gm _ EP) as (C & _). cbn [gset gw_mems fst] in *. exact (set_clos_g _ _ _ _ _ _ E C H).
  - destruct (assoc_get (gw_mems gw) m) as [gm|] eqn:E; cbn [req obind fst snd] in *; [|exfalso; exact (Hna _ eq_refl)].
    destruct (mSet gm i v) as [m'|w] eqn:EP; cbn [obind fst snd] in *; [|exfalso; exact (Hna _ eq_refl)].
    destruct (mSet_facts gm i v _ EP) as (C & _). cbn [gset gw_mems fst] in *. exact (set_clos_g _ _ _ _ _ _ E C H).
  - destruct (assoc_get (gw_mems gw) m) as [gm|] eqn:E; cbn [req obind fst snd] in *; [|exfalso; exact (Hna _ eq_refl)].
    destruct (mLookUpLocal gm i); cbn [obind fst snd] in *; [|exfalso; exact (Hna _ eq_refl)]. eauto.
  - cbn [fst gw_mems] in H. eauto.
  - cbn [fst] in H. eauto.
  - destruct (assoc_get (gw_mems gw) m) as [gm|] eqn:E; cbn [req obind fst snd] in *; [|exfalso; exact (Hna _ eq_refl)].
    destruct reuse as [rid|].
    + destruct (assoc_get (gw_mems gw) rid) as [gr|] eqn:ER; cbn [req obind fst snd] in *; [|exfalso; exact (Hna _ eq_refl)].
      destruct (mCloneReuse gm gr (gw_serial gw)) as [c|w] eqn:EC; cbn [obind fst snd] in *; [|exfalso; exact (Hna _ eq_refl)].
      destruct (mCloneReuse_facts gm gr _ _ EC) as (C & _). cbn [gw_mems] in H.
      destruct (Z.eqb_spec rid mid) as [->|NE].
      * rewrite assoc_get_set_same in H. injection H as <-. eauto.
      * rewrite assoc_get_set_other in H by exact NE. eauto.
    + destruct (mClone gm (gw_serial gw)) as [c|w] eqn:EC; cbn [obind fst snd] in *; [|exfalso; exact (Hna _ eq_refl)].
      destruct (mClone_facts gm _ _ EC) as (C & _). cbn [gw_mems] in H.
      destruct (Z.eqb_spec (gw_next_mem gw) mid) as [<-|NE].
      * rewrite assoc_get_set_same in H. injection H as <-. eauto.
      * rewrite assoc_get_set_other in H by exact NE. eauto.
  - destruct (assoc_get (gw_mems gw) m) as [gm|] eqn:E; cbn [req obind fst snd] in *; [|exfalso; exact (Hna _ eq_refl)].
    destruct (fp_at gm (-1)) as [le|]; cbn [obind fst snd] in *; [|exfalso; exact (Hna _ eq_refl)].
    destruct (stack_get gm le); cbn [obind fst snd] in *; [|exfalso; exact (Hna _ eq_refl)]. eauto.
  - destruct (assoc_get (gw_mems gw) m) as [gm|] eqn:E; cbn [req obind fst snd] in *; [|exfalso; exact (Hna _ eq_refl)].
    destruct (fp_at gm (-1)) as [le|]; cbn [obind fst snd] in *; [|exfalso; exact (Hna _ eq_refl)].
    destruct (stack_set gm le v) as [m'|w] eqn:EP; cbn [obind fst snd] in *; [|exfalso; exact (Hna _ eq_refl)].
    destruct (stack_set_facts gm le v _ EP) as (C & _). cbn [gset gw_mems fst] in *. exact (set_clos_g _ _ _ _ _ _ E C H).
Qed.

Lemma a_with_ops_clos m ops : am_clos (a_with_ops m ops) = am_clos m.
Proof. unfold a_with_ops. destruct (last_opt (am_acts m)); reflexivity. Qed.

Lemma a_clos_after aw o : core_op o = true -> snd (a_step aw o) <> OIllegal ->
  forall mid am', assoc_get (aw_mems (fst (a_step aw o))) mid = Some am' -> clos_after_a aw o mid am'.
Proof.
  intros Hc Hleg mid am' H. unfold clos_after_a.
  destruct o; try discriminate Hc; cbn [clone_target]; unfold a_step in *.
  - destruct (assoc_get (aw_mems aw) m) as [am|] eqn:E; cbn [opt_obs fst snd] in *; [|congruence].
    cbn [aset aw_mems] in H. exact (set_clos_a _ _ _ _ _ _ E (a_with_ops_clos _ _) H).
  - destruct (assoc_get (aw_mems aw) m) as [am|] eqn:E; cbn [opt_obs fst snd] in *; [|congruence].
    destruct (last_opt (a_ops am)); cbn [opt_obs fst snd] in *; [|congruence].
    cbn [aset aw_mems] in H. exact (set_clos_a _ _ _ _ _ _ E (a_with_ops_clos _ _) H).
  - destruct (assoc_get (aw_mems aw) m) as [am|] eqn:E; cbn [opt_obs fst snd] in *; [|congruence].
    destruct ((a <? 0) || (l <? a) || (zlen (a_ops am) <? a)); cbn [opt_obs fst snd] in *; [congruence|].
    cbn [aset aw_mems] in H. refine (set_clos_a _ _ _ _ _ _ E _ H). cbn [am_clos]. apply a_with_ops_clos.
  - destruct (assoc_get (aw_mems aw) m) as [am|] eqn:E; cbn [opt_obs fst snd] in *; [|congruence].
    destruct (am_acts am); cbn [opt_obs fst snd] in *; [congruence|].
    cbn [aset aw_mems] in H. refine (set_clos_a _ _ _ _ _ _ E _ H); reflexivity.
  - destruct (assoc_get (aw_mems aw) m) as [am|] eqn:E; cbn [opt_obs fst snd] in *; [|congruence].
    destruct (last_opt (am_acts am)) as [a|]; cbn [opt_obs fst snd] in *; [|congruence].
    destruct ((0 <=? i) && (i <? zlen (aa_locals a))); cbn [opt_obs fst snd] in *; [|congruence].
    cbn [aset aw_mems] in H. refine (set_clos_a _ _ _ _ _ _ E _ H); reflexivity.
  - destruct (assoc_get (aw_mems aw) m) as [am|] eqn:E; cbn [opt_obs fst snd] in *; [|congruence].
    destruct (last_opt (am_acts am)) as [a|]; cbn [opt_obs fst snd] in *; [|congruence].
    destruct (znth (aa_locals a) i); cbn [opt_obs fst snd] in *; [|congruence]. eauto.
  - cbn [opt_obs fst aw_mems] in H. eauto.
  - cbn [opt_obs fst] in H. eauto.
  - destruct (assoc_get (aw_mems aw) m) as [am|] eqn:E; cbn [opt_obs fst snd] in *; [|congruence].
    destruct reuse as [rid|].
    + destruct (assoc_get (aw_mems aw) rid) as [ar|] eqn:ER; cbn [opt_obs fst snd] in *; [|congruence].
      destruct (rid =? m); cbn [opt_obs fst snd] in *; [congruence|]. cbn [aw_mems] in H.
      destruct (Z.eqb_spec rid mid) as [->|NE].
      * rewrite assoc_get_set_same in H. injection H as <-. eauto.
      * rewrite assoc_get_set_other in H by exact NE. eauto.
    + cbn [opt_obs fst snd aw_mems] in H.
      destruct (Z.eqb_spec (aw_next_mem aw) mid) as [<-|NE].
      * rewrite assoc_get_set_same in H. injection H as <-. eauto.
      * rewrite assoc_get_set_other in H by exact NE. eauto.
  - destruct (assoc_get (aw_mems aw) m) as [am|] eqn:E; cbn [opt_obs fst snd] in *; [|congruence].
    destruct (last_opt (am_acts am)) as [a|]; cbn [opt_obs fst snd] in *; [|congruence].
    destruct (aa_ops a); cbn [opt_obs fst snd] in *; [congruence|]. eauto.
  - destruct (assoc_get (aw_mems aw) m) as [am|] eqn:E; cbn [opt_obs fst snd] in *; [|congruence].
    destruct (last_opt (am_acts am)) as [a|]; cbn [opt_obs fst snd] in *; [|congruence].
    destruct (aa_ops a); cbn [opt_obs fst snd] in *; [congruence|].
    cbn [aset aw_mems] in H. exact (set_clos_a _ _ _ _ _ _ E (a_with_ops_clos _ _) H).
Qed.

Lemma a_handles_core aw o : core_op o = true -> aw_handles (fst (a_step aw o)) = aw_handles aw.
Proof.
  intros Hc. destruct o; try discriminate Hc; unfold a_step;
    repeat match goal with
           | |- context [match ?x with _ => _ end] => destruct x; cbn [opt_obs fst aset aw_handles]
           end; reflexivity.
Qed.
