(* SemProofs.v — the documented language rules, as theorems about the
   definitional semantics (so that the oracle used for C01/C02/C03/C04/C12 is
   itself pinned to the language description). *)
Require Import Calc.Base Calc.Bytecode Calc.Value Calc.FloatText Calc.Ast Calc.Compile Calc.VM Calc.Sem.
Open Scope Z_scope.

(* one unfolding of the evaluator *)
Lemma eval_S n t e st : eval (S n) t e st =
  ltac:(let r := eval cbv beta iota delta [eval] in (eval (S n) t e st) in exact r).
Proof. reflexivity. Qed.

(* ---- strict left-to-right evaluation of binary operators ---- *)
Lemma sem_binop n op c l r e st :
  binop_opcode op = Some c ->
  eval (S n) (NBin op l r) e st =
    bind (eval n l e st) (fun st1 a => bind (eval n r e st1) (fun st2 b => lift_res st2 (apply_binop c a b))).
Proof. intros H. cbn [eval]. rewrite H. reflexivity. Qed.

(* the left operand's failure wins, the right operand is not evaluated *)
Lemma sem_binop_left_error n op c l r e st st1 x :
  binop_opcode op = Some c -> eval n l e st = Done st1 (CErr x) ->
  eval (S n) (NBin op l r) e st = Done st1 (CErr x).
Proof. intros H Hl. rewrite (sem_binop _ _ _ _ _ _ _ H), Hl. reflexivity. Qed.

(* both operands are evaluated before the operator can fail *)
Lemma sem_binop_right_error n op c l r e st st1 a st2 x :
  binop_opcode op = Some c -> eval n l e st = Done st1 (CVal a) -> eval n r e st1 = Done st2 (CErr x) ->
  eval (S n) (NBin op l r) e st = Done st2 (CErr x).
Proof. intros H Hl Hr. rewrite (sem_binop _ _ _ _ _ _ _ H), Hl. cbn [bind]. rewrite Hr. reflexivity. Qed.

Lemma sem_binop_values n op c l r e st st1 a st2 b :
  binop_opcode op = Some c -> eval n l e st = Done st1 (CVal a) -> eval n r e st1 = Done st2 (CVal b) ->
  eval (S n) (NBin op l r) e st = lift_res st2 (apply_binop c a b).
Proof. intros H Hl Hr. rewrite (sem_binop _ _ _ _ _ _ _ H), Hl. cbn [bind]. rewrite Hr. reflexivity. Qed.

(* ---- statement values ---- *)
Lemma sem_if_true n c t e st st1 :
  eval n c e st = Done st1 (CVal (VBool true)) ->
  eval (S n) (NIf c t) e st = eval n t e st1.
Proof. intros H. cbn [eval]. rewrite H. reflexivity. Qed.

Lemma sem_if_false_is_nil n c t e st st1 :
  eval n c e st = Done st1 (CVal (VBool false)) ->
  eval (S n) (NIf c t) e st = Done st1 (CVal VNil).
Proof. intros H. cbn [eval]. rewrite H. reflexivity. Qed.

Lemma sem_ifelse n c t f e st st1 b :
  eval n c e st = Done st1 (CVal (VBool b)) ->
  eval (S n) (NIfElse c t f) e st = if b then eval n t e st1 else eval n f e st1.
Proof. intros H. cbn [eval]. rewrite H. reflexivity. Qed.

(* a condition must be a boolean, in if, if-else and while alike *)
Definition cond_error (v : value) : option err :=
  match v with VBool _ => None | VNil => Some ErrNil | _ => Some ErrType end.

Lemma sem_condition_must_be_bool n c t f e st st1 v x :
  eval n c e st = Done st1 (CVal v) -> cond_error v = Some x ->
  eval (S n) (NIf c t) e st = Done st1 (CErr x) /\
  eval (S n) (NIfElse c t f) e st = Done st1 (CErr x).
Proof.
  intros H Hx. cbn [eval]. rewrite H.
  destruct v; cbn in Hx; try discriminate; inversion Hx; subst; split; reflexivity.
Qed.

(* while: the condition is evaluated before every iteration *)
Lemma sem_while_unfold n c b e st :
  eval (S (S n)) (NWhile c b) e st =
    bind (eval (S n) c e st) (fun st1 cv =>
      as_cond st1 cv (fun st2 bb =>
        if bb then bind (eval (S n) b e st2) (fun st3 v =>
          (fix loop (k : nat) (st : sstate) (last : value) : comp :=
             match k with
             | O => Done st CFuel
             | S k' =>
                 bind (eval (S n) c e st) (fun st1 cv =>
                   as_cond st1 cv (fun st2 b0 =>
                     if b0 then bind (eval (S n) b e st2) (fun st3 v => loop k' st3 v)
                     else Done st2 (CVal last)))
             end) n st3 v)
        else Done st2 (CVal VNil))).
Proof. reflexivity. Qed.

Lemma sem_while_false_is_nil n c b e st st1 :
  eval (S n) c e st = Done st1 (CVal (VBool false)) ->
  eval (S (S n)) (NWhile c b) e st = Done st1 (CVal VNil).
Proof. intros H. rewrite sem_while_unfold, H. reflexivity. Qed.

Lemma sem_while_condition_must_be_bool n c b e st st1 v x :
  eval (S n) c e st = Done st1 (CVal v) -> cond_error v = Some x ->
  eval (S (S n)) (NWhile c b) e st = Done st1 (CErr x).
Proof.
  intros H Hx. rewrite sem_while_unfold, H.
  destruct v; cbn in Hx; try discriminate; inversion Hx; subst; reflexivity.
Qed.

Lemma sem_block_single n x e st : eval (S n) (NBlock [x]) e st = eval n x e st.
Proof. reflexivity. Qed.

Lemma sem_block_cons n x y r e st st1 v :
  eval n x e st = Done st1 (CVal v) ->
  eval (S n) (NBlock (x :: y :: r)) e st = eval (S n) (NBlock (y :: r)) e st1.
Proof. intros H. cbn [eval]. rewrite H. reflexivity. Qed.

(* a failing or returning statement ends the block *)
Lemma sem_block_stops n x y r e st st1 c :
  eval n x e st = Done st1 c -> (forall v, c <> CVal v) ->
  eval (S n) (NBlock (x :: y :: r)) e st = Done st1 c.
Proof.
  intros H Hc. cbn [eval]. rewrite H. destruct c; try reflexivity. exfalso. eapply Hc. reflexivity.
Qed.

Lemma sem_return n t e st st1 v :
  eval n t e st = Done st1 (CVal v) -> eval (S n) (NReturn t) e st = Done st1 (CRet v).
Proof. intros H. cbn [eval]. rewrite H. reflexivity. Qed.

(* assignment: the value assigned; assigning nil is an error *)
Lemma sem_assign_global n name rhs e st st1 v :
  eval n rhs e st = Done st1 (CVal v) -> v <> VNil ->
  eval (S n) (NAssign (NName name) rhs) e st = Done (set_global st1 name v) (CVal v).
Proof.
  intros H Hv. cbn [eval]. rewrite H. cbn [bind]. unfold assign.
  destruct v; try reflexivity. congruence.
Qed.

Lemma sem_assign_nil n target rhs e st st1 :
  eval n rhs e st = Done st1 (CVal VNil) ->
  eval (S n) (NAssign target rhs) e st = Done st1 (CErr ErrNil).
Proof. intros H. cbn [eval]. rewrite H. reflexivity. Qed.

(* a yield hands its value out and evaluates to that value when resumed *)
Lemma sem_yield n t e st st1 v :
  eval n t e st = Done st1 (CVal v) ->
  exists k, eval (S n) (NYield t) e st = Yield st1 v k /\ forall st2, k st2 = Done st2 (CVal v).
Proof. intros H. cbn [eval]. rewrite H. eexists. split; [reflexivity|]. reflexivity. Qed.

(* calling something that is not a function is a type error; a wrong number
   of arguments is an arity error (arguments are evaluated first) *)
Lemma sem_call_non_function n name e st v :
  lookup st e name = Done st (CVal v) -> (forall m f, v <> VFun m f) ->
  eval (S n) (NCall name []) e st = Done st (CErr ErrType).
Proof.
  intros H Hv. cbn [eval]. cbn. rewrite H. cbn [bind].
  destruct v; try reflexivity. exfalso. eapply Hv. reflexivity.
Qed.
