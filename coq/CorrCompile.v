(* CorrCompile.v — comparison of the resolver and compiler models with the
   trees, instruction words and constants the Go code produced. *)
Require Import Calc.Base Calc.Bytecode Calc.Value Calc.Ast Calc.Resolve Calc.Compile Calc.CompileWf Calc.Session.
Open Scope Z_scope.

Fixpoint zlist_eqb (a b : list Z) : bool :=
  match a, b with
  | [], [] => true
  | x :: a', y :: b' => (x =? y) && zlist_eqb a' b'
  | _, _ => false
  end.
Fixpoint vlist_same (a b : list value) : bool :=
  match a, b with
  | [], [] => true
  | x :: a', y :: b' => vsame x y && vlist_same a' b'
  | _, _ => false
  end.

(* one top-level tree: (parsed, resolved by Go, appended CS, appended DS) *)
Definition stmt_case := (node * node * list Z * list value)%type.

(* a session: the statements in order (only those that compiled in Go) *)
Fixpoint chk_compile_from (s : cstate) (l : list stmt_case) : bool :=
  match l with
  | [] => true
  | (ast, res, cs, ds) :: r =>
      match strewrite ast with
      | None => false
      | Some res' =>
          node_eqb res' res &&
          match ByteCode res' s with
          | CompOk s' =>
              zlist_eqb (skipn (Z.to_nat (ncs s)) (cs_of s')) cs &&
              vlist_same (skipn (Z.to_nat (nds s)) (ds_of s')) ds &&
              chk_compile_from s' r
          | _ => false
          end
      end
  end.

Definition chk_compile (l : list stmt_case) : bool :=
  match load_builtins with
  | Some s => chk_compile_from s l
  | None => false
  end.

(* the resolved trees of a run lie in the domain of the compiler theorem (CompileLoops.v) *)
Definition chk_wfb (l : list node) : bool := forallb wfb l.
