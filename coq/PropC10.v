(* PropC10.v — C10: values are immutable.

   The Coq values of the semantics and of the VM model are mathematical lists:
   there the property holds by construction.  What needs an argument is the Go
   representation: arrays are slices that share backing arrays, and append
   writes in place when capacity allows.  Slice.v models exactly that, with
   calc's array operations written with the Go primitives the code uses
   (copy, then append); the theorem is about every sequence of operations and
   every choice of capacities by the Go runtime.  The model is compared with
   the real value.Type (values, slice lengths and capacities) on every run. *)
Require Import Calc.Base Calc.Bytecode Calc.Value Calc.Slice Calc.SliceProofs.

Theorem C10_existing_values_never_change : forall ops1 ops2 fuel i s,
  forallb uses_clone (ops1 ++ ops2) = true ->
  nth_error (st_pool (s_run ops1)) i = Some s ->
  nth_error (st_pool (s_run (ops1 ++ ops2))) i = Some s /\
  vis fuel (st_heap (s_run (ops1 ++ ops2))) s = vis fuel (st_heap (s_run ops1)) s.
Proof. exact existing_values_never_change. Qed.
Print Assumptions C10_existing_values_never_change.

(* one step, from any well-formed state: what exists is untouched *)
Theorem C10_step_touches_nothing_existing : forall st o,
  inv st -> uses_clone o = true ->
  inv (s_step st o) /\
  (forall a, a < List.length (st_heap st) -> cells (st_heap (s_step st o)) a = cells (st_heap st) a) /\
  exists x, st_pool (s_step st o) = st_pool st ++ [x].
Proof.
  intros st o Hi Hu. destruct (step_keeps st o Hi Hu) as (A & B & _ & C). auto.
Qed.
Print Assumptions C10_step_touches_nothing_existing.

(* the copy is what makes it true: without it a value changes *)
Theorem C10_without_copy_refuted :
  exists ops1 ops2 i s,
    nth_error (st_pool (s_run ops1)) i = Some s /\
    vis 5 (st_heap (s_run (ops1 ++ ops2))) s <> vis 5 (st_heap (s_run ops1)) s.
Proof. exact without_copy_values_change. Qed.
Print Assumptions C10_without_copy_refuted.

(* the hypotheses are met by a real history *)
Example C10_nonvacuous :
  forallb uses_clone [OLit [VInt 1; VInt 2; VInt 3]; OSub 0 0 2; OLit [VInt 9]; OConcat 1 2 1 0; OPack [0; 3] 2; OIndex 4 1] = true /\
  visible (s_run [OLit [VInt 1; VInt 2; VInt 3]; OSub 0 0 2; OLit [VInt 9]; OConcat 1 2 1 0; OPack [0; 3] 2; OIndex 4 1])
  = [VArr [VInt 1; VInt 2; VInt 3]; VArr [VInt 1; VInt 2]; VArr [VInt 9]; VArr [VInt 1; VInt 2; VInt 9];
     VArr [VArr [VInt 1; VInt 2; VInt 3]; VArr [VInt 1; VInt 2; VInt 9]]; VArr [VInt 1; VInt 2; VInt 9]].
Proof. split; vm_compute; reflexivity. Qed.

Require Import Calc.FloatText Calc.Compile Calc.VM Calc.StepCode.

(* ---- program constants (VM model) ----
   Every literal of the program text lives in the data segment.  No instruction
   writes it: after any number of steps, whatever the outcome (value, runtime
   error with its reset, exit), the code segment, the data segment and the
   debug table are what they were; so a literal is the same value every time
   control passes over it. *)
Theorem C10_program_constants_never_change : forall fuel v r b,
  v_ds (fst (run_loop fuel v r b)) = v_ds v /\ v_cs (fst (run_loop fuel v r b)) = v_cs v.
Proof.
  intros fuel v r b. pose proof (run_keeps_program fuel v r b) as H. unfold code_of in H. inversion H. split; reflexivity || assumption.
Qed.
Print Assumptions C10_program_constants_never_change.

Theorem C10_constant_read_is_stable : forall v r b v' r' addr,
  step v r b = SNext v' r' -> znth (v_ds v') addr = znth (v_ds v) addr.
Proof. exact constants_survive_a_step. Qed.
Print Assumptions C10_constant_read_is_stable.
