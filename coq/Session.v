(* Session.v — the compile side of a session: builtin.Load and per-statement
   resolve + compile as cmd/calc and processInput do. *)
Require Import Calc.Base Calc.Bytecode Calc.Value Calc.Ast Calc.Resolve Calc.Compile Calc.GenBuiltins.
Open Scope Z_scope.

(* builtin.Load: each definition is resolved and compiled with ByteCodeNoStck *)
Definition load_builtins : option cstate :=
  fold_left (fun acc d =>
               match acc with
               | None => None
               | Some s =>
                   match strewrite d with
                   | None => None
                   | Some d' => match ByteCodeNoStck d' s with
                                | CompOk s' => Some s'
                                | _ => None
                                end
                   end
               end) builtin_defs (Some cstate0).

Definition cs_of (s : cstate) : list Z := rev (rcs s).
Definition ds_of (s : cstate) : list value := rev (rds s).

(* ---------------------------------------------------------------------- *)
(* Running a session on the VM model, as cmd/calc_test.go / processInput do *)
Require Import Calc.FloatText Calc.VM.

Definition session_fuel : nat := Z.to_nat 400000.

Record machine := { mc_cs : cstate; mc_vm : vm }.

Definition machine_new : option machine :=
  match load_builtins with
  | Some s => Some {| mc_cs := s; mc_vm := load_code vm_new s |}
  | None => None
  end.

Inductive tree_result :=
| TValue (x : value)
| TError (e : err) (report : string)
| TRefused                 (* compile error: program too large *)
| TAbort (why : string)
| TExit (code : Z)
| TFuel.

Definition clear_out (v : vm) : vm :=
  {| v_cs := v_cs v; v_ncs := v_ncs v; v_ds := v_ds v; v_dbg := v_dbg v; v_globals := v_globals v;
     v_mems := v_mems v; v_ctxs := v_ctxs v; v_frames := v_frames v; v_next := v_next v;
     v_out := []; v_in := v_in v; v_dead_read := v_dead_read v; v_grew_captured := v_grew_captured v |}.

(* one top-level tree: resolve, compile, run.  nostck = file mode (ByteCodeNoStck, Run(false)) *)
Definition run_tree (nostck : bool) (mc : machine) (ast : node) : machine * tree_result :=
  match strewrite ast with
  | None => (mc, TAbort "STRewrite panicked")
  | Some t =>
      match (if nostck then ByteCodeNoStck t (mc_cs mc) else ByteCode t (mc_cs mc)) with
      | CompAbort w => (mc, TAbort w)
      | CompRefused s => ({| mc_cs := s; mc_vm := mc_vm mc |}, TRefused)
      | CompOk s =>
          let v := load_code (mc_vm mc) s in
          let (v', r) := Run session_fuel v (negb nostck) in
          ({| mc_cs := s; mc_vm := v' |},
           match r with
           | RValue x => TValue x
           | RError e rep => TError e rep
           | RAbort w => TAbort w
           | RExit c => TExit c
           | RFuel => TFuel
           end)
      end
  end.

Definition out_text (v : vm) : string := String.concat "" (rev (v_out v)).

(* sp, frames, len(fp), closures, len(stack), main ip, live contexts, len(CS), len(DS) *)
Definition counters (mc : machine) : list Z :=
  let v := mc_vm mc in
  match assoc_get (v_mems v) 0, assoc_get (v_ctxs v) 0 with
  | Some m, Some c =>
      [m_sp m; mCallDepth m; zlen (m_fp m); zlen (m_clos m); zlen (m_stack m); c_ip c;
       zlen (v_ctxs v) - 1; ncs (mc_cs mc); nds (mc_cs mc)]
  | _, _ => []
  end.
