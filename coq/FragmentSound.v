(* FragmentSound.v — the checkers CorrFragment.v evaluates on the trees of a run are sound for the premises of
   the session theorems: what the evidence counts as covered is covered. *)
Require Import Calc.Sem.
Require Import Calc.Base Calc.Bytecode Calc.Value Calc.FloatText Calc.Ast Calc.Resolve Calc.Compile Calc.VM
        Calc.Session Calc.CorrSession Calc.SemSession Calc.CompileWf
        Calc.ExprSem Calc.ExprAssign Calc.ExprLen Calc.ExprSession Calc.LExprSem Calc.StmtSem Calc.StmtRel
        Calc.StmtTop Calc.StmtDef Calc.StmtMixed Calc.StmtModes Calc.StmtStart Calc.CorrFragment.
Require Import Lia.
Open Scope Z_scope.

(* the item a tree is: a definition when lambda_def says so, a statement otherwise *)
Definition item_of (t : node) : item :=
  match lambda_def t with
  | Some _ =>
      match strewrite t with
      | Some (NAssign (NName f) (NFunction ps body _)) => IDef {| fd_tree := t; fd_name := f; fd_params := ps; fd_body := body |}
      | _ => IStmt t
      end
  | None => IStmt t
  end.

Lemma lambda_def_ok t f k : lambda_def t = Some (f, k) ->
  exists ps body lc, strewrite t = Some (NAssign (NName f) (NFunction ps body lc)) /\ lc = zlen ps /\
    lpure (repeat VNil (List.length ps)) body = true /\ is_builtin_leaf f = false /\
    wfb (NAssign (NName f) (NFunction ps body lc)) = true.
Proof.
  unfold lambda_def. destruct (strewrite t) as [t'|]; [|discriminate].
  destruct t'; try discriminate. destruct t'1; try discriminate. destruct t'2; try discriminate.
  destruct ((localcnt =? zlen params) && lpure (repeat VNil (List.length params)) t'2 && negb (is_builtin_leaf n) &&
            wfb (NAssign (NName n) (NFunction params t'2 localcnt))) eqn:E; [|discriminate].
  intros H. injection H as <- _. apply andb_prop in E. destruct E as [E E4]. apply andb_prop in E. destruct E as [E E3].
  apply andb_prop in E. destruct E as [E1 E2]. apply Z.eqb_eq in E1. apply negb_true_iff in E3.
  exists params, t'2, localcnt. repeat split; assumption.
Qed.

Lemma leaf_names f : is_builtin_leaf f = false -> bop_of_name f = None /\ f <> "read"%string.
Proof.
  unfold is_builtin_leaf. destruct (bop_of_name f); [discriminate|]. intros H. split; [reflexivity|].
  intros ->. discriminate H.
Qed.

Theorem tree_ok2_sound FN funs t :
  tree_ok2 FN funs t = true -> (forall f k, lambda_def t = Some (f, k) -> In f FN) ->
  item_ok2 FN (item_of t) /\ item_tree (item_of t) = t.
Proof.
  unfold tree_ok2, item_of. intros H Hin. destruct (lambda_def t) as [[f k]|] eqn:El.
  - destruct (lambda_def_ok t f k El) as (ps & body & lc & Es & Elc & Hp & Hl & Hw). rewrite Es in H |- *.
    destruct (leaf_names f Hl) as [Hb Hr]. split; [|reflexivity]. split.
    + cbn [item_ok]. unfold fdef_ok, fd_resolved, fd_lc. cbn [fd_tree fd_name fd_params fd_body].
      assert (E : Z.of_nat (List.length ps) = lc) by (rewrite Elc; reflexivity). rewrite E.
      repeat split; assumption.
    + cbn [fd_name fd_body]. split; [exact (Hin f k eq_refl)|exact H].
  - apply andb_prop in H. destruct H as [H Hn]. apply andb_prop in H. destruct H as [H _]. apply andb_prop in H. destruct H as [Hw Hb].
    split; [|reflexivity]. split; [split; assumption|exact Hn].
Qed.

Lemma session_names_has trees t f k : In t trees -> lambda_def t = Some (f, k) -> In f (session_names trees).
Proof.
  intros Hin Hl. unfold session_names. apply in_or_app. right. apply in_flat_map. exists t. split; [exact Hin|].
  rewrite Hl. left. reflexivity.
Qed.

Theorem prefix_ok_sound FN : forall trees funs,
  (forall t f k, In t trees -> lambda_def t = Some (f, k) -> In f FN) ->
  Forall (item_ok2 FN) (map item_of (firstn (prefix_ok FN trees funs) trees)) /\
  map item_tree (map item_of (firstn (prefix_ok FN trees funs) trees)) = firstn (prefix_ok FN trees funs) trees.
Proof.
  induction trees as [|t r IH]; intros funs Hin; [split; [constructor|reflexivity]|].
  cbn [prefix_ok]. destruct (tree_ok2 FN funs t) eqn:E; [|split; [constructor|reflexivity]].
  cbn [firstn map].
  destruct (tree_ok2_sound FN funs t E (fun f k H => Hin t f k (or_introl eq_refl) H)) as [H1 H2].
  destruct (IH (match lambda_def t with
                | Some f => f :: filter (fun f0 => negb (existsb (String.eqb (fst f0)) (binds t))) funs
                | None => filter (fun f0 => negb (existsb (String.eqb (fst f0)) (binds t))) funs
                end) (fun t' f k H => Hin t' f k (or_intror H))) as [H3 H4].
  split; [constructor; assumption|]. rewrite H2, H4. reflexivity.
Qed.

(* what the evidence counts: for a session whose first tree leaves a machine that passes the check, the
   compiled-side session theorem holds of the counted prefix of the remaining trees, on that machine *)
Theorem covered_prefix_sound mc0 t1 r :
  machine_new = Some mc0 ->
  let mc1 := fst (run_tree false mc0 t1) in
  let pre := firstn (covered_prefix (t1 :: r)) r in
  mixed (self_tab mc1) mc1 (map item_of pre) /\ map item_tree (map item_of pre) = pre.
Proof.
  intros Hm. cbv zeta. unfold covered_prefix. rewrite Hm.
  destruct (start_ok (fst (run_tree false mc0 t1))) eqn:Es; [|split; [exact I|reflexivity]].
  set (funs := match lambda_def t1 with Some f => [f] | None => [] end).
  destruct (prefix_ok_sound (session_names (t1 :: r)) r funs) as [H1 H2].
  { intros t f k Hin Hl. exact (session_names_has (t1 :: r) t f k (or_intror Hin) Hl). }
  split; [|exact H2].
  apply (checked_start_is_covered _ _ Es).
  eapply Forall_impl; [|exact H1]. intros i [Hi _]. exact Hi.
Qed.

Lemma session_names_builtins trees : incl other_builtins (session_names trees).
Proof. intros g H. unfold session_names. apply in_or_app. left. exact H. Qed.

(* and for the Sem-vs-VM theorem: on the two states after the first tree, sem_tree and run_tree agree on the
   counted prefix as agree says *)
Theorem covered_prefix2_sound mc0 t1 r :
  machine_new = Some mc0 ->
  let st1 := fst (sem_tree sem_init t1) in
  let mc1 := fst (run_tree false mc0 t1) in
  let pre := firstn (covered_prefix2 (t1 :: r)) r in
  agree [] [] (tab_of (s_globals st1)) (self_tab mc1) st1 mc1 (map item_of pre) /\ map item_tree (map item_of pre) = pre.
Proof.
  intros Hm. cbv zeta. unfold covered_prefix2. rewrite Hm.
  destruct (start_ok2 (fst (sem_tree sem_init t1)) (fst (run_tree false mc0 t1))) eqn:Es; [|split; [exact I|reflexivity]].
  set (funs := match lambda_def t1 with Some f => [f] | None => [] end).
  destruct (prefix_ok_sound (session_names (t1 :: r)) r funs) as [H1 H2].
  { intros t f k Hin Hl. exact (session_names_has (t1 :: r) t f k (or_intror Hin) Hl). }
  split; [|exact H2].
  exact (checked_pair_is_covered (session_names (t1 :: r)) _ _ _ Es (session_names_builtins _) H1).
Qed.

(* C16: value mode on the machine the first tree leaves in value mode, file mode on the machine it leaves in
   file mode — the two-machine session theorem holds of the counted prefix *)
Theorem covered_modes_sound mc0 t1 r :
  machine_new = Some mc0 ->
  let mc1 := fst (run_tree false mc0 t1) in
  let mc2 := fst (run_tree true mc0 t1) in
  let pre := firstn (covered_modes (t1 :: r)) r in
  pair false true [] [] (self_tab mc1) (self_tab mc2) mc1 mc2 (map item_of pre) /\ map item_tree (map item_of pre) = pre.
Proof.
  intros Hm. cbv zeta. unfold covered_modes. rewrite Hm.
  destruct (start_ok_modes (fst (run_tree false mc0 t1)) (fst (run_tree true mc0 t1))) eqn:Es; [|split; [exact I|reflexivity]].
  set (funs := match lambda_def t1 with Some f => [f] | None => [] end).
  destruct (prefix_ok_sound (session_names (t1 :: r)) r funs) as [H1 H2].
  { intros t f k Hin Hl. exact (session_names_has (t1 :: r) t f k (or_intror Hin) Hl). }
  split; [|exact H2].
  exact (checked_modes_are_covered (session_names (t1 :: r)) _ _ _ Es (session_names_builtins _) H1).
Qed.
